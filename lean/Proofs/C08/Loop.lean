import Model.C08Loop
import Proofs.C08.World
/-!
The service loops (`Model/C08Loop.lean`) refine the handler-level world: every loop schedule flattens 1-1 into a
`World` schedule, so frame / state edges / heartbeat / registration time lift to every schedule of loop iterations.
-/
namespace PfC08
open Ring C08

/-! ### refinement -/

theorem lrun_w (unreg : Nat → Bool) : ∀ (as : List LAct) (s : LSys),
    (lrun unreg s as).w = World.run s.w (lflatten unreg s as) := by
  intro as
  induction as with
  | nil => intro s; rfl
  | cons a as ih =>
    intro s
    simp only [lrun, List.foldl_cons, lflatten]
    have := ih (lstep unreg s a)
    simp only [lrun] at this
    rw [this]
    cases h : lflat unreg s a with
    | none => simp [lstep, h]
    | some p =>
      obtain ⟨wa, ctl'⟩ := p
      simp [lstep, h, World.run]

/-- what a loop event may run: the process dying, or ONE handler on an accepting store; `ClaimTokensFor` only as an
actor request -/
theorem loopNext_act {unregister : Bool} {c : Cfg} {ctl ctl' : Ctl} {l : Local} {file : File} {store : Option Desc}
    {ev : LEvent} {now : Int} {gen : Gen} {a : Act}
    (h : loopNext unregister c ctl l file store ev now gen = some (a, ctl')) :
    a = .crash ∨ ∃ e, a = .own e now gen .none ∧ ∀ frm, e = .claim frm → ev = .actor (.claim frm) := by
  unfold loopNext at h
  cases hk : c.kind <;> cases ev <;> simp only [hk] at h
  all_goals (try split at h) <;> (try split at h)
  all_goals (try (simp at h; done))
  all_goals (try (simp only [Option.some.injEq, Prod.mk.injEq] at h))
  all_goals (try (obtain ⟨rfl, _⟩ := h))
  all_goals first
    | exact Or.inl rfl
    | (right; exact ⟨_, rfl, by intro frm hf; cases hf; try rfl⟩)
    | skip

/-! ### valid loop schedules -/

/-- the loop schedules the property quantifies over: the clock does not go backwards, `ClaimTokensFor` is asked for
somebody else's tokens, foreign writers respect every lifecycler's frame and keep the ring a map.
(The store accepts the writes: loop events run their handler without a fault.) -/
def LGood (s : LSys) : LAct → Prop
  | .loop i ev now _ => s.w.clock ≤ now ∧
      ∀ nd frm, s.w.nodes[i]? = some nd → ev = .actor (.claim frm) →
        frm ≠ nd.cfg.id
  | .env st now => s.w.clock ≤ now ∧ WF (st.getD []) ∧ ∀ m ∈ s.w.nodes, EnvOK m.cfg.id s.w.store st

def LRunGood (unreg : Nat → Bool) : LSys → List LAct → Prop
  | _, [] => True
  | s, a :: as => LGood s a ∧ LRunGood unreg (lstep unreg s a) as

theorem lgood_wactOK {unreg : Nat → Bool} {s : LSys} {a : LAct} (hg : LGood s a) {wa : WAct} {ctl' : Nat → Ctl}
    (h : lflat unreg s a = some (wa, ctl')) : WActOK s.w wa := by
  cases a with
  | env st now =>
    simp only [lflat, Option.some.injEq, Prod.mk.injEq] at h
    obtain ⟨rfl, _⟩ := h
    unfold WActOK
    cases h0 : s.w.nodes[0]? with
    | none => simp
    | some nd => simp only []; exact hg
  | loop i ev now gen =>
    simp only [lflat] at h
    cases hn : s.w.nodes[i]? with
    | none => simp [hn] at h
    | some nd =>
      simp only [hn] at h
      cases hl : loopNext (unreg i) nd.cfg (s.ctl i) nd.l nd.file s.w.store ev now gen with
      | none => simp [hl] at h
      | some p =>
        obtain ⟨act, c'⟩ := p
        simp only [hl, Option.some.injEq, Prod.mk.injEq] at h
        obtain ⟨rfl, _⟩ := h
        unfold WActOK
        simp only [hn]
        rcases loopNext_act hl with rfl | ⟨e, rfl, hcl⟩
        · trivial
        · refine ⟨rfl, hg.1, ?_⟩
          intro frm hf
          exact hg.2 nd frm hn (hcl frm hf)

theorem lrunGood_flatten (unreg : Nat → Bool) : ∀ (as : List LAct) (s : LSys), LRunGood unreg s as →
    WRunOK s.w (lflatten unreg s as) := by
  intro as
  induction as with
  | nil => intro s _; trivial
  | cons a as ih =>
    intro s h
    simp only [lflatten]
    cases hf : lflat unreg s a with
    | none =>
      have : lstep unreg s a = s := by simp [lstep, hf]
      have h2 := h.2; rw [this] at h2
      exact ih s h2
    | some p =>
      obtain ⟨wa, ctl'⟩ := p
      simp only []
      refine ⟨lgood_wactOK h.1 hf, ?_⟩
      have := ih (lstep unreg s a) h.2
      simpa [lstep, hf] using this

theorem lrunGood_append {unreg : Nat → Bool} {s : LSys} {xs ys : List LAct} :
    LRunGood unreg s (xs ++ ys) ↔ LRunGood unreg s xs ∧ LRunGood unreg (lrun unreg s xs) ys := by
  induction xs generalizing s with
  | nil => simp [LRunGood, lrun]
  | cons a as ih =>
    simp only [List.cons_append, LRunGood, ih, lrun, List.foldl_cons]
    exact and_assoc.symm

/-- the world invariant along every valid loop schedule -/
theorem linv_run (unreg : Nat → Bool) {s : LSys} {as : List LAct} (hI : WInv s.w) (hr : LRunGood unreg s as) :
    WInv (lrun unreg s as).w := by
  rw [lrun_w]
  exact winv_run hI (lrunGood_flatten unreg as s hr)

/-- every loop iteration of every valid schedule treats the published entry of every full lifecycler correctly -/
theorem loop_pub (unreg : Nat → Bool) {s0 : LSys} (h0 : WInv s0.w) (pre : List LAct) (a : LAct)
    (hr : LRunGood unreg s0 (pre ++ [a])) (i : Nat) (nd : Node)
    (hnd : (lrun unreg s0 pre).w.nodes[i]? = some nd) (hk : nd.cfg.kind = .LC) (x y : Inst)
    (hx : Desc.get? ((lrun unreg s0 pre).w.store.getD []) nd.cfg.id = some x)
    (hy : Desc.get? ((lrun unreg s0 (pre ++ [a])).w.store.getD []) nd.cfg.id = some y) : PubOK x y := by
  have hr' := lrunGood_append.mp hr
  have hI := linv_run unreg h0 hr'.1
  have hlast : lrun unreg s0 (pre ++ [a]) = lstep unreg (lrun unreg s0 pre) a := by simp [lrun]
  rw [hlast] at hy
  cases hf : lflat unreg (lrun unreg s0 pre) a with
  | none =>
    have : lstep unreg (lrun unreg s0 pre) a = lrun unreg s0 pre := by simp [lstep, hf]
    rw [this, hx] at hy; cases hy
    exact ⟨edge_refl _, rfl, Int.le_refl _⟩
  | some p =>
    obtain ⟨wa, ctl'⟩ := p
    have hw : (lstep unreg (lrun unreg s0 pre) a).w = (lrun unreg s0 pre).w.next wa := by simp [lstep, hf]
    rw [hw] at hy
    exact (world_step hI (lgood_wactOK hr'.2.1 hf)).2 i nd hnd hk x y hx hy

/-- frame for one loop iteration: whatever the loop of lifecycler `i` does in this iteration, every other entry is
left alone, except the hand-over and auto-forget cases of `FrameOK` -/
theorem loop_frame (unreg : Nat → Bool) (s : LSys) (i : Nat) (ev : LEvent) (now : Int) (gen : Gen) (nd : Node)
    (hwf : WF (s.w.store.getD [])) (hnd : s.w.nodes[i]? = some nd) (k : String) (hk : k ≠ nd.cfg.id) :
    EnvOK k s.w.store (lstep unreg s (.loop i ev now gen)).w.store := by
  cases hf : lflat unreg s (.loop i ev now gen) with
  | none => simp only [lstep, hf]; exact envOK_refl _ _
  | some p =>
    obtain ⟨wa, ctl'⟩ := p
    simp only [lflat, hnd] at hf
    cases hl : loopNext (unreg i) nd.cfg (s.ctl i) nd.l nd.file s.w.store ev now gen with
    | none => simp [hl] at hf
    | some q =>
      obtain ⟨act, c'⟩ := q
      simp only [hl, Option.some.injEq, Prod.mk.injEq] at hf
      obtain ⟨rfl, rfl⟩ := hf
      have hstep : (lstep unreg s (.loop i ev now gen)).w.store =
          (Sys.next nd.cfg (proj s.w nd) act).store := by
        simp [lstep, lflat, hnd, hl, World.next, proj]
      rw [hstep]
      rcases loopNext_act hl with rfl | ⟨e, rfl, _⟩
      · exact envOK_refl _ _
      · exact frame_envOK (din := s.w.store) hwf k hk

/-! ### a running lifecycler stays registered -/

def PresentIn (id : String) (st : Option Desc) : Prop := (Desc.get? (st.getD []) id).isSome = true

theorem present_put_self (d : Desc) (i : Inst) : (Desc.get? (put d i) i.id).isSome = true := by
  rw [get?_put_self]; rfl

/-- every write of a handler other than `unregister` contains the own entry -/
theorem write_has_own {c : Cfg} {l : Local} {file : File} {din : Option Desc} {e : Event} {now : Int} {gen : Gen} {d' : Desc}
    (hne : e ≠ .unregister) (h : (step c l file din e now gen .none).out = .write d') :
    (Desc.get? d' c.id).isSome = true := by
  have hput : ∀ (d : Desc) (i : Inst), i.id = c.id → (Desc.get? (put d i) c.id).isSome = true := by
    intro d i hi; rw [← hi]; exact present_put_self d i
  cases hk : c.kind <;> cases e <;> simp only [step, hk] at h
  case LC.init =>
    cases hg : Desc.get? (din.getD []) c.id with
    | none => simp [lcInit, hg] at h; subst h; exact hput _ _ rfl
    | some inst =>
      by_cases hj : inst.state = .JOINING
      · simp [lcInit, hg, hj] at h; subst h; simp [hg]
      · simp only [lcInit, hg, hj, reduceCtorEq, if_false] at h
        split at h
        · simp only [CasOut.write.injEq] at h; subst h
          exact hput _ _ (by simpa [initInst] using get?_some_id hg)
        · simp at h
  case BLC.init => simp [blcRegister] at h; subst h; exact hput _ _ rfl
  case LC.unregister => exact absurd rfl hne
  case BLC.unregister => exact absurd rfl hne
  all_goals (split at h; · simp [noop] at h)
  all_goals try (simp [noop] at h; done)
  case LC.joinTimer =>
    simp only [lcJoinTimer] at h
    split at h
    · simp [lcAutoJoin] at h; subst h; exact hput _ _ rfl
    · simp at h
  case LC.verify =>
    cases hg : Desc.get? (din.getD []) c.id with
    | none => simp [lcVerify, hg] at h; subst h; exact hput _ _ rfl
    | some e0 =>
      simp only [lcVerify, reduceCtorEq, if_false, hg] at h
      split at h
      · simp at h
      · simp only [CasOut.write.injEq] at h; subst h; exact hput _ _ rfl
  case LC.heartbeat => simp [lcUpdate] at h; subst h; exact hput _ _ rfl
  case LC.changeState =>
    simp only [lcChangeState] at h
    split at h
    · simp [lcUpdate] at h; subst h; exact hput _ _ rfl
    · simp at h
  case LC.changeRO =>
    simp only [lcChangeRO] at h
    split at h
    · simp at h
    · simp [lcUpdate] at h; subst h; exact hput _ _ rfl
  case LC.claim frm _ =>
    cases din with
    | none => simp [lcClaim] at h
    | some d =>
      rw [lcClaim_out (by decide)] at h
      simp only [CasOut.write.injEq] at h
      subst h
      unfold claimOn
      apply hput
      cases hs : Desc.get? (match Desc.get? (claimBase c l d now) frm with
          | some f => put (claimBase c l d now) { f with tokens := [] } | none => claimBase c l d now) c.id with
      | none => rfl
      | some i => simpa using get?_some_id hs
  case BLC.verify =>
    obtain ⟨_, _, inst1, _, _, hid, rfl, _⟩ := blcUpdate_out (keepsId_verify c l gen) h; exact hput _ _ hid
  case BLC.heartbeat =>
    obtain ⟨_, _, inst1, _, _, hid, rfl, _⟩ := blcUpdate_out (keepsId_hb c now) h; exact hput _ _ hid
  case BLC.changeState =>
    obtain ⟨_, _, inst1, _, _, hid, rfl, _⟩ := blcUpdate_out (keepsId_state _) h; exact hput _ _ hid
  case BLC.changeRO =>
    obtain ⟨_, _, inst1, _, _, hid, rfl, _⟩ := blcUpdate_out (keepsId_ro _ _) h; exact hput _ _ hid
  case BLC.stopDelegate =>
    obtain ⟨_, _, inst1, _, _, hid, rfl, _⟩ := blcUpdate_out (keepsId_state _) h; exact hput _ _ hid

def Alive (p : LPhase) : Prop := p = .starting ∨ p = .running ∨ p = .stopping

/-- what an enabled loop event does to the life of the service: if the loop is alive afterwards it ran a handler other
than `unregister`, and that handler was `initRing`/`registerInstance` or the loop was alive before -/
theorem loopNext_alive {unregister : Bool} {c : Cfg} {ctl ctl' : Ctl} {l : Local} {file : File} {store : Option Desc}
    {ev : LEvent} {now : Int} {gen : Gen} {a : Act}
    (h : loopNext unregister c ctl l file store ev now gen = some (a, ctl')) (hal : Alive ctl'.phase) :
    ∃ e, a = .own e now gen .none ∧ e ≠ .unregister ∧ ((∃ sh, e = .init sh) ∨ Alive ctl.phase) := by
  unfold loopNext at h
  unfold Alive at *
  cases hk : c.kind <;> cases ev <;> simp only [hk] at h
  all_goals (try split at h) <;> (try split at h)
  all_goals (try (simp at h; done))
  all_goals (try (simp only [Option.some.injEq, Prod.mk.injEq] at h))
  all_goals (try (obtain ⟨rfl, rfl⟩ := h))
  all_goals (try (simp at hal; done))
  all_goals (try (rename_i hc; simp only [Bool.and_eq_true, Bool.or_eq_true, beq_iff_eq, Bool.not_eq_true', bne_iff_ne, ne_eq] at hc))
  all_goals (refine ⟨_, rfl, ?_, ?_⟩)
  all_goals first
    | (intro he; cases he; done)
    | (intro he; subst he; simp [isActorReq] at hc; done)
    | exact Or.inl ⟨_, rfl⟩
    | (right; simp_all; done)
    | (right; rcases hc with hc | hc <;> simp_all)

theorem loopNext_heartbeat {unregister : Bool} {c : Cfg} {ctl ctl' : Ctl} {l : Local} {file : File} {store : Option Desc}
    {ev : LEvent} {now : Int} {gen : Gen}
    (h : loopNext unregister c ctl l file store ev now gen = some (.own .heartbeat now gen .none, ctl')) : ev = .heartbeat := by
  unfold loopNext at h
  cases hk : c.kind <;> cases ev <;> simp only [hk] at h
  all_goals (try rfl)
  all_goals (try split at h) <;> (try split at h)
  all_goals (try (simp at h; done))
  all_goals (rename_i hc; simp only [Option.some.injEq, Prod.mk.injEq, Act.own.injEq] at h; obtain ⟨⟨h1, _⟩, _⟩ := h;
             subst h1; simp [isActorReq] at hc)

/-- nobody removes somebody else's entry in this act: a foreign writer keeps every entry, a BasicLifecycler heartbeat
with the auto-forget delegate finds no other entry stale -/
def NoRemoval (s : LSys) : LAct → Prop
  | .loop j ev now _ => ∀ nd p, s.w.nodes[j]? = some nd → ev = .heartbeat → nd.cfg.forget = some p →
      ∀ e ∈ s.w.store.getD [], e.id ≠ nd.cfg.id → now - e.ts < p
  | .env st _ => ∀ k, PresentIn k s.w.store → PresentIn k st

/-- every lifecycler whose loop is alive (Starting / Running / Stopping) has its entry in the ring -/
def RegInv (s : LSys) : Prop :=
  ∀ (i : Nat) (nd : Node), s.w.nodes[i]? = some nd → Alive (s.ctl i).phase → PresentIn nd.cfg.id s.w.store

theorem next_nodes_cfg {w : World} {wa : WAct} {i : Nat} {nd' : Node} (h : (w.next wa).nodes[i]? = some nd') :
    ∃ nd, w.nodes[i]? = some nd ∧ nd.cfg = nd'.cfg := by
  unfold World.next at h
  cases hj : w.nodes[wa.idx]? with
  | none => simp only [hj] at h; exact ⟨nd', h, rfl⟩
  | some ndj =>
    simp only [hj] at h
    have hlen : wa.idx < w.nodes.length := (List.getElem?_eq_some_iff.mp hj).1
    simp only [List.getElem?_set] at h
    by_cases hi : wa.idx = i
    · subst hi
      simp only [if_true, hlen] at h
      cases h
      exact ⟨ndj, hj, rfl⟩
    · simp only [hi, if_false] at h
      exact ⟨nd', h, rfl⟩

theorem lstep_registered (unreg : Nat → Bool) {s : LSys} {a : LAct} (hwf : WF (s.w.store.getD [])) (hd : Distinct s.w)
    (hI : RegInv s) (hn : NoRemoval s a) : RegInv (lstep unreg s a) := by
  cases hf : lflat unreg s a with
  | none => simpa [lstep, hf] using hI
  | some p =>
    obtain ⟨wa, ctl'⟩ := p
    intro i nd' hnd' hal
    simp only [lstep, hf] at hnd' hal ⊢
    obtain ⟨nd, hnd, hcfg⟩ := next_nodes_cfg hnd'
    rw [← hcfg]
    cases a with
    | env st now =>
      simp only [lflat, Option.some.injEq, Prod.mk.injEq] at hf
      obtain ⟨rfl, rfl⟩ := hf
      have hpre := hI i nd hnd hal
      unfold World.next
      cases h0 : s.w.nodes[0]? with
      | none => simpa [h0] using hpre
      | some n0 => simp only [h0, Sys.next]; exact hn _ hpre
    | loop j ev now gen =>
      simp only [lflat] at hf
      cases hj : s.w.nodes[j]? with
      | none => simp [hj] at hf
      | some ndj =>
        simp only [hj] at hf
        cases hl : loopNext (unreg j) ndj.cfg (s.ctl j) ndj.l ndj.file s.w.store ev now gen with
        | none => simp [hl] at hf
        | some q =>
          obtain ⟨act, cj⟩ := q
          simp only [hl, Option.some.injEq, Prod.mk.injEq] at hf
          obtain ⟨rfl, rfl⟩ := hf
          have hstore : (s.w.next { idx := j, act := act }).store = (Sys.next ndj.cfg (proj s.w ndj) act).store := by
            simp [World.next, hj, proj]
          unfold PresentIn
          rw [hstore]
          by_cases hij : i = j
          · -- the acting lifecycler itself
            subst hij
            rw [hj] at hnd; cases hnd
            have hal' : Alive cj.phase := by simpa [setCtl] using hal
            obtain ⟨e, rfl, hne, hor⟩ := loopNext_alive hl hal'
            simp only [Sys.next, proj]
            cases ho : (step nd.cfg nd.l nd.file s.w.store e now gen .none).out with
            | write d' => rw [commit_write ho]; exact write_has_own hne ho
            | noCas | declined | cbErr =>
              rw [commit_nowrite (by intro d; rw [ho]; simp)]
              rcases hor with ⟨sh, rfl⟩ | hbefore
              · -- initRing / registerInstance without a write: the entry was there
                cases hk : nd.cfg.kind with
                | BLC => simp [step, hk, blcRegister] at ho
                | LC =>
                  cases hg : Desc.get? (s.w.store.getD []) nd.cfg.id with
                  | some _ => rfl
                  | none => simp [step, hk, lcInit, hg] at ho
              · exact hI i nd hj hbefore
          · -- somebody else acts: frame
            have hal' : Alive (s.ctl i).phase := by simpa [setCtl, hij] using hal
            have hpre := hI i nd hnd hal'
            have hne : nd.cfg.id ≠ ndj.cfg.id := hd i j nd ndj hnd hj hij
            rcases loopNext_act hl with rfl | ⟨e, rfl, hclaim⟩
            · unfold PresentIn at hpre; simpa [Sys.next, proj] using hpre
            · simp only [Sys.next, proj]
              cases ho : (step ndj.cfg ndj.l ndj.file s.w.store e now gen .none).out with
              | write d' =>
                rw [commit_write ho]
                simp only [Option.getD_some]
                rcases frame hwf ho nd.cfg.id hne with h1 | ⟨_, e0, _, _, _, _, h2⟩ | ⟨p, e0, hev, _, hfg, hget, hstale, _⟩
                · rw [h1]; exact hpre
                · rw [h2]; rfl
                · -- auto-forget would need a stale entry: excluded
                  exfalso
                  have hhb : ev = .heartbeat := by subst hev; exact loopNext_heartbeat hl
                  have := hn ndj p hj hhb hfg e0 (get?_some_mem hget) (by rw [get?_some_id hget]; exact hne)
                  omega
              | noCas | declined | cbErr =>
                rw [commit_nowrite (by intro d; rw [ho]; simp)]; exact hpre

def LRunKeeps (unreg : Nat → Bool) : LSys → List LAct → Prop
  | _, [] => True
  | s, a :: as => LGood s a ∧ NoRemoval s a ∧ LRunKeeps unreg (lstep unreg s a) as

theorem lrunKeeps_good {unreg : Nat → Bool} : ∀ {as : List LAct} {s : LSys}, LRunKeeps unreg s as → LRunGood unreg s as := by
  intro as
  induction as with
  | nil => intro s _; trivial
  | cons a as ih => intro s h; exact ⟨h.1, ih h.2.2⟩

/-- a running lifecycler stays registered: along every valid loop schedule in which nobody removes other instances'
entries, every lifecycler whose service is Starting, Running or Stopping has its entry in the ring -/
theorem lrun_registered (unreg : Nat → Bool) : ∀ (as : List LAct) (s : LSys), WInv s.w → RegInv s →
    LRunKeeps unreg s as → RegInv (lrun unreg s as) := by
  intro as
  induction as with
  | nil => intro s _ h _; exact h
  | cons a as ih =>
    intro s hw hI hr
    simp only [lrun, List.foldl_cons]
    have hw' : WInv (lstep unreg s a).w := by
      have := linv_run unreg (as := [a]) hw ⟨hr.1, trivial⟩
      simpa [lrun] using this
    exact ih (lstep unreg s a) hw' (lstep_registered unreg hw.1 hw.2.1 hI hr.2.1) hr.2.2

/-! ### stopping -/

/-- `ctx.Done()` of a running, ACTIVE full lifecycler: the loop leaves `running`, and what it writes is its own
entry in state LEAVING (ring tokens kept) -/
theorem lc_stop_leaving {unregister : Bool} {c : Cfg} {ctl : Ctl} {l : Local} {file : File} {store : Option Desc}
    {now : Int} {gen : Gen} (hk : c.kind = .LC) (hp : ctl.phase = .running) (hpend : ctl.pending = false)
    (hs : l.started = true) (ha : l.state = .ACTIVE) :
    loopNext unregister c ctl l file store .stop now gen =
      some (.own (.changeState .LEAVING) now gen .none, { ctl with phase := .stopping }) ∧
    ∃ b, (step c l file store (.changeState .LEAVING) now gen .none).out = .write (put (store.getD []) b) ∧
      b.id = c.id ∧ b.state = .LEAVING ∧ (∀ e, Desc.get? (store.getD []) c.id = some e → b.tokens = e.tokens) := by
  refine ⟨by simp [loopNext, hk, hp, hpend], ?_⟩
  have hal : allowed l.state .LEAVING = true := by rw [ha]; rfl
  simp only [step, hk, hs, Bool.not_true, Bool.false_eq_true, if_false, lcChangeState, hal, if_true, lcUpdate, reduceCtorEq]
  refine ⟨_, rfl, rfl, ?_, ?_⟩
  · cases Desc.get? (store.getD []) c.id <;> rfl
  · intro e he; simp [he, lcInst]

/-- `ctx.Done()` of a running BasicLifecycler whose entry is in the ring: afterwards the entry is LEAVING -/
theorem blc_stop_leaving {unregister : Bool} {c : Cfg} {ctl : Ctl} {l : Local} {file : File} {d : Desc} {e : Inst}
    {now : Int} {gen : Gen} (hk : c.kind = .BLC) (hp : ctl.phase = .running) (hs : l.started = true)
    (he : Desc.get? d c.id = some e) :
    loopNext unregister c ctl l file (some d) .stop now gen =
      some (.own .stopDelegate now gen .none, { ctl with phase := .stopping }) ∧
    ∃ b, Desc.get? ((commit (some d) (step c l file (some d) .stopDelegate now gen .none) .none).getD []) c.id = some b ∧
      b.state = .LEAVING ∧ b.tokens = e.tokens ∧ b.regTs = e.regTs := by
  refine ⟨by simp [loopNext, hk, hp], ?_⟩
  by_cases hl : e.state = .LEAVING
  · refine ⟨e, ?_, hl, rfl, rfl⟩
    simp [step, hk, hs, blcUpdateInstance, he, updState, hl, commit]
  · refine ⟨{ e with state := .LEAVING, ts := now }, ?_, rfl, rfl, rfl⟩
    have hid := get?_some_id he
    simp [step, hk, hs, blcUpdateInstance, he, updState, hl, commit]
    rw [get?_put]; simp [hid]

/-- `stopDone`: the service terminates; it removes its OWN entry and nothing else iff configured to unregister,
and writes nothing otherwise -/
theorem stopDone_per_config {unregister : Bool} {c : Cfg} {ctl : Ctl} {l : Local} {file : File} {d : Desc}
    {now : Int} {gen : Gen} (hp : ctl.phase = .stopping) (hs : l.started = true) :
    ∃ a, loopNext unregister c ctl l file (some d) .stopDone now gen = some (a, { phase := .terminated }) ∧
      (unregister = false → a = .crash) ∧
      (unregister = true → a = .own .unregister now gen .none ∧
        (step c l file (some d) .unregister now gen .none).out = .write (erase d c.id) ∧
        Desc.get? (erase d c.id) c.id = none ∧ ∀ k, k ≠ c.id → Desc.get? (erase d c.id) k = Desc.get? d k) := by
  cases hk : c.kind <;> cases unregister <;>
    simp [loopNext, hk, hp, step, hs, lcUnregister, blcUnregister, get?_erase_self] <;>
    exact fun k hk' => get?_erase_other d c.id k hk'

/-! ### readiness, for every loop schedule -/

theorem lcUpdate_started {c : Cfg} {l : Local} {file : File} {din : Option Desc} {now : Int} (hs : l.started = true) :
    (lcUpdate c l file din now .none).l.started = true := by
  simp only [lcUpdate, reduceCtorEq, if_false]; cases Desc.get? (din.getD []) c.id <;> simp [hs]

theorem step_started {c : Cfg} {l : Local} {file : File} {din : Option Desc} {e : Event} {now : Int} {gen : Gen}
    (hs : l.started = true ∨ ∃ sh, e = .init sh) : (step c l file din e now gen .none).l.started = true := by
  cases hk : c.kind <;> cases e
  case LC.init =>
    simp only [step, hk, lcInit, reduceCtorEq, if_false]
    cases Desc.get? (din.getD []) c.id with
    | none => rfl
    | some inst => simp only []; split <;> rfl
  case BLC.init => simp [step, hk, blcRegister]
  all_goals (have hs' : l.started = true := by rcases hs with h | ⟨_, h⟩ <;> first | exact h | cases h)
  all_goals simp only [step, hk, hs', Bool.not_true, Bool.false_eq_true, if_false]
  all_goals try (simp [noop, hs']; done)
  case LC.joinTimer =>
    simp only [lcJoinTimer]; split
    · cases hg : Desc.get? (din.getD []) c.id <;> simp [lcAutoJoin, hg, hs']
    · simp [hs']
  case LC.verify => cases hg : Desc.get? (din.getD []) c.id <;> simp [lcVerify, hg, hs']
  case LC.heartbeat => exact lcUpdate_started hs'
  case LC.changeState =>
    simp only [lcChangeState]; split
    · exact lcUpdate_started (l := { l with state := _ }) hs'
    · exact hs'
  case LC.changeRO =>
    simp only [lcChangeRO]; split
    · exact hs'
    · exact lcUpdate_started (l := { l with ro := _, roTs := _ }) hs'
  case LC.claim =>
    cases din with
    | none => simp [lcClaim, hs']
    | some d => cases hg : Desc.get? d c.id <;> simp [lcClaim, hg, hs']
  case LC.unregister => cases din <;> simp [lcUnregister, hs']
  case LC.checkReady => exact (lcCheckReady_keeps c l din now _).1.trans hs'
  all_goals first
    | (simp only [blcUpdateInstance, reduceCtorEq, if_false]; simp [hs'])
    | (cases din <;> simp [blcUnregister, hs'])
    | simp [hs']

/-- a lifecycler whose loop is alive has run `initRing` / `registerInstance` -/
def StartedInv (s : LSys) : Prop :=
  ∀ (i : Nat) (nd : Node), s.w.nodes[i]? = some nd → Alive (s.ctl i).phase → nd.l.started = true

theorem next_nodes_l {w : World} {j : Nat} {act : Act} {i : Nat} {nd' : Node} (h : (w.next { idx := j, act := act }).nodes[i]? = some nd') :
    ∃ nd, w.nodes[i]? = some nd ∧ nd'.cfg = nd.cfg ∧
      nd'.l = (if i = j then (Sys.next nd.cfg (proj w nd) act).l else nd.l) := by
  unfold World.next at h
  cases hj : w.nodes[j]? with
  | none =>
    simp only [hj] at h
    refine ⟨nd', h, rfl, ?_⟩
    by_cases hij : i = j
    · subst hij; rw [hj] at h; cases h
    · simp [hij]
  | some ndj =>
    simp only [hj] at h
    have hlen : j < w.nodes.length := (List.getElem?_eq_some_iff.mp hj).1
    simp only [List.getElem?_set] at h
    by_cases hi : j = i
    · subst hi
      simp only [if_true, hlen] at h
      cases h
      exact ⟨ndj, hj, rfl, by simp [proj]⟩
    · simp only [hi, if_false] at h
      have : ¬ i = j := fun e => hi e.symm
      exact ⟨nd', h, rfl, by simp [this]⟩

theorem lstep_started (unreg : Nat → Bool) {s : LSys} {a : LAct} (hI : StartedInv s) : StartedInv (lstep unreg s a) := by
  cases hf : lflat unreg s a with
  | none => simpa [lstep, hf] using hI
  | some p =>
    obtain ⟨wa, ctl'⟩ := p
    intro i nd' hnd' hal
    simp only [lstep, hf] at hnd' hal
    cases a with
    | env st now =>
      simp only [lflat, Option.some.injEq, Prod.mk.injEq] at hf
      obtain ⟨rfl, rfl⟩ := hf
      obtain ⟨nd, hnd, _, hl⟩ := next_nodes_l hnd'
      rw [hl]
      have := hI i nd hnd hal
      by_cases h0 : i = 0 <;> simp [h0, Sys.next, proj, this]
    | loop j ev now gen =>
      simp only [lflat] at hf
      cases hj : s.w.nodes[j]? with
      | none => simp [hj] at hf
      | some ndj =>
        simp only [hj] at hf
        cases hl : loopNext (unreg j) ndj.cfg (s.ctl j) ndj.l ndj.file s.w.store ev now gen with
        | none => simp [hl] at hf
        | some q =>
          obtain ⟨act, cj⟩ := q
          simp only [hl, Option.some.injEq, Prod.mk.injEq] at hf
          obtain ⟨rfl, rfl⟩ := hf
          obtain ⟨nd, hnd, _, hlq⟩ := next_nodes_l hnd'
          rw [hlq]
          by_cases hij : i = j
          · subst hij
            rw [hj] at hnd; cases hnd
            have hal' : Alive cj.phase := by simpa [setCtl] using hal
            obtain ⟨e, rfl, _, hor⟩ := loopNext_alive hl hal'
            simp only [if_true, Sys.next, proj]
            apply step_started
            rcases hor with h | h
            · exact Or.inr h
            · exact Or.inl (hI _ _ hj h)
          · have hal' : Alive (s.ctl i).phase := by simpa [setCtl, hij] using hal
            simp only [hij, if_false]
            exact hI i nd hnd hal'

theorem lrun_started (unreg : Nat → Bool) : ∀ (as : List LAct) (s : LSys), StartedInv s → StartedInv (lrun unreg s as) := by
  intro as
  induction as with
  | nil => intro s h; exact h
  | cons a as ih => intro s h; simp only [lrun, List.foldl_cons]; exact ih _ (lstep_started unreg h)

/-- CheckReady = ok implies ACTIVE, for every loop schedule in which nobody removes other instances' entries -/
theorem ready_active_loops (unreg : Nat → Bool) (s : LSys) (as : List LAct) (hw : WInv s.w) (hR : RegInv s) (hS : StartedInv s)
    (hr : LRunKeeps unreg s as) (i : Nat) (nd : Node) (hnd : (lrun unreg s as).w.nodes[i]? = some nd)
    (hk : nd.cfg.kind = .LC) (hal : Alive ((lrun unreg s as).ctl i).phase) (now : Int) (gf : Bool)
    (hnot : nd.l.ready = false) (h : (lcCheckReady nd.cfg nd.l (lrun unreg s as).w.store now gf).2 = .ok) :
    nd.l.state = .ACTIVE ∧ nd.l.tokens ≠ [] := by
  have hw' := linv_run unreg hw (lrunKeeps_good hr)
  have hlinv : LInv nd.cfg nd.l (lrun unreg s as).w.store := (hw'.2.2 i nd hnd hk).1
  have hpres := lrun_registered unreg as s hw hR hr i nd hnd hal
  have hstarted := lrun_started unreg as s hS i nd hnd hal
  have h1 := ready_sound hnot h
  obtain ⟨d, hd, hring, hself⟩ := ringReady_spec h1.2.2.1
  unfold PresentIn at hpres
  rw [hd] at hpres hlinv
  obtain ⟨e, he⟩ := Option.isSome_iff_exists.mp hpres
  simp only [Option.getD_some] at he
  have hact : e.state = .ACTIVE := by
    cases hrr : nd.cfg.readinessRing with
    | true => exact ((hring hrr).1 e (get?_some_mem he)).1
    | false =>
      obtain ⟨j, hj, hja, _⟩ := hself hrr
      rw [he] at hj; cases hj; exact hja
  refine ⟨?_, h1.1⟩
  rcases (hlinv hstarted e he).1 with h2 | ⟨h2, _⟩
  · rw [← h2]; exact hact
  · rw [hact] at h2; cases h2

/-! ### audit follow-up: enabledness, tokens of the other writes, first registration, stop when not ACTIVE -/

/-- the heartbeat tick is served in every control state in which the real loop has a ticker case -/
theorem heartbeat_enabled (unregister : Bool) (c : Cfg) (ctl : Ctl) (l : Local) (file : File) (store : Option Desc) (now : Int) (gen : Gen)
    (h : match c.kind with
      | .LC => (ctl.phase = .running ∨ ctl.phase = .stopping) ∧ ctl.pending = false
      | .BLC => (ctl.phase = .starting ∧ ctl.observeArmed = true) ∨ ctl.phase = .running ∨ ctl.phase = .stopping) :
    loopNext unregister c ctl l file store .heartbeat now gen = some (.own .heartbeat now gen .none, ctl) := by
  cases hk : c.kind <;> simp only [hk] at h
  · rcases h with ⟨h1 | h1, h2⟩ <;> simp [loopNext, hk, h1, h2]
  · rcases h with ⟨h1, h2⟩ | h1 | h1 <;> simp [loopNext, hk, h1, *]

/-- `verifyTokens` on a mismatch: the ring's tokens of the own entry are kept and topped up to `numTokens` -/
theorem lc_verify_tokens {c : Cfg} {l : Local} {file : File} {din : Option Desc} {now : Int} {gen : Gen}
    (hk : c.kind = .LC) (hs : l.started = true) (hg : GenOK gen) {e0 : Inst} (hpres : Desc.get? (din.getD []) c.id = some e0)
    (hne : sortNat (tokensOf (din.getD []) c.id) ≠ sortNat l.tokens)
    (hnd : (tokensOf (din.getD []) c.id).Nodup) (hle : (tokensOf (din.getD []) c.id).length ≤ c.numTokens) :
    ∃ d' b, (step c l file din .verify now gen .none).out = .write d' ∧ Desc.get? d' c.id = some b ∧
      (step c l file din .verify now gen .none).ret = .no ∧
      b.state = l.state ∧ (step c l file din .verify now gen .none).l.tokens = b.tokens ∧
      b.tokens.length = c.numTokens ∧ b.tokens.Pairwise (· < ·) ∧
      (∀ t ∈ tokensOf (din.getD []) c.id, t ∈ b.tokens) ∧
      (∀ t ∈ b.tokens, t ∈ tokensOf (din.getD []) c.id ∨ ∀ i ∈ din.getD [], t ∉ i.tokens) := by
  have h := topup_ok hg (tokensOf_sub_all (din.getD []) c.id) hnd hle
  simp only [step, hk, hs, Bool.not_true, Bool.false_eq_true, if_false, lcVerify, reduceCtorEq, hpres, hne, decide_false]
  refine ⟨_, _, rfl, get?_put_self _ _, by simp, rfl, rfl, h.1, h.2.1, h.2.2.1, ?_⟩
  intro t ht
  rcases h.2.2.2 t ht with h1 | h1
  · exact Or.inl h1
  · exact Or.inr (fun i hi hti => h1 (mem_allTokens.mpr ⟨i, hi, hti⟩))

/-- heartbeat, changeState (incl. the J→A activation) and the read-only toggle republish the RING's tokens -/
theorem lc_update_keeps_ring_tokens {c : Cfg} {l : Local} {file : File} {din : Option Desc} {ev : Event} {now : Int} {gen : Gen}
    {fault : Fault} {e b : Inst} {d' : Desc} (hk : c.kind = .LC)
    (hev : ev = .heartbeat ∨ (∃ s, ev = .changeState s) ∨ ∃ r, ev = .changeRO r)
    (he : Desc.get? (din.getD []) c.id = some e)
    (h : (step c l file din ev now gen fault).out = .write d') (hb : Desc.get? d' c.id = some b) :
    b.tokens = e.tokens := by
  have key : ∀ l' : Local, (lcUpdate c l' file din now fault).out = .write d' → b.tokens = e.tokens := by
    intro l' h'
    by_cases hf : fault = .failBefore
    · simp [lcUpdate, hf] at h'
    · simp [lcUpdate, hf, he] at h'
      subst h'
      rw [get?_put] at hb
      simp [lcInst] at hb
      subst hb; rfl
  by_cases hs : l.started = true
  · rcases hev with rfl | ⟨s, rfl⟩ | ⟨r, rfl⟩
    · simp only [step, hk, hs, Bool.not_true, Bool.false_eq_true, if_false] at h; exact key _ h
    · simp only [step, hk, hs, Bool.not_true, Bool.false_eq_true, if_false, lcChangeState] at h
      split at h
      · exact key _ h
      · simp at h
    · simp only [step, hk, hs, Bool.not_true, Bool.false_eq_true, if_false, lcChangeRO] at h
      split at h
      · simp at h
      · exact key _ h
  · have hs' : l.started = false := by simpa using hs
    rcases hev with rfl | ⟨s, rfl⟩ | ⟨r, rfl⟩ <;> simp [step, hk, hs', noop] at h

/-- first registration of a full lifecycler: registered now; tokens of the tokens file are published as they are
(sorted), ACTIVE at once iff there are at least `numTokens` of them, otherwise PENDING -/
theorem lc_first_registration {c : Cfg} {l : Local} {file : File} {din : Option Desc} {shuf : List Nat} {now : Int} {gen : Gen}
    {fault : Fault} (hk : c.kind = .LC) (hf : fault ≠ .failBefore) (habs : Desc.get? (din.getD []) c.id = none) :
    let r := step c l file din (.init shuf) now gen fault
    let ft := if c.hasFile then file.load.getD [] else []
    ∃ b, r.out = .write (put (din.getD []) b) ∧ b.id = c.id ∧ b.regTs = now ∧ b.ts = now ∧ b.tokens = ft ∧
      b.state = (if 0 < ft.length ∧ c.numTokens ≤ ft.length then .ACTIVE else .PENDING) ∧
      r.l.tokens = ft ∧ r.l.state = b.state ∧ r.l.regTs = now := by
  simp only [step, hk, lcInit, hf, if_false, habs]
  refine ⟨_, rfl, ?_, ?_, ?_, ?_, ?_, ?_, ?_, ?_⟩ <;> first | rfl | trivial

theorem blc_first_registration {c : Cfg} {l : Local} {file : File} {din : Option Desc} {shuf : List Nat} {now : Int} {gen : Gen}
    {fault : Fault} (hk : c.kind = .BLC) (hf : fault ≠ .failBefore) (habs : Desc.get? (din.getD []) c.id = none) :
    ∃ b, (step c l file din (.init shuf) now gen fault).out = .write (put (din.getD []) b) ∧ b.id = c.id ∧ b.regTs = now ∧
      b.ts = now ∧ b.state = c.registerState := by
  simp only [step, hk, blcRegister, hf, if_false, habs]
  exact ⟨_, rfl, rfl, rfl, rfl, rfl⟩

/-- `ctx.Done()` of a full lifecycler that is not ACTIVE: `changeState(LEAVING)` is refused, nothing is written,
the lifecycler keeps its state through `stopping()` -/
theorem lc_stop_nonactive {unregister : Bool} {c : Cfg} {ctl : Ctl} {l : Local} {file : File} {store : Option Desc}
    {now : Int} {gen : Gen} (hk : c.kind = .LC) (hp : ctl.phase = .running) (hpend : ctl.pending = false)
    (hs : l.started = true) (ha : l.state ≠ .ACTIVE) :
    loopNext unregister c ctl l file store .stop now gen =
      some (.own (.changeState .LEAVING) now gen .none, { ctl with phase := .stopping }) ∧
    (step c l file store (.changeState .LEAVING) now gen .none).out = .noCas ∧
    (step c l file store (.changeState .LEAVING) now gen .none).l = l := by
  refine ⟨by simp [loopNext, hk, hp, hpend], ?_⟩
  have hal : allowed l.state .LEAVING = false := by
    cases hst : l.state <;> simp [allowed] <;> exact ha hst
  simp [step, hk, hs, lcChangeState, hal]

end PfC08
