import Proofs.C12.Remove
import Proofs.C12.SuperRO
import Proofs.C12.Window
import Proofs.C12.Part
import Proofs.C12.Total
import Proofs.C12.PartSuper
import Proofs.C12.Toggle
import Proofs.C12.PartHistory
import Proofs.C12.PartTotal
import Proofs.C12.Tokenless
import Proofs.C12.LookbackOn
import Proofs.C12.Perm
/-!
# C12 — statements used by `Props/C12.lean` (whole-shard level)

Helper lemmas live in `Proofs/C12/*.lean`:
`Abs` (abstract walk), `Count` (shortcut, size), `Lookback`, `Exchange`, `Tokens` (sorted token
lists, rotation), `Model` (model ↔ abstract), `Zone` (decomposition), `Basic`, `Super`, `Remove`, `SuperRO`, `Window`, `WindowConst`, `Total`, `Toggle`, `TokensG`, `Part*` (partition ring).
-/
namespace PfC12
open C12

theorem shard_ignores_state_ts (cfg : Cfg) (d d' : Ring.Desc) (starts : String → Nat → Nat) (size period now : Int)
    (h : d.map core = d'.map core) :
    shardIds cfg d starts size period now = shardIds cfg d' starts size period now := by
  unfold shardIds; rw [h]

theorem shardIds_total (cfg : Cfg) (d : Ring.Desc) (hd : (d.flatMap (·.tokens)).Nodup)
    (starts : String → Nat → Nat) (size period now : Int) :
    shardIdsC cfg d starts size period now = .ok (shardIds cfg d starts size period now) := by
  have : TokNodup (d.map core) := by
    unfold TokNodup
    have e : (d.map core).flatMap (·.tokens) = d.flatMap (·.tokens) := by
      induction d with
      | nil => rfl
      | cons a l ih => simp only [List.map_cons, List.flatMap_cons, core]; rw [ih (List.Nodup.sublist (List.sublist_append_right _ _) hd)]
    rw [e]; exact hd
  unfold shardIdsC shardIds
  rw [shard_total cfg _ this]

theorem expectedPerZone_nonneg (size : Int) (k : Nat) : 0 ≤ expectedPerZone size k := by
  unfold expectedPerZone
  split
  · unfold maxInt; omega
  · split
    · omega
    · exact Int.natCast_nonneg _

theorem shard_size_za (cfg : Cfg) (hza : cfg.zoneAware = true) (d : CDesc) (hd : WF d) (ht : AllTok d)
    (starts : String → Nat → Nat) (size now : Int) (hsize : 0 < size) (z : String) (hz : z ∈ zonesOf d) :
    cnt (eligZ d z) (shard cfg d starts size 0 now) =
      min (expectedPerZone size (zonesOf d).length).toNat (eligZ d z).length := by
  have hnot : ¬ size ≤ 0 := by omega
  unfold shard
  rw [if_neg hnot]
  have hcongr : ∀ a ∈ eligZ d z, a ∈ shuffleShard cfg d starts size 0 now ↔
      a ∈ zoneSel cfg d (mkLB 0 now) starts (perZone cfg d size) z := by
    intro a ha
    have hzone : a.zone = z := by
      simp only [eligZ, List.mem_filter, Bool.and_eq_true] at ha
      exact (inZone_iff z a).mp ha.2.1
    rw [mem_shuffleShard_za cfg hza d hd starts size 0 now (early_plain _ _)]
    constructor
    · rintro ⟨z', _, h⟩
      have := (zoneSel_mem_za cfg hza d hd _ starts _ z' a h).2.1
      have : z' = z := by rw [← this, hzone]
      subst this; exact h
    · intro h; exact ⟨z, hz, h⟩
  rw [cnt_congr _ _ _ hcongr]
  have hp : perZone cfg d size = expectedPerZone size (zonesOf d).length := by simp [perZone, hza]
  rw [hp]
  exact zoneSel_size cfg hza d hd ht starts now _ (expectedPerZone_nonneg size _) z

theorem shard_size_nza (cfg : Cfg) (hza : cfg.zoneAware = false) (d : CDesc) (hd : WF d) (ht : AllTok d)
    (starts : String → Nat → Nat) (size now : Int) (hsize : 0 < size) :
    cnt (d.filter fun i => !i.ro) (shard cfg d starts size 0 now) = min size.toNat (d.filter fun i => !i.ro).length := by
  have hnot : ¬ size ≤ 0 := by omega
  unfold shard
  rw [if_neg hnot, shuffleShard_nza cfg hza d hd starts size 0 now (early_plain _ _), extend_plain, includeRO_plain_fn]
  have hE : (d.filter fun i => !i.ro).Nodup := List.Nodup.sublist List.filter_sublist hd.nodup
  have := apicks_plain_cnt (fun i : CInst => !i.ro) (Wall d starts) (d.filter fun i => !i.ro) hE (by
    intro i x
    rw [mem_Wall, List.mem_filter]
    exact ⟨fun h => ⟨⟨h.1, ht x h.1⟩, h.2⟩, fun h => ⟨h.1.1, h.2⟩⟩) size.toNat 0 []
  rw [this]
  have h0 : cnt (d.filter fun i => !i.ro) ([] : List CInst) = 0 := by
    unfold cnt; rw [List.length_eq_zero_iff, List.filter_eq_nil_iff]; intro a _; simp
  rw [h0]; simp

theorem shard_mono_size (cfg : Cfg) (d : CDesc) (hd : WF d) (starts : String → Nat → Nat) (s s' now : Int)
    (h0 : 0 < s) (h : s ≤ s') (hs' : s' ≤ maxInt) :
    ∀ m ∈ shard cfg d starts s 0 now, m ∈ shard cfg d starts s' 0 now := by
  intro m hm
  have hnot : ¬ s ≤ 0 := by omega
  have hnot' : ¬ s' ≤ 0 := by omega
  unfold shard at hm ⊢
  rw [if_neg hnot] at hm; rw [if_neg hnot']
  cases hza : cfg.zoneAware with
  | true =>
    obtain ⟨z, hz1, hz2⟩ := (mem_shuffleShard_za cfg hza d hd starts s 0 now (early_plain _ _) m).mp hm
    apply (mem_shuffleShard_za cfg hza d hd starts s' 0 now (early_plain _ _) m).mpr
    refine ⟨z, hz1, zoneSel_mono cfg hza d hd _ starts _ _ ?_ z m hz2⟩
    simp only [perZone, hza, if_true]
    exact expectedPerZone_mono s s' _ h0 h hs'
  | false =>
    rw [shuffleShard_nza cfg hza d hd starts s 0 now (early_plain _ _)] at hm
    rw [shuffleShard_nza cfg hza d hd starts s' 0 now (early_plain _ _)]
    exact apicks_mono_le _ _ _ 0 [] s.toNat s'.toNat (by omega) m hm

theorem shard_sub_unsharded (cfg : Cfg) (d : CDesc) (hd : WF d) (starts : String → Nat → Nat) (s s0 now now' : Int)
    (h0 : s0 ≤ 0) : ∀ m ∈ shard cfg d starts s 0 now, m ∈ shard cfg d starts s0 0 now' := by
  intro m hm
  have := shard_plain_mem cfg d hd starts s now m hm
  unfold shard
  rw [if_pos h0]
  exact (mem_filterOutRO_plain d now' m).mpr this

theorem shard_unsharded (cfg : Cfg) (d : CDesc) (starts : String → Nat → Nat) (s0 now : Int) (h0 : s0 ≤ 0) (m : CInst) :
    m ∈ shard cfg d starts s0 0 now ↔ m ∈ d ∧ m.ro = false := by
  unfold shard
  rw [if_pos h0]
  exact mem_filterOutRO_plain d now m

end PfC12
