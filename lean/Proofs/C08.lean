import Model.C08
/-!
Helper lemmas and proofs for C08 (`Props/C08.lean` only states the theorems).
-/
namespace PfC08
open Ring C08

/-! ### association-list facts -/

/-- no two entries with the same id (the descriptor is a Go map) -/
def WF (d : Desc) : Prop := d.Pairwise (fun a b => a.id ≠ b.id)

theorem get?_nil (k : String) : Desc.get? [] k = none := rfl

theorem get?_cons (i : Inst) (d : Desc) (k : String) :
    Desc.get? (i :: d) k = if i.id = k then some i else Desc.get? d k := by
  unfold Desc.get?
  rw [List.find?_cons]
  by_cases h : i.id = k
  · simp [h]
  · have : (i.id == k) = false := by simpa using h
    simp [h, this]

theorem get?_some_id {d : Desc} {k : String} {i : Inst} (h : Desc.get? d k = some i) : i.id = k := by
  unfold Desc.get? at h
  have := List.find?_some h
  simpa using this

theorem get?_some_mem {d : Desc} {k : String} {i : Inst} (h : Desc.get? d k = some i) : i ∈ d := by
  unfold Desc.get? at h
  exact List.mem_of_find?_eq_some h

theorem get?_erase_self (d : Desc) (k : String) : Desc.get? (erase d k) k = none := by
  induction d with
  | nil => rfl
  | cons i d ih =>
    unfold erase at *
    rw [List.filter_cons]
    by_cases h : i.id = k
    · simp [h, ih]
    · simp [h, get?_cons, ih]

theorem get?_erase_other (d : Desc) (k k' : String) (h : k' ≠ k) : Desc.get? (erase d k) k' = Desc.get? d k' := by
  induction d with
  | nil => rfl
  | cons i d ih =>
    unfold erase at *
    rw [List.filter_cons]
    by_cases hk : i.id = k
    · have : i.id ≠ k' := by rw [hk]; exact fun e => h e.symm
      have hk2 : k ≠ k' := fun e => h e.symm
      simp [hk, get?_cons, hk2, ih]
    · simp [hk, get?_cons, ih]

theorem get?_put_self (d : Desc) (i : Inst) : Desc.get? (put d i) i.id = some i := by
  unfold put; rw [get?_cons]; simp

theorem get?_put_other (d : Desc) (i : Inst) (k : String) (h : k ≠ i.id) : Desc.get? (put d i) k = Desc.get? d k := by
  unfold put; rw [get?_cons]
  have : i.id ≠ k := fun e => h e.symm
  simp [this, get?_erase_other d i.id k h]

theorem get?_put (d : Desc) (i : Inst) (k : String) :
    Desc.get? (put d i) k = if k = i.id then some i else Desc.get? d k := by
  by_cases h : k = i.id
  · subst h; simp [get?_put_self]
  · simp [h, get?_put_other d i k h]

theorem mem_erase {d : Desc} {k : String} {x : Inst} (h : x ∈ erase d k) : x ∈ d ∧ x.id ≠ k := by
  unfold erase at h
  simpa using h

theorem wf_erase {d : Desc} (h : WF d) (k : String) : WF (erase d k) := by
  unfold WF erase at *
  exact List.Pairwise.filter _ h

theorem wf_filter {d : Desc} (h : WF d) (p : Inst → Bool) : WF (d.filter p) := by
  unfold WF at *
  exact List.Pairwise.filter _ h

theorem wf_put {d : Desc} (h : WF d) (i : Inst) : WF (put d i) := by
  unfold put WF
  rw [List.pairwise_cons]
  refine ⟨?_, wf_erase h i.id⟩
  intro x hx
  exact fun e => (mem_erase hx).2 e.symm

theorem get?_none_of_not_mem {d : Desc} {k : String} (h : ∀ x ∈ d, x.id ≠ k) : Desc.get? d k = none := by
  induction d with
  | nil => rfl
  | cons i d ih =>
    rw [get?_cons]
    have h1 : i.id ≠ k := h i (by simp)
    simp [h1]
    exact ih (fun x hx => h x (by simp [hx]))

/-- with unique ids, filtering keeps an entry iff it passes the predicate -/
theorem get?_filter {d : Desc} (h : WF d) (p : Inst → Bool) (k : String) :
    Desc.get? (d.filter p) k = match Desc.get? d k with
      | some i => if p i then some i else none
      | none => none := by
  induction d with
  | nil => rfl
  | cons i d ih =>
    have hwf : WF d := by unfold WF at *; exact (List.pairwise_cons.mp h).2
    have hne : ∀ x ∈ d, i.id ≠ x.id := (List.pairwise_cons.mp h).1
    rw [List.filter_cons, get?_cons]
    by_cases hk : i.id = k
    · simp only [hk, if_true]
      by_cases hp : p i = true
      · simp [hp, get?_cons, hk]
      · simp only [hp]
        have : Desc.get? (d.filter p) k = none := by
          apply get?_none_of_not_mem
          intro x hx
          have hx' : x ∈ d := (List.mem_filter.mp hx).1
          exact fun e => hne x hx' (by rw [hk, e])
        simp [this]
    · simp only [hk, if_false]
      by_cases hp : p i = true
      · simp [hp, get?_cons, hk, ih hwf]
      · simp [hp, ih hwf]

/-! ### frame: a handler only edits its own entry -/

/-- `d'` differs from `d` at most in the entry `id` -/
def OwnEdit (id : String) (d d' : Desc) : Prop := ∀ k, k ≠ id → Desc.get? d' k = Desc.get? d k

theorem ownEdit_refl (id : String) (d : Desc) : OwnEdit id d d := fun _ _ => rfl

theorem ownEdit_put {id : String} (d : Desc) {i : Inst} (hi : i.id = id) : OwnEdit id d (put d i) := by
  intro k hk
  exact get?_put_other d i k (by rw [hi]; exact hk)

theorem ownEdit_erase (id : String) (d : Desc) : OwnEdit id d (erase d id) := fun k hk => get?_erase_other d id k hk

theorem ownEdit_trans {id : String} {a b c : Desc} (h1 : OwnEdit id a b) (h2 : OwnEdit id b c) : OwnEdit id a c :=
  fun k hk => (h2 k hk).trans (h1 k hk)

/-- `d'` differs from `d` at most in the entry `id`, and stays a map -/
def Good (id : String) (d d' : Desc) : Prop := OwnEdit id d d' ∧ (WF d → WF d')
theorem good_refl (id : String) (d : Desc) : Good id d d := ⟨ownEdit_refl _ _, fun w => w⟩
theorem good_put {id : String} (d : Desc) {i : Inst} (hi : i.id = id) : Good id d (put d i) :=
  ⟨ownEdit_put d hi, fun w => wf_put w _⟩
theorem good_erase (id : String) (d : Desc) : Good id d (erase d id) := ⟨ownEdit_erase _ _, fun w => wf_erase w _⟩

theorem lcInst_id (c : Cfg) (l : Local) (t : List Nat) (now : Int) : (lcInst c l t now).id = c.id := rfl

theorem lcUpdate_frame {c : Cfg} {l : Local} {file : File} {din : Option Desc} {now : Int} {fault : Fault} {d' : Desc}
    (h : (lcUpdate c l file din now fault).out = .write d') : Good c.id (din.getD []) d' := by
  by_cases hf : fault = .failBefore
  · simp [lcUpdate, hf] at h
  · simp [lcUpdate, hf] at h; subst h; exact good_put _ (lcInst_id _ _ _ _)

theorem lcAutoJoin_frame {c : Cfg} {l : Local} {file : File} {din : Option Desc} {t : State} {now : Int} {gen : Gen} {fault : Fault} {d' : Desc}
    (h : (lcAutoJoin c l file din t now gen fault).out = .write d') : Good c.id (din.getD []) d' := by
  by_cases hf : fault = .failBefore
  · simp [lcAutoJoin, hf] at h
  · simp [lcAutoJoin, hf] at h; subst h; exact good_put _ (lcInst_id _ _ _ _)

theorem lcVerify_frame {c : Cfg} {l : Local} {file : File} {din : Option Desc} {now : Int} {gen : Gen} {fault : Fault} {d' : Desc}
    (h : (lcVerify c l file din now gen fault).out = .write d') : Good c.id (din.getD []) d' := by
  by_cases hf : fault = .failBefore
  · simp [lcVerify, hf] at h
  · cases hg : Desc.get? (din.getD []) c.id with
    | none => simp [lcVerify, hf, hg] at h; subst h; exact good_put _ (lcInst_id _ _ _ _)
    | some e =>
      simp only [lcVerify, hf, if_false, hg] at h
      split at h
      · simp at h
      · simp at h; subst h; exact good_put _ (lcInst_id _ _ _ _)

theorem lcInit_frame {c : Cfg} {file : File} {din : Option Desc} {shuf : List Nat} {now : Int} {gen : Gen} {fault : Fault} {d' : Desc}
    (h : (lcInit c file din shuf now gen fault).out = .write d') : Good c.id (din.getD []) d' := by
  by_cases hf : fault = .failBefore
  · simp [lcInit, hf] at h
  · cases hg : Desc.get? (din.getD []) c.id with
    | none =>
      simp [lcInit, hf, hg] at h; subst h; exact good_put _ (lcInst_id _ _ _ _)
    | some inst =>
      have hid : inst.id = c.id := get?_some_id hg
      by_cases hj : inst.state = .JOINING
      · simp [lcInit, hf, hg, hj] at h; subst h; exact good_refl _ _
      · simp only [lcInit, hf, hg, hj, if_false] at h
        split at h
        · simp at h; subst h; exact good_put _ hid
        · simp at h

theorem lcUnregister_frame {c : Cfg} {l : Local} {file : File} {din : Option Desc} {fault : Fault} {d' : Desc}
    (h : (lcUnregister c l file din fault).out = .write d') : Good c.id (din.getD []) d' := by
  by_cases hf : fault = .failBefore
  · simp [lcUnregister, hf] at h
  · cases din with
    | none => simp [lcUnregister, hf] at h
    | some d => simp [lcUnregister, hf] at h; subst h; exact good_erase _ _

theorem claimOn_frame (c : Cfg) (d0 : Desc) (frm : String) (now : Int) (k : String) (hk : k ≠ c.id) :
    Desc.get? (claimOn c d0 frm now) k = Desc.get? d0 k ∨
    (k = frm ∧ ∃ e, Desc.get? d0 k = some e ∧ Desc.get? (claimOn c d0 frm now) k = some { e with tokens := [] }) := by
  unfold claimOn
  cases hfr : Desc.get? d0 frm with
  | none =>
    simp only []
    left
    apply get?_put_other
    cases hs : Desc.get? d0 c.id with
    | none => simpa using hk
    | some i => simpa [get?_some_id hs] using hk
  | some f =>
    simp only []
    have hfid : f.id = frm := get?_some_id hfr
    have hid : ((Desc.get? (put d0 { f with tokens := [] }) c.id).getD { id := c.id }).id = c.id := by
      cases hs : Desc.get? (put d0 { f with tokens := [] }) c.id with
      | none => rfl
      | some i => simpa using get?_some_id hs
    rw [get?_put_other _ _ k (by simpa [hid] using hk)]
    by_cases hkf : k = frm
    · right
      refine ⟨hkf, f, by rw [hkf]; exact hfr, ?_⟩
      rw [get?_put]; simp [hkf, hfid]
    · left
      exact get?_put_other _ _ k (by simpa [hfid] using hkf)

/-- the descriptor `ClaimTokensFor` works on: the ring, with the own entry added back if it was missing -/
def claimBase (c : Cfg) (l : Local) (d : Desc) (now : Int) : Desc :=
  match Desc.get? d c.id with
  | none => put d (lcInst c { l with regTs := now } l.tokens now)
  | some _ => d

theorem claimBase_other (c : Cfg) (l : Local) (d : Desc) (now : Int) (k : String) (hk : k ≠ c.id) :
    Desc.get? (claimBase c l d now) k = Desc.get? d k := by
  unfold claimBase
  cases Desc.get? d c.id with
  | none => exact get?_put_other _ _ k hk
  | some _ => rfl

theorem lcClaim_out {c : Cfg} {l : Local} {file : File} {d : Desc} {frm : String} {now : Int} {fault : Fault}
    (hf : fault ≠ .failBefore) :
    (lcClaim c l file (some d) frm now fault).out = .write (claimOn c (claimBase c l d now) frm now) := by
  unfold claimBase
  cases hg : Desc.get? d c.id <;> simp [lcClaim, hf, hg]

theorem lcClaim_frame {c : Cfg} {l : Local} {file : File} {din : Option Desc} {frm : String} {now : Int} {fault : Fault} {d' : Desc}
    (h : (lcClaim c l file din frm now fault).out = .write d') (k : String) (hk : k ≠ c.id) :
    Desc.get? d' k = Desc.get? (din.getD []) k ∨
    (k = frm ∧ ∃ e, Desc.get? (din.getD []) k = some e ∧ Desc.get? d' k = some { e with tokens := [] }) := by
  by_cases hf : fault = .failBefore
  · simp [lcClaim, hf] at h
  · cases din with
    | none => simp [lcClaim, hf] at h
    | some d =>
      rw [lcClaim_out hf] at h
      simp only [CasOut.write.injEq] at h
      subst h
      simp only [Option.getD_some]
      rcases claimOn_frame c (claimBase c l d now) frm now k hk with h1 | ⟨h1, e, h2, h3⟩
      · left; rw [h1, claimBase_other c l d now k hk]
      · right; exact ⟨h1, e, by rw [← claimBase_other c l d now k hk]; exact h2, h3⟩

/-! BasicLifecycler -/

theorem blcRegister_frame {c : Cfg} {file : File} {din : Option Desc} {now : Int} {gen : Gen} {fault : Fault} {d' : Desc}
    (h : (blcRegister c file din now gen fault).out = .write d') : Good c.id (din.getD []) d' := by
  by_cases hf : fault = .failBefore
  · simp [blcRegister, hf] at h
  · simp [blcRegister, hf] at h; subst h; exact good_put _ rfl

theorem blcUnregister_frame {c : Cfg} {l : Local} {file : File} {din : Option Desc} {fault : Fault} {d' : Desc}
    (h : (blcUnregister c l file din fault).out = .write d') : Good c.id (din.getD []) d' := by
  by_cases hf : fault = .failBefore
  · simp [blcUnregister, hf] at h
  · cases din with
    | none => simp [blcUnregister, hf] at h
    | some d => simp [blcUnregister, hf] at h; subst h; exact good_erase _ _

theorem blcReinsert_id (c : Cfg) (l : Local) (now : Int) : (blcReinsert c l now).id = c.id := rfl

/-- an `updateInstance` callback that keeps the entry's id -/
def KeepsId (u : Desc → Inst → Upd) : Prop := ∀ d i, (u d i).inst.id = i.id

/-- what `blcUpdateInstance` writes: the callback's descriptor with the own entry replaced -/
theorem blcUpdate_out {c : Cfg} {l : Local} {file : File} {din : Option Desc} {now : Int} {fault : Fault}
    {u : Desc → Inst → Upd} {d' : Desc} (hu : KeepsId u)
    (h : (blcUpdateInstance c l file din now fault u).1.out = .write d') :
    ∃ dbase i inst1, OwnEdit c.id (din.getD []) dbase ∧ Desc.get? dbase c.id = some i ∧ inst1.id = c.id ∧
      d' = put (u dbase i).d inst1 ∧ (WF (din.getD []) → WF dbase) := by
  by_cases hf : fault = .failBefore
  · simp [blcUpdateInstance, hf] at h
  · cases hg : Desc.get? (din.getD []) c.id with
    | some i =>
      simp only [blcUpdateInstance, hf, if_false, hg, Option.isSome_some, if_true, Option.getD_some, Bool.true_and] at h
      split at h
      · simp at h
      · simp only [CasOut.write.injEq] at h
        refine ⟨din.getD [], i, _, ownEdit_refl _ _, hg, ?_, h.symm, id⟩
        split
        · exact (hu _ _).trans (get?_some_id hg)
        · exact (hu _ _).trans (get?_some_id hg)
    | none =>
      simp only [blcUpdateInstance, hf, if_false, hg, Option.isSome_none, Option.getD_none, Bool.false_and] at h
      simp only [CasOut.write.injEq, Bool.false_eq_true, if_false] at h
      refine ⟨put (din.getD []) (blcReinsert c l now), blcReinsert c l now, _, ownEdit_put _ rfl, get?_put_self _ _, ?_,
        h.symm, fun w => wf_put w _⟩
      split
      · exact hu _ _
      · exact hu _ _

theorem keepsId_state (s : State) : KeepsId (updState s) := by
  intro d i; unfold updState; split <;> rfl
theorem keepsId_ro (b : Bool) (now : Int) : KeepsId (updRO b now) := by
  intro d i; unfold updRO; split <;> rfl
theorem keepsId_verify (c : Cfg) (l : Local) (gen : Gen) : KeepsId (updVerify c l gen) := by
  intro d i; unfold updVerify; split <;> rfl
theorem keepsId_hb (c : Cfg) (now : Int) : KeepsId (updHeartbeat c now) := by
  intro d i; rfl

theorem updState_d (s : State) (d : Desc) (i : Inst) : (updState s d i).d = d := by unfold updState; split <;> rfl
theorem updRO_d (b : Bool) (now : Int) (d : Desc) (i : Inst) : (updRO b now d i).d = d := by unfold updRO; split <;> rfl
theorem updVerify_d (c : Cfg) (l : Local) (gen : Gen) (d : Desc) (i : Inst) : (updVerify c l gen d i).d = d := by
  unfold updVerify; split <;> rfl

/-- callbacks that do not touch other entries -/
theorem blcUpdate_frame {c : Cfg} {l : Local} {file : File} {din : Option Desc} {now : Int} {fault : Fault}
    {u : Desc → Inst → Upd} {d' : Desc} (hu : KeepsId u) (hd : ∀ d i, (u d i).d = d)
    (h : (blcUpdateInstance c l file din now fault u).1.out = .write d') : Good c.id (din.getD []) d' := by
  obtain ⟨dbase, i, inst1, hown, _, hid, rfl, hw⟩ := blcUpdate_out hu h
  rw [hd]
  exact ⟨ownEdit_trans hown (ownEdit_put _ hid), fun w => wf_put (hw w) _⟩

/-- heartbeat with the auto-forget delegate: other entries are kept, or removed when stale -/
theorem blcHeartbeat_frame {c : Cfg} {l : Local} {file : File} {din : Option Desc} {now : Int} {fault : Fault} {d' : Desc}
    (hwf : WF (din.getD []))
    (h : (blcUpdateInstance c l file din now fault (updHeartbeat c now)).1.out = .write d') (k : String) (hk : k ≠ c.id) :
    Desc.get? d' k = Desc.get? (din.getD []) k ∨
    (∃ p e, c.forget = some p ∧ Desc.get? (din.getD []) k = some e ∧ now - e.ts ≥ p ∧ Desc.get? d' k = none) := by
  obtain ⟨dbase, i, inst1, hown, _, hid, rfl, hwf'⟩ := blcUpdate_out (keepsId_hb c now) h
  rw [get?_put_other _ _ k (by rw [hid]; exact hk)]
  unfold updHeartbeat
  cases hfg : c.forget with
  | none => left; simpa using hown k hk
  | some p =>
    simp only
    rw [get?_filter (hwf' hwf), hown k hk]
    cases he : Desc.get? (din.getD []) k with
    | none => left; rfl
    | some e =>
      by_cases hp : now - e.ts ≥ p
      · right; exact ⟨p, e, rfl, rfl, hp, by simp [hp]⟩
      · left; simp [hp]

/-- the frame statement for one handler -/
def FrameOK (c : Cfg) (ev : Event) (now : Int) (d d' : Desc) : Prop :=
  ∀ k, k ≠ c.id →
    Desc.get? d' k = Desc.get? d k ∨
    (∃ frm e, ev = .claim frm ∧ c.kind = .LC ∧ k = frm ∧ Desc.get? d k = some e ∧ Desc.get? d' k = some { e with tokens := [] }) ∨
    (∃ p e, ev = .heartbeat ∧ c.kind = .BLC ∧ c.forget = some p ∧ Desc.get? d k = some e ∧ now - e.ts ≥ p ∧ Desc.get? d' k = none)

theorem frameOK_of_ownEdit {c : Cfg} {ev : Event} {now : Int} {d d' : Desc} (h : OwnEdit c.id d d') : FrameOK c ev now d d' :=
  fun k hk => Or.inl (h k hk)

theorem frame {c : Cfg} {l : Local} {file : File} {din : Option Desc} {ev : Event} {now : Int} {gen : Gen} {fault : Fault}
    {d' : Desc} (hwf : WF (din.getD [])) (h : (step c l file din ev now gen fault).out = .write d') :
    FrameOK c ev now (din.getD []) d' := by
  cases hk : c.kind <;> cases ev <;> simp only [step, hk] at h
  all_goals try (split at h; · simp [noop] at h)
  -- LC
  · exact frameOK_of_ownEdit (lcInit_frame h).1
  · simp only [lcJoinTimer] at h
    split at h
    · exact frameOK_of_ownEdit (lcAutoJoin_frame h).1
    · simp at h
  · exact frameOK_of_ownEdit (lcVerify_frame h).1
  · exact frameOK_of_ownEdit (lcUpdate_frame h).1
  · simp only [lcChangeState] at h
    split at h
    · exact frameOK_of_ownEdit (lcUpdate_frame h).1
    · simp at h
  · simp only [lcChangeRO] at h
    split at h
    · simp at h
    · exact frameOK_of_ownEdit (lcUpdate_frame h).1
  · rename_i frm _
    intro k hkk
    rcases lcClaim_frame h k hkk with h1 | ⟨h1, e, h2, h3⟩
    · exact Or.inl h1
    · exact Or.inr (Or.inl ⟨frm, e, rfl, hk, h1, h2, h3⟩)
  · exact frameOK_of_ownEdit (lcUnregister_frame h).1
  · simp at h
  · simp [noop] at h
  · simp [noop] at h
  -- BLC
  · exact frameOK_of_ownEdit (blcRegister_frame h).1
  · simp [noop] at h
  · exact frameOK_of_ownEdit (blcUpdate_frame (keepsId_verify _ _ _) (updVerify_d _ _ _) h).1
  · intro k hkk
    rcases blcHeartbeat_frame hwf h k hkk with h1 | ⟨p, e, h1, h2, h3, h4⟩
    · exact Or.inl h1
    · exact Or.inr (Or.inr ⟨p, e, rfl, hk, h1, h2, h3, h4⟩)
  · exact frameOK_of_ownEdit (blcUpdate_frame (keepsId_state _) (updState_d _) h).1
  · exact frameOK_of_ownEdit (blcUpdate_frame (keepsId_ro _ _) (updRO_d _ _) h).1
  · simp [noop] at h
  · exact frameOK_of_ownEdit (blcUnregister_frame h).1
  · simp [noop] at h
  · simp at h
  · exact frameOK_of_ownEdit (blcUpdate_frame (keepsId_state _) (updState_d _) h).1

/-! ### full Lifecycler: remembered self vs ring entry, state edges, timestamps -/

/-- consecutive published states: equal, an edge of `changeState`'s table, or the restart edge L→A -/
def Edge (a b : State) : Prop := a = b ∨ allowed a b = true ∨ (a = .LEAVING ∧ b = .ACTIVE)

/-- what one own write may do to the own entry -/
def EntryOK (now : Int) (a b : Inst) : Prop :=
  Edge a.state b.state ∧ b.regTs = a.regTs ∧ (a.ts ≤ now → a.ts ≤ b.ts ∧ b.ts ≤ now)

/-- the remembered self agrees with the ring entry (up to the JOINING/PENDING restart quirk of initRing) -/
def Agrees (l : Local) (i : Inst) : Prop :=
  (i.state = l.state ∨ (i.state = .JOINING ∧ l.state = .PENDING)) ∧ i.regTs = l.regTs

def LInv (c : Cfg) (l : Local) (store : Option Desc) : Prop :=
  l.started = true → ∀ i, Desc.get? (store.getD []) c.id = some i → Agrees l i

structure WriteOK (c : Cfg) (now : Int) (din : Option Desc) (r : Res) : Prop where
  edge : ∀ d', r.out = .write d' → ∀ a b, Desc.get? (din.getD []) c.id = some a → Desc.get? d' c.id = some b → EntryOK now a b
  inv : LInv c r.l (commit din r .none)
  tsle : ∀ d' b, r.out = .write d' → Desc.get? d' c.id = some b →
    (∀ a, Desc.get? (din.getD []) c.id = some a → a.ts ≤ now) → b.ts ≤ now

theorem commit_write {din : Option Desc} {r : Res} {d : Desc} (h : r.out = .write d) : commit din r .none = some d := by
  unfold commit; rw [h]

theorem commit_nowrite {din : Option Desc} {r : Res} (h : ∀ d, r.out ≠ .write d) : commit din r .none = din := by
  unfold commit
  cases ho : r.out with
  | write d => exact absurd ho (h d)
  | _ => rfl

theorem writeOK_put {c : Cfg} {now : Int} {din : Option Desc} {r : Res} {b : Inst}
    (ho : r.out = .write (put (din.getD []) b)) (hb : b.id = c.id)
    (hE : ∀ a, Desc.get? (din.getD []) c.id = some a → EntryOK now a b)
    (hA : r.l.started = true → Agrees r.l b) (hT : b.ts ≤ now) : WriteOK c now din r := by
  have hget : Desc.get? (put (din.getD []) b) c.id = some b := by rw [← hb]; exact get?_put_self _ _
  constructor
  · intro d' hd' a b' ha hb'
    rw [ho] at hd'; cases hd'
    rw [hget] at hb'; cases hb'
    exact hE a ha
  · rw [commit_write ho]
    intro hs i hi
    simp only [Option.getD_some] at hi
    rw [hget] at hi; cases hi
    exact hA hs
  · intro d' b' hd' hb' _
    rw [ho] at hd'; cases hd'
    rw [hget] at hb'; cases hb'
    exact hT

theorem writeOK_nowrite {c : Cfg} {now : Int} {din : Option Desc} {r : Res}
    (ho : ∀ d, r.out ≠ .write d) (hI : LInv c r.l din) : WriteOK c now din r := by
  constructor
  · intro d' hd'; exact absurd hd' (ho d')
  · rw [commit_nowrite ho]; exact hI
  · intro d' _ hd'; exact absurd hd' (ho d')

theorem edge_refl (a : State) : Edge a a := Or.inl rfl

theorem edge_of_agrees_same {l : Local} {a : Inst} (h : Agrees l a) : Edge a.state l.state := by
  rcases h.1 with h1 | ⟨h1, h2⟩
  · exact Or.inl h1
  · right; left; rw [h1, h2]; rfl

theorem edge_join {a : State} {target : State} (ht : target = .JOINING ∨ target = .ACTIVE)
    (ha : a = .PENDING ∨ a = .JOINING) : Edge a target := by
  rcases ht with rfl | rfl <;> rcases ha with rfl | rfl <;> simp [Edge, allowed]

theorem edge_changeState {l : Local} {a : Inst} {s : State} (hA : Agrees l a) (hal : allowed l.state s = true) :
    Edge a.state s := by
  rcases hA.1 with h1 | ⟨h1, h2⟩
  · right; left; rw [h1]; exact hal
  · rw [h1]; rw [h2] at hal
    cases s <;> simp [allowed] at hal <;> simp [Edge, allowed]

theorem lcUpdate_ok {c : Cfg} {l : Local} {file : File} {din : Option Desc} {now : Int}
    (hI : ∀ a, Desc.get? (din.getD []) c.id = some a → Edge a.state l.state ∧ a.regTs = l.regTs) :
    WriteOK c now din (lcUpdate c l file din now .none) := by
  apply writeOK_put
  · simp only [lcUpdate]; rfl
  · rfl
  · intro a ha
    have := hI a ha
    simp only [ha, lcInst]
    exact ⟨this.1, this.2.symm, fun h => ⟨h, Int.le_refl _⟩⟩
  · intro _; simp [lcUpdate, Agrees, lcInst]
  · exact Int.le_refl _

theorem lcAutoJoin_ok {c : Cfg} {l : Local} {file : File} {din : Option Desc} {target : State} {now : Int} {gen : Gen}
    (hI : LInv c l din) (hs : l.started = true) (hp : l.state = .PENDING) (ht : target = .JOINING ∨ target = .ACTIVE) :
    WriteOK c now din (lcAutoJoin c l file din target now gen .none) := by
  cases hg : Desc.get? (din.getD []) c.id with
  | none =>
    apply writeOK_put
    · simp only [lcAutoJoin, hg]; rfl
    · rfl
    · intro a ha; rw [hg] at ha; cases ha
    · intro _; simp [lcAutoJoin, hg, Agrees, lcInst]
    · exact Int.le_refl _
  | some a0 =>
    apply writeOK_put
    · simp only [lcAutoJoin, hg]; rfl
    · rfl
    · intro a ha
      rw [hg] at ha; cases ha
      have hA := hI hs a0 hg
      refine ⟨?_, ?_, fun h => ⟨h, Int.le_refl _⟩⟩
      · apply edge_join ht
        rcases hA.1 with h1 | ⟨h1, _⟩
        · left; rw [h1, hp]
        · right; exact h1
      · simp [lcInst, hA.2]
    · intro _; simp [lcAutoJoin, hg, Agrees, lcInst]
    · exact Int.le_refl _

theorem lcVerify_ok {c : Cfg} {l : Local} {file : File} {din : Option Desc} {now : Int} {gen : Gen}
    (hI : LInv c l din) (hs : l.started = true) :
    WriteOK c now din (lcVerify c l file din now gen .none) := by
  cases hg : Desc.get? (din.getD []) c.id with
  | none =>
    apply writeOK_put
    · simp only [lcVerify, hg]; rfl
    · rfl
    · intro a ha; rw [hg] at ha; cases ha
    · intro _; simp [lcVerify, hg, Agrees, lcInst]
    · exact Int.le_refl _
  | some a0 =>
    by_cases he : sortNat (tokensOf (din.getD []) c.id) = sortNat l.tokens
    · apply writeOK_nowrite
      · intro d; simp [lcVerify, hg, he]
      · intro _ i hi
        have := hI hs i hi
        simpa [lcVerify, hg, Agrees] using this
    · apply writeOK_put
      · simp only [lcVerify, hg, he]; rfl
      · rfl
      · intro a ha
        have hA := hI hs a ha
        exact ⟨edge_of_agrees_same hA, by simp [lcInst, hA.2], fun h => ⟨h, Int.le_refl _⟩⟩
      · intro _; simp [lcVerify, hg, Agrees, lcInst]
      · exact Int.le_refl _

theorem lcInit_ok {c : Cfg} {file : File} {din : Option Desc} {shuf : List Nat} {now : Int} {gen : Gen} :
    WriteOK c now din (lcInit c file din shuf now gen .none) := by
  cases hg : Desc.get? (din.getD []) c.id with
  | none =>
    apply writeOK_put
    · simp only [lcInit, hg]; rfl
    · rfl
    · intro a ha; rw [hg] at ha; cases ha
    · intro _; simp [lcInit, hg, Agrees, lcInst]
    · exact Int.le_refl _
  | some inst =>
    have hid : inst.id = c.id := get?_some_id hg
    by_cases hj : inst.state = .JOINING
    · constructor
      · intro d' hd' a b ha hb
        simp [lcInit, hg, hj] at hd'
        subst hd'
        rw [ha] at hb; cases hb
        exact ⟨edge_refl _, rfl, fun h => ⟨Int.le_refl _, h⟩⟩
      · have : (lcInit c file din shuf now gen .none).out = .write (din.getD []) := by simp [lcInit, hg, hj]
        rw [commit_write this]
        intro _ i hi
        simp only [Option.getD_some] at hi
        rw [hg] at hi; cases hi
        simp [lcInit, hg, hj, Agrees]
      · intro d' b hd' hb hle
        simp [lcInit, hg, hj] at hd'
        subst hd'
        exact hle b hb
    · by_cases hchg : initInst c inst (lcAdjust c (din.getD []) inst shuf gen).1 ≠ inst
      · apply writeOK_put (b := { initInst c inst (lcAdjust c (din.getD []) inst shuf gen).1 with ts := now })
        · simp [lcInit, hg, hj, hchg]
        · exact hid
        · intro a ha; rw [hg] at ha; cases ha
          refine ⟨?_, rfl, fun h => ⟨h, Int.le_refl _⟩⟩
          by_cases hl : inst.state = .LEAVING
          · simp [initInst, hl, Edge]
          · simp [initInst, hl, Edge]
        · intro _; simp [lcInit, hg, hj, Agrees, initInst]
        · exact Int.le_refl _
      · apply writeOK_nowrite
        · intro d; simp [lcInit, hg, hj, hchg]
        · intro _ i hi
          rw [hg] at hi; cases hi
          have heq := Classical.not_not.mp hchg
          have hst : (initInst c inst (lcAdjust c (din.getD []) inst shuf gen).1).state = inst.state := by rw [heq]
          simp only [lcInit, hg, hj, Agrees]
          exact ⟨Or.inl hst.symm, rfl⟩

/-- `ClaimTokensFor` of an instance that is in the ring -/
theorem lcClaim_ok_present {c : Cfg} {l : Local} {file : File} {din : Option Desc} {frm : String} {now : Int}
    (hI : LInv c l din) (hfrm : frm ≠ c.id) (hpres : (Desc.get? (din.getD []) c.id).isSome) :
    WriteOK c now din (lcClaim c l file din frm now .none) := by
  cases din with
  | none => simp [get?_nil] at hpres
  | some d =>
    simp only [Option.getD_some] at hpres
    obtain ⟨a, ha⟩ := Option.isSome_iff_exists.mp hpres
    have haid : a.id = c.id := get?_some_id ha
    -- the own entry after `ClaimTokens` moved the tokens of `frm` away
    have hd1 : ∀ d1 : Desc, (d1 = d ∨ ∃ f, Desc.get? d frm = some f ∧ d1 = put d { f with tokens := [] }) →
        Desc.get? d1 c.id = some a := by
      intro d1 h1
      rcases h1 with rfl | ⟨f, hf, rfl⟩
      · exact ha
      · rw [get?_put_other _ _ _ (by simpa [get?_some_id hf] using hfrm.symm)]; exact ha
    have key : ∃ d1, Desc.get? d1 c.id = some a ∧
        (lcClaim c l file (some d) frm now .none).out = .write (put d1 { a with tokens := sortNat (tokensOf d frm), ts := now }) ∧
        (lcClaim c l file (some d) frm now .none).l = { l with tokens := sortNat (tokensOf d frm) } := by
      cases hf : Desc.get? d frm with
      | none =>
        refine ⟨d, ha, ?_, ?_⟩
        · simp [lcClaim, claimOn, hf, ha]
        · simp [lcClaim, ha]
      | some f =>
        have := hd1 (put d { f with tokens := [] }) (Or.inr ⟨f, hf, rfl⟩)
        refine ⟨_, this, ?_, ?_⟩
        · simp [lcClaim, claimOn, hf, ha, this]
        · simp [lcClaim, ha]
    obtain ⟨d1, hg1, hout, hl⟩ := key
    have hget : Desc.get? (put d1 { a with tokens := sortNat (tokensOf d frm), ts := now }) c.id =
        some { a with tokens := sortNat (tokensOf d frm), ts := now } := by
      rw [get?_put]; simp [haid]
    constructor
    · intro d' hd' a' b ha' hb
      rw [hout] at hd'; cases hd'
      simp only [Option.getD_some] at ha'
      rw [ha] at ha'; cases ha'
      rw [hget] at hb; cases hb
      exact ⟨edge_refl _, rfl, fun h => ⟨h, Int.le_refl _⟩⟩
    · rw [commit_write hout, hl]
      intro hs i hi
      simp only [Option.getD_some] at hi
      rw [hget] at hi; cases hi
      exact hI hs a ha
    · intro d' b hd' hb _
      rw [hout] at hd'; cases hd'
      rw [hget] at hb; cases hb
      exact Int.le_refl _

/-- `ClaimTokensFor`, own entry in the ring or not (then it is added back first, registered now) -/
theorem lcClaim_ok {c : Cfg} {l : Local} {file : File} {din : Option Desc} {frm : String} {now : Int}
    (hI : LInv c l din) (hfrm : frm ≠ c.id) :
    WriteOK c now din (lcClaim c l file din frm now .none) := by
  cases hg : Desc.get? (din.getD []) c.id with
  | some a => exact lcClaim_ok_present hI hfrm (by simp [hg])
  | none =>
    cases din with
    | none =>
      apply writeOK_nowrite
      · intro d; simp [lcClaim]
      · simpa [lcClaim] using hI
    | some d =>
      simp only [Option.getD_some] at hg
      -- the written descriptor holds the re-inserted own entry with the claimed tokens
      have hbase : Desc.get? (claimBase c l d now) c.id = some (lcInst c { l with regTs := now } l.tokens now) := by
        simp only [claimBase, hg]; rw [← lcInst_id c { l with regTs := now } l.tokens now]; exact get?_put_self _ _
      have hout := lcClaim_out (c := c) (l := l) (file := file) (d := d) (frm := frm) (now := now) (fault := .none) (by decide)
      have hown : ∃ b, Desc.get? (claimOn c (claimBase c l d now) frm now) c.id = some b ∧ b.state = l.state ∧ b.regTs = now ∧ b.ts = now := by
        cases hf : Desc.get? (claimBase c l d now) frm with
        | none =>
          refine ⟨{ lcInst c { l with regTs := now } l.tokens now with tokens := sortNat (tokensOf (claimBase c l d now) frm), ts := now }, ?_, rfl, rfl, rfl⟩
          simp only [claimOn, hf, hbase, Option.getD_some]; rw [get?_put]; simp [lcInst]
        | some f =>
          have hown : Desc.get? (put (claimBase c l d now) { f with tokens := [] }) c.id =
              some (lcInst c { l with regTs := now } l.tokens now) := by
            rw [get?_put_other _ _ _ (by simpa [get?_some_id hf] using hfrm.symm)]; exact hbase
          refine ⟨{ lcInst c { l with regTs := now } l.tokens now with tokens := sortNat (tokensOf (claimBase c l d now) frm), ts := now }, ?_, rfl, rfl, rfl⟩
          simp only [claimOn, hf, hown, Option.getD_some]; rw [get?_put]; simp [lcInst]
      obtain ⟨b, hb, hbs, hbr, hbt⟩ := hown
      have hl : (lcClaim c l file (some d) frm now .none).l.state = l.state ∧ (lcClaim c l file (some d) frm now .none).l.regTs = now := by
        simp [lcClaim, hg]
      constructor
      · intro d' _ a b' ha _
        simp only [Option.getD_some] at ha
        rw [hg] at ha; cases ha
      · rw [commit_write hout]
        intro _ i hi
        simp only [Option.getD_some] at hi
        rw [hb] at hi; cases hi
        exact ⟨Or.inl (by rw [hbs, hl.1]), by rw [hbr, hl.2]⟩
      · intro d' b' hd' hb' _
        rw [hout] at hd'; cases hd'
        rw [hb] at hb'; cases hb'
        rw [hbt]; exact Int.le_refl _

theorem lcUnregister_ok {c : Cfg} {l : Local} {file : File} {din : Option Desc} {now : Int}
    (hI : LInv c l din) : WriteOK c now din (lcUnregister c l file din .none) := by
  cases din with
  | none =>
    apply writeOK_nowrite
    · intro d; simp [lcUnregister]
    · simpa [lcUnregister] using hI
  | some d =>
    have hout : (lcUnregister c l file (some d) .none).out = .write (erase d c.id) := by simp [lcUnregister]
    constructor
    · intro d' hd' a b _ hb
      rw [hout] at hd'; cases hd'
      rw [get?_erase_self] at hb; cases hb
    · rw [commit_write hout]
      intro _ i hi
      simp only [Option.getD_some] at hi
      rw [get?_erase_self] at hi; cases hi
    · intro d' b hd' hb _
      rw [hout] at hd'; cases hd'
      rw [get?_erase_self] at hb; cases hb

theorem lcCheckReady_keeps (c : Cfg) (l : Local) (store : Option Desc) (now : Int) (gf : Bool) :
    (lcCheckReady c l store now gf).1.started = l.started ∧ (lcCheckReady c l store now gf).1.state = l.state ∧
    (lcCheckReady c l store now gf).1.regTs = l.regTs ∧ (lcCheckReady c l store now gf).1.tokens = l.tokens := by
  unfold lcCheckReady
  repeat' split
  all_goals (simp only []; try split)
  all_goals simp

theorem linv_of_keeps {c : Cfg} {l l' : Local} {store : Option Desc} (hI : LInv c l store)
    (h1 : l'.started = l.started) (h2 : l'.state = l.state) (h3 : l'.regTs = l.regTs) : LInv c l' store := by
  intro hs i hi
  have := hI (h1 ▸ hs) i hi
  unfold Agrees at *
  rw [h2, h3]; exact this

/-- every handler of the full lifecycler, on an accepting store -/
theorem lc_step_ok {c : Cfg} {l : Local} {file : File} {din : Option Desc} {ev : Event} {now : Int} {gen : Gen}
    (hk : c.kind = .LC) (hI : LInv c l din)
    (hclaim : ∀ frm, ev = .claim frm → frm ≠ c.id) :
    WriteOK c now din (step c l file din ev now gen .none) := by
  have hnoop : ∀ r : Ret, WriteOK c now din (noop l file r) := by
    intro r
    apply writeOK_nowrite
    · intro d; simp [noop]
    · simpa [noop] using hI
  by_cases hs : l.started = true
  case neg =>
    have hs' : l.started = false := by simpa using hs
    cases ev <;> simp only [step, hk, hs', Bool.not_false, if_true] <;> first | exact lcInit_ok | exact hnoop _
  cases ev <;> simp only [step, hk, hs, Bool.not_true, Bool.false_eq_true, if_false]
  case init shuf => exact lcInit_ok
  case joinTimer =>
    simp only [lcJoinTimer]
    split
    · rename_i hp
      apply lcAutoJoin_ok hI hs hp
      split <;> simp
    · exact hnoop _
  case verify => exact lcVerify_ok hI hs
  case heartbeat =>
    exact lcUpdate_ok (fun a ha => ⟨edge_of_agrees_same (hI hs a ha), (hI hs a ha).2⟩)
  case changeState s =>
    simp only [lcChangeState]
    split
    · rename_i hal
      exact lcUpdate_ok (l := { l with state := s }) (fun a ha => ⟨edge_changeState (hI hs a ha) hal, (hI hs a ha).2⟩)
    · exact hnoop _
  case changeRO b =>
    simp only [lcChangeRO]
    split
    · exact hnoop _
    · exact lcUpdate_ok (l := { l with ro := b, roTs := now }) (fun a ha => ⟨edge_of_agrees_same (hI hs a ha), (hI hs a ha).2⟩)
  case claim frm => exact lcClaim_ok hI (hclaim frm rfl)
  case unregister => exact lcUnregister_ok hI
  case checkReady =>
    apply writeOK_nowrite
    · intro d; simp
    · have := lcCheckReady_keeps c l din now (decide (Fault.none = Fault.failBefore))
      exact linv_of_keeps hI this.1 this.2.1 this.2.2.1
  all_goals exact hnoop _

/-! ### one full lifecycler against its environment: every schedule -/

/-- what others may do to the entry `id`: leave it, remove it, or take its tokens (hand-over) -/
def EnvOK (id : String) (s s' : Option Desc) : Prop :=
  Desc.get? (s'.getD []) id = Desc.get? (s.getD []) id ∨ Desc.get? (s'.getD []) id = none ∨
  ∃ e, Desc.get? (s.getD []) id = some e ∧ Desc.get? (s'.getD []) id = some { e with tokens := [] }

/-- the actions C08 quantifies over: the store accepts writes, the clock does not go backwards, tokens are
claimed from somebody else, the environment respects the frame -/
def ActOK (c : Cfg) (s : Sys) : Act → Prop
  | .own ev now _ fault => fault = .none ∧ s.clock ≤ now ∧
      ∀ frm, ev = .claim frm → frm ≠ c.id
  | .env st now => s.clock ≤ now ∧ EnvOK c.id s.store st
  | .crash => True
  | .crashIn ev now _ _ => s.clock ≤ now ∧
      ∀ frm, ev = .claim frm → frm ≠ c.id

def RunOK (c : Cfg) : Sys → List Act → Prop
  | _, [] => True
  | s, a :: as => ActOK c s a ∧ RunOK c (s.next c a) as

theorem runOK_append {c : Cfg} {s : Sys} {xs ys : List Act} :
    RunOK c s (xs ++ ys) ↔ RunOK c s xs ∧ RunOK c (s.run c xs) ys := by
  induction xs generalizing s with
  | nil => simp [RunOK, Sys.run]
  | cons a as ih =>
    simp only [List.cons_append, RunOK, ih, Sys.run, List.foldl_cons]
    exact and_assoc.symm

/-- invariant of the product: remembered self agrees with the entry, entry heartbeat not in the future -/
def SInv (c : Cfg) (s : Sys) : Prop :=
  LInv c s.l s.store ∧ ∀ i, Desc.get? (s.store.getD []) c.id = some i → i.ts ≤ s.clock

/-- what one action may do to the published entry -/
def PubOK (a b : Inst) : Prop := Edge a.state b.state ∧ b.regTs = a.regTs ∧ a.ts ≤ b.ts

/-- one own handler on an accepting store: invariant, heartbeat bound and what happens to the published entry -/
theorem lc_own_step {c : Cfg} (hk : c.kind = .LC) {s : Sys} {ev : Event} {now : Int} {gen : Gen} (hI : SInv c s)
    (hclk : s.clock ≤ now) (hcl : ∀ frm, ev = .claim frm → frm ≠ c.id) :
    let r := step c s.l s.file s.store ev now gen .none
    LInv c r.l (commit s.store r .none) ∧
    (∀ y, Desc.get? ((commit s.store r .none).getD []) c.id = some y → y.ts ≤ now) ∧
    ∀ x y, Desc.get? (s.store.getD []) c.id = some x → Desc.get? ((commit s.store r .none).getD []) c.id = some y → PubOK x y := by
  intro r
  have hw : WriteOK c now s.store r := lc_step_ok (file := s.file) (now := now) (gen := gen) hk hI.1 hcl
  refine ⟨hw.inv, ?_, ?_⟩
  · intro y hy
    cases ho : r.out with
    | write d' =>
      rw [commit_write ho] at hy
      simp only [Option.getD_some] at hy
      cases hx : Desc.get? (s.store.getD []) c.id with
      | some x => exact ((hw.edge d' ho x y hx hy).2.2 (Int.le_trans (hI.2 x hx) hclk)).2
      | none => exact hw.tsle d' y ho hy (by intro a ha; rw [hx] at ha; cases ha)
    | _ =>
      rw [commit_nowrite (by intro d; rw [ho]; simp)] at hy
      exact Int.le_trans (hI.2 y hy) hclk
  · intro x y hx hy
    cases ho : r.out with
    | write d' =>
      rw [commit_write ho] at hy
      simp only [Option.getD_some] at hy
      have := hw.edge d' ho x y hx hy
      exact ⟨this.1, this.2.1, (this.2.2 (Int.le_trans (hI.2 x hx) hclk)).1⟩
    | _ =>
      rw [commit_nowrite (by intro d; rw [ho]; simp)] at hy
      rw [hx] at hy; cases hy
      exact ⟨edge_refl _, rfl, Int.le_refl _⟩

theorem sys_step_lc {c : Cfg} (hk : c.kind = .LC) {s : Sys} {a : Act} (hI : SInv c s) (hA : ActOK c s a) :
    SInv c (s.next c a) ∧
    ∀ x y, Desc.get? (s.store.getD []) c.id = some x → Desc.get? ((s.next c a).store.getD []) c.id = some y → PubOK x y := by
  cases a with
  | crash =>
    refine ⟨⟨?_, hI.2⟩, ?_⟩
    · intro hs; simp [Sys.next] at hs
    · intro x y hx hy
      simp only [Sys.next] at hy
      rw [hx] at hy; cases hy
      exact ⟨edge_refl _, rfl, Int.le_refl _⟩
  | crashIn ev now gen ac =>
    obtain ⟨hclk, hcl⟩ := hA
    have h := lc_own_step (gen := gen) hk hI hclk hcl
    cases ac with
    | true =>
      refine ⟨⟨?_, ?_⟩, ?_⟩
      · intro hs; simp [Sys.next] at hs
      · intro i hi; simp only [Sys.next, if_true] at hi ⊢; exact h.2.1 i hi
      · intro x y hx hy; simp only [Sys.next, if_true] at hy; exact h.2.2 x y hx hy
    | false =>
      refine ⟨⟨?_, ?_⟩, ?_⟩
      · intro hs; simp [Sys.next] at hs
      · intro i hi
        simp only [Sys.next, Bool.false_eq_true, if_false] at hi ⊢
        exact Int.le_trans (hI.2 i hi) hclk
      · intro x y hx hy
        simp only [Sys.next, Bool.false_eq_true, if_false] at hy
        rw [hx] at hy; cases hy
        exact ⟨edge_refl _, rfl, Int.le_refl _⟩
  | env st now =>
    obtain ⟨hclk, henv⟩ := hA
    have key : ∀ y, Desc.get? (st.getD []) c.id = some y → ∃ x, Desc.get? (s.store.getD []) c.id = some x ∧
        y.state = x.state ∧ y.regTs = x.regTs ∧ y.ts = x.ts := by
      intro y hy
      rcases henv with h | h | ⟨e, he, h⟩
      · exact ⟨y, by rw [← h]; exact hy, rfl, rfl, rfl⟩
      · rw [h] at hy; cases hy
      · rw [h] at hy; cases hy; exact ⟨e, he, rfl, rfl, rfl⟩
    refine ⟨⟨?_, ?_⟩, ?_⟩
    · intro hs i hi
      obtain ⟨x, hx, h1, h2, _⟩ := key i hi
      have := hI.1 hs x hx
      unfold Agrees at *
      rw [h1, h2]; exact this
    · intro i hi
      obtain ⟨x, hx, _, _, h3⟩ := key i hi
      have := hI.2 x hx
      simp only [Sys.next]
      rw [h3]; exact Int.le_trans this hclk
    · intro x y hx hy
      obtain ⟨x', hx', h1, h2, h3⟩ := key y hy
      rw [hx] at hx'; cases hx'
      exact ⟨Or.inl h1.symm, h2, by rw [h3]; exact Int.le_refl _⟩
  | own ev now gen fault =>
    obtain ⟨hf, hclk, hcl⟩ := hA
    subst hf
    have h := lc_own_step (gen := gen) hk hI hclk hcl
    exact ⟨⟨h.1, h.2.1⟩, h.2.2⟩

theorem sinv_run {c : Cfg} (hk : c.kind = .LC) {s : Sys} {acts : List Act} (hI : SInv c s) (hr : RunOK c s acts) :
    SInv c (s.run c acts) := by
  induction acts generalizing s with
  | nil => exact hI
  | cons a as ih =>
    simp only [Sys.run, List.foldl_cons]
    exact ih (sys_step_lc hk hI hr.1).1 hr.2

/-- every step of every valid schedule treats the published entry correctly -/
theorem lc_run_pub {c : Cfg} (hk : c.kind = .LC) {s0 : Sys} (h0 : SInv c s0) (pre : List Act) (a : Act)
    (hr : RunOK c s0 (pre ++ [a])) (x y : Inst)
    (hx : Desc.get? ((s0.run c pre).store.getD []) c.id = some x)
    (hy : Desc.get? ((s0.run c (pre ++ [a])).store.getD []) c.id = some y) : PubOK x y := by
  have hr' := runOK_append.mp hr
  have hI := sinv_run hk h0 hr'.1
  have hA : ActOK c (s0.run c pre) a := hr'.2.1
  have : s0.run c (pre ++ [a]) = (s0.run c pre).next c a := by simp [Sys.run]
  rw [this] at hy
  exact (sys_step_lc hk hI hA).2 x y hx hy

theorem sinv_init {c : Cfg} {store : Option Desc} {file : File} {clock : Int}
    (hts : ∀ i, Desc.get? (store.getD []) c.id = some i → i.ts ≤ clock) :
    SInv c { store := store, l := {}, file := file, clock := clock } :=
  ⟨fun hs => by simp at hs, hts⟩

/-! ### BasicLifecycler: what one write does to the own entry -/

theorem blcUpdate_get {c : Cfg} {l : Local} {file : File} {din : Option Desc} {now : Int} {fault : Fault}
    {u : Desc → Inst → Upd} {d' : Desc} {a : Inst} (hu : KeepsId u)
    (ha : Desc.get? (din.getD []) c.id = some a)
    (h : (blcUpdateInstance c l file din now fault u).1.out = .write d') :
    (u (din.getD []) a).changed = true ∧
    Desc.get? d' c.id = some (if (u (din.getD []) a).inst.ts = a.ts then { (u (din.getD []) a).inst with ts := now } else (u (din.getD []) a).inst) := by
  by_cases hf : fault = .failBefore
  · simp [blcUpdateInstance, hf] at h
  · simp only [blcUpdateInstance, hf, if_false, ha, Option.isSome_some, if_true, Option.getD_some, Bool.true_and] at h
    split at h
    · simp at h
    · rename_i hch
      simp only [CasOut.write.injEq] at h
      subst h
      refine ⟨by simpa using hch, ?_⟩
      rw [get?_put]
      have hid : (u (din.getD []) a).inst.id = c.id := (hu _ _).trans (get?_some_id ha)
      split <;> simp [hid]

/-- how a BasicLifecycler write may change the state: not at all, or as requested / configured -/
def BlcStateOK (c : Cfg) (ev : Event) (a b : State) : Prop :=
  b = a ∨ (∃ shuf, ev = .init shuf ∧ b = c.registerState) ∨ ev = .changeState b ∨ (ev = .stopDelegate ∧ b = .LEAVING)

theorem blc_step_pub {c : Cfg} {l : Local} {file : File} {din : Option Desc} {ev : Event} {now : Int} {gen : Gen} {fault : Fault}
    {d' : Desc} {a b : Inst} (hk : c.kind = .BLC)
    (h : (step c l file din ev now gen fault).out = .write d')
    (ha : Desc.get? (din.getD []) c.id = some a) (hb : Desc.get? d' c.id = some b) :
    b.regTs = a.regTs ∧ (a.ts ≤ now → a.ts ≤ b.ts ∧ b.ts ≤ now) ∧ BlcStateOK c ev a.state b.state := by
  have hupd : ∀ u : Desc → Inst → Upd, KeepsId u →
      (blcUpdateInstance c l file din now fault u).1.out = .write d' →
      (∀ d i, (u d i).inst.regTs = i.regTs) → (∀ d i, (u d i).inst.ts = i.ts ∨ (u d i).inst.ts = now) →
      b.regTs = a.regTs ∧ (a.ts ≤ now → a.ts ≤ b.ts ∧ b.ts ≤ now) ∧ b.state = (u (din.getD []) a).inst.state := by
    intro u hu hout hreg hts
    have hg := (blcUpdate_get hu ha hout).2
    rw [hg] at hb
    split at hb
    · cases hb; exact ⟨hreg _ _, fun h => ⟨h, Int.le_refl _⟩, rfl⟩
    · rename_i hne
      cases hb
      refine ⟨hreg _ _, fun h => ?_, rfl⟩
      rcases hts (din.getD []) a with h1 | h1
      · exact absurd h1 hne
      · rw [h1]; exact ⟨h, Int.le_refl _⟩
  cases ev <;> simp only [step, hk] at h
  case init shuf =>
    by_cases hf : fault = .failBefore
    · simp [blcRegister, hf] at h
    · simp [blcRegister, hf] at h
      subst h
      rw [get?_put] at hb
      simp at hb
      subst hb
      refine ⟨by simp [ha], fun h => ⟨h, Int.le_refl _⟩, Or.inr (Or.inl ⟨shuf, rfl, rfl⟩)⟩
  all_goals (split at h; · simp [noop] at h)
  all_goals try (simp [noop] at h; done)
  case verify =>
    obtain ⟨h1, h2, h3⟩ := hupd _ (keepsId_verify c l gen) h
      (by intro d i; unfold updVerify; split <;> rfl) (by intro d i; unfold updVerify; split <;> exact Or.inl rfl)
    refine ⟨h1, h2, Or.inl ?_⟩
    rw [h3]; unfold updVerify; split <;> rfl
  case heartbeat =>
    obtain ⟨h1, h2, h3⟩ := hupd _ (keepsId_hb c now) h (by intro d i; rfl) (by intro d i; exact Or.inr rfl)
    exact ⟨h1, h2, Or.inl (by rw [h3]; rfl)⟩
  case changeState s _ =>
    obtain ⟨h1, h2, h3⟩ := hupd _ (keepsId_state s) h
      (by intro d i; unfold updState; split <;> rfl) (by intro d i; unfold updState; split <;> exact Or.inl rfl)
    refine ⟨h1, h2, ?_⟩
    rw [h3]; unfold updState; split
    · exact Or.inl rfl
    · exact Or.inr (Or.inr (Or.inl rfl))
  case changeRO r _ =>
    obtain ⟨h1, h2, h3⟩ := hupd _ (keepsId_ro r now) h
      (by intro d i; unfold updRO; split <;> rfl) (by intro d i; unfold updRO; split <;> exact Or.inl rfl)
    refine ⟨h1, h2, Or.inl ?_⟩
    rw [h3]; unfold updRO; split <;> rfl
  case stopDelegate =>
    obtain ⟨h1, h2, h3⟩ := hupd _ (keepsId_state .LEAVING) h
      (by intro d i; unfold updState; split <;> rfl) (by intro d i; unfold updState; split <;> exact Or.inl rfl)
    refine ⟨h1, h2, ?_⟩
    rw [h3]; unfold updState; split
    · exact Or.inl rfl
    · exact Or.inr (Or.inr (Or.inr ⟨rfl, rfl⟩))
  case unregister =>
    by_cases hf : fault = .failBefore
    · simp [blcUnregister, hf] at h
    · cases din with
      | none => simp [blcUnregister, hf] at h
      | some d =>
        simp [blcUnregister, hf] at h
        subst h
        rw [get?_erase_self] at hb; cases hb

/-! ### tokens -/

theorem insertNat_perm (x : Nat) (l : List Nat) : (insertNat x l).Perm (x :: l) := by
  induction l with
  | nil => exact List.Perm.refl _
  | cons y ys ih =>
    unfold insertNat
    split
    · exact List.Perm.refl _
    · exact ((List.Perm.cons y ih).trans (List.Perm.swap x y ys))

theorem sortNat_perm (l : List Nat) : (sortNat l).Perm l := by
  induction l with
  | nil => exact List.Perm.refl _
  | cons x xs ih =>
    show (insertNat x (sortNat xs)).Perm (x :: xs)
    exact (insertNat_perm x _).trans (List.Perm.cons x ih)

theorem insertNat_sorted (x : Nat) (l : List Nat) (h : l.Pairwise (· ≤ ·)) : (insertNat x l).Pairwise (· ≤ ·) := by
  induction l with
  | nil => simp [insertNat]
  | cons y ys ih =>
    unfold insertNat
    have hy := List.pairwise_cons.mp h
    split
    · rename_i hxy
      refine List.pairwise_cons.mpr ⟨?_, h⟩
      intro z hz
      rcases List.mem_cons.mp hz with rfl | hz
      · exact hxy
      · exact Nat.le_trans hxy (hy.1 z hz)
    · rename_i hxy
      refine List.pairwise_cons.mpr ⟨?_, ih hy.2⟩
      intro z hz
      have := (insertNat_perm x ys).mem_iff.mp hz
      rcases List.mem_cons.mp this with rfl | hz
      · omega
      · exact hy.1 z hz

theorem sortNat_sorted (l : List Nat) : (sortNat l).Pairwise (· ≤ ·) := by
  induction l with
  | nil => simp [sortNat]
  | cons x xs ih => exact insertNat_sorted x _ ih

theorem mem_sortNat {x : Nat} {l : List Nat} : x ∈ sortNat l ↔ x ∈ l := (sortNat_perm l).mem_iff
theorem length_sortNat (l : List Nat) : (sortNat l).length = l.length := (sortNat_perm l).length_eq

theorem sortNat_strict {l : List Nat} (h : l.Nodup) : (sortNat l).Pairwise (· < ·) := by
  have hn : (sortNat l).Nodup := (sortNat_perm l).nodup_iff.mpr h
  have hs := sortNat_sorted l
  have hboth : (sortNat l).Pairwise (fun a b => a ≤ b ∧ a ≠ b) := List.Pairwise.and hs hn
  exact hboth.imp (fun ⟨h1, h2⟩ => by omega)

theorem mem_allTokens {t : Nat} {d : Desc} : t ∈ allTokens d ↔ ∃ i ∈ d, t ∈ i.tokens := by
  unfold allTokens
  rw [mem_sortNat]
  simp [List.mem_flatMap]

/-- the TokenGenerator contract: exactly the requested number of tokens, strictly sorted, none taken -/
def GenOK (gen : Gen) : Prop :=
  ∀ n taken, (gen n taken).length = n.toNat ∧ (gen n taken).Pairwise (· < ·) ∧ ∀ t ∈ gen n taken, t ∉ taken

/-- kept tokens `base` that the generator was told about, topped up to `num` -/
theorem topup_ok {gen : Gen} (hg : GenOK gen) {base taken : List Nat} {num : Nat}
    (hsub : ∀ t ∈ base, t ∈ taken) (hnd : base.Nodup) (hle : base.length ≤ num) :
    let toks := sortNat (base ++ gen ((num : Int) - base.length) taken)
    toks.length = num ∧ toks.Pairwise (· < ·) ∧ (∀ t ∈ base, t ∈ toks) ∧ (∀ t ∈ toks, t ∈ base ∨ t ∉ taken) := by
  obtain ⟨hlen, hsorted, hfresh⟩ := hg ((num : Int) - base.length) taken
  have hgn : (gen ((num : Int) - base.length) taken).Nodup := hsorted.imp (fun h => by omega)
  refine ⟨?_, ?_, ?_, ?_⟩
  · rw [length_sortNat, List.length_append, hlen]; omega
  · apply sortNat_strict
    rw [List.nodup_append]
    refine ⟨hnd, hgn, ?_⟩
    intro a ha b hb hab
    subst hab
    exact hfresh a hb (hsub a ha)
  · intro t ht; exact mem_sortNat.mpr (List.mem_append.mpr (Or.inl ht))
  · intro t ht
    rcases List.mem_append.mp (mem_sortNat.mp ht) with h | h
    · exact Or.inl h
    · exact Or.inr (hfresh t h)

theorem tokensOf_sub_all (d : Desc) (id : String) : ∀ t ∈ tokensOf d id, t ∈ allTokens d := by
  intro t ht
  unfold tokensOf at ht
  cases hg : Desc.get? d id with
  | none => simp [hg] at ht
  | some i =>
    simp only [hg] at ht
    exact mem_allTokens.mpr ⟨i, get?_some_mem hg, ht⟩

/-- the join timer of a PENDING full lifecycler publishes the target state with exactly `numTokens`
distinct sorted tokens; ring tokens of the own entry are kept; every other token was in nobody's list -/
theorem lc_join_tokens {c : Cfg} {l : Local} {file : File} {din : Option Desc} {now : Int} {gen : Gen} {fault : Fault}
    (hk : c.kind = .LC) (hs : l.started = true) (hp : l.state = .PENDING) (hg : GenOK gen) (hf : fault ≠ .failBefore)
    (hnd : (tokensOf (din.getD []) c.id).Nodup) (hle : (tokensOf (din.getD []) c.id).length ≤ c.numTokens) :
    ∃ d' b, (step c l file din .joinTimer now gen fault).out = .write d' ∧ Desc.get? d' c.id = some b ∧
      b.state = (if c.observe then .JOINING else .ACTIVE) ∧
      (step c l file din .joinTimer now gen fault).l.state = b.state ∧
      (step c l file din .joinTimer now gen fault).l.tokens = b.tokens ∧
      b.tokens.length = c.numTokens ∧ b.tokens.Pairwise (· < ·) ∧
      (∀ t ∈ tokensOf (din.getD []) c.id, t ∈ b.tokens) ∧
      (∀ t ∈ b.tokens, t ∈ tokensOf (din.getD []) c.id ∨ ∀ i ∈ din.getD [], t ∉ i.tokens) := by
  have h := topup_ok hg (tokensOf_sub_all (din.getD []) c.id) hnd hle
  simp only [step, hk, hs, Bool.not_true, Bool.false_eq_true, if_false, lcJoinTimer, hp, if_true, lcAutoJoin, hf]
  refine ⟨_, _, rfl, get?_put_self _ _, rfl, rfl, rfl, h.1, h.2.1, h.2.2.1, ?_⟩
  intro t ht
  rcases h.2.2.2 t ht with h1 | h1
  · exact Or.inl h1
  · exact Or.inr (fun i hi hti => h1 (mem_allTokens.mpr ⟨i, hi, hti⟩))

/-- BasicLifecycler registration: the kept tokens (ring entry or tokens file) are reported to the generator as
taken, so the entry gets exactly `numTokens` distinct sorted tokens, kept ones included, new ones neither kept nor
in anybody's list. -/
theorem blc_register_tokens {c : Cfg} {l : Local} {file : File} {din : Option Desc} {shuf : List Nat} {now : Int} {gen : Gen} {fault : Fault}
    (hk : c.kind = .BLC) (hg : GenOK gen) (hf : fault ≠ .failBefore)
    (hnd : (blcInherited c file (Desc.get? (din.getD []) c.id)).Nodup)
    (hle : (blcInherited c file (Desc.get? (din.getD []) c.id)).length ≤ c.numTokens) :
    ∃ d' b, (step c l file din (.init shuf) now gen fault).out = .write d' ∧ Desc.get? d' c.id = some b ∧
      b.state = c.registerState ∧
      b.tokens.length = c.numTokens ∧ b.tokens.Pairwise (· < ·) ∧
      (∀ t ∈ blcInherited c file (Desc.get? (din.getD []) c.id), t ∈ b.tokens) ∧
      (∀ t ∈ b.tokens, t ∈ blcInherited c file (Desc.get? (din.getD []) c.id) ∨ ∀ i ∈ din.getD [], t ∉ i.tokens) := by
  have hsub : ∀ t ∈ blcInherited c file (Desc.get? (din.getD []) c.id),
      t ∈ allTokens (din.getD []) ++ blcInherited c file (Desc.get? (din.getD []) c.id) :=
    fun t ht => List.mem_append.mpr (Or.inr ht)
  have h := topup_ok hg hsub hnd hle
  simp only [step, hk, blcRegister, hf, if_false]
  refine ⟨_, _, rfl, get?_put_self _ _, rfl, h.1, h.2.1, h.2.2.1, ?_⟩
  intro t ht
  rcases h.2.2.2 t ht with h1 | h1
  · exact Or.inl h1
  · exact Or.inr (fun i hi hti => h1 (List.mem_append.mpr (Or.inl (mem_allTokens.mpr ⟨i, hi, hti⟩))))

/-! ### readiness -/

theorem ready_sound {c : Cfg} {l : Local} {store : Option Desc} {now : Int} {gf : Bool}
    (hnot : l.ready = false) (h : (lcCheckReady c l store now gf).2 = .ok) :
    l.tokens ≠ [] ∧ gf = false ∧ ringReady c store now = true ∧ (lcCheckReady c l store now gf).1.ready = true := by
  by_cases hc : l.tokens = [] ∨ gf = true ∨ ringReady c store now = false
  · simp [lcCheckReady, hnot, hc] at h
  · have hc' : ¬ l.tokens = [] ∧ ¬ gf = true ∧ ¬ ringReady c store now = false := by
      simpa [not_or] using hc
    by_cases hm : now - (if l.readySince = 0 then now else l.readySince) < c.minReady
    · simp [lcCheckReady, hnot, hc, hm] at h
    · refine ⟨hc'.1, by simpa using hc'.2.1, by simpa using hc'.2.2, ?_⟩
      simp [lcCheckReady, hnot, hc, hm]

theorem ready_latch (c : Cfg) (l : Local) (store : Option Desc) (now : Int) (gf : Bool) (h : l.ready = true) :
    lcCheckReady c l store now gf = (l, .ok) := by
  simp [lcCheckReady, h]

theorem ringReady_spec {c : Cfg} {store : Option Desc} {now : Int} (h : ringReady c store now = true) :
    ∃ d, store = some d ∧
      (c.readinessRing = true → (∀ i ∈ d, i.state = .ACTIVE ∧ now - i.ts < c.hbTimeout) ∧ ∃ i ∈ d, i.tokens ≠ []) ∧
      (c.readinessRing = false → ∃ i, Desc.get? d c.id = some i ∧ i.state = .ACTIVE ∧ now - i.ts < c.hbTimeout) := by
  cases store with
  | none => simp [ringReady] at h
  | some d =>
    refine ⟨d, rfl, ?_, ?_⟩
    · intro hr
      simp only [ringReady, hr, if_true, Bool.and_eq_true, List.all_eq_true] at h
      refine ⟨fun i hi => ?_, ?_⟩
      · have := h.1 i hi
        simpa [instReady, healthy, and_comm] using this
      · have h2 := h.2
        simp only [bne_iff_ne, ne_eq, List.length_eq_zero_iff] at h2
        by_cases hall : ∀ i ∈ d, i.tokens = []
        · exfalso; apply h2
          simp only [List.flatMap_eq_nil_iff]; exact hall
        · have := Classical.not_forall.mp hall
          obtain ⟨i, hi⟩ := this
          have := Classical.not_imp.mp hi
          exact ⟨i, this.1, this.2⟩
    · intro hr
      simp only [ringReady, hr, Bool.false_eq_true, if_false] at h
      cases hg : Desc.get? d c.id with
      | none => simp [hg] at h
      | some i =>
        simp only [hg] at h
        exact ⟨i, rfl, by simpa [instReady, healthy, and_comm] using h⟩

/-- a heartbeat that the store accepts publishes the current time -/
theorem heartbeat_refreshes {c : Cfg} {l : Local} {file : File} {din : Option Desc} {now : Int} {gen : Gen}
    (hs : l.started = true) :
    ∃ d' b, (step c l file din .heartbeat now gen .none).out = .write d' ∧ Desc.get? d' c.id = some b ∧ b.ts = now := by
  cases hk : c.kind with
  | LC =>
    simp only [step, hk, hs, Bool.not_true, Bool.false_eq_true, if_false, lcUpdate]
    exact ⟨_, _, rfl, get?_put_self _ _, rfl⟩
  | BLC =>
    simp only [step, hk, hs, Bool.not_true, Bool.false_eq_true, if_false, blcUpdateInstance, updHeartbeat]
    simp only [Bool.not_true, Bool.and_false, Bool.false_eq_true, if_false, if_true]
    refine ⟨_, { (Desc.get? (din.getD []) c.id).getD (blcReinsert c l now) with ts := now }, rfl, ?_, rfl⟩
    have hid : ((Desc.get? (din.getD []) c.id).getD (blcReinsert c l now)).id = c.id := by
      cases hg : Desc.get? (din.getD []) c.id with
      | none => rfl
      | some i => exact get?_some_id hg
    rw [get?_put]; simp [hid]

/-! ### another lifecycler's handler is an environment step for this one -/

theorem frame_envOK {c : Cfg} {l : Local} {file : File} {din : Option Desc} {ev : Event} {now : Int} {gen : Gen} {fault : Fault}
    (hwf : WF (din.getD [])) (id : String) (hid : id ≠ c.id) :
    EnvOK id din (commit din (step c l file din ev now gen fault) fault) := by
  cases ho : (step c l file din ev now gen fault).out with
  | write d' =>
    cases fault with
    | none =>
      simp only [commit, ho]
      rcases frame hwf ho id hid with h | ⟨_, e, _, _, _, h1, h2⟩ | ⟨_, _, _, _, _, _, _, h⟩
      · exact Or.inl h
      · exact Or.inr (Or.inr ⟨e, h1, h2⟩)
      · exact Or.inr (Or.inl h)
    | failBefore => simp only [commit, ho]; exact Or.inl rfl
    | failCommit => simp only [commit, ho]; exact Or.inl rfl
  | noCas => simp only [commit, ho]; exact Or.inl rfl
  | declined => simp only [commit, ho]; exact Or.inl rfl
  | cbErr => simp only [commit, ho]; exact Or.inl rfl

/-- every handler keeps the descriptor a map -/
theorem step_wf {c : Cfg} {l : Local} {file : File} {din : Option Desc} {ev : Event} {now : Int} {gen : Gen} {fault : Fault}
    (hwf : WF (din.getD [])) : WF ((commit din (step c l file din ev now gen fault) fault).getD []) := by
  cases ho : (step c l file din ev now gen fault).out with
  | write d' =>
    cases fault with
    | none =>
      simp only [commit, ho, Option.getD_some]
      -- every write is a put / erase / filter of a well-formed descriptor
      cases hk : c.kind <;> cases ev <;> simp only [step, hk] at ho
      all_goals try (split at ho; · simp [noop] at ho)
      all_goals try (simp [noop] at ho; done)
      · exact (lcInit_frame ho).2 hwf
      · simp only [lcJoinTimer] at ho
        split at ho
        · exact (lcAutoJoin_frame ho).2 hwf
        · simp at ho
      · exact (lcVerify_frame ho).2 hwf
      · exact (lcUpdate_frame ho).2 hwf
      · simp only [lcChangeState] at ho
        split at ho
        · exact (lcUpdate_frame ho).2 hwf
        · simp at ho
      · simp only [lcChangeRO] at ho
        split at ho
        · simp at ho
        · exact (lcUpdate_frame ho).2 hwf
      · -- claim
        rename_i frm _
        cases din with
        | none => simp [lcClaim] at ho
        | some d =>
          simp only [Option.getD_some] at hwf
          rw [lcClaim_out (by decide)] at ho
          simp only [CasOut.write.injEq] at ho
          subst ho
          have hwb : WF (claimBase c l d now) := by
            unfold claimBase
            cases Desc.get? d c.id with
            | none => exact wf_put hwf _
            | some _ => exact hwf
          unfold claimOn
          apply wf_put
          cases hf : Desc.get? (claimBase c l d now) frm with
          | none => exact hwb
          | some f => exact wf_put hwb _
      · exact (lcUnregister_frame ho).2 hwf
      · exact (blcRegister_frame ho).2 hwf
      · exact (blcUpdate_frame (keepsId_verify _ _ _) (updVerify_d _ _ _) ho).2 hwf
      · -- heartbeat with auto-forget
        obtain ⟨dbase, i, inst1, _, _, _, rfl, hw⟩ := blcUpdate_out (keepsId_hb c now) ho
        apply wf_put
        unfold updHeartbeat
        cases c.forget with
        | none => exact hw hwf
        | some p => exact wf_filter (hw hwf) _
      · exact (blcUpdate_frame (keepsId_state _) (updState_d _) ho).2 hwf
      · exact (blcUpdate_frame (keepsId_ro _ _) (updRO_d _ _) ho).2 hwf
      · exact (blcUnregister_frame ho).2 hwf
      · exact (blcUpdate_frame (keepsId_state _) (updState_d _) ho).2 hwf
    | failBefore => simpa [commit, ho] using hwf
    | failCommit => simpa [commit, ho] using hwf
  | noCas => simpa [commit, ho] using hwf
  | declined => simpa [commit, ho] using hwf
  | cbErr => simpa [commit, ho] using hwf

/-! ### compare-and-swap retries -/

theorem casRetry_last (f : Option Desc → Res) (stale : List (Option Desc)) (fresh : Option Desc) :
    casRetry f (stale ++ [fresh]) = some (f fresh) := by
  induction stale with
  | nil => rfl
  | cons a t ih =>
    cases ht : t ++ [fresh] with
    | nil => simp at ht
    | cons b u => rw [List.cons_append, ht, casRetry, ← ht]; exact ih; intro h; cases h

end PfC08
