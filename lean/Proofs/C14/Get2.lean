import Proofs.C14.Get
/-! C14 ↔ C01, widened: zone-aware rings with ANY operation (instances may extend the replica set). Which
instances of a zone are in the walked set of `Ring.Get`, and where that differs from token-range ownership. -/
namespace PfC14
open C14 Ring C01

/-- `y` counts against `x` on the circle: same zone, and either it does not extend the replica set or it is `x` -/
def zoneHit (op : Op) (x y : Inst) : Bool := y.zone == x.zone && (!extendsOn op y.state || y.id == x.id)

/-- `sfullAux ∘ dedupIds` element-wise for any operation: `x` survives iff no earlier NON-EXTENDING instance of
its zone precedes it — neither among `earlier` nor on the circle `C` before `x`'s first occurrence. -/
theorem sfull_dedup_mem_gen (op : Op) : ∀ (C : List Inst) (seen : List String) (earlier : List Inst),
    (∀ id, id ∈ seen ↔ ∃ y ∈ earlier, y.id = id) →
    (∀ a ∈ C ++ earlier, ∀ b ∈ C ++ earlier, a.id = b.id → a = b) →
    (∀ a ∈ C ++ earlier, a.zone ≠ "") →
    ∀ x, x ∈ sfullAux op earlier (dedupIds seen C) ↔
      (x ∈ C ∧ x.id ∉ seen ∧ (∀ y ∈ earlier, y.zone = x.zone → extendsOn op y.state = true) ∧
        C.find? (zoneHit op x) = some x)
  | [], seen, earlier, _, _, _, x => by simp [dedupIds, sfullAux]
  | y :: C, seen, earlier, hseen, hinj, hok, x => by
    have hsub : ∀ a, a ∈ C ++ earlier → a ∈ y :: C ++ earlier := fun a ha => List.mem_cons_of_mem y ha
    have hsub2 : ∀ a, a ∈ C ++ (earlier ++ [y]) → a ∈ y :: C ++ earlier := by
      intro a ha
      rcases List.mem_append.mp ha with h | h
      · exact List.mem_cons_of_mem y (List.mem_append_left _ h)
      · rcases List.mem_append.mp h with h | h
        · exact List.mem_cons_of_mem y (List.mem_append_right _ h)
        · simp at h; rw [h]; exact List.mem_cons_self
    have hinj' : ∀ a ∈ C ++ earlier, ∀ b ∈ C ++ earlier, a.id = b.id → a = b :=
      fun a ha b hb => hinj a (hsub a ha) b (hsub b hb)
    have hok' : ∀ a ∈ C ++ earlier, a.zone ≠ "" := fun a ha => hok a (hsub a ha)
    by_cases hy : y.id ∈ seen
    · rw [PfC01.dedupIds_seen C hy, sfull_dedup_mem_gen op C seen earlier hseen hinj' hok' x]
      obtain ⟨e, he, heid⟩ := (hseen y.id).mp hy
      have hey : e = y := hinj e (hsub e (List.mem_append_right _ he)) y (by simp) heid
      subst hey
      -- `e` (already seen) never counts against an unseen `x` that `earlier` does not block
      have hmiss : x.id ∉ seen → (∀ z ∈ earlier, z.zone = x.zone → extendsOn op z.state = true) →
          zoneHit op x e = false := by
        intro h2 h3
        unfold zoneHit
        by_cases hz : e.zone = x.zone
        · have hext := h3 e he hz
          have hid : (e.id == x.id) = false := by
            simp only [beq_eq_false_iff_ne, ne_eq]; intro h; exact h2 (h ▸ hy)
          simp [hext, hid]
        · simp [hz]
      constructor
      · rintro ⟨h1, h2, h3, h4⟩
        exact ⟨List.mem_cons_of_mem _ h1, h2, h3, by rw [List.find?_cons, hmiss h2 h3]; exact h4⟩
      · rintro ⟨h1, h2, h3, h4⟩
        rw [List.find?_cons, hmiss h2 h3] at h4
        refine ⟨?_, h2, h3, h4⟩
        rcases List.mem_cons.mp h1 with rfl | h1
        · exact absurd hy h2
        · exact h1
    · rw [PfC01.dedupIds_new C hy]
      have hseen' : ∀ id, id ∈ y.id :: seen ↔ ∃ z ∈ earlier ++ [y], z.id = id := by
        intro id
        constructor
        · intro h
          rcases List.mem_cons.mp h with h | h
          · exact ⟨y, by simp, h.symm⟩
          · obtain ⟨z, hz, hzid⟩ := (hseen id).mp h
            exact ⟨z, List.mem_append_left _ hz, hzid⟩
        · rintro ⟨z, hz, hzid⟩
          rcases List.mem_append.mp hz with hz | hz
          · exact List.mem_cons_of_mem _ ((hseen id).mpr ⟨z, hz, hzid⟩)
          · have : z = y := by simpa using hz
            rw [← hzid, this]; exact List.mem_cons_self
      have hinj2 : ∀ a ∈ C ++ (earlier ++ [y]), ∀ b ∈ C ++ (earlier ++ [y]), a.id = b.id → a = b :=
        fun a ha b hb => hinj a (hsub2 a ha) b (hsub2 b hb)
      have hok2 : ∀ a ∈ C ++ (earlier ++ [y]), a.zone ≠ "" := fun a ha => hok a (hsub2 a ha)
      have ih := sfull_dedup_mem_gen op C (y.id :: seen) (earlier ++ [y]) hseen' hinj2 hok2 x
      have hyz : (y.zone != "") = true := by simpa using hok y (by simp)
      have hblocked : zoneBlocked op earlier y = true ↔ ∃ e ∈ earlier, e.zone = y.zone ∧ extendsOn op e.state = false := by
        unfold zoneBlocked
        rw [hyz, Bool.true_and, List.any_eq_true]
        constructor
        · rintro ⟨e, he, h⟩
          simp only [Bool.and_eq_true, beq_iff_eq, Bool.not_eq_true'] at h
          exact ⟨e, he, h.1, h.2⟩
        · rintro ⟨e, he, h1, h2⟩
          exact ⟨e, he, by simp [h1, h2]⟩
      have hstep : ∀ x, x ∈ sfullAux op earlier (y :: dedupIds (y.id :: seen) C) ↔
          ((x = y ∧ ¬ ∃ e ∈ earlier, e.zone = y.zone ∧ extendsOn op e.state = false) ∨
            x ∈ sfullAux op (earlier ++ [y]) (dedupIds (y.id :: seen) C)) := by
        intro x
        rw [sfullAux]
        by_cases hb : zoneBlocked op earlier y = true
        · rw [if_pos hb]
          have := hblocked.mp hb
          constructor
          · intro h; exact Or.inr h
          · rintro (⟨_, h⟩ | h)
            · exact absurd this h
            · exact h
        · rw [if_neg hb]
          have hn : ¬ ∃ e ∈ earlier, e.zone = y.zone ∧ extendsOn op e.state = false := fun h => hb (hblocked.mpr h)
          simp only [List.mem_cons]
          constructor
          · rintro (h | h)
            · exact Or.inl ⟨h, hn⟩
            · exact Or.inr h
          · rintro (⟨h, _⟩ | h)
            · exact Or.inl h
            · exact Or.inr h
      rw [hstep x, ih]
      constructor
      · rintro (⟨rfl, hn⟩ | ⟨h1, h2, h3, h4⟩)
        · refine ⟨by simp, hy, ?_, by simp [List.find?_cons, zoneHit]⟩
          intro e he hz
          cases hx : extendsOn op e.state with
          | true => rfl
          | false => exact absurd ⟨e, he, hz, hx⟩ hn
        · have hxy : x.id ≠ y.id := fun h => h2 (by rw [h]; exact List.mem_cons_self)
          have hmiss : zoneHit op x y = false := by
            unfold zoneHit
            by_cases hz : y.zone = x.zone
            · have := h3 y (by simp) hz
              have hid : (y.id == x.id) = false := by simpa using fun h => hxy h.symm
              simp [this, hid]
            · simp [hz]
          refine ⟨List.mem_cons_of_mem _ h1, fun h => h2 (List.mem_cons_of_mem _ h),
            fun e he => h3 e (by simp [he]), by rw [List.find?_cons, hmiss]; exact h4⟩
      · rintro ⟨h1, h2, h3, h4⟩
        by_cases hhit : zoneHit op x y = true
        · rw [List.find?_cons, hhit] at h4
          have hxy : x = y := (Option.some.inj h4).symm
          subst hxy
          refine Or.inl ⟨rfl, ?_⟩
          rintro ⟨e, he, hez, hne⟩
          have := h3 e he hez
          rw [hne] at this; cases this
        · have hmiss : zoneHit op x y = false := by simpa using hhit
          rw [List.find?_cons, hmiss] at h4
          have hxC : x ∈ C := List.mem_of_find?_eq_some h4
          have hxy : x.id ≠ y.id := by
            intro h
            have : x = y := hinj x (hsub x (List.mem_append_left _ hxC)) y (by simp) h
            subst this
            simp [zoneHit] at hmiss
          refine Or.inr ⟨hxC, ?_, ?_, h4⟩
          · intro h
            rcases List.mem_cons.mp h with h | h
            · exact hxy h
            · exact h2 h
          · intro e he hz
            rcases List.mem_append.mp he with he | he
            · exact h3 e he hz
            · have hey : e = y := by simpa using he
              subst hey
              unfold zoneHit at hmiss
              have hid : (e.id == x.id) = false := by simpa using fun h => hxy h.symm
              simp only [hz, beq_self_eq_true, Bool.true_and, hid, Bool.or_false, Bool.not_eq_false'] at hmiss
              exact hmiss

/-- zone-aware rings whose instances all carry a zone — ANY operation, instances may extend the replica set -/
structure ZoneRingAny (cfg : Cfg) (d : Desc) : Prop where
  wf : WFRing d
  za : cfg.zoneAware = true
  zones : ∀ i ∈ d, i.zone ≠ ""

/-- **zone members of the walk, any operation**: `x` is in the full zone-aware walk iff the first instance on
the circle that is in `x`'s zone and either does not extend the replica set or is `x` itself, is `x`. -/
theorem mem_Sfull_iff_gen (cfg : Cfg) (op : Op) (d : Desc) (hz : ZoneRingAny cfg d) (key : Nat) (x : Inst) :
    x ∈ Sfull cfg op d key ↔ ((circle d key).map (·.2)).find? (zoneHit op x) = some x := by
  have h1 : ∀ a ∈ (circle d key).map (·.2) ++ [], ∀ b ∈ (circle d key).map (·.2) ++ [], a.id = b.id → a = b := by
    intro a ha b hb hab
    exact PfC01.eq_of_id_eq d hz.wf.1 a b (circle_snd_mem d key a (by simpa using ha))
      (circle_snd_mem d key b (by simpa using hb)) hab
  have h2 : ∀ a ∈ (circle d key).map (·.2) ++ [], a.zone ≠ "" :=
    fun a ha => hz.zones a (circle_snd_mem d key a (by simpa using ha))
  rw [Sfull_za cfg op d hz.za key, sfull_dedup_mem_gen op _ [] [] (by simp) h1 h2 x]
  constructor
  · intro h; exact h.2.2.2
  · intro h; exact ⟨List.mem_of_find?_eq_some h, by simp, by simp, h⟩

/-- the token-range owner of a zone (the owner of the first zone token after the key) is ALWAYS in the full
walk, whatever its state -/
theorem lookup_owner_in_Sfull (cfg : Cfg) (op : Op) (d : Desc) (hz : ZoneRingAny cfg d) (key : Nat) (x : Inst)
    (hx : x ∈ d) (hl : lookupInZone d x.zone key = some x.id) : x ∈ Sfull cfg op d key := by
  rw [mem_Sfull_iff_gen cfg op d hz key x]
  rw [lookupInZone_circle d hz.wf.2] at hl
  cases hf : ((circle d key).map (·.2)).find? (fun y => y.zone == x.zone) with
  | none => rw [hf] at hl; cases hl
  | some y =>
    rw [hf] at hl
    have hid : y.id = x.id := by simpa using hl
    have hyx : y = x := PfC01.eq_of_id_eq d hz.wf.1 y x (circle_snd_mem d key y (List.mem_of_find?_eq_some hf)) hx hid
    subst hyx
    -- the first zone-mate is y; the first `zoneHit` is a zone-mate at or after it, and y itself is a hit
    obtain ⟨_, as, bs, hsplit, hbefore⟩ := List.find?_eq_some_iff_append.mp hf
    rw [hsplit]
    apply List.find?_eq_some_iff_append.mpr
    refine ⟨by simp [zoneHit], as, bs, rfl, ?_⟩
    intro a ha
    have := hbefore a ha
    simp only [Bool.not_eq_true', beq_eq_false_iff_ne, ne_eq] at this
    simp [zoneHit, this]

/-- if the token-range owner does not extend the replica set it is the ONLY instance of its zone in the walk:
there token-range ownership and `Ring.Get` membership coincide … -/
theorem nonextending_owner_sole (cfg : Cfg) (op : Op) (d : Desc) (hz : ZoneRingAny cfg d) (key : Nat) (x : Inst)
    (hx : x ∈ d) (hl : lookupInZone d x.zone key = some x.id) (hne : extendsOn op x.state = false)
    (y : Inst) (hy : y ∈ Sfull cfg op d key) (hzy : y.zone = x.zone) : y = x := by
  have hyf := (mem_Sfull_iff_gen cfg op d hz key y).mp hy
  rw [lookupInZone_circle d hz.wf.2] at hl
  cases hf : ((circle d key).map (·.2)).find? (fun z => z.zone == x.zone) with
  | none => rw [hf] at hl; cases hl
  | some w =>
    rw [hf] at hl
    have hid : w.id = x.id := by simpa using hl
    have hwx : w = x := PfC01.eq_of_id_eq d hz.wf.1 w x (circle_snd_mem d key w (List.mem_of_find?_eq_some hf)) hx hid
    subst hwx
    obtain ⟨_, as, bs, hsplit, hbefore⟩ := List.find?_eq_some_iff_append.mp hf
    -- in `as` nothing is in the zone, and `w` is a hit for `y`: so the first hit for `y` is `w`
    have : ((circle d key).map (·.2)).find? (zoneHit op y) = some w := by
      rw [hsplit]
      apply List.find?_eq_some_iff_append.mpr
      refine ⟨by simp [zoneHit, hzy, hne], as, bs, rfl, ?_⟩
      intro a ha
      have := hbefore a ha
      simp only [Bool.not_eq_true', beq_eq_false_iff_ne, ne_eq] at this
      simp [zoneHit, hzy, this]
    rw [this] at hyf
    exact (Option.some.inj hyf).symm

/-- … and if it DOES extend, the first non-extending instance of the zone is in the walk as well although the
key is outside its token ranges: here `Ring.Get` membership and token-range ownership diverge. -/
theorem extending_owner_second_member (cfg : Cfg) (op : Op) (d : Desc) (hz : ZoneRingAny cfg d) (key : Nat) (y : Inst)
    (hfirst : ((circle d key).map (·.2)).find? (fun z => z.zone == y.zone && !extendsOn op z.state) = some y) :
    y ∈ Sfull cfg op d key := by
  rw [mem_Sfull_iff_gen cfg op d hz key y]
  obtain ⟨hq, as, bs, hsplit, hbefore⟩ := List.find?_eq_some_iff_append.mp hfirst
  rw [hsplit]
  apply List.find?_eq_some_iff_append.mpr
  refine ⟨by simp [zoneHit], as, bs, rfl, ?_⟩
  intro a ha
  have h1 := hbefore a ha
  -- `a` is before the first occurrence of `y`, so it is not `y`
  have hay : a.id ≠ y.id := by
    intro h
    have hmem : a ∈ (circle d key).map (·.2) := by rw [hsplit]; simp [ha]
    have hymem : y ∈ (circle d key).map (·.2) := by rw [hsplit]; simp
    have : a = y := PfC01.eq_of_id_eq d hz.wf.1 a y (circle_snd_mem d key a hmem) (circle_snd_mem d key y hymem) h
    subst this
    rw [hq] at h1; cases h1
  unfold zoneHit
  simp only [Bool.not_eq_true', Bool.and_eq_false_iff] at h1 ⊢
  have hid : (a.id == y.id) = false := by simpa using hay
  rcases h1 with h1 | h1
  · left; exact h1
  · right; simp only [Bool.not_eq_false'] at h1; simp [h1, hid]

end PfC14
