import Proofs.C14.Part
/-! C14 proofs, part C2: first iteration and the final theorem for `GetTokenRangesForPartition`. -/
namespace PfC14
open C14 Ring

theorem desc_reverse_asc {l : List Nat} (h : Desc' l) : Asc l.reverse :=
  List.pairwise_reverse.mpr (List.Pairwise.imp (fun h => h) h)

/-- ranges come out ascending, of even length, and contain `k` iff the first token after `k` is one of
the partition's. -/
theorem part_exact (T ptoks : List Nat) (hT : SAsc T) (hbT : ∀ x ∈ T, x ≤ maxU32) (hsub : ptoks.Sublist T) :
    ∃ tr, partRangesOf T ptoks = .ok tr ∧ tr.length % 2 = 0 ∧ Asc tr ∧
      ∀ k, k ≤ maxU32 → (includesKey tr k = true ↔ ∃ t ∈ ptoks, IsSucc T k t) := by
  -- it suffices to produce the reversed list with its shape and meaning
  suffices h : ∃ rev b, partRangesOf T ptoks = .ok rev.reverse ∧ RevOk rev b ∧
      ∀ k, k ≤ maxU32 → (coversR rev k ↔ ∃ t ∈ ptoks, IsSucc T k t) by
    obtain ⟨rev, b, h1, ⟨hlen, hdesc, _⟩, h3⟩ := h
    refine ⟨rev.reverse, h1, by simpa using hlen, desc_reverse_asc hdesc, ?_⟩
    intro k hk
    rw [includes_iff_covers _ _ (desc_reverse_asc hdesc) (by simpa using hlen), covers_reverse _ _ hlen, h3 k hk]
  cases ptoks with
  | nil =>
    refine ⟨[], 0, by simp [partRangesOf, partLoop], ⟨rfl, by simp, by simp⟩, ?_⟩
    intro k _; simp [coversR]
  | cons t ts =>
    obtain ⟨pre, post, hsplit, hsub'⟩ := sublist_cons_split hsub
    cases pre with
    | nil =>
      -- the partition owns the first ring token: the wrap-around range
      simp only [List.nil_append] at hsplit
      subst hsplit
      have hix : searchToken (t :: post) (pred32 t) = 0 := by
        simpa using searchToken_pred [] t post (by simpa using hT) (by simpa using hbT)
      obtain ⟨lastT, hlast⟩ : ∃ l, (t :: post).getLast? = some l := by
        cases h : (t :: post).getLast? with
        | none => simp at h
        | some l => exact ⟨l, rfl⟩
      let rev1 : List Nat := if t > 0 then addRange [] 0 (pred32 t) else []
      have hrev1 : RevOk rev1 t ∧ ∀ k, coversR rev1 k ↔ k < t := by
        by_cases h0 : t > 0
        · have hp : pred32 t = t - 1 := by unfold pred32; rw [if_neg (by omega)]
          have : rev1 = [t - 1, 0] := by simp [rev1, h0, addRange, hp]
          rw [this]
          refine ⟨⟨by simp, by simp, fun x hx => by simp at hx; omega⟩, fun k => ?_⟩
          simp only [coversR]
          constructor
          · intro hh; rcases hh with hh | hh
            · omega
            · exact hh.elim
          · intro hh; left; omega
        · have : rev1 = [] := by simp [rev1, h0]
          rw [this]
          exact ⟨⟨rfl, by simp, by simp⟩, fun k => by simp [coversR]; omega⟩
      obtain ⟨rev', b, hloop, hrev', hbmem, hcov'⟩ :=
        partLoop_rest (t :: post) hT hbT ts [] t post rev1 (some lastT) rfl hsub' hrev1.1
      have hstep : partLoop (t :: post) true (t :: ts) [] none = partLoop (t :: post) false ts rev1 (some lastT) := by
        rw [partLoop]
        simp only [hix, if_true, hlast, List.drop_zero]
        rfl
      have hmax := sasc_le_last hT hlast
      have hlastT : lastT ≤ maxU32 := hbT lastT (List.mem_of_getLast? hlast)
      have ⟨hrevF, hcovF⟩ := addRange_spec rev' b lastT maxU32 hrev' (hmax b hbmem) hlastT
      refine ⟨addRange rev' lastT maxU32, maxU32 + 1, ?_, hrevF, ?_⟩
      · simp only [partRangesOf, hstep, hloop]
      · intro k hk
        rw [hcovF, hcov', hrev1.2]
        have hsucc := isSucc_head t post hT lastT hlast k
        constructor
        · intro hh; rcases hh with (hh | ⟨t', ht', hh⟩) | hh
          · exact ⟨t, by simp, hsucc.mpr (Or.inl hh)⟩
          · exact ⟨t', by simp [ht'], hh⟩
          · exact ⟨t, by simp, hsucc.mpr (Or.inr hh.1)⟩
        · intro ⟨t', ht', hh⟩
          rcases List.mem_cons.mp ht' with rfl | ht'
          · rcases hsucc.mp hh with h | h
            · left; left; exact h
            · right; exact ⟨h, hk⟩
          · left; right; exact ⟨t', ht', hh⟩
    | cons tp pre =>
      have hs1 : SAsc (tp :: pre ++ t :: post) := by rw [hsplit] at hT; simpa using hT
      have hb1 : ∀ x ∈ tp :: pre ++ t :: post, x ≤ maxU32 := by
        intro x hx; apply hbT; rw [hsplit]; simpa using hx
      obtain ⟨p, hp, _⟩ := getLast_cons_append_getElem tp pre
      have hpm : p ∈ tp :: pre := List.mem_of_getLast? hp
      have hpt : p < t := sasc_append_lt (A := tp :: pre) (B := t :: post) hs1 p hpm t (by simp)
      have hpred : pred32 t = t - 1 := by unfold pred32; rw [if_neg (by omega)]
      have hstep := partLoop_step true tp pre t post ts [] none p hp hs1 hb1
      rw [hpred] at hstep
      have ⟨hrev2, hcov2⟩ := addRange_spec [] 0 p (t - 1) ⟨rfl, by simp, by simp⟩ (by omega) (by omega)
      have hrev2' : RevOk (addRange [] p (t - 1)) t := revOk_mono hrev2 (by omega)
      have hsplit' : T = (tp :: pre) ++ t :: post := by rw [hsplit]
      obtain ⟨rev', b, hloop, hrev', _, hcov'⟩ :=
        partLoop_rest T hT hbT ts (tp :: pre) t post (addRange [] p (t - 1)) none hsplit' hsub' hrev2'
      refine ⟨rev', b, ?_, hrev', ?_⟩
      · have : T = tp :: pre ++ t :: post := hsplit'
        simp only [partRangesOf]
        rw [this, hstep, hloop]
      · intro k _
        rw [hcov', hcov2]
        obtain ⟨init, hinit⟩ := getLast?_split hp
        have hTsplit : T = init ++ p :: t :: post := by
          rw [hsplit', hinit]; simp
        have hsucc : IsSucc T k t ↔ (p ≤ k ∧ k < t) := by
          have := isSucc_interior init p t post (by rw [← hTsplit]; exact hT) k
          rw [← hTsplit] at this; exact this
        constructor
        · intro hh; rcases hh with (hh | hh) | ⟨t', ht', hh⟩
          · exact hh.elim
          · exact ⟨t, by simp, hsucc.mpr ⟨hh.1, by omega⟩⟩
          · exact ⟨t', by simp [ht'], hh⟩
        · intro ⟨t', ht', hh⟩
          rcases List.mem_cons.mp ht' with rfl | ht'
          · have := hsucc.mp hh; left; right; omega
          · right; exact ⟨t', ht', hh⟩

end PfC14
