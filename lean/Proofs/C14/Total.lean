import Proofs.C14.Desc3
import Model.C01Spec
/-! C14 proofs: the `ErrInconsistentTokensInfo` branches of the token-range functions and of
`NewPartitionRing` are unreachable (link to C05: lookups never report inconsistent token information). -/
namespace PfC14
open C14 Ring

theorem mapM_except_ok {α β γ ε} (f : β → Except ε γ) (k : α → β) (h : α → γ) : ∀ (L : List α),
    (∀ p ∈ L, f (k p) = .ok (h p)) → (L.map k).mapM f = .ok (L.map h)
  | [], _ => rfl
  | a :: L, hL => by
    rw [List.map_cons, List.mapM_cons, hL a (by simp),
      mapM_except_ok f k h L (fun p hp => hL p (by simp [hp]))]
    rfl

theorem mapM_except_isOk {β γ ε} (f : β → Except ε γ) : ∀ (l : List β), (∀ x ∈ l, ∃ b, f x = .ok b) →
    ∃ r, l.mapM f = .ok r
  | [], _ => ⟨[], rfl⟩
  | a :: l, hl => by
    obtain ⟨b, hb⟩ := hl a (by simp)
    obtain ⟨r, hr⟩ := mapM_except_isOk f l (fun x hx => hl x (by simp [hx]))
    exact ⟨b :: r, by rw [List.mapM_cons, hb, hr]; rfl⟩

/-- `NewPartitionRing` never fails with `ErrInconsistentTokensInfo`, for EVERY descriptor: the token list,
`partitionByToken` and the partition map are built from the same descriptor. -/
theorem buildLookups_ok (d : PDesc) : ∃ l, buildLookups d = .ok l := by
  unfold buildLookups buildLookupsIdx
  apply mapM_except_isOk
  intro t ht
  obtain ⟨p, hp, htp⟩ := (mem_ringTokens d t).mp ht
  unfold partitionByToken
  cases hf : d.parts.find? (·.tokens.contains t) with
  | none =>
    have := List.find?_eq_none.mp hf p hp
    simp [htp] at this
  | some q =>
    have hq : q ∈ d.parts := List.mem_of_find?_eq_some hf
    simp only [Option.map_some]
    cases hg : d.get? q.id with
    | none =>
      have hg' : d.parts.find? (fun x => x.id == q.id) = none := hg
      have := List.find?_eq_none.mp hg' q hq
      simp at this
    | some r => exact ⟨_, rfl⟩

/-- on a well-formed ring the parallel slices `ringPartitionIDs` / `ringPartitionActive` are exactly the
`(token, partition)` list that `activeFor` walks. -/
theorem buildLookups_eq (d : PDesc) (h : WFP d) :
    buildLookups d = .ok (d.tokenParts.map fun x => (x.1, x.2.id, x.2.isActive)) := by
  unfold buildLookups buildLookupsIdx PDesc.ringTokens
  apply mapM_except_ok
  intro x hx
  obtain ⟨t, p⟩ := x
  have hm := (mem_sortedPairs d.parts (·.tokens) t p).mp (by rw [← tokenParts_eq]; exact hx)
  have hpt : partitionByToken d t = some p.id := by
    unfold partitionByToken
    cases hf : d.parts.find? (·.tokens.contains t) with
    | none =>
      have := List.find?_eq_none.mp hf p hm.1
      simp [hm.2] at this
    | some q =>
      have hq : q ∈ d.parts := List.mem_of_find?_eq_some hf
      have hqt : t ∈ q.tokens := by simpa using List.find?_some hf
      rw [owner_unique (·.tokens) d.parts h.unique q hq p hm.1 t hqt hm.2]; rfl
  simp only [hpt, get?_of_mem d h.ids p hm.1]

/-- `GetTokenRangesForPartition` on a well-formed ring never returns `ErrInconsistentTokensInfo` (and the
model's index-out-of-range class is unreachable). -/
theorem rangesForPartition_consistent (d : PDesc) (h : WFP d) (p : Part) (hp : p ∈ d.parts) :
    rangesForPartition d p.id ≠ .error .inconsistent ∧ rangesForPartition d p.id ≠ .error .panic := by
  obtain ⟨tr, htr, _⟩ := rangesForPartition_exact d h p hp
  rw [htr]; exact ⟨by simp, by simp⟩

/-- `ActivePartitionForKey` has one error: no active partition. -/
theorem activeFor_error_class (d : PDesc) (k : Nat) (e : Err) (h : activeFor d k = .error e) :
    e = .noActivePartition := by
  unfold activeFor activeForOf at h
  simp only at h
  split at h
  · cases h
  · cases h; rfl

/-- on a C01/C05-well-formed ring (unique ids, no token registered twice) `GetTokenRangesForInstance`
returns ranges for every registered instance whose zone is set and holds tokens, when the ring is
zone-aware with `rf = #zones`: none of its error returns is taken. -/
theorem rangesForInstance_ok_on_wf (d : Desc) (hwf : C01.WFRing d) (inst : Inst) (hi : inst ∈ d)
    (hz : inst.zone ≠ "") (hne : zoneTokens d inst.zone ≠ []) :
    ∃ tr, rangesForInstance d true (zonesOf d).length inst.id = .ok tr := by
  have hget : d.get? inst.id = some inst := find?_inst_of_mem d hwf.1 inst hi
  have hz' : (inst.zone == "") = false := by simpa using hz
  have hne2 : ((zoneTokens d inst.zone).map (·.1)).isEmpty = false := by
    cases hzt : zoneTokens d inst.zone with
    | nil => exact absurd hzt hne
    | cons _ _ => rfl
  refine ⟨instRangesOf (zoneFlags d inst.zone inst.id), ?_⟩
  simp only [rangesForInstance, rangesForInstanceWith, rangesForInstanceIdx, hget, hz', hne2, zoneFlagsOf_eq d hwf.2]
  simp

end PfC14
