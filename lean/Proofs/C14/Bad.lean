import Proofs.C14.Inst3
/-! C14 proofs: on EVERY `bad` layout the walk before fix 9068690 left key 0 uncovered (the guard of
`instOld_exact_of_not_bad` is exact). -/
namespace PfC14
open C14 Ring

theorem walkLoopOld_append : ∀ (P Q : List (Nat × Bool)) (re : Nat),
    walkLoopOld re (P ++ Q) = ((walkLoopOld (walkLoopOld re P).1 Q).1, (walkLoopOld re P).2 ++ (walkLoopOld (walkLoopOld re P).1 Q).2)
  | [], Q, re => by simp [walkLoopOld]
  | (t, m) :: P, Q, re => by
    by_cases h0 : re = 0
    · cases m <;> simp [walkLoopOld, h0, walkLoopOld_append P Q]
    · cases m <;> simp [walkLoopOld, h0, walkLoopOld_append P Q]

/-- everything the sentinel walk appends is `≥ 1` when the tokens are `≥ 2` -/
theorem walkLoopOld_vals : ∀ (P : List (Nat × Bool)) (re : Nat), (∀ p ∈ P, 2 ≤ p.1) →
    ∀ x ∈ (walkLoopOld re P).2, 1 ≤ x
  | [], re, _, x, hx => by simp [walkLoopOld] at hx
  | (t, m) :: P, re, h, x, hx => by
    have ht : 2 ≤ t := h (t, m) (by simp)
    have ih := fun re => walkLoopOld_vals P re (fun p hp => h p (by simp [hp]))
    by_cases h0 : re = 0
    · cases m
      · simp only [walkLoopOld, h0, if_true] at hx; exact ih _ x (by simpa using hx)
      · simp only [walkLoopOld, h0, if_true] at hx; exact ih _ x hx
    · cases m
      · simp only [walkLoopOld, h0, if_false] at hx
        simp only [Bool.false_eq_true, if_false, List.mem_cons] at hx
        rcases hx with rfl | rfl | hx
        · omega
        · omega
        · exact ih _ x hx
      · simp only [walkLoopOld, h0, if_false, if_true] at hx; exact ih _ x hx

/-- after a token of another instance the sentinel walk is "looking for an end" (`rangeEnd = 0`) -/
theorem walkLoopOld_after_other (P : List (Nat × Bool)) (t re : Nat) : (walkLoopOld re (P ++ [(t, false)])).1 = 0 := by
  rw [walkLoopOld_append]
  by_cases h0 : (walkLoopOld re P).1 = 0 <;> simp [walkLoopOld, h0]

theorem mem_insertNat {x y : Nat} : ∀ {l : List Nat}, y ∈ insertNat x l → y = x ∨ y ∈ l
  | [], h => by simp [insertNat] at h; exact Or.inl h
  | a :: l, h => by
    unfold insertNat at h
    split at h
    · rcases List.mem_cons.mp h with h | h
      · exact Or.inl h
      · exact Or.inr h
    · rcases List.mem_cons.mp h with h | h
      · exact Or.inr (by rw [h]; exact List.mem_cons_self)
      · rcases mem_insertNat h with h | h
        · exact Or.inl h
        · exact Or.inr (List.mem_cons_of_mem _ h)

theorem mem_sortNat : ∀ {l : List Nat} {y : Nat}, y ∈ sortNat l → y ∈ l
  | [], _, h => by simp [sortNat] at h
  | a :: l, y, h => by
    have h' : y ∈ insertNat a (sortNat l) := h
    rcases mem_insertNat h' with h' | h'
    · rw [h']; exact List.mem_cons_self
    · exact List.mem_cons_of_mem _ (mem_sortNat h')

theorem includesKey_zero_of_pos (tr : List Nat) (h : ∀ x ∈ tr, 1 ≤ x) : includesKey tr 0 = false := by
  unfold includesKey
  cases tr with
  | nil => rfl
  | cons first rest =>
    cases hl : (first :: rest).getLast? with
    | none => rfl
    | some last =>
      have : 0 < first := h first (by simp)
      simp [this]

/-- **the guard is exact**: on every `bad` zone layout, the lookup assigns key 0 to the instance
(token 1 is the first token after 0 and the instance owns it) but its reported ranges miss key 0. -/
theorem bad_gap (zt : List (Nat × Bool)) (hs : SAsc (zt.map (·.1))) (hbad : bad zt = true) :
    includesKey (instRangesOfOld zt) 0 = false ∧ IsSucc (zt.map (·.1)) 0 1 ∧ (1, true) ∈ zt := by
  -- shape of a bad layout
  obtain ⟨fm, rest, rfl, hrest⟩ : ∃ fm rest, zt = (0, fm) :: (1, true) :: rest ∧
      ((rest = [] ∧ fm = false) ∨ ∃ t2 rest', rest = (t2, false) :: rest') := by
    match zt, hbad with
    | (0, fm) :: (1, true) :: [], h => exact ⟨fm, [], rfl, Or.inl ⟨rfl, by simpa [bad] using h⟩⟩
    | (0, fm) :: (1, true) :: (t2, m2) :: rest', h =>
      have : m2 = false := by simpa [bad] using h
      subst this
      exact ⟨fm, _, rfl, Or.inr ⟨t2, rest', rfl⟩⟩
  have hge2 : ∀ p ∈ rest, 2 ≤ p.1 := by
    intro p hp
    have h2 : SAsc (1 :: rest.map (·.1)) := by simpa using List.Pairwise.tail hs
    have := List.rel_of_pairwise_cons h2 (List.mem_map_of_mem hp)
    omega
  refine ⟨?_, ?_, by simp⟩
  · apply includesKey_zero_of_pos
    intro x hx
    have hx' := mem_sortNat hx
    -- unfold the walk: rest.reverse ++ [(1, true)]
    simp only [instRangesOfOld, List.reverse_cons, List.mem_append] at hx'
    rw [walkLoopOld_append] at hx'
    have hstate : (walkLoopOld (if fm then maxU32 else 0) rest.reverse).1 = 0 := by
      rcases hrest with ⟨rfl, rfl⟩ | ⟨t2, rest', rfl⟩
      · simp [walkLoopOld]
      · simp only [List.reverse_cons]; exact walkLoopOld_after_other _ _ _
    simp only [hstate] at hx'
    have hlast : walkLoopOld 0 [(1, true)] = (0, []) := by simp [walkLoopOld, pred32]
    rw [hlast] at hx'
    simp only [List.append_nil, walkFinishOld] at hx'
    rcases hx' with hx' | hx'
    · exact walkLoopOld_vals rest.reverse _ (fun p hp => hge2 p (List.mem_reverse.mp hp)) x hx'
    · simp at hx'
  · refine ⟨by simp, Or.inl ⟨by omega, ?_⟩⟩
    intro u hu hu0
    omega

end PfC14
