import Proofs.C14.Inst2
/-! C14 proofs, part B3: `GetTokenRangesForInstance` ranges = ownership (the code always;
the pre-fix sentinel walk unless the layout is `bad`). -/
namespace PfC14
open C14 Ring

theorem pred32_ne_zero {t : Nat} (h : 2 ≤ t) : pred32 t ≠ 0 := by
  unfold pred32; rw [if_neg (by omega)]; omega

theorem pred32_eq_zero {t : Nat} (h : pred32 t = 0) : t = 1 := by
  unfold pred32 at h
  by_cases h0 : t = 0
  · rw [if_pos h0] at h; simp [maxU32] at h
  · rw [if_neg h0] at h; omega

theorem descAbove_iff (f : Nat) : ∀ (D : List (Nat × Bool)),
    DescAbove f D ↔ (D.Pairwise (fun a b => b.1 < a.1) ∧ ∀ p ∈ D, f < p.1)
  | [] => by simp [DescAbove]
  | (t, m) :: R => by
    simp only [DescAbove, descAbove_iff f R, List.pairwise_cons, List.mem_cons, forall_eq_or_imp]
    constructor
    · intro ⟨hlt, hp, hf⟩
      have hd : DescAbove f R := (descAbove_iff f R).mpr ⟨hp, hf⟩
      have hle := descAbove_le_top f R hd
      have hft := f_le_top f R hd
      refine ⟨⟨fun p hp' => by have := hle p hp'; omega, hp⟩, by show f < t; omega, hf⟩
    · intro ⟨⟨h1, hp⟩, hft, hf⟩
      refine ⟨?_, hp, hf⟩
      rcases top_mem f R with h | ⟨m', h⟩
      · rw [h]; exact hft
      · exact h1 _ h

/-- zone tokens ascending and above/below bounds ⇒ the walk's list is well-formed. -/
theorem descAbove_of_sasc (f : Nat) (rest : List (Nat × Bool)) (hs : SAsc (f :: rest.map (·.1))) :
    DescAbove f rest.reverse := by
  rw [descAbove_iff]
  have h1 : ∀ p ∈ rest, f < p.1 := by
    intro p hp
    exact List.rel_of_pairwise_cons hs (List.mem_map_of_mem hp)
  have h2 : rest.Pairwise (fun a b => a.1 < b.1) := by
    have := List.Pairwise.tail hs
    exact List.pairwise_map.mp this
  refine ⟨List.pairwise_reverse.mpr h2, fun p hp => h1 p (List.mem_reverse.mp hp)⟩

theorem instRangesOfCur_eq (f : Nat) (fm : Bool) (rest : List (Nat × Bool)) :
    instRangesOf ((f, fm) :: rest) = sortNat (outF (f, fm) (if fm then some maxU32 else none) rest.reverse) := by
  simp [instRangesOf, outF]

/-- **the walk of the code**: reported ranges contain `k` iff the first token after `k` is the instance's. -/
theorem inst_exact (zt : List (Nat × Bool)) (hs : SAsc (zt.map (·.1))) (hb : ∀ p ∈ zt, p.1 ≤ maxU32)
    (k : Nat) (hk : k ≤ maxU32) :
    includesKey (instRangesOf zt) k = true ↔ ∃ t, IsSucc (zt.map (·.1)) k t ∧ (t, true) ∈ zt := by
  cases zt with
  | nil => simp [instRangesOf, includesKey, IsSucc]
  | cons first rest =>
    obtain ⟨f, fm⟩ := first
    have hd := descAbove_of_sasc f rest (by simpa using hs)
    have hst : StOk f (if fm then some maxU32 else none) rest.reverse := by
      cases fm
      · simp [StOk]
      · simp only [if_true, StOk]
        rcases top_mem f rest.reverse with h | ⟨m, h⟩
        · rw [h]; exact hb (f, true) (by simp)
        · exact hb (topOf f rest.reverse, m) (List.mem_cons_of_mem _ (List.mem_reverse.mp h))
    have htop : topOf f rest.reverse ≤ maxU32 := by
      rcases top_mem f rest.reverse with h | ⟨m, h⟩
      · rw [h]; exact hb (f, fm) (by simp)
      · exact hb (topOf f rest.reverse, m) (List.mem_cons_of_mem _ (List.mem_reverse.mp h))
    have ⟨hlen, hdesc, _⟩ := outF_shape f fm rest.reverse _ hd hst
    have ⟨hsort, hasc⟩ := sortNat_desc _ hdesc
    rw [instRangesOfCur_eq, hsort, includes_iff_covers _ _ hasc (by simpa using hlen), covers_reverse _ _ hlen,
      outF_owned f fm rest.reverse hd htop k hk]
    have hT : ∀ u, u ∈ toksOf f rest.reverse ↔ u ∈ ((f, fm) :: rest).map (·.1) := by
      intro u; simp [toksOf]
    constructor
    · intro ⟨t, h1, h2⟩
      exact ⟨t, (isSucc_congr hT k t).mp h1, by simpa using h2⟩
    · intro ⟨t, h1, h2⟩
      exact ⟨t, (isSucc_congr hT k t).mpr h1, by simpa using h2⟩

/-! ### when does the `rangeEnd == 0` sentinel bite? -/

theorem walkLoopCur_append : ∀ (P Q : List (Nat × Bool)) (st : Option Nat),
    walkLoop st (P ++ Q) =
      ((walkLoop (walkLoop st P).1 Q).1, (walkLoop st P).2 ++ (walkLoop (walkLoop st P).1 Q).2)
  | [], Q, st => by cases st <;> simp [walkLoop]
  | (t, m) :: P, Q, none => by
    cases m <;> simp [walkLoop, walkLoopCur_append P Q]
  | (t, m) :: P, Q, some re => by
    cases m <;> simp [walkLoop, walkLoopCur_append P Q]

theorem safe_append : ∀ (P Q : List (Nat × Bool)) (st : Option Nat),
    Safe st (P ++ Q) ↔ (Safe st P ∧ Safe (walkLoop st P).1 Q)
  | [], Q, st => by cases st <;> simp [Safe, walkLoop]
  | (t, m) :: P, Q, none => by
    cases m <;> simp [Safe, walkLoop, safe_append P Q, and_assoc]
  | (t, m) :: P, Q, some re => by
    cases m <;> simp [Safe, walkLoop, safe_append P Q]

theorem safe_of_ge2 : ∀ (D : List (Nat × Bool)) (st : Option Nat), (∀ p ∈ D, 2 ≤ p.1) → Safe st D
  | [], st, _ => by cases st <;> simp [Safe]
  | (t, m) :: D, st, h => by
    have ht : 2 ≤ t := h (t, m) (by simp)
    have hp : pred32 t ≠ 0 := pred32_ne_zero ht
    have ih := fun st => safe_of_ge2 D st (fun p hp => h p (by simp [hp]))
    cases st <;> cases m <;> simp [Safe, hp, ih]

/-- after a token of another instance the walk is "looking for an end", after an own token it has one. -/
theorem state_after_last (P : List (Nat × Bool)) (t : Nat) (m : Bool) (st : Option Nat) :
    (walkLoop st (P ++ [(t, m)])).1 = none ↔ m = false := by
  rw [walkLoopCur_append]
  cases hst : (walkLoop st P).1 <;> cases m <;> simp [walkLoop]

/-- the layouts on which the sentinel collides with a real range end: the zone holds token 0, the
instance owns token 1, and the token following 1 on the circle belongs to another instance. -/
def bad : List (Nat × Bool) → Bool
  | (0, fm) :: (1, true) :: rest =>
    match rest with
    | [] => !fm
    | (_, m2) :: _ => !m2
  | _ => false

theorem safe_of_not_bad (f : Nat) (fm : Bool) (rest : List (Nat × Bool))
    (hs : SAsc (f :: rest.map (·.1))) (hbad : bad ((f, fm) :: rest) = false) :
    Safe (if fm then some maxU32 else none) rest.reverse := by
  cases rest with
  | nil => cases fm <;> simp [Safe]
  | cons p1 rest' =>
    obtain ⟨t1, m1⟩ := p1
    have hft : f < t1 := List.rel_of_pairwise_cons hs (by simp)
    have hrest' : ∀ p ∈ rest', 2 ≤ p.1 := by
      intro p hp
      have h2 : SAsc (t1 :: rest'.map (·.1)) := by simpa using List.Pairwise.tail hs
      have := List.rel_of_pairwise_cons h2 (List.mem_map_of_mem hp)
      omega
    simp only [List.reverse_cons]
    rw [safe_append]
    refine ⟨safe_of_ge2 _ _ (fun p hp => hrest' p (List.mem_reverse.mp hp)), ?_⟩
    cases hst : (walkLoop (if fm then some maxU32 else none) rest'.reverse).1 with
    | some re => cases m1 <;> simp [Safe]
    | none =>
      cases m1 with
      | false => simp [Safe]
      | true =>
        simp only [Safe, if_true, and_true]
        intro hp
        have ht1 : t1 = 1 := pred32_eq_zero hp
        have hf0 : f = 0 := by omega
        subst ht1; subst hf0
        -- the state before the last step is `none`: contradiction with `bad = false`
        cases rest' with
        | nil =>
          cases fm
          · simp [bad] at hbad
          · simp [walkLoop] at hst
        | cons p2 rest'' =>
          obtain ⟨t2, m2⟩ := p2
          simp only [List.reverse_cons] at hst
          have := (state_after_last rest''.reverse t2 m2 _).mp hst
          subst this
          simp [bad] at hbad

theorem instRangesOfOld_eq (zt : List (Nat × Bool)) (hs : SAsc (zt.map (·.1))) (hbad : bad zt = false) :
    instRangesOfOld zt = instRangesOf zt := by
  cases zt with
  | nil => rfl
  | cons first rest =>
    obtain ⟨f, fm⟩ := first
    have hsafe := safe_of_not_bad f fm rest (by simpa using hs) hbad
    have hst0 : (if fm then some maxU32 else none : Option Nat) ≠ some 0 := by
      cases fm <;> simp [maxU32]
    have ⟨h1, h2⟩ := walkLoopOld_eq rest.reverse _ hst0 hsafe
    have henc : enc (if fm then some maxU32 else none) = if fm then maxU32 else 0 := by
      cases fm <;> rfl
    simp only [instRangesOfOld, instRangesOf]
    rw [← henc, h1]
    simp only
    rw [walkFinishOld_eq _ _ h2]

/-- **pre-fix walk**: exact unless the layout is `bad`. -/
theorem instOld_exact_of_not_bad (zt : List (Nat × Bool)) (hs : SAsc (zt.map (·.1))) (hb : ∀ p ∈ zt, p.1 ≤ maxU32)
    (hbad : bad zt = false) (k : Nat) (hk : k ≤ maxU32) :
    includesKey (instRangesOfOld zt) k = true ↔ ∃ t, IsSucc (zt.map (·.1)) k t ∧ (t, true) ∈ zt := by
  rw [instRangesOfOld_eq zt hs hbad]
  exact inst_exact zt hs hb k hk

end PfC14
