import Proofs.C14.Inst3
import Proofs.C14.Part2
import Proofs.C14.Route
/-! C14 proofs: from descriptors (`Ring.Desc`, `PDesc`) to the sorted token lists. -/
namespace PfC14
open C14 Ring

/-- all `(token, owner)` pairs, ascending by token (`mergeSort`): `tokenParts` and `tokenInsts`. -/
def sortedPairs {β} (xs : List β) (toks : β → List Nat) : List (Nat × β) :=
  (xs.flatMap fun x => (toks x).map fun t => (t, x)).mergeSort (fun a b => a.1 ≤ b.1)

theorem tokenParts_eq (d : PDesc) : d.tokenParts = sortedPairs d.parts (·.tokens) := rfl
theorem tokenInsts_eq (d : Desc) : tokenInsts d = sortedPairs d (·.tokens) := rfl

theorem mem_sortedPairs {β} (xs : List β) (toks : β → List Nat) (t : Nat) (x : β) :
    (t, x) ∈ sortedPairs xs toks ↔ (x ∈ xs ∧ t ∈ toks x) := by
  unfold sortedPairs
  rw [(List.mergeSort_perm _ _).mem_iff]
  simp only [List.mem_flatMap, List.mem_map, Prod.mk.injEq]
  constructor
  · rintro ⟨y, hy, t', ht', rfl, rfl⟩; exact ⟨hy, ht'⟩
  · intro ⟨h1, h2⟩; exact ⟨x, h1, t, h2, rfl, rfl⟩

theorem map_fst_pairs {β} (xs : List β) (toks : β → List Nat) :
    (xs.flatMap fun x => (toks x).map fun t => (t, x)).map (·.1) = xs.flatMap toks := by
  induction xs with
  | nil => rfl
  | cons a xs ih => simp [List.flatMap_cons, ih, Function.comp_def]

theorem sortedPairs_fst_perm {β} (xs : List β) (toks : β → List Nat) :
    ((sortedPairs xs toks).map (·.1)).Perm (xs.flatMap toks) := by
  have := (List.mergeSort_perm (xs.flatMap fun x => (toks x).map fun t => (t, x)) (fun a b => a.1 ≤ b.1)).map (·.1)
  rw [map_fst_pairs] at this
  exact this

theorem sasc_of_le_nodup : ∀ {l : List Nat}, l.Pairwise (· ≤ ·) → l.Nodup → SAsc l
  | [], _, _ => List.Pairwise.nil
  | a :: l, h1, h2 => by
    have h1' := List.pairwise_cons.mp h1
    have h2' := List.nodup_cons.mp h2
    refine List.Pairwise.cons ?_ (sasc_of_le_nodup h1'.2 h2'.2)
    intro b hb
    have := h1'.1 b hb
    have hne : a ≠ b := fun h => h2'.1 (h ▸ hb)
    omega

theorem sortedPairs_sasc {β} (xs : List β) (toks : β → List Nat) (hn : (xs.flatMap toks).Nodup) :
    SAsc ((sortedPairs xs toks).map (·.1)) := by
  apply sasc_of_le_nodup
  · rw [List.pairwise_map]
    have := List.pairwise_mergeSort (le := fun (a b : Nat × β) => decide (a.1 ≤ b.1))
      (by intro a b c h1 h2; simp at h1 h2 ⊢; omega) (by intro a b; simp; omega)
      (xs.flatMap fun x => (toks x).map fun t => (t, x))
    exact List.Pairwise.imp (fun h => by simpa using h) this
  · exact (sortedPairs_fst_perm xs toks).nodup_iff.mpr hn

theorem sublist_of_sasc_subset : ∀ (a b : List Nat), SAsc a → SAsc b → (∀ x ∈ a, x ∈ b) → a.Sublist b
  | [], b, _, _, _ => List.nil_sublist b
  | x :: a, [], _, _, h => by have := h x (by simp); simp at this
  | x :: a, y :: b, ha, hb, h => by
    have hb' : SAsc b := List.Pairwise.tail hb
    have ha' : SAsc a := List.Pairwise.tail ha
    by_cases hxy : x = y
    · subst hxy
      refine List.Sublist.cons_cons x (sublist_of_sasc_subset a b ha' hb' ?_)
      intro z hz
      have hxz : x < z := List.rel_of_pairwise_cons ha hz
      rcases List.mem_cons.mp (h z (by simp [hz])) with h' | h'
      · omega
      · exact h'
    · refine List.Sublist.cons y (sublist_of_sasc_subset (x :: a) b ha hb' ?_)
      intro z hz
      rcases List.mem_cons.mp (h z hz) with h' | h'
      · -- z = y, but x ∈ y :: b and x ≠ y gives x ∈ b with y < x ≤ z
        subst h'
        have hxb : x ∈ b := by
          rcases List.mem_cons.mp (h x (by simp)) with h'' | h''
          · exact absurd h'' hxy
          · exact h''
        have hyx : z < x := List.rel_of_pairwise_cons hb hxb
        rcases List.mem_cons.mp hz with h'' | h''
        · omega
        · have : x < z := List.rel_of_pairwise_cons ha h''; omega
      · exact h'

/-! ### partition rings -/

/-- well-formed partition ring: unique ids, ascending token lists, one owner per token, 32-bit. -/
structure WFP (d : PDesc) : Prop where
  ids : (d.parts.map (·.id)).Nodup
  sorted : ∀ p ∈ d.parts, SAsc p.tokens
  unique : (d.parts.flatMap (·.tokens)).Nodup
  bound : ∀ p ∈ d.parts, ∀ t ∈ p.tokens, t ≤ maxU32

theorem find?_id_of_mem : ∀ (l : List Part), (l.map (·.id)).Nodup → ∀ p ∈ l, l.find? (·.id == p.id) = some p
  | [], _, p, hp => by simp at hp
  | a :: l, h, p, hp => by
    have hn := List.nodup_cons.mp (by simpa using h : (a.id :: l.map (·.id)).Nodup)
    rcases List.mem_cons.mp hp with hpa | hp
    · subst hpa; simp
    · have hne : a.id ≠ p.id := fun he => hn.1 (he ▸ List.mem_map_of_mem hp)
      simp only [List.find?_cons]
      have : (a.id == p.id) = false := by simpa using hne
      rw [this]
      exact find?_id_of_mem l hn.2 p hp

theorem get?_of_mem (d : PDesc) (h : (d.parts.map (·.id)).Nodup) (p : Part) (hp : p ∈ d.parts) :
    d.get? p.id = some p := find?_id_of_mem d.parts h p hp

theorem ringTokens_sasc (d : PDesc) (h : WFP d) : SAsc d.ringTokens := by
  unfold PDesc.ringTokens; rw [tokenParts_eq]; exact sortedPairs_sasc _ _ h.unique

theorem mem_ringTokens (d : PDesc) (t : Nat) : t ∈ d.ringTokens ↔ ∃ p ∈ d.parts, t ∈ p.tokens := by
  unfold PDesc.ringTokens; rw [tokenParts_eq]
  simp only [List.mem_map]
  constructor
  · rintro ⟨⟨t', p⟩, hm, rfl⟩; exact ⟨p, (mem_sortedPairs _ _ _ _).mp hm⟩
  · rintro ⟨p, hp, ht⟩; exact ⟨(t, p), (mem_sortedPairs _ _ _ _).mpr ⟨hp, ht⟩, rfl⟩

/-- `GetTokenRangesForPartition` on a well-formed ring. -/
theorem rangesForPartition_exact (d : PDesc) (h : WFP d) (p : Part) (hp : p ∈ d.parts) :
    ∃ tr, rangesForPartition d p.id = .ok tr ∧ tr.length % 2 = 0 ∧ Asc tr ∧
      ∀ k, k ≤ maxU32 → (includesKey tr k = true ↔ ∃ t ∈ p.tokens, IsSucc d.ringTokens k t) := by
  unfold rangesForPartition
  rw [get?_of_mem d h.ids p hp]
  apply part_exact d.ringTokens p.tokens (ringTokens_sasc d h)
  · intro x hx
    obtain ⟨q, hq, hxq⟩ := (mem_ringTokens d x).mp hx
    exact h.bound q hq x hxq
  · apply sublist_of_sasc_subset _ _ (h.sorted p hp) (ringTokens_sasc d h)
    intro x hx; exact (mem_ringTokens d x).mpr ⟨p, hp, hx⟩

theorem activeFor_eq (d : PDesc) (k : Nat) :
    activeFor d k = match (rotAt d.tokenParts k).find? (fun p => p.2.isActive) with
      | some p => .ok p.2.id
      | none => .error .noActivePartition := rfl

/-- tokens of the ACTIVE partitions -/
def activeTokens (d : PDesc) : List Nat := (d.parts.filter (·.isActive)).flatMap (·.tokens)

theorem mem_activeTokens_iff (d : PDesc) (u : Nat) :
    u ∈ (d.tokenParts.filter (fun p => p.2.isActive)).map (·.1) ↔ u ∈ activeTokens d := by
  rw [mem_filter_map, tokenParts_eq]
  simp only [activeTokens, List.mem_flatMap, List.mem_filter]
  constructor
  · rintro ⟨⟨t, p⟩, hm, ha, rfl⟩
    have := (mem_sortedPairs _ _ _ _).mp hm
    exact ⟨p, ⟨this.1, ha⟩, this.2⟩
  · rintro ⟨p, ⟨hp, ha⟩, hu⟩
    exact ⟨(u, p), (mem_sortedPairs _ _ _ _).mpr ⟨hp, hu⟩, ha, rfl⟩

/-- **routing** (`ActivePartitionForKey`): the ACTIVE partition owning the first ACTIVE token after the key. -/
theorem activeFor_ok_iff (d : PDesc) (h : WFP d) (k : Nat) (pid : Int) :
    activeFor d k = .ok pid ↔
      ∃ p ∈ d.parts, p.id = pid ∧ p.isActive = true ∧ ∃ t ∈ p.tokens, IsSucc (activeTokens d) k t := by
  have hs : SAsc (d.tokenParts.map (·.1)) := ringTokens_sasc d h
  rw [activeFor_eq]
  constructor
  · intro hh
    cases hf : (rotAt d.tokenParts k).find? (fun p => p.2.isActive) with
    | none => rw [hf] at hh; cases hh
    | some x =>
      rw [hf] at hh
      have hid : x.2.id = pid := by simpa using hh
      obtain ⟨hm, hq, hsucc⟩ := (rotFind_iff _ hs _ k x).mp hf
      have hmem := (mem_sortedPairs d.parts (·.tokens) x.1 x.2).mp (by rw [← tokenParts_eq]; exact hm)
      exact ⟨x.2, hmem.1, hid, hq, x.1, hmem.2, (isSucc_congr (mem_activeTokens_iff d) k x.1).mp hsucc⟩
  · rintro ⟨p, hp, rfl, ha, t, ht, hsucc⟩
    have hm : (t, p) ∈ d.tokenParts := by rw [tokenParts_eq]; exact (mem_sortedPairs _ _ _ _).mpr ⟨hp, ht⟩
    have := (rotFind_iff _ hs (fun p => p.2.isActive) k (t, p)).mpr
      ⟨hm, ha, (isSucc_congr (mem_activeTokens_iff d) k t).mpr hsucc⟩
    rw [this]

theorem activeFor_error_iff (d : PDesc) (k : Nat) :
    activeFor d k = .error .noActivePartition ↔ activeTokens d = [] := by
  rw [activeFor_eq]
  have hnone := rotFind_none d.tokenParts (fun p => p.2.isActive) k
  constructor
  · intro hh
    cases hf : (rotAt d.tokenParts k).find? (fun p => p.2.isActive) with
    | some x => rw [hf] at hh; cases hh
    | none =>
      have hall := hnone.mp hf
      apply List.eq_nil_iff_forall_not_mem.mpr
      intro u hu
      obtain ⟨⟨t, p⟩, hm, ha, _⟩ := mem_filter_map.mp ((mem_activeTokens_iff d u).mpr hu)
      have := hall (t, p) hm
      rw [ha] at this; cases this
  · intro hh
    have : (rotAt d.tokenParts k).find? (fun p => p.2.isActive) = none := by
      apply hnone.mpr
      intro x hx
      cases ha : x.2.isActive with
      | false => rfl
      | true =>
        have : x.1 ∈ activeTokens d := (mem_activeTokens_iff d x.1).mp (mem_filter_map.mpr ⟨x, hx, ha, rfl⟩)
        rw [hh] at this; cases this
    rw [this]

end PfC14
