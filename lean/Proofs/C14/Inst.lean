import Proofs.C14.Search
/-! C14 proofs, part B: the backward walk of `GetTokenRangesForInstance`. -/
namespace PfC14
open C14 Ring

/-- membership in the closed ranges of a flat list written `end, start, end, start, …`. -/
def coversR : List Nat → Nat → Prop
  | e :: s :: rest, k => (s ≤ k ∧ k ≤ e) ∨ coversR rest k
  | _, _ => False

abbrev Desc' (l : List Nat) : Prop := l.Pairwise (· ≥ ·)

theorem covers_append_pair : ∀ (l : List Nat) (s e k : Nat), l.length % 2 = 0 →
    (covers (l ++ [s, e]) k ↔ covers l k ∨ (s ≤ k ∧ k ≤ e))
  | [], s, e, k, _ => by simp [covers]
  | [_], _, _, _, h => by simp at h
  | a :: b :: l, s, e, k, h => by
    have hl : l.length % 2 = 0 := by simp at h; omega
    have ih := covers_append_pair l s e k hl
    simp only [List.cons_append, covers, ih]
    constructor
    · intro h; rcases h with h | h | h
      · exact Or.inl (Or.inl h)
      · exact Or.inl (Or.inr h)
      · exact Or.inr h
    · intro h; rcases h with (h | h) | h
      · exact Or.inl h
      · exact Or.inr (Or.inl h)
      · exact Or.inr (Or.inr h)

theorem covers_reverse : ∀ (l : List Nat) (k : Nat), l.length % 2 = 0 → (covers l.reverse k ↔ coversR l k)
  | [], k, _ => by simp [covers, coversR]
  | [_], _, h => by simp at h
  | e :: s :: l, k, h => by
    have hl : l.length % 2 = 0 := by simp at h; omega
    have ih := covers_reverse l k hl
    have : (e :: s :: l).reverse = l.reverse ++ [s, e] := by simp
    rw [this, covers_append_pair _ _ _ _ (by simpa using hl), ih]
    simp only [coversR]
    constructor
    · intro h; rcases h with h | h
      · exact Or.inr h
      · exact Or.inl h
    · intro h; rcases h with h | h
      · exact Or.inr h
      · exact Or.inl h

/-! ### sorting a descending list reverses it -/

theorem insertNat_last : ∀ (l : List Nat) (x : Nat), Asc l → (∀ y ∈ l, y ≤ x) → insertNat x l = l ++ [x]
  | [], x, _, _ => rfl
  | y :: ys, x, hs, hb => by
    have hy : y ≤ x := hb y (by simp)
    have ih := insertNat_last ys x (List.Pairwise.tail hs) (fun z hz => hb z (by simp [hz]))
    by_cases hxy : x ≤ y
    · have hxy' : x = y := by omega
      subst hxy'
      -- every element of ys equals x
      have hall : ∀ z ∈ ys, z = x := by
        intro z hz
        have h1 := List.rel_of_pairwise_cons hs hz
        have h2 := hb z (by simp [hz])
        omega
      have hrep : ∀ (ys : List Nat), (∀ z ∈ ys, z = x) → x :: ys = ys ++ [x] := by
        intro ys; induction ys with
        | nil => intro _; rfl
        | cons z zs ihz =>
          intro h
          have hz : z = x := h z (by simp)
          subst hz
          have := ihz (fun w hw => h w (by simp [hw]))
          simp only [List.cons_append]; rw [← this]
      simp only [insertNat, Nat.le_refl, if_true, List.cons_append]
      rw [hrep ys hall]
    · simp only [insertNat, hxy, if_false, List.cons_append, ih]

theorem sortNat_desc : ∀ (l : List Nat), Desc' l → sortNat l = l.reverse ∧ Asc l.reverse
  | [], _ => by simp [sortNat]
  | x :: xs, h => by
    have ⟨ih, hasc⟩ := sortNat_desc xs (List.Pairwise.tail h)
    have hb : ∀ y ∈ xs.reverse, y ≤ x := by
      intro y hy
      have := List.rel_of_pairwise_cons h (List.mem_reverse.mp hy)
      omega
    constructor
    · have : sortNat (x :: xs) = insertNat x (sortNat xs) := rfl
      rw [this, ih, insertNat_last _ _ hasc hb]; simp
    · simp only [List.reverse_cons]
      apply List.pairwise_append.mpr
      refine ⟨hasc, by simp, ?_⟩
      intro a ha b hb'
      simp at hb'; subst hb'
      exact hb a ha

/-! ### the walk with an explicit "have a range end" flag (the code since fix 9068690) -/

/-- largest remaining token: head of the descending rest, or the first token -/
def topOf (f : Nat) : List (Nat × Bool) → Nat
  | [] => f
  | (t, _) :: _ => t

@[simp] theorem topOf_nil (f : Nat) : topOf f [] = f := rfl
@[simp] theorem topOf_cons (f t : Nat) (m : Bool) (R) : topOf f ((t, m) :: R) = t := rfl

/-- keys owned through one of the remaining tokens (not counting the first token). -/
def below (f : Nat) : List (Nat × Bool) → Nat → Prop
  | [], _ => False
  | (t, m) :: R, k => (m = true ∧ topOf f R ≤ k ∧ k < t) ∨ below f R k

/-- strictly descending tokens, all above the first token `f`. -/
def DescAbove (f : Nat) : List (Nat × Bool) → Prop
  | [] => True
  | (t, _) :: R => topOf f R < t ∧ DescAbove f R

theorem f_le_top (f : Nat) : ∀ (R : List (Nat × Bool)), DescAbove f R → f ≤ topOf f R
  | [], _ => Nat.le_refl _
  | (t, _) :: R, h => by
    have := f_le_top f R h.2
    have := h.1
    simp only [topOf]; omega

/-- everything the walk appends, from state `st` over the remaining tokens `R`. -/
def outF (first : Nat × Bool) (st : Option Nat) (R : List (Nat × Bool)) : List Nat :=
  (walkLoop st R).2 ++ walkFinish first (walkLoop st R).1

theorem outF_nil (first : Nat × Bool) (st : Option Nat) : outF first st [] = walkFinish first st := by
  cases st <;> simp [outF, walkLoop]

theorem outF_none_mine (first : Nat × Bool) (t : Nat) (R) :
    outF first none ((t, true) :: R) = outF first (some (pred32 t)) R := by
  simp [outF, walkLoop]
theorem outF_none_other (first : Nat × Bool) (t : Nat) (R) :
    outF first none ((t, false) :: R) = outF first none R := by
  simp [outF, walkLoop]
theorem outF_some_mine (first : Nat × Bool) (re t : Nat) (R) :
    outF first (some re) ((t, true) :: R) = outF first (some re) R := by
  simp [outF, walkLoop]
theorem outF_some_other (first : Nat × Bool) (re t : Nat) (R) :
    outF first (some re) ((t, false) :: R) = re :: t :: outF first none R := by
  simp [outF, walkLoop]

theorem fin_none_mine {f : Nat} (h : f ≠ 0) : walkFinish (f, true) none = [f - 1, 0] := by
  simp [walkFinish, pred32, h]
theorem fin_none_zero : walkFinish (0, true) none = [] := by simp [walkFinish]
theorem fin_none_other (f : Nat) : walkFinish (f, false) none = [] := by simp [walkFinish]
theorem fin_some_mine (f re : Nat) : walkFinish (f, true) (some re) = [re, 0] := by simp [walkFinish]
theorem fin_some_other (f re : Nat) : walkFinish (f, false) (some re) = [re, f] := by simp [walkFinish]

/-- state invariant: an open range end is at or above the largest remaining token. -/
def StOk (f : Nat) (st : Option Nat) (R : List (Nat × Bool)) : Prop :=
  match st with | none => True | some re => topOf f R ≤ re

/-- semantic content of the appended list. -/
theorem outF_covers (f : Nat) (fm : Bool) : ∀ (R : List (Nat × Bool)) (st : Option Nat) (k : Nat),
    DescAbove f R → StOk f st R →
    (coversR (outF (f, fm) st R) k ↔
      ((∃ re, st = some re ∧ topOf f R ≤ k ∧ k ≤ re) ∨ below f R k ∨ (fm = true ∧ k < f)))
  | [], st, k, _, hst => by
    rw [outF_nil]
    cases st with
    | none =>
      cases fm with
      | true =>
        by_cases h0 : f = 0
        · subst h0; rw [fin_none_zero]; simp [coversR, below]
        · rw [fin_none_mine h0]; simp only [coversR, below, topOf_nil]
          constructor
          · intro hh; rcases hh with hh | hh
            · right; right; exact ⟨trivial, by omega⟩
            · exact hh.elim
          · intro hh; rcases hh with ⟨_, hh, _⟩ | hh | hh
            · cases hh
            · exact hh.elim
            · left; omega
      | false => rw [fin_none_other]; simp [coversR, below]
    | some re =>
      have hst' : f ≤ re := hst
      cases fm with
      | true =>
        rw [fin_some_mine]; simp only [coversR, below, topOf_nil]
        constructor
        · intro hh; rcases hh with hh | hh
          · by_cases hk : k < f
            · right; right; exact ⟨trivial, hk⟩
            · left; exact ⟨re, rfl, by omega, hh.2⟩
          · exact hh.elim
        · intro hh; rcases hh with ⟨re', hh, h1, h2⟩ | hh | hh
          · cases hh; left; omega
          · exact hh.elim
          · left; omega
      | false =>
        rw [fin_some_other]; simp only [coversR, below, topOf_nil]
        constructor
        · intro hh; rcases hh with hh | hh
          · left; exact ⟨re, rfl, hh.1, hh.2⟩
          · exact hh.elim
        · intro hh; rcases hh with ⟨re', hh, h1, h2⟩ | hh | hh
          · cases hh; left; omega
          · exact hh.elim
          · exact absurd hh.1 (by simp)
  | (t, m) :: R, st, k, hd, hst => by
    have hlt : topOf f R < t := hd.1
    have hdR : DescAbove f R := hd.2
    have hf := f_le_top f R hdR
    cases st with
    | none =>
      cases m with
      | true =>
        have hp : pred32 t = t - 1 := by simp [pred32]; omega
        rw [outF_none_mine, hp]
        have ih := outF_covers f fm R (some (t - 1)) k hdR (by simp only [StOk]; omega)
        rw [ih]; simp only [below, topOf_cons]
        constructor
        · intro hh; rcases hh with ⟨re, hh, h1, h2⟩ | hh | hh
          · cases hh; right; left; left; exact ⟨by simp, h1, by omega⟩
          · right; left; right; exact hh
          · right; right; exact hh
        · intro hh; rcases hh with ⟨_, hh, _⟩ | (⟨_, h1, h2⟩ | hh) | hh
          · cases hh
          · left; exact ⟨t - 1, rfl, h1, by omega⟩
          · right; left; exact hh
          · right; right; exact hh
      | false =>
        rw [outF_none_other]
        have ih := outF_covers f fm R none k hdR trivial
        rw [ih]; simp only [below, topOf_cons]
        constructor
        · intro hh; rcases hh with ⟨_, hh, _⟩ | hh | hh
          · cases hh
          · right; left; right; exact hh
          · right; right; exact hh
        · intro hh; rcases hh with ⟨_, hh, _⟩ | (⟨h0, _, _⟩ | hh) | hh
          · cases hh
          · cases h0
          · right; left; exact hh
          · right; right; exact hh
    | some re =>
      have hre : t ≤ re := hst
      cases m with
      | true =>
        rw [outF_some_mine]
        have ih := outF_covers f fm R (some re) k hdR (by simp only [StOk]; omega)
        rw [ih]; simp only [below, topOf_cons]
        constructor
        · intro hh; rcases hh with ⟨re', hh, h1, h2⟩ | hh | hh
          · cases hh
            by_cases hk : k < t
            · right; left; left; exact ⟨by simp, h1, hk⟩
            · left; exact ⟨re, rfl, by omega, h2⟩
          · right; left; right; exact hh
          · right; right; exact hh
        · intro hh; rcases hh with ⟨re', hh, h1, h2⟩ | (⟨_, h1, h2⟩ | hh) | hh
          · cases hh; left; exact ⟨re, rfl, by omega, h2⟩
          · left; exact ⟨re, rfl, h1, by omega⟩
          · right; left; exact hh
          · right; right; exact hh
      | false =>
        rw [outF_some_other]
        have ih := outF_covers f fm R none k hdR trivial
        simp only [coversR, ih, below, topOf_cons]
        constructor
        · intro hh; rcases hh with hh | ⟨_, hh, _⟩ | hh | hh
          · left; exact ⟨re, rfl, hh.1, hh.2⟩
          · cases hh
          · right; left; right; exact hh
          · right; right; exact hh
        · intro hh; rcases hh with ⟨re', hh, h1, h2⟩ | (⟨h0, _, _⟩ | hh) | hh
          · cases hh; left; exact ⟨h1, h2⟩
          · cases h0
          · right; right; left; exact hh
          · right; right; right; exact hh

/-- shape of the appended list: even length, descending, bounded by the state. -/
theorem outF_shape (f : Nat) (fm : Bool) : ∀ (R : List (Nat × Bool)) (st : Option Nat),
    DescAbove f R → StOk f st R →
    (outF (f, fm) st R).length % 2 = 0 ∧ Desc' (outF (f, fm) st R) ∧
    (∀ x ∈ outF (f, fm) st R, match st with | none => x < topOf f R ∨ (x = 0 ∧ topOf f R = 0) | some re => x ≤ re)
  | [], st, _, hst => by
    rw [outF_nil]
    cases st with
    | none =>
      cases fm with
      | true =>
        by_cases h0 : f = 0
        · subst h0; rw [fin_none_zero]; simp
        · rw [fin_none_mine h0]
          refine ⟨by simp, by simp, ?_⟩
          intro x hx; simp at hx; left; simp only [topOf_nil]; omega
      | false => rw [fin_none_other]; simp
    | some re =>
      have hst' : f ≤ re := hst
      cases fm with
      | true => rw [fin_some_mine]; refine ⟨by simp, by simp, ?_⟩; intro x hx; simp at hx; simp only; omega
      | false => rw [fin_some_other]; refine ⟨by simp, by simp; omega, ?_⟩; intro x hx; simp at hx; simp only; omega
  | (t, m) :: R, st, hd, hst => by
    have hlt : topOf f R < t := hd.1
    have hdR : DescAbove f R := hd.2
    cases st with
    | none =>
      cases m with
      | true =>
        have hp : pred32 t = t - 1 := by simp [pred32]; omega
        rw [outF_none_mine, hp]
        have ⟨h1, h2, h3⟩ := outF_shape f fm R (some (t - 1)) hdR (by simp only [StOk]; omega)
        refine ⟨h1, h2, ?_⟩
        intro x hx; have := h3 x hx; simp only [topOf_cons]; left; simp only at this; omega
      | false =>
        rw [outF_none_other]
        have ⟨h1, h2, h3⟩ := outF_shape f fm R none hdR trivial
        refine ⟨h1, h2, ?_⟩
        intro x hx; have := h3 x hx; simp only [topOf_cons]; simp only at this; left; omega
    | some re =>
      have hre : t ≤ re := hst
      cases m with
      | true =>
        rw [outF_some_mine]
        exact outF_shape f fm R (some re) hdR (by simp only [StOk]; omega)
      | false =>
        rw [outF_some_other]
        have ⟨h1, h2, h3⟩ := outF_shape f fm R none hdR trivial
        refine ⟨by simp only [List.length_cons]; omega, ?_, ?_⟩
        · refine List.Pairwise.cons ?_ (List.Pairwise.cons ?_ h2)
          · intro a ha; rcases List.mem_cons.mp ha with rfl | ha
            · exact hre
            · have := h3 a ha; simp only at this; omega
          · intro a ha; have := h3 a ha; simp only at this; omega
        · intro x hx; rcases List.mem_cons.mp hx with rfl | hx
          · exact Nat.le_refl _
          · rcases List.mem_cons.mp hx with rfl | hx
            · exact hre
            · have := h3 x hx; simp only at this; omega

end PfC14
