import Proofs.C14.Headline
/-! C14: the `ErrInconsistentTokensInfo` branches on the CHECKED variants (`rangesForInstanceIdx`,
`buildLookupsIdx`), whose cached indexes are explicit arguments and can disagree. -/
namespace PfC14
open C14 Ring

theorem mapM_option_none_iff {β γ} (f : β → Option γ) : ∀ (l : List β), l.mapM f = none ↔ ∃ x ∈ l, f x = none
  | [] => by simp [pure]
  | a :: l => by
    rw [List.mapM_cons]
    cases hfa : f a with
    | none => simp [hfa]
    | some b =>
      have ih := mapM_option_none_iff f l
      cases hm : l.mapM f with
      | none =>
        obtain ⟨x, hx, hfx⟩ := ih.mp hm
        simp only [bind, Option.bind, true_iff]
        exact ⟨x, List.mem_cons_of_mem _ hx, hfx⟩
      | some bs =>
        simp only [bind, Option.bind, pure]
        constructor
        · intro h; cases h
        · rintro ⟨x, hx, hfx⟩
          rcases List.mem_cons.mp hx with rfl | hx
          · rw [hfa] at hfx; cases hfx
          · have := ih.mpr ⟨x, hx, hfx⟩; rw [hm] at this; cases this

/-- **the inconsistent-token error of `GetTokenRangesForInstance`, exactly**: it is returned iff the call gets past
the configuration checks (instance registered with a zone, zone-aware, rf = number of cached zones, the zone's
cached token list non-empty) and some token of that list has no entry in the cached token→instance index. -/
theorem rangesIdx_inconsistent_iff (walk : List (Nat × Bool) → List Nat) (d : Desc) (nz : Nat)
    (tbz : String → List Nat) (byTok : Nat → Option Inst) (za : Bool) (rf : Nat) (id : String) :
    rangesForInstanceIdx walk d nz tbz byTok za rf id = .error .inconsistent ↔
      ∃ inst, d.get? id = some inst ∧ inst.zone ≠ "" ∧ za = true ∧ rf = nz ∧ tbz inst.zone ≠ [] ∧
        ∃ t ∈ tbz inst.zone, byTok t = none := by
  constructor
  · intro h
    unfold rangesForInstanceIdx at h
    cases hg : d.get? id with
    | none => simp [hg] at h
    | some inst =>
      simp only [hg] at h
      split at h
      · cases h
      · rename_i hz
        split at h
        · cases h
        · rename_i hc
          split at h
          · cases h
          · rename_i he
            cases hm : zoneFlagsIdx byTok (tbz inst.zone) id with
            | some zt => simp [hm] at h
            | none =>
              obtain ⟨t, ht, hft⟩ := (mapM_option_none_iff _ _).mp hm
              have hc' : za = true ∧ rf = nz := by
                simp only [Bool.or_eq_true, Bool.not_eq_true', bne_iff_ne, ne_eq, not_or, Bool.not_eq_false,
                  Decidable.not_not] at hc
                exact hc
              refine ⟨inst, rfl, by simpa using hz, hc'.1, hc'.2, by simpa using he, t, ht, ?_⟩
              cases hb : byTok t with
              | none => rfl
              | some i => rw [hb] at hft; cases hft
  · rintro ⟨inst, hg, hz, hza, hrf, he, t, ht, hbt⟩
    have hm : zoneFlagsIdx byTok (tbz inst.zone) id = none := by
      unfold zoneFlagsIdx
      exact (mapM_option_none_iff _ _).mpr ⟨t, ht, by simp [hbt]⟩
    have hz' : (inst.zone == "") = false := by simpa using hz
    have he' : (tbz inst.zone).isEmpty = false := by simpa using he
    unfold rangesForInstanceIdx
    simp [hg, hz', hza, hrf, he', hm]

theorem mapM_except_error_iff {β γ ε} (f : β → Except ε γ) (e : ε) (hall : ∀ x e', f x = .error e' → e' = e) :
    ∀ (l : List β), l.mapM f = .error e ↔ ∃ x ∈ l, f x = .error e
  | [] => by simp [pure, Except.pure]
  | a :: l => by
    rw [List.mapM_cons]
    cases hfa : f a with
    | error e' =>
      have := hall a e' hfa; subst this
      simp only [bind, Except.bind, true_iff]
      exact ⟨a, by simp, hfa⟩
    | ok b =>
      have ih := mapM_except_error_iff f e hall l
      cases hm : l.mapM f with
      | error e' =>
        simp only [bind, Except.bind]
        constructor
        · intro h
          have : e' = e := by cases h; rfl
          subst this
          obtain ⟨x, hx, hfx⟩ := ih.mp hm
          exact ⟨x, List.mem_cons_of_mem _ hx, hfx⟩
        · rintro ⟨x, hx, hfx⟩
          rcases List.mem_cons.mp hx with rfl | hx
          · rw [hfa] at hfx; cases hfx
          · have := ih.mpr ⟨x, hx, hfx⟩; rw [hm] at this; exact this
      | ok bs =>
        simp only [bind, Except.bind, pure, Except.pure]
        constructor
        · intro h; cases h
        · rintro ⟨x, hx, hfx⟩
          rcases List.mem_cons.mp hx with rfl | hx
          · rw [hfa] at hfx; cases hfx
          · have := ih.mpr ⟨x, hx, hfx⟩; rw [hm] at this; cases this

/-- **the inconsistent-token error of `NewPartitionRing`, exactly**: some ring token has no entry in
`partitionByToken`, or its partition id is not in the partition map. -/
theorem buildLookupsIdx_inconsistent_iff (toks : List Nat) (byTok : Nat → Option Int) (getPart : Int → Option Part) :
    buildLookupsIdx toks byTok getPart = .error .inconsistent ↔
      ∃ t ∈ toks, byTok t = none ∨ ∃ pid, byTok t = some pid ∧ getPart pid = none := by
  unfold buildLookupsIdx
  refine (mapM_except_error_iff _ Err.inconsistent (by
    intro t e' h
    cases hb : byTok t with
    | none => simp [hb] at h; exact h.symm
    | some pid =>
      cases hp : getPart pid with
      | none => simp [hb, hp] at h; exact h.symm
      | some p => simp [hb, hp] at h) toks).trans ?_
  constructor
  · rintro ⟨t, ht, h⟩
    refine ⟨t, ht, ?_⟩
    cases hb : byTok t with
    | none => exact Or.inl rfl
    | some pid =>
      right
      cases hp : getPart pid with
      | none => exact ⟨pid, rfl, hp⟩
      | some p => simp [hb, hp] at h
  · rintro ⟨t, ht, h | ⟨pid, hb, hp⟩⟩
    · exact ⟨t, ht, by simp [h]⟩
    · exact ⟨t, ht, by simp [hb, hp]⟩

end PfC14
