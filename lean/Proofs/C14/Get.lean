import Proofs.C14.Desc3
import Proofs.C01
/-! C14 ↔ C01: in a zone-aware ring with `rf = #zones`, no extending instance and every instance in a
zone, the walked set of `Ring.Get` (`C01.specWalked` = `findInstancesForKey`, by `walk_eq_spec`) has in
every zone exactly the instance that `C14.lookupInZone` returns. -/
namespace PfC14
open C14 Ring C01

/-! ### one instance per zone: the first one met on the circle -/

/-- `sfullAux ∘ dedupIds`, element-wise: with `seen` = the ids of `earlier`, no extending instance and no
empty zone, `x` survives iff it is the first element of `C` in its zone and no `earlier` one is in that zone. -/
theorem sfull_dedup_mem (op : Op) : ∀ (C : List Inst) (seen : List String) (earlier : List Inst),
    (∀ id, id ∈ seen ↔ ∃ y ∈ earlier, y.id = id) →
    (∀ a ∈ C ++ earlier, ∀ b ∈ C ++ earlier, a.id = b.id → a = b) →
    (∀ a ∈ C ++ earlier, a.zone ≠ "" ∧ extendsOn op a.state = false) →
    ∀ x, x ∈ sfullAux op earlier (dedupIds seen C) ↔
      (x ∈ C ∧ x.id ∉ seen ∧ (∀ y ∈ earlier, y.zone ≠ x.zone) ∧ C.find? (fun y => y.zone == x.zone) = some x)
  | [], seen, earlier, _, _, _, x => by simp [dedupIds, sfullAux]
  | y :: C, seen, earlier, hseen, hinj, hok, x => by
    have hsub : ∀ a, a ∈ C ++ earlier → a ∈ y :: C ++ earlier := fun a ha => List.mem_cons_of_mem y ha
    have hsub2 : ∀ a, a ∈ C ++ (earlier ++ [y]) → a ∈ y :: C ++ earlier := by
      intro a ha
      rcases List.mem_append.mp ha with h | h
      · exact List.mem_cons_of_mem y (List.mem_append_left _ h)
      · rcases List.mem_append.mp h with h | h
        · exact List.mem_cons_of_mem y (List.mem_append_right _ h)
        · simp at h; rw [h]; exact List.mem_cons_self
    have hinj' : ∀ a ∈ C ++ earlier, ∀ b ∈ C ++ earlier, a.id = b.id → a = b :=
      fun a ha b hb => hinj a (hsub a ha) b (hsub b hb)
    have hok' : ∀ a ∈ C ++ earlier, a.zone ≠ "" ∧ extendsOn op a.state = false :=
      fun a ha => hok a (hsub a ha)
    by_cases hy : y.id ∈ seen
    · rw [PfC01.dedupIds_seen C hy, sfull_dedup_mem op C seen earlier hseen hinj' hok' x]
      obtain ⟨e, he, heid⟩ := (hseen y.id).mp hy
      have hey : e = y := hinj e (by simp [he]) y (by simp) heid
      subst hey
      constructor
      · rintro ⟨h1, h2, h3, h4⟩
        have hz : (e.zone == x.zone) = false := by simpa using h3 e he
        exact ⟨List.mem_cons_of_mem _ h1, h2, h3, by rw [List.find?_cons, hz]; exact h4⟩
      · rintro ⟨h1, h2, h3, h4⟩
        have hz : (e.zone == x.zone) = false := by simpa using h3 e he
        rw [List.find?_cons, hz] at h4
        refine ⟨?_, h2, h3, h4⟩
        rcases List.mem_cons.mp h1 with rfl | h1
        · exact absurd hy h2
        · exact h1
    · rw [PfC01.dedupIds_new C hy]
      have hseen' : ∀ id, id ∈ y.id :: seen ↔ ∃ z ∈ earlier ++ [y], z.id = id := by
        intro id
        constructor
        · intro h
          rcases List.mem_cons.mp h with h | h
          · exact ⟨y, by simp, h.symm⟩
          · obtain ⟨z, hz, hzid⟩ := (hseen id).mp h
            exact ⟨z, List.mem_append_left _ hz, hzid⟩
        · rintro ⟨z, hz, hzid⟩
          rcases List.mem_append.mp hz with hz | hz
          · exact List.mem_cons_of_mem _ ((hseen id).mpr ⟨z, hz, hzid⟩)
          · have : z = y := by simpa using hz
            rw [← hzid, this]; exact List.mem_cons_self
      have hinj2 : ∀ a ∈ C ++ (earlier ++ [y]), ∀ b ∈ C ++ (earlier ++ [y]), a.id = b.id → a = b :=
        fun a ha b hb => hinj a (hsub2 a ha) b (hsub2 b hb)
      have hok2 : ∀ a ∈ C ++ (earlier ++ [y]), a.zone ≠ "" ∧ extendsOn op a.state = false :=
        fun a ha => hok a (hsub2 a ha)
      have ih := sfull_dedup_mem op C (y.id :: seen) (earlier ++ [y]) hseen' hinj2 hok2 x
      have hyok := hok y (by simp)
      -- is y blocked by `earlier`?
      have hblocked : zoneBlocked op earlier y = true ↔ ∃ e ∈ earlier, e.zone = y.zone := by
        unfold zoneBlocked
        have hyz : (y.zone != "") = true := by simpa using hyok.1
        rw [hyz, Bool.true_and, List.any_eq_true]
        constructor
        · rintro ⟨e, he, h⟩
          simp only [Bool.and_eq_true, beq_iff_eq] at h
          exact ⟨e, he, h.1⟩
        · rintro ⟨e, he, h⟩
          have := (hok e (by simp [he])).2
          exact ⟨e, he, by simp [h, this]⟩
      have hstep : ∀ x, x ∈ sfullAux op earlier (y :: dedupIds (y.id :: seen) C) ↔
          ((x = y ∧ ¬ ∃ e ∈ earlier, e.zone = y.zone) ∨ x ∈ sfullAux op (earlier ++ [y]) (dedupIds (y.id :: seen) C)) := by
        intro x
        rw [sfullAux]
        by_cases hb : zoneBlocked op earlier y = true
        · rw [if_pos hb]
          have := hblocked.mp hb
          constructor
          · intro h; exact Or.inr h
          · rintro (⟨_, h⟩ | h)
            · exact absurd this h
            · exact h
        · rw [if_neg hb]
          have hn : ¬ ∃ e ∈ earlier, e.zone = y.zone := fun h => hb (hblocked.mpr h)
          simp only [List.mem_cons]
          constructor
          · rintro (h | h)
            · exact Or.inl ⟨h, hn⟩
            · exact Or.inr h
          · rintro (⟨h, _⟩ | h)
            · exact Or.inl h
            · exact Or.inr h
      rw [hstep x, ih]
      constructor
      · rintro (⟨rfl, hn⟩ | ⟨h1, h2, h3, h4⟩)
        · refine ⟨by simp, hy, fun e he hz => hn ⟨e, he, hz⟩, by simp [List.find?_cons]⟩
        · have hyx : y.zone ≠ x.zone := h3 y (by simp)
          have hz : (y.zone == x.zone) = false := by simpa using hyx
          refine ⟨List.mem_cons_of_mem _ h1, fun h => h2 (List.mem_cons_of_mem _ h),
            fun e he => h3 e (by simp [he]), by rw [List.find?_cons, hz]; exact h4⟩
      · rintro ⟨h1, h2, h3, h4⟩
        by_cases hz : y.zone = x.zone
        · have : (y.zone == x.zone) = true := by simpa using hz
          rw [List.find?_cons, this] at h4
          have hxy : x = y := (Option.some.inj h4).symm
          subst hxy
          exact Or.inl ⟨rfl, fun ⟨e, he, hez⟩ => h3 e he hez⟩
        · have hzb : (y.zone == x.zone) = false := by simpa using hz
          rw [List.find?_cons, hzb] at h4
          have hxC : x ∈ C := List.mem_of_find?_eq_some h4
          refine Or.inr ⟨hxC, ?_, ?_, h4⟩
          · intro h
            rcases List.mem_cons.mp h with h | h
            · have : x = y := hinj x (by simp [hxC]) y (by simp) h
              exact hz (by rw [this])
            · exact h2 h
          · intro e he
            rcases List.mem_append.mp he with he | he
            · exact h3 e he
            · simp at he; subst he; exact hz

theorem mem_takeRf (op : Op) : ∀ (n : Nat) (l : List Inst) (x : Inst), x ∈ takeRf op n l → x ∈ l
  | _, [], x, h => by simp [PfC01.takeRf_nil] at h
  | 0, _ :: _, x, h => by simp [takeRf] at h
  | n + 1, y :: l, x, h => by
    simp only [takeRf, List.mem_cons] at h
    rcases h with h | h
    · exact h ▸ List.mem_cons_self
    · exact List.mem_cons_of_mem _ (mem_takeRf op _ l x h)

theorem takeRf_all (op : Op) : ∀ (n : Nat) (l : List Inst), (∀ x ∈ l, extendsOn op x.state = false) →
    l.length ≤ n → takeRf op n l = l
  | _, [], _, _ => PfC01.takeRf_nil op _
  | 0, _ :: _, _, h => by simp at h
  | n + 1, y :: l, hx, hl => by
    have hy := hx y (by simp)
    simp only [takeRf, hy, Bool.false_eq_true, if_false]
    rw [takeRf_all op n l (fun x h => hx x (by simp [h])) (by simpa using hl)]

/-! ### the two sorted token circles coincide -/

theorem sasc_pairs_ext {α} : ∀ (l1 l2 : List (Nat × α)), SAsc (l1.map (·.1)) → SAsc (l2.map (·.1)) →
    (∀ p, p ∈ l1 ↔ p ∈ l2) → l1 = l2
  | [], [], _, _, _ => rfl
  | [], b :: l2, _, _, h => by have := (h b).mpr (by simp); cases this
  | a :: l1, [], _, _, h => by have := (h a).mp (by simp); cases this
  | a :: l1, b :: l2, h1, h2, h => by
    have h1' : SAsc (l1.map (·.1)) := by simpa using List.Pairwise.tail h1
    have h2' : SAsc (l2.map (·.1)) := by simpa using List.Pairwise.tail h2
    have ha : ∀ x ∈ l1, a.1 < x.1 := fun x hx => List.rel_of_pairwise_cons h1 (List.mem_map_of_mem hx)
    have hb : ∀ x ∈ l2, b.1 < x.1 := fun x hx => List.rel_of_pairwise_cons h2 (List.mem_map_of_mem hx)
    have hab : a = b := by
      rcases List.mem_cons.mp ((h a).mp (by simp)) with h' | h'
      · exact h'
      · rcases List.mem_cons.mp ((h b).mpr (by simp)) with h'' | h''
        · exact h''.symm
        · have := ha b h''; have := hb a h'; omega
    subst hab
    congr 1
    apply sasc_pairs_ext l1 l2 h1' h2'
    intro p
    constructor
    · intro hp
      rcases List.mem_cons.mp ((h p).mp (by simp [hp])) with h' | h'
      · have := ha p hp; rw [h'] at this; omega
      · exact h'
    · intro hp
      rcases List.mem_cons.mp ((h p).mpr (by simp [hp])) with h' | h'
      · have := hb p hp; rw [h'] at this; omega
      · exact h'

theorem tokenInsts_eq_tokenOwners (d : Desc) (hn : (d.flatMap (·.tokens)).Nodup) : tokenInsts d = d.tokenOwners := by
  apply sasc_pairs_ext
  · rw [tokenInsts_eq]; exact sortedPairs_sasc _ _ hn
  · rw [PfC01.tokenOwners_map_fst]; exact PfC01.sortedTokens_strict d hn
  · intro p
    rw [tokenInsts_eq]
    obtain ⟨t, i⟩ := p
    rw [mem_sortedPairs, PfC01.tokenOwners_def, (PfC01.foldr_insertTok_perm _).mem_iff]
    simp only [PfC01.pairs, List.mem_flatMap, List.mem_map, Prod.mk.injEq]
    constructor
    · rintro ⟨h1, h2⟩; exact ⟨i, h1, t, h2, rfl, rfl⟩
    · rintro ⟨j, hj, t', ht', rfl, rfl⟩; exact ⟨hj, ht'⟩

theorem rotAt_eq_circle (d : Desc) (hn : (d.flatMap (·.tokens)).Nodup) (key : Nat) :
    rotAt (tokenInsts d) key = circle d key := by
  have hs : SAsc ((tokenInsts d).map (·.1)) := by rw [tokenInsts_eq]; exact sortedPairs_sasc _ _ hn
  obtain ⟨pre, post, hsplit, h1, h2, hrot⟩ := rot_split (tokenInsts d) key hs
  rw [hrot]
  unfold circle
  rw [← tokenInsts_eq_tokenOwners d hn, hsplit, List.filter_append, List.filter_append]
  have e1 : pre.filter (fun p => decide (key < p.1)) = [] := by
    apply List.filter_eq_nil_iff.mpr; intro p hp; have := h1 p hp; simp; omega
  have e2 : post.filter (fun p => decide (key < p.1)) = post := by
    apply List.filter_eq_self.mpr; intro p hp; have := h2 p hp; simpa using this
  have e3 : pre.filter (fun p => decide (p.1 ≤ key)) = pre := by
    apply List.filter_eq_self.mpr; intro p hp; have := h1 p hp; simpa using this
  have e4 : post.filter (fun p => decide (p.1 ≤ key)) = [] := by
    apply List.filter_eq_nil_iff.mpr; intro p hp; have := h2 p hp; simp; omega
  rw [e1, e2, e3, e4]; simp

/-- the survivors lie in pairwise different zones -/
theorem sfull_dedup_zones_nodup (op : Op) : ∀ (C : List Inst) (seen : List String) (earlier : List Inst),
    (∀ id, id ∈ seen ↔ ∃ y ∈ earlier, y.id = id) →
    (∀ a ∈ C ++ earlier, ∀ b ∈ C ++ earlier, a.id = b.id → a = b) →
    (∀ a ∈ C ++ earlier, a.zone ≠ "" ∧ extendsOn op a.state = false) →
    ((sfullAux op earlier (dedupIds seen C)).map (·.zone)).Nodup
  | [], seen, earlier, _, _, _ => by simp [dedupIds, sfullAux]
  | y :: C, seen, earlier, hseen, hinj, hok => by
    have hsub : ∀ a, a ∈ C ++ earlier → a ∈ y :: C ++ earlier := fun a ha => List.mem_cons_of_mem y ha
    have hsub2 : ∀ a, a ∈ C ++ (earlier ++ [y]) → a ∈ y :: C ++ earlier := by
      intro a ha
      rcases List.mem_append.mp ha with h | h
      · exact List.mem_cons_of_mem y (List.mem_append_left _ h)
      · rcases List.mem_append.mp h with h | h
        · exact List.mem_cons_of_mem y (List.mem_append_right _ h)
        · simp at h; rw [h]; exact List.mem_cons_self
    by_cases hy : y.id ∈ seen
    · rw [PfC01.dedupIds_seen C hy]
      exact sfull_dedup_zones_nodup op C seen earlier hseen (fun a ha b hb => hinj a (hsub a ha) b (hsub b hb))
        (fun a ha => hok a (hsub a ha))
    · rw [PfC01.dedupIds_new C hy]
      have hseen' : ∀ id, id ∈ y.id :: seen ↔ ∃ z ∈ earlier ++ [y], z.id = id := by
        intro id
        constructor
        · intro h
          rcases List.mem_cons.mp h with h | h
          · exact ⟨y, by simp, h.symm⟩
          · obtain ⟨z, hz, hzid⟩ := (hseen id).mp h
            exact ⟨z, List.mem_append_left _ hz, hzid⟩
        · rintro ⟨z, hz, hzid⟩
          rcases List.mem_append.mp hz with hz | hz
          · exact List.mem_cons_of_mem _ ((hseen id).mpr ⟨z, hz, hzid⟩)
          · have : z = y := by simpa using hz
            rw [← hzid, this]; exact List.mem_cons_self
      have hinj2 : ∀ a ∈ C ++ (earlier ++ [y]), ∀ b ∈ C ++ (earlier ++ [y]), a.id = b.id → a = b :=
        fun a ha b hb => hinj a (hsub2 a ha) b (hsub2 b hb)
      have hok2 : ∀ a ∈ C ++ (earlier ++ [y]), a.zone ≠ "" ∧ extendsOn op a.state = false :=
        fun a ha => hok a (hsub2 a ha)
      have ih := sfull_dedup_zones_nodup op C (y.id :: seen) (earlier ++ [y]) hseen' hinj2 hok2
      have hmem := sfull_dedup_mem op C (y.id :: seen) (earlier ++ [y]) hseen' hinj2 hok2
      rw [sfullAux]
      split
      · exact ih
      · simp only [List.map_cons]
        refine List.nodup_cons.mpr ⟨?_, ih⟩
        intro hin
        obtain ⟨x, hx, hxz⟩ := List.mem_map.mp hin
        have := ((hmem x).mp hx).2.2.1 y (by simp)
        exact this hxz.symm

/-! ### the tie -/

/-- the rings the C14 instance statement quantifies over, in C01's vocabulary -/
structure ZoneRing (cfg : Cfg) (op : Op) (d : Desc) : Prop where
  wf : WFRing d
  za : cfg.zoneAware = true
  zones : ∀ i ∈ d, i.zone ≠ ""
  noExt : ∀ i ∈ d, extendsOn op i.state = false

theorem circle_snd_mem (d : Desc) (key : Nat) (x : Inst) (h : x ∈ (circle d key).map (·.2)) : x ∈ d := by
  obtain ⟨p, hp, rfl⟩ := List.mem_map.mp h
  exact (PfC01.mem_tokenOwners (PfC01.mem_circle hp)).1

theorem circleHyps (cfg : Cfg) (op : Op) (d : Desc) (hz : ZoneRing cfg op d) (key : Nat) :
    (∀ a ∈ (circle d key).map (·.2) ++ [], ∀ b ∈ (circle d key).map (·.2) ++ [], a.id = b.id → a = b) ∧
    (∀ a ∈ (circle d key).map (·.2) ++ [], a.zone ≠ "" ∧ extendsOn op a.state = false) := by
  constructor
  · intro a ha b hb hab
    have ha' := circle_snd_mem d key a (by simpa using ha)
    have hb' := circle_snd_mem d key b (by simpa using hb)
    exact PfC01.eq_of_id_eq d hz.wf.1 a b ha' hb' hab
  · intro a ha
    have ha' := circle_snd_mem d key a (by simpa using ha)
    exact ⟨hz.zones a ha', hz.noExt a ha'⟩

theorem Sfull_za (cfg : Cfg) (op : Op) (d : Desc) (hza : cfg.zoneAware = true) (key : Nat) :
    Sfull cfg op d key = sfullAux op [] (dedupIds [] ((circle d key).map (·.2))) := by
  simp [Sfull, hza, D]

/-- `x` is in the full zone-aware walk iff it is the first instance of its zone on the circle. -/
theorem mem_Sfull_iff (cfg : Cfg) (op : Op) (d : Desc) (hz : ZoneRing cfg op d) (key : Nat) (x : Inst) :
    x ∈ Sfull cfg op d key ↔ ((circle d key).map (·.2)).find? (fun y => y.zone == x.zone) = some x := by
  have ⟨h1, h2⟩ := circleHyps cfg op d hz key
  rw [Sfull_za cfg op d hz.za key, sfull_dedup_mem op _ [] [] (by simp) h1 h2 x]
  constructor
  · intro h; exact h.2.2.2
  · intro h; exact ⟨List.mem_of_find?_eq_some h, by simp, by simp, h⟩

theorem lookupInZone_circle (d : Desc) (hn : (d.flatMap (·.tokens)).Nodup) (z : String) (key : Nat) :
    lookupInZone d z key = (((circle d key).map (·.2)).find? (fun y => y.zone == z)).map (·.id) := by
  rw [lookupInZone_eq, rotAt_eq_circle d hn key, List.find?_map, Option.map_map]
  rfl

/-- **soundness**: every member of the walked set of `Ring.Get` is the lookup owner of its zone. -/
theorem walked_is_lookup (cfg : Cfg) (op : Op) (d : Desc) (hz : ZoneRing cfg op d) (key : Nat) (x : Inst)
    (hx : x ∈ specWalked cfg op d key) : lookupInZone d x.zone key = some x.id := by
  have := (mem_Sfull_iff cfg op d hz key x).mp (mem_takeRf op _ _ x hx)
  rw [lookupInZone_circle d hz.wf.2, this]; rfl

theorem Sfull_length_le (cfg : Cfg) (op : Op) (d : Desc) (hz : ZoneRing cfg op d) (key : Nat) :
    (Sfull cfg op d key).length ≤ (zonesOf d).length := by
  have ⟨h1, h2⟩ := circleHyps cfg op d hz key
  have hnd := sfull_dedup_zones_nodup op ((circle d key).map (·.2)) [] [] (by simp) h1 h2
  rw [← Sfull_za cfg op d hz.za key] at hnd
  have := List.Nodup.length_le_of_subset hnd (l₂ := zonesOf d) (by
    intro z hzm
    obtain ⟨x, hx, rfl⟩ := List.mem_map.mp hzm
    have hxC := List.mem_of_find?_eq_some ((mem_Sfull_iff cfg op d hz key x).mp hx)
    have hxd := circle_snd_mem d key x hxC
    unfold zonesOf
    exact List.mem_eraseDups.mpr (List.mem_map_of_mem hxd))
  simpa using this

/-- **completeness**: with `rf ≥ #zones` the lookup owner of every zone is in the walked set. -/
theorem lookup_is_walked (cfg : Cfg) (op : Op) (d : Desc) (hz : ZoneRing cfg op d) (hrf : (zonesOf d).length ≤ cfg.rf)
    (key : Nat) (inst : Inst) (hi : inst ∈ d) (hl : lookupInZone d inst.zone key = some inst.id) :
    inst ∈ specWalked cfg op d key := by
  have hall : takeRf op cfg.rf (Sfull cfg op d key) = Sfull cfg op d key := by
    apply takeRf_all
    · intro x hx
      have hxC := List.mem_of_find?_eq_some ((mem_Sfull_iff cfg op d hz key x).mp hx)
      exact hz.noExt x (circle_snd_mem d key x hxC)
    · exact Nat.le_trans (Sfull_length_le cfg op d hz key) hrf
  unfold specWalked
  rw [hall, mem_Sfull_iff cfg op d hz key inst]
  rw [lookupInZone_circle d hz.wf.2] at hl
  cases hf : ((circle d key).map (·.2)).find? (fun y => y.zone == inst.zone) with
  | none => rw [hf] at hl; cases hl
  | some y =>
    rw [hf] at hl
    have hid : y.id = inst.id := by simpa using hl
    have hyd := circle_snd_mem d key y (List.mem_of_find?_eq_some hf)
    rw [PfC01.eq_of_id_eq d hz.wf.1 y inst hyd hi hid]

end PfC14
