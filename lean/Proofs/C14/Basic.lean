import Model.C14
/-! C14 proofs, part A: `lowerBound`, `searchToken`, `includesKey` against closed intervals. -/
namespace PfC14
open C14

/-- `k` lies in one of the closed `[start,end]` pairs of the flat list. -/
def covers : List Nat → Nat → Prop
  | s :: e :: rest, k => (s ≤ k ∧ k ≤ e) ∨ covers rest k
  | _, _ => False

instance : (tr : List Nat) → (k : Nat) → Decidable (covers tr k)
  | [], _ => isFalse (by simp [covers])
  | [_], _ => isFalse (by simp [covers])
  | s :: e :: rest, k =>
    have := instDecidableCovers rest k
    by unfold covers; exact inferInstance

abbrev Asc (l : List Nat) : Prop := l.Pairwise (· ≤ ·)
abbrev SAsc (l : List Nat) : Prop := l.Pairwise (· < ·)

theorem covers_lt_all : ∀ (tr : List Nat) (k : Nat), (∀ x ∈ tr, k < x) → ¬ covers tr k
  | [], _, _ => by simp [covers]
  | [_], _, _ => by simp [covers]
  | s :: e :: rest, k, h => by
    have hs := h s (by simp)
    have := covers_lt_all rest k (fun x hx => h x (by simp [hx]))
    simp only [covers]; intro h'; rcases h' with h' | h'
    · omega
    · exact this h'

theorem covers_gt_all : ∀ (tr : List Nat) (k : Nat), (∀ x ∈ tr, x < k) → ¬ covers tr k
  | [], _, _ => by simp [covers]
  | [_], _, _ => by simp [covers]
  | s :: e :: rest, k, h => by
    have he := h e (by simp)
    have := covers_gt_all rest k (fun x hx => h x (by simp [hx]))
    simp only [covers]; intro h'; rcases h' with h' | h'
    · omega
    · exact this h'

/-- binary search result on an ascending even-length list: "found, or odd insertion index" is
exactly membership in a closed range. -/
theorem lb_iff : ∀ (tr : List Nat) (k : Nat), Asc tr → tr.length % 2 = 0 →
    ((tr[lowerBound tr k]? = some k ∨ lowerBound tr k % 2 = 1) ↔ covers tr k)
  | [], k, _, _ => by simp [lowerBound, covers]
  | [_], k, _, h => by simp at h
  | s :: e :: rest, k, hs, he => by
    have hrest : Asc rest := by
      have := List.Pairwise.tail hs; exact List.Pairwise.tail this
    have hlen : rest.length % 2 = 0 := by simp at he; omega
    have ih := lb_iff rest k hrest hlen
    have hse : s ≤ e := by
      have := List.rel_of_pairwise_cons hs (a' := e) (by simp); exact this
    have hge : ∀ x ∈ rest, e ≤ x := fun x hx =>
      List.rel_of_pairwise_cons (List.Pairwise.tail hs) hx
    by_cases h1 : s < k
    · by_cases h2 : e < k
      · -- beyond this pair
        have hl : lowerBound (s :: e :: rest) k = lowerBound rest k + 2 := by
          simp [lowerBound, h1, h2]
        rw [hl]
        have : (s :: e :: rest)[lowerBound rest k + 2]? = rest[lowerBound rest k]? := by simp
        rw [this]
        have hpar : (lowerBound rest k + 2) % 2 = 1 ↔ lowerBound rest k % 2 = 1 := by omega
        rw [hpar, ih]
        simp only [covers]; constructor
        · intro h; exact Or.inr h
        · intro h; rcases h with h | h
          · omega
          · exact h
      · have hl : lowerBound (s :: e :: rest) k = 1 := by simp [lowerBound, h1, h2]
        rw [hl]; simp only [covers]
        constructor
        · intro _; left; omega
        · intro _; right; trivial
    · have hl : lowerBound (s :: e :: rest) k = 0 := by simp [lowerBound, h1]
      rw [hl]; simp only [covers]
      have hnot : ¬ covers rest k ∨ k = s := by
        by_cases hk : k = s
        · exact Or.inr hk
        · left; apply covers_lt_all; intro x hx; have := hge x hx; omega
      constructor
      · intro h; rcases h with h | h
        · simp at h; left; omega
        · omega
      · intro h; rcases h with h | h
        · left; simp; omega
        · rcases hnot with hn | hn
          · exact absurd h hn
          · left; simp; omega

theorem getLast?_mem {l : List Nat} {x : Nat} (h : l.getLast? = some x) : x ∈ l :=
  List.mem_of_getLast? h

theorem asc_le_last {l : List Nat} (hs : Asc l) {last : Nat} (hl : l.getLast? = some last) :
    ∀ x ∈ l, x ≤ last := by
  induction l with
  | nil => simp
  | cons a t ih =>
    intro x hx
    cases t with
    | nil => simp at hl hx; omega
    | cons b t' =>
      have hl' : (b :: t').getLast? = some last := by simpa [List.getLast?_cons_cons] using hl
      have iht := ih (List.Pairwise.tail hs) hl'
      rcases List.mem_cons.mp hx with rfl | hx
      · have hb := List.rel_of_pairwise_cons hs (a' := b) (by simp)
        have := iht b (by simp); omega
      · exact iht x hx

/-- **IncludesKey is membership in the closed ranges** (ascending, even-length range lists;
duplicates and degenerate `[x,x]` ranges included). -/
theorem includes_iff_covers (tr : List Nat) (k : Nat) (hs : Asc tr) (he : tr.length % 2 = 0) :
    includesKey tr k = true ↔ covers tr k := by
  unfold includesKey
  cases tr with
  | nil => simp [covers]
  | cons first rest =>
    cases hl : (first :: rest).getLast? with
    | none => simp at hl
    | some last =>
      simp only
      have hfirst : ∀ x ∈ first :: rest, first ≤ x := by
        intro x hx; rcases List.mem_cons.mp hx with rfl | hx
        · exact Nat.le_refl _
        · exact List.rel_of_pairwise_cons hs hx
      have hlast := asc_le_last hs hl
      by_cases h1 : k < first
      · simp only [h1, if_true]
        constructor
        · intro h; cases h
        · intro h; exact absurd h (covers_lt_all _ _ (fun x hx => by have := hfirst x hx; omega))
      · by_cases h2 : k > last
        · simp only [h1, h2, if_true, if_false]
          constructor
          · intro h; cases h
          · intro h; exact absurd h (covers_gt_all _ _ (fun x hx => by have := hlast x hx; omega))
        · simp only [h1, h2, if_false]
          rw [← lb_iff (first :: rest) k hs he]
          by_cases hf : (first :: rest)[lowerBound (first :: rest) k]? = some k
          · simp [hf]
          · simp [hf]

end PfC14
