import Proofs.C14.Basic
/-! C14 proofs: `searchToken` on strictly ascending lists; successor tokens. -/
namespace PfC14
open C14

/-- `t` is the first token strictly after `k` on the circle of tokens `T`
(the smallest token `> k`, or the smallest token at all when none is `> k`). -/
def IsSucc (T : List Nat) (k t : Nat) : Prop :=
  t ∈ T ∧ ((k < t ∧ ∀ u ∈ T, k < u → t ≤ u) ∨ ((∀ u ∈ T, u ≤ k) ∧ ∀ u ∈ T, t ≤ u))

theorem isSucc_unique {T : List Nat} {k t t' : Nat} (h : IsSucc T k t) (h' : IsSucc T k t') : t = t' := by
  obtain ⟨hm, h⟩ := h
  obtain ⟨hm', h'⟩ := h'
  rcases h with ⟨h1, h2⟩ | ⟨h1, h2⟩ <;> rcases h' with ⟨h1', h2'⟩ | ⟨h1', h2'⟩
  · have := h2 t' hm' h1'; have := h2' t hm h1; omega
  · have := h1' t hm; omega
  · have := h1 t' hm'; omega
  · have := h2 t' hm'; have := h2' t hm; omega

/-- the index before the wrap check of `searchToken`. -/
def rawIdx (T : List Nat) (k : Nat) : Nat :=
  let i := lowerBound T k
  if T[i]? = some k then i + 1 else i

theorem searchToken_eq (T : List Nat) (k : Nat) :
    searchToken T k = if (T.drop (rawIdx T k)).isEmpty then 0 else rawIdx T k := rfl

theorem rawIdx_cons_lt {a k : Nat} (T : List Nat) (h : a < k) : rawIdx (a :: T) k = rawIdx T k + 1 := by
  unfold rawIdx
  simp only [lowerBound, h, if_true, List.getElem?_cons_succ]
  split <;> rfl

theorem rawIdx_cons_eq {a : Nat} (T : List Nat) : rawIdx (a :: T) a = 1 := by
  unfold rawIdx
  simp [lowerBound]

theorem rawIdx_cons_gt {a k : Nat} (T : List Nat) (h : k < a) : rawIdx (a :: T) k = 0 := by
  unfold rawIdx
  have : ¬ a < k := by omega
  simp only [lowerBound, this, if_false, List.getElem?_cons_zero]
  have : a ≠ k := by omega
  simp [this]

theorem sasc_tail {a : Nat} {T : List Nat} (h : SAsc (a :: T)) : SAsc T := List.Pairwise.tail h
theorem sasc_head_lt {a : Nat} {T : List Nat} (h : SAsc (a :: T)) : ∀ x ∈ T, a < x :=
  fun _ hx => List.rel_of_pairwise_cons h hx

/-- first token `> k` is `t` at position `|pre|`. -/
theorem rawIdx_split : ∀ (pre : List Nat) (t : Nat) (post : List Nat) (k : Nat),
    SAsc (pre ++ t :: post) → (∀ x ∈ pre, x ≤ k) → k < t → rawIdx (pre ++ t :: post) k = pre.length
  | [], t, post, k, _, _, hk => by simpa using rawIdx_cons_gt post hk
  | a :: pre, t, post, k, hs, hp, hk => by
    have ha : a ≤ k := hp a (by simp)
    by_cases hlt : a < k
    · have := rawIdx_split pre t post k (sasc_tail hs) (fun x hx => hp x (by simp [hx])) hk
      simp only [List.cons_append, List.length_cons]
      rw [rawIdx_cons_lt _ hlt, this]
    · have hak : a = k := by omega
      subst hak
      have : pre = [] := by
        cases pre with
        | nil => rfl
        | cons b pre' =>
          have h1 : a < b := sasc_head_lt hs b (by simp)
          have h2 : b ≤ a := hp b (by simp)
          omega
      subst this
      simpa using rawIdx_cons_eq (t :: post)

theorem rawIdx_all_le : ∀ (T : List Nat) (k : Nat), SAsc T → (∀ x ∈ T, x ≤ k) → rawIdx T k = T.length
  | [], k, _, _ => by simp [rawIdx, lowerBound]
  | a :: T, k, hs, hp => by
    have ha : a ≤ k := hp a (by simp)
    by_cases hlt : a < k
    · rw [rawIdx_cons_lt _ hlt, rawIdx_all_le T k (sasc_tail hs) (fun x hx => hp x (by simp [hx]))]; simp
    · have hak : a = k := by omega
      subst hak
      have : T = [] := by
        cases T with
        | nil => rfl
        | cons b T' =>
          have h1 : a < b := sasc_head_lt hs b (by simp)
          have h2 : b ≤ a := hp b (by simp)
          omega
      subst this
      simpa using rawIdx_cons_eq []

theorem searchToken_split (pre : List Nat) (t : Nat) (post : List Nat) (k : Nat)
    (hs : SAsc (pre ++ t :: post)) (hp : ∀ x ∈ pre, x ≤ k) (hk : k < t) :
    searchToken (pre ++ t :: post) k = pre.length := by
  rw [searchToken_eq, rawIdx_split pre t post k hs hp hk]
  simp

theorem searchToken_wrap (T : List Nat) (k : Nat) (hs : SAsc T) (hp : ∀ x ∈ T, x ≤ k) :
    searchToken T k = 0 := by
  rw [searchToken_eq, rawIdx_all_le T k hs hp]
  simp

/-- `searchToken(ringTokens, t-1)` (uint32 arithmetic) is the position of `t`. -/
theorem searchToken_pred (pre : List Nat) (t : Nat) (post : List Nat)
    (hs : SAsc (pre ++ t :: post)) (hb : ∀ x ∈ pre ++ t :: post, x ≤ maxU32) :
    searchToken (pre ++ t :: post) (pred32 t) = pre.length := by
  have hpre : ∀ x ∈ pre, x < t := by
    intro x hx
    have := List.pairwise_append.mp hs
    exact this.2.2 x hx t (by simp)
  by_cases h0 : t = 0
  · subst h0
    have : pre = [] := by
      cases pre with
      | nil => rfl
      | cons b _ => have := hpre b (by simp); omega
    subst this
    simp only [pred32, if_true, List.nil_append, List.length_nil]
    exact searchToken_wrap _ _ hs hb
  · have : pred32 t = t - 1 := by simp [pred32, h0]
    rw [this]
    exact searchToken_split pre t post (t - 1) hs (fun x hx => by have := hpre x hx; omega) (by omega)

end PfC14
