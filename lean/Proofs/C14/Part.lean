import Proofs.C14.Inst
/-! C14 proofs, part C: `GetTokenRangesForPartition`. -/
namespace PfC14
open C14 Ring

theorem sasc_append_lt {A B : List Nat} (h : SAsc (A ++ B)) : ∀ a ∈ A, ∀ b ∈ B, a < b :=
  (List.pairwise_append.mp h).2.2

theorem isSucc_interior (A : List Nat) (p t : Nat) (B : List Nat) (hs : SAsc (A ++ p :: t :: B)) (k : Nat) :
    IsSucc (A ++ p :: t :: B) k t ↔ (p ≤ k ∧ k < t) := by
  have hA : ∀ a ∈ A, a < p := fun a ha => sasc_append_lt hs a ha p (by simp)
  have hs2 : SAsc (p :: t :: B) := (List.pairwise_append.mp hs).2.1
  have hpt : p < t := List.rel_of_pairwise_cons hs2 (by simp)
  have hB : ∀ b ∈ B, t < b := fun b hb => List.rel_of_pairwise_cons (List.Pairwise.tail hs2) hb
  have hpm : p ∈ A ++ p :: t :: B := by simp
  have htm : t ∈ A ++ p :: t :: B := by simp
  constructor
  · intro ⟨_, hh⟩; rcases hh with ⟨h1, h2⟩ | ⟨_, h2⟩
    · refine ⟨?_, h1⟩
      by_cases hk : k < p
      · have := h2 p hpm hk; omega
      · omega
    · have := h2 p hpm; omega
  · intro ⟨h1, h2⟩
    refine ⟨htm, Or.inl ⟨h2, ?_⟩⟩
    intro u hu hku
    rcases List.mem_append.mp hu with hu | hu
    · have := hA u hu; omega
    · rcases List.mem_cons.mp hu with rfl | hu
      · omega
      · rcases List.mem_cons.mp hu with rfl | hu
        · exact Nat.le_refl _
        · have := hB u hu; omega

theorem sasc_le_last {T : List Nat} (hs : SAsc T) {l : Nat} (hl : T.getLast? = some l) : ∀ x ∈ T, x ≤ l :=
  asc_le_last (List.Pairwise.imp (fun h => Nat.le_of_lt h) hs) hl

theorem isSucc_head (t0 : Nat) (B : List Nat) (hs : SAsc (t0 :: B)) (l : Nat)
    (hl : (t0 :: B).getLast? = some l) (k : Nat) :
    IsSucc (t0 :: B) k t0 ↔ (k < t0 ∨ l ≤ k) := by
  have hmin : ∀ u ∈ t0 :: B, t0 ≤ u := by
    intro u hu; rcases List.mem_cons.mp hu with rfl | hu
    · exact Nat.le_refl _
    · exact Nat.le_of_lt (List.rel_of_pairwise_cons hs hu)
  have hmax := sasc_le_last hs hl
  have hlm : l ∈ t0 :: B := List.mem_of_getLast? hl
  constructor
  · intro ⟨_, hh⟩; rcases hh with ⟨h1, _⟩ | ⟨h1, _⟩
    · exact Or.inl h1
    · exact Or.inr (h1 l hlm)
  · intro hh
    refine ⟨by simp, ?_⟩
    rcases hh with hh | hh
    · left; exact ⟨hh, fun u hu _ => hmin u hu⟩
    · right; exact ⟨fun u hu => by have := hmax u hu; omega, hmin⟩

theorem sublist_cons_split {t : Nat} {ts : List Nat} : ∀ {l : List Nat}, (t :: ts).Sublist l →
    ∃ pre post, l = pre ++ t :: post ∧ ts.Sublist post
  | [], h => by cases h
  | x :: l, h => by
    cases h with
    | cons _ h' =>
      obtain ⟨pre, post, rfl, hs⟩ := sublist_cons_split h'
      exact ⟨x :: pre, post, rfl, hs⟩
    | cons_cons _ h' => exact ⟨[], l, rfl, h'⟩

theorem getLast?_split : ∀ {l : List Nat} {p : Nat}, l.getLast? = some p → ∃ init, l = init ++ [p]
  | [], _, h => by simp at h
  | [a], p, h => by simp at h; exact ⟨[], by simp [h]⟩
  | a :: b :: l, p, h => by
    obtain ⟨init, hi⟩ := getLast?_split (l := b :: l) (p := p) (by simpa [List.getLast?_cons_cons] using h)
    exact ⟨a :: init, by rw [hi]; rfl⟩

/-! ### `addRange` -/

/-- shape of the reversed ranges: even length, descending, everything below `b`. -/
def RevOk (rev : List Nat) (b : Nat) : Prop :=
  rev.length % 2 = 0 ∧ Desc' rev ∧ ∀ x ∈ rev, x < b

theorem addRange_spec (rev : List Nat) (b s e : Nat) (h : RevOk rev b) (hbs : b ≤ s) (hse : s ≤ e) :
    RevOk (addRange rev s e) (e + 1) ∧ ∀ k, coversR (addRange rev s e) k ↔ (coversR rev k ∨ (s ≤ k ∧ k ≤ e)) := by
  obtain ⟨hlen, hdesc, hlt⟩ := h
  cases rev with
  | nil =>
    refine ⟨⟨by simp [addRange], by simp [addRange]; omega, ?_⟩, ?_⟩
    · intro x hx; simp [addRange] at hx; omega
    · intro k; simp [addRange, coversR]
  | cons last rest =>
    cases rest with
    | nil => simp at hlen
    | cons s0 rest =>
      have hlast : last < b := hlt last (by simp)
      have hs0 : s0 ≤ last := List.rel_of_pairwise_cons hdesc (by simp)
      have hrest : ∀ x ∈ rest, x ≤ s0 := fun x hx =>
        List.rel_of_pairwise_cons (List.Pairwise.tail hdesc) hx
      have hlen' : rest.length % 2 = 0 := by simp at hlen; omega
      have hp : pred32 s = s - 1 := by unfold pred32; rw [if_neg (by omega)]
      by_cases hc : last = pred32 s
      · have hadd : addRange (last :: s0 :: rest) s e = e :: s0 :: rest := by simp [addRange, hc]
        rw [hadd]
        refine ⟨⟨by simp; omega, ?_, ?_⟩, ?_⟩
        · refine List.Pairwise.cons ?_ (List.Pairwise.tail hdesc)
          intro a ha; rcases List.mem_cons.mp ha with rfl | ha
          · show e ≥ a; omega
          · have := hrest a ha; show e ≥ a; omega
        · intro x hx; rcases List.mem_cons.mp hx with rfl | hx
          · omega
          · rcases List.mem_cons.mp hx with rfl | hx
            · omega
            · have := hrest x hx; omega
        · intro k; simp only [coversR]
          constructor
          · intro hh; rcases hh with hh | hh
            · by_cases hk : k ≤ last
              · left; left; omega
              · right; omega
            · left; right; exact hh
          · intro hh; rcases hh with (hh | hh) | hh
            · left; omega
            · right; exact hh
            · left; omega
      · have hadd : addRange (last :: s0 :: rest) s e = e :: s :: last :: s0 :: rest := by simp [addRange, hc]
        rw [hadd]
        refine ⟨⟨by simp; omega, ?_, ?_⟩, ?_⟩
        · refine List.Pairwise.cons ?_ (List.Pairwise.cons ?_ hdesc)
          · intro a ha; rcases List.mem_cons.mp ha with rfl | ha
            · exact hse
            · have := hlt a ha; show e ≥ a; omega
          · intro a ha; have := hlt a ha; show s ≥ a; omega
        · intro x hx; rcases List.mem_cons.mp hx with rfl | hx
          · omega
          · rcases List.mem_cons.mp hx with rfl | hx
            · omega
            · have := hlt x hx; omega
        · intro k; simp only [coversR]
          constructor
          · intro hh; rcases hh with hh | hh
            · right; exact hh
            · left; exact hh
          · intro hh; rcases hh with hh | hh
            · right; exact hh
            · left; exact hh

theorem revOk_mono {rev : List Nat} {b b' : Nat} (h : RevOk rev b) (hb : b ≤ b') : RevOk rev b' :=
  ⟨h.1, h.2.1, fun x hx => by have := h.2.2 x hx; omega⟩

/-! ### the loop -/

theorem getLast_cons_append_getElem (tp : Nat) (pre : List Nat) :
    ∃ p, (tp :: pre).getLast? = some p ∧ ∀ (t : Nat) (post : List Nat), (tp :: pre ++ t :: post)[pre.length]? = some p := by
  induction pre generalizing tp with
  | nil => exact ⟨tp, rfl, by simp⟩
  | cons a pre ih =>
    obtain ⟨p, h1, h2⟩ := ih a
    refine ⟨p, by simpa [List.getLast?_cons_cons] using h1, ?_⟩
    intro t post
    have := h2 t post
    simpa using this

/-- one non-first iteration, with the ring tokens split around the partition token. -/
theorem partLoop_step (first : Bool) (tp : Nat) (pre : List Nat) (t : Nat) (post ts rev : List Nat) (last : Option Nat)
    (p : Nat) (hp : (tp :: pre).getLast? = some p)
    (hs : SAsc (tp :: pre ++ t :: post)) (hb : ∀ x ∈ tp :: pre ++ t :: post, x ≤ maxU32) :
    partLoop (tp :: pre ++ t :: post) first (t :: ts) rev last =
      partLoop (t :: post) false ts (addRange rev p (pred32 t)) last := by
  have hix : searchToken (tp :: pre ++ t :: post) (pred32 t) = pre.length + 1 := by
    have := searchToken_pred (tp :: pre) t post (by simpa using hs) (by simpa using hb)
    simpa using this
  obtain ⟨p', hp', hget⟩ := getLast_cons_append_getElem tp pre
  have hpp : p' = p := by rw [hp] at hp'; exact (Option.some.inj hp').symm
  subst hpp
  rw [partLoop]
  simp only [hix, Nat.add_one_ne_zero, if_false, Nat.add_sub_cancel]
  rw [hget t post]
  simp only
  congr 1
  have : (tp :: pre ++ t :: post).drop (pre.length + 1) = t :: post := by
    simp
  rw [this]

/-- the iterations after the first one. -/
theorem partLoop_rest (T : List Nat) (hT : SAsc T) (hbT : ∀ x ∈ T, x ≤ maxU32) :
    ∀ (ts pre0 : List Nat) (tp : Nat) (rt' rev : List Nat) (last : Option Nat),
      T = pre0 ++ tp :: rt' → ts.Sublist rt' → RevOk rev tp →
      ∃ rev' b, partLoop (tp :: rt') false ts rev last = .ok (rev', last) ∧ RevOk rev' b ∧ b ∈ T ∧
        ∀ k, coversR rev' k ↔ (coversR rev k ∨ ∃ t ∈ ts, IsSucc T k t)
  | [], pre0, tp, rt', rev, last, hsplit, _, hrev => by
    refine ⟨rev, tp, by simp [partLoop], hrev, by simp [hsplit], ?_⟩
    intro k; simp
  | t :: ts, pre0, tp, rt', rev, last, hsplit, hsub, hrev => by
    obtain ⟨pre, post, hrt, hsub'⟩ := sublist_cons_split hsub
    subst hrt
    have hs1 : SAsc (tp :: pre ++ t :: post) := by
      rw [hsplit] at hT; exact (List.pairwise_append.mp hT).2.1
    have hb1 : ∀ x ∈ tp :: pre ++ t :: post, x ≤ maxU32 := by
      intro x hx; apply hbT; rw [hsplit]; exact List.mem_append_right _ hx
    obtain ⟨p, hp, _⟩ := getLast_cons_append_getElem tp pre
    rw [show tp :: (pre ++ t :: post) = (tp :: pre) ++ t :: post from rfl,
      partLoop_step false tp pre t post ts rev last p hp hs1 hb1]
    -- facts about p and t
    have hpm : p ∈ tp :: pre := List.mem_of_getLast? hp
    have hpt : p < t := sasc_append_lt (A := tp :: pre) (B := t :: post) hs1 p hpm t (by simp)
    have htp : tp ≤ p := by
      rcases List.mem_cons.mp hpm with rfl | h
      · exact Nat.le_refl _
      · exact Nat.le_of_lt (List.rel_of_pairwise_cons ((List.pairwise_append.mp (by simpa using hs1 : SAsc ((tp :: pre) ++ t :: post))).1) h)
    have hpred : pred32 t = t - 1 := by unfold pred32; rw [if_neg (by omega)]
    rw [hpred]
    have ⟨hrev2, hcov2⟩ := addRange_spec rev tp p (t - 1) hrev (by omega) (by omega)
    have hrev2' : RevOk (addRange rev p (t - 1)) t := revOk_mono hrev2 (by omega)
    have hsplit' : T = (pre0 ++ tp :: pre) ++ t :: post := by rw [hsplit]; simp
    obtain ⟨rev', b, hloop, hrev', hbT', hcov'⟩ :=
      partLoop_rest T hT hbT ts (pre0 ++ tp :: pre) t post (addRange rev p (t - 1)) last hsplit' hsub' hrev2'
    refine ⟨rev', b, hloop, hrev', hbT', ?_⟩
    intro k
    rw [hcov', hcov2]
    -- IsSucc T k t ↔ p ≤ k < t
    obtain ⟨init, hinit⟩ : ∃ init, tp :: pre = init ++ [p] := by
      exact getLast?_split hp
    have hTsplit : T = (pre0 ++ init) ++ p :: t :: post := by
      rw [hsplit']
      have : pre0 ++ tp :: pre = pre0 ++ (init ++ [p]) := by rw [hinit]
      rw [this]; simp
    have hsucc : IsSucc T k t ↔ (p ≤ k ∧ k < t) := by
      have := isSucc_interior (pre0 ++ init) p t post (by rw [← hTsplit]; exact hT) k
      rw [← hTsplit] at this; exact this
    constructor
    · intro hh; rcases hh with (hh | hh) | ⟨t', ht', hh⟩
      · exact Or.inl hh
      · right; exact ⟨t, by simp, hsucc.mpr ⟨hh.1, by omega⟩⟩
      · right; exact ⟨t', by simp [ht'], hh⟩
    · intro hh; rcases hh with hh | ⟨t', ht', hh⟩
      · exact Or.inl (Or.inl hh)
      · rcases List.mem_cons.mp ht' with rfl | ht'
        · have := hsucc.mp hh; left; right; omega
        · right; exact ⟨t', ht', hh⟩

end PfC14
