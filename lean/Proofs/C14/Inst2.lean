import Proofs.C14.Inst
/-! C14 proofs, part B2: from the walk to successor-token ownership; sentinel vs. flag. -/
namespace PfC14
open C14 Ring

/-! ### structure of descending lists -/

theorem descAbove_le_top (f : Nat) : ∀ (R : List (Nat × Bool)), DescAbove f R →
    ∀ p ∈ R, p.1 ≤ topOf f R
  | [], _, p, hp => by simp at hp
  | (t, m) :: R, h, p, hp => by
    rcases List.mem_cons.mp hp with rfl | hp
    · exact Nat.le_refl _
    · have := descAbove_le_top f R h.2 p hp
      have := h.1
      simp only [topOf_cons]; omega

theorem descAbove_append (f : Nat) : ∀ (A B : List (Nat × Bool)), DescAbove f (A ++ B) →
    DescAbove f B ∧ (∀ p ∈ A, topOf f B < p.1) ∧ topOf f B ≤ topOf f (A ++ B)
  | [], B, h => ⟨h, by simp, Nat.le_refl _⟩
  | (a, m) :: A, B, h => by
    have ⟨h1, h2, h3⟩ := descAbove_append f A B h.2
    have ha : topOf f (A ++ B) < a := h.1
    refine ⟨h1, ?_, ?_⟩
    · intro p hp
      rcases List.mem_cons.mp hp with rfl | hp
      · simp only; omega
      · exact h2 p hp
    · simp only [List.cons_append, topOf_cons]; omega

theorem top_mem (f : Nat) : ∀ (R : List (Nat × Bool)), topOf f R = f ∨ ∃ m, (topOf f R, m) ∈ R
  | [] => Or.inl rfl
  | (t, m) :: _ => Or.inr ⟨m, by simp⟩

theorem below_iff (f : Nat) : ∀ (D : List (Nat × Bool)) (k : Nat),
    below f D k ↔ ∃ A t R, D = A ++ (t, true) :: R ∧ topOf f R ≤ k ∧ k < t
  | [], k => by simp [below]
  | (t, m) :: D, k => by
    simp only [below, below_iff f D k]
    constructor
    · intro h; rcases h with ⟨hm, h1, h2⟩ | ⟨A, t', R, hD, h1, h2⟩
      · subst hm; exact ⟨[], t, D, rfl, h1, h2⟩
      · exact ⟨(t, m) :: A, t', R, by simp [hD], h1, h2⟩
    · intro ⟨A, t', R, hD, h1, h2⟩
      cases A with
      | nil =>
        simp only [List.nil_append, List.cons.injEq, Prod.mk.injEq] at hD
        obtain ⟨⟨rfl, rfl⟩, rfl⟩ := hD
        left; exact ⟨rfl, h1, h2⟩
      | cons a A =>
        simp only [List.cons_append, List.cons.injEq] at hD
        right; exact ⟨A, t', R, hD.2, h1, h2⟩

/-- tokens of the zone: the first token and the descending rest (order is irrelevant for `IsSucc`). -/
def toksOf (f : Nat) (D : List (Nat × Bool)) : List Nat := f :: D.map (·.1)

theorem isSucc_congr {T T' : List Nat} (h : ∀ u, u ∈ T ↔ u ∈ T') (k t : Nat) : IsSucc T k t ↔ IsSucc T' k t := by
  unfold IsSucc
  constructor
  · intro ⟨hm, hh⟩
    refine ⟨(h t).mp hm, ?_⟩
    rcases hh with ⟨h1, h2⟩ | ⟨h1, h2⟩
    · left; exact ⟨h1, fun u hu => h2 u ((h u).mpr hu)⟩
    · right; exact ⟨fun u hu => h1 u ((h u).mpr hu), fun u hu => h2 u ((h u).mpr hu)⟩
  · intro ⟨hm, hh⟩
    refine ⟨(h t).mpr hm, ?_⟩
    rcases hh with ⟨h1, h2⟩ | ⟨h1, h2⟩
    · left; exact ⟨h1, fun u hu => h2 u ((h u).mp hu)⟩
    · right; exact ⟨fun u hu => h1 u ((h u).mp hu), fun u hu => h2 u ((h u).mp hu)⟩

theorem mem_toksOf {f : Nat} {D : List (Nat × Bool)} {u : Nat} : u ∈ toksOf f D ↔ u = f ∨ ∃ m, (u, m) ∈ D := by
  simp [toksOf]

theorem isSucc_first (f : Nat) (D : List (Nat × Bool)) (hd : DescAbove f D) (k : Nat) :
    IsSucc (toksOf f D) k f ↔ (k < f ∨ topOf f D ≤ k) := by
  have hmin : ∀ u ∈ toksOf f D, f ≤ u := by
    intro u hu; rcases mem_toksOf.mp hu with h | ⟨m, hm⟩
    · omega
    · have := (descAbove_append f D [] (by simpa using hd)).2.1 (u, m) hm
      simp only [topOf_nil] at this; omega
  have hmax : ∀ u ∈ toksOf f D, u ≤ topOf f D := by
    intro u hu; rcases mem_toksOf.mp hu with h | ⟨m, hm⟩
    · rw [h]; exact f_le_top f D hd
    · exact descAbove_le_top f D hd (u, m) hm
  have htop : topOf f D ∈ toksOf f D := by
    rcases top_mem f D with h | ⟨m, h⟩
    · rw [h]; simp [toksOf]
    · exact mem_toksOf.mpr (Or.inr ⟨m, h⟩)
  constructor
  · intro ⟨_, hh⟩; rcases hh with ⟨h1, _⟩ | ⟨h1, _⟩
    · exact Or.inl h1
    · exact Or.inr (h1 _ htop)
  · intro hh
    refine ⟨by simp [toksOf], ?_⟩
    rcases hh with hh | hh
    · left; exact ⟨hh, fun u hu _ => hmin u hu⟩
    · right; exact ⟨fun u hu => by have := hmax u hu; omega, hmin⟩

theorem isSucc_mid (f : Nat) (A : List (Nat × Bool)) (t : Nat) (m : Bool) (R : List (Nat × Bool))
    (hd : DescAbove f (A ++ (t, m) :: R)) (k : Nat) :
    IsSucc (toksOf f (A ++ (t, m) :: R)) k t ↔ (topOf f R ≤ k ∧ k < t) := by
  have ⟨hdR', hA, _⟩ := descAbove_append f A ((t, m) :: R) hd
  have hA' : ∀ p ∈ A, t < p.1 := by intro p hp; have := hA p hp; simpa using this
  have hdR : DescAbove f R := hdR'.2
  have hlt : topOf f R < t := hdR'.1
  have hR : ∀ p ∈ R, p.1 ≤ topOf f R := descAbove_le_top f R hdR
  have hf : f ≤ topOf f R := f_le_top f R hdR
  have htopmem : topOf f R ∈ toksOf f (A ++ (t, m) :: R) := by
    rcases top_mem f R with h | ⟨m', h⟩
    · rw [h]; simp [toksOf]
    · exact mem_toksOf.mpr (Or.inr ⟨m', by simp [h]⟩)
  have htmem : t ∈ toksOf f (A ++ (t, m) :: R) := mem_toksOf.mpr (Or.inr ⟨m, by simp⟩)
  constructor
  · intro ⟨_, hh⟩; rcases hh with ⟨h1, h2⟩ | ⟨_, h2⟩
    · refine ⟨?_, h1⟩
      by_cases hk : k < topOf f R
      · have := h2 _ htopmem hk; omega
      · omega
    · have := h2 _ htopmem; omega
  · intro ⟨h1, h2⟩
    refine ⟨htmem, Or.inl ⟨h2, ?_⟩⟩
    intro u hu hku
    rcases mem_toksOf.mp hu with h | ⟨m', hm'⟩
    · omega
    · rcases List.mem_append.mp hm' with hm' | hm'
      · have := hA' _ hm'; simp only at this; omega
      · rcases List.mem_cons.mp hm' with h | hm'
        · simp only [Prod.mk.injEq] at h; omega
        · have := hR _ hm'; simp only at this; omega

/-- tokens strictly descending ⇒ a token has one flag -/
theorem flag_unique (f : Nat) : ∀ (D : List (Nat × Bool)), DescAbove f D →
    ∀ t m m', (t, m) ∈ D → (t, m') ∈ D → m = m'
  | [], _, _, _, _, h, _ => by simp at h
  | (a, ma) :: D, hd, t, m, m', h, h' => by
    have hle := descAbove_le_top f D hd.2
    have hlt := hd.1
    rcases List.mem_cons.mp h with h | h <;> rcases List.mem_cons.mp h' with h' | h'
    · simp only [Prod.mk.injEq] at h h'; rw [h.2, h'.2]
    · simp only [Prod.mk.injEq] at h; have := hle _ h'; simp only at this; omega
    · simp only [Prod.mk.injEq] at h'; have := hle _ h; simp only at this; omega
    · exact flag_unique f D hd.2 t m m' h h'

/-- the walk's ranges = keys whose successor token is owned (in terms of the walk's own lists). -/
theorem outF_owned (f : Nat) (fm : Bool) (D : List (Nat × Bool)) (hd : DescAbove f D)
    (hb : topOf f D ≤ maxU32) (k : Nat) (hk : k ≤ maxU32) :
    coversR (outF (f, fm) (if fm then some maxU32 else none) D) k ↔
      ∃ t, IsSucc (toksOf f D) k t ∧ (t, true) ∈ (f, fm) :: D := by
  rw [outF_covers f fm D _ k hd (by cases fm <;> simp [StOk, hb])]
  constructor
  · intro h
    rcases h with ⟨re, hst, h1, h2⟩ | h | ⟨hfm, h⟩
    · cases fm with
      | false => simp at hst
      | true => exact ⟨f, (isSucc_first f D hd k).mpr (Or.inr h1), by simp⟩
    · obtain ⟨A, t, R, hD, h1, h2⟩ := (below_iff f D k).mp h
      subst hD
      exact ⟨t, (isSucc_mid f A t true R hd k).mpr ⟨h1, h2⟩, by simp⟩
    · subst hfm
      exact ⟨f, (isSucc_first f D hd k).mpr (Or.inl h), by simp⟩
  · intro ⟨t, hs, hm⟩
    rcases List.mem_cons.mp hm with h | hm
    · simp only [Prod.mk.injEq] at h
      obtain ⟨rfl, rfl⟩ := h
      rcases (isSucc_first t D hd k).mp hs with h | h
      · right; right; exact ⟨rfl, h⟩
      · left; exact ⟨maxU32, by simp, h, hk⟩
    · obtain ⟨A, R, hD⟩ := List.append_of_mem hm
      subst hD
      right; left
      exact (below_iff f _ k).mpr ⟨A, t, R, rfl, (isSucc_mid f A t true R hd k).mp hs⟩

/-! ### sentinel (`rangeEnd == 0`) vs. flag -/

def enc : Option Nat → Nat
  | none => 0
  | some r => r

/-- the sentinel is never produced by `token - 1`. -/
def Safe : Option Nat → List (Nat × Bool) → Prop
  | _, [] => True
  | none, (t, m) :: R => if m then pred32 t ≠ 0 ∧ Safe (some (pred32 t)) R else Safe none R
  | some re, (t, m) :: R => if m then Safe (some re) R else Safe none R

theorem walkLoopOld_eq : ∀ (D : List (Nat × Bool)) (st : Option Nat), st ≠ some 0 → Safe st D →
    walkLoopOld (enc st) D = (enc (walkLoop st D).1, (walkLoop st D).2) ∧ (walkLoop st D).1 ≠ some 0
  | [], st, h0, _ => by cases st <;> simp_all [walkLoopOld, walkLoop]
  | (t, m) :: R, none, _, hs => by
    cases m with
    | true =>
      simp only [Safe, if_true] at hs
      have ih := walkLoopOld_eq R (some (pred32 t)) (by simpa using hs.1) hs.2
      simp only [enc, walkLoopOld, walkLoop, if_true] at ih ⊢
      exact ih
    | false =>
      simp only [Safe] at hs
      have ih := walkLoopOld_eq R none (by simp) (by simpa using hs)
      simp only [enc, walkLoopOld, walkLoop] at ih ⊢
      simpa using ih
  | (t, m) :: R, some re, h0, hs => by
    have hre : re ≠ 0 := by intro h; apply h0; rw [h]
    cases m with
    | true =>
      simp only [Safe, if_true] at hs
      have ih := walkLoopOld_eq R (some re) h0 hs
      simp only [enc, walkLoopOld, walkLoop, hre, if_false, if_true] at ih ⊢
      exact ih
    | false =>
      simp only [Safe] at hs
      have ih := walkLoopOld_eq R none (by simp) (by simpa using hs)
      simp only [enc, walkLoopOld, walkLoop, hre, if_false] at ih ⊢
      simp only [Bool.false_eq_true, if_false]
      rw [ih.1]
      exact ⟨rfl, ih.2⟩

theorem walkFinishOld_eq (first : Nat × Bool) : ∀ (st : Option Nat), st ≠ some 0 →
    walkFinishOld first (enc st) = walkFinish first st
  | none, _ => by simp [walkFinishOld, walkFinish, enc]
  | some re, h => by
    have hre : re ≠ 0 := by intro h'; apply h; rw [h']
    simp [walkFinishOld, walkFinish, enc, hre]

end PfC14
