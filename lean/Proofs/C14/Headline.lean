import Proofs.C14.Get2
import Proofs.C14.Total
/-! C14: the headline as one theorem (ranges ⇔ membership in what `Ring.Get` returns), ring-level instance
tiling, shape of the reported ranges. -/
namespace PfC14
open C14 Ring

theorem nodup_eraseDups : ∀ (n : Nat) (l : List String), l.length ≤ n → l.eraseDups.Nodup
  | _, [], _ => by simp
  | 0, _ :: _, h => by simp at h
  | n + 1, a :: as, h => by
    rw [List.eraseDups_cons]
    refine List.nodup_cons.mpr ⟨?_, nodup_eraseDups n _ ?_⟩
    · intro hm
      have := List.mem_eraseDups.mp hm
      simp at this
    · have := List.length_filter_le (fun b => !b == a) as
      simp at h; omega

theorem wfr_wfring {d : Desc} (h : WFR d) : C01.WFRing d := ⟨h.ids, h.unique⟩

/-- reported instance ranges are an ascending list of even length (closed `[start,end]` pairs) -/
theorem instRangesOf_shape (zt : List (Nat × Bool)) (hs : SAsc (zt.map (·.1))) (hb : ∀ p ∈ zt, p.1 ≤ maxU32) :
    (instRangesOf zt).length % 2 = 0 ∧ Asc (instRangesOf zt) := by
  cases zt with
  | nil => simp [instRangesOf]
  | cons first rest =>
    obtain ⟨f, fm⟩ := first
    have hd := descAbove_of_sasc f rest (by simpa using hs)
    have hst : StOk f (if fm then some maxU32 else none) rest.reverse := by
      cases fm
      · simp [StOk]
      · simp only [if_true, StOk]
        rcases top_mem f rest.reverse with h | ⟨m, h⟩
        · rw [h]; exact hb (f, true) (by simp)
        · exact hb (topOf f rest.reverse, m) (List.mem_cons_of_mem _ (List.mem_reverse.mp h))
    have ⟨hlen, hdesc, _⟩ := outF_shape f fm rest.reverse _ hd hst
    have ⟨hsort, hasc⟩ := sortNat_desc _ hdesc
    rw [instRangesOfCur_eq, hsort]
    exact ⟨by simpa using hlen, hasc⟩

/-- the zone lookup always finds an owner when the zone holds a token -/
theorem lookupInZone_total (d : Desc) (z : String) (k : Nat) (hne : zoneTokens d z ≠ []) :
    ∃ i ∈ d, i.zone = z ∧ lookupInZone d z k = some i.id := by
  rw [lookupInZone_eq]
  cases hf : (rotAt (tokenInsts d) k).find? (fun p => p.2.zone == z) with
  | none =>
    have hall := (rotFind_none (tokenInsts d) (fun p => p.2.zone == z) k).mp hf
    cases hzt : zoneTokens d z with
    | nil => exact absurd hzt hne
    | cons p _ =>
      obtain ⟨t, i⟩ := p
      have hm := (mem_zoneTokens d z t i).mp (by rw [hzt]; exact List.mem_cons_self)
      have hin : (t, i) ∈ tokenInsts d := by rw [tokenInsts_eq]; exact (mem_sortedPairs _ _ _ _).mpr ⟨hm.1, hm.2.2⟩
      have := hall (t, i) hin
      simp only at this
      rw [hm.2.1] at this; cases this
  | some x =>
    have hx : x ∈ tokenInsts d := (mem_rotAt _ k x).mp (List.mem_of_find?_eq_some hf)
    have hxd := (mem_sortedPairs d (·.tokens) x.1 x.2).mp (by rw [← tokenInsts_eq]; exact hx)
    have hz : x.2.zone = z := by simpa using List.find?_some hf
    exact ⟨x.2, hxd.1, hz, rfl⟩

/-- ranges of a well-formed ring, with their shape -/
theorem rangesForInstance_exact_shape (d : Desc) (h : WFR d) (inst : Inst) (hi : inst ∈ d) (hz : inst.zone ≠ "")
    (hne : zoneTokens d inst.zone ≠ []) :
    ∃ tr, rangesForInstance d true (zonesOf d).length inst.id = .ok tr ∧ tr.length % 2 = 0 ∧ Asc tr ∧
      ∀ k, k ≤ maxU32 → (includesKey tr k = true ↔ lookupInZone d inst.zone k = some inst.id) := by
  obtain ⟨tr, h1, h2⟩ := rangesForInstance_exact d h inst hi hz hne
  have ⟨hs, hb⟩ := zoneFlags_wf d h inst.zone inst.id
  have hshape := instRangesOf_shape _ hs hb
  -- the returned list is the walk over the zone's flags
  have htr : tr = instRangesOf (zoneFlags d inst.zone inst.id) := by
    have hget : d.get? inst.id = some inst := find?_inst_of_mem d h.ids inst hi
    have hz' : (inst.zone == "") = false := by simpa using hz
    have hne2 : ((zoneTokens d inst.zone).map (·.1)).isEmpty = false := by
      cases hzt : zoneTokens d inst.zone with
      | nil => exact absurd hzt hne
      | cons _ _ => rfl
    simp only [rangesForInstance, rangesForInstanceWith, rangesForInstanceIdx, hget, hz', hne2, zoneFlagsOf_eq d h.unique] at h1
    simpa using h1.symm
  exact ⟨tr, h1, htr ▸ hshape.1, htr ▸ hshape.2, h2⟩

/-- **ring-level zone tiling**: in every zone that holds a token, every key is in the reported ranges of exactly
one instance of that zone. -/
theorem instance_zone_tiling (d : Desc) (h : WFR d) (z : String) (hz : z ≠ "") (hne : zoneTokens d z ≠ [])
    (k : Nat) (hk : k ≤ maxU32) :
    ∃ inst ∈ d, inst.zone = z ∧
      (∃ tr, rangesForInstance d true (zonesOf d).length inst.id = .ok tr ∧ includesKey tr k = true) ∧
      ∀ j ∈ d, j.zone = z → (∃ tr, rangesForInstance d true (zonesOf d).length j.id = .ok tr ∧ includesKey tr k = true) →
        j = inst := by
  obtain ⟨inst, hi, hiz, hl⟩ := lookupInZone_total d z k hne
  subst hiz
  refine ⟨inst, hi, rfl, ?_, ?_⟩
  · obtain ⟨tr, h1, h2⟩ := rangesForInstance_exact d h inst hi hz hne
    exact ⟨tr, h1, (h2 k hk).mpr hl⟩
  · rintro j hj hjz ⟨tr, h1, h2⟩
    obtain ⟨tr', h1', h2'⟩ := rangesForInstance_exact d h j hj (hjz ▸ hz) (hjz ▸ hne)
    rw [h1] at h1'; cases h1'
    have := (h2' k hk).mp h2
    rw [hjz, hl] at this
    exact inst_eq_of_id d h j inst hj hi (Option.some.inj this).symm

/-- the rings the property quantifies over, as ONE predicate -/
structure QuantRing (cfg : C01.Cfg) (op : C01.Op) (now : Int) (d : Desc) : Prop where
  wf : WFR d
  za : cfg.zoneAware = true
  rf : cfg.rf = (zonesOf d).length
  zones : ∀ i ∈ d, i.zone ≠ ""
  tokens : ∀ z ∈ zonesOf d, zoneTokens d z ≠ []
  noExt : ∀ i ∈ d, C01.extendsOn op i.state = false
  healthy : ∀ i ∈ d, C01.isHealthy op cfg.hbTimeout now i = true

theorem QuantRing.zoneRing {cfg op now d} (q : QuantRing cfg op now d) : ZoneRing cfg op d :=
  ⟨wfr_wfring q.wf, q.za, q.zones, q.noExt⟩

theorem mem_zonesOf {d : Desc} {i : Inst} (hi : i ∈ d) : i.zone ∈ zonesOf d :=
  List.mem_eraseDups.mpr (List.mem_map_of_mem hi)

theorem walked_subset {cfg op d} (hz : ZoneRing cfg op d) (key : Nat) (x : Inst) (hx : x ∈ C01.specWalked cfg op d key) :
    x ∈ d :=
  circle_snd_mem d key x (List.mem_of_find?_eq_some ((mem_Sfull_iff cfg op d hz key x).mp (mem_takeRf op _ _ x hx)))

/-- under `QuantRing` the walk returns one instance per zone, all of them healthy: `Get` succeeds with exactly them -/
theorem quant_get (cfg : C01.Cfg) (op : C01.Op) (now : Int) (d : Desc) (q : QuantRing cfg op now d) (hne : d ≠ [])
    (key : Nat) :
    C01.get cfg d (C01.sortedTokens d) key op now =
      .ok { instances := C01.specWalked cfg op d key, maxErrors := cfg.rf - C01.majority cfg.rf cfg.rf } := by
  have hz := q.zoneRing
  have hrf1 : 1 ≤ cfg.rf := by
    rw [q.rf]
    cases d with
    | nil => exact absurd rfl hne
    | cons i _ => exact List.length_pos_of_mem (mem_zonesOf (List.mem_cons_self))
  -- every zone is represented
  have hsub : zonesOf d ⊆ (C01.specWalked cfg op d key).map (·.zone) := by
    intro z hzm
    obtain ⟨i, hi, hiz, hl⟩ := lookupInZone_total d z key (q.tokens z hzm)
    subst hiz
    exact List.mem_map_of_mem (lookup_is_walked cfg op d hz (by rw [q.rf]; exact Nat.le_refl _) key i hi hl)
  have hge : (zonesOf d).length ≤ (C01.specWalked cfg op d key).length := by
    have := List.Nodup.length_le_of_subset (nodup_eraseDups _ _ (Nat.le_refl _)) hsub
    simpa [zonesOf] using this
  have hle : (C01.specWalked cfg op d key).length ≤ (zonesOf d).length := by
    have h1 := Sfull_length_le cfg op d hz key
    have h2 : (C01.specWalked cfg op d key).length ≤ (C01.Sfull cfg op d key).length := by
      unfold C01.specWalked
      rw [takeRf_all op cfg.rf _ (fun x hx => by
        have hxC := List.mem_of_find?_eq_some ((mem_Sfull_iff cfg op d hz key x).mp hx)
        exact hz.noExt x (circle_snd_mem d key x hxC)) (by rw [q.rf]; exact h1)]
      exact Nat.le_refl _
    exact Nat.le_trans h2 h1
  have hlen : (C01.specWalked cfg op d key).length = cfg.rf := by rw [q.rf]; exact Nat.le_antisymm hle hge
  have hfilter : (C01.specWalked cfg op d key).filter (C01.isHealthy op cfg.hbTimeout now) = C01.specWalked cfg op d key :=
    List.filter_eq_self.mpr (fun x hx => q.healthy x (walked_subset hz key x hx))
  have hspec : C01.specGet cfg op d key now =
      { ok := true, instances := C01.specWalked cfg op d key, maxErrors := cfg.rf - C01.majority cfg.rf cfg.rf } := by
    unfold C01.specGet
    simp only [hfilter, hlen]
    have : ¬ cfg.rf < C01.majority cfg.rf cfg.rf := by
      unfold C01.majority; simp only [Nat.max_self]; omega
    rw [if_neg this]
  have := (PfC01.get_eq_spec cfg d key op now hz.wf hrf1).1 (by rw [hspec])
  rw [this, hspec]

/-- **the headline, as one theorem**: on a `QuantRing` (well-formed, zone-aware with rf = #zones, every instance
in a zone, every zone holding a token, all instances healthy and non-extending for the operation)
`GetTokenRangesForInstance` returns ascending closed ranges which contain a key exactly when the instance is
a member of the replication set `Ring.Get` RETURNS for that key. -/
theorem ranges_iff_get (cfg : C01.Cfg) (op : C01.Op) (now : Int) (d : Desc) (q : QuantRing cfg op now d)
    (inst : Inst) (hi : inst ∈ d) :
    ∃ tr, rangesForInstance d cfg.zoneAware cfg.rf inst.id = .ok tr ∧ tr.length % 2 = 0 ∧ Asc tr ∧
      ∀ k, k ≤ maxU32 → (includesKey tr k = true ↔
        ∃ rs, C01.get cfg d (C01.sortedTokens d) k op now = .ok rs ∧ inst ∈ rs.instances) := by
  have hz := q.zoneRing
  have hne : d ≠ [] := fun h => by rw [h] at hi; cases hi
  obtain ⟨tr, h1, h2, h3, h4⟩ := rangesForInstance_exact_shape d q.wf inst hi (q.zones inst hi)
    (q.tokens inst.zone (mem_zonesOf hi))
  refine ⟨tr, by rw [q.za, q.rf]; exact h1, h2, h3, ?_⟩
  intro k hk
  rw [h4 k hk, quant_get cfg op now d q hne k]
  constructor
  · intro hl
    exact ⟨_, rfl, lookup_is_walked cfg op d hz (by rw [q.rf]; exact Nat.le_refl _) k inst hi hl⟩
  · rintro ⟨rs, hrs, hm⟩
    cases hrs
    exact walked_is_lookup cfg op d hz k inst hm

end PfC14
