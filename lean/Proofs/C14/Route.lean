import Proofs.C14.Search
/-! C14/C15 proofs: the walk "from `searchToken(tokens, key)` around the ring to the first entry
satisfying `q`" finds the owner of the first `q`-token strictly after the key. -/
namespace PfC14
open C14

/-- the order in which `ActivePartitionForKey` / `findInstancesForKey` visit the ring for `key`. -/
def rotAt {α} (L : List (Nat × α)) (k : Nat) : List (Nat × α) :=
  L.drop (searchToken (L.map (·.1)) k) ++ L.take (searchToken (L.map (·.1)) k)

theorem mem_rotAt {α} (L : List (Nat × α)) (k : Nat) (x : Nat × α) : x ∈ rotAt L k ↔ x ∈ L := by
  unfold rotAt
  rw [List.mem_append]
  constructor
  · intro h; rcases h with h | h
    · exact List.mem_of_mem_drop h
    · exact List.mem_of_mem_take h
  · intro h
    have := List.take_append_drop (searchToken (L.map (·.1)) k) L
    rw [← this] at h
    rcases List.mem_append.mp h with h | h
    · exact Or.inr h
    · exact Or.inl h

theorem split_at_key {α} : ∀ (L : List (Nat × α)) (k : Nat), SAsc (L.map (·.1)) →
    ∃ pre post, L = pre ++ post ∧ (∀ x ∈ pre, x.1 ≤ k) ∧ (∀ x ∈ post, k < x.1)
  | [], _, _ => ⟨[], [], rfl, by simp, by simp⟩
  | a :: L, k, hs => by
    have hs' : SAsc (L.map (·.1)) := by simpa using List.Pairwise.tail hs
    by_cases ha : a.1 ≤ k
    · obtain ⟨pre, post, rfl, h1, h2⟩ := split_at_key L k hs'
      refine ⟨a :: pre, post, rfl, ?_, h2⟩
      intro x hx; rcases List.mem_cons.mp hx with rfl | hx
      · exact ha
      · exact h1 x hx
    · refine ⟨[], a :: L, rfl, by simp, ?_⟩
      intro x hx; rcases List.mem_cons.mp hx with rfl | hx
      · omega
      · have : a.1 < x.1 := List.rel_of_pairwise_cons hs (List.mem_map_of_mem hx)
        omega

theorem rot_split {α} (L : List (Nat × α)) (k : Nat) (hs : SAsc (L.map (·.1))) :
    ∃ pre post, L = pre ++ post ∧ (∀ x ∈ pre, x.1 ≤ k) ∧ (∀ x ∈ post, k < x.1) ∧ rotAt L k = post ++ pre := by
  obtain ⟨pre, post, rfl, h1, h2⟩ := split_at_key L k hs
  refine ⟨pre, post, rfl, h1, h2, ?_⟩
  unfold rotAt
  cases post with
  | nil =>
    have : searchToken ((pre ++ ([] : List (Nat × α))).map (·.1)) k = 0 := by
      apply searchToken_wrap _ _ hs
      intro u hu
      obtain ⟨x, hx, rfl⟩ := List.mem_map.mp hu
      exact h1 x (by simpa using hx)
    rw [this]; simp
  | cons x post =>
    have hmap : (pre ++ x :: post).map (·.1) = pre.map (·.1) ++ x.1 :: post.map (·.1) := by simp
    have : searchToken ((pre ++ x :: post).map (·.1)) k = pre.length := by
      rw [hmap]
      have := searchToken_split (pre.map (·.1)) x.1 (post.map (·.1)) k (by rw [← hmap]; exact hs)
        (by intro u hu; obtain ⟨y, hy, rfl⟩ := List.mem_map.mp hu; exact h1 y hy) (h2 x (by simp))
      simpa using this
    rw [this]; simp

theorem sasc_fst_inj {α} : ∀ (L : List (Nat × α)), SAsc (L.map (·.1)) →
    ∀ x ∈ L, ∀ y ∈ L, x.1 = y.1 → x = y
  | [], _, x, hx, _, _, _ => by simp at hx
  | a :: L, hs, x, hx, y, hy, hxy => by
    have hs' : SAsc (L.map (·.1)) := by simpa using List.Pairwise.tail hs
    have hlt : ∀ z ∈ L, a.1 < z.1 := fun z hz => List.rel_of_pairwise_cons hs (List.mem_map_of_mem hz)
    rcases List.mem_cons.mp hx with hxa | hx <;> rcases List.mem_cons.mp hy with hya | hy
    · rw [hxa, hya]
    · have := hlt y hy; rw [hxa] at hxy; omega
    · have := hlt x hx; rw [hya] at hxy; omega
    · exact sasc_fst_inj L hs' x hx y hy hxy

/-- minimality of the first match in an ascending list -/
theorem find?_min {α} (L : List (Nat × α)) (hs : SAsc (L.map (·.1))) (q : Nat × α → Bool) (x : Nat × α)
    (h : L.find? q = some x) : x ∈ L ∧ q x = true ∧ ∀ y ∈ L, q y = true → x.1 ≤ y.1 := by
  obtain ⟨hq, as, bs, rfl, hn⟩ := List.find?_eq_some_iff_append.mp h
  refine ⟨by simp, hq, ?_⟩
  intro y hy hqy
  have hs2 : SAsc (as.map (·.1) ++ x.1 :: bs.map (·.1)) := by simpa using hs
  rcases List.mem_append.mp hy with hy | hy
  · have := hn y hy; simp [hqy] at this
  · rcases List.mem_cons.mp hy with rfl | hy
    · exact Nat.le_refl _
    · have := List.rel_of_pairwise_cons (List.pairwise_append.mp hs2).2.1 (List.mem_map_of_mem hy (f := (·.1)))
      exact Nat.le_of_lt this

theorem sasc_of_append_left {A B : List Nat} (h : SAsc (A ++ B)) : SAsc A := (List.pairwise_append.mp h).1
theorem sasc_of_append_right {A B : List Nat} (h : SAsc (A ++ B)) : SAsc B := (List.pairwise_append.mp h).2.1

theorem mem_filter_map {α} {L : List (Nat × α)} {q : Nat × α → Bool} {u : Nat} :
    u ∈ (L.filter q).map (·.1) ↔ ∃ y ∈ L, q y = true ∧ y.1 = u := by
  simp [List.mem_map, List.mem_filter, and_assoc]

theorem rotFind_sound {α} (L : List (Nat × α)) (hs : SAsc (L.map (·.1))) (q : Nat × α → Bool) (k : Nat)
    (x : Nat × α) (h : (rotAt L k).find? q = some x) :
    x ∈ L ∧ q x = true ∧ IsSucc ((L.filter q).map (·.1)) k x.1 := by
  obtain ⟨pre, post, rfl, h1, h2, hrot⟩ := rot_split L k hs
  have hs2 : SAsc (pre.map (·.1) ++ post.map (·.1)) := by simpa using hs
  rw [hrot, List.find?_append] at h
  cases hp : post.find? q with
  | some x' =>
    rw [hp] at h; simp at h; subst h
    obtain ⟨hm, hq, hmin⟩ := find?_min post (sasc_of_append_right hs2) q x' hp
    refine ⟨by simp [hm], hq, mem_filter_map.mpr ⟨x', by simp [hm], hq, rfl⟩, Or.inl ⟨h2 _ hm, ?_⟩⟩
    intro u hu hku
    obtain ⟨y, hy, hqy, rfl⟩ := mem_filter_map.mp hu
    rcases List.mem_append.mp hy with hy | hy
    · have := h1 y hy; omega
    · exact hmin y hy hqy
  | none =>
    rw [hp] at h; simp at h
    obtain ⟨hm, hq, hmin⟩ := find?_min pre (sasc_of_append_left hs2) q x h
    have hnone := List.find?_eq_none.mp hp
    refine ⟨by simp [hm], hq, mem_filter_map.mpr ⟨x, by simp [hm], hq, rfl⟩, Or.inr ⟨?_, ?_⟩⟩
    · intro u hu
      obtain ⟨y, hy, hqy, rfl⟩ := mem_filter_map.mp hu
      rcases List.mem_append.mp hy with hy | hy
      · exact h1 y hy
      · exact absurd hqy (hnone y hy)
    · intro u hu
      obtain ⟨y, hy, hqy, rfl⟩ := mem_filter_map.mp hu
      rcases List.mem_append.mp hy with hy | hy
      · exact hmin y hy hqy
      · exact absurd hqy (hnone y hy)

theorem rotFind_none {α} (L : List (Nat × α)) (q : Nat × α → Bool) (k : Nat) :
    (rotAt L k).find? q = none ↔ ∀ x ∈ L, q x = false := by
  rw [List.find?_eq_none]
  constructor
  · intro h x hx
    have := h x ((mem_rotAt L k x).mpr hx)
    simpa using this
  · intro h x hx
    have := h x ((mem_rotAt L k x).mp hx)
    simp [this]

/-- **routing**: the walk returns exactly the entry whose token is the first `q`-token after `k`. -/
theorem rotFind_iff {α} (L : List (Nat × α)) (hs : SAsc (L.map (·.1))) (q : Nat × α → Bool) (k : Nat)
    (x : Nat × α) :
    (rotAt L k).find? q = some x ↔ (x ∈ L ∧ q x = true ∧ IsSucc ((L.filter q).map (·.1)) k x.1) := by
  constructor
  · exact rotFind_sound L hs q k x
  · intro ⟨hm, hq, hsucc⟩
    cases hf : (rotAt L k).find? q with
    | none =>
      have := (rotFind_none L q k).mp hf x hm
      rw [hq] at this; cases this
    | some x' =>
      obtain ⟨hm', _, hsucc'⟩ := rotFind_sound L hs q k x' hf
      have := isSucc_unique hsucc' hsucc
      rw [sasc_fst_inj L hs x' hm' x hm this]

end PfC14
