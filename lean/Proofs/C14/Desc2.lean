import Proofs.C14.Desc
/-! C14 proofs: partition-ring corollaries (lookup, ACTIVE-only sub-ring, tiling). -/
namespace PfC14
open C14 Ring

theorem sublist_flatMap {α β} (f : α → List β) : ∀ {l₁ l₂ : List α}, l₁.Sublist l₂ →
    (l₁.flatMap f).Sublist (l₂.flatMap f)
  | _, _, .slnil => by simp
  | _, _, .cons a h => by
    simp only [List.flatMap_cons]
    exact List.Sublist.trans (sublist_flatMap f h) (List.sublist_append_right _ _)
  | _, _, .cons_cons a h => by
    simp only [List.flatMap_cons]
    exact List.Sublist.append (List.Sublist.refl _) (sublist_flatMap f h)

theorem owner_unique {α} (f : α → List Nat) : ∀ (l : List α), (l.flatMap f).Nodup →
    ∀ p ∈ l, ∀ q ∈ l, ∀ t, t ∈ f p → t ∈ f q → p = q
  | [], _, p, hp, _, _, _, _, _ => by simp at hp
  | a :: l, hn, p, hp, q, hq, t, htp, htq => by
    simp only [List.flatMap_cons] at hn
    obtain ⟨_, h2, h3⟩ := List.nodup_append.mp hn
    rcases List.mem_cons.mp hp with hpa | hp'
    · rcases List.mem_cons.mp hq with hqa | hq'
      · rw [hpa, hqa]
      · rw [hpa] at htp
        exact absurd rfl (h3 t htp t (List.mem_flatMap.mpr ⟨q, hq', htq⟩))
    · rcases List.mem_cons.mp hq with hqa | hq'
      · rw [hqa] at htq
        exact absurd rfl (h3 t htq t (List.mem_flatMap.mpr ⟨p, hp', htp⟩))
      · exact owner_unique f l h2 p hp' q hq' t htp htq

/-- on a non-empty strictly ascending ring every key has a successor token. -/
theorem isSucc_exists (T : List Nat) (hs : SAsc T) (hne : T ≠ []) (k : Nat) : ∃ t, IsSucc T k t := by
  obtain ⟨L, hLdef⟩ : ∃ L : List (Nat × Unit), L = T.map fun t => (t, ()) := ⟨_, rfl⟩
  have hL : L.map (·.1) = T := by simp [hLdef, Function.comp_def]
  have hsL : SAsc (L.map (·.1)) := by rw [hL]; exact hs
  cases hf : (rotAt L k).find? (fun _ => true) with
  | none =>
    have hall := (rotFind_none L (fun _ => true) k).mp hf
    cases T with
    | nil => exact absurd rfl hne
    | cons a T' => have := hall (a, ()) (by simp [hLdef]); exact Bool.noConfusion this
  | some x =>
    obtain ⟨_, _, hsucc⟩ := rotFind_sound L hsL _ k x hf
    refine ⟨x.1, ?_⟩
    have : (L.filter fun _ => true).map (·.1) = T := by
      rw [List.filter_eq_self.mpr (fun _ _ => rfl)]; exact hL
    rw [this] at hsucc; exact hsucc

theorem wfp_activeOnly (d : PDesc) (h : WFP d) : WFP d.activeOnly where
  ids := List.Nodup.sublist (List.Sublist.map _ List.filter_sublist) h.ids
  sorted := fun p hp => h.sorted p (List.mem_filter.mp hp).1
  unique := List.Nodup.sublist (sublist_flatMap _ List.filter_sublist) h.unique
  bound := fun p hp => h.bound p (List.mem_filter.mp hp).1

theorem mem_ringTokens_activeOnly (d : PDesc) (u : Nat) : u ∈ d.activeOnly.ringTokens ↔ u ∈ activeTokens d := by
  rw [mem_ringTokens]
  simp [activeTokens, PDesc.activeOnly]

/-- ranges on the ACTIVE-only sub-ring (the documented way to use `GetTokenRangesForPartition` with
partition states) coincide with `ActivePartitionForKey` on the full ring. -/
theorem ranges_activeOnly_lookup (d : PDesc) (h : WFP d) (p : Part) (hp : p ∈ d.parts) (ha : p.isActive = true) :
    ∃ tr, rangesForPartition d.activeOnly p.id = .ok tr ∧
      ∀ k, k ≤ maxU32 → (includesKey tr k = true ↔ activeFor d k = .ok p.id) := by
  have hp' : p ∈ d.activeOnly.parts := List.mem_filter.mpr ⟨hp, ha⟩
  obtain ⟨tr, h1, _, _, h4⟩ := rangesForPartition_exact d.activeOnly (wfp_activeOnly d h) p hp'
  refine ⟨tr, h1, ?_⟩
  intro k hk
  rw [h4 k hk, activeFor_ok_iff d h k p.id]
  constructor
  · rintro ⟨t, ht, hs⟩
    exact ⟨p, hp, rfl, ha, t, ht, (isSucc_congr (mem_ringTokens_activeOnly d) k t).mp hs⟩
  · rintro ⟨q, hq, hid, _, t, ht, hs⟩
    have hqp : q = p := by
      have h1 := find?_id_of_mem d.parts h.ids q hq
      have h2 := find?_id_of_mem d.parts h.ids p hp
      rw [hid] at h1; rw [h1] at h2; exact Option.some.inj h2
    subst hqp
    exact ⟨t, ht, (isSucc_congr (mem_ringTokens_activeOnly d) k t).mpr hs⟩

theorem activeOnly_of_allActive (d : PDesc) (hall : ∀ p ∈ d.parts, p.isActive = true) :
    d.activeOnly.parts = d.parts := by
  simp only [PDesc.activeOnly]
  exact List.filter_eq_self.mpr hall

theorem ringTokens_congr (d d' : PDesc) (h : d.parts = d'.parts) : d.ringTokens = d'.ringTokens := by
  unfold PDesc.ringTokens PDesc.tokenParts; rw [h]

theorem rangesForPartition_congr (d d' : PDesc) (h : d.parts = d'.parts) (pid : Int) :
    rangesForPartition d pid = rangesForPartition d' pid := by
  unfold rangesForPartition PDesc.get?; rw [ringTokens_congr d d' h, h]

/-- all partitions ACTIVE: ranges on the ring itself coincide with the lookup. -/
theorem ranges_lookup_allActive (d : PDesc) (h : WFP d) (hall : ∀ p ∈ d.parts, p.isActive = true)
    (p : Part) (hp : p ∈ d.parts) :
    ∃ tr, rangesForPartition d p.id = .ok tr ∧
      ∀ k, k ≤ maxU32 → (includesKey tr k = true ↔ activeFor d k = .ok p.id) := by
  rw [← rangesForPartition_congr d.activeOnly d (activeOnly_of_allActive d hall)]
  exact ranges_activeOnly_lookup d h p hp (hall p hp)

/-- **tiling**: every key is in the ranges of exactly one partition. -/
theorem partition_tiling (d : PDesc) (h : WFP d) (hne : d.ringTokens ≠ []) (k : Nat) (hk : k ≤ maxU32) :
    ∃ p ∈ d.parts, (∃ tr, rangesForPartition d p.id = .ok tr ∧ includesKey tr k = true) ∧
      ∀ q ∈ d.parts, (∃ tr, rangesForPartition d q.id = .ok tr ∧ includesKey tr k = true) → q = p := by
  obtain ⟨t, hs⟩ := isSucc_exists d.ringTokens (ringTokens_sasc d h) hne k
  obtain ⟨p, hp, htp⟩ := (mem_ringTokens d t).mp hs.1
  refine ⟨p, hp, ?_, ?_⟩
  · obtain ⟨tr, h1, _, _, h4⟩ := rangesForPartition_exact d h p hp
    exact ⟨tr, h1, (h4 k hk).mpr ⟨t, htp, hs⟩⟩
  · rintro q hq ⟨tr, h1, h2⟩
    obtain ⟨tr', h1', _, _, h4⟩ := rangesForPartition_exact d h q hq
    rw [h1] at h1'; cases h1'
    obtain ⟨t', ht', hs'⟩ := (h4 k hk).mp h2
    have := isSucc_unique hs' hs
    subst this
    exact owner_unique (·.tokens) d.parts h.unique q hq p hp t' ht' htp

end PfC14
