import Proofs.C14.Desc2
/-! C14 proofs: instance rings at descriptor level (`rangesForInstanceOld` vs. `lookupInZone`). -/
namespace PfC14
open C14 Ring

/-- well-formed instance ring: unique ids, ascending token lists, one owner per token, 32-bit. -/
structure WFR (d : Desc) : Prop where
  ids : (d.map (·.id)).Nodup
  sorted : ∀ i ∈ d, SAsc i.tokens
  unique : (d.flatMap (·.tokens)).Nodup
  bound : ∀ i ∈ d, ∀ t ∈ i.tokens, t ≤ maxU32

theorem find?_inst_of_mem : ∀ (l : List Inst), (l.map (·.id)).Nodup → ∀ p ∈ l, l.find? (·.id == p.id) = some p
  | [], _, p, hp => by simp at hp
  | a :: l, h, p, hp => by
    have hn := List.nodup_cons.mp (by simpa using h : (a.id :: l.map (·.id)).Nodup)
    rcases List.mem_cons.mp hp with hpa | hp
    · subst hpa; simp
    · have hne : a.id ≠ p.id := fun he => hn.1 (he ▸ List.mem_map_of_mem hp)
      simp only [List.find?_cons]
      have : (a.id == p.id) = false := by simpa using hne
      rw [this]
      exact find?_inst_of_mem l hn.2 p hp

theorem inst_eq_of_id (d : Desc) (h : WFR d) (i j : Inst) (hi : i ∈ d) (hj : j ∈ d) (hid : i.id = j.id) : i = j := by
  have h1 := find?_inst_of_mem d h.ids i hi
  have h2 := find?_inst_of_mem d h.ids j hj
  rw [hid] at h1; rw [h1] at h2; exact Option.some.inj h2

/-- the zone's tokens with the "owned by `id`" flags, as the walk sees them. -/
def zoneFlags (d : Desc) (zone id : String) : List (Nat × Bool) :=
  (zoneTokens d zone).map fun p => (p.1, p.2.id == id)

/-- all tokens registered in `zone`. -/
def zoneToks (d : Desc) (zone : String) : List Nat := (d.filter (·.zone == zone)).flatMap (·.tokens)

theorem zoneFlags_fst (d : Desc) (zone id : String) :
    (zoneFlags d zone id).map (·.1) = (zoneTokens d zone).map (·.1) := by
  simp [zoneFlags, Function.comp_def]

theorem zoneTokens_sasc (d : Desc) (h : WFR d) (zone : String) : SAsc ((zoneTokens d zone).map (·.1)) := by
  unfold zoneTokens; rw [tokenInsts_eq]
  exact sortedPairs_sasc _ _ (List.Nodup.sublist (sublist_flatMap _ List.filter_sublist) h.unique)

theorem mem_zoneTokens (d : Desc) (zone : String) (t : Nat) (i : Inst) :
    (t, i) ∈ zoneTokens d zone ↔ (i ∈ d ∧ (i.zone == zone) = true ∧ t ∈ i.tokens) := by
  unfold zoneTokens; rw [tokenInsts_eq, mem_sortedPairs, List.mem_filter, and_assoc]

theorem mem_zoneTokens_fst (d : Desc) (zone : String) (u : Nat) :
    u ∈ (zoneTokens d zone).map (·.1) ↔ u ∈ zoneToks d zone := by
  simp only [List.mem_map, zoneToks, List.mem_flatMap, List.mem_filter]
  constructor
  · rintro ⟨⟨t, i⟩, hm, rfl⟩
    have := (mem_zoneTokens d zone t i).mp hm
    exact ⟨i, ⟨this.1, this.2.1⟩, this.2.2⟩
  · rintro ⟨i, ⟨h1, h2⟩, h3⟩
    exact ⟨(u, i), (mem_zoneTokens d zone u i).mpr ⟨h1, h2, h3⟩, rfl⟩

theorem mem_filter_zone_fst (d : Desc) (zone : String) (u : Nat) :
    u ∈ ((tokenInsts d).filter (fun p => p.2.zone == zone)).map (·.1) ↔ u ∈ zoneToks d zone := by
  rw [mem_filter_map, tokenInsts_eq]
  simp only [zoneToks, List.mem_flatMap, List.mem_filter]
  constructor
  · rintro ⟨⟨t, i⟩, hm, hz, rfl⟩
    have := (mem_sortedPairs _ _ _ _).mp hm
    exact ⟨i, ⟨this.1, hz⟩, this.2⟩
  · rintro ⟨i, ⟨h1, h2⟩, h3⟩
    exact ⟨(u, i), (mem_sortedPairs _ _ _ _).mpr ⟨h1, h3⟩, h2, rfl⟩

theorem lookupInZone_eq (d : Desc) (zone : String) (k : Nat) :
    lookupInZone d zone k = ((rotAt (tokenInsts d) k).find? (fun p => p.2.zone == zone)).map (·.2.id) := rfl

/-- the zone-restricted lookup returns the owner of the first zone token after the key. -/
theorem lookupInZone_iff (d : Desc) (h : WFR d) (inst : Inst) (hi : inst ∈ d) (k : Nat) :
    lookupInZone d inst.zone k = some inst.id ↔ ∃ t ∈ inst.tokens, IsSucc (zoneToks d inst.zone) k t := by
  have hs : SAsc ((tokenInsts d).map (·.1)) := by rw [tokenInsts_eq]; exact sortedPairs_sasc _ _ h.unique
  rw [lookupInZone_eq]
  constructor
  · intro hh
    cases hf : (rotAt (tokenInsts d) k).find? (fun p => p.2.zone == inst.zone) with
    | none => rw [hf] at hh; cases hh
    | some x =>
      rw [hf] at hh
      have hid : x.2.id = inst.id := by simpa using hh
      obtain ⟨hm, _, hsucc⟩ := (rotFind_iff _ hs _ k x).mp hf
      have hmem := (mem_sortedPairs d (·.tokens) x.1 x.2).mp (by rw [← tokenInsts_eq]; exact hm)
      have hx : x.2 = inst := inst_eq_of_id d h x.2 inst hmem.1 hi hid
      exact ⟨x.1, hx ▸ hmem.2, (isSucc_congr (mem_filter_zone_fst d inst.zone) k x.1).mp hsucc⟩
  · rintro ⟨t, ht, hsucc⟩
    have hm : (t, inst) ∈ tokenInsts d := by rw [tokenInsts_eq]; exact (mem_sortedPairs _ _ _ _).mpr ⟨hi, ht⟩
    have := (rotFind_iff _ hs (fun p => p.2.zone == inst.zone) k (t, inst)).mpr
      ⟨hm, by simp, (isSucc_congr (mem_filter_zone_fst d inst.zone) k t).mpr hsucc⟩
    rw [this]; rfl

/-! ### `ringInstanceByToken` lookups never fail -/

theorem mapM_option_some {α β γ} (f : β → Option γ) (k : α → β) (h : α → γ) : ∀ (L : List α),
    (∀ p ∈ L, f (k p) = some (h p)) → (L.map k).mapM f = some (L.map h)
  | [], _ => rfl
  | a :: L, hL => by
    rw [List.map_cons, List.mapM_cons, hL a (by simp),
      mapM_option_some f k h L (fun p hp => hL p (by simp [hp]))]
    rfl

theorem mapM_option_isSome {β γ} (f : β → Option γ) : ∀ (l : List β), (∀ x ∈ l, (f x).isSome) → (l.mapM f).isSome
  | [], _ => rfl
  | a :: l, hl => by
    rw [List.mapM_cons]
    have ha := hl a (by simp)
    have ih := mapM_option_isSome f l (fun x hx => hl x (by simp [hx]))
    cases hfa : f a with
    | none => rw [hfa] at ha; cases ha
    | some b =>
      cases hm : l.mapM f with
      | none => rw [hm] at ih; cases ih
      | some bs => rfl

/-- a registered token always has an entry (no well-formedness needed) -/
theorem instanceByToken_isSome (d : Desc) (i : Inst) (t : Nat) (hi : i ∈ d) (ht : t ∈ i.tokens) :
    (instanceByToken d t).isSome := by
  unfold instanceByToken
  cases hf : d.find? (fun i => i.tokens.contains t) with
  | some _ => rfl
  | none =>
    have := List.find?_eq_none.mp hf i hi
    simp [ht] at this

/-- … and in a ring where no token is registered twice it is the registering instance -/
theorem instanceByToken_eq (d : Desc) (hn : (d.flatMap (·.tokens)).Nodup) (i : Inst) (t : Nat) (hi : i ∈ d)
    (ht : t ∈ i.tokens) : instanceByToken d t = some i := by
  unfold instanceByToken
  cases hf : d.find? (fun i => i.tokens.contains t) with
  | none =>
    have := List.find?_eq_none.mp hf i hi
    simp [ht] at this
  | some j =>
    have hj : j ∈ d := List.mem_of_find?_eq_some hf
    have hjt : t ∈ j.tokens := by simpa using List.find?_some hf
    rw [owner_unique (·.tokens) d hn j hj i hi t hjt ht]

theorem zoneFlagsOf_eq (d : Desc) (hn : (d.flatMap (·.tokens)).Nodup) (zone id : String) :
    zoneFlagsIdx (instanceByToken d) ((zoneTokens d zone).map (·.1)) id = some (zoneFlags d zone id) := by
  unfold zoneFlagsIdx zoneFlags
  apply mapM_option_some
  intro p hp
  obtain ⟨t, i⟩ := p
  have := (mem_zoneTokens d zone t i).mp hp
  rw [instanceByToken_eq d hn i t this.1 this.2.2]; rfl

/-- **no `ErrInconsistentTokensInfo`**: for EVERY descriptor, configuration and instance id the token lookups
of `GetTokenRangesForInstance` succeed (the zone's token list and `ringInstanceByToken` are built from the
same descriptor). -/
theorem rangesForInstanceWith_consistent (walk : List (Nat × Bool) → List Nat) (d : Desc) (za : Bool) (rf : Nat)
    (id : String) : rangesForInstanceWith walk d za rf id ≠ .error .inconsistent ∧
      rangesForInstanceWith walk d za rf id ≠ .error .panic := by
  unfold rangesForInstanceWith rangesForInstanceIdx
  cases d.get? id with
  | none => simp
  | some inst =>
    simp only
    split
    · simp
    · split
      · simp
      · split
        · simp
        · have hsome : (zoneFlagsIdx (instanceByToken d) ((zoneTokens d inst.zone).map (·.1)) id).isSome := by
            unfold zoneFlagsIdx
            apply mapM_option_isSome
            intro t ht
            obtain ⟨⟨t', i⟩, hp, rfl⟩ := List.mem_map.mp ht
            have := (mem_zoneTokens d inst.zone t' i).mp hp
            have h2 := instanceByToken_isSome d i t' this.1 this.2.2
            cases hb : instanceByToken d t' with
            | none => rw [hb] at h2; cases h2
            | some _ => rfl
          cases hz : zoneFlagsIdx (instanceByToken d) ((zoneTokens d inst.zone).map (·.1)) id with
          | none => rw [hz] at hsome; cases hsome
          | some zt => simp

/-- `GetTokenRangesForInstance` on a well-formed zone-aware ring with `rf = #zones`, for any walk
that is exact on the zone's flag list. -/
theorem rangesForInstanceWith_exact (walk : List (Nat × Bool) → List Nat) (d : Desc) (h : WFR d) (inst : Inst)
    (hi : inst ∈ d) (hz : inst.zone ≠ "") (hne : zoneTokens d inst.zone ≠ [])
    (hwalk : ∀ k, k ≤ maxU32 → (includesKey (walk (zoneFlags d inst.zone inst.id)) k = true ↔
      ∃ t, IsSucc ((zoneFlags d inst.zone inst.id).map (·.1)) k t ∧ (t, true) ∈ zoneFlags d inst.zone inst.id)) :
    ∃ tr, rangesForInstanceWith walk d true (zonesOf d).length inst.id = .ok tr ∧
      ∀ k, k ≤ maxU32 → (includesKey tr k = true ↔ lookupInZone d inst.zone k = some inst.id) := by
  have hget : d.get? inst.id = some inst := find?_inst_of_mem d h.ids inst hi
  have hz' : (inst.zone == "") = false := by simpa using hz
  have hne' : (zoneTokens d inst.zone).isEmpty = false := by
    cases hzt : zoneTokens d inst.zone with
    | nil => exact absurd hzt hne
    | cons _ _ => rfl
  refine ⟨walk (zoneFlags d inst.zone inst.id), ?_, ?_⟩
  · have hne2 : ((zoneTokens d inst.zone).map (·.1)).isEmpty = false := by simpa using hne'
    simp only [rangesForInstanceWith, rangesForInstanceIdx, hget, hz', hne2, zoneFlagsOf_eq d h.unique]
    simp
  · intro k hk
    rw [hwalk k hk, lookupInZone_iff d h inst hi k]
    have hcongr : ∀ u, u ∈ (zoneFlags d inst.zone inst.id).map (·.1) ↔ u ∈ zoneToks d inst.zone := by
      intro u; rw [zoneFlags_fst]; exact mem_zoneTokens_fst d inst.zone u
    constructor
    · rintro ⟨t, hsucc, hm⟩
      obtain ⟨⟨t', i⟩, hm', heq⟩ := List.mem_map.mp hm
      simp only [Prod.mk.injEq, beq_iff_eq] at heq
      obtain ⟨rfl, hid⟩ := heq
      have hmem := (mem_zoneTokens d inst.zone t' i).mp hm'
      have : i = inst := inst_eq_of_id d h i inst hmem.1 hi hid
      subst this
      exact ⟨t', hmem.2.2, (isSucc_congr hcongr k t').mp hsucc⟩
    · rintro ⟨t, ht, hsucc⟩
      refine ⟨t, (isSucc_congr hcongr k t).mpr hsucc, ?_⟩
      exact List.mem_map.mpr ⟨(t, inst), (mem_zoneTokens d inst.zone t inst).mpr ⟨hi, by simp, ht⟩, by simp⟩

theorem zoneFlags_wf (d : Desc) (h : WFR d) (zone id : String) :
    SAsc ((zoneFlags d zone id).map (·.1)) ∧ ∀ p ∈ zoneFlags d zone id, p.1 ≤ maxU32 := by
  refine ⟨by rw [zoneFlags_fst]; exact zoneTokens_sasc d h zone, ?_⟩
  intro p hp
  obtain ⟨⟨t, i⟩, hm, rfl⟩ := List.mem_map.mp hp
  have := (mem_zoneTokens d zone t i).mp hm
  exact h.bound i this.1 t this.2.2

/-- the walk before fix 9068690: exact unless the zone layout is `bad` for the instance. -/
theorem rangesForInstanceOld_exact (d : Desc) (h : WFR d) (inst : Inst) (hi : inst ∈ d) (hz : inst.zone ≠ "")
    (hne : zoneTokens d inst.zone ≠ []) (hbad : bad (zoneFlags d inst.zone inst.id) = false) :
    ∃ tr, rangesForInstanceOld d true (zonesOf d).length inst.id = .ok tr ∧
      ∀ k, k ≤ maxU32 → (includesKey tr k = true ↔ lookupInZone d inst.zone k = some inst.id) := by
  have ⟨hs, hb⟩ := zoneFlags_wf d h inst.zone inst.id
  exact rangesForInstanceWith_exact instRangesOfOld d h inst hi hz hne
    (fun k hk => instOld_exact_of_not_bad _ hs hb hbad k hk)

/-- the code: exact on every well-formed ring. -/
theorem rangesForInstance_exact (d : Desc) (h : WFR d) (inst : Inst) (hi : inst ∈ d) (hz : inst.zone ≠ "")
    (hne : zoneTokens d inst.zone ≠ []) :
    ∃ tr, rangesForInstance d true (zonesOf d).length inst.id = .ok tr ∧
      ∀ k, k ≤ maxU32 → (includesKey tr k = true ↔ lookupInZone d inst.zone k = some inst.id) := by
  have ⟨hs, hb⟩ := zoneFlags_wf d h inst.zone inst.id
  exact rangesForInstanceWith_exact instRangesOf d h inst hi hz hne (fun k hk => inst_exact _ hs hb k hk)

end PfC14
