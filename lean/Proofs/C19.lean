import Model.C19
/-! Helper lemmas and proofs for C19, part 1: version prefixes and the jump hash. -/
namespace PfC19
open Common C19

/-! ## decimal digits and version prefixes -/

def isDig (c : UInt8) : Prop := 48 ≤ c.toNat ∧ c.toNat ≤ 57

theorem ofNat_dig (d : Nat) (h : d < 10) : (UInt8.ofNat (48 + d)).toNat = 48 + d := by
  have : 48 + d < 256 := by omega
  simp [UInt8.toNat_ofNat, Nat.mod_eq_of_lt this]

theorem digits_isDig (n : Nat) : ∀ c ∈ digits n, isDig c := by
  induction n using Nat.strongRecOn with
  | _ n ih =>
    intro c hc
    rw [digits] at hc
    split at hc
    · rename_i h
      simp only [List.mem_singleton] at hc
      subst hc
      have := ofNat_dig n h
      unfold isDig; omega
    · rename_i h
      rcases List.mem_append.mp hc with h1 | h1
      · exact ih (n / 10) (by omega) c h1
      · simp only [List.mem_singleton] at h1
        subst h1
        have := ofNat_dig (n % 10) (Nat.mod_lt _ (by decide))
        unfold isDig; omega

theorem digits_no_at (n : Nat) : atSign ∉ digits n := by
  intro h
  have := digits_isDig n _ h
  unfold isDig atSign at this
  simp at this

theorem digits_ne_nil (n : Nat) : digits n ≠ [] := by
  rw [digits]; split <;> simp

/-- value of a digit string -/
def dval (l : Bytes) : Nat := l.foldl (fun a c => a * 10 + (c.toNat - 48)) 0

theorem dval_digits (n : Nat) : dval (digits n) = n := by
  induction n using Nat.strongRecOn with
  | _ n ih =>
    rw [digits]
    split
    · rename_i h
      have := ofNat_dig n h
      simp only [dval, List.foldl_cons, List.foldl_nil, this]
      omega
    · rename_i h
      have h1 := ih (n / 10) (by omega)
      unfold dval at h1 ⊢
      rw [List.foldl_append, h1]
      have := ofNat_dig (n % 10) (Nat.mod_lt _ (by decide))
      simp only [List.foldl_cons, List.foldl_nil, this]
      omega

theorem digits_inj {a b : Nat} (h : digits a = digits b) : a = b := by
  have := congrArg dval h
  rwa [dval_digits, dval_digits] at this

theorem split_at_first {α} [DecidableEq α] (x : α) :
    ∀ (l1 l2 r1 r2 : List α), x ∉ l1 → x ∉ l2 → l1 ++ x :: r1 = l2 ++ x :: r2 → l1 = l2 ∧ r1 = r2
  | [], [], _, _, _, _, h => by simpa using h
  | [], b :: l2, _, _, _, h2, h => by
    simp only [List.nil_append, List.cons_append, List.cons.injEq] at h
    exact absurd (h.1 ▸ List.mem_cons_self) h2
  | a :: l1, [], _, _, h1, _, h => by
    simp only [List.nil_append, List.cons_append, List.cons.injEq] at h
    exact absurd (h.1 ▸ List.mem_cons_self) h1
  | a :: l1, b :: l2, r1, r2, h1, h2, h => by
    simp only [List.cons_append, List.cons.injEq] at h
    have := split_at_first x l1 l2 r1 r2 (fun m => h1 (List.mem_cons_of_mem _ m)) (fun m => h2 (List.mem_cons_of_mem _ m)) h.2
    exact ⟨by rw [h.1, this.1], this.2⟩

theorem addVersion_inj {v v' : Nat} {k k' : Key} (h : addVersion v k = addVersion v' k') : v = v' ∧ k = k' := by
  unfold addVersion versionPrefix at h
  simp only [List.append_assoc, List.singleton_append] at h
  have := split_at_first atSign _ _ _ _ (digits_no_at v) (digits_no_at v') h
  exact ⟨digits_inj this.1, this.2⟩

theorem trimPrefix_append (p s : Bytes) : trimPrefix p (p ++ s) = some s := by
  induction p with
  | nil => cases s <;> rfl
  | cons a p ih => simp [trimPrefix, ih]

theorem removeVersion_addVersion (v : Nat) (k : Key) : removeVersion v (addVersion v k) = k := by
  simp [removeVersion, addVersion, trimPrefix_append]

/-- a key that does not start with the prefix is left alone by `removeVersion` (TrimPrefix). -/
theorem trimPrefix_some {p s r : Bytes} (h : trimPrefix p s = some r) : s = p ++ r := by
  induction p generalizing s with
  | nil => cases s <;> simp_all [trimPrefix]
  | cons a p ih =>
    cases s with
    | nil => simp [trimPrefix] at h
    | cons c cs =>
      simp only [trimPrefix] at h
      split at h
      · rename_i hc; subst hc; simp [ih h]
      · simp at h

/-! ## jump hash -/

section jump
variable (next : UInt64 → Int → Int) (hnext : ∀ k b, b < next k b)
include hnext

theorem loop_range (n : Int) : ∀ (fuel : Nat) (key : UInt64) (b j : Int),
    b < j → n - j ≤ fuel → b < n →
    b ≤ jumpLoop next n fuel key b j ∧ jumpLoop next n fuel key b j < n := by
  intro fuel
  induction fuel with
  | zero => intro key b j _ hf hb; simp only [jumpLoop]; omega
  | succ f ih =>
    intro key b j hbj hf hb
    simp only [jumpLoop]
    split
    · rename_i hj
      have h1 := hnext (lcg key) j
      have := ih (lcg key) j (next (lcg key) j) h1 (by omega) hj
      omega
    · omega

omit hnext in
/-- once `j ≥ n` the loop returns `b` whatever the fuel. -/
theorem loop_done (n : Int) (fuel : Nat) (key : UInt64) (b j : Int) (h : n ≤ j) :
    jumpLoop next n fuel key b j = b := by
  cases fuel with
  | zero => rfl
  | succ f => simp only [jumpLoop]; rw [if_neg (by omega)]

theorem loop_consistent (n : Int) : ∀ (f1 f2 : Nat) (key : UInt64) (b j : Int),
    b < j → n - j ≤ f1 → n + 1 - j ≤ f2 → b < n →
    jumpLoop next (n + 1) f2 key b j = jumpLoop next n f1 key b j ∨ jumpLoop next (n + 1) f2 key b j = n := by
  intro f1
  induction f1 with
  | zero =>
    intro f2 key b j hbj h1 h2 hb
    -- j ≥ n
    have hj : n ≤ j := by omega
    rw [loop_done next n 0 key b j hj]
    by_cases he : j = n
    · subst he
      cases f2 with
      | zero => omega
      | succ f =>
        right
        simp only [jumpLoop]
        rw [if_pos (by omega)]
        exact loop_done next (j + 1) f _ j _ (by have := hnext (lcg key) j; omega)
    · left; exact loop_done next (n + 1) f2 key b j (by omega)
  | succ f ih =>
    intro f2 key b j hbj h1 h2 hb
    by_cases hj : j < n
    · cases f2 with
      | zero => omega
      | succ g =>
        simp only [jumpLoop]
        rw [if_pos (by omega), if_pos hj]
        have hn := hnext (lcg key) j
        exact ih g (lcg key) j (next (lcg key) j) hn (by omega) (by omega) hj
    · have hj' : n ≤ j := by omega
      rw [loop_done next n (f + 1) key b j hj']
      by_cases he : j = n
      · subst he
        cases f2 with
        | zero => omega
        | succ g =>
          right
          simp only [jumpLoop]
          rw [if_pos (by omega)]
          exact loop_done next (j + 1) g _ j _ (by have := hnext (lcg key) j; omega)
      · left; exact loop_done next (n + 1) f2 key b j (by omega)

theorem jump_range (key : UInt64) (n : Nat) (hn : 1 ≤ n) :
    0 ≤ jump next key n ∧ jump next key n < n := by
  unfold jump
  cases n with
  | zero => omega
  | succ m =>
    simp only [jumpLoop]
    rw [if_pos (by omega)]
    have := loop_range next hnext ((m + 1 : Nat) : Int) m (lcg key) 0 (next (lcg key) 0) (hnext _ _)
      (by have := hnext (lcg key) 0; omega) (by omega)
    omega

theorem jump_consistent (key : UInt64) (n : Nat) (hn : 1 ≤ n) :
    jump next key (n + 1) = jump next key n ∨ jump next key (n + 1) = n := by
  unfold jump
  have := loop_consistent next hnext (n : Int) n (n + 1) key (-1) 0 (by omega) (by omega) (by omega) (by omega)
  simpa using this

theorem jump_one (key : UInt64) : jump next key 1 = 0 := by
  have := jump_range next hnext key 1 (by omega)
  omega

theorem pick_mem {α} (servers : List α) (hash : UInt64) (hne : servers ≠ []) :
    ∃ a ∈ servers, pick next servers hash = some a := by
  match servers, hne with
  | [a], _ => exact ⟨a, by simp, rfl⟩
  | a :: b :: r, _ =>
    have hr := jump_range next hnext hash (a :: b :: r).length (by simp)
    have hlt : (jump next hash (a :: b :: r).length).toNat < (a :: b :: r).length := by omega
    refine ⟨(a :: b :: r)[(jump next hash (a :: b :: r).length).toNat], List.getElem_mem _, ?_⟩
    simp only [pick]
    exact List.getElem?_eq_getElem hlt

theorem pick_stable {α} (servers : List α) (s : α) (hash : UInt64) (hne : servers ≠ []) :
    pick next (servers ++ [s]) hash = pick next servers hash ∨ pick next (servers ++ [s]) hash = some s := by
  match servers, hne with
  | [a], _ =>
    have h2 : jump next hash 2 = jump next hash 1 ∨ jump next hash 2 = 1 :=
      jump_consistent next hnext hash 1 (by omega)
    have h1 := jump_one next hnext hash
    have e : pick next ([a] ++ [s]) hash = [a, s][(jump next hash 2).toNat]? := rfl
    rw [e]
    rcases h2 with h | h
    · left; rw [h, h1]; rfl
    · right; rw [h]; rfl
  | a :: b :: r, _ =>
    have hc := jump_consistent next hnext hash (a :: b :: r).length (by simp)
    have hr := jump_range next hnext hash (a :: b :: r).length (by simp)
    have e1 : pick next ((a :: b :: r) ++ [s]) hash =
        ((a :: b :: r) ++ [s])[(jump next hash ((a :: b :: r) ++ [s]).length).toNat]? := by
      simp [pick]
    have e2 : pick next (a :: b :: r) hash = (a :: b :: r)[(jump next hash (a :: b :: r).length).toNat]? := by
      simp [pick]
    rw [e1, e2]
    have hl : ((a :: b :: r) ++ [s]).length = (a :: b :: r).length + 1 := by simp
    rw [hl]
    rcases hc with h | h
    · left
      rw [h]
      exact List.getElem?_append_left (by omega)
    · right
      rw [h, Int.toNat_natCast]
      exact List.getElem?_concat_length
end jump

end PfC19
