import Proofs.C14.Desc3
import Proofs.C14.Bad
import Proofs.C14.Get
import Proofs.C14.Total
import Proofs.C14.Get2
import Proofs.C14.Headline
import Proofs.C14.Checked
/-! C14 proofs: zone tiling, the sentinel witness, non-vacuity data. (Parts: `Proofs/C14/*.lean`.) -/
namespace PfC14
open C14 Ring

instance (T : List Nat) (k t : Nat) : Decidable (IsSucc T k t) := by unfold IsSucc; exact inferInstance

/-- per-owner "mine" flags of a zone's `(token, owner)` list -/
def flagsFor (zt : List (Nat × String)) (o : String) : List (Nat × Bool) := zt.map fun p => (p.1, p.2 == o)

theorem flagsFor_fst (zt : List (Nat × String)) (o : String) : (flagsFor zt o).map (·.1) = zt.map (·.1) := by
  simp [flagsFor, Function.comp_def]

/-- the ranges of the instances of one zone tile the key space. -/
theorem zone_tiling_cur (zt : List (Nat × String)) (hs : SAsc (zt.map (·.1))) (hb : ∀ p ∈ zt, p.1 ≤ maxU32)
    (hne : zt ≠ []) (k : Nat) (hk : k ≤ maxU32) :
    ∃ o, includesKey (instRangesOf (flagsFor zt o)) k = true ∧
      ∀ o', includesKey (instRangesOf (flagsFor zt o')) k = true → o' = o := by
  have hex := fun o => inst_exact (flagsFor zt o) (by rw [flagsFor_fst]; exact hs)
    (by intro p hp; obtain ⟨q, hq, rfl⟩ := List.mem_map.mp hp; exact hb q hq) k hk
  obtain ⟨t, hsucc⟩ := isSucc_exists (zt.map (·.1)) hs (by simpa using hne) k
  obtain ⟨⟨t', o⟩, hm, ht⟩ := List.mem_map.mp hsucc.1
  simp only at ht; subst ht
  refine ⟨o, (hex o).mpr ⟨t', by rw [flagsFor_fst]; exact hsucc, List.mem_map.mpr ⟨(t', o), hm, by simp⟩⟩, ?_⟩
  intro o' ho'
  obtain ⟨t'', hs'', hm''⟩ := (hex o').mp ho'
  rw [flagsFor_fst] at hs''
  have := isSucc_unique hs'' hsucc
  subst this
  obtain ⟨⟨t3, o3⟩, hm3, heq⟩ := List.mem_map.mp hm''
  simp only [Prod.mk.injEq, beq_iff_eq] at heq
  obtain ⟨rfl, rfl⟩ := heq
  have := sasc_fst_inj zt hs (t3, o3) hm3 (t3, o) hm rfl
  simpa using this

/-- pre-fix walk: the same, provided no instance of the zone has a `bad` layout. -/
theorem zone_tilingOld_of_not_bad (zt : List (Nat × String)) (hs : SAsc (zt.map (·.1))) (hb : ∀ p ∈ zt, p.1 ≤ maxU32)
    (hne : zt ≠ []) (hbad : ∀ o, bad (flagsFor zt o) = false) (k : Nat) (hk : k ≤ maxU32) :
    ∃ o, includesKey (instRangesOfOld (flagsFor zt o)) k = true ∧
      ∀ o', includesKey (instRangesOfOld (flagsFor zt o')) k = true → o' = o := by
  have heq := fun o => instRangesOfOld_eq (flagsFor zt o) (by rw [flagsFor_fst]; exact hs) (hbad o)
  obtain ⟨o, h1, h2⟩ := zone_tiling_cur zt hs hb hne k hk
  refine ⟨o, by rw [heq]; exact h1, ?_⟩
  intro o' ho'; rw [heq] at ho'; exact h2 o' ho'

/-! ### the sentinel witness (defect D1) -/

/-- zone tokens `{0:B, 1:A, 100:B}`, one zone, replication factor 1 -/
def dWitness : Desc :=
  [{ id := "A", zone := "z", tokens := [1] }, { id := "B", zone := "z", tokens := [0, 100] }]

def instA : Inst := { id := "A", zone := "z", tokens := [1] }
def instB : Inst := { id := "B", zone := "z", tokens := [0, 100] }

theorem witness_tokenInsts : tokenInsts dWitness = [(0, instB), (1, instA), (100, instB)] := by
  simp [tokenInsts, dWitness, instA, instB, List.mergeSort, List.MergeSort.Internal.splitInTwo]

theorem witness_zoneTokens : zoneTokens dWitness "z" = [(0, instB), (1, instA), (100, instB)] := by
  simp [zoneTokens, tokenInsts, dWitness, instA, instB, List.mergeSort, List.MergeSort.Internal.splitInTwo]

theorem witness_lookup : lookupInZone dWitness "z" 0 = some "A" := by
  rw [lookupInZone, witness_tokenInsts]; decide

theorem witness_ranges : rangesForInstanceOld dWitness true 1 "A" = .ok [] := by
  have h1 : dWitness.get? "A" = some instA := by decide
  have h2 : (zonesOf dWitness).length = 1 := by decide
  have hz : instA.zone = "z" := rfl
  simp only [rangesForInstanceOld, rangesForInstanceWith, rangesForInstanceIdx, h1, h2, hz, witness_zoneTokens]
  decide

theorem witness_ranges_B : rangesForInstanceOld dWitness true 1 "B" = .ok [1, 4294967295] := by
  have h1 : dWitness.get? "B" = some instB := by decide
  have h2 : (zonesOf dWitness).length = 1 := by decide
  have hz : instB.zone = "z" := rfl
  simp only [rangesForInstanceOld, rangesForInstanceWith, rangesForInstanceIdx, h1, h2, hz, witness_zoneTokens]
  decide

theorem witness_ranges_new : rangesForInstance dWitness true 1 "A" = .ok [0, 0] := by
  have h1 : dWitness.get? "A" = some instA := by decide
  have h2 : (zonesOf dWitness).length = 1 := by decide
  have hz : instA.zone = "z" := rfl
  simp only [rangesForInstance, rangesForInstanceWith, rangesForInstanceIdx, h1, h2, hz, witness_zoneTokens]
  decide

theorem witness_wf : WFR dWitness := ⟨by decide, by decide, by decide, by decide⟩

/-! ### divergence witness: a LEAVING range owner under `Write` -/

def divA : Inst := { id := "A", zone := "a", state := .LEAVING, tokens := [10] }
def divB : Inst := { id := "B", zone := "a", tokens := [20] }
def divC : Inst := { id := "C", zone := "b", tokens := [15] }
/-- zone a: tokens 10 (A, LEAVING) and 20 (B); zone b: token 15 (C) -/
def dDiverge : Desc := [divA, divB, divC]
def cfgDiverge : C01.Cfg := { rf := 2, zoneAware := true }

theorem diverge_zoneTokens : zoneTokens dDiverge "a" = [(10, divA), (20, divB)] := by
  simp [zoneTokens, tokenInsts, dDiverge, divA, divB, divC, List.mergeSort, List.MergeSort.Internal.splitInTwo]

theorem diverge_ranges_A : rangesForInstance dDiverge true 2 "A" = .ok [0, 9, 20, 4294967295] := by
  have h1 : dDiverge.get? "A" = some divA := by decide
  have h2 : (zonesOf dDiverge).length = 2 := by decide
  have hz : divA.zone = "a" := rfl
  simp only [rangesForInstance, rangesForInstanceWith, rangesForInstanceIdx, h1, h2, hz, diverge_zoneTokens]
  decide

theorem diverge_ranges_B : rangesForInstance dDiverge true 2 "B" = .ok [10, 19] := by
  have h1 : dDiverge.get? "B" = some divB := by decide
  have h2 : (zonesOf dDiverge).length = 2 := by decide
  have hz : divB.zone = "a" := rfl
  simp only [rangesForInstance, rangesForInstanceWith, rangesForInstanceIdx, h1, h2, hz, diverge_zoneTokens]
  decide

theorem diverge_get : (C01.specWalked cfgDiverge C01.opWrite dDiverge 5).map (·.id) = ["A", "C", "B"] ∧
    (C01.specGet cfgDiverge C01.opWrite dDiverge 5 0).ok = true ∧
    (C01.specGet cfgDiverge C01.opWrite dDiverge 5 0).instances.map (·.id) = ["C", "B"] := by decide

end PfC14
