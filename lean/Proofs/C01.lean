import Proofs.C01.Sort
import Proofs.C01.Owners
import Proofs.C01.Walk
import Proofs.C01.WalkSpec
import Proofs.C01.Get
import Proofs.C01.Local
/-! Helper lemmas and proofs for C01 (see the sub-modules); here: the pieces that mention `getTokens`. -/
namespace PfC01
open Common Ring C01

/-- `get_eq_spec` for the token circle the ring really builds (`GetTokens` under map order `order`),
under the guard that the loser-tree merge did not lose a token. -/
theorem get_eq_spec_guarded (cfg : Cfg) (d order : Desc) (key : Nat) (op : Op) (now : Int) (hwf : WFRing d)
    (hrf : 1 ≤ cfg.rf) (hmerge : getTokens order = sortedTokens d) :
    ((specGet cfg op d key now).ok = true →
      C01.get cfg d (getTokens order) key op now
        = .ok { instances := (specGet cfg op d key now).instances, maxErrors := (specGet cfg op d key now).maxErrors }) ∧
    ((specGet cfg op d key now).ok = false →
      C01.get cfg d (getTokens order) key op now = .error .emptyRing ∨
      C01.get cfg d (getTokens order) key op now = .error .tooManyUnhealthy) := by
  rw [hmerge]; exact get_eq_spec cfg d key op now hwf hrf

end PfC01
