import Proofs.C01.Sort
import Proofs.C01.Owners
import Proofs.C01.Walk
import Proofs.C01.WalkSpec
import Proofs.C01.Get
import Proofs.C01.Local
import Proofs.C01.Facts
import Proofs.C01.LoserBasic
import Proofs.C01.LoserValid
import Proofs.C01.LoserReplay
import Proofs.C01.LoserInit
import Proofs.C01.LoserNext
import Proofs.C01.LoserDrain
import Proofs.C01.LoserMerge
/-! Helper lemmas and proofs for C01 (see the sub-modules); here: the token circle the ring really
builds (`GetTokens` under any map iteration order) is the sorted token list, and the full-strength
versions of `get_eq_spec` and the locality theorems. -/
set_option linter.unusedSimpArgs false
namespace PfC01
open Common Ring C01

theorem flatten_map_sort_perm (order : Desc) :
    (order.map fun i => sortNat i.tokens).flatten.Perm (order.flatMap (·.tokens)) := by
  induction order with
  | nil => exact List.Perm.refl _
  | cons i order ih =>
    simp only [List.map_cons, List.flatten_cons, List.flatMap_cons]
    exact List.Perm.append (sortNat_perm _) ih

theorem flatMap_perm {order d : Desc} (h : order.Perm d) :
    (order.flatMap (·.tokens)).Perm (d.flatMap (·.tokens)) := by
  induction h with
  | nil => exact List.Perm.refl _
  | cons x _ ih => simp only [List.flatMap_cons]; exact List.Perm.append_left _ ih
  | swap x y l =>
    simp only [List.flatMap_cons]
    rw [← List.append_assoc, ← List.append_assoc]
    exact List.Perm.append_right _ List.perm_append_comm
  | trans _ _ ih1 ih2 => exact ih1.trans ih2

/-- `Desc.GetTokens()` returns the ascending list of all tokens, whatever order Go iterates the map in. -/
theorem getTokens_eq_sorted (d order : Desc) (hperm : order.Perm d) (hu : TokensU32 d) :
    getTokens order = sortedTokens d := by
  unfold getTokens
  rw [loserMerge_spec]
  · unfold sortedTokens
    apply sorted_perm_eq _ _ (sortNat_sorted _) (sortNat_sorted _)
    exact (sortNat_perm _).trans ((flatten_map_sort_perm order).trans ((flatMap_perm hperm).trans (sortNat_perm _).symm))
  · intro l hl
    rcases List.mem_map.mp hl with ⟨i, _, rfl⟩
    exact sortNat_sorted _
  · intro l hl x hx
    rcases List.mem_map.mp hl with ⟨i, hi, rfl⟩
    exact hu i (hperm.subset hi) x ((sortNat_perm _).subset hx)

theorem tokensU32_filter (r : Inst → Bool) (d : Desc) (h : TokensU32 d) : TokensU32 (d.filter r) :=
  fun i hi => h i (List.mem_filter.mp hi).1

/-- `get_eq_spec`, full strength: for every map iteration order. -/
theorem get_eq_spec_full (cfg : Cfg) (d order : Desc) (key : Nat) (op : Op) (now : Int) (hwf : WFRing d)
    (hu : TokensU32 d) (hrf : 1 ≤ cfg.rf) (hperm : order.Perm d) :
    ((specGet cfg op d key now).ok = true →
      C01.get cfg d (getTokens order) key op now
        = .ok { instances := (specGet cfg op d key now).instances, maxErrors := (specGet cfg op d key now).maxErrors }) ∧
    ((specGet cfg op d key now).ok = false →
      C01.get cfg d (getTokens order) key op now = .error .emptyRing ∨
      C01.get cfg d (getTokens order) key op now = .error .tooManyUnhealthy) := by
  rw [getTokens_eq_sorted d order hperm hu]; exact get_eq_spec cfg d key op now hwf hrf

/-- full strength incl. the error kind: `ErrEmptyRing` exactly for a ring without tokens -/
theorem get_fail_kind_full (cfg : Cfg) (d order : Desc) (key : Nat) (op : Op) (now : Int) (hwf : WFRing d)
    (hu : TokensU32 d) (hrf : 1 ≤ cfg.rf) (hperm : order.Perm d) (hok : (specGet cfg op d key now).ok = false) :
    C01.get cfg d (getTokens order) key op now
      = .error (if sortedTokens d = [] then .emptyRing else .tooManyUnhealthy) := by
  rw [getTokens_eq_sorted d order hperm hu]; exact get_fail_kind cfg d key op now hwf hrf hok

theorem get_emptyRing_iff_full (cfg : Cfg) (d order : Desc) (key : Nat) (op : Op) (now : Int) (hwf : WFRing d)
    (hu : TokensU32 d) (hrf : 1 ≤ cfg.rf) (hperm : order.Perm d) :
    C01.get cfg d (getTokens order) key op now = .error .emptyRing ↔ sortedTokens d = [] := by
  rw [getTokens_eq_sorted d order hperm hu]; exact get_emptyRing_iff cfg d key op now hwf hrf

theorem lookup_local_remove_full (cfg : Cfg) (d order order' : Desc) (key : Nat) (op : Op) (now : Int) (xid : String)
    (hwf : WFRing d) (hu : TokensU32 d) (hrf : 1 ≤ cfg.rf) (hperm : order.Perm d)
    (hperm' : order'.Perm (d.filter (keepNot xid))) (hx : ∀ y ∈ specWalked cfg op d key, y.id ≠ xid) :
    (C01.get cfg (d.filter (keepNot xid)) (getTokens order') key op now).toOption
      = (C01.get cfg d (getTokens order) key op now).toOption := by
  rw [getTokens_eq_sorted d order hperm hu,
    getTokens_eq_sorted (d.filter (keepNot xid)) order' hperm' (tokensU32_filter _ d hu)]
  exact lookup_local_remove cfg d key op now xid hwf hrf hx

theorem lookup_local_add_full (cfg : Cfg) (d₁ d₂ order order' : Desc) (x : Inst) (key : Nat) (op : Op) (now : Int)
    (hwf : WFRing (d₁ ++ x :: d₂)) (hu : TokensU32 (d₁ ++ x :: d₂)) (hrf : 1 ≤ cfg.rf)
    (hperm : order.Perm (d₁ ++ x :: d₂)) (hperm' : order'.Perm (d₁ ++ d₂))
    (hx : ∀ y ∈ specWalked cfg op (d₁ ++ x :: d₂) key, y.id ≠ x.id) :
    (C01.get cfg (d₁ ++ x :: d₂) (getTokens order) key op now).toOption
      = (C01.get cfg (d₁ ++ d₂) (getTokens order') key op now).toOption := by
  have hu' : TokensU32 (d₁ ++ d₂) := by
    intro i hi
    apply hu i
    rcases List.mem_append.mp hi with h | h
    · exact List.mem_append.mpr (Or.inl h)
    · exact List.mem_append.mpr (Or.inr (List.mem_cons_of_mem _ h))
  rw [getTokens_eq_sorted _ order hperm hu, getTokens_eq_sorted _ order' hperm' hu']
  exact lookup_local_add cfg d₁ d₂ x key op now hwf hrf hx

end PfC01
