import Proofs.C06
/-! # C06 — key-level `Delete`, the `Deleted` flag on the receive paths, `cleanupObsoleteEntries`, re-creation

Generic in the replicated value (`MergeVal V`), for ANY store (no `GoodStore` needed, deleted keys included)
and any retention unless stated. These are statements about `C06.delete`, `C06.deliver`, `C06.cleanupObsolete`,
`C06.cas` — the functions the delete / cleanup / re-create correspondence streams diff against the code. -/
namespace PfC06
open C06 MergeVal

variable {V : Type} [MergeVal V]

/-- the predicate `cleanupObsoleteEntries` removes by -/
def Obsolete (cfg : Cfg) (nowMs : Int) (e : Entry V) : Prop := e.deleted = true ∧ nowMs - e.updateTime > cfg.obs

/-! ## the `Deleted` flag on the receive paths -/

theorem deliver_deleted_absent (cfg : Cfg) (now : Int) (nd : Node V) (m : Msg V)
    (hk : getE nd.store m.key = none) (hd : m.deleted = true) : deliver cfg now nd m = nd := by
  simp only [deliver, mergeValueForKey, hk, hd, if_true]
  rfl

theorem notifyMsg_deleted_absent (cfg : Cfg) (now : Int) (nd : Node V) (m : Msg V)
    (hk : getE nd.store m.key = none) (hd : m.deleted = true) : notifyMsg cfg now nd m = nd := by
  unfold notifyMsg
  split
  · rfl
  · exact deliver_deleted_absent cfg now nd m hk hd

/-- a pair carrying the `Deleted` flag with a newer update time reaches a node holding the key live (retention off):
the pair's value is merged, the key is marked deleted with the SENDER's update time, the version is bumped and the
deletion is gossiped on -/
theorem deliver_deleted_marks (cfg : Cfg) (hcfg : cfg.lit = 0) (now : Int) (nd : Node V) (m : Msg V) (c : Entry V)
    (res : V) (ch : Option V) (hk : getE nd.store m.key = some c) (hc : c.deleted = false) (hd : m.deleted = true)
    (hm : merge false now c.val m.val = some (res, ch))
    (hnz : m.updateTime ≠ 0) (hnew : c.updateTime = 0 ∨ m.updateTime > c.updateTime) :
    getE (deliver cfg now nd m).store m.key
        = some { val := res, version := c.version + 1, deleted := true, updateTime := m.updateTime } ∧
    ∃ b ∈ (deliver cfg now nd m).gossipQ,
        b.key = m.key ∧ b.deleted = true ∧ b.version = c.version + 1 ∧ b.updateTime = m.updateTime := by
  have hlim : cfg.limit now = none := by simp [Cfg.limit, hcfg]
  have hnewer : (decide (m.updateTime ≠ 0) && (decide (c.updateTime = 0) || decide (m.updateTime > c.updateTime)) && true) = true := by
    rcases hnew with h | h <;> simp [hnz, h]
  simp only [deliver, hk, hc, hd, mergeValueForKey, hlim, hm, hnewer]
  simp [broadcast, notify, notifySync, enqueue]
  split <;> simp [getE_setE]

theorem deliver_store (cfg : Cfg) (now : Int) (nd : Node V) (m : Msg V) :
    (deliver cfg now nd m).store = nd.store ∨
    (deliver cfg now nd m).store
      = (mergeValueForKey (cfg.limit now) now nd.store m.key m.val false 0 m.deleted m.updateTime).store := by
  simp only [deliver]
  generalize mergeValueForKey (cfg.limit now) now nd.store m.key m.val false 0 m.deleted m.updateTime = r
  by_cases he : r.err = true
  · rw [if_pos he]; exact Or.inl rfl
  · rw [if_neg he]
    refine Or.inr ?_
    cases r.out with
    | none => rfl
    | some o =>
      simp only [broadcast, notify, notifySync]
      repeat' split
      all_goals rfl

/-- `mergeValueForKey` with a deletion that is not newer: the key-level flag and update time stay -/
theorem mvk_stale_flag (limit : Option Int) (now : Int) (st : Store V) (key : String) (inc : V) (cas : Bool) (cv : Nat)
    (del : Bool) (ut : Int) (c : Entry V) (hk : getE st key = some c)
    (hnewer : (decide (ut ≠ 0) && (decide (c.updateTime = 0) || decide (ut > c.updateTime)) && del) = false) :
    ∃ e, getE (mergeValueForKey limit now st key inc cas cv del ut).store key = some e ∧
      e.deleted = c.deleted ∧ e.updateTime = c.updateTime := by
  simp only [mergeValueForKey, hk, hnewer]
  repeat' split
  all_goals first
    | contradiction
    | exact ⟨c, hk, rfl, rfl⟩
    | (refine ⟨_, by rw [getE_setE, if_pos rfl], ?_, ?_⟩ <;> first | rfl | simp)

/-- an older (or unstamped) deletion does not mark a live key: `deleted` and `updateTime` stay -/
theorem deliver_stale_delete_keeps_flag (cfg : Cfg) (now : Int) (nd : Node V) (m : Msg V) (c : Entry V)
    (hk : getE nd.store m.key = some c)
    (hold : m.deleted = false ∨ m.updateTime = 0 ∨ (c.updateTime ≠ 0 ∧ m.updateTime ≤ c.updateTime)) :
    ∃ e, getE (deliver cfg now nd m).store m.key = some e ∧ e.deleted = c.deleted ∧ e.updateTime = c.updateTime := by
  have hnewer : (decide (m.updateTime ≠ 0) && (decide (c.updateTime = 0) || decide (m.updateTime > c.updateTime)) && m.deleted) = false := by
    rcases hold with h | h | ⟨h1, h2⟩
    · simp [h]
    · simp [h]
    · have : ¬ (m.updateTime > c.updateTime) := by omega
      simp [h1, this]
  rcases deliver_store cfg now nd m with h | h
  · rw [h]; exact ⟨c, hk, rfl, rfl⟩
  · rw [h]; exact mvk_stale_flag _ now nd.store m.key m.val false 0 m.deleted m.updateTime c hk hnewer

/-! ## `Delete` -/

theorem delete_absent (cfg : Cfg) (now nowMs : Int) (nd : Node V) (key : String) (hk : getE nd.store key = none) :
    delete cfg now nowMs nd key = nd := by
  simp only [delete, hk]

theorem delete_idem (cfg : Cfg) (now nowMs : Int) (nd : Node V) (key : String) (e : Entry V)
    (hk : getE nd.store key = some e) (hd : e.deleted = true) : delete cfg now nowMs nd key = nd := by
  simp only [delete, hk, hd, if_true]

/-- `Delete` of a live key (retention off): the entry is re-merged with itself, marked deleted, stamped with the
call's time, its version bumped, and a broadcast carrying the `Deleted` flag is queued for gossip -/
theorem delete_marks (cfg : Cfg) (hcfg : cfg.lit = 0) (now nowMs : Int) (nd : Node V) (key : String) (e : Entry V)
    (res : V) (ch : Option V) (hk : getE nd.store key = some e) (hd : e.deleted = false)
    (hm : merge false now e.val e.val = some (res, ch))
    (hnz : nowMs ≠ 0) (hnew : e.updateTime = 0 ∨ nowMs > e.updateTime) :
    getE (delete cfg now nowMs nd key).store key
        = some { val := res, version := e.version + 1, deleted := true, updateTime := nowMs } ∧
    ∃ b ∈ (delete cfg now nowMs nd key).gossipQ,
        b.key = key ∧ b.deleted = true ∧ b.version = e.version + 1 ∧ b.updateTime = nowMs := by
  have hlim : cfg.limit now = none := by simp [Cfg.limit, hcfg]
  have hnewer : (decide (nowMs ≠ 0) && (decide (e.updateTime = 0) || decide (nowMs > e.updateTime)) && true) = true := by
    rcases hnew with h | h <;> simp [hnz, h]
  simp only [delete, hk, hd, mergeValueForKey, hlim, hm, hnewer]
  simp [broadcast, notify, notifySync, enqueue]
  split <;> simp [getE_setE]

/-! ## `cleanupObsoleteEntries` -/

omit [MergeVal V] in
theorem cleanup_mem (cfg : Cfg) (nowMs : Int) (nd : Node V) (p : String × Entry V) :
    p ∈ (cleanupObsolete cfg nowMs nd).store ↔ p ∈ nd.store ∧ ¬ Obsolete cfg nowMs p.2 := by
  simp only [cleanupObsolete, List.mem_filter, Obsolete]
  constructor
  · rintro ⟨h1, h2⟩
    refine ⟨h1, ?_⟩
    rintro ⟨h3, h4⟩
    simp [h3, h4] at h2
  · rintro ⟨h1, h2⟩
    refine ⟨h1, ?_⟩
    cases hd : p.2.deleted
    · simp
    · by_cases h4 : nowMs - p.2.updateTime > cfg.obs
      · exact absurd ⟨hd, h4⟩ h2
      · simp [h4]

omit [MergeVal V] in
theorem cleanup_getE_kept (cfg : Cfg) (nowMs : Int) (nd : Node V) (k : String) (e : Entry V)
    (hk : getE nd.store k = some e) (hno : ¬ Obsolete cfg nowMs e) :
    getE (cleanupObsolete cfg nowMs nd).store k = some e := by
  have hf : (!(e.deleted && decide (nowMs - e.updateTime > cfg.obs))) = true := by
    cases hd : e.deleted
    · simp
    · by_cases h4 : nowMs - e.updateTime > cfg.obs
      · exact absurd ⟨hd, h4⟩ hno
      · simp [h4]
  simp only [cleanupObsolete]
  generalize nd.store = st at hk
  induction st with
  | nil => simp [getE] at hk
  | cons x xs ih =>
    obtain ⟨k', x'⟩ := x
    simp only [getE] at hk
    by_cases hkk : k' = k
    · rw [if_pos hkk] at hk
      cases hk
      rw [List.filter_cons_of_pos (by simpa using hf)]
      simp only [getE]
      rw [if_pos hkk]
    · rw [if_neg hkk] at hk
      by_cases hx : (!(x'.deleted && decide (nowMs - x'.updateTime > cfg.obs))) = true
      · rw [List.filter_cons_of_pos (by simpa using hx)]
        simp only [getE]
        rw [if_neg hkk]
        exact ih hk
      · rw [List.filter_cons_of_neg (by simpa using hx)]
        exact ih hk

omit [MergeVal V] in
theorem cleanup_getE_sound (cfg : Cfg) (nowMs : Int) (nd : Node V) (k : String) (e : Entry V)
    (hk : getE (cleanupObsolete cfg nowMs nd).store k = some e) : ¬ Obsolete cfg nowMs e ∧ (k, e) ∈ nd.store := by
  have hmem : ∀ (st : Store V), getE st k = some e → (k, e) ∈ st := by
    intro st
    induction st with
    | nil => intro h; simp [getE] at h
    | cons x xs ih =>
      obtain ⟨k', x'⟩ := x
      intro h
      simp only [getE] at h
      by_cases hkk : k' = k
      · rw [if_pos hkk] at h
        cases h
        rw [hkk]
        exact List.mem_cons_self
      · rw [if_neg hkk] at h
        exact List.mem_cons_of_mem _ (ih h)
  have := (cleanup_mem cfg nowMs nd (k, e)).1 (hmem _ hk)
  exact ⟨this.2, this.1⟩

/-! ## re-creation after the cleanup: the key is absent again, the next CAS stores its value as a FIRST value -/

theorem recreate_after_cleanup (cfg : Cfg) (hcfg : cfg.lit = 0) (now nowMs : Int) (nd : Node V) (key : String)
    (f : Option V → Option V) (v : V) (hk : getE nd.store key = none) (hf : f none = some v)
    (hne : (names v).isEmpty = false) :
    (cas cfg now nowMs nd key f).2 = .ok ∧
    getE (cas cfg now nowMs nd key f).1.store key = some { val := v, version := 1 } := by
  have hlim : cfg.limit now = none := by simp [Cfg.limit, hcfg]
  have hget : nd.get key = (none, 0) := by simp [Node.get, hk]
  simp only [cas, hget, hf, mergeValueForKey, hk, hlim, hne]
  simp [broadcast, notify, notifySync]
  split <;> simp [getE_setE]

end PfC06
