import Proofs.C06.Node
/-! # C04 / C06 — the local-CAS merge (`mergeWithTime` with `localCAS = true`) on descriptors of the
coherent universe: missing entries become tombstones stamped `now`; nothing ever goes back in the
last-writer-wins order as long as no stored timestamp exceeds the clock. -/
namespace PfC06
open Ring C03 C06 PfC03

variable {U : String → Int → Bool → Inst}

/-- the tombstone `casEntry` writes for entry `t` -/
def tomb (t : Inst) (now : Int) : Inst := { t with state := .LEFT, tokens := [], ts := now }

/-- the universe is closed under removal: the tombstone of a live content is *the* tombstone content
of that instance at the removal time (an instance's static fields do not depend on the timestamp) -/
def TombClosed (U : String → Int → Bool → Inst) : Prop := ∀ id ts now, tomb (U id ts false) now = U id now true

def casCond (other : Desc) (t : Inst) : Prop := (get? other t.id).isNone = true ∧ t.state ≠ .LEFT

instance (other : Desc) (t : Inst) : Decidable (casCond other t) := by unfold casCond; exact inferInstance

theorem casEntry_this (other : Desc) (now : Int) (acc : Acc) (t : Inst) :
    (casEntry other now acc t).this = if casCond other t then upsert (tomb t now) acc.this else acc.this := by
  unfold casEntry
  by_cases h : casCond other t
  · have h' : (get? other t.id).isNone = true ∧ t.state ≠ .LEFT := h
    rw [if_pos h, if_pos h']; rfl
  · have h' : ¬ ((get? other t.id).isNone = true ∧ t.state ≠ .LEFT) := h
    rw [if_neg h, if_neg h']

theorem casEntry_updated (other : Desc) (now : Int) (acc : Acc) (t : Inst) :
    (casEntry other now acc t).updated = if casCond other t then acc.updated ++ [t.id] else acc.updated := by
  unfold casEntry
  by_cases h : casCond other t
  · have h' : (get? other t.id).isNone = true ∧ t.state ≠ .LEFT := h
    rw [if_pos h, if_pos h']
  · have h' : ¬ ((get? other t.id).isNone = true ∧ t.state ≠ .LEFT) := h
    rw [if_neg h, if_neg h']

theorem rk_le_of_ts {e : Inst} {now : Int} (h : e.ts ≤ now) : rk e ≤ 2 * now + 1 := by
  unfold rk; split <;> omega

theorem rk_tomb (t : Inst) (now : Int) : rk (tomb t now) = 2 * now + 1 := by simp [rk, tomb]

theorem tomb_id (t : Inst) (now : Int) : (tomb t now).id = t.id := rfl

/-- the tombstone pass never lowers a rank when no entry is newer than `now` -/
theorem casFold_le (other : Desc) (now : Int) (hnow : now ≥ 0) (l : Desc) (acc : Acc) (hacc : ∀ e ∈ acc.this, e.ts ≤ now) :
    Le acc.this (l.foldl (casEntry other now) acc).this ∧ (∀ e ∈ (l.foldl (casEntry other now) acc).this, e.ts ≤ now) := by
  induction l generalizing acc with
  | nil => exact ⟨Le.refl _, hacc⟩
  | cons t ts ih =>
    rw [List.foldl_cons]
    have hstep : Le acc.this (casEntry other now acc t).this ∧ ∀ e ∈ (casEntry other now acc t).this, e.ts ≤ now := by
      rw [casEntry_this]
      by_cases hc : casCond other t
      · rw [if_pos hc]
        refine ⟨fun k => ?_, fun e he => ?_⟩
        · rw [get?_upsert]
          by_cases hk : k = (tomb t now).id
          · rw [if_pos hk, rkO_some, rk_tomb]
            cases hg : get? acc.this k with
            | none => rw [rkO_none]; omega
            | some x => rw [rkO_some]; exact rk_le_of_ts (hacc x (get?_mem hg))
          · rw [if_neg hk]; exact Int.le_refl _
        · rcases mem_upsert he with h | h
          · rw [h]; exact Int.le_refl _
          · exact hacc e h
      · rw [if_neg hc]; exact ⟨Le.refl _, hacc⟩
    obtain ⟨h1, h2⟩ := ih _ hstep.2
    exact ⟨hstep.1.trans h1, h2⟩

/-- ... and keeps the state inside the universe -/
theorem casFold_drawn (hU : Univ U) (hT : TombClosed U) (other : Desc) (now : Int) (hnow : now ≥ 1) (l : Desc)
    (hl : ∀ t ∈ l, t.state ≠ .LEFT → t = U t.id t.ts false) (acc : Acc) (hacc : Drawn U acc.this) :
    Drawn U (l.foldl (casEntry other now) acc).this := by
  induction l generalizing acc with
  | nil => exact hacc
  | cons t ts ih =>
    rw [List.foldl_cons]
    apply ih (fun x hx => hl x (by simp [hx]))
    rw [casEntry_this]
    by_cases hc : casCond other t
    · rw [if_pos hc]
      have ht := hl t (by simp) hc.2
      have hte : tomb t now = U t.id now true := by rw [ht, hT]; rw [hU.id_eq]
      refine ⟨upsert_nodup _ _ hacc.nodup, fun e he => ?_, fun e he => ?_⟩
      · rcases mem_upsert he with h | h
        · rw [h]; exact hnow
        · exact hacc.pos e h
      · rcases mem_upsert he with h | h
        · rw [h]
          have : decide ((tomb t now).state = .LEFT) = true := by simp [tomb]
          rw [this]; exact hte
        · exact hacc.coh e h
    · rw [if_neg hc]; exact hacc

/-- keys no processed entry carries are untouched -/
theorem casFold_get?_other (other : Desc) (now : Int) (l : Desc) (acc : Acc) (k : String) (hk : ∀ t ∈ l, t.id ≠ k) :
    get? (l.foldl (casEntry other now) acc).this k = get? acc.this k := by
  induction l generalizing acc with
  | nil => rfl
  | cons t ts ih =>
    rw [List.foldl_cons, ih _ (fun x hx => hk x (by simp [hx])), casEntry_this]
    by_cases hc : casCond other t
    · rw [if_pos hc, get?_upsert_other _ _ _ (fun e => hk t (by simp) (by rw [e]; rfl))]
    · rw [if_neg hc]

/-- **the removal stamp**: an entry that is missing from the CAS result and has not left becomes a
tombstone with timestamp `now` and no tokens -/
theorem casFold_get?_tomb (other : Desc) (now : Int) (l : Desc) (hn : (ids l).Nodup) (acc : Acc) (t : Inst) (ht : t ∈ l)
    (hc : casCond other t) : get? (l.foldl (casEntry other now) acc).this t.id = some (tomb t now) := by
  induction l generalizing acc with
  | nil => simp at ht
  | cons x xs ih =>
    simp only [ids, List.map_cons, List.nodup_cons] at hn
    rw [List.foldl_cons]
    rcases List.mem_cons.1 ht with h | h
    · subst h
      rw [casFold_get?_other _ _ _ _ _ (fun y hy e => hn.1 (by rw [← e]; exact List.mem_map_of_mem hy)), casEntry_this,
        if_pos hc]
      exact get?_upsert_same _ _
    · exact ih hn.2 _ h

theorem casFold_updated_mem (other : Desc) (now : Int) (l : Desc) (acc : Acc) (k : String) :
    k ∈ (l.foldl (casEntry other now) acc).updated ↔ k ∈ acc.updated ∨ ∃ t ∈ l, t.id = k ∧ casCond other t := by
  induction l generalizing acc with
  | nil => simp
  | cons x xs ih =>
    rw [List.foldl_cons, ih, casEntry_updated]
    by_cases hc : casCond other x
    · rw [if_pos hc]
      constructor
      · rintro (h | ⟨t, ht, h1, h2⟩)
        · rcases List.mem_append.1 h with h | h
          · exact Or.inl h
          · exact Or.inr ⟨x, by simp, (by simpa using h : k = x.id).symm, hc⟩
        · exact Or.inr ⟨t, by simp [ht], h1, h2⟩
      · rintro (h | ⟨t, ht, h1, h2⟩)
        · exact Or.inl (List.mem_append.2 (Or.inl h))
        · rcases List.mem_cons.1 ht with h | h
          · subst h; exact Or.inl (List.mem_append.2 (Or.inr (by simp [h1])))
          · exact Or.inr ⟨t, h, h1, h2⟩
    · rw [if_neg hc]
      constructor
      · rintro (h | ⟨t, ht, h1, h2⟩)
        · exact Or.inl h
        · exact Or.inr ⟨t, by simp [ht], h1, h2⟩
      · rintro (h | ⟨t, ht, h1, h2⟩)
        · exact Or.inl h
        · rcases List.mem_cons.1 ht with h | h
          · subst h; exact absurd h2 hc
          · exact Or.inr ⟨t, h, h1, h2⟩

theorem casFold_updated_nil (other : Desc) (now : Int) (l : Desc) (acc : Acc)
    (h : (l.foldl (casEntry other now) acc).updated = []) :
    (l.foldl (casEntry other now) acc).this = acc.this ∧ acc.updated = [] := by
  induction l generalizing acc with
  | nil => exact ⟨rfl, h⟩
  | cons x xs ih =>
    rw [List.foldl_cons] at h ⊢
    obtain ⟨h1, h2⟩ := ih _ h
    rw [casEntry_updated] at h2
    rw [h1, casEntry_this]
    by_cases hc : casCond other x
    · rw [if_pos hc] at h2; simp at h2
    · rw [if_neg hc] at h2 ⊢; exact ⟨rfl, h2⟩

theorem casFold_updated_nodup (other : Desc) (now : Int) (l : Desc) (hl : (ids l).Nodup) (acc : Acc)
    (hacc : acc.updated.Nodup) (hdis : ∀ t ∈ l, casCond other t → t.id ∉ acc.updated) :
    (l.foldl (casEntry other now) acc).updated.Nodup := by
  induction l generalizing acc with
  | nil => exact hacc
  | cons x xs ih =>
    simp only [ids, List.map_cons, List.nodup_cons] at hl
    rw [List.foldl_cons]
    apply ih hl.2
    · rw [casEntry_updated]
      by_cases hc : casCond other x
      · rw [if_pos hc]
        exact List.nodup_append.2 ⟨hacc, by simp, fun a ha b hb => by
          simp at hb; subst hb; intro e; subst e; exact hdis x (by simp) hc ha⟩
      · rw [if_neg hc]; exact hacc
    · intro t ht hct
      rw [casEntry_updated]
      by_cases hc : casCond other x
      · rw [if_pos hc]
        intro hm
        rcases List.mem_append.1 hm with h | h
        · exact hdis t (by simp [ht]) hct h
        · have : t.id = x.id := by simpa using h
          exact hl.1 (by rw [← this]; exact List.mem_map_of_mem ht)
      · rw [if_neg hc]; exact hdis t (by simp [ht]) hct

/-! ## the whole local-CAS merge -/

/-- accumulator after both passes -/
def casAcc (now : Int) (a b : Desc) : Acc := (loop a b).this.foldl (casEntry b now) (loop a b)

theorem mergeAcc_true (hU : Univ U) (now : Int) (a : Desc) {b : Desc} (hb : Drawn U b) :
    mergeAcc true now a b = casAcc now a b := by
  unfold mergeAcc casAcc loop
  rw [normalize_drawn hU hb]
  simp

theorem casAcc_drawn (hU : Univ U) (hT : TombClosed U) {now : Int} (hnow : now ≥ 1) {a b : Desc} (ha : Drawn U a) (hb : Drawn U b) :
    Drawn U (casAcc now a b).this := by
  have hl := loop_drawn ha hb
  apply casFold_drawn hU hT b now hnow _ _ _ hl
  intro t ht hns
  have := hl.coh t ht
  rw [this]
  have hd : decide (t.state = .LEFT) = false := by simp [hns]
  rw [hd, hU.id_eq, hU.ts_eq]

/-- state of the local-CAS merge = the accumulator after both passes (no conflicts in the universe) -/
theorem merge_true_state (hU : Univ U) (hT : TombClosed U) {now : Int} (hnow : now ≥ 1) {a b : Desc} (ha : Drawn U a) (hb : Drawn U b) :
    (C03.merge true now a b).state = (casAcc now a b).this := by
  unfold C03.merge finish
  rw [mergeAcc_true hU now a hb]
  by_cases hu : (casAcc now a b).updated.isEmpty = true
  · rw [if_pos hu]
    have hnil : (casAcc now a b).updated = [] := by simpa using hu
    obtain ⟨h1, h2⟩ := casFold_updated_nil b now _ _ hnil
    show a = (casAcc now a b).this
    unfold casAcc; rw [h1]
    exact (foldl_updated_nil b _ h2).1.symm
  · rw [if_neg hu]
    simp only [drawn_no_conflicts hU (casAcc_drawn hU hT hnow ha hb), Bool.false_eq_true, and_false, if_false]

theorem merge_true_change (hU : Univ U) (hT : TombClosed U) {now : Int} (hnow : now ≥ 1) {a b : Desc} (ha : Drawn U a) (hb : Drawn U b) :
    (C03.merge true now a b).change =
      if (casAcc now a b).updated.isEmpty then none
      else some ((casAcc now a b).updated.filterMap (get? (casAcc now a b).this)) := by
  unfold C03.merge finish
  rw [mergeAcc_true hU now a hb]
  by_cases hu : (casAcc now a b).updated.isEmpty = true
  · rw [if_pos hu, if_pos hu]
  · rw [if_neg hu, if_neg hu]
    simp only [drawn_no_conflicts hU (casAcc_drawn hU hT hnow ha hb), Bool.false_eq_true, and_false, if_false]

theorem loop_view (hU : Univ U) {a b : Desc} (ha : Drawn U a) (hb : Drawn U b) (k : String) :
    get? (loop a b).this k = maxOpt (get? a k) (get? b k) := by
  rw [← mergeState_eq_loop hU ha hb]; exact view_merge hU ha hb k

theorem loop_le_clock {now : Int} {a b : Desc} (ha : ∀ e ∈ a, e.ts ≤ now) (hb : ∀ e ∈ b, e.ts ≤ now) :
    ∀ e ∈ (loop a b).this, e.ts ≤ now := by
  intro e he
  unfold loop at he
  rcases foldl_mem b _ e he with h | h
  · exact ha e h
  · exact hb e h

/-- what a local CAS merge does to a good value -/
structure CasSpec (U : String → Int → Bool → Inst) (now : Int) (a b : Desc) (s : Desc) : Prop where
  good : GoodVal U now s
  le_old : Le a s
  le_new : Le b s

theorem merge_true_spec (hU : Univ U) (hT : TombClosed U) {now : Int} (hnow : now ≥ 1) {a b : Desc}
    (ha : GoodVal U now a) (hb : GoodVal U now b) : CasSpec U now a b (C03.merge true now a b).state := by
  rw [merge_true_state hU hT hnow ha.1 hb.1]
  have hfold := casFold_le b now (by omega) (loop a b).this (loop a b) (loop_le_clock ha.2 hb.2)
  refine ⟨⟨casAcc_drawn hU hT hnow ha.1 hb.1, hfold.2⟩, ?_, ?_⟩
  · refine Le.trans (fun k => ?_) hfold.1
    rw [loop_view hU ha.1 hb.1, rkO_maxOpt]; omega
  · refine Le.trans (fun k => ?_) hfold.1
    rw [loop_view hU ha.1 hb.1, rkO_maxOpt]; omega

/-- the entries of a reported change are the node's current entries -/
theorem merge_true_change_sub (hU : Univ U) (hT : TombClosed U) {now : Int} (hnow : now ≥ 1) {a b ch : Desc}
    (ha : Drawn U a) (hb : Drawn U b) (hch : (C03.merge true now a b).change = some ch) (id : String) (x : Inst)
    (hx : get? ch id = some x) : get? (C03.merge true now a b).state id = some x := by
  rw [merge_true_change hU hT hnow ha hb] at hch
  rw [merge_true_state hU hT hnow ha hb]
  split at hch
  · simp at hch
  · injection hch with hch
    subst hch
    rw [get?_filterMap] at hx
    split at hx
    · exact hx
    · simp at hx

theorem merge_true_change_drawn (hU : Univ U) (hT : TombClosed U) {now : Int} (hnow : now ≥ 1) {a b ch : Desc}
    (ha : GoodVal U now a) (hb : GoodVal U now b) (hch : (C03.merge true now a b).change = some ch) :
    GoodVal U now ch ∧ ch ≠ [] := by
  have hs := merge_true_spec hU hT hnow ha hb
  have hsub := merge_true_change_sub hU hT hnow ha.1 hb.1 hch
  have hch' := hch
  rw [merge_true_change hU hT hnow ha.1 hb.1] at hch'
  rw [merge_true_state hU hT hnow ha.1 hb.1] at hs hsub
  split at hch'
  · simp at hch'
  · rename_i hne
    injection hch' with hch'
    have hmem : ∀ e ∈ ch, e ∈ (casAcc now a b).this := by
      intro e he
      rw [← hch'] at he
      simp only [List.mem_filterMap] at he
      obtain ⟨n, _, hn⟩ := he
      exact get?_mem hn
    refine ⟨⟨⟨?_, fun e he => hs.good.1.pos e (hmem e he), fun e he => hs.good.1.coh e (hmem e he)⟩,
      fun e he => hs.good.2 e (hmem e he)⟩, ?_⟩
    · -- ids of the change are a sublist of the duplicate-free `updated` list
      rw [← hch']
      apply List.Nodup.sublist (ids_filterMap_sub _ _)
      unfold casAcc
      apply casFold_updated_nodup b now _ (loop_drawn ha.1 hb.1).nodup _ (loop_updated_nodup hb.1.nodup)
      intro t _ hct hm
      obtain ⟨o, hg, _⟩ := (mem_loop_updated hb.1.nodup t.id).1 hm
      have := hct.1
      rw [hg] at this; simp at this
    · intro hnil
      -- every updated id has an entry in the state, so the change is not empty
      have hsome : ∀ u ∈ (casAcc now a b).updated, get? (casAcc now a b).this u ≠ none := by
        intro u hu
        have hl := loop_drawn ha.1 hb.1
        have hfold := casFold_le b now (by omega) (loop a b).this (loop a b) (loop_le_clock ha.2 hb.2)
        have hrk : rkO (get? (loop a b).this u) ≥ 2 := by
          unfold casAcc at hu
          rcases (casFold_updated_mem b now _ _ u).1 hu with h | ⟨t, ht, hid, _⟩
          · obtain ⟨o, hg, hacc⟩ := (mem_loop_updated hb.1.nodup u).1 h
            have hle : rkO (get? b u) ≤ rkO (get? (loop a b).this u) := by
              rw [loop_view hU ha.1 hb.1, rkO_maxOpt]; omega
            rw [hg, rkO_some] at hle
            have := rk_pos (hb.1.pos o (get?_mem hg)); omega
          · have := get?_of_mem_nodup hl.nodup ht
            rw [hid] at this; rw [this, rkO_some]
            exact rk_pos (hl.pos t ht)
        have := hfold.1 u
        intro hn
        unfold casAcc at hn
        rw [hn, rkO_none] at this; omega
      cases hupd : (casAcc now a b).updated with
      | nil => exact hne (by rw [hupd]; rfl)
      | cons u us =>
        rw [hupd] at hch'
        have hu := hsome u (by rw [hupd]; simp)
        cases hg : get? (casAcc now a b).this u with
        | none => exact hu hg
        | some x =>
          rw [← hch'] at hnil
          simp [List.filterMap_cons, hg] at hnil

end PfC06
