import Proofs.C05Wf
import Proofs.C06.Sync
/-! # C05 / C06 — well-formedness of every value in the cluster

`KV.computeNewValue` stores the FIRST value of a key verbatim (no normalisation, no conflict resolution),
so the per-replica induction of C05 (`Reachable`: merges starting from the empty descriptor) does not by
itself cover a memberlist replica. Here: on the node / cluster model (any retention, any event
schedule), if every CAS function returns a well-formed descriptor when given a well-formed one, then
every stored value, every queued broadcast and every message in flight is well-formed. Ingredients:
`merge_preserves_wf` (C05), "a reported change is a sub-descriptor of the merged state" and
"sub-descriptors of well-formed descriptors are well-formed". -/
namespace PfC06
open Ring C03 C06 PfC03 PfC05

/-! ## sub-descriptors -/

/-- a descriptor with unique ids all of whose entries occur in a well-formed descriptor is well-formed -/
theorem wf_of_sub {st ch : Desc} (hw : WF st) (hn : (ids ch).Nodup) (hmem : ∀ e ∈ ch, e ∈ st) : WF ch := by
  refine ⟨hn, fun i hi => hw.entries i (hmem i hi), ?_⟩
  apply nodup_allTokens
  · intro e he; exact sortedStrict_nodup (hw.entries e (hmem e he)).1
  · have hp : ch.Pairwise (fun a b => a.id ≠ b.id) := by
      unfold ids at hn
      exact (List.pairwise_map).1 hn
    refine List.Pairwise.imp_of_mem ?_ hp
    intro a b ha hb hab t hta htb
    exact hab (congrArg Inst.id (wf_one_owner hw t a b (hmem a ha) (hmem b hb) hta htb))

theorem wf_filter (p : Inst → Bool) {d : Desc} (hw : WF d) : WF (d.filter p) :=
  wf_of_sub hw (List.Nodup.sublist (List.Sublist.map _ List.filter_sublist) hw.nodup)
    (fun e he => (List.mem_filter.1 he).1)

theorem wf_gc (l : Option Int) {d : Desc} (hw : WF d) : WF (removeTombstones l d) := wf_filter _ hw

theorem wf_nil : WF ([] : Desc) := ⟨List.nodup_nil, fun i hi => by simp at hi, by simp [allTokens]⟩

/-! ## the reported change is a well-formed sub-descriptor of the merged state -/

theorem ids_normalize (d : Desc) : ids (normalize d) = ids d := by
  unfold ids normalize
  rw [List.map_map]
  apply List.map_congr_left
  intro i _
  exact normInst_id i

theorem get?_isNone_of_casCond {other : Desc} {t : Inst} (h : casCond other t) : get? other t.id = none := by
  have := h.1
  cases hg : get? other t.id with
  | none => rfl
  | some x => rw [hg] at this; simp at this

theorem mergeAcc_updated_nodup (cas : Bool) (now : Int) (this other : Desc) (hthis : (ids this).Nodup)
    (hother : (ids other).Nodup) : (mergeAcc cas now this other).updated.Nodup := by
  have hno : (ids (normalize other)).Nodup := by rw [ids_normalize]; exact hother
  have hloop : (loop this (normalize other)).updated.Nodup := loop_updated_nodup hno
  unfold mergeAcc
  show (if cas = true then _ else _ : Acc).updated.Nodup
  by_cases hc : cas = true
  · rw [if_pos hc]
    refine casFold_updated_nodup (normalize other) now _ ?_ _ hloop ?_
    · exact foldl_nodup (normalize other) { this := this, updated := [], tokCh := false } hthis
    · intro t _ hct hm
      obtain ⟨o, hg, _⟩ := (mem_loop_updated hno t.id).1 hm
      rw [get?_isNone_of_casCond hct] at hg
      cases hg
  · rw [if_neg hc]; exact hloop

theorem merge_change_wf (cas : Bool) (now : Int) (this other : Desc) (hw : WF this) (ho : (ids other).Nodup)
    (ch : Desc) (hch : (C03.merge cas now this other).change = some ch) : WF ch := by
  have hst := PfC05.merge_preserves_wf cas now this other hw
  have hupd := mergeAcc_updated_nodup cas now this other hw.nodup ho
  unfold C03.merge finish at hch hst
  split at hch
  · cases hch
  · rename_i hne
    rw [if_neg hne] at hst
    simp only at hch hst
    injection hch with hch
    subst hch
    refine wf_of_sub hst (List.Nodup.sublist (ids_filterMap_sub _ _) hupd) ?_
    intro e he
    simp only [List.mem_filterMap] at he
    obtain ⟨n, _, hn⟩ := he
    exact get?_mem hn

/-! ## `mergeValueForKey` keeps every stored value well-formed and reports a well-formed change -/

def WfStore (st : Store Desc) : Prop := ∀ p ∈ st, WF p.2.val

theorem mem_setE {V : Type} {st : Store V} {key : String} {e : Entry V} {p : String × Entry V} (h : p ∈ setE st key e) :
    p ∈ st ∨ p = (key, e) := by
  induction st with
  | nil => simp [setE] at h; exact Or.inr h
  | cons x xs ih =>
    obtain ⟨k, v⟩ := x
    simp only [setE] at h
    by_cases hk : k = key
    · rw [if_pos hk] at h
      rcases List.mem_cons.1 h with h | h
      · exact Or.inr (by rw [h, hk])
      · exact Or.inl (List.mem_cons_of_mem _ h)
    · rw [if_neg hk] at h
      rcases List.mem_cons.1 h with h | h
      · exact Or.inl (by rw [h]; simp)
      · rcases ih h with h | h
        · exact Or.inl (List.mem_cons_of_mem _ h)
        · exact Or.inr h

theorem getE_mem {V : Type} {st : Store V} {k : String} {e : Entry V} (h : getE st k = some e) : (k, e) ∈ st := by
  induction st with
  | nil => simp [getE] at h
  | cons x xs ih =>
    obtain ⟨k', v⟩ := x
    simp only [getE] at h
    by_cases hk : k' = k
    · rw [if_pos hk] at h; injection h with h; rw [hk, h]; simp
    · rw [if_neg hk] at h; exact List.mem_cons_of_mem _ (ih h)

theorem wfStore_setE {st : Store Desc} (h : WfStore st) (key : String) (e : Entry Desc) (he : WF e.val) :
    WfStore (setE st key e) := by
  intro p hp
  rcases mem_setE hp with h1 | h1
  · exact h p h1
  · rw [h1]; exact he

theorem mvk_wf (limit : Option Int) (now : Int) {st : Store Desc} (hst : WfStore st) (key : String) {inc : Desc}
    (hinc : WF inc) (cas : Bool) (cv : Nat) (del : Bool) (ut : Int) :
    WfStore (mergeValueForKey limit now st key inc cas cv del ut).store ∧
    ∀ o, (mergeValueForKey limit now st key inc cas cv del ut).out = some o → WF o.change := by
  unfold mergeValueForKey
  cases hg : getE st key with
  | none =>
    simp only
    have hv : WF (match limit with | none => inc | some l => MergeVal.gc (some l) inc : Desc) := by
      cases limit with
      | none => exact hinc
      | some l => exact wf_gc _ hinc
    repeat' split
    all_goals first
      | exact ⟨hst, fun o ho => by cases ho⟩
      | exact ⟨wfStore_setE hst key _ hv, fun o ho => by cases ho; exact hv⟩
  | some c =>
    have hc : WF c.val := hst _ (getE_mem hg)
    simp only
    split
    · exact ⟨hst, fun o ho => by cases ho⟩
    · have hm : (MergeVal.merge cas now c.val inc : Option (Desc × Option Desc)) =
          some ((C03.merge cas now c.val inc).state, (C03.merge cas now c.val inc).change) := rfl
      rw [hm]
      have hres : WF (C03.merge cas now c.val inc).state := PfC05.merge_preserves_wf cas now c.val inc hc
      have hchange : ∀ ch, (C03.merge cas now c.val inc).change = some ch → WF ch :=
        merge_change_wf cas now c.val inc hc hinc.nodup
      cases hch : (C03.merge cas now c.val inc).change with
      | none =>
        cases limit with
        | none =>
          simp only [Option.map_none]
          repeat' split
          all_goals
            refine ⟨by first | exact wfStore_setE hst key _ hres, fun o ho => ?_⟩
            first
              | (cases ho; first | exact hres)
              | cases ho
        | some l =>
          have hg := wf_gc (some l) hres
          simp only [Option.map_none]
          repeat' split
          all_goals
            refine ⟨by first | exact wfStore_setE hst key _ hres | exact wfStore_setE hst key _ hg, fun o ho => ?_⟩
            first
              | (cases ho; first | exact hg | exact hres)
              | cases ho
      | some ch =>
        have hw := hchange ch hch
        cases limit with
        | none =>
          simp only
          repeat' split
          all_goals
            refine ⟨by first | exact wfStore_setE hst key _ hres, fun o ho => ?_⟩
            first
              | (cases ho; first | exact hw | exact hres)
              | cases ho
        | some l =>
          have hg := wf_gc (some l) hres
          have hgw := wf_gc (some l) hw
          simp only [Option.map_some]
          repeat' split
          all_goals
            refine ⟨by first | exact wfStore_setE hst key _ hres | exact wfStore_setE hst key _ hg, fun o ho => ?_⟩
            first
              | (cases ho; first | exact hgw | exact hg | exact hw | exact hres)
              | cases ho

/-! ## nodes -/

/-- every stored value and every queued broadcast of the node is well-formed -/
def WfNode (nd : Node Desc) : Prop :=
  WfStore nd.store ∧ (∀ b ∈ nd.localQ, WF b.change) ∧ (∀ b ∈ nd.gossipQ, WF b.change)

theorem wfNode_empty : WfNode ({} : Node Desc) :=
  ⟨fun p hp => by simp at hp, fun b hb => by simp at hb, fun b hb => by simp at hb⟩

theorem wfNode_congr {nd nd' : Node Desc} (h : WfNode nd) (h1 : nd'.store = nd.store) (h2 : nd'.localQ = nd.localQ)
    (h3 : nd'.gossipQ = nd.gossipQ) : WfNode nd' := by
  unfold WfNode at h ⊢; rw [h1, h2, h3]; exact h

theorem notify_localQ' {V : Type} (cfg : Cfg) (nd : Node V) (key : String) : (notify cfg nd key).localQ = nd.localQ := by
  unfold notify notifySync; split <;> rfl
theorem notify_gossipQ' {V : Type} (cfg : Cfg) (nd : Node V) (key : String) : (notify cfg nd key).gossipQ = nd.gossipQ := by
  unfold notify notifySync; split <;> rfl

theorem broadcast_wf (cfg : Cfg) {nd : Node Desc} (h : WfNode nd) (key : String) (o : Out Desc) (ho : WF o.change) (l : Bool) :
    WfNode (broadcast (notify cfg nd key) key o l) := by
  obtain ⟨h1, h2, h3⟩ := h
  unfold broadcast
  split
  · refine ⟨by simpa [notify_store'] using h1, ?_, by simpa [notify_gossipQ'] using h3⟩
    intro b hb
    simp only [notify_localQ'] at hb
    rcases mem_enqueue hb with hb | hb
    · exact h2 b hb
    · rw [hb]; exact ho
  · refine ⟨by simpa [notify_store'] using h1, by simpa [notify_localQ'] using h2, ?_⟩
    intro b hb
    simp only [notify_gossipQ'] at hb
    rcases mem_enqueue hb with hb | hb
    · exact h3 b hb
    · rw [hb]; exact ho

theorem deliver_wf (cfg : Cfg) (now : Int) {nd : Node Desc} (h : WfNode nd) (m : Msg Desc) (hm : WF m.val) :
    WfNode (deliver cfg now nd m) := by
  have hk := mvk_wf (cfg.limit now) now h.1 m.key hm false 0 m.deleted m.updateTime
  unfold deliver
  generalize mergeValueForKey (cfg.limit now) now nd.store m.key m.val false 0 m.deleted m.updateTime = r at hk
  simp only
  split
  · exact h
  · split
    · exact ⟨hk.1, h.2.1, h.2.2⟩
    · rename_i o ho
      exact broadcast_wf cfg (nd := { nd with store := r.store }) ⟨hk.1, h.2.1, h.2.2⟩ m.key o (hk.2 o ho) false

theorem notifyMsg_wf (cfg : Cfg) (now : Int) {nd : Node Desc} (h : WfNode nd) (m : Msg Desc) (hm : WF m.val) :
    WfNode (notifyMsg cfg now nd m) := by
  unfold notifyMsg; split
  · exact h
  · exact deliver_wf cfg now h m hm

theorem mergeRemoteState_wf (cfg : Cfg) (now : Int) (ms : List (Msg Desc)) (hms : ∀ m ∈ ms, WF m.val) {nd : Node Desc}
    (h : WfNode nd) : WfNode (mergeRemoteState cfg now nd ms) := by
  unfold mergeRemoteState
  induction ms generalizing nd with
  | nil => exact h
  | cons m rest ih =>
    rw [List.foldl_cons]
    exact ih (fun x hx => hms x (by simp [hx])) (notifyMsg_wf cfg now h m (hms m (by simp)))

/-- the condition on the functions passed to CAS: a well-formed (or absent) input yields a well-formed output -/
def WfFn (f : Option Desc → Option Desc) : Prop :=
  ∀ v, (∀ d, v = some d → WF d) → ∀ out, f v = some out → WF out

theorem cas_wf (cfg : Cfg) (now nowMs : Int) {nd : Node Desc} (h : WfNode nd) (key : String) {f : Option Desc → Option Desc}
    (hf : WfFn f) : WfNode (cas cfg now nowMs nd key f).1 := by
  -- the function sees the stored value minus tombstones: still well-formed
  have hview : ∀ d, (nd.get key).1 = some d → WF d := by
    intro d hd
    unfold Node.get at hd
    cases hg : getE nd.store key with
    | none => rw [hg] at hd; cases hd
    | some e =>
      rw [hg] at hd
      simp only [Option.some.injEq] at hd
      rw [← hd]
      exact wf_gc none (h.1 _ (getE_mem hg))
  unfold cas
  cases hfv : f (nd.get key).1 with
  | none => simp only [hfv]; exact h
  | some out =>
    have hout : WF out := hf _ hview out hfv
    have hk := mvk_wf (cfg.limit now) now h.1 key hout true (nd.get key).2 false nowMs
    simp only [hfv]
    generalize mergeValueForKey (cfg.limit now) now nd.store key out true (nd.get key).2 false nowMs = r at hk
    split
    · exact h
    · split
      · exact ⟨hk.1, h.2.1, h.2.2⟩
      · rename_i o ho
        exact broadcast_wf cfg (nd := { nd with store := r.store }) ⟨hk.1, h.2.1, h.2.2⟩ key o (hk.2 o ho) true

theorem delete_wf (cfg : Cfg) (now nowMs : Int) {nd : Node Desc} (h : WfNode nd) (key : String) :
    WfNode (C06.delete cfg now nowMs nd key) := by
  unfold C06.delete
  cases hg : getE nd.store key with
  | none => exact h
  | some e =>
    simp only
    split
    · exact h
    · have hk := mvk_wf (cfg.limit now) now h.1 key (h.1 _ (getE_mem hg)) false 0 true nowMs
      generalize mergeValueForKey (cfg.limit now) now nd.store key e.val false 0 true nowMs = r at hk
      split
      · exact h
      · split
        · exact ⟨hk.1, h.2.1, h.2.2⟩
        · rename_i o ho
          exact broadcast_wf cfg (nd := { nd with store := r.store }) ⟨hk.1, h.2.1, h.2.2⟩ key o (hk.2 o ho) false

theorem cleanup_wf (cfg : Cfg) (nowMs : Int) {nd : Node Desc} (h : WfNode nd) : WfNode (cleanupObsolete cfg nowMs nd) :=
  ⟨fun p hp => h.1 p (List.mem_filter.1 hp).1, h.2.1, h.2.2⟩

/-! ## the cluster -/

structure WfCluster (c : Cluster Desc) : Prop where
  nodes : ∀ nd ∈ c.nodes, WfNode nd
  net : ∀ m ∈ c.net, WF m.val

def WfEv : Event Desc → Prop
  | .cas _ _ f => WfFn f
  | _ => True

theorem wf_step (cfg : Cfg) {c : Cluster Desc} (h : WfCluster c) (ev : Event Desc) (hev : WfEv ev) :
    WfCluster (stepC cfg c ev) := by
  have key : ∀ (n : Nat) (f : Node Desc → Node Desc), (∀ nd ∈ c.nodes, WfNode (f nd)) → WfCluster (c.upd n f) := by
    intro n f hf
    refine ⟨fun nd hnd => ?_, h.net⟩
    rcases mem_modifyAt hnd with h1 | ⟨y, hy, rfl⟩
    · exact h.nodes nd h1
    · exact hf y hy
  cases ev with
  | cas n k f => exact key n _ fun nd hnd => cas_wf cfg _ _ (h.nodes nd hnd) k hev
  | gossipTick n =>
    simp only [stepC]
    cases hn : c.nodes[n]? with
    | none => exact h
    | some nd0 =>
      have hnd0 := h.nodes nd0 (List.mem_of_getElem? hn)
      have hdrain : ∀ (q : List (Bcast Desc)), (∀ b ∈ q, WF b.change) → ∀ b ∈ drain cfg.lim q, WF b.change := by
        intro q hq b hb
        obtain ⟨b0, hb0, rfl⟩ := mem_drain hb
        exact hq b0 hb0
      have h1 := key n (fun nd => (gossip cfg nd).1) fun nd hnd =>
        ⟨(h.nodes nd hnd).1, hdrain _ (h.nodes nd hnd).2.1, hdrain _ (h.nodes nd hnd).2.2⟩
      refine ⟨h1.nodes, fun m hm => ?_⟩
      rcases List.mem_append.1 hm with hm | hm
      · exact h.net m hm
      · simp only [gossip, List.mem_map, List.mem_append] at hm
        obtain ⟨b, hb, rfl⟩ := hm
        rcases hb with hb | hb
        · exact hnd0.2.1 b hb
        · exact hnd0.2.2 b hb
  | deliver n m =>
    simp only [stepC]
    cases hm : c.net[m]? with
    | none => exact h
    | some msg => exact key n _ fun nd hnd => notifyMsg_wf cfg _ (h.nodes nd hnd) msg (h.net msg (List.mem_of_getElem? hm))
  | drop m => exact ⟨h.nodes, fun x hx => h.net x (List.mem_of_mem_eraseIdx hx)⟩
  | dup m =>
    simp only [stepC]
    cases hm : c.net[m]? with
    | none => exact h
    | some msg =>
      refine ⟨h.nodes, fun x hx => ?_⟩
      rcases List.mem_append.1 hx with hx | hx
      · exact h.net x hx
      · have : x = msg := by simpa using hx
        rw [this]; exact h.net msg (List.mem_of_getElem? hm)
  | pushPull a b =>
    simp only [stepC]
    cases ha : c.nodes[a]? with
    | none => exact h
    | some na =>
      have hna := h.nodes na (List.mem_of_getElem? ha)
      refine key b _ fun nd hnd => mergeRemoteState_wf cfg _ _ ?_ (h.nodes nd hnd)
      intro m hm
      simp only [localState, List.mem_map] at hm
      obtain ⟨p, hp, rfl⟩ := hm
      exact hna.1 p hp
  | corrupt n => exact h
  | watch n p k => exact key n _ fun nd hnd => wfNode_congr (h.nodes nd hnd) rfl rfl rfl
  | watcherRun n w => exact key n _ fun nd hnd => wfNode_congr (h.nodes nd hnd) rfl rfl rfl
  | notifyTick n =>
    exact key n _ fun nd hnd => wfNode_congr (h.nodes nd hnd) (foldl_notifySync nd.notifs nd).1
      (foldl_notifySync nd.notifs nd).2.1 (foldl_notifySync nd.notifs nd).2.2.1
  | restart n => exact key n _ fun _ _ => wfNode_empty
  | delete n k => exact key n _ fun nd hnd => delete_wf cfg _ _ (h.nodes nd hnd) k
  | cleanup n => exact key n _ fun nd hnd => cleanup_wf cfg _ (h.nodes nd hnd)
  | tick => exact ⟨h.nodes, h.net⟩

/-- every CAS function of the run maps well-formed input to well-formed output -/
def WfRun (evs : List (Event Desc)) : Prop := ∀ ev ∈ evs, WfEv ev

theorem wf_run (cfg : Cfg) (evs : List (Event Desc)) {c : Cluster Desc} (h : WfCluster c) (hevs : WfRun evs) :
    WfCluster (runC cfg c evs) := by
  induction evs generalizing c with
  | nil => exact h
  | cons e es ih =>
    exact ih (wf_step cfg h e (hevs e (by simp))) (fun x hx => hevs x (by simp [hx]))

theorem wf_init (n : Nat) (clock : Int) : WfCluster (initC n clock) :=
  ⟨fun nd hnd => by
      have : nd = {} := by simpa [initC] using (List.mem_replicate.1 hnd).2
      rw [this]; exact wfNode_empty,
   fun m hm => by simp [initC] at hm⟩

end PfC06
