import Proofs.C06.Queue
/-! # C06 — the receive paths on raw bytes: whatever bytes arrive, the node changes only by merges of
pairs that pass the whole validation (framing, unmarshal, non-empty key, registered codec, decodable
value); a truncated full-state message merges a prefix of what the complete message would merge. -/
namespace PfC06
open Ring C03 C06 PfC03 Common

theorem scan_append (st : FState) (a b : Bytes) :
    scan st (a ++ b) = ((scan st a).1 ++ (scan (scan st a).2 b).1, (scan (scan st a).2 b).2) := by
  induction a generalizing st with
  | nil => simp [scan]
  | cons x xs ih =>
    simp only [List.cons_append, scan]
    rw [ih]
    cases (feed st x).2 <;> simp

/-- the frames of a truncated stream are a prefix of the frames of the whole stream -/
theorem frames_take_prefix (data : Bytes) (k : Nat) : (framesOf (data.take k)).1 <+: (framesOf data).1 := by
  unfold framesOf
  simp only
  have h := scan_append (.hdr []) (data.take k) (data.drop k)
  rw [List.take_append_drop] at h
  rw [h]
  exact List.prefix_append _ _

section
variable {V : Type} [MergeVal V] (unm : Bytes → Option RawPair) (codecs : String → Option (Bytes → Option V))

/-- the loop over the frames merges exactly the decodable pairs before the first frame that does not unmarshal -/
theorem mergeFrames_eq (cfg : Cfg) (now : Int) (nd : Node V) (fs : List Bytes) :
    mergeFrames unm codecs cfg now nd fs = (stateMsgs unm codecs fs).foldl (deliver cfg now) nd := by
  induction fs generalizing nd with
  | nil => rfl
  | cons f fs ih =>
    simp only [mergeFrames, stateMsgs]
    cases unm f with
    | none => rfl
    | some p =>
      simp only
      cases decodePair codecs p with
      | none => exact ih nd
      | some m => simp only [List.foldl_cons]; exact ih _

/-- every pair that is merged passed the whole validation: it comes from a frame that unmarshals, has a
non-empty key, a registered codec and a value the codec decodes -/
theorem stateMsgs_valid (fs : List Bytes) (m : Msg V) (hm : m ∈ stateMsgs unm codecs fs) :
    ∃ f ∈ fs, ∃ p, unm f = some p ∧ decodePair codecs p = some m ∧ m.key ≠ "" := by
  induction fs with
  | nil => simp [stateMsgs] at hm
  | cons f fs ih =>
    simp only [stateMsgs] at hm
    cases hu : unm f with
    | none => rw [hu] at hm; simp at hm
    | some p =>
      rw [hu] at hm
      simp only at hm
      cases hd : decodePair codecs p with
      | none =>
        rw [hd] at hm
        obtain ⟨f', hf', h⟩ := ih hm
        exact ⟨f', by simp [hf'], h⟩
      | some m' =>
        rw [hd] at hm
        rcases List.mem_cons.1 hm with h | h
        · subst h
          refine ⟨f, by simp, p, hu, hd, ?_⟩
          unfold decodePair at hd
          by_cases hk : p.key.isEmpty = true
          · rw [if_pos hk] at hd; cases hd
          · rw [if_neg hk] at hd
            cases hc : codecs p.codec with
            | none => rw [hc] at hd; cases hd
            | some dec =>
              rw [hc] at hd
              simp only at hd
              cases hv : dec (if p.value.isEmpty then emptySnappy else p.value) with
              | none => rw [hv] at hd; cases hd
              | some v =>
                rw [hv] at hd
                injection hd with hd
                rw [← hd]
                intro he
                apply hk
                simp only at he
                rw [he]; rfl
        · obtain ⟨f', hf', h'⟩ := ih h
          exact ⟨f', by simp [hf'], h'⟩

/-- the merged pairs have non-empty keys, so the loop is `mergeRemoteState` of the decodable pairs -/
theorem foldl_deliver_eq_mergeRemoteState (cfg : Cfg) (now : Int) (nd : Node V) (ms : List (Msg V))
    (hk : ∀ m ∈ ms, m.key ≠ "") : ms.foldl (deliver cfg now) nd = mergeRemoteState cfg now nd ms := by
  unfold mergeRemoteState
  induction ms generalizing nd with
  | nil => rfl
  | cons m ms ih =>
    simp only [List.foldl_cons]
    have hne : m.key ≠ "" := hk m (by simp)
    have : notifyMsg cfg now nd m = deliver cfg now nd m := by
      unfold notifyMsg
      have : m.key.isEmpty = false := by
        cases h : m.key.isEmpty with
        | false => rfl
        | true => exact absurd (by simpa [String.isEmpty_iff] using h) hne
      rw [this]; rfl
    rw [this]
    exact ih _ (fun x hx => hk x (by simp [hx]))

/-- **`MergeRemoteState` on arbitrary bytes**: the node changes exactly by `mergeRemoteState` of the
validated pairs (`stateMsgs`) — nothing else in the byte stream has any effect -/
theorem state_bytes_only_merges (cfg : Cfg) (now : Int) (nd : Node V) (data : Bytes) :
    mergeRemoteBytes unm codecs cfg now nd data =
      mergeRemoteState cfg now nd (stateMsgs unm codecs (framesOf data).1) := by
  unfold mergeRemoteBytes
  rw [mergeFrames_eq]
  apply foldl_deliver_eq_mergeRemoteState
  intro m hm
  obtain ⟨_, _, _, _, _, h⟩ := stateMsgs_valid unm codecs _ m hm
  exact h

/-- bytes none of whose frames yields a validated pair change nothing (garbage, a bad first frame,
unknown codecs, empty keys, undecodable values, an empty stream, an incomplete header …) -/
theorem state_bytes_noop (cfg : Cfg) (now : Int) (nd : Node V) (data : Bytes)
    (h : stateMsgs unm codecs (framesOf data).1 = []) : mergeRemoteBytes unm codecs cfg now nd data = nd := by
  rw [state_bytes_only_merges, h]; rfl

/-- **`NotifyMsg` on arbitrary bytes**: nothing happens, or exactly one validated pair is merged -/
theorem notify_bytes_only_merges (cfg : Cfg) (now : Int) (nd : Node V) (data : Bytes) :
    notifyBytes unm codecs cfg now nd data = nd ∨
    ∃ p m, unm data = some p ∧ decodePair codecs p = some m ∧ notifyBytes unm codecs cfg now nd data = deliver cfg now nd m := by
  unfold notifyBytes
  cases hu : unm data with
  | none => exact Or.inl rfl
  | some p =>
    simp only
    cases hd : decodePair codecs p with
    | none => exact Or.inl rfl
    | some m => exact Or.inr ⟨p, m, rfl, hd, rfl⟩

theorem stateMsgs_prefix {fs fs' : List Bytes} (h : fs <+: fs') : stateMsgs unm codecs fs <+: stateMsgs unm codecs fs' := by
  obtain ⟨t, rfl⟩ := h
  induction fs with
  | nil => exact List.nil_prefix
  | cons f fs ih =>
    simp only [List.cons_append, stateMsgs]
    cases unm f with
    | none => exact List.nil_prefix
    | some p =>
      simp only
      cases decodePair codecs p with
      | none => exact ih
      | some m => exact List.cons_prefix_cons.2 ⟨rfl, ih⟩

/-- **truncation**: a full-state message cut anywhere merges a prefix of the pairs the whole message merges -/
theorem truncated_state_prefix (data : Bytes) (k : Nat) :
    stateMsgs unm codecs (framesOf (data.take k)).1 <+: stateMsgs unm codecs (framesOf data).1 :=
  stateMsgs_prefix unm codecs (frames_take_prefix data k)

end

end PfC06
