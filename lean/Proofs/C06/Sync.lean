import Proofs.C06.Cluster
/-! # C06 — monotonicity of every store and convergence under the explicit sync sequence -/
namespace PfC06
open Ring C03 C06 PfC03

variable {U : String → Int → Bool → Inst}

/-- store of node `i` (empty if there is no such node) -/
def nstore (c : Cluster Desc) (i : Nat) : Store Desc :=
  match c.nodes[i]? with
  | none => []
  | some nd => nd.store

/-- value node `i` holds for `key` -/
def nval (c : Cluster Desc) (i : Nat) (key : String) : Desc := sval (nstore c i) key

theorem nval_drawn {c : Cluster Desc} (hinv : Inv U c) (i : Nat) (key : String) : GoodVal U c.clock (nval c i key) := by
  unfold nval nstore
  cases h : c.nodes[i]? with
  | none => exact goodVal_nil _
  | some nd => exact (hinv.nodes nd (List.mem_of_getElem? h)).1.1.sval key

theorem runC_cons {V : Type} [MergeVal V] (cfg : Cfg) (c : Cluster V) (e : Event V) (es : List (Event V)) :
    runC cfg c (e :: es) = runC cfg (stepC cfg c e) es := rfl

theorem runC_append {V : Type} [MergeVal V] (cfg : Cfg) (c : Cluster V) (es es' : List (Event V)) :
    runC cfg c (es ++ es') = runC cfg (runC cfg c es) es' := by
  unfold runC; rw [List.foldl_append]

/-- a run inside the property's quantifier: every CAS function writes good values at its clock -/
def GoodRun (U : String → Int → Bool → Inst) (cfg : Cfg) : Cluster Desc → List (Event Desc) → Prop
  | _, [] => True
  | c, e :: es => GoodEv U c.clock e ∧ GoodRun U cfg (stepC cfg c e) es

theorem inv_run (hU : Univ U) (hT : TombClosed U) {cfg : Cfg} (hcfg : cfg.lit = 0) {c : Cluster Desc} (hinv : Inv U c)
    (es : List (Event Desc)) (hes : GoodRun U cfg c es) : Inv U (runC cfg c es) := by
  induction es generalizing c with
  | nil => exact hinv
  | cons e es ih => exact ih (inv_step hU hT hcfg hinv e hes.1) hes.2

/-- the initial cluster: `n` empty nodes, nothing in flight -/
def initC (n : Nat) (clock : Int) : Cluster Desc := { nodes := List.replicate n {}, net := [], clock := clock }

theorem inv_init (n : Nat) {clock : Int} (h : clock ≥ 1) : Inv U (initC n clock) :=
  ⟨h, fun nd hnd => by
      have : nd = {} := by simpa [initC] using (List.mem_replicate.1 hnd).2
      rw [this]; exact ⟨goodNode_empty _, by simp [KeysNodup]⟩,
   fun m hm => by simp [initC] at hm⟩

/-! ## monotonicity -/

theorem upd_nstore (c : Cluster Desc) (n : Nat) (f : Node Desc → Node Desc) (i : Nat) :
    nstore (c.upd n f) i = if i = n then (match c.nodes[i]? with | none => [] | some nd => (f nd).store) else nstore c i := by
  unfold nstore Cluster.upd
  simp only [modifyAt_get?]
  by_cases h : i = n
  · rw [if_pos h, if_pos h]; cases c.nodes[i]? <;> rfl
  · rw [if_neg h, if_neg h]

/-- every event except a restart OF THAT NODE only grows the node's store -/
def notRestartOf (i : Nat) : Event Desc → Prop
  | .restart n => n ≠ i
  | _ => True

theorem step_mono (hU : Univ U) (hT : TombClosed U) {cfg : Cfg} (hcfg : cfg.lit = 0) {c : Cluster Desc} (hinv : Inv U c)
    (ev : Event Desc) (hev : GoodEv U c.clock ev) (i : Nat) (hnr : notRestartOf i ev) :
    StoreLe (nstore c i) (nstore (stepC cfg c ev) i) := by
  -- all node updates have the shape `c.upd n f` with `f` growing the store
  have key : ∀ (n : Nat) (f : Node Desc → Node Desc), (∀ nd ∈ c.nodes, StoreLe nd.store (f nd).store) →
      StoreLe (nstore c i) (nstore (c.upd n f) i) := by
    intro n f hf
    rw [upd_nstore]
    by_cases h : i = n
    · rw [if_pos h]
      unfold nstore
      cases hn : c.nodes[i]? with
      | none => exact StoreLe.refl _
      | some nd => exact hf nd (List.mem_of_getElem? hn)
    · rw [if_neg h]; exact StoreLe.refl _
  cases ev with
  | cas n k f => exact key n _ fun nd hnd => (cas_spec hU hT hcfg hinv.clock _ (hinv.nodes nd hnd).1 hev).le
  | gossipTick n =>
    simp only [stepC]
    cases hn : c.nodes[n]? with
    | none => exact StoreLe.refl _
    | some nd => exact key n _ fun _ _ => StoreLe.refl _
  | deliver n m =>
    simp only [stepC]
    cases hm : c.net[m]? with
    | none => exact StoreLe.refl _
    | some msg =>
      exact key n _ fun nd hnd => (notifyMsg_good hU hcfg c.clock (hinv.nodes nd hnd).1 (hinv.net msg (List.mem_of_getElem? hm))).2
  | drop m => exact StoreLe.refl _
  | dup m =>
    simp only [stepC]
    cases c.net[m]? <;> exact StoreLe.refl _
  | pushPull a b =>
    simp only [stepC]
    cases ha : c.nodes[a]? with
    | none => exact StoreLe.refl _
    | some na =>
      have hna := hinv.nodes na (List.mem_of_getElem? ha)
      obtain ⟨hgood, hnd⟩ := localState_good hna.1 hna.2
      apply key b
      intro nd hmem
      exact (mergeRemoteState_spec hU hcfg c.clock _ hgood hnd (hinv.nodes nd hmem).1).2.1
  | corrupt n => exact StoreLe.refl _
  | watch n p k => exact key n _ fun _ _ => StoreLe.refl _
  | watcherRun n w => exact key n _ fun _ _ => StoreLe.refl _
  | notifyTick n =>
    apply key n
    intro nd _
    show StoreLe nd.store (nd.notifs.foldl notifySync nd).store
    rw [(foldl_notifySync nd.notifs nd).1]; exact StoreLe.refl _
  | restart n =>
    have hne : i ≠ n := fun e => hnr e.symm
    simp only [stepC]
    rw [upd_nstore, if_neg hne]; exact StoreLe.refl _
  | delete n k => exact absurd hev (by simp [GoodEv])
  | cleanup n => exact absurd hev (by simp [GoodEv])
  | tick => exact StoreLe.refl _

/-- along a run in which node `i` is not restarted its store only grows -/
theorem run_mono (hU : Univ U) (hT : TombClosed U) {cfg : Cfg} (hcfg : cfg.lit = 0) (es : List (Event Desc))
    {c : Cluster Desc} (hinv : Inv U c) (hes : GoodRun U cfg c es) (i : Nat) (hnr : ∀ e ∈ es, notRestartOf i e) :
    StoreLe (nstore c i) (nstore (runC cfg c es) i) := by
  induction es generalizing c with
  | nil => exact StoreLe.refl _
  | cons e es ih =>
    rw [runC_cons]
    exact (step_mono hU hT hcfg hinv e hes.1 i (hnr e (by simp))).trans
      (ih (inv_step hU hT hcfg hinv e hes.1) hes.2 (fun x hx => hnr x (by simp [hx])))


/-! ## full-state exchange -/

theorem stepC_pushPull (cfg : Cfg) (c : Cluster Desc) (a b : Nat) (na : Node Desc) (ha : c.nodes[a]? = some na) :
    stepC cfg c (.pushPull a b) = c.upd b fun nb => mergeRemoteState cfg c.clock nb (localState na) := by
  simp only [stepC, ha]

/-- after node `b` merged the full state of node `a`, its value for every key is the join of both;
no other node changes -/
theorem pushPull_spec (hU : Univ U) {cfg : Cfg} (hcfg : cfg.lit = 0) {c : Cluster Desc} (hinv : Inv U c) (a b : Nat)
    (hb : b < c.nodes.length) :
    (∀ i, i ≠ b → (stepC cfg c (.pushPull a b)).nodes[i]? = c.nodes[i]?) ∧
    (∀ k, k ≠ "" → Eqv (nval (stepC cfg c (.pushPull a b)) b k) (mergeState (nval c b k) (nval c a k))) ∧
    (stepC cfg c (.pushPull a b)).nodes.length = c.nodes.length ∧ (stepC cfg c (.pushPull a b)).clock = c.clock := by
  cases ha : c.nodes[a]? with
  | none =>
    have : stepC cfg c (.pushPull a b) = c := by simp only [stepC, ha]
    rw [this]
    refine ⟨fun _ _ => rfl, fun k _ => ?_, rfl, rfl⟩
    have hv : nval c a k = [] := by unfold nval nstore; rw [ha]; rfl
    rw [hv]
    have hd := (nval_drawn hinv b k).1
    exact (merge_absorb hU hd drawn_nil (le_nil hd)).symm
  | some na =>
    rw [stepC_pushPull cfg c a b na ha]
    have hna := hinv.nodes na (List.mem_of_getElem? ha)
    obtain ⟨hgood, hnd⟩ := localState_good hna.1 hna.2
    refine ⟨?_, ?_, ?_, rfl⟩
    · intro i hi
      simp only [Cluster.upd, modifyAt_get?, if_neg hi]
    · intro k hkne
      have hbs : ∃ nb, c.nodes[b]? = some nb := ⟨c.nodes[b], by simp [hb]⟩
      obtain ⟨nb, hnb⟩ := hbs
      have hsp := mergeRemoteState_spec hU hcfg c.clock _ hgood hnd (hinv.nodes nb (List.mem_of_getElem? hnb)).1
      have h1 : nval (c.upd b fun nb => mergeRemoteState cfg c.clock nb (localState na)) b k =
          sval (mergeRemoteState cfg c.clock nb (localState na)).store k := by
        unfold nval; rw [upd_nstore, if_pos rfl, hnb]
      have h2 : nval c b k = sval nb.store k := by unfold nval nstore; rw [hnb]
      have h3 : nval c a k = valOf (localState na) k := by
        unfold nval nstore; rw [ha, localState_eq, valOf_localState]
      rw [h1, h2, h3]
      exact hsp.2.2 k hkne
    · simp only [Cluster.upd, modifyAt_length]

/-! ## the explicit sync sequence -/

/-- join of a list of values -/
def joinAll (vs : List Desc) : Desc := vs.foldl mergeState []

theorem foldl_merge_drawn (hU : Univ U) {clock : Int} (vs : List Desc) (hvs : ∀ v ∈ vs, GoodVal U clock v) {s : Desc}
    (hs : GoodVal U clock s) : GoodVal U clock (vs.foldl mergeState s) := by
  induction vs generalizing s with
  | nil => exact hs
  | cons v vs ih => exact ih (fun x hx => hvs x (by simp [hx])) (goodVal_merge hU hs (hvs v (by simp)))

theorem foldl_merge_congr (hU : Univ U) {clock : Int} (vs : List Desc) (hvs : ∀ v ∈ vs, GoodVal U clock v) {s s' : Desc}
    (hs : GoodVal U clock s) (hs' : GoodVal U clock s') (h : Eqv s s') :
    Eqv (vs.foldl mergeState s) (vs.foldl mergeState s') := by
  induction vs generalizing s s' with
  | nil => exact h
  | cons v vs ih =>
    have hv := hvs v (by simp)
    exact ih (fun x hx => hvs x (by simp [hx])) (goodVal_merge hU hs hv) (goodVal_merge hU hs' hv)
      (merge_congr hU hs.1 hs'.1 hv.1 hv.1 h (Eqv.refl v))

theorem le_foldl_init (hU : Univ U) {clock : Int} (vs : List Desc) (hvs : ∀ v ∈ vs, GoodVal U clock v) {s : Desc}
    (hs : GoodVal U clock s) : Le s (vs.foldl mergeState s) := by
  induction vs generalizing s with
  | nil => exact Le.refl _
  | cons v vs ih =>
    have hv := hvs v (by simp)
    exact (le_merge_left hU hs.1 hv.1).trans (ih (fun x hx => hvs x (by simp [hx])) (goodVal_merge hU hs hv))

theorem le_foldl_mem (hU : Univ U) {clock : Int} (vs : List Desc) (hvs : ∀ v ∈ vs, GoodVal U clock v) {s : Desc}
    (hs : GoodVal U clock s) (v : Desc) (hv : v ∈ vs) : Le v (vs.foldl mergeState s) := by
  induction vs generalizing s with
  | nil => simp at hv
  | cons x xs ih =>
    have hx := hvs x (by simp)
    have hxs : ∀ y ∈ xs, GoodVal U clock y := fun y hy => hvs y (by simp [hy])
    rcases List.mem_cons.1 hv with h | h
    · subst h
      exact (le_merge_right hU hs.1 hx.1).trans (le_foldl_init hU xs hxs (goodVal_merge hU hs hx))
    · exact ih hxs (goodVal_merge hU hs hx) h

/-- pass 1: node 0 pulls the full state of the nodes `is` -/
theorem gather_spec (hU : Univ U) (hT : TombClosed U) {cfg : Cfg} (hcfg : cfg.lit = 0) (is : List Nat) (his : ∀ i ∈ is, i ≠ 0)
    {c : Cluster Desc} (hinv : Inv U c) (h0 : 0 < c.nodes.length) :
    let c' := runC cfg c (is.map fun i => Event.pushPull i 0)
    Inv U c' ∧ (∀ i, i ≠ 0 → c'.nodes[i]? = c.nodes[i]?) ∧ c'.nodes.length = c.nodes.length ∧ c'.clock = c.clock ∧
    (∀ k, k ≠ "" → Eqv (nval c' 0 k) ((is.map fun i => nval c i k).foldl mergeState (nval c 0 k))) := by
  induction is generalizing c with
  | nil => exact ⟨hinv, fun _ _ => rfl, rfl, rfl, fun k _ => Eqv.refl _⟩
  | cons i is ih =>
    have hi : i ≠ 0 := his i (by simp)
    obtain ⟨hoth, hview, hlen, hclk⟩ := pushPull_spec hU hcfg hinv i 0 h0
    have hinv1 : Inv U (stepC cfg c (.pushPull i 0)) :=
      inv_step hU hT hcfg hinv _ trivial
    obtain ⟨hI, hO, hL, hC, hV⟩ := ih (fun j hj => his j (by simp [hj])) hinv1 (by rw [hlen]; exact h0)
    simp only [List.map_cons, runC_cons]
    refine ⟨hI, fun j hj => (hO j hj).trans (hoth j hj), hL.trans hlen, hC.trans hclk, fun k hkne => ?_⟩
    refine (hV k hkne).trans ?_
    -- nodes other than 0 are unchanged by the first exchange
    have hsame : (is.map fun j => nval (stepC cfg c (.pushPull i 0)) j k) = is.map fun j => nval c j k := by
      apply List.map_congr_left
      intro j hj
      have hj0 : j ≠ 0 := his j (by simp [hj])
      unfold nval nstore; rw [hoth j hj0]
    rw [hsame, List.foldl_cons]
    have hg : ∀ v ∈ is.map (fun j => nval c j k), GoodVal U c.clock v := by
      intro v hv
      obtain ⟨j, _, rfl⟩ := List.mem_map.1 hv
      exact nval_drawn hinv j k
    have hd1 := nval_drawn hinv1 0 k
    rw [hclk] at hd1
    exact foldl_merge_congr hU _ hg hd1 (goodVal_merge hU (nval_drawn hinv 0 k) (nval_drawn hinv i k)) (hview k hkne)

end PfC06
