import Proofs.C06.Sync
/-! # C06 — convergence: after the two sync passes every node holds the join of all stores -/
namespace PfC06
open Ring C03 C06 PfC03

variable {U : String → Int → Bool → Inst}

theorem nval_congr {c c' : Cluster Desc} {i : Nat} (h : c'.nodes[i]? = c.nodes[i]?) (k : String) : nval c' i k = nval c i k := by
  unfold nval nstore; rw [h]

/-- pass 2: the nodes `is` pull the full state of node 0 -/
theorem scatter_spec (hU : Univ U) (hT : TombClosed U) {cfg : Cfg} (hcfg : cfg.lit = 0) (is : List Nat) (hnd : is.Nodup)
    {c : Cluster Desc} (hinv : Inv U c) (his : ∀ i ∈ is, i ≠ 0 ∧ i < c.nodes.length) :
    let c' := runC cfg c (is.map fun i => Event.pushPull 0 i)
    Inv U c' ∧ (∀ j, j ∉ is → c'.nodes[j]? = c.nodes[j]?) ∧ c'.nodes.length = c.nodes.length ∧
    (∀ j ∈ is, ∀ k, k ≠ "" → Eqv (nval c' j k) (mergeState (nval c j k) (nval c 0 k))) := by
  induction is generalizing c with
  | nil => exact ⟨hinv, fun _ _ => rfl, rfl, fun j hj => by simp at hj⟩
  | cons i is ih =>
    obtain ⟨hi0, hilt⟩ := his i (by simp)
    simp only [List.nodup_cons] at hnd
    obtain ⟨hoth, hview, hlen, _⟩ := pushPull_spec hU hcfg hinv 0 i hilt
    have hinv1 : Inv U (stepC cfg c (.pushPull 0 i)) := inv_step hU hT hcfg hinv _ trivial
    obtain ⟨hI, hO, hL, hV⟩ := ih hnd.2 hinv1 (fun j hj => by rw [hlen]; exact his j (by simp [hj]))
    simp only [List.map_cons, runC_cons]
    refine ⟨hI, ?_, hL.trans hlen, ?_⟩
    · intro j hj
      simp only [List.mem_cons, not_or] at hj
      exact (hO j hj.2).trans (hoth j hj.1)
    · intro j hj k hkne
      rcases List.mem_cons.1 hj with h | h
      · subst h
        rw [nval_congr (hO j hnd.1) k]
        exact hview k hkne
      · have hji : j ≠ i := fun e => hnd.1 (e ▸ h)
        have := hV j h k hkne
        rw [nval_congr (hoth j hji) k, nval_congr (hoth 0 (fun e => hi0 e.symm)) k] at this
        exact this

theorem range_succ_nodup (n : Nat) : ((List.range n).map (· + 1)).Nodup := by
  have := List.nodup_range (n := n)
  exact List.Pairwise.map _ (fun a b h => by simpa using h) this

theorem syncEvents_eq (n : Nat) :
    syncEvents Desc n = (((List.range n).map (· + 1)).map fun i => Event.pushPull i 0) ++
      (((List.range n).map (· + 1)).map fun i => Event.pushPull 0 i) := by
  simp [syncEvents, List.map_map, Function.comp_def]

/-- **convergence**: from any state satisfying the invariant (in particular any state reachable by
loss, duplication, reordering, delay, partition, restarts), the two full-state sync passes leave
every node with the join of all stores, for every key. -/
theorem sync_converges (hU : Univ U) (hT : TombClosed U) {cfg : Cfg} (hcfg : cfg.lit = 0) {c : Cluster Desc}
    (hinv : Inv U c) (h0 : 0 < c.nodes.length) (i : Nat) (hi : i < c.nodes.length) (key : String) (hkey : key ≠ "") :
    Eqv (nval (runC cfg c (syncEvents Desc (c.nodes.length - 1))) i key)
      (joinAll ((List.range c.nodes.length).map fun j => nval c j key)) := by
  rw [syncEvents_eq, runC_append]
  obtain ⟨is, his⟩ : ∃ is, is = (List.range (c.nodes.length - 1)).map (· + 1) := ⟨_, rfl⟩
  rw [← his]
  have hne : ∀ j ∈ is, j ≠ 0 := by
    intro j hj; rw [his] at hj; obtain ⟨a, _, rfl⟩ := List.mem_map.1 hj; omega
  have hlt : ∀ j ∈ is, j < c.nodes.length := by
    intro j hj; rw [his] at hj; obtain ⟨a, ha, rfl⟩ := List.mem_map.1 hj
    have := List.mem_range.1 ha; omega
  obtain ⟨hI1, hO1, hL1, hC1, hV1⟩ := gather_spec hU hT hcfg is hne hinv h0
  obtain ⟨c1, hc1⟩ : ∃ c1, c1 = runC cfg c (is.map fun i => Event.pushPull i 0) := ⟨_, rfl⟩
  rw [← hc1] at hI1 hO1 hL1 hC1 hV1 ⊢
  obtain ⟨hI2, hO2, hL2, hV2⟩ := scatter_spec hU hT hcfg is (his ▸ range_succ_nodup _) hI1
    (fun j hj => ⟨hne j hj, by rw [hL1]; exact hlt j hj⟩)
  -- the join held by node 0 after pass 1
  have hgood : ∀ v ∈ is.map (fun j => nval c j key), GoodVal U c.clock v := by
    intro v hv; obtain ⟨j, _, rfl⟩ := List.mem_map.1 hv; exact nval_drawn hinv j key
  have hJ := hV1 key hkey
  -- node 0 after pass 1 = join of all
  have hjoin : Eqv ((is.map fun j => nval c j key).foldl mergeState (nval c 0 key))
      (joinAll ((List.range c.nodes.length).map fun j => nval c j key)) := by
    have hr : List.range c.nodes.length = 0 :: is := by
      rw [his]
      have : c.nodes.length = (c.nodes.length - 1) + 1 := by omega
      rw [this, List.range_succ_eq_map]; simp
    rw [hr, List.map_cons]
    unfold joinAll
    rw [List.foldl_cons]
    exact foldl_merge_congr hU _ hgood (nval_drawn hinv 0 key)
      (goodVal_merge hU (goodVal_nil _) (nval_drawn hinv 0 key)) (eqv_merge_nil hU (nval_drawn hinv 0 key).1)
  by_cases hi0 : i = 0
  · subst hi0
    have : (0 : Nat) ∉ is := fun h => hne 0 h rfl
    rw [nval_congr (hO2 0 this) key]
    exact hJ.trans hjoin
  · have him : i ∈ is := by
      rw [his]; exact List.mem_map.2 ⟨i - 1, List.mem_range.2 (by omega), by omega⟩
    refine (hV2 i him key hkey).trans ?_
    rw [nval_congr (hO1 i hi0) key]
    -- the pulled join already contains the node's own value
    have hd0 : GoodVal U c.clock (nval c1 0 key) := by have := nval_drawn hI1 0 key; rwa [hC1] at this
    have hle : Le (nval c i key) (nval c1 0 key) :=
      Le.of_eqv_right hJ.symm (le_foldl_mem hU _ hgood (nval_drawn hinv 0 key) _ (List.mem_map.2 ⟨i, him, rfl⟩))
    have hdi := (nval_drawn hinv i key).1
    have habs : Eqv (mergeState (nval c i key) (nval c1 0 key)) (nval c1 0 key) :=
      eqv_of_le_le (mergeState_drawn hU hdi hd0.1) hd0.1 (merge_lub hU hdi hd0.1 hle (Le.refl _)) (le_merge_right hU hdi hd0.1)
    exact habs.trans (hJ.trans hjoin)

/-- the join contains every node's value: whatever a node held before the sync (in particular the
output of every CAS it acknowledged, by `CasNodeSpec.acked` and monotonicity) is contained in every
node's value afterwards -/
theorem le_joinAll (hU : Univ U) {c : Cluster Desc} (hinv : Inv U c) (j : Nat) (hj : j < c.nodes.length) (key : String) :
    Le (nval c j key) (joinAll ((List.range c.nodes.length).map fun j => nval c j key)) := by
  unfold joinAll
  apply le_foldl_mem hU _ _ (goodVal_nil c.clock)
  · exact List.mem_map.2 ⟨j, List.mem_range.2 hj, rfl⟩
  · intro v hv; obtain ⟨a, _, rfl⟩ := List.mem_map.1 hv; exact nval_drawn hinv a key

theorem acked_visible (hU : Univ U) (hT : TombClosed U) {cfg : Cfg} (hcfg : cfg.lit = 0) {c : Cluster Desc}
    (hinv : Inv U c) (h0 : 0 < c.nodes.length) (i j : Nat) (hi : i < c.nodes.length) (hj : j < c.nodes.length) (key : String)
    (hkey : key ≠ "") : Le (nval c j key) (nval (runC cfg c (syncEvents Desc (c.nodes.length - 1))) i key) :=
  Le.of_eqv_right (sync_converges hU hT hcfg hinv h0 i hi key hkey).symm (le_joinAll hU hinv j hj key)

end PfC06
