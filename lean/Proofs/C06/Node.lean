import Proofs.C06.Mvk
/-! # C06 — one node: `deliver`, `notifyMsg`, `mergeRemoteState`, `gossip` on good nodes -/
namespace PfC06
open Ring C03 C06 PfC03

variable {U : String → Int → Bool → Inst}

/-- a message of the coherent universe -/
def GoodMsg (U : String → Int → Bool → Inst) (clock : Int) (m : Msg Desc) : Prop :=
  GoodVal U clock m.val ∧ m.deleted = false

/-- a queued broadcast: a good change that is contained in the node's store, described by its ids -/
def GoodBcast (U : String → Int → Bool → Inst) (clock : Int) (st : Store Desc) (b : Bcast Desc) : Prop :=
  GoodVal U clock b.change ∧ b.deleted = false ∧ Le b.change (sval st b.key) ∧ b.content = ids b.change

def GoodNode (U : String → Int → Bool → Inst) (clock : Int) (nd : Node Desc) : Prop :=
  GoodStore U clock nd.store ∧ (∀ b ∈ nd.localQ, GoodBcast U clock nd.store b) ∧
  (∀ b ∈ nd.gossipQ, GoodBcast U clock nd.store b)

/-- the store only grows (per key, per instance) -/
def StoreLe (st st' : Store Desc) : Prop := ∀ k, Le (sval st k) (sval st' k)

theorem StoreLe.refl (st : Store Desc) : StoreLe st st := fun _ => Le.refl _
theorem StoreLe.trans {a b c : Store Desc} (h1 : StoreLe a b) (h2 : StoreLe b c) : StoreLe a c :=
  fun k => (h1 k).trans (h2 k)

theorem sval_congr {st st' : Store Desc} {k : String} (h : getE st' k = getE st k) : sval st' k = sval st k := by
  unfold sval; rw [h]

theorem goodNode_empty (clock : Int) : GoodNode U clock ({} : Node Desc) :=
  ⟨fun k e h => by simp [getE] at h, fun b h => by simp at h, fun b h => by simp at h⟩

theorem GoodBcast.mono_store {clock : Int} {st st' : Store Desc} {b : Bcast Desc} (h : GoodBcast U clock st b)
    (hle : StoreLe st st') : GoodBcast U clock st' b :=
  ⟨h.1, h.2.1, h.2.2.1.trans (hle b.key), h.2.2.2⟩

theorem mem_enqueue {V : Type} {q : List (Bcast V)} {b x : Bcast V} (h : x ∈ enqueue q b) : x ∈ q ∨ x = b := by
  unfold enqueue at h
  rcases List.mem_append.1 h with h | h
  · exact Or.inl (List.mem_filter.1 h).1
  · exact Or.inr (by simpa using h)

/-- the effect of a gossip-path step on the queues: nothing, or one enqueue of a fresh sound broadcast -/
inductive QueueStep (U : String → Int → Bool → Inst) (clock : Int) (key : String) (nd nd' : Node Desc) : Prop
  | same (h1 : nd'.localQ = nd.localQ) (h2 : nd'.gossipQ = nd.gossipQ) (h3 : ∀ k, getE nd'.store k = getE nd.store k)
  | enq (b : Bcast Desc) (h1 : nd'.localQ = nd.localQ) (h2 : nd'.gossipQ = enqueue nd.gossipQ b)
      (hk : b.key = key) (hb : GoodBcast U clock nd'.store b)
      (hcur : ∀ id x, get? b.change id = some x → get? (sval nd'.store key) id = some x)
      (hver : ∃ e, getE nd'.store key = some e ∧ e.version = b.version ∧
        b.version = (match getE nd.store key with | none => 1 | some c => c.version + 1))

structure DeliverSpec (U : String → Int → Bool → Inst) (clock : Int) (nd : Node Desc) (m : Msg Desc) (nd' : Node Desc) : Prop where
  good : GoodNode U clock nd'
  other : ∀ k, k ≠ m.key → getE nd'.store k = getE nd.store k
  view : Eqv (sval nd'.store m.key) (mergeState (sval nd.store m.key) m.val)
  queue : QueueStep U clock m.key nd nd'

theorem cfg_limit_none {cfg : Cfg} (h : cfg.lit = 0) (now : Int) : cfg.limit now = none := by
  unfold Cfg.limit; rw [h]; simp

theorem notify_store (cfg : Cfg) (nd : Node Desc) (key : String) : (notify cfg nd key).store = nd.store := by
  unfold notify notifySync; split <;> rfl
theorem notify_localQ (cfg : Cfg) (nd : Node Desc) (key : String) : (notify cfg nd key).localQ = nd.localQ := by
  unfold notify notifySync; split <;> rfl
theorem notify_gossipQ (cfg : Cfg) (nd : Node Desc) (key : String) : (notify cfg nd key).gossipQ = nd.gossipQ := by
  unfold notify notifySync; split <;> rfl

theorem storeLe_of_view (hU : Univ U) {clock : Int} {st st' : Store Desc} {key : String} {inc : Desc}
    (hst : GoodStore U clock st) (hinc : GoodVal U clock inc)
    (hother : ∀ k, k ≠ key → getE st' k = getE st k)
    (hview : Eqv (sval st' key) (mergeState (sval st key) inc)) : StoreLe st st' := by
  intro k
  by_cases hk : k = key
  · subst hk
    exact Le.of_eqv_right hview.symm (le_merge_left hU (hst.sval k).1 hinc.1)
  · rw [sval_congr (hother k hk)]; exact Le.refl _

theorem le_of_sub {a b : Desc} (ha : Drawn U a) (hb : Drawn U b)
    (h : ∀ id x, get? a id = some x → get? b id = some x) : Le a b := by
  intro k
  cases hg : get? a k with
  | none => rw [rkO_none]; exact rkO_nonneg hb k
  | some x => rw [h k x hg]; exact Int.le_refl _

theorem deliver_spec (hU : Univ U) {cfg : Cfg} (hcfg : cfg.lit = 0) {clock : Int} (now : Int) {nd : Node Desc} {m : Msg Desc}
    (hnd : GoodNode U clock nd) (hm : GoodMsg U clock m) : DeliverSpec U clock nd m (deliver cfg now nd m) := by
  obtain ⟨hst, hlq, hgq⟩ := hnd
  have hspec := mvk_gossip hU (key := m.key) now m.updateTime hst hm.1
  unfold deliver
  rw [cfg_limit_none hcfg, hm.2]
  generalize hr : mergeValueForKey none now nd.store m.key m.val false 0 false m.updateTime = r at hspec
  obtain ⟨hne, hgood, hother, hview, hquiet, hout⟩ := hspec
  simp only [hne, Bool.false_eq_true, if_false]
  have hle : StoreLe nd.store r.store := storeLe_of_view hU hst hm.1 hother hview
  cases ho : r.out with
  | none =>
    refine ⟨⟨hgood, fun b hb => (hlq b hb).mono_store hle, fun b hb => (hgq b hb).mono_store hle⟩, hother, hview, ?_⟩
    exact QueueStep.same rfl rfl (hquiet ho)
  | some o =>
    obtain ⟨hod, hoc, hone, hcur, hver⟩ := hout o ho
    have hb : GoodBcast U clock r.store
        { key := m.key, content := MergeVal.names o.change, version := o.version, change := o.change,
          deleted := o.deleted, updateTime := o.updateTime } :=
      ⟨hoc, hod, le_of_sub hoc.1 (hgood.sval m.key).1 hcur, rfl⟩
    simp only [broadcast, Bool.false_eq_true, if_false]
    refine ⟨⟨?_, ?_, ?_⟩, ?_, ?_, ?_⟩
    · simpa [notify_store] using hgood
    · intro b hbq
      simp only [notify_localQ, notify_store] at hbq ⊢
      exact (hlq b hbq).mono_store hle
    · intro b hbq
      simp only [notify_gossipQ, notify_store] at hbq ⊢
      rcases mem_enqueue hbq with h | h
      · exact (hgq b h).mono_store hle
      · rw [h]; exact hb
    · intro k hk; simp only [notify_store]; exact hother k hk
    · simpa [notify_store] using hview
    · refine QueueStep.enq ({ key := m.key, content := MergeVal.names o.change, version := o.version, change := o.change, deleted := o.deleted, updateTime := o.updateTime } : Bcast Desc) (by simp [notify_localQ]) (by simp [notify_gossipQ]) rfl ?_ ?_ ?_
      · simpa [notify_store] using hb
      · simpa [notify_store] using hcur
      · obtain ⟨e, h1, h2, h3⟩ := hver
        exact ⟨e, by simpa [notify_store] using h1, h2, h3⟩

theorem DeliverSpec.le (hU : Univ U) {clock : Int} {nd nd' : Node Desc} {m : Msg Desc} (hnd : GoodNode U clock nd)
    (hm : GoodMsg U clock m) (h : DeliverSpec U clock nd m nd') : StoreLe nd.store nd'.store :=
  storeLe_of_view hU hnd.1 hm.1 h.other h.view

/-! ## `NotifyMsg` -/

theorem notifyMsg_good (hU : Univ U) {cfg : Cfg} (hcfg : cfg.lit = 0) {clock : Int} (now : Int) {nd : Node Desc} {m : Msg Desc}
    (hnd : GoodNode U clock nd) (hm : GoodMsg U clock m) :
    GoodNode U clock (notifyMsg cfg now nd m) ∧ StoreLe nd.store (notifyMsg cfg now nd m).store := by
  unfold notifyMsg
  split
  · exact ⟨hnd, StoreLe.refl _⟩
  · exact ⟨(deliver_spec hU hcfg now hnd hm).good, (deliver_spec hU hcfg now hnd hm).le hU hnd hm⟩

/-! ## `MergeRemoteState` -/

/-- the value a list of pair messages carries for a key (first pair of that key) -/
def valOf (ms : List (Msg Desc)) (k : String) : Desc :=
  match ms with
  | [] => []
  | m :: r => if m.key = k then m.val else valOf r k

theorem notifyMsg_other {cfg : Cfg} (now : Int) {nd : Node Desc} {m : Msg Desc} (hk : m.key = "") :
    notifyMsg cfg now nd m = nd := by
  unfold notifyMsg; rw [hk]; rfl

theorem notifyMsg_deliver {cfg : Cfg} (now : Int) {nd : Node Desc} {m : Msg Desc} (hk : m.key ≠ "") :
    notifyMsg cfg now nd m = deliver cfg now nd m := by
  unfold notifyMsg
  have : m.key.isEmpty = false := by
    cases h : m.key.isEmpty with
    | false => rfl
    | true => exact absurd (by simpa [String.isEmpty_iff] using h) hk
  rw [this]; rfl

/-- push/pull: the node stays good, its store only grows, and for every (non-empty) key its value
becomes the join with the value the message carries for that key -/
theorem mergeRemoteState_spec (hU : Univ U) {cfg : Cfg} (hcfg : cfg.lit = 0) {clock : Int} (now : Int) (ms : List (Msg Desc))
    (hms : ∀ m ∈ ms, GoodMsg U clock m) (hnodup : (ms.map (·.key)).Nodup) {nd : Node Desc} (hnd : GoodNode U clock nd) :
    GoodNode U clock (mergeRemoteState cfg now nd ms) ∧ StoreLe nd.store (mergeRemoteState cfg now nd ms).store ∧
    (∀ k, k ≠ "" → Eqv (sval (mergeRemoteState cfg now nd ms).store k) (mergeState (sval nd.store k) (valOf ms k))) := by
  induction ms generalizing nd with
  | nil =>
    refine ⟨hnd, StoreLe.refl _, fun k _ => ?_⟩
    simp only [mergeRemoteState, List.foldl_nil, valOf]
    exact (merge_absorb hU (hnd.1.sval k).1 drawn_nil (le_nil (hnd.1.sval k).1)).symm
  | cons m rest ih =>
    have hm := hms m (by simp)
    have hrest : ∀ x ∈ rest, GoodMsg U clock x := fun x hx => hms x (by simp [hx])
    simp only [List.map_cons, List.nodup_cons] at hnodup
    have hgood := notifyMsg_good hU hcfg now hnd hm
    obtain ⟨hg, hle, hv⟩ := ih hrest hnodup.2 hgood.1
    simp only [mergeRemoteState, List.foldl_cons] at hg hle hv ⊢
    refine ⟨hg, hgood.2.trans hle, fun k hkne => ?_⟩
    unfold valOf
    by_cases hk : m.key = k
    · rw [if_pos hk]
      subst hk
      have hd : notifyMsg cfg now nd m = deliver cfg now nd m := notifyMsg_deliver now hkne
      have hds := deliver_spec hU hcfg now hnd hm
      rw [hd] at hv hgood ⊢
      -- the rest does not touch this key
      have hno : valOf rest m.key = [] := by
        have : m.key ∉ rest.map (·.key) := hnodup.1
        clear hv hg hle ih hrest hms
        induction rest with
        | nil => rfl
        | cons x xs ihx =>
          simp only [List.map_cons, List.mem_cons, not_or] at this
          unfold valOf; rw [if_neg (fun e => this.1 e.symm)]
          exact ihx (by simp only [List.map_cons, List.nodup_cons] at hnodup; exact ⟨fun h => hnodup.1 (by simp [h]), hnodup.2.2⟩) this.2
      have h1 := hv m.key hkne
      rw [hno] at h1
      have hsv := (hds.good.1.sval m.key).1
      exact (h1.trans (merge_absorb hU hsv drawn_nil (le_nil hsv))).trans hds.view
    · rw [if_neg hk]
      have h1 := hv k hkne
      have hsame : getE (notifyMsg cfg now nd m).store k = getE nd.store k := by
        by_cases he : m.key = ""
        · rw [notifyMsg_other now he]
        · rw [notifyMsg_deliver now he]
          exact (deliver_spec hU hcfg now hnd hm).other k (fun e => hk e.symm)
      rw [sval_congr hsame] at h1
      exact h1

theorem valOf_localState (st : Store Desc) (k : String) :
    valOf (localState ({ store := st } : Node Desc)) k = sval st k := by
  unfold localState sval
  induction st with
  | nil => rfl
  | cons x xs ih =>
    obtain ⟨k', e⟩ := x
    simp only [List.map_cons, valOf, getE]
    by_cases h : k' = k
    · rw [if_pos h, if_pos h]
    · rw [if_neg h, if_neg h]; exact ih

theorem localState_eq (nd : Node Desc) : localState nd = localState ({ store := nd.store } : Node Desc) := rfl

end PfC06
