import Proofs.C06.Queue
/-! # C06 — watchers: every `WatchKey` watcher is either pending (notified, not yet run) or has seen
the current value; at quiescence every watcher has been called with the current value. -/
namespace PfC06
open Ring C03 C06 PfC03

variable {U : String → Int → Bool → Inst}

def verOf (st : Store Desc) (k : String) : Nat := match getE st k with | none => 0 | some e => e.version

def lookL {α : Type} (l : List (String × α)) (k : String) : Option α :=
  match l with
  | [] => none
  | (k', v) :: r => if k' = k then some v else lookL r k

theorem lookL_setLast {α : Type} (l : List (String × α)) (k : String) (v : α) (k' : String) :
    lookL (setLast l k v) k' = if k' = k then some v else lookL l k' := by
  induction l with
  | nil =>
    simp only [setLast, lookL]
    by_cases h : k' = k
    · rw [if_pos h, if_pos h.symm]
    · rw [if_neg h, if_neg (fun e => h e.symm)]
  | cons x xs ih =>
    obtain ⟨kx, vx⟩ := x
    by_cases hk : kx = k
    · by_cases h : k' = k
      · simp [setLast, lookL, hk, h]
      · have h' : ¬ k = k' := fun e => h e.symm
        simp [setLast, lookL, hk, h, h']
    · by_cases h2 : kx = k'
      · have h3 : ¬ k' = k := fun e => hk (h2.trans e)
        simp [setLast, lookL, hk, h2, h3]
      · simp [setLast, lookL, hk, h2, ih]

def seenOf (w : Watcher Desc) (k : String) : Nat := (lookL w.seen k).getD 0

/-- a `WatchKey` watcher in step with its node -/
structure WOk (nd : Node Desc) (w : Watcher Desc) : Prop where
  cap : w.cap = 1
  pend : ∀ p ∈ w.pending, p = w.key
  le : seenOf w w.key ≤ verOf nd.store w.key
  /-- a change it has not seen is on its way: in its channel or among the delayed notifications -/
  notified : verOf nd.store w.key ≠ seenOf w w.key → w.key ∈ w.pending ∨ w.key ∈ nd.notifs
  /-- otherwise the value its function was last called with is the current one -/
  cur : ∀ v, lookL w.last w.key = some v → verOf nd.store w.key = seenOf w w.key →
          ∃ e, getE nd.store w.key = some e ∧ v = removeTombstones none e.val
  called : ∀ v, lookL w.last w.key = some v → (getE nd.store w.key).isSome = true

def WInv (nd : Node Desc) : Prop := ∀ w ∈ nd.watchers, w.isPrefix = false → WOk nd w

/-- how a merge step looks from the watchers' side -/
inductive WStep (cfg : Cfg) (key : String) (nd nd' : Node Desc) : Prop
  | quiet (h1 : ∀ k, getE nd'.store k = getE nd.store k) (h2 : nd'.watchers = nd.watchers) (h3 : nd'.notifs = nd.notifs)
  | changed (h1 : ∀ k, k ≠ key → getE nd'.store k = getE nd.store k)
      (h2 : ∃ e, getE nd'.store key = some e ∧ e.version = verOf nd.store key + 1)
      (h3 : nd'.watchers = (notify cfg nd key).watchers) (h4 : nd'.notifs = (notify cfg nd key).notifs)

theorem verOf_congr {st st' : Store Desc} {k : String} (h : getE st' k = getE st k) : verOf st' k = verOf st k := by
  unfold verOf; rw [h]

theorem notify_matches (w : Watcher Desc) (hp : w.isPrefix = false) (key : String) : w.matches key = (w.key == key) := by
  unfold Watcher.matches; rw [hp]; simp

theorem notify_fields (w : Watcher Desc) (key : String) :
    (w.notify key).isPrefix = w.isPrefix ∧ (w.notify key).key = w.key ∧ (w.notify key).cap = w.cap ∧
    (w.notify key).last = w.last ∧ (w.notify key).seen = w.seen := by
  unfold Watcher.notify; split <;> exact ⟨rfl, rfl, rfl, rfl, rfl⟩

/-- a key watcher's channel after a notification for its key holds the key; for other keys it is untouched -/
theorem notify_pending (w : Watcher Desc) (hp : w.isPrefix = false) (hcap : w.cap = 1) (hpend : ∀ p ∈ w.pending, p = w.key)
    (key : String) :
    (∀ p ∈ (w.notify key).pending, p = w.key) ∧ (key = w.key → w.key ∈ (w.notify key).pending) ∧
    (∀ p ∈ w.pending, p ∈ (w.notify key).pending) := by
  unfold Watcher.notify
  rw [notify_matches w hp, hcap]
  by_cases hk : (w.key == key) = true
  · have hk' : w.key = key := by simpa using hk
    by_cases hl : w.pending.length < 1
    · rw [if_pos ⟨hk, hl⟩]
      refine ⟨?_, fun _ => by simp [hk'], fun p hpm => by simp [hpm]⟩
      intro p hpm
      rcases List.mem_append.1 hpm with h | h
      · exact hpend p h
      · have : p = key := by simpa using h
        rw [this, hk']
    · rw [if_neg (fun h => hl h.2)]
      refine ⟨hpend, fun _ => ?_, fun p hpm => hpm⟩
      cases hpd : w.pending with
      | nil => rw [hpd] at hl; simp at hl
      | cons p ps => have := hpend p (by rw [hpd]; simp); rw [this]; simp
  · rw [if_neg (fun h => hk h.1)]
    refine ⟨hpend, fun h => ?_, fun p hpm => hpm⟩
    exact absurd (by simp [h]) hk

theorem winv_step {cfg : Cfg} {key : String} {nd nd' : Node Desc} (h : WInv nd) (hs : WStep cfg key nd nd') : WInv nd' := by
  cases hs with
  | quiet h1 h2 h3 =>
    intro w hw hp
    rw [h2] at hw
    have ok := h w hw hp
    have hv := verOf_congr (h1 w.key)
    exact ⟨ok.cap, ok.pend, by rw [hv]; exact ok.le, by rw [hv, h3]; exact ok.notified,
      by rw [hv, h1]; exact ok.cur, by rw [h1]; exact ok.called⟩
  | changed h1 h2 h3 h4 =>
    obtain ⟨e, he, hev⟩ := h2
    intro w' hw' hp'
    -- the watchers after the step are the notified (or, with delayed notifications, the same) watchers
    unfold notify notifySync at h3 h4
    by_cases hni : cfg.ni = true
    · rw [if_pos hni] at h3 h4
      simp only at h3 h4
      rw [h3] at hw'
      have ok := h w' hw' hp'
      by_cases hk : w'.key = key
      · have hver : verOf nd'.store w'.key = verOf nd.store w'.key + 1 := by
          rw [hk]
          have : verOf nd'.store key = e.version := by unfold verOf; rw [he]
          rw [this, hev]
        refine ⟨ok.cap, ok.pend, by rw [hver]; have := ok.le; omega, ?_, ?_, ?_⟩
        · intro _
          refine Or.inr ?_
          rw [h4, hk]
          by_cases hc : nd.notifs.contains key = true
          · rw [if_pos hc]; simpa using hc
          · rw [if_neg hc]; simp
        · intro v _ hvv; rw [hver] at hvv; have := ok.le; omega
        · intro v _; rw [hk, he]; rfl
      · have hv := verOf_congr (h1 w'.key hk)
        refine ⟨ok.cap, ok.pend, by rw [hv]; exact ok.le, ?_, by rw [hv, h1 _ hk]; exact ok.cur, by rw [h1 _ hk]; exact ok.called⟩
        intro hne
        rw [hv] at hne
        rcases ok.notified hne with hx | hx
        · exact Or.inl hx
        · refine Or.inr ?_
          rw [h4]
          by_cases hc : nd.notifs.contains key = true
          · rw [if_pos hc]; exact hx
          · rw [if_neg hc]; exact List.mem_append.2 (Or.inl hx)
    · rw [if_neg hni] at h3 h4
      simp only at h3 h4
      rw [h3] at hw'
      obtain ⟨w, hw, rfl⟩ := List.mem_map.1 hw'
      obtain ⟨f1, f2, f3, f4, f5⟩ := notify_fields w key
      rw [f1] at hp'
      have ok := h w hw hp'
      obtain ⟨p1, p2, p3⟩ := notify_pending w hp' ok.cap ok.pend key
      have hseen : seenOf (w.notify key) w.key = seenOf w w.key := by unfold seenOf; rw [f5]
      by_cases hk : w.key = key
      · have hver : verOf nd'.store w.key = verOf nd.store w.key + 1 := by
          rw [hk]
          have : verOf nd'.store key = e.version := by unfold verOf; rw [he]
          rw [this, hev]
        refine ⟨by rw [f3]; exact ok.cap, by rw [f2]; exact p1, by rw [f2, hseen, hver]; have := ok.le; omega, ?_, ?_, ?_⟩
        · intro _; rw [f2]; exact Or.inl (p2 hk.symm)
        · intro v _ hvv; rw [f2, hseen, hver] at hvv; have := ok.le; omega
        · intro v _; rw [f2, hk, he]; rfl
      · have hv := verOf_congr (h1 w.key hk)
        refine ⟨by rw [f3]; exact ok.cap, by rw [f2]; exact p1, by rw [f2, hseen, hv]; exact ok.le, ?_, ?_, ?_⟩
        · intro hne
          rw [f2, hseen, hv] at hne
          rw [f2, h4]
          rcases ok.notified hne with hx | hx
          · exact Or.inl (p3 _ hx)
          · exact Or.inr hx
        · intro v hl hvv
          rw [f2, f4] at hl; rw [f2, hseen, hv] at hvv
          rw [f2, h1 _ hk]; exact ok.cur v hl hvv
        · intro v hl; rw [f2, f4] at hl; rw [f2, h1 _ hk]; exact ok.called v hl

/-! ## the steps of the node model -/

theorem notify_watchers_store (cfg : Cfg) (nd : Node Desc) (st : Store Desc) (key : String) :
    (notify cfg { nd with store := st } key).watchers = (notify cfg nd key).watchers ∧
    (notify cfg { nd with store := st } key).notifs = (notify cfg nd key).notifs := by
  unfold notify notifySync; split <;> exact ⟨rfl, rfl⟩

theorem broadcast_watchers (nd : Node Desc) (key : String) (o : Out Desc) (l : Bool) :
    (broadcast nd key o l).watchers = nd.watchers ∧ (broadcast nd key o l).notifs = nd.notifs := by
  unfold broadcast; split <;> exact ⟨rfl, rfl⟩

theorem verOf_succ (st : Store Desc) (key : String) :
    (match getE st key with | none => 1 | some c => c.version + 1) = verOf st key + 1 := by
  unfold verOf; cases getE st key <;> rfl

theorem deliver_wstep (hU : Univ U) {cfg : Cfg} (hcfg : cfg.lit = 0) {clock : Int} (now : Int) {nd : Node Desc} {m : Msg Desc}
    (hnd : GoodNode U clock nd) (hm : GoodMsg U clock m) : WStep cfg m.key nd (deliver cfg now nd m) := by
  have hspec := mvk_gossip hU (key := m.key) now m.updateTime hnd.1 hm.1
  unfold deliver
  rw [cfg_limit_none hcfg, hm.2]
  generalize mergeValueForKey none now nd.store m.key m.val false 0 false m.updateTime = r at hspec
  obtain ⟨hne, _, hother, _, hquiet, hout⟩ := hspec
  simp only [hne, Bool.false_eq_true, if_false]
  cases ho : r.out with
  | none => exact WStep.quiet (hquiet ho) rfl rfl
  | some o =>
    obtain ⟨_, _, _, _, e, he, hv1, hv2⟩ := hout o ho
    simp only
    refine WStep.changed ?_ ⟨e, ?_, ?_⟩ ?_ ?_
    · intro k hk; rw [broadcast_store, notify_store']; exact hother k hk
    · rw [broadcast_store, notify_store']; exact he
    · rw [hv1, hv2]; exact verOf_succ _ _
    · rw [(broadcast_watchers _ _ _ _).1]; exact (notify_watchers_store cfg nd r.store m.key).1
    · rw [(broadcast_watchers _ _ _ _).2]; exact (notify_watchers_store cfg nd r.store m.key).2

theorem cas_wstep (hU : Univ U) (hT : TombClosed U) {cfg : Cfg} (hcfg : cfg.lit = 0) {clock : Int} (hclock : clock ≥ 1) (nowMs : Int)
    {nd : Node Desc} {key : String} {f : Option Desc → Option Desc} (hnd : GoodNode U clock nd) (hf : GoodFn U clock f) :
    WStep cfg key nd (cas cfg clock nowMs nd key f).1 := by
  obtain ⟨hst, hlq, hgq⟩ := hnd
  unfold cas
  cases hfv : f (nd.get key).1 with
  | none => simp only [hfv]; exact WStep.quiet (fun _ => rfl) rfl rfl
  | some out =>
    have hout := hf _ out hfv
    simp only [hfv]
    rw [cfg_limit_none hcfg]
    have hspec : MvkSpec U clock nd.store key out (mergeValueForKey none clock nd.store key out true (nd.get key).2 false nowMs) := by
      unfold Node.get
      cases hg : getE nd.store key with
      | none =>
        simp only
        rw [mvk_first_cas none clock out nowMs hg]
        exact (mvk_gossip hU clock nowMs hst hout).toMvk hU hst hout
      | some c =>
        simp only
        exact mvk_cas hU hT hclock nowMs hst hout hg
    generalize mergeValueForKey none clock nd.store key out true (nd.get key).2 false nowMs = r at hspec
    obtain ⟨_, hother, _, _, hquiet, hout'⟩ := hspec
    by_cases herr : r.err = true
    · simp only [herr, if_true]; exact WStep.quiet (fun _ => rfl) rfl rfl
    · have herr' : r.err = false := by simpa using herr
      simp only [herr', Bool.false_eq_true, if_false]
      cases ho : r.out with
      | none => exact WStep.quiet (hquiet ho) rfl rfl
      | some o =>
        obtain ⟨_, _, _, _, e, he, hv1, hv2⟩ := hout' o ho
        simp only
        refine WStep.changed ?_ ⟨e, ?_, ?_⟩ ?_ ?_
        · intro k hk; rw [broadcast_store, notify_store']; exact hother k hk
        · rw [broadcast_store, notify_store']; exact he
        · rw [hv1, hv2]; exact verOf_succ _ _
        · rw [(broadcast_watchers _ _ _ _).1]; exact (notify_watchers_store cfg nd r.store key).1
        · rw [(broadcast_watchers _ _ _ _).2]; exact (notify_watchers_store cfg nd r.store key).2

theorem deliver_winv (hU : Univ U) {cfg : Cfg} (hcfg : cfg.lit = 0) {clock : Int} (now : Int) {nd : Node Desc} {m : Msg Desc}
    (hnd : GoodNode U clock nd) (hm : GoodMsg U clock m) (h : WInv nd) : WInv (deliver cfg now nd m) :=
  winv_step h (deliver_wstep hU hcfg now hnd hm)

theorem notifyMsg_winv (hU : Univ U) {cfg : Cfg} (hcfg : cfg.lit = 0) {clock : Int} (now : Int) {nd : Node Desc} {m : Msg Desc}
    (hnd : GoodNode U clock nd) (hm : GoodMsg U clock m) (h : WInv nd) : WInv (notifyMsg cfg now nd m) := by
  unfold notifyMsg; split
  · exact h
  · exact deliver_winv hU hcfg now hnd hm h

theorem mergeRemoteState_winv (hU : Univ U) {cfg : Cfg} (hcfg : cfg.lit = 0) {clock : Int} (now : Int) (ms : List (Msg Desc))
    (hms : ∀ m ∈ ms, GoodMsg U clock m) {nd : Node Desc} (hnd : GoodNode U clock nd) (h : WInv nd) :
    WInv (mergeRemoteState cfg now nd ms) := by
  induction ms generalizing nd with
  | nil => exact h
  | cons m rest ih =>
    have hm := hms m (by simp)
    exact ih (fun x hx => hms x (by simp [hx])) (notifyMsg_good hU hcfg now hnd hm).1 (notifyMsg_winv hU hcfg now hnd hm h)

theorem wok_congr {nd nd' : Node Desc} {w : Watcher Desc} (ok : WOk nd w) (h1 : nd'.store = nd.store)
    (h2 : nd'.notifs = nd.notifs) : WOk nd' w :=
  ⟨ok.cap, ok.pend, by rw [h1]; exact ok.le, by rw [h1, h2]; exact ok.notified, by rw [h1]; exact ok.cur,
   by rw [h1]; exact ok.called⟩

/-! ## watcher events -/

/-- the watcher goroutine runs: it takes one notification and calls its function with the current value -/
theorem run_wok {nd : Node Desc} {w : Watcher Desc} (ok : WOk nd w) (hp : w.isPrefix = false) :
    WOk nd (w.run nd.store) ∧ (w.run nd.store).isPrefix = false := by
  unfold Watcher.run
  cases hpd : w.pending with
  | nil => exact ⟨ok, hp⟩
  | cons p rest =>
    have hpk : p = w.key := ok.pend p (by rw [hpd]; simp)
    have hrest : ∀ q ∈ rest, q = w.key := fun q hq => ok.pend q (by rw [hpd]; simp [hq])
    simp only
    subst hpk
    cases hg : getE nd.store w.key with
    | none =>
      simp only
      have hv : verOf nd.store w.key = 0 := by unfold verOf; rw [hg]
      have hle := ok.le
      refine ⟨⟨ok.cap, hrest, ok.le, ?_, ?_, ?_⟩, hp⟩
      · intro hne
        have hne' : verOf nd.store w.key ≠ seenOf w w.key := hne
        rw [hv] at hne' hle; omega
      · intro v hl _; have := ok.called v hl; rw [hg] at this; simp at this
      · exact ok.called
    | some e =>
      simp only
      have hv : verOf nd.store w.key = e.version := by unfold verOf; rw [hg]
      have hs : seenOf { w with pending := rest, last := setLast w.last w.key (MergeVal.gc none e.val),
                                seen := setLast w.seen w.key e.version } w.key = e.version := by
        unfold seenOf; simp only; rw [lookL_setLast, if_pos rfl]; rfl
      refine ⟨⟨ok.cap, hrest, ?_, ?_, ?_, ?_⟩, hp⟩
      · show seenOf _ w.key ≤ _; rw [hs, hv]; exact Nat.le_refl _
      · intro hne; exact absurd (by rw [hv]; exact hs.symm) hne
      · intro v hl _
        simp only at hl
        rw [lookL_setLast, if_pos rfl] at hl
        injection hl with hl
        exact ⟨e, hg, hl.symm⟩
      · intro v _; show (getE nd.store w.key).isSome = true; rw [hg]; rfl

theorem mem_modifyAt' {α : Type} {f : α → α} {n : Nat} {l : List α} {x : α} (h : x ∈ modifyAt f n l) :
    x ∈ l ∨ ∃ y ∈ l, x = f y := mem_modifyAt h

theorem watcherRun_winv {nd : Node Desc} (h : WInv nd) (i : Nat) :
    WInv { nd with watchers := modifyAt (fun x => x.run nd.store) i nd.watchers } := by
  intro w hw hp
  rcases mem_modifyAt' hw with hx | ⟨y, hy, rfl⟩
  · exact wok_congr (h w hx hp) rfl rfl
  · have hyp : y.isPrefix = false := by
      unfold Watcher.run at hp
      cases hpd : y.pending with
      | nil => rw [hpd] at hp; exact hp
      | cons p rest =>
        rw [hpd] at hp; simp only at hp
        cases hg : getE nd.store p <;> rw [hg] at hp <;> exact hp
    exact wok_congr (run_wok (h y hy hyp) hyp).1 rfl rfl

theorem foldl_notifySync_watchers (ks : List String) (nd : Node Desc) :
    (ks.foldl notifySync nd).watchers = nd.watchers.map fun w => ks.foldl (fun w k => w.notify k) w := by
  induction ks generalizing nd with
  | nil => simp
  | cons k ks ih =>
    rw [List.foldl_cons, ih]
    simp [notifySync, List.map_map, Function.comp_def]

/-- the delayed-notification tick hands every pending key to the watchers -/
theorem notifyTick_winv {nd : Node Desc} (h : WInv nd) : WInv (notifyTick nd) := by
  intro w' hw' hp'
  have hst : (notifyTick nd).store = nd.store := (foldl_notifySync nd.notifs nd).1
  have hwat : (notifyTick nd).watchers = nd.watchers.map fun w => nd.notifs.foldl (fun w k => w.notify k) w :=
    foldl_notifySync_watchers nd.notifs nd
  rw [hwat] at hw'
  obtain ⟨w, hw, rfl⟩ := List.mem_map.1 hw'
  -- folding notifications over a key watcher: fields stay, the channel keeps its key, every notified key arrives
  have hfold : ∀ (ks : List String) (w : Watcher Desc), w.isPrefix = false → w.cap = 1 → (∀ p ∈ w.pending, p = w.key) →
      let w2 := ks.foldl (fun w k => w.notify k) w
      w2.isPrefix = w.isPrefix ∧ w2.key = w.key ∧ w2.cap = w.cap ∧ w2.last = w.last ∧ w2.seen = w.seen ∧
      (∀ p ∈ w2.pending, p = w.key) ∧ (∀ p ∈ w.pending, p ∈ w2.pending) ∧ (w.key ∈ ks → w.key ∈ w2.pending) := by
    intro ks
    induction ks with
    | nil => intro w _ _ hpd; exact ⟨rfl, rfl, rfl, rfl, rfl, hpd, fun p hp => hp, fun h => by simp at h⟩
    | cons k ks ih =>
      intro w hp hc hpd
      obtain ⟨f1, f2, f3, f4, f5⟩ := notify_fields w k
      obtain ⟨p1, p2, p3⟩ := notify_pending w hp hc hpd k
      obtain ⟨g1, g2, g3, g4, g5, g6, g7, g8⟩ := ih (w.notify k) (by rw [f1]; exact hp) (by rw [f3]; exact hc) (by rw [f2]; exact p1)
      simp only [List.foldl_cons]
      refine ⟨g1.trans f1, g2.trans f2, g3.trans f3, g4.trans f4, g5.trans f5, by rw [← f2]; exact g6,
        fun p hpm => g7 p (p3 p hpm), ?_⟩
      intro hmem
      rcases List.mem_cons.1 hmem with hk | hk
      · exact g7 _ (p2 hk.symm)
      · rw [← f2]; exact g8 (by rw [f2]; exact hk)
  -- recover that `w` itself is a key watcher
  have hwp : w.isPrefix = false := by
    have : ∀ (ks : List String) (w : Watcher Desc), (ks.foldl (fun w k => w.notify k) w).isPrefix = w.isPrefix := by
      intro ks; induction ks with
      | nil => intro w; rfl
      | cons k ks ih => intro w; simp only [List.foldl_cons]; rw [ih, (notify_fields w k).1]
    rw [this] at hp'; exact hp'
  have ok := h w hw hwp
  obtain ⟨g1, g2, g3, g4, g5, g6, g7, g8⟩ := hfold nd.notifs w hwp ok.cap ok.pend
  have hseen : seenOf (nd.notifs.foldl (fun w k => w.notify k) w) w.key = seenOf w w.key := by unfold seenOf; rw [g5]
  refine ⟨by rw [g3]; exact ok.cap, by rw [g2]; exact g6, by rw [g2, hseen, hst]; exact ok.le, ?_, ?_, ?_⟩
  · intro hne
    rw [g2, hseen, hst] at hne
    rw [g2]
    rcases ok.notified hne with hx | hx
    · exact Or.inl (g7 _ hx)
    · exact Or.inl (g8 hx)
  · intro v hl hvv
    rw [g2, g4] at hl; rw [g2, hseen, hst] at hvv
    rw [g2, hst]; exact ok.cur v hl hvv
  · intro v hl; rw [g2, g4] at hl; rw [g2, hst]; exact ok.called v hl

theorem lookL_map_version (st : Store Desc) (k : String) :
    (lookL (st.map fun (x : String × Entry Desc) => (x.1, x.2.version)) k).getD 0 = verOf st k := by
  unfold verOf
  induction st with
  | nil => rfl
  | cons x xs ih =>
    obtain ⟨k', e⟩ := x
    simp only [List.map_cons, lookL, getE]
    by_cases h : k' = k
    · rw [if_pos h, if_pos h]; rfl
    · rw [if_neg h, if_neg h]; exact ih

theorem addWatcher_winv {nd : Node Desc} (h : WInv nd) (cfg : Cfg) (id : Nat) (p : Bool) (key : String) :
    WInv (addWatcher cfg nd id p key) := by
  intro w hw hp
  simp only [addWatcher, List.mem_append, List.mem_singleton] at hw
  rcases hw with hw | hw
  · exact wok_congr (h w hw hp) rfl rfl
  · subst hw
    simp only at hp
    have hs := lookL_map_version nd.store key
    refine ⟨by simp [hp], by simp, ?_, ?_, ?_, ?_⟩
    · show (lookL (nd.store.map fun (x : String × Entry Desc) => (x.1, x.2.version)) key).getD 0 ≤ verOf nd.store key
      rw [hs]; exact Nat.le_refl _
    · intro hne
      have hne' : verOf nd.store key ≠ (lookL (nd.store.map fun (x : String × Entry Desc) => (x.1, x.2.version)) key).getD 0 := hne
      exact absurd hs.symm hne'
    · intro v hl; simp [lookL] at hl
    · intro v hl; simp [lookL] at hl

/-- **quiescence**: with empty watcher channels and no delayed notifications, every `WatchKey`
watcher has seen the current version, and the value its function was last called with is the
current value (tombstones stripped); a watcher that was never called saw no change since it was
registered (its `seen` version is the registration version). -/
theorem caught_up {nd : Node Desc} (h : WInv nd) (hq : ∀ w ∈ nd.watchers, w.pending = []) (hn : nd.notifs = [])
    (w : Watcher Desc) (hw : w ∈ nd.watchers) (hp : w.isPrefix = false) :
    verOf nd.store w.key = seenOf w w.key ∧
    ∀ v, lookL w.last w.key = some v → ∃ e, getE nd.store w.key = some e ∧ v = removeTombstones none e.val := by
  have ok := h w hw hp
  have hv : verOf nd.store w.key = seenOf w w.key := by
    apply Classical.byContradiction
    intro hne
    rcases ok.notified hne with hx | hx
    · rw [hq w hw] at hx; simp at hx
    · rw [hn] at hx; simp at hx
  exact ⟨hv, fun v hl => ok.cur v hl hv⟩

end PfC06

namespace PfC06
open Ring C03 C06 PfC03

variable {U : String → Int → Bool → Inst}

theorem winv_congr {nd nd' : Node Desc} (h : WInv nd) (h1 : nd'.store = nd.store) (h2 : nd'.notifs = nd.notifs)
    (h3 : nd'.watchers = nd.watchers) : WInv nd' := by
  intro w hw hp
  rw [h3] at hw
  exact wok_congr (h w hw hp) h1 h2

theorem winv_empty : WInv ({} : Node Desc) := fun w hw _ => by simp at hw

/-- the watcher invariant is preserved by every event of the cluster, on every node -/
theorem winv_cluster_step (hU : Univ U) (hT : TombClosed U) {cfg : Cfg} (hcfg : cfg.lit = 0) {c : Cluster Desc} (hinv : Inv U c)
    (hw : ∀ nd ∈ c.nodes, WInv nd) (ev : Event Desc) (hev : GoodEv U c.clock ev) :
    ∀ nd ∈ (stepC cfg c ev).nodes, WInv nd := by
  have key : ∀ (n : Nat) (f : Node Desc → Node Desc), (∀ nd ∈ c.nodes, WInv (f nd)) → ∀ nd ∈ (c.upd n f).nodes, WInv nd := by
    intro n f hf nd hnd
    rcases mem_modifyAt hnd with h | ⟨y, hy, rfl⟩
    · exact hw nd h
    · exact hf y hy
  cases ev with
  | cas n k f =>
    exact key n _ fun nd hnd => winv_step (hw nd hnd) (cas_wstep hU hT hcfg hinv.clock _ (hinv.nodes nd hnd).1 hev)
  | gossipTick n =>
    simp only [stepC]
    cases hn : c.nodes[n]? with
    | none => exact hw
    | some nd0 => exact key n _ fun nd hnd => winv_congr (hw nd hnd) rfl rfl rfl
  | deliver n m =>
    simp only [stepC]
    cases hm : c.net[m]? with
    | none => exact hw
    | some msg =>
      exact key n _ fun nd hnd =>
        notifyMsg_winv hU hcfg c.clock (hinv.nodes nd hnd).1 (hinv.net msg (List.mem_of_getElem? hm)) (hw nd hnd)
  | drop m => exact hw
  | dup m =>
    simp only [stepC]
    cases c.net[m]? <;> exact hw
  | pushPull a b =>
    simp only [stepC]
    cases ha : c.nodes[a]? with
    | none => exact hw
    | some na =>
      have hna := hinv.nodes na (List.mem_of_getElem? ha)
      exact key b _ fun nd hnd =>
        mergeRemoteState_winv hU hcfg c.clock _ (localState_good hna.1 hna.2).1 (hinv.nodes nd hnd).1 (hw nd hnd)
  | corrupt n => exact hw
  | watch n p k => exact key n _ fun nd hnd => addWatcher_winv (hw nd hnd) cfg _ p k
  | watcherRun n w => exact key n _ fun nd hnd => watcherRun_winv (hw nd hnd) w
  | notifyTick n => exact key n _ fun nd hnd => notifyTick_winv (hw nd hnd)
  | restart n => exact key n _ fun _ _ => winv_empty
  | delete n k => exact absurd hev (by simp [GoodEv])
  | cleanup n => exact absurd hev (by simp [GoodEv])
  | tick => exact hw

theorem winv_run (hU : Univ U) (hT : TombClosed U) {cfg : Cfg} (hcfg : cfg.lit = 0) (es : List (Event Desc)) {c : Cluster Desc}
    (hinv : Inv U c) (hw : ∀ nd ∈ c.nodes, WInv nd) (hes : GoodRun U cfg c es) :
    ∀ nd ∈ (runC cfg c es).nodes, WInv nd := by
  induction es generalizing c with
  | nil => exact hw
  | cons e es ih =>
    exact ih (inv_step hU hT hcfg hinv e hes.1) (winv_cluster_step hU hT hcfg hinv hw e hes.1) hes.2

theorem winv_init (n : Nat) (clock : Int) : ∀ nd ∈ (initC n clock).nodes, WInv nd := by
  intro nd hnd
  have : nd = {} := by simpa [initC] using (List.mem_replicate.1 hnd).2
  rw [this]; exact winv_empty

end PfC06
