import Proofs.C06.CasNode
/-! # C06 — the cluster transition system: invariant, monotonicity -/
namespace PfC06
open Ring C03 C06 PfC03

variable {U : String → Int → Bool → Inst}

/-! ## keys of a store are unique -/

def KeysNodup {V : Type} (st : Store V) : Prop := (st.map (·.1)).Nodup

theorem keys_setE {V : Type} (st : Store V) (key : String) (e : Entry V) :
    (setE st key e).map (·.1) = if key ∈ st.map (·.1) then st.map (·.1) else st.map (·.1) ++ [key] := by
  induction st with
  | nil => simp [setE]
  | cons x xs ih =>
    obtain ⟨k, v⟩ := x
    simp only [setE]
    by_cases hk : k = key
    · subst hk; simp
    · rw [if_neg hk]
      simp only [List.map_cons, ih]
      have hk' : ¬ key = k := fun h => hk h.symm
      by_cases hm : key ∈ xs.map (·.1)
      · simp [hm]
      · simp [hm, hk']

theorem setE_keys {V : Type} {st : Store V} (h : KeysNodup st) (key : String) (e : Entry V) : KeysNodup (setE st key e) := by
  unfold KeysNodup at h ⊢
  rw [keys_setE]
  split
  · exact h
  · rename_i hm
    exact List.nodup_append.2 ⟨h, by simp, fun a ha b hb => by simp at hb; subst hb; intro e; subst e; exact hm ha⟩

theorem mvk_keys {V : Type} [MergeVal V] (limit : Option Int) (now : Int) {st : Store V} (h : KeysNodup st) (key : String)
    (inc : V) (cas : Bool) (cv : Nat) (del : Bool) (ut : Int) :
    KeysNodup (mergeValueForKey limit now st key inc cas cv del ut).store := by
  have hc : (mergeValueForKey limit now st key inc cas cv del ut).store = st ∨
      ∃ e, (mergeValueForKey limit now st key inc cas cv del ut).store = setE st key e := by
    unfold mergeValueForKey
    dsimp only
    repeat' split
    all_goals first | exact Or.inl rfl | exact Or.inr ⟨_, rfl⟩
  rcases hc with hc | ⟨e, hc⟩
  · rw [hc]; exact h
  · rw [hc]; exact setE_keys h _ _

theorem broadcast_store {V : Type} [MergeVal V] (nd : Node V) (key : String) (o : Out V) (l : Bool) :
    (broadcast nd key o l).store = nd.store := by
  unfold broadcast; split <;> rfl

theorem notify_store' {V : Type} (cfg : Cfg) (nd : Node V) (key : String) : (notify cfg nd key).store = nd.store := by
  unfold notify notifySync; split <;> rfl

theorem deliver_keys {V : Type} [MergeVal V] (cfg : Cfg) (now : Int) {nd : Node V} (h : KeysNodup nd.store) (m : Msg V) :
    KeysNodup (deliver cfg now nd m).store := by
  have hk := mvk_keys (cfg.limit now) now h m.key m.val false 0 m.deleted m.updateTime
  unfold deliver
  generalize mergeValueForKey (cfg.limit now) now nd.store m.key m.val false 0 m.deleted m.updateTime = r at hk
  simp only
  split
  · exact h
  · split
    · exact hk
    · rw [broadcast_store, notify_store']; exact hk

theorem notifyMsg_keys {V : Type} [MergeVal V] (cfg : Cfg) (now : Int) {nd : Node V} (h : KeysNodup nd.store) (m : Msg V) :
    KeysNodup (notifyMsg cfg now nd m).store := by
  unfold notifyMsg; split
  · exact h
  · exact deliver_keys cfg now h m

theorem mergeRemoteState_keys {V : Type} [MergeVal V] (cfg : Cfg) (now : Int) (ms : List (Msg V)) {nd : Node V}
    (h : KeysNodup nd.store) : KeysNodup (mergeRemoteState cfg now nd ms).store := by
  induction ms generalizing nd with
  | nil => exact h
  | cons m rest ih => exact ih (notifyMsg_keys cfg now h m)

theorem cas_keys {V : Type} [MergeVal V] (cfg : Cfg) (now nowMs : Int) {nd : Node V} (h : KeysNodup nd.store) (key : String)
    (f : Option V → Option V) : KeysNodup (cas cfg now nowMs nd key f).1.store := by
  unfold cas
  simp only
  split
  · exact h
  · rename_i out _
    have hk := mvk_keys (cfg.limit now) now h key out true (nd.get key).2 false nowMs
    generalize mergeValueForKey (cfg.limit now) now nd.store key out true (nd.get key).2 false nowMs = r at hk
    split
    · exact h
    · split
      · exact hk
      · rw [broadcast_store, notify_store']; exact hk

theorem getE_of_mem {V : Type} {st : Store V} (h : KeysNodup st) {k : String} {e : Entry V} (hm : (k, e) ∈ st) :
    getE st k = some e := by
  induction st with
  | nil => simp at hm
  | cons x xs ih =>
    obtain ⟨k', v⟩ := x
    unfold KeysNodup at h
    simp only [List.map_cons, List.nodup_cons] at h
    simp only [getE]
    rcases List.mem_cons.1 hm with hx | hx
    · injection hx with h1 h2; subst h1; subst h2; rw [if_pos rfl]
    · have : k' ≠ k := fun e' => h.1 (by rw [e']; exact List.mem_map_of_mem (f := (·.1)) hx)
      rw [if_neg this]; exact ih h.2 hx

/-! ## lists of nodes -/

theorem mem_modifyAt {α : Type} {f : α → α} {n : Nat} {l : List α} {x : α} (h : x ∈ modifyAt f n l) :
    x ∈ l ∨ ∃ y ∈ l, x = f y := by
  induction l generalizing n with
  | nil => simp [modifyAt] at h
  | cons a as ih =>
    cases n with
    | zero =>
      simp only [modifyAt, List.mem_cons] at h
      rcases h with h | h
      · exact Or.inr ⟨a, by simp, h⟩
      · exact Or.inl (by simp [h])
    | succ n =>
      simp only [modifyAt, List.mem_cons] at h
      rcases h with h | h
      · exact Or.inl (by simp [h])
      · rcases ih h with h | ⟨y, hy, hxy⟩
        · exact Or.inl (by simp [h])
        · exact Or.inr ⟨y, by simp [hy], hxy⟩

theorem modifyAt_get? {α : Type} (f : α → α) (n : Nat) (l : List α) (i : Nat) :
    (modifyAt f n l)[i]? = if i = n then l[i]?.map f else l[i]? := by
  induction l generalizing n i with
  | nil => simp [modifyAt]
  | cons a as ih =>
    cases n with
    | zero =>
      cases i with
      | zero => simp [modifyAt]
      | succ i => simp [modifyAt]
    | succ n =>
      cases i with
      | zero => simp [modifyAt]
      | succ i => simp [modifyAt, ih]

theorem modifyAt_length {α : Type} (f : α → α) (n : Nat) (l : List α) : (modifyAt f n l).length = l.length := by
  induction l generalizing n with
  | nil => simp [modifyAt]
  | cons a as ih => cases n <;> simp [modifyAt, ih]

/-! ## the invariant -/

/-- what the property's quantifier allows a workload to do at clock `clock` -/
def GoodEv (U : String → Int → Bool → Inst) (clock : Int) : Event Desc → Prop
  | .cas _ _ f => GoodFn U clock f
  | .delete _ _ => False      -- key-level Delete and the obsolete-entries cleanup are outside the theorems
  | .cleanup _ => False
  | _ => True

structure Inv (U : String → Int → Bool → Inst) (c : Cluster Desc) : Prop where
  clock : c.clock ≥ 1
  nodes : ∀ nd ∈ c.nodes, GoodNode U c.clock nd ∧ KeysNodup nd.store
  net : ∀ m ∈ c.net, GoodMsg U c.clock m

theorem GoodBcast.mono_clock {c c' : Int} {st : Store Desc} {b : Bcast Desc} (h : GoodBcast U c st b) (hc : c ≤ c') :
    GoodBcast U c' st b := ⟨h.1.mono hc, h.2⟩

theorem GoodNode.mono_clock {c c' : Int} {nd : Node Desc} (h : GoodNode U c nd) (hc : c ≤ c') : GoodNode U c' nd :=
  ⟨h.1.mono hc, fun b hb => (h.2.1 b hb).mono_clock hc, fun b hb => (h.2.2 b hb).mono_clock hc⟩

/-- `GoodNode` only looks at the store and the two queues -/
theorem goodNode_congr {clock : Int} {nd nd' : Node Desc} (h : GoodNode U clock nd) (h1 : nd'.store = nd.store)
    (h2 : nd'.localQ = nd.localQ) (h3 : nd'.gossipQ = nd.gossipQ) : GoodNode U clock nd' := by
  unfold GoodNode at h ⊢
  rw [h1, h2, h3]; exact h

theorem mem_drain {V : Type} {lim : Nat} {q : List (Bcast V)} {b : Bcast V} (h : b ∈ drain lim q) :
    ∃ b0 ∈ q, b = { b0 with transmits := b0.transmits + 1 } := by
  unfold drain at h
  simp only [List.mem_map, List.mem_filter] at h
  obtain ⟨b0, ⟨hb0, _⟩, rfl⟩ := h
  exact ⟨b0, hb0, rfl⟩

theorem goodNode_gossip {cfg : Cfg} {clock : Int} {nd : Node Desc} (h : GoodNode U clock nd) :
    GoodNode U clock (gossip cfg nd).1 ∧ ∀ m ∈ (gossip cfg nd).2, GoodMsg U clock m := by
  obtain ⟨hst, hl, hg⟩ := h
  refine ⟨⟨hst, ?_, ?_⟩, ?_⟩
  · intro b hb
    obtain ⟨b0, hb0, rfl⟩ := mem_drain hb
    exact hl b0 hb0
  · intro b hb
    obtain ⟨b0, hb0, rfl⟩ := mem_drain hb
    exact hg b0 hb0
  · intro m hm
    simp only [gossip, List.mem_map, List.mem_append] at hm
    obtain ⟨b, hb, rfl⟩ := hm
    rcases hb with hb | hb
    · exact ⟨(hl b hb).1, (hl b hb).2.1⟩
    · exact ⟨(hg b hb).1, (hg b hb).2.1⟩

theorem localState_good {clock : Int} {nd : Node Desc} (h : GoodNode U clock nd) (hk : KeysNodup nd.store) :
    (∀ m ∈ localState nd, GoodMsg U clock m) ∧ ((localState nd).map (·.key)).Nodup := by
  constructor
  · intro m hm
    simp only [localState, List.mem_map] at hm
    obtain ⟨⟨k, e⟩, hke, rfl⟩ := hm
    exact h.1 k e (getE_of_mem hk hke)
  · have : (localState nd).map (·.key) = nd.store.map (·.1) := by
      simp [localState, List.map_map, Function.comp_def]
    rw [this]; exact hk

theorem foldl_notifySync {V : Type} (l : List String) (nd : Node V) :
    (l.foldl notifySync nd).store = nd.store ∧ (l.foldl notifySync nd).localQ = nd.localQ ∧
    (l.foldl notifySync nd).gossipQ = nd.gossipQ ∧ (l.foldl notifySync nd).notifs = nd.notifs := by
  induction l generalizing nd with
  | nil => exact ⟨rfl, rfl, rfl, rfl⟩
  | cons k ks ih => rw [List.foldl_cons]; exact ih (notifySync nd k)

/-- the node update of every event keeps a good node good -/
theorem inv_upd {c : Cluster Desc} (hinv : Inv U c) (n : Nat) (f : Node Desc → Node Desc)
    (hf : ∀ nd ∈ c.nodes, GoodNode U c.clock (f nd) ∧ KeysNodup (f nd).store) : Inv U (c.upd n f) := by
  refine ⟨hinv.clock, ?_, hinv.net⟩
  intro nd hnd
  rcases mem_modifyAt hnd with h | ⟨y, hy, rfl⟩
  · exact hinv.nodes nd h
  · exact hf y hy

theorem inv_step (hU : Univ U) (hT : TombClosed U) {cfg : Cfg} (hcfg : cfg.lit = 0) {c : Cluster Desc} (hinv : Inv U c)
    (ev : Event Desc) (hev : GoodEv U c.clock ev) : Inv U (stepC cfg c ev) := by
  cases ev with
  | cas n key f =>
    exact inv_upd hinv n _ fun nd hnd =>
      ⟨(cas_spec hU hT hcfg hinv.clock _ (hinv.nodes nd hnd).1 hev).good, cas_keys _ _ _ (hinv.nodes nd hnd).2 _ _⟩
  | gossipTick n =>
    simp only [stepC]
    cases hn : c.nodes[n]? with
    | none => exact hinv
    | some nd =>
      have hmem : nd ∈ c.nodes := List.mem_of_getElem? hn
      have hg := goodNode_gossip (cfg := cfg) (hinv.nodes nd hmem).1
      have h1 : Inv U (c.upd n fun nd => (gossip cfg nd).1) :=
        inv_upd hinv n _ fun x hx => ⟨(goodNode_gossip (hinv.nodes x hx).1).1, (hinv.nodes x hx).2⟩
      refine ⟨h1.clock, h1.nodes, ?_⟩
      intro m hm
      rcases List.mem_append.1 hm with h | h
      · exact hinv.net m h
      · exact hg.2 m h
  | deliver n m =>
    simp only [stepC]
    cases hm : c.net[m]? with
    | none => exact hinv
    | some msg =>
      have hmsg := hinv.net msg (List.mem_of_getElem? hm)
      exact inv_upd hinv n _ fun nd hnd =>
        ⟨(notifyMsg_good hU hcfg c.clock (hinv.nodes nd hnd).1 hmsg).1, notifyMsg_keys _ _ (hinv.nodes nd hnd).2 _⟩
  | drop m =>
    exact ⟨hinv.clock, hinv.nodes, fun x hx => hinv.net x (List.mem_of_mem_eraseIdx hx)⟩
  | dup m =>
    simp only [stepC]
    cases hm : c.net[m]? with
    | none => exact hinv
    | some msg =>
      refine ⟨hinv.clock, hinv.nodes, fun x hx => ?_⟩
      rcases List.mem_append.1 hx with h | h
      · exact hinv.net x h
      · have : x = msg := by simpa using h
        rw [this]; exact hinv.net msg (List.mem_of_getElem? hm)
  | pushPull a b =>
    simp only [stepC]
    cases ha : c.nodes[a]? with
    | none => exact hinv
    | some na =>
      have hna := hinv.nodes na (List.mem_of_getElem? ha)
      obtain ⟨hgood, hnd⟩ := localState_good hna.1 hna.2
      exact inv_upd hinv b _ fun nd hmem =>
        ⟨(mergeRemoteState_spec hU hcfg c.clock _ hgood hnd (hinv.nodes nd hmem).1).1,
         mergeRemoteState_keys _ _ _ (hinv.nodes nd hmem).2⟩
  | corrupt n => exact hinv
  | watch n p key =>
    exact inv_upd hinv n _ fun nd hnd => ⟨goodNode_congr (hinv.nodes nd hnd).1 rfl rfl rfl, (hinv.nodes nd hnd).2⟩
  | watcherRun n w =>
    exact inv_upd hinv n _ fun nd hnd => ⟨goodNode_congr (hinv.nodes nd hnd).1 rfl rfl rfl, (hinv.nodes nd hnd).2⟩
  | notifyTick n =>
    refine inv_upd hinv n _ fun nd hnd => ⟨goodNode_congr (hinv.nodes nd hnd).1 ?_ ?_ ?_, ?_⟩
    · exact (foldl_notifySync nd.notifs nd).1
    · exact (foldl_notifySync nd.notifs nd).2.1
    · exact (foldl_notifySync nd.notifs nd).2.2.1
    · show KeysNodup (nd.notifs.foldl notifySync nd).store
      rw [(foldl_notifySync nd.notifs nd).1]; exact (hinv.nodes nd hnd).2
  | restart n =>
    exact inv_upd hinv n _ fun _ _ => ⟨goodNode_empty _, by simp [KeysNodup]⟩
  | delete n k => exact absurd hev (by simp [GoodEv])
  | cleanup n => exact absurd hev (by simp [GoodEv])
  | tick =>
    refine ⟨by simp only [stepC]; have := hinv.clock; omega, ?_, ?_⟩
    · intro nd hnd
      exact ⟨(hinv.nodes nd hnd).1.mono_clock (by simp only [stepC]; omega), (hinv.nodes nd hnd).2⟩
    · intro m hm
      exact ⟨(hinv.net m hm).1.mono (by simp only [stepC]; omega), (hinv.net m hm).2⟩

end PfC06
