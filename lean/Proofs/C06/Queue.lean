import Proofs.C06.Converge
/-! # C06 — the invalidation rule is sound; only changes are gossiped; malformed input is a no-op -/
namespace PfC06
open Ring C03 C06 PfC03

variable {U : String → Int → Bool → Inst}

theorem mem_ids_iff (d : Desc) (k : String) : k ∈ ids d ↔ get? d k ≠ none := by
  rw [Ne, get?_none_iff]; simp

/-- a broadcast that is dropped from a queue by `enqueue` is contained in the one that replaced it,
so delivering the new one alone has the same effect as delivering both (on any replica) -/
theorem enqueue_sound (hU : Univ U) {clock : Int} {st st' : Store Desc} {q : List (Bcast Desc)} {b' : Bcast Desc}
    (hq : ∀ b ∈ q, GoodBcast U clock st b) (hle : StoreLe st st')
    (hb' : GoodBcast U clock st' b')
    (hcur : ∀ id x, get? b'.change id = some x → get? (sval st' b'.key) id = some x)
    (b : Bcast Desc) (hb : b ∈ q) (hgone : b ∉ enqueue q b') :
    b'.key = b.key ∧ Le b.change b'.change ∧
    ∀ x, Drawn U x → Eqv (mergeState (mergeState x b.change) b'.change) (mergeState x b'.change) := by
  have hinv : b'.invalidates b = true := by
    apply Classical.byContradiction
    intro h
    apply hgone
    unfold enqueue
    exact List.mem_append.2 (Or.inl (List.mem_filter.2 ⟨hb, by simpa using h⟩))
  unfold Bcast.invalidates at hinv
  rw [invalidates_iff] at hinv
  obtain ⟨hkey, hsub, _⟩ := hinv
  obtain ⟨hbv, _, hble, hbc⟩ := hq b hb
  obtain ⟨hbv', _, _, hbc'⟩ := hb'
  have hle' : Le b.change b'.change := by
    intro id
    cases hg : get? b.change id with
    | none => rw [rkO_none]; exact rkO_nonneg hbv'.1 id
    | some x =>
      have hmem : id ∈ ids b'.change := by
        rw [← hbc']; apply hsub; rw [hbc, mem_ids_iff, hg]; simp
      cases hg' : get? b'.change id with
      | none => exact absurd hg' ((mem_ids_iff _ _).1 hmem)
      | some y =>
        have h1 := hble id
        have h2 := hle b'.key id
        rw [hg] at h1
        rw [hcur id y hg'] at h2
        rw [← hkey] at h1
        exact Int.le_trans h1 h2
  refine ⟨hkey, hle', fun x hx => ?_⟩
  have hxb := mergeState_drawn hU hx hbv.1
  have hxb' := mergeState_drawn hU hx hbv'.1
  apply eqv_of_le_le (mergeState_drawn hU hxb hbv'.1) hxb'
  · apply merge_lub hU hxb hbv'.1
    · exact merge_lub hU hx hbv.1 (le_merge_left hU hx hbv'.1) (hle'.trans (le_merge_right hU hx hbv'.1))
    · exact le_merge_right hU hx hbv'.1
  · apply merge_lub hU hx hbv'.1
    · exact (le_merge_left hU hx hbv.1).trans (le_merge_left hU hxb hbv'.1)
    · exact le_merge_right hU hxb hbv'.1

/-- gossip path (`NotifyMsg`, `MergeRemoteState`): a queued update leaves the gossip queue only
because an update that contains it was enqueued -/
theorem invalidate_sound_gossip (hU : Univ U) {cfg : Cfg} (hcfg : cfg.lit = 0) {clock : Int} (now : Int) {nd : Node Desc}
    {m : Msg Desc} (hnd : GoodNode U clock nd) (hm : GoodMsg U clock m) (b : Bcast Desc) (hb : b ∈ nd.gossipQ)
    (hgone : b ∉ (deliver cfg now nd m).gossipQ) :
    ∃ b' ∈ (deliver cfg now nd m).gossipQ, b'.key = b.key ∧ Le b.change b'.change ∧
      ∀ x, Drawn U x → Eqv (mergeState (mergeState x b.change) b'.change) (mergeState x b'.change) := by
  have hs := deliver_spec hU hcfg now hnd hm
  have hle := hs.le hU hnd hm
  cases hs.queue with
  | same h1 h2 h3 => rw [h2] at hgone; exact absurd hb hgone
  | enq b' h1 h2 hk hgb hcur hver =>
    rw [h2] at hgone
    have := enqueue_sound hU hnd.2.2 hle hgb (by rw [hk]; exact hcur) b hb hgone
    exact ⟨b', by rw [h2]; unfold enqueue; simp, this⟩

/-- CAS path: the same for the queue of locally generated updates -/
theorem invalidate_sound_local (hU : Univ U) (hT : TombClosed U) {cfg : Cfg} (hcfg : cfg.lit = 0) {clock : Int}
    (hclock : clock ≥ 1) (nowMs : Int) {nd : Node Desc} {key : String} {f : Option Desc → Option Desc}
    (hnd : GoodNode U clock nd) (hf : GoodFn U clock f) (b : Bcast Desc) (hb : b ∈ nd.localQ)
    (hgone : b ∉ (cas cfg clock nowMs nd key f).1.localQ) :
    ∃ b' ∈ (cas cfg clock nowMs nd key f).1.localQ, b'.key = b.key ∧ Le b.change b'.change ∧
      ∀ x, Drawn U x → Eqv (mergeState (mergeState x b.change) b'.change) (mergeState x b'.change) := by
  have hs := cas_spec hU hT hcfg hclock nowMs (key := key) hnd hf
  cases hs.queue with
  | same h1 h2 h3 => rw [h1] at hgone; exact absurd hb hgone
  | enq b' h1 h2 hk hgb hcur hver =>
    rw [h1] at hgone
    have := enqueue_sound hU hnd.2.1 hs.le hgb (by rw [hk]; exact hcur) b hb hgone
    exact ⟨b', by rw [h1]; unfold enqueue; simp, this⟩

/-- only merges that changed the store enqueue a broadcast -/
theorem no_gossip_without_change (hU : Univ U) {cfg : Cfg} (hcfg : cfg.lit = 0) {clock : Int} (now : Int) {nd : Node Desc}
    {m : Msg Desc} (hnd : GoodNode U clock nd) (hm : GoodMsg U clock m)
    (hsame : ∀ k, getE (deliver cfg now nd m).store k = getE nd.store k) :
    (deliver cfg now nd m).gossipQ = nd.gossipQ ∧ (deliver cfg now nd m).localQ = nd.localQ := by
  have hs := deliver_spec hU hcfg now hnd hm
  cases hs.queue with
  | same h1 h2 h3 => exact ⟨h2, h1⟩
  | enq b' h1 h2 hk hgb hcur hver =>
    obtain ⟨e, he, hv1, hv2⟩ := hver
    rw [hsame m.key] at he
    rw [he] at hv2
    simp only at hv2
    omega

/-- a raw message is *malformed* when it does not decode (bad framing / protobuf / snappy, unknown
codec) or decodes to a pair with an empty key -/
def Malformed {V R : Type} (dec : R → Option (Msg V)) (raw : R) : Prop :=
  match dec raw with
  | none => True
  | some m => m.key = ""

/-- a malformed message leaves the node untouched -/
theorem corrupt_noop {V R : Type} [MergeVal V] (dec : R → Option (Msg V)) (cfg : Cfg) (now : Int) (nd : Node V) (raw : R)
    (h : Malformed dec raw) : receive dec cfg now nd raw = nd := by
  unfold receive
  unfold Malformed at h
  cases hd : dec raw with
  | none => rfl
  | some m =>
    rw [hd] at h
    simp only
    unfold notifyMsg; rw [h]; rfl

/-- ... also as a pair inside a full-state message: the malformed pairs are skipped, the others are
merged as if the malformed ones were not there -/
theorem corrupt_pairs_noop {V R : Type} [MergeVal V] (dec : R → Option (Msg V)) (cfg : Cfg) (now : Int) (nd : Node V)
    (raws : List R) (bad : R → Bool) (hbad : ∀ r, bad r = true → Malformed dec r) :
    receiveState dec cfg now nd raws = receiveState dec cfg now nd (raws.filter fun r => !bad r) := by
  unfold receiveState
  induction raws generalizing nd with
  | nil => rfl
  | cons r rs ih =>
    simp only [List.foldl_cons, List.filter_cons]
    cases hb : bad r with
    | true => simp only [Bool.not_true, Bool.false_eq_true, if_false]; rw [corrupt_noop dec cfg now nd r (hbad r hb)]; exact ih nd
    | false => simp only [Bool.not_false, if_true, List.foldl_cons]; exact ih _

/-- a full-state message consisting of malformed pairs only changes nothing -/
theorem corrupt_state_noop {V R : Type} [MergeVal V] (dec : R → Option (Msg V)) (cfg : Cfg) (now : Int) (nd : Node V)
    (raws : List R) (h : ∀ r ∈ raws, Malformed dec r) : receiveState dec cfg now nd raws = nd := by
  unfold receiveState
  induction raws with
  | nil => rfl
  | cons r rs ih =>
    rw [List.foldl_cons, corrupt_noop dec cfg now nd r (h r (by simp))]
    exact ih (fun x hx => h x (by simp [hx]))

/-- the decoded view of the full-state path is `mergeRemoteState` -/
theorem receiveState_decoded {V : Type} [MergeVal V] (cfg : Cfg) (now : Int) (nd : Node V) (ms : List (Msg V)) :
    receiveState (fun m => some m) cfg now nd ms = mergeRemoteState cfg now nd ms := rfl

theorem corrupt_event_noop {V : Type} [MergeVal V] (cfg : Cfg) (c : Cluster V) (n : Nat) : stepC cfg c (.corrupt n) = c := rfl

end PfC06
