import Proofs.C06.Cas
/-! # C06 — `KV.CAS` on a good node -/
namespace PfC06
open Ring C03 C06 PfC03

variable {U : String → Int → Bool → Inst}

/-- what `mergeValueForKey` guarantees on either path (gossip merge or local CAS merge) -/
structure MvkSpec (U : String → Int → Bool → Inst) (clock : Int) (st : Store Desc) (key : String) (inc : Desc)
    (r : MergeRes Desc) : Prop where
  good : GoodStore U clock r.store
  other : ∀ k, k ≠ key → getE r.store k = getE st k
  le : StoreLe st r.store
  contains : r.err = false → Le inc (sval r.store key)
  quiet : r.out = none → ∀ k, getE r.store k = getE st k
  out : ∀ o, r.out = some o → o.deleted = false ∧ GoodVal U clock o.change ∧ o.change ≠ [] ∧
          (∀ id x, get? o.change id = some x → get? (sval r.store key) id = some x) ∧
          (∃ e, getE r.store key = some e ∧ e.version = o.version ∧
            o.version = (match getE st key with | none => 1 | some c => c.version + 1))

theorem GossipSpec.toMvk (hU : Univ U) {clock : Int} {st : Store Desc} {key : String} {inc : Desc} {r : MergeRes Desc}
    (hst : GoodStore U clock st) (hinc : GoodVal U clock inc) (h : GossipSpec U clock st key inc r) :
    MvkSpec U clock st key inc r :=
  ⟨h.good, h.other, storeLe_of_view hU hst hinc h.other h.view,
   fun _ => Le.of_eqv_right h.view.symm (le_merge_right hU (hst.sval key).1 hinc.1), h.quiet, h.out⟩

theorem storeLe_of_key {st st' : Store Desc} {key : String} (hother : ∀ k, k ≠ key → getE st' k = getE st k)
    (hle : Le (sval st key) (sval st' key)) : StoreLe st st' := by
  intro k
  by_cases hk : k = key
  · subst hk; exact hle
  · rw [sval_congr (hother k hk)]; exact Le.refl _

/-- the first value of a key is stored the same way by a CAS and by a gossip merge -/
theorem mvk_first_cas {V : Type} [MergeVal V] (limit : Option Int) (now : Int) {st : Store V} {key : String} (inc : V) (ut : Int)
    (hg : getE st key = none) :
    mergeValueForKey limit now st key inc true 0 false ut = mergeValueForKey limit now st key inc false 0 false ut := by
  unfold mergeValueForKey
  rw [hg]
  simp

/-- `mergeValueForKey` on the CAS path (the version check passes) -/
theorem mvk_cas (hU : Univ U) (hT : TombClosed U) {now : Int} (hnow : now ≥ 1) {st : Store Desc} {key : String} {out : Desc}
    (ut : Int) (hst : GoodStore U now st) (hout : GoodVal U now out) {c : Entry Desc} (hg : getE st key = some c) :
    MvkSpec U now st key out (mergeValueForKey none now st key out true c.version false ut) := by
  unfold mergeValueForKey
  rw [hg]
  have hsv : sval st key = c.val := by unfold sval; rw [hg]
  obtain ⟨hcv, hcd⟩ := hst key c hg
  simp only [ne_eq, not_true_eq_false, and_false, if_false]
  have hm : (MergeVal.merge true now c.val out : Option (Desc × Option Desc)) =
      some ((C03.merge true now c.val out).state, (C03.merge true now c.val out).change) := rfl
  rw [hm]
  simp only [Bool.and_false, Bool.false_eq_true, if_false]
  have hspec := merge_true_spec hU hT hnow hcv hout
  cases hch : (C03.merge true now c.val out).change with
  | none =>
    simp only [beq_self_eq_true, Bool.and_true, if_true]
    have heq : (C03.merge true now c.val out).state = c.val := PfC03.no_change_no_effect true now c.val out hch
    have hsame : ∀ k, getE (setE st key { c with val := (C03.merge true now c.val out).state }) k = getE st k := by
      intro k
      rw [getE_setE]
      by_cases hk : k = key
      · rw [if_pos hk, hk, hg, heq]
      · rw [if_neg hk]
    refine ⟨?_, ?_, ?_, ?_, ?_, ?_⟩
    · exact goodStore_setE hst key _ hspec.good hcd
    · intro k hk; exact (getE_setE _ _ _ _).trans (if_neg hk)
    · intro k; exact (sval_congr (hsame k)) ▸ Le.refl _
    · intro _; simp only [sval_setE]; exact hspec.le_new
    · intro _ k; exact hsame k
    · intro o ho; simp at ho
  | some ch =>
    obtain ⟨hchg, hne⟩ := merge_true_change_drawn hU hT hnow hcv hout hch
    have hemp : (MergeVal.names ch).isEmpty = false := by
      cases h : (MergeVal.names ch).isEmpty with
      | false => rfl
      | true => exact absurd ((ids_isEmpty ch).1 h) hne
    simp only [hemp, Bool.false_and, Bool.false_eq_true, if_false]
    have hother : ∀ (e : Entry Desc) k, k ≠ key → getE (setE st key e) k = getE st k := by
      intro e k hk; rw [getE_setE, if_neg hk]
    refine ⟨?_, hother _, ?_, ?_, ?_, ?_⟩
    · exact goodStore_setE hst key _ hspec.good hcd
    · apply storeLe_of_key (hother _)
      rw [sval_setE, hsv]; exact hspec.le_old
    · intro _; rw [sval_setE]; exact hspec.le_new
    · intro h; simp at h
    · intro o ho
      injection ho with ho; subst ho
      refine ⟨hcd, hchg, hne, ?_, ?_⟩
      · intro id x hx
        rw [sval_setE]
        exact merge_true_change_sub hU hT hnow hcv.1 hout.1 hch id x hx
      · exact ⟨_, by rw [getE_setE, if_pos rfl], rfl, by rw [hg]⟩

/-! ## the CAS operation on a node -/

/-- the function a workload passes to CAS writes good values only (coherent contents, no timestamp
above the clock) -/
def GoodFn (U : String → Int → Bool → Inst) (clock : Int) (f : Option Desc → Option Desc) : Prop :=
  ∀ v out, f v = some out → GoodVal U clock out

/-- effect of a local step (CAS) on the queues: nothing, or one enqueue on the LOCAL queue -/
inductive LocalQueueStep (U : String → Int → Bool → Inst) (clock : Int) (key : String) (nd nd' : Node Desc) : Prop
  | same (h1 : nd'.localQ = nd.localQ) (h2 : nd'.gossipQ = nd.gossipQ) (h3 : ∀ k, getE nd'.store k = getE nd.store k)
  | enq (b : Bcast Desc) (h1 : nd'.localQ = enqueue nd.localQ b) (h2 : nd'.gossipQ = nd.gossipQ)
      (hk : b.key = key) (hb : GoodBcast U clock nd'.store b)
      (hcur : ∀ id x, get? b.change id = some x → get? (sval nd'.store key) id = some x)
      (hver : ∃ e, getE nd'.store key = some e ∧ e.version = b.version ∧
        b.version = (match getE nd.store key with | none => 1 | some c => c.version + 1))

structure CasNodeSpec (U : String → Int → Bool → Inst) (clock : Int) (nd : Node Desc) (key : String)
    (f : Option Desc → Option Desc) (nd' : Node Desc) (res : CasRes) : Prop where
  good : GoodNode U clock nd'
  other : ∀ k, k ≠ key → getE nd'.store k = getE nd.store k
  le : StoreLe nd.store nd'.store
  /-- an acknowledged CAS left its output in the store -/
  acked : ∀ out, f (nd.get key).1 = some out → res = .ok → Le out (sval nd'.store key)
  queue : LocalQueueStep U clock key nd nd'

theorem cas_spec (hU : Univ U) (hT : TombClosed U) {cfg : Cfg} (hcfg : cfg.lit = 0) {clock : Int} (hclock : clock ≥ 1) (nowMs : Int)
    {nd : Node Desc} {key : String} {f : Option Desc → Option Desc} (hnd : GoodNode U clock nd) (hf : GoodFn U clock f) :
    CasNodeSpec U clock nd key f (cas cfg clock nowMs nd key f).1 (cas cfg clock nowMs nd key f).2 := by
  obtain ⟨hst, hlq, hgq⟩ := hnd
  unfold cas
  cases hfv : f (nd.get key).1 with
  | none =>
    simp only [hfv]
    exact ⟨⟨hst, hlq, hgq⟩, fun _ _ => rfl, StoreLe.refl _, fun out h => (by rw [hfv] at h; cases h), LocalQueueStep.same rfl rfl (fun _ => rfl)⟩
  | some out =>
    have hout := hf _ out hfv
    simp only [hfv]
    rw [cfg_limit_none hcfg]
    -- which path of mergeValueForKey runs
    have hspec : MvkSpec U clock nd.store key out (mergeValueForKey none clock nd.store key out true (nd.get key).2 false nowMs) := by
      unfold Node.get
      cases hg : getE nd.store key with
      | none =>
        simp only
        rw [mvk_first_cas none clock out nowMs hg]
        exact (mvk_gossip hU clock nowMs hst hout).toMvk hU hst hout
      | some c =>
        simp only
        exact mvk_cas hU hT hclock nowMs hst hout hg
    generalize mergeValueForKey none clock nd.store key out true (nd.get key).2 false nowMs = r at hspec
    obtain ⟨hgood, hother, hle, hcont, hquiet, hout'⟩ := hspec
    by_cases herr : r.err = true
    · simp only [herr, if_true]
      exact ⟨⟨hst, hlq, hgq⟩, fun _ _ => rfl, StoreLe.refl _, fun _ _ h => (by simp at h), LocalQueueStep.same rfl rfl (fun _ => rfl)⟩
    · have herr' : r.err = false := by simpa using herr
      simp only [herr', Bool.false_eq_true, if_false]
      cases ho : r.out with
      | none =>
        refine ⟨⟨hgood, fun b hb => (hlq b hb).mono_store hle, fun b hb => (hgq b hb).mono_store hle⟩, hother, hle, ?_, ?_⟩
        · intro _ _ h; simp at h
        · exact LocalQueueStep.same rfl rfl (hquiet ho)
      | some o =>
        obtain ⟨hod, hoc, hone, hcur, hver⟩ := hout' o ho
        have hb : GoodBcast U clock r.store
            { key := key, content := MergeVal.names o.change, version := o.version, change := o.change,
              deleted := o.deleted, updateTime := o.updateTime } :=
          ⟨hoc, hod, le_of_sub hoc.1 (hgood.sval key).1 hcur, rfl⟩
        simp only [broadcast, if_true]
        refine ⟨⟨?_, ?_, ?_⟩, ?_, ?_, ?_, ?_⟩
        · simpa [notify_store] using hgood
        · intro b hbq
          simp only [notify_localQ, notify_store] at hbq ⊢
          rcases mem_enqueue hbq with h | h
          · exact (hlq b h).mono_store hle
          · rw [h]; exact hb
        · intro b hbq
          simp only [notify_gossipQ, notify_store] at hbq ⊢
          exact (hgq b hbq).mono_store hle
        · intro k hk; simp only [notify_store]; exact hother k hk
        · simpa [notify_store] using hle
        · intro out' h _
          rw [hfv] at h; injection h with h; subst h
          simpa [notify_store] using hcont herr'
        · refine LocalQueueStep.enq ({ key := key, content := MergeVal.names o.change, version := o.version, change := o.change, deleted := o.deleted, updateTime := o.updateTime } : Bcast Desc) (by simp [notify_localQ]) (by simp [notify_gossipQ]) rfl ?_ ?_ ?_
          · simpa [notify_store] using hb
          · simpa [notify_store] using hcur
          · obtain ⟨e, h1, h2, h3⟩ := hver
            exact ⟨e, by simpa [notify_store] using h1, h2, h3⟩

end PfC06
