import Proofs.C06
/-! # C06 — `mergeValueForKey` on the gossip path (no CAS, retention not reached, no key deletion) -/
namespace PfC06
open Ring C03 C06 PfC03

variable {U : String → Int → Bool → Inst}

theorem mergeState_nil_nil : mergeState [] [] = [] := by
  simp [mergeState, C03.merge, finish, mergeAcc, normalize]

theorem eqv_merge_nil (hU : Univ U) {b : Desc} (hb : Drawn U b) : Eqv b (mergeState [] b) := by
  intro k
  rw [view_merge hU drawn_nil hb, get?_nil]
  unfold maxOpt
  cases hg : get? b k with
  | none => simp
  | some x =>
    have := rk_pos (hb.pos x (get?_mem hg))
    rw [rkO_none, rkO_some, if_pos (by omega)]

/-- a reported change is never empty and holds exactly the accepted entries -/
theorem change_ne_nil (hU : Univ U) {a b ch : Desc} (ha : Drawn U a) (hb : Drawn U b)
    (hch : (C03.merge false 0 a b).change = some ch) : ch ≠ [] := by
  intro hnil
  have hne : ¬ (C03.merge false 0 a b).change = none := by rw [hch]; simp
  rw [no_change_iff hU ha hb] at hne
  have : ∃ k, rkO (get? a k) < rkO (get? b k) := by
    apply Classical.byContradiction
    intro h
    exact hne (fun k hk => h ⟨k, hk⟩)
  obtain ⟨k, hk⟩ := this
  have hv := change_view hU ha hb hch k
  rw [if_pos hk, hnil, get?_nil] at hv
  rw [← hv, rkO_none] at hk
  have := rkO_nonneg ha k
  omega

theorem change_sub (hU : Univ U) {a b ch : Desc} (ha : Drawn U a) (hb : Drawn U b)
    (hch : (C03.merge false 0 a b).change = some ch) (id : String) (x : Inst) (hx : get? ch id = some x) :
    get? b id = some x ∧ get? (mergeState a b) id = some x := by
  have hv := change_view hU ha hb hch id
  by_cases hlt : rkO (get? a id) < rkO (get? b id)
  · rw [if_pos hlt, hx] at hv
    refine ⟨hv.symm, ?_⟩
    rw [view_merge hU ha hb]; unfold maxOpt; rw [if_pos hlt]; exact hv.symm
  · rw [if_neg hlt, hx] at hv; cases hv

/-- what the gossip path of `mergeValueForKey` does to a good store -/
structure GossipSpec (U : String → Int → Bool → Inst) (clock : Int) (st : Store Desc) (key : String) (inc : Desc)
    (r : MergeRes Desc) : Prop where
  noerr : r.err = false
  good : GoodStore U clock r.store
  other : ∀ k, k ≠ key → getE r.store k = getE st k
  view : Eqv (sval r.store key) (mergeState (sval st key) inc)
  quiet : r.out = none → ∀ k, getE r.store k = getE st k
  out : ∀ o, r.out = some o → o.deleted = false ∧ GoodVal U clock o.change ∧ o.change ≠ [] ∧
          (∀ id x, get? o.change id = some x → get? (sval r.store key) id = some x) ∧
          (∃ e, getE r.store key = some e ∧ e.version = o.version ∧
            o.version = (match getE st key with | none => 1 | some c => c.version + 1))

theorem sval_setE (st : Store Desc) (key : String) (e : Entry Desc) : sval (setE st key e) key = e.val := by
  unfold sval; rw [getE_setE, if_pos rfl]

theorem goodStore_setE {clock : Int} {st : Store Desc} (h : GoodStore U clock st) (key : String) (e : Entry Desc)
    (he : GoodVal U clock e.val) (hd : e.deleted = false) : GoodStore U clock (setE st key e) := by
  intro k x hx
  rw [getE_setE] at hx
  by_cases hk : k = key
  · rw [if_pos hk] at hx; injection hx with hx; subst hx; exact ⟨he, hd⟩
  · rw [if_neg hk] at hx; exact h k x hx

theorem mvk_gossip (hU : Univ U) {clock : Int} {st : Store Desc} {key : String} {inc : Desc} (now ut : Int)
    (hst : GoodStore U clock st) (hinc : GoodVal U clock inc) :
    GossipSpec U clock st key inc (mergeValueForKey none now st key inc false 0 false ut) := by
  unfold mergeValueForKey
  cases hg : getE st key with
  | none =>
    have hsv : sval st key = [] := by unfold sval; rw [hg]
    simp only [Bool.false_eq_true, if_false, false_and]
    by_cases hemp : (MergeVal.names inc).isEmpty = true
    · rw [if_pos hemp]
      have hnil : inc = [] := (ids_isEmpty inc).1 hemp
      refine ⟨rfl, hst, fun _ _ => rfl, ?_, fun _ _ => rfl, ?_⟩
      · rw [hsv, hnil, mergeState_nil_nil]; exact Eqv.refl _
      · intro o ho; simp at ho
    · rw [if_neg hemp, if_neg hemp]
      have hne : inc ≠ [] := fun h => hemp ((ids_isEmpty inc).2 h)
      refine ⟨rfl, goodStore_setE hst key _ hinc rfl, ?_, ?_, ?_, ?_⟩
      · intro k hk; rw [getE_setE, if_neg hk]
      · rw [sval_setE, hsv]; exact eqv_merge_nil hU hinc.1
      · intro h; simp at h
      · intro o ho
        injection ho with ho; subst ho
        refine ⟨rfl, hinc, hne, ?_, ?_⟩
        · intro id x hx; rw [sval_setE]; exact hx
        · exact ⟨_, by rw [getE_setE, if_pos rfl], rfl, by rw [hg]⟩
  | some c =>
    have hsv : sval st key = c.val := by unfold sval; rw [hg]
    obtain ⟨hcv, hcd⟩ := hst key c hg
    simp only [Bool.false_eq_true, false_and, if_false]
    have hm : (MergeVal.merge false now c.val inc : Option (Desc × Option Desc)) =
        some ((C03.merge false 0 c.val inc).state, (C03.merge false 0 c.val inc).change) := by
      show some ((C03.merge false now c.val inc).state, (C03.merge false now c.val inc).change) = _
      rw [merge_now_irrel]
    rw [hm]
    simp only [Bool.and_false, Bool.false_eq_true, if_false, hcd]
    have hres : (C03.merge false 0 c.val inc).state = mergeState c.val inc := rfl
    have hgood : GoodVal U clock (mergeState c.val inc) := goodVal_merge hU hcv hinc
    cases hch : (C03.merge false 0 c.val inc).change with
    | none =>
      simp only [beq_self_eq_true, Bool.and_true, if_true]
      have heq : (C03.merge false 0 c.val inc).state = c.val := PfC03.no_change_no_effect false 0 c.val inc hch
      refine ⟨rfl, ?_, ?_, ?_, ?_, ?_⟩
      · exact goodStore_setE hst key _ (by rw [hres]; exact hgood) rfl
      · intro k hk; rw [getE_setE, if_neg hk]
      · rw [sval_setE, hsv]; exact Eqv.refl _
      · intro _ k
        rw [getE_setE]
        by_cases hk : k = key
        · rw [if_pos hk, hk, hg, heq]
          cases c with
          | mk v ver del utm => simp only at hcd; subst hcd; rfl
        · rw [if_neg hk]
      · intro o ho; simp at ho
    | some ch =>
      have hne := change_ne_nil hU hcv.1 hinc.1 hch
      have hemp : (MergeVal.names ch).isEmpty = false := by
        cases h : (MergeVal.names ch).isEmpty with
        | false => rfl
        | true => exact absurd ((ids_isEmpty ch).1 h) hne
      simp only [hemp, Bool.false_and, Bool.false_eq_true, if_false]
      have hchd := change_drawn hU hcv.1 hinc.1 hch
      refine ⟨rfl, ?_, ?_, ?_, ?_, ?_⟩
      · exact goodStore_setE hst key _ (by show GoodVal U clock (C03.merge false 0 c.val inc).state; rw [hres]; exact hgood) rfl
      · intro k hk; rw [getE_setE, if_neg hk]
      · rw [sval_setE, hsv]; exact Eqv.refl _
      · intro h; simp at h
      · intro o ho
        injection ho with ho; subst ho
        refine ⟨rfl, ⟨hchd, ?_⟩, hne, ?_, ?_⟩
        · intro x hx
          have h1 := get?_of_mem_nodup hchd.nodup hx
          exact hinc.2 x (get?_mem (change_sub hU hcv.1 hinc.1 hch x.id x h1).1)
        · intro id x hx
          rw [sval_setE]
          exact (change_sub hU hcv.1 hinc.1 hch id x hx).2
        · exact ⟨_, by rw [getE_setE, if_pos rfl], rfl, by rw [hg]⟩

end PfC06
