import Proofs.C06.Watch
/-! # C06 — `WatchPrefix`: one watcher with its bounded channel against a changing store

The model's `Watcher.notify` (non-blocking send on a channel of capacity `cap` = `WatchPrefixBufferSize`,
drop when full, only keys with the prefix) and `Watcher.run` (take the oldest notification, read the
CURRENT value of that key, call `f`) are driven by a trace of store changes and watcher runs.
Ghost state: `lost` = keys whose latest notification was dropped while the key was not in the channel;
`consumed` = keys `f` was called for, in order. -/
namespace PfC06
open Ring C03 C06 PfC03

inductive PEv
  /-- key `k` changes to entry `e` (a version bump) and the watcher is notified -/
  | upd (k : String) (e : Entry Desc)
  /-- the watcher goroutine takes one notification and calls its function -/
  | run

structure PSt where
  st : Store Desc
  w : Watcher Desc
  lost : List String := []
  consumed : List String := []

/-- does this notification get lost for good (channel full and the key is not already queued)? -/
def PSt.drops (s : PSt) (k : String) : Bool :=
  s.w.matches k && !(decide (s.w.pending.length < s.w.cap)) && !s.w.pending.contains k

def pstep (s : PSt) : PEv → PSt
  | .upd k e =>
    { st := setE s.st k e, w := s.w.notify k,
      lost := if s.w.matches k then (if s.drops k then k :: s.lost else s.lost.filter (· != k)) else s.lost,
      consumed := s.consumed }
  | .run =>
    match s.w.pending with
    | [] => s
    | k :: _ => { s with w := s.w.run s.st, lost := s.lost.filter (· != k), consumed := s.consumed ++ [k] }

def prun (s : PSt) (evs : List PEv) : PSt := evs.foldl pstep s

/-- the trace is a trace of version bumps -/
def BumpOk : PSt → List PEv → Prop
  | _, [] => True
  | s, .upd k e :: evs => e.version = verOf s.st k + 1 ∧ BumpOk (pstep s (.upd k e)) evs
  | s, .run :: evs => BumpOk (pstep s .run) evs

structure PInv (s : PSt) : Prop where
  pend : ∀ k ∈ s.w.pending, s.w.matches k = true ∧ (getE s.st k).isSome = true
  le : ∀ k, seenOf s.w k ≤ verOf s.st k
  notified : ∀ k, s.w.matches k = true → verOf s.st k ≠ seenOf s.w k → k ∈ s.w.pending ∨ k ∈ s.lost
  cur : ∀ k v, lookL s.w.last k = some v → verOf s.st k = seenOf s.w k →
          ∃ e, getE s.st k = some e ∧ v = removeTombstones none e.val

theorem verOf_setE (st : Store Desc) (k : String) (e : Entry Desc) (k' : String) :
    verOf (setE st k e) k' = if k' = k then e.version else verOf st k' := by
  unfold verOf; rw [getE_setE]
  by_cases h : k' = k
  · rw [if_pos h, if_pos h]
  · rw [if_neg h, if_neg h]

theorem notify_pending_cases (w : Watcher Desc) (k : String) :
    ((w.notify k).pending = w.pending ++ [k] ∧ w.matches k = true ∧ w.pending.length < w.cap) ∨
    ((w.notify k).pending = w.pending ∧ ¬ (w.matches k = true ∧ w.pending.length < w.cap)) := by
  unfold Watcher.notify
  by_cases h : w.matches k = true ∧ w.pending.length < w.cap
  · rw [if_pos h]; exact Or.inl ⟨rfl, h⟩
  · rw [if_neg h]; exact Or.inr ⟨rfl, h⟩

theorem notify_matches_eq (w : Watcher Desc) (k k' : String) : (w.notify k).matches k' = w.matches k' := by
  have ⟨f1, f2, _, _, _⟩ := notify_fields w k
  unfold Watcher.matches; rw [f1, f2]

theorem pinv_step {s : PSt} (h : PInv s) (ev : PEv)
    (hb : ∀ k e, ev = .upd k e → e.version = verOf s.st k + 1) : PInv (pstep s ev) := by
  cases ev with
  | upd k e =>
    have hv := hb k e rfl
    obtain ⟨_, _, _, f4, f5⟩ := notify_fields s.w k
    have hseen : ∀ k', seenOf (s.w.notify k) k' = seenOf s.w k' := fun k' => by unfold seenOf; rw [f5]
    simp only [pstep]
    refine ⟨?_, ?_, ?_, ?_⟩
    · intro k' hk'
      simp only at hk' ⊢
      rw [notify_matches_eq, getE_setE]
      rcases notify_pending_cases s.w k with ⟨hp, hm, _⟩ | ⟨hp, _⟩
      · rw [hp] at hk'
        rcases List.mem_append.1 hk' with h1 | h1
        · refine ⟨(h.pend k' h1).1, ?_⟩
          split
          · rfl
          · exact (h.pend k' h1).2
        · have : k' = k := by simpa using h1
          subst this
          exact ⟨hm, by rw [if_pos rfl]; rfl⟩
      · rw [hp] at hk'
        refine ⟨(h.pend k' hk').1, ?_⟩
        split
        · rfl
        · exact (h.pend k' hk').2
    · intro k'
      simp only
      rw [hseen, verOf_setE]
      have := h.le k'
      split
      · rename_i hkk; subst hkk; omega
      · exact this
    · intro k' hm hne
      simp only at hm hne ⊢
      rw [notify_matches_eq] at hm
      rw [hseen, verOf_setE] at hne
      by_cases hkk : k' = k
      · subst hkk
        rw [if_pos hm]
        by_cases hd : s.drops k' = true
        · rw [if_pos hd]; exact Or.inr (by simp)
        · rw [if_neg hd]
          refine Or.inl ?_
          unfold PSt.drops at hd
          rcases notify_pending_cases s.w k' with ⟨hp, _, _⟩ | ⟨hp, hno⟩
          · rw [hp]; simp
          · rw [hp]
            have hfull : ¬ s.w.pending.length < s.w.cap := fun hl => hno ⟨hm, hl⟩
            simp only [hm, hfull, decide_false, Bool.not_false, Bool.and_true, Bool.true_and, Bool.not_eq_true', Bool.not_eq_false] at hd
            simpa using hd
      · rw [if_neg hkk] at hne
        have hp3 : ∀ p ∈ s.w.pending, p ∈ (s.w.notify k).pending := by
          intro p hp
          rcases notify_pending_cases s.w k with ⟨h1, _, _⟩ | ⟨h1, _⟩ <;> rw [h1]
          · exact List.mem_append.2 (Or.inl hp)
          · exact hp
        rcases h.notified k' hm hne with hx | hx
        · exact Or.inl (hp3 _ hx)
        · refine Or.inr ?_
          split
          · split
            · exact List.mem_cons_of_mem _ hx
            · exact List.mem_filter.2 ⟨hx, by simpa using hkk⟩
          · exact hx
    · intro k' v hl hvv
      simp only at hl hvv ⊢
      rw [f4] at hl
      rw [hseen, verOf_setE] at hvv
      by_cases hkk : k' = k
      · subst hkk
        rw [if_pos rfl] at hvv
        have := h.le k'; omega
      · rw [if_neg hkk] at hvv
        rw [getE_setE, if_neg hkk]
        exact h.cur k' v hl hvv
  | run =>
    simp only [pstep]
    cases hp : s.w.pending with
    | nil => simp only; exact h
    | cons k rest =>
      simp only
      obtain ⟨hmk, hsome⟩ := h.pend k (by rw [hp]; simp)
      obtain ⟨e, he⟩ : ∃ e, getE s.st k = some e := by
        cases hg : getE s.st k with
        | none => rw [hg] at hsome; simp at hsome
        | some e => exact ⟨e, rfl⟩
      have hrun : s.w.run s.st = ({ s.w with pending := rest, last := setLast s.w.last k (MergeVal.gc none e.val), seen := setLast s.w.seen k e.version } : Watcher Desc) := by
        unfold Watcher.run; rw [hp]; simp only; rw [he]
      rw [hrun]
      have hver : verOf s.st k = e.version := by unfold verOf; rw [he]
      refine ⟨?_, ?_, ?_, ?_⟩
      · intro k' hk'
        exact h.pend k' (by rw [hp]; exact List.mem_cons_of_mem _ hk')
      · intro k'
        show (lookL (setLast s.w.seen k e.version) k').getD 0 ≤ verOf s.st k'
        rw [lookL_setLast]
        by_cases hkk : k' = k
        · rw [if_pos hkk, hkk, hver]; exact Nat.le_refl _
        · rw [if_neg hkk]; exact h.le k'
      · intro k' hm hne
        have hne' : verOf s.st k' ≠ (lookL (setLast s.w.seen k e.version) k').getD 0 := hne
        rw [lookL_setLast] at hne'
        by_cases hkk : k' = k
        · rw [if_pos hkk, hkk, hver] at hne'; exact absurd rfl hne'
        · rw [if_neg hkk] at hne'
          rcases h.notified k' hm hne' with hx | hx
          · rw [hp] at hx
            rcases List.mem_cons.1 hx with h1 | h1
            · exact absurd h1 hkk
            · exact Or.inl h1
          · exact Or.inr (List.mem_filter.2 ⟨hx, by simpa using hkk⟩)
      · intro k' v hl hvv
        have hl' : lookL (setLast s.w.last k (MergeVal.gc none e.val)) k' = some v := hl
        have hvv' : verOf s.st k' = (lookL (setLast s.w.seen k e.version) k').getD 0 := hvv
        rw [lookL_setLast] at hl' hvv'
        by_cases hkk : k' = k
        · rw [if_pos hkk] at hl'
          injection hl' with hl'
          exact ⟨e, by rw [hkk]; exact he, hl'.symm⟩
        · rw [if_neg hkk] at hl' hvv'
          exact h.cur k' v hl' hvv'

theorem pinv_run (evs : List PEv) {s : PSt} (h : PInv s) (hb : BumpOk s evs) : PInv (prun s evs) := by
  induction evs generalizing s with
  | nil => exact h
  | cons ev evs ih =>
    unfold prun; rw [List.foldl_cons]
    cases ev with
    | upd k e => exact ih (pinv_step h _ (fun k' e' heq => by injection heq with h1 h2; subst h1; subst h2; exact hb.1)) hb.2
    | run => exact ih (pinv_step h _ (fun k' e' heq => by cases heq)) hb

/-- a freshly registered watcher (`addWatcher`): empty channel, versions recorded -/
def freshP (st : Store Desc) (isPrefix : Bool) (key : String) (cap : Nat) : PSt :=
  { st := st, w := { id := 0, isPrefix := isPrefix, key := key, cap := cap,
                     seen := st.map fun (x : String × Entry Desc) => (x.1, x.2.version) } }

theorem pinv_fresh (st : Store Desc) (p : Bool) (key : String) (cap : Nat) : PInv (freshP st p key cap) := by
  have hs : ∀ k, seenOf (freshP st p key cap).w k = verOf st k := fun k => lookL_map_version st k
  refine ⟨fun k hk => by simp [freshP] at hk, fun k => by rw [hs]; exact Nat.le_refl _,
    fun k _ hne => absurd (hs k).symm hne, fun k v hl => by simp [freshP, lookL] at hl⟩

/-- **what the code guarantees, overflow or not**: when the channel is empty again, the watcher has been
called with the current value of every watched key, except the keys in `lost` — those whose latest
notification found the channel full while the key was not queued (and that were not read since) -/
theorem prefix_caught_up (st : Store Desc) (p : Bool) (key : String) (cap : Nat) (evs : List PEv)
    (hb : BumpOk (freshP st p key cap) evs) (hq : (prun (freshP st p key cap) evs).w.pending = []) (k : String)
    (hm : (prun (freshP st p key cap) evs).w.matches k = true) (hk : k ∉ (prun (freshP st p key cap) evs).lost) :
    verOf (prun (freshP st p key cap) evs).st k = seenOf (prun (freshP st p key cap) evs).w k ∧
    ∀ v, lookL (prun (freshP st p key cap) evs).w.last k = some v →
      ∃ e, getE (prun (freshP st p key cap) evs).st k = some e ∧ v = removeTombstones none e.val := by
  have inv := pinv_run evs (pinv_fresh st p key cap) hb
  have hv : verOf (prun (freshP st p key cap) evs).st k = seenOf (prun (freshP st p key cap) evs).w k := by
    apply Classical.byContradiction
    intro hne
    rcases inv.notified k hm hne with hx | hx
    · rw [hq] at hx; simp at hx
    · exact hk hx
  exact ⟨hv, fun v hl => inv.cur k v hl hv⟩

/-! ## without overflow: nothing is lost and every change is delivered in order -/

/-- no notification of the trace is dropped for good -/
def NoDrop : PSt → List PEv → Prop
  | _, [] => True
  | s, .upd k e :: evs => s.drops k = false ∧ NoDrop (pstep s (.upd k e)) evs
  | s, .run :: evs => NoDrop (pstep s .run) evs

theorem lost_nil_of_noDrop (evs : List PEv) {s : PSt} (h0 : s.lost = []) (h : NoDrop s evs) : (prun s evs).lost = [] := by
  induction evs generalizing s with
  | nil => exact h0
  | cons ev evs ih =>
    unfold prun; rw [List.foldl_cons]
    cases ev with
    | upd k e =>
      apply ih _ h.2
      simp only [pstep, h.1, h0]
      split <;> simp
    | run =>
      apply ih _ h
      simp only [pstep]
      split
      · exact h0
      · simp [h0]

/-- the channel never overflows along the trace -/
def NoOverflow : PSt → List PEv → Prop
  | _, [] => True
  | s, .upd k e :: evs => (s.w.matches k = true → s.w.pending.length < s.w.cap) ∧ NoOverflow (pstep s (.upd k e)) evs
  | s, .run :: evs => NoOverflow (pstep s .run) evs

/-- the watched keys changed by a trace, in order -/
def changedKeys (w : Watcher Desc) : List PEv → List String
  | [] => []
  | .upd k _ :: evs => if w.matches k then k :: changedKeys w evs else changedKeys w evs
  | .run :: evs => changedKeys w evs

theorem run_fields (w : Watcher Desc) (st : Store Desc) :
    (w.run st).isPrefix = w.isPrefix ∧ (w.run st).key = w.key ∧ (w.run st).cap = w.cap := by
  unfold Watcher.run
  cases w.pending with
  | nil => exact ⟨rfl, rfl, rfl⟩
  | cons k r => simp only; cases getE st k <;> exact ⟨rfl, rfl, rfl⟩

theorem changedKeys_congr {w w' : Watcher Desc} (h1 : w'.isPrefix = w.isPrefix) (h2 : w'.key = w.key) (evs : List PEv) :
    changedKeys w' evs = changedKeys w evs := by
  have hm : ∀ k, w'.matches k = w.matches k := fun k => by unfold Watcher.matches; rw [h1, h2]
  induction evs with
  | nil => rfl
  | cons ev evs ih => cases ev <;> simp only [changedKeys, hm, ih]

/-- **without overflow every change is delivered, in order**: the keys `f` was called for, followed by
those still in the channel, are exactly the watched keys that changed, in the order of the changes -/
theorem prefix_fifo (evs : List PEv) {s : PSt} (h : NoOverflow s evs) :
    (prun s evs).consumed ++ (prun s evs).w.pending = s.consumed ++ s.w.pending ++ changedKeys s.w evs := by
  induction evs generalizing s with
  | nil => simp [prun, changedKeys]
  | cons ev evs ih =>
    unfold prun; rw [List.foldl_cons]
    cases ev with
    | upd k e =>
      have := ih h.2
      unfold prun at this
      rw [this]
      obtain ⟨f1, f2, _, _, _⟩ := notify_fields s.w k
      simp only [pstep, changedKeys]
      rw [changedKeys_congr f1 f2]
      by_cases hm : s.w.matches k = true
      · rw [if_pos hm]
        rcases notify_pending_cases s.w k with ⟨hp, _, _⟩ | ⟨_, hno⟩
        · rw [hp]; simp [List.append_assoc]
        · exact absurd ⟨hm, h.1 hm⟩ hno
      · rw [if_neg hm]
        rcases notify_pending_cases s.w k with ⟨_, hm', _⟩ | ⟨hp, _⟩
        · exact absurd hm' hm
        · rw [hp]
    | run =>
      have := ih h
      unfold prun at this
      rw [this]
      simp only [pstep, changedKeys]
      cases hp : s.w.pending with
      | nil => simp [hp]
      | cons k rest =>
        simp only
        obtain ⟨f1, f2, _⟩ := run_fields s.w s.st
        rw [changedKeys_congr f1 f2]
        have hpend : (s.w.run s.st).pending = rest := by
          unfold Watcher.run; rw [hp]; simp only; cases getE s.st k <;> rfl
        rw [hpend]; simp [List.append_assoc]

end PfC06
