import Proofs.C06.Watch
/-! # C06 — exposed views, gossip delivery, end-to-end visibility of an acknowledged CAS, settling watchers -/
namespace PfC06
open Ring C03 C06 PfC03

variable {U : String → Int → Bool → Inst}

/-! ## what readers see -/

theorem get?_strip (d : Desc) (hn : (ids d).Nodup) (k : String) :
    get? (removeTombstones none d) k = (get? d k).filter (fun e => e.state != .LEFT) := by
  unfold removeTombstones
  induction d with
  | nil => rfl
  | cons x xs ih =>
    simp only [ids, List.map_cons, List.nodup_cons] at hn
    by_cases hk : x.id = k
    · have hnone : get? xs k = none := get?_none_iff.2 (by rw [← hk]; exact hn.1)
      rw [get?_cons, if_pos hk]
      by_cases hp : x.state = .LEFT
      · rw [List.filter_cons_of_neg (by simp [hp]), ih hn.2, hnone]; simp [Option.filter, hp]
      · rw [List.filter_cons_of_pos (by simp [hp]), get?_cons, if_pos hk]; simp [Option.filter, hp]
    · rw [get?_cons, if_neg hk]
      by_cases hp : x.state = .LEFT
      · rw [List.filter_cons_of_neg (by simp [hp]), ih hn.2]
      · rw [List.filter_cons_of_pos (by simp [hp]), get?_cons, if_neg hk, ih hn.2]

/-- equal content ⇒ equal exposed content (tombstones stripped) -/
theorem eqv_strip {a b : Desc} (ha : (ids a).Nodup) (hb : (ids b).Nodup) (h : Eqv a b) :
    Eqv (removeTombstones none a) (removeTombstones none b) := by
  intro k; rw [get?_strip a ha, get?_strip b hb, h k]

/-- the value `KV.Get` / a CAS function / a watcher is handed for `key` at node `i` (absent key = nothing to show) -/
def exposed (c : Cluster Desc) (i : Nat) (key : String) : Desc := removeTombstones none (nval c i key)

theorem exposed_eq_get (c : Cluster Desc) (i : Nat) (key : String) (nd : Node Desc) (hn : c.nodes[i]? = some nd) :
    ((nd.get key).1).getD [] = exposed c i key := by
  unfold exposed nval nstore Node.get sval
  rw [hn]
  cases getE nd.store key <;> rfl

/-! ## a delivered gossip message is contained in the receiver afterwards -/

theorem deliver_joins (hU : Univ U) {cfg : Cfg} (hcfg : cfg.lit = 0) {c : Cluster Desc} (hinv : Inv U c) (n m : Nat)
    (msg : Msg Desc) (hm : c.net[m]? = some msg) (hk : msg.key ≠ "") (hn : n < c.nodes.length) :
    Eqv (nval (stepC cfg c (.deliver n m)) n msg.key) (mergeState (nval c n msg.key) msg.val) ∧
    ∀ i, i ≠ n → (stepC cfg c (.deliver n m)).nodes[i]? = c.nodes[i]? := by
  simp only [stepC, hm]
  obtain ⟨nd, hnd⟩ : ∃ nd, c.nodes[n]? = some nd := ⟨c.nodes[n], by simp [hn]⟩
  have hgood := (hinv.nodes nd (List.mem_of_getElem? hnd)).1
  have hmsg := hinv.net msg (List.mem_of_getElem? hm)
  constructor
  · unfold nval
    rw [upd_nstore, if_pos rfl, hnd]
    simp only
    rw [notifyMsg_deliver c.clock hk]
    have := (deliver_spec hU hcfg c.clock hgood hmsg).view
    have h2 : nstore c n = nd.store := by unfold nstore; rw [hnd]
    rw [h2]; exact this
  · intro i hi
    simp only [Cluster.upd, modifyAt_get?, if_neg hi]

/-! ## the number of nodes never changes -/

theorem stepC_length {V : Type} [MergeVal V] (cfg : Cfg) (c : Cluster V) (ev : Event V) :
    (stepC cfg c ev).nodes.length = c.nodes.length := by
  cases ev <;> simp only [stepC, Cluster.upd, modifyAt_length]
  all_goals (try split) <;> simp only [Cluster.upd, modifyAt_length]

theorem runC_length {V : Type} [MergeVal V] (cfg : Cfg) (evs : List (Event V)) (c : Cluster V) :
    (runC cfg c evs).nodes.length = c.nodes.length := by
  induction evs generalizing c with
  | nil => rfl
  | cons e es ih => rw [runC_cons, ih, stepC_length]

/-! ## end to end: acknowledged ⇒ visible everywhere after the sync -/

/-- node `i` acknowledges a CAS whose function returned `out`; then ANY good events follow in which node `i`
is not restarted (loss, duplication, reordering, partitions, restarts of other nodes, further updates);
then the two sync passes run: every node's value for the key contains `out` -/
theorem acked_eventually_visible (hU : Univ U) (hT : TombClosed U) {cfg : Cfg} (hcfg : cfg.lit = 0) {c : Cluster Desc}
    (hinv : Inv U c) (i : Nat) (key : String) (hkey : key ≠ "") (f : Option Desc → Option Desc) (hf : GoodFn U c.clock f)
    (nd : Node Desc) (hnd : c.nodes[i]? = some nd) (out : Desc) (hout : f (nd.get key).1 = some out)
    (hok : (cas cfg c.clock (c.clock * 1000) nd key f).2 = .ok)
    (mid : List (Event Desc)) (hmid : GoodRun U cfg (stepC cfg c (.cas i key f)) mid) (hnr : ∀ e ∈ mid, notRestartOf i e)
    (j : Nat) (hj : j < c.nodes.length) :
    Le out (nval (runC cfg (runC cfg (stepC cfg c (.cas i key f)) mid) (syncEvents Desc (c.nodes.length - 1))) j key) := by
  have hi : i < c.nodes.length := by
    have := List.getElem?_eq_some_iff.1 hnd; exact this.1
  have hgood := (hinv.nodes nd (List.mem_of_getElem? hnd)).1
  have hinv1 : Inv U (stepC cfg c (.cas i key f)) := inv_step hU hT hcfg hinv _ hf
  -- (1) the acknowledged output is in node i's store right after the CAS
  have h1 : Le out (nval (stepC cfg c (.cas i key f)) i key) := by
    have hs := (cas_spec hU hT hcfg hinv.clock (c.clock * 1000) (key := key) hgood hf).acked out hout hok
    unfold nval
    simp only [stepC]
    rw [upd_nstore, if_pos rfl, hnd]
    exact hs
  -- (2) it stays there while node i is not restarted
  have h2 := run_mono hU hT hcfg mid hinv1 hmid i hnr key
  -- (3) the sync spreads whatever node i holds
  have hinv2 : Inv U (runC cfg (stepC cfg c (.cas i key f)) mid) := inv_run hU hT hcfg hinv1 mid hmid
  have hlen : (runC cfg (stepC cfg c (.cas i key f)) mid).nodes.length = c.nodes.length := by
    rw [runC_length, stepC_length]
  have h3 := acked_visible hU hT hcfg hinv2 (by rw [hlen]; omega) j i (by rw [hlen]; exact hj) (by rw [hlen]; exact hi) key hkey
  rw [hlen] at h3
  exact h1.trans (Le.trans h2 h3)

/-! ## settling a node: delayed notifications flushed, every watcher drains its channel -/

theorem run_pending_length (st : Store Desc) (w : Watcher Desc) : (w.run st).pending.length = w.pending.length - 1 := by
  unfold Watcher.run
  cases hp : w.pending with
  | nil => simp [hp]
  | cons k r => simp only; cases getE st k <;> simp

theorem runAll_pending (st : Store Desc) (n : Nat) (w : Watcher Desc) (h : w.pending.length ≤ n) :
    (Watcher.runAll st w n).pending = [] := by
  induction n generalizing w with
  | zero => simp only [Watcher.runAll]; exact List.eq_nil_of_length_eq_zero (by omega)
  | succ n ih =>
    simp only [Watcher.runAll]
    exact ih _ (by rw [run_pending_length]; omega)

theorem runAll_wok {nd : Node Desc} (n : Nat) {w : Watcher Desc} (ok : WOk nd w) (hp : w.isPrefix = false) :
    WOk nd (Watcher.runAll nd.store w n) ∧ (Watcher.runAll nd.store w n).isPrefix = false := by
  induction n generalizing w with
  | zero => exact ⟨ok, hp⟩
  | succ n ih =>
    simp only [Watcher.runAll]
    obtain ⟨h1, h2⟩ := run_wok ok hp
    exact ih h1 h2

theorem runAll_isPrefix (st : Store Desc) (n : Nat) (w : Watcher Desc) : (Watcher.runAll st w n).isPrefix = w.isPrefix := by
  induction n generalizing w with
  | zero => rfl
  | succ n ih => simp only [Watcher.runAll]; rw [ih]; exact (run_fields_basic st w)
where
  run_fields_basic (st : Store Desc) (w : Watcher Desc) : (w.run st).isPrefix = w.isPrefix := by
    unfold Watcher.run
    cases w.pending with
    | nil => rfl
    | cons k r => simp only; cases getE st k <;> rfl

/-- **settling establishes quiescence and every `WatchKey` watcher is caught up**: after `settle` (flush the
delayed notifications, let every watcher drain its channel) all channels are empty and each key watcher has
seen the current version; the value it was last called with is the current exposed value -/
theorem settle_caught_up {cfg : Cfg} {nd : Node Desc} (h : WInv nd) (hn : cfg.ni = false → nd.notifs = []) :
    (∀ w ∈ (settle cfg nd).watchers, w.pending = []) ∧ (settle cfg nd).notifs = [] ∧
    ∀ w ∈ (settle cfg nd).watchers, w.isPrefix = false →
      verOf (settle cfg nd).store w.key = seenOf w w.key ∧
      ∀ v, lookL w.last w.key = some v → ∃ e, getE (settle cfg nd).store w.key = some e ∧ v = removeTombstones none e.val := by
  -- the node after the flush
  obtain ⟨nd1, hnd1⟩ : ∃ nd1, nd1 = (if cfg.ni then notifyTick nd else nd) := ⟨_, rfl⟩
  have hw1 : WInv nd1 := by
    rw [hnd1]; split
    · exact notifyTick_winv h
    · exact h
  have hn1 : nd1.notifs = [] := by
    rw [hnd1]
    by_cases hni : cfg.ni = true
    · rw [if_pos hni]; rfl
    · rw [if_neg hni]; exact hn (by simpa using hni)
  have hset : settle cfg nd = { nd1 with watchers := nd1.watchers.map fun w => w.runAll nd1.store w.pending.length } := by
    unfold settle; rw [hnd1]
  rw [hset]
  have hq : ∀ w ∈ (nd1.watchers.map fun w => w.runAll nd1.store w.pending.length), w.pending = [] := by
    intro w hw
    obtain ⟨w0, _, rfl⟩ := List.mem_map.1 hw
    exact runAll_pending _ _ _ (Nat.le_refl _)
  have hwinv : WInv { nd1 with watchers := nd1.watchers.map fun w => w.runAll nd1.store w.pending.length } := by
    intro w hw hp
    obtain ⟨w0, hw0, rfl⟩ := List.mem_map.1 hw
    have hp0 : w0.isPrefix = false := by rw [runAll_isPrefix] at hp; exact hp
    exact wok_congr (runAll_wok _ (hw1 w0 hw0 hp0) hp0).1 rfl rfl
  refine ⟨hq, hn1, fun w hw hp => ?_⟩
  exact caught_up hwinv hq hn1 w hw hp

end PfC06
