import Model.C02
import Proofs.C01
/-! Proofs for C02: two pigeonhole arguments (instances; zones) on top of facts about C01's walk that
hold for ANY token circle (so they do not depend on the C01 finding about token 2^32-1). -/
set_option linter.unusedSimpArgs false
set_option linter.unusedVariables false
namespace PfC02
open Common Ring C01 C02

/-! ### pigeonhole on lists -/

theorem nodup_subset_length {α : Type} [DecidableEq α] (l1 : List α) :
    ∀ (l2 : List α), l1.Nodup → (∀ x ∈ l1, x ∈ l2) → l1.length ≤ l2.length := by
  induction l1 with
  | nil => intro l2 _ _; simp
  | cons x xs ih =>
    intro l2 hn hsub
    have hx : x ∈ l2 := hsub x (List.mem_cons_self ..)
    have hn' := List.nodup_cons.mp hn
    have h1 : xs.length ≤ (l2.erase x).length := by
      apply ih _ hn'.2
      intro y hy
      have hne : y ≠ x := fun e => hn'.1 (e ▸ hy)
      exact (List.mem_erase_of_ne hne).mpr (hsub y (List.mem_cons_of_mem _ hy))
    rw [List.length_erase_of_mem hx] at h1
    have : 0 < l2.length := List.length_pos_of_mem hx
    simp only [List.length_cons]; omega

theorem pigeonhole {α : Type} [DecidableEq α] (A B U : List α) (hA : A.Nodup) (hB : B.Nodup)
    (hAU : ∀ x ∈ A, x ∈ U) (hBU : ∀ x ∈ B, x ∈ U) (hlen : U.length < A.length + B.length) :
    ∃ x, x ∈ A ∧ x ∈ B := by
  apply Classical.byContradiction
  intro hno
  have hdis : ∀ a ∈ A, ∀ b ∈ B, a ≠ b := by
    intro a ha b hb e
    exact hno ⟨a, ha, e ▸ hb⟩
  have hnd : (A ++ B).Nodup := List.nodup_append.mpr ⟨hA, hB, hdis⟩
  have := nodup_subset_length (A ++ B) U hnd (by
    intro x hx
    rcases List.mem_append.mp hx with h | h
    · exact hAU x h
    · exact hBU x h)
  rw [List.length_append] at this
  omega

theorem inj_of_map_nodup {α β : Type} (f : α → β) (l : List α) (h : (l.map f).Nodup) :
    ∀ a ∈ l, ∀ b ∈ l, f a = f b → a = b := by
  induction l with
  | nil => intro a ha; cases ha
  | cons x xs ih =>
    rw [List.map_cons, List.nodup_cons] at h
    intro a ha b hb e
    rcases List.mem_cons.mp ha with rfl | ha' <;> rcases List.mem_cons.mp hb with rfl | hb'
    · rfl
    · exact absurd (e ▸ List.mem_map_of_mem (f := f) hb') h.1
    · exact absurd (e ▸ List.mem_map_of_mem (f := f) ha') h.1
    · exact ih h.2 a ha' b hb' e

theorem map_nodup_of_subset {α β : Type} (f : α → β) (l A : List α) (h : (l.map f).Nodup) (hA : A.Nodup)
    (hsub : ∀ a ∈ A, a ∈ l) : (A.map f).Nodup := by
  induction A with
  | nil => exact List.nodup_nil
  | cons a A ih =>
    have hn := List.nodup_cons.mp hA
    rw [List.map_cons, List.nodup_cons]
    refine ⟨?_, ih hn.2 (fun b hb => hsub b (List.mem_cons_of_mem _ hb))⟩
    intro hmem
    rcases List.mem_map.mp hmem with ⟨b, hb, e⟩
    have := inj_of_map_nodup f l h b (hsub b (List.mem_cons_of_mem _ hb)) a (hsub a (List.mem_cons_self ..)) e
    exact hn.1 (this ▸ hb)

/-! ### `dedupStr` / `zonesOf` -/

theorem mem_dedupStr (z : String) (l : List String) : z ∈ dedupStr l ↔ z ∈ l := by
  induction l with
  | nil => simp [dedupStr]
  | cons x xs ih =>
    unfold dedupStr
    split
    · rename_i h
      have hx : x ∈ xs := by simpa using h
      rw [ih]
      constructor
      · exact List.mem_cons_of_mem _
      · intro h'; rcases List.mem_cons.mp h' with rfl | h'
        · exact hx
        · exact h'
    · simp only [List.mem_cons, ih]

theorem nodup_dedupStr (l : List String) : (dedupStr l).Nodup := by
  induction l with
  | nil => exact List.nodup_nil
  | cons x xs ih =>
    unfold dedupStr
    split
    · exact ih
    · rename_i h
      have hx : x ∉ xs := by simpa using h
      exact List.nodup_cons.mpr ⟨fun hm => hx ((mem_dedupStr x xs).mp hm), ih⟩

theorem mem_zonesOf (z : String) (l : List Inst) : z ∈ zonesOf l ↔ ∃ i ∈ l, i.zone = z := by
  unfold zonesOf; rw [mem_dedupStr, List.mem_map]

/-! ### facts about the walk that hold for every token circle -/

/-- Zone-aware, every instance in a named zone: the instances returned by the loop are registered
instances, and its non-extending members lie in pairwise distinct zones. -/
theorem walk_zone_facts (cfg : Cfg) (d : Desc) (zones : List String) (op : Op)
    (hza : cfg.zoneAware = true) (hz : ∀ i ∈ d, i.zone ≠ "") :
    ∀ (L : List Nat) (st : WalkSt) (out : List Inst), walk cfg d zones 1 op L st = .ok out →
      ((out.filter (fun i => !extendsOn op i.state)).map (·.zone)).Nodup ∧
      (∀ i ∈ out, extendsOn op i.state = false → st.found i.zone = 0) ∧ (∀ i ∈ out, i ∈ d) := by
  intro L
  induction L with
  | nil =>
    intro st out h
    rw [walk] at h
    cases h
    exact ⟨List.nodup_nil, (by intro i hi; cases hi), (by intro i hi; cases hi)⟩
  | cons t rest ih =>
    intro st out h
    rw [walk] at h
    have hnil : ∀ {o : List Inst}, (Except.ok [] : Except Err (List Inst)) = .ok o →
        ((o.filter (fun i => !extendsOn op i.state)).map (·.zone)).Nodup ∧
        (∀ i ∈ o, extendsOn op i.state = false → st.found i.zone = 0) ∧ (∀ i ∈ o, i ∈ d) := by
      intro o e; cases e
      exact ⟨List.nodup_nil, (by intro i hi; cases hi), (by intro i hi; cases hi)⟩
    split at h
    · exact hnil h
    · split at h
      · exact hnil h
      · split at h
        · cases h
        · rename_i inst hinfo
          have hinst : inst ∈ d := PfC01.tokenInfo_mem hinfo
          split at h
          · exact ih st out h
          · split at h
            · cases h
            · split at h
              · exact ih st out h
              · rename_i hnb
                -- selected
                cases hw : walk cfg d zones 1 op rest (st.select cfg op inst) with
                | error e => rw [hw] at h; cases h
                | ok out' =>
                  rw [hw] at h
                  have hout : out = inst :: out' := by cases h; rfl
                  subst hout
                  obtain ⟨ihn, ihf, ihd⟩ := ih _ out' hw
                  have hzone : inst.zone ≠ "" := hz inst hinst
                  have hzb : (inst.zone != "") = true := by simpa using hzone
                  have hfound0 : st.found inst.zone = 0 := by
                    rw [hza, hzb] at hnb
                    simp at hnb
                    omega
                  rw [PfC01.select_found, hza, hzb] at ihf
                  simp only [Bool.true_and] at ihf
                  refine ⟨?_, ?_, ?_⟩
                  · rw [List.filter_cons]
                    cases hext : extendsOn op inst.state
                    · simp only [Bool.not_false, if_true, List.map_cons]
                      rw [hext] at ihf
                      simp only [Bool.not_false, if_true] at ihf
                      refine List.nodup_cons.mpr ⟨?_, ihn⟩
                      intro hm
                      rcases List.mem_map.mp hm with ⟨j, hj, hjz⟩
                      have hj' := List.mem_filter.mp hj
                      have hjext : extendsOn op j.state = false := by simpa using hj'.2
                      have := ihf j hj'.1 hjext
                      rw [hjz] at this
                      simp [bump] at this
                    · simpa using ihn
                  · intro i hi hiext
                    rcases List.mem_cons.mp hi with rfl | hi'
                    · exact hfound0
                    · have := ihf i hi' hiext
                      cases hext : extendsOn op inst.state
                      · rw [hext] at this
                        simp only [Bool.not_false, if_true, bump] at this
                        split at this
                        · omega
                        · exact this
                      · rw [hext] at this
                        simpa using this
                  · intro i hi
                    rcases List.mem_cons.mp hi with rfl | hi'
                    · exact hinst
                    · exact ihd i hi'

/-! ### facts about a successful `GetReplicationSetForOperation` -/

/-- the returned instances are a sub-list of the descriptor (so: registered, and pairwise distinct
whenever the descriptor has no duplicate entry); the tolerances are in range. -/
theorem getAll_ok_facts (cfg : Cfg) (d : Desc) (toks : List Nat) (op : Op) (now : Int) (R : RSetAll)
    (h : getAll cfg d toks op now = .ok R) :
    R.instances.Sublist d ∧ R.zoneAware = cfg.zoneAware ∧ (cfg.zoneAware = true → R.maxErrors = 0) ∧
    (cfg.zoneAware = false → R.maxUnavailableZones = 0 ∧ (1 ≤ cfg.rf → R.maxErrors < R.instances.length)) := by
  unfold getAll at h
  dsimp only at h
  by_cases h0 : toks.length = 0
  · rw [if_pos h0] at h; cases h
  · rw [if_neg h0] at h
    cases hza : cfg.zoneAware
    · rw [hza] at h
      simp only [Bool.false_eq_true, if_false] at h
      have hmax : (if d.length < cfg.rf then cfg.rf else d.length) = max d.length cfg.rf := by
        rw [Nat.max_def]; split <;> split <;> omega
      rw [hmax] at h
      by_cases hlt : (d.filter (isHealthy op cfg.hbTimeout now)).length < max d.length cfg.rf - cfg.rf / 2
      · rw [if_pos hlt] at h; cases h
      · rw [if_neg hlt] at h
        cases h
        refine ⟨List.filter_sublist, rfl, (fun hh => by cases hh), fun _ => ⟨rfl, ?_⟩⟩
        intro hrf
        simp only
        have h4 : cfg.rf ≤ max d.length cfg.rf := Nat.le_max_right _ _
        have h2 : cfg.rf / 2 < cfg.rf := Nat.div_lt_self (by omega) (by omega)
        omega
    · rw [hza] at h
      simp only [if_true] at h
      split at h
      · cases h
      · cases h
        refine ⟨?_, rfl, fun _ => rfl, (fun hh => by cases hh)⟩
        simp only
        split
        · exact List.Sublist.trans List.filter_sublist List.filter_sublist
        · exact List.filter_sublist

theorem getAll_nodup (cfg : Cfg) (d : Desc) (toks : List Nat) (op : Op) (now : Int) (R : RSetAll)
    (hid : (d.map (·.id)).Nodup) (h : getAll cfg d toks op now = .ok R) : R.instances.Nodup :=
  List.Nodup.sublist (getAll_ok_facts cfg d toks op now R h).1 (PfC01.nodup_of_map _ _ hid)

theorem getAll_mem (cfg : Cfg) (d : Desc) (toks : List Nat) (op : Op) (now : Int) (R : RSetAll)
    (h : getAll cfg d toks op now = .ok R) : ∀ i ∈ R.instances, i ∈ d :=
  fun i hi => (getAll_ok_facts cfg d toks op now R h).1.subset hi

/-! ### C02, not zone-aware -/

theorem quorum_intersect_flat (cfg : Cfg) (d : Desc) (toks toks' : List Nat) (key : Nat) (now now' : Int)
    (opW opR : Op) (W : RSet) (R : RSetAll) (A B : List Inst) (hza : cfg.zoneAware = false)
    (hW : C01.get cfg d toks key opW now = .ok W) (hR : getAll cfg d toks' opR now' = .ok R)
    (hA : writeOk A W) (hB : readOkFlat B R) : ∃ i, i ∈ A ∧ i ∈ B := by
  obtain ⟨hrf, l, hwalk, hWi, hWn⟩ := PfC01.get_ok_inv cfg d toks key opW now W hW
  have hld : ∀ i ∈ l, i ∈ d := PfC01.walk_subset cfg d _ 1 opW _ _ l hwalk
  have hAd : ∀ a ∈ A, a ∈ d := by
    intro a ha
    have := hA.2.1 a ha
    rw [hWi] at this
    exact hld a (List.mem_filter.mp this).1
  -- the read side
  unfold getAll at hR
  dsimp only at hR
  by_cases h0 : toks'.length = 0
  · rw [if_pos h0] at hR; cases hR
  · rw [if_neg h0, hza] at hR
    simp only [Bool.false_eq_true, if_false] at hR
    have hmax : (if d.length < cfg.rf then cfg.rf else d.length) = max d.length cfg.rf := by
      rw [Nat.max_def]; split <;> split <;> omega
    rw [hmax] at hR
    by_cases hlt : (d.filter (isHealthy opR cfg.hbTimeout now')).length < max d.length cfg.rf - cfg.rf / 2
    · rw [if_pos hlt] at hR; cases hR
    · rw [if_neg hlt] at hR
      cases hR
      have hBd : ∀ b ∈ B, b ∈ d := fun b hb => (List.mem_filter.mp (hB.2.1 b hb)).1
      have hBn := hB.2.2
      simp only at hBn
      have hAn := hA.2.2
      rw [hWn] at hAn
      have hm := PfC01.majority_ge cfg.rf l.length
      apply pigeonhole A B d hA.1 hB.1 hAd hBd
      have h2 : cfg.rf / 2 ≤ cfg.rf := Nat.div_le_self _ _
      have h3 : d.length ≤ max d.length cfg.rf := Nat.le_max_left _ _
      have h4 : cfg.rf ≤ max d.length cfg.rf := Nat.le_max_right _ _
      omega

/-! ### C02, zone-aware -/

theorem nonExtending_builtin : NonExtending opWrite ∧ NonExtending opWriteNoExtend ∧ NonExtending opReporting := by
  refine ⟨?_, ?_, ?_⟩ <;> intro s <;> cases s <;> decide

theorem quorum_intersect_zones (cfg : Cfg) (d : Desc) (toks toks' : List Nat) (key : Nat) (now now' : Int)
    (opW opR : Op) (hne : NonExtending opW)
    (W : RSet) (R : RSetAll) (A : List Inst) (Zs : List String) (hza : cfg.zoneAware = true)
    (hz : ∀ i ∈ d, i.zone ≠ "")
    (hW : C01.get cfg d toks key opW now = .ok W) (hR : getAll cfg d toks' opR now' = .ok R)
    (hA : writeOk A W) (hZ : readOkZones Zs R) :
    ∃ i, i ∈ A ∧ i ∈ R.instances ∧ i.zone ∈ Zs := by
  obtain ⟨hrf, l, hwalk, hWi, hWn⟩ := PfC01.get_ok_inv cfg d toks key opW now W hW
  obtain ⟨hnodup, _, hld⟩ := walk_zone_facts cfg d _ opW hza hz _ _ l hwalk
  -- write side: members of A are registered, non-extending instances in pairwise distinct zones
  have hAl : ∀ a ∈ A, a ∈ l.filter (fun i => !extendsOn opW i.state) ∧ a ∈ d := by
    intro a ha
    have h1 := hA.2.1 a ha
    rw [hWi] at h1
    have h2 := List.mem_filter.mp h1
    have h3 : extendsOn opW a.state = false := by
      have := h2.2; unfold isHealthy at this; rw [Bool.and_eq_true] at this
      exact hne a.state this.1
    exact ⟨List.mem_filter.mpr ⟨h2.1, by simp [h3]⟩, hld a h2.1⟩
  have hAz : (A.map (·.zone)).Nodup :=
    map_nodup_of_subset (·.zone) _ A hnodup hA.1 (fun a ha => (hAl a ha).1)
  have hAn := hA.2.2
  rw [hWn] at hAn
  have hm := PfC01.majority_ge cfg.rf l.length
  -- read side
  unfold getAll at hR
  dsimp only at hR
  by_cases h0 : toks'.length = 0
  · rw [if_pos h0] at hR; cases hR
  · rw [if_neg h0, hza] at hR
    simp only [if_true] at hR
    by_cases hfgt : (zonesOf (d.filter (fun i => !isHealthy opR cfg.hbTimeout now' i))).length
        > min (zonesOf d).length cfg.rf / 2 + 1 - 1
    · rw [if_pos hfgt] at hR; cases hR
    · rw [if_neg hfgt] at hR
      cases hR
      obtain ⟨hZn, hZsub, hZlen⟩ := hZ
      simp only at hZsub hZlen
      -- abbreviations
      generalize hF : zonesOf (d.filter (fun i => !isHealthy opR cfg.hbTimeout now' i)) = F at *
      generalize hRi : (if F.length > 0 then (d.filter (isHealthy opR cfg.hbTimeout now')).filter (fun i => !F.contains i.zone)
                        else d.filter (isHealthy opR cfg.hbTimeout now')) = Ri at *
      have hRmem : ∀ i ∈ d, isHealthy opR cfg.hbTimeout now' i = true → i.zone ∉ F → i ∈ Ri := by
        intro i hi hh hnf
        rw [← hRi]
        split
        · exact List.mem_filter.mpr ⟨List.mem_filter.mpr ⟨hi, hh⟩, by simpa using hnf⟩
        · exact List.mem_filter.mpr ⟨hi, hh⟩
      have hRsub : ∀ i ∈ Ri, i ∈ d ∧ i.zone ∉ F := by
        intro i hi
        rw [← hRi] at hi
        split at hi
        · have h1 := List.mem_filter.mp hi
          exact ⟨(List.mem_filter.mp h1.1).1, by simpa using h1.2⟩
        · rename_i hf0
          have : F = [] := List.length_eq_zero_iff.mp (by omega)
          exact ⟨(List.mem_filter.mp hi).1, by rw [this]; exact List.not_mem_nil⟩
      -- every zone of the ring is a zone of R or a failing zone
      have hcover : ∀ z ∈ zonesOf d, z ∈ zonesOf Ri ++ F := by
        intro z hzmem
        rcases (mem_zonesOf z d).mp hzmem with ⟨i, hi, rfl⟩
        by_cases hf : i.zone ∈ F
        · exact List.mem_append.mpr (Or.inr hf)
        · have hh : isHealthy opR cfg.hbTimeout now' i = true := by
            cases hh : isHealthy opR cfg.hbTimeout now' i
            · exfalso; apply hf; rw [← hF]
              exact (mem_zonesOf _ _).mpr ⟨i, List.mem_filter.mpr ⟨hi, by simp [hh]⟩, rfl⟩
            · rfl
          exact List.mem_append.mpr (Or.inl ((mem_zonesOf _ _).mpr ⟨i, hRmem i hi hh hf, rfl⟩))
      have hk : (zonesOf d).length ≤ (zonesOf Ri).length + F.length := by
        have := nodup_subset_length (zonesOf d) (zonesOf Ri ++ F) (nodup_dedupStr _) hcover
        rwa [List.length_append] at this
      -- pigeonhole on zones
      have hAU : ∀ z ∈ A.map (·.zone), z ∈ zonesOf d := by
        intro z hzm
        rcases List.mem_map.mp hzm with ⟨a, ha, rfl⟩
        exact (mem_zonesOf _ _).mpr ⟨a, (hAl a ha).2, rfl⟩
      have hZU : ∀ z ∈ Zs, z ∈ zonesOf d := by
        intro z hzm
        rcases (mem_zonesOf _ _).mp (hZsub z hzm) with ⟨i, hi, rfl⟩
        exact (mem_zonesOf _ _).mpr ⟨i, (hRsub i hi).1, rfl⟩
      have hlen : (zonesOf d).length < (A.map (·.zone)).length + Zs.length := by
        rw [List.length_map]
        have h2 : min (zonesOf d).length cfg.rf / 2 ≤ cfg.rf / 2 :=
          Nat.div_le_div_right (Nat.min_le_right _ _)
        omega
      obtain ⟨z, hzA, hzZ⟩ := pigeonhole (A.map (·.zone)) Zs (zonesOf d) hAz hZn hAU hZU hlen
      rcases List.mem_map.mp hzA with ⟨a, ha, rfl⟩
      refine ⟨a, ha, ?_, hzZ⟩
      -- a is in R: its zone is a zone of R, hence not a failing zone, hence ALL its registered instances
      -- (a among them) are healthy for the read at the read's own clock
      rcases (mem_zonesOf _ _).mp (hZsub _ hzZ) with ⟨j, hj, hjz⟩
      have hnf : a.zone ∉ F := hjz ▸ (hRsub j hj).2
      have had : a ∈ d := (hAl a ha).2
      have hh : isHealthy opR cfg.hbTimeout now' a = true := by
        cases hh : isHealthy opR cfg.hbTimeout now' a
        · exfalso; apply hnf; rw [← hF]
          exact (mem_zonesOf _ _).mpr ⟨a, List.mem_filter.mpr ⟨had, by simp [hh]⟩, rfl⟩
        · rfl
      exact hRmem a had hh hnf

/-- a duplicate-free sub-list that is at least as long as the list covers it -/
theorem covers_of_length {α : Type} [DecidableEq α] (B R : List α) (hB : B.Nodup) (hsub : ∀ b ∈ B, b ∈ R)
    (hlen : R.length ≤ B.length) : ∀ x ∈ R, x ∈ B := by
  intro x hx
  apply Classical.byContradiction
  intro hxB
  have h1 : B.length ≤ (R.erase x).length :=
    nodup_subset_length B (R.erase x) hB (fun b hb => (List.mem_erase_of_ne (fun (e : b = x) => hxB (by rw [← e]; exact hb))).mpr (hsub b hb))
  rw [List.length_erase_of_mem hx] at h1
  have : 0 < R.length := List.length_pos_of_mem hx
  omega

/-- zone-aware read set executed by the plain tracker with no tolerated error (`ReplicationSet.Do` when
`MaxUnavailableZones == 0`): every instance of the set must answer. -/
theorem quorum_intersect_zones_all (cfg : Cfg) (d : Desc) (toks toks' : List Nat) (key : Nat) (now now' : Int)
    (opW opR : Op) (hne : NonExtending opW)
    (W : RSet) (R : RSetAll) (A B : List Inst) (hza : cfg.zoneAware = true)
    (hz : ∀ i ∈ d, i.zone ≠ "")
    (hW : C01.get cfg d toks key opW now = .ok W) (hR : getAll cfg d toks' opR now' = .ok R)
    (hA : writeOk A W) (hB : readOkFlat B R) : ∃ i, i ∈ A ∧ i ∈ B := by
  have hme : R.maxErrors = 0 := (getAll_ok_facts cfg d toks' opR now' R hR).2.2.1 hza
  have hZ : readOkZones (zonesOf R.instances) R := ⟨nodup_dedupStr _, fun z hz => hz, Nat.sub_le _ _⟩
  obtain ⟨i, hiA, hiR, _⟩ := quorum_intersect_zones cfg d toks toks' key now now' opW opR hne W R A _ hza hz hW hR hA hZ
  have hlen := hB.2.2
  rw [hme, Nat.sub_zero] at hlen
  exact ⟨i, hiA, covers_of_length B R.instances hB.1 hB.2.1 hlen i hiR⟩


end PfC02
