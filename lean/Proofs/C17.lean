import Model.C17
/-!
Helper lemmas and proofs for C17 (service part). The manager part is in `Proofs/C17/Manager.lean`.

The invariant `Inv` ties every field of the model state to the program counter of `main()` and to the
ghost logs; it holds initially and is preserved by every event, hence in every reachable state.
-/
namespace PfC17
open C17

/-! ### legal chains of transitions -/

/-- follow a list of transitions from `cur`; `none` if some step is not a legal edge from the current state. -/
def chainEnd : SState → List Notif → Option SState
  | cur, [] => some cur
  | cur, n :: ns => if n.frm = cur ∧ legalEdge cur n.to = true then chainEnd n.to ns else none

theorem chainEnd_append (cur : SState) (l : List Notif) (n : Notif) (mid : SState)
    (h : chainEnd cur l = some mid) (h1 : n.frm = mid) (h2 : legalEdge mid n.to = true) :
    chainEnd cur (l ++ [n]) = some n.to := by
  induction l generalizing cur with
  | nil =>
    simp [chainEnd] at h
    subst h
    simp [chainEnd, h1, h2]
  | cons a l ih =>
    simp only [chainEnd, List.cons_append] at h ⊢
    split at h
    · rename_i hc
      rw [if_pos hc]
      exact ih _ h
    · cases h

theorem legalEdge_rank (a b : SState) (h : legalEdge a b = true) : a.rank < b.rank := by
  cases a <;> cases b <;> simp [legalEdge] at h <;> simp [SState.rank]

theorem legalEdge_nonterminal (a b : SState) (h : legalEdge a b = true) : a.terminal = false := by
  cases a <;> cases b <;> simp [legalEdge] at h <;> rfl

/-! ### listeners -/

/-- what must hold of a registered listener `l` when the transition log is `trans` and the state is `st`. -/
structure LsnOK (trans : List Notif) (st : SState) (l : Lsn) : Prop where
  reg : l.regAt ≤ trans.length
  live : l.removed = false → l.seen ++ l.queue = trans.drop l.regAt ∧ l.closed = st.terminal
  gone : l.removed = true → l.seen <+: trans.drop l.regAt
  cb : l.inCb = if l.busy then 1 else 0

theorem notify_ok (trans : List Notif) (st : SState) (n : Notif) (close : Bool)
    (hst : st.terminal = false) (hlen : trans.length + 1 ≤ listenerCap) (hclose : close = n.to.terminal)
    (ls : List Lsn) (h : ∀ l ∈ ls, LsnOK trans st l) :
    (notify n close ls).2 = [] ∧ ∀ l ∈ (notify n close ls).1, LsnOK (trans ++ [n]) n.to l := by
  induction ls with
  | nil => simp [notify]
  | cons l ls ih =>
    have hl := h l (by simp)
    have ih' := ih (fun x hx => h x (by simp [hx]))
    simp only [notify]
    have key : (l.send n close).2 = [] ∧ LsnOK (trans ++ [n]) n.to (l.send n close).1 := by
      unfold Lsn.send
      by_cases hr : l.removed = true
      · rw [if_pos hr]
        refine ⟨rfl, ?_, ?_, ?_, hl.cb⟩
        · have := hl.reg; simp; omega
        · intro h0; rw [hr] at h0; cases h0
        · intro _
          have hp := hl.gone hr
          rw [List.drop_append_of_le_length hl.reg]
          exact List.IsPrefix.trans hp (List.prefix_append _ _)
      · have hr' : l.removed = false := by cases hx : l.removed <;> simp_all
        rw [if_neg hr]
        obtain ⟨hsq, hcl⟩ := hl.live hr'
        have hc : l.closed = false := by rw [hcl, hst]
        rw [if_neg (by simp [hc])]
        have hq : l.queue.length < listenerCap := by
          have : (l.seen ++ l.queue).length = (trans.drop l.regAt).length := by rw [hsq]
          simp at this
          omega
        rw [if_neg (by omega)]
        refine ⟨rfl, ?_, ?_, ?_, hl.cb⟩
        · have := hl.reg; simp; omega
        · intro _
          refine ⟨?_, ?_⟩
          · simp only
            rw [List.drop_append_of_le_length hl.reg, ← hsq, List.append_assoc]
          · simp [hclose]
        · intro h0; simp [hr'] at h0
    refine ⟨?_, ?_⟩
    · simp [key.1, ih'.1]
    · intro x hx
      simp only [List.mem_cons] at hx
      rcases hx with rfl | hx
      · exact key.2
      · exact ih'.2 x hx

theorem deliverTo_ok (trans : List Notif) (st : SState) (id : Nat) (ls : List Lsn)
    (h : ∀ l ∈ ls, LsnOK trans st l) : ∀ l ∈ deliverTo id ls, LsnOK trans st l := by
  induction ls with
  | nil => simp [deliverTo]
  | cons l ls ih =>
    have hl := h l (by simp)
    have ih' := ih (fun x hx => h x (by simp [hx]))
    simp only [deliverTo]
    split
    · rename_i hc
      split
      · exact h
      · rename_i hbusy
        have hb : l.busy = false := by cases hx : l.busy <;> simp_all
        split
        · exact h
        · rename_i n q hq
          intro x hx
          simp only [List.mem_cons] at hx
          rcases hx with rfl | hx
          · have hr' : l.removed = false := by cases hx : l.removed <;> simp_all
            obtain ⟨hsq, hcl⟩ := hl.live hr'
            refine ⟨hl.reg, ?_, ?_, ?_⟩
            · intro _
              refine ⟨?_, hcl⟩
              simp only
              rw [← hsq, hq]; simp
            · intro h0; simp [hr'] at h0
            · have := hl.cb; rw [hb] at this; simp [this]
          · exact h x (by simp [hx])
    · intro x hx
      simp only [List.mem_cons] at hx
      rcases hx with rfl | hx
      · exact hl
      · exact ih' x hx

theorem endTo_ok (trans : List Notif) (st : SState) (id : Nat) (ls : List Lsn)
    (h : ∀ l ∈ ls, LsnOK trans st l) : ∀ l ∈ endTo id ls, LsnOK trans st l := by
  induction ls with
  | nil => simp [endTo]
  | cons l ls ih =>
    have hl := h l (by simp)
    have ih' := ih (fun x hx => h x (by simp [hx]))
    simp only [endTo]
    split
    · split
      · rename_i hbusy
        intro x hx
        simp only [List.mem_cons] at hx
        rcases hx with rfl | hx
        · refine ⟨hl.reg, hl.live, hl.gone, ?_⟩
          have := hl.cb; rw [hbusy] at this; simp [this]
        · exact h x (by simp [hx])
      · exact h
    · intro x hx
      simp only [List.mem_cons] at hx
      rcases hx with rfl | hx
      · exact hl
      · exact ih' x hx

theorem removeFrom_ok (trans : List Notif) (st : SState) (id : Nat) (ls : List Lsn)
    (h : ∀ l ∈ ls, LsnOK trans st l) : ∀ l ∈ removeFrom id ls, LsnOK trans st l := by
  induction ls with
  | nil => simp [removeFrom]
  | cons l ls ih =>
    have hl := h l (by simp)
    have ih' := ih (fun x hx => h x (by simp [hx]))
    simp only [removeFrom]
    split
    · intro x hx
      simp only [List.mem_cons] at hx
      rcases hx with rfl | hx
      · refine ⟨hl.reg, ?_, ?_, hl.cb⟩
        · intro h0; simp at h0
        · intro _
          simp only
          by_cases hr : l.removed = true
          · exact hl.gone hr
          · have hr' : l.removed = false := by cases hx : l.removed <;> simp_all
            rw [← (hl.live hr').1]
            exact List.prefix_append _ _
      · exact h x (by simp [hx])
    · intro x hx
      simp only [List.mem_cons] at hx
      rcases hx with rfl | hx
      · exact hl
      · exact ih' x hx

/-! ### the control invariant -/

/-- which service state goes with which program counter of `main()`. -/
def pcState : PC → SState → Bool
  | .idle, st => st == .new || st == .terminated
  | .atStart, st | .inStart, st | .gotStart _, st | .toRunning, st => st == .starting
  | .toStopping fr _, st => st == (if fr then .running else .starting)
  | .atRun, st | .inRun, st => st == .running
  | .preCancel _, st | .atStop _, st | .inStop _, st | .toEnd _, st => st == .stopping
  | .done, st => st.terminal

structure Core (s : Svc) : Prop where
  chain : chainEnd .new s.trans = some s.st
  len : s.trans.length ≤ s.st.rank
  runC : s.runClosed = if 2 ≤ s.st.rank then 1 else 0
  termC : s.termClosed = if s.st.terminal then 1 else 0
  pcst : pcState s.pc s.st = true
  started : s.started = true ↔ s.pc ≠ .idle
  bad : s.bad = []
  lsn : ∀ l ∈ s.lsns, LsnOK s.trans s.st l

theorem rank_le_four (st : SState) : st.rank ≤ 4 := by cases st <;> simp [SState.rank]

theorem nonterminal_rank (st : SState) (h : st.terminal = false) : st.rank ≤ 3 := by
  cases st <;> simp [SState.rank, SState.terminal] at *

theorem transition_facts (s : Svc) (hc : Core s) (n : Notif) (close : Bool)
    (hfrm : n.frm = s.st) (hedge : legalEdge s.st n.to = true) (hclose : close = n.to.terminal) :
    chainEnd .new (s.transition n close).trans = some n.to ∧
    (s.transition n close).trans.length ≤ n.to.rank ∧
    (s.transition n close).bad = [] ∧
    (∀ l ∈ (s.transition n close).lsns, LsnOK (s.transition n close).trans n.to l) := by
  have hst := legalEdge_nonterminal _ _ hedge
  have hr := legalEdge_rank _ _ hedge
  have hlen := hc.len
  have h3 := nonterminal_rank _ hst
  have hn := notify_ok s.trans s.st n close hst (by simp [listenerCap]; omega) hclose s.lsns hc.lsn
  refine ⟨?_, ?_, ?_, ?_⟩
  · exact chainEnd_append _ _ _ _ hc.chain hfrm hedge
  · simp [Svc.transition]; omega
  · simp [Svc.transition, hc.bad, hn.1]
  · exact hn.2

theorem core_init (a b c : Bool) : Core (init a b c) := by
  refine ⟨rfl, by simp [init], rfl, rfl, rfl, by simp [init], rfl, ?_⟩
  intro l hl; simp [init] at hl

theorem core_congr (s s' : Svc) (hc : Core s) (h1 : s'.trans = s.trans) (h2 : s'.st = s.st)
    (h3 : s'.runClosed = s.runClosed) (h4 : s'.termClosed = s.termClosed) (h5 : s'.bad = s.bad)
    (h6 : s'.lsns = s.lsns) (h7 : s'.started = true ↔ s'.pc ≠ .idle) (h8 : pcState s'.pc s.st = true) : Core s' := by
  refine ⟨?_, ?_, ?_, ?_, ?_, h7, ?_, ?_⟩
  · rw [h1, h2]; exact hc.chain
  · rw [h1, h2]; exact hc.len
  · rw [h3, h2]; exact hc.runC
  · rw [h4, h2]; exact hc.termC
  · rw [h2]; exact h8
  · rw [h5]; exact hc.bad
  · rw [h6, h1, h2]; exact hc.lsn

theorem core_trans (s s' : Svc) (hc : Core s) (n : Notif) (close : Bool)
    (hfrm : n.frm = s.st) (hedge : legalEdge s.st n.to = true) (hclose : close = n.to.terminal)
    (h1 : s'.trans = (s.transition n close).trans) (h2 : s'.st = n.to)
    (h5 : s'.bad = (s.transition n close).bad) (h6 : s'.lsns = (s.transition n close).lsns)
    (h3 : s'.runClosed = if 2 ≤ n.to.rank then 1 else 0) (h4 : s'.termClosed = if n.to.terminal then 1 else 0)
    (h7 : s'.started = true ↔ s'.pc ≠ .idle) (h8 : pcState s'.pc n.to = true) : Core s' := by
  obtain ⟨f1, f2, f3, f4⟩ := transition_facts s hc n close hfrm hedge hclose
  refine ⟨?_, ?_, ?_, ?_, ?_, h7, ?_, ?_⟩
  · rw [h1, h2]; exact f1
  · rw [h1, h2]; exact f2
  · rw [h3, h2]
  · rw [h4, h2]
  · rw [h2]; exact h8
  · rw [h5]; exact f3
  · rw [h6, h1, h2]; exact f4

theorem core_tau (s : Svc) (hc : Core s) : Core (tau s) := by
  have hp := hc.pcst
  have hs := hc.started
  have hr := hc.runC
  have ht := hc.termC
  unfold tau
  split
  · -- atStart
    rename_i hpc
    rw [hpc] at hp hs
    split
    · exact core_congr s _ hc rfl rfl rfl rfl rfl rfl (by simpa using hs) (by simpa [pcState] using hp)
    · exact core_congr s _ hc rfl rfl rfl rfl rfl rfl (by simpa using hs) (by simpa [pcState] using hp)
  · -- gotStart (some e)
    rename_i e hpc
    rw [hpc] at hp hs
    have hst : s.st = .starting := by simpa [pcState] using hp
    unfold Svc.mustSwitch
    rw [if_pos hst]
    refine core_trans s _ hc (.failed .starting e) true (by simp [Notif.frm, hst]) (by simp [hst, Notif.to, legalEdge])
      (by simp [Notif.to, SState.terminal]) rfl rfl rfl rfl ?_ ?_ (by simpa [Svc.transition] using hs) (by simp [pcState, Notif.to, SState.terminal])
    · simp [hr, hst, SState.rank, Notif.to]
    · simp [ht, hst, SState.terminal, Notif.to]
  · -- gotStart none
    rename_i hpc
    rw [hpc] at hp hs
    split
    · exact core_congr s _ hc rfl rfl rfl rfl rfl rfl (by simpa using hs) (by simpa [pcState] using hp)
    · exact core_congr s _ hc rfl rfl rfl rfl rfl rfl (by simpa using hs) (by simpa [pcState] using hp)
  · -- toRunning
    rename_i hpc
    rw [hpc] at hp hs
    have hst : s.st = .starting := by simpa [pcState] using hp
    unfold Svc.mustSwitch
    rw [if_pos hst]
    refine core_trans s _ hc .running false (by simp [Notif.frm, hst]) (by simp [hst, Notif.to, legalEdge])
      (by simp [Notif.to, SState.terminal]) rfl rfl rfl rfl ?_ ?_ (by simpa [Svc.transition] using hs) (by simp [pcState, Notif.to])
    · simp [hr, hst, SState.rank, Notif.to]
    · simp [Svc.transition, ht, hst, SState.terminal, Notif.to]
  · -- atRun
    rename_i hpc
    rw [hpc] at hp hs
    split
    · exact core_congr s _ hc rfl rfl rfl rfl rfl rfl (by simpa using hs) (by simpa [pcState] using hp)
    · exact core_congr s _ hc rfl rfl rfl rfl rfl rfl (by simpa using hs) (by simpa [pcState] using hp)
  · -- toStopping
    rename_i fr f hpc
    rw [hpc] at hp hs
    have hst : s.st = (if fr then .running else .starting) := by simpa [pcState] using hp
    unfold Svc.mustSwitch
    simp only
    rw [if_pos hst]
    cases fr
    · simp only [Bool.false_eq_true, if_false] at hst ⊢
      refine core_trans s _ hc (.stopping .starting) false (by simp [Notif.frm, hst]) (by simp [hst, Notif.to, legalEdge])
        (by simp [Notif.to, SState.terminal]) rfl rfl rfl rfl ?_ ?_ (by simpa [Svc.transition] using hs) (by simp [pcState, Notif.to])
      · simp [hr, hst, SState.rank, Notif.to]
      · simp [Svc.transition, ht, hst, SState.terminal, Notif.to]
    · simp only [if_true] at hst ⊢
      refine core_trans s _ hc (.stopping .running) false (by simp [Notif.frm, hst]) (by simp [hst, Notif.to, legalEdge])
        (by simp [Notif.to, SState.terminal]) rfl rfl rfl rfl ?_ ?_ (by simpa [Svc.transition] using hs) (by simp [pcState, Notif.to])
      · simp [Svc.transition, hr, hst, SState.rank, Notif.to]
      · simp [Svc.transition, ht, hst, SState.terminal, Notif.to]
  · -- preCancel
    rename_i f hpc
    rw [hpc] at hp hs
    exact core_congr s _ hc rfl rfl rfl rfl rfl rfl (by simpa using hs) (by simpa [pcState] using hp)
  · -- atStop
    rename_i f hpc
    rw [hpc] at hp hs
    split
    · exact core_congr s _ hc rfl rfl rfl rfl rfl rfl (by simpa using hs) (by simpa [pcState] using hp)
    · exact core_congr s _ hc rfl rfl rfl rfl rfl rfl (by simpa using hs) (by simpa [pcState] using hp)
  · -- toEnd (some e)
    rename_i e hpc
    rw [hpc] at hp hs
    have hst : s.st = .stopping := by simpa [pcState] using hp
    unfold Svc.mustSwitch
    rw [if_pos hst]
    refine core_trans s _ hc (.failed .stopping e) true (by simp [Notif.frm, hst]) (by simp [hst, Notif.to, legalEdge])
      (by simp [Notif.to, SState.terminal]) rfl rfl rfl rfl ?_ ?_ (by simpa [Svc.transition] using hs) (by simp [pcState, Notif.to, SState.terminal])
    · simp [Svc.transition, hr, hst, SState.rank, Notif.to]
    · simp [ht, hst, SState.terminal, Notif.to]
  · -- toEnd none
    rename_i hpc
    rw [hpc] at hp hs
    have hst : s.st = .stopping := by simpa [pcState] using hp
    unfold Svc.mustSwitch
    rw [if_pos hst]
    refine core_trans s _ hc (.terminated .stopping) true (by simp [Notif.frm, hst]) (by simp [hst, Notif.to, legalEdge])
      (by simp [Notif.to, SState.terminal]) rfl rfl rfl rfl ?_ ?_ (by simpa [Svc.transition] using hs) (by simp [pcState, Notif.to, SState.terminal])
    · simp [Svc.transition, hr, hst, SState.rank, Notif.to]
    · simp [ht, hst, SState.terminal, Notif.to]
  · exact hc

theorem pc_of_new (pc : PC) (h : pcState pc .new = true) : pc = .idle := by
  cases pc <;> simp [pcState, SState.terminal] at h ⊢
  rename_i fr f
  cases fr <;> simp at h

theorem core_lsns (s s' : Svc) (hc : Core s) (h1 : s'.trans = s.trans) (h2 : s'.st = s.st)
    (h3 : s'.runClosed = s.runClosed) (h4 : s'.termClosed = s.termClosed) (h5 : s'.bad = s.bad)
    (h6 : ∀ l ∈ s'.lsns, LsnOK s.trans s.st l) (h7 : s'.started = s.started) (h8 : s'.pc = s.pc) : Core s' := by
  refine ⟨?_, ?_, ?_, ?_, ?_, ?_, ?_, ?_⟩
  · rw [h1, h2]; exact hc.chain
  · rw [h1, h2]; exact hc.len
  · rw [h3, h2]; exact hc.runC
  · rw [h4, h2]; exact hc.termC
  · rw [h2, h8]; exact hc.pcst
  · rw [h7, h8]; exact hc.started
  · rw [h5]; exact hc.bad
  · rw [h1, h2]; exact h6

theorem core_step (s : Svc) (e : Ev) (hc : Core s) : Core (step s e) := by
  have hp := hc.pcst
  have hs := hc.started
  have hr := hc.runC
  have ht := hc.termC
  cases e with
  | tau => exact core_tau s hc
  | startAsync =>
    simp only [step]
    split
    · rename_i hst
      have hpc := pc_of_new s.pc (by rw [← hst]; exact hp)
      refine core_trans s _ hc .starting false (by simp [Notif.frm, hst]) (by simp [hst, Notif.to, legalEdge])
        (by simp [Notif.to, SState.terminal]) rfl rfl rfl rfl ?_ ?_ (by simp) (by simp [pcState, Notif.to])
      · simp [Svc.transition, hr, hst, SState.rank, Notif.to]
      · simp [Svc.transition, ht, hst, SState.terminal, Notif.to]
    · exact hc
  | stopAsync =>
    simp only [step]
    split
    · exact hc
    · exact hc
    · exact hc
    · rename_i hst
      have hpc := pc_of_new s.pc (by rw [← hst]; exact hp)
      refine core_trans s _ hc (.terminated .new) true (by simp [Notif.frm, hst]) (by simp [hst, Notif.to, legalEdge])
        (by simp [Notif.to, SState.terminal]) rfl rfl rfl rfl ?_ ?_ (by simpa [Svc.transition] using hs)
        (by simp [Svc.transition, hpc, pcState, Notif.to])
      · simp [Svc.transition, hr, hst, SState.rank, Notif.to]
      · simp [Svc.transition, ht, hst, SState.terminal, Notif.to]
    · exact core_congr s _ hc rfl rfl rfl rfl rfl rfl hs hp
  | parentCancel =>
    exact core_congr s _ hc rfl rfl rfl rfl rfl rfl hs hp
  | startRet r =>
    simp only [step]
    split
    · rename_i hpc
      rw [hpc] at hp hs
      exact core_congr s _ hc rfl rfl rfl rfl rfl rfl (by simpa using hs) (by simpa [pcState] using hp)
    · exact hc
  | runRet r =>
    simp only [step]
    split
    · rename_i hpc
      rw [hpc] at hp hs
      exact core_congr s _ hc rfl rfl rfl rfl rfl rfl (by simpa using hs) (by simpa [pcState] using hp)
    · exact hc
  | stopRet r =>
    simp only [step]
    split
    · rename_i f hpc
      rw [hpc] at hp hs
      exact core_congr s _ hc rfl rfl rfl rfl rfl rfl (by simpa using hs) (by simpa [pcState] using hp)
    · exact hc
  | addListener =>
    simp only [step]
    split
    · exact core_congr s _ hc rfl rfl rfl rfl rfl rfl hs hp
    · rename_i hterm
      refine core_lsns s _ hc rfl rfl rfl rfl rfl ?_ rfl rfl
      intro l hl
      simp only [List.mem_append, List.mem_singleton] at hl
      rcases hl with hl | rfl
      · exact hc.lsn l hl
      · refine ⟨by simp, ?_, ?_, rfl⟩
        · intro _
          simp at hterm
          simp [hterm]
        · intro h0; simp at h0
  | removeListener id =>
    exact core_lsns s _ hc rfl rfl rfl rfl rfl (removeFrom_ok _ _ id _ hc.lsn) rfl rfl
  | deliver id =>
    exact core_lsns s _ hc rfl rfl rfl rfl rfl (deliverTo_ok _ _ id _ hc.lsn) rfl rfl
  | deliverEnd id =>
    exact core_lsns s _ hc rfl rfl rfl rfl rfl (endTo_ok _ _ id _ hc.lsn) rfl rfl

theorem core_run (s : Svc) (evs : List Ev) (hc : Core s) : Core (run s evs) := by
  induction evs generalizing s with
  | nil => exact hc
  | cons e es ih => exact ih _ (core_step s e hc)

end PfC17
