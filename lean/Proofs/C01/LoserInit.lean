import Proofs.C01.LoserReplay
/-! Loser tree, part 4: `initialize` builds a valid tree (with the fixed `playGame`). -/
set_option linter.unusedSimpArgs false
set_option linter.unusedVariables false
namespace PfC01
open C01

/-- the state between two calls of `Next`: well-formed leaves, valid tree, node 0 names the winner -/
structure Good (t : Tree) (n w : Nat) : Prop where
  wf : TreeWF t n
  valid : ∃ H, V t n H w ∧ w / 2 ^ H = 1
  root : (t.get 0).index = (w : Int)

theorem initLoop_zero (t : Tree) (W : List Nat) (i : Nat) : Tree.initLoop t W 0 i = (t, W) := by
  rw [Tree.initLoop]

theorem initLoop_stop (t : Tree) (W : List Nat) (k : Nat) : Tree.initLoop t W k 0 = (t, W) := by
  cases k with
  | zero => rw [Tree.initLoop]
  | succ k => rw [Tree.initLoop]; simp

theorem initLoop_succ (t : Tree) (W : List Nat) (k i : Nat) (h : i > 0) :
    Tree.initLoop t W (k + 1) i =
      Tree.initLoop
        (t.set (i / 2) { t.get (i / 2) with
          index := ((t.playGame (W.getD i 0) (W.getD (i + 1) 0)).1 : Int),
          value := (t.get (t.playGame (W.getD i 0) (W.getD (i + 1) 0)).1).value })
        (W.set (i / 2) (t.playGame (W.getD i 0) (W.getD (i + 1) 0)).2) k (i - 2) := by
  rw [Tree.initLoop, if_pos h]

/-- `playGame` returns (loser, winner) = the two arguments, the winner having the smaller-or-equal key -/
theorem playGame_spec (t : Tree) (n a b : Nat) (wf : TreeWF t n) (ha : n ≤ a ∧ a < 2 * n) (hb : n ≤ b ∧ b < 2 * n) :
    (t.playGame a b = (b, a) ∧ key t a ≤ key t b) ∨ (t.playGame a b = (a, b) ∧ key t b ≤ key t a) := by
  unfold Tree.playGame
  have hva := wf.leafVal a ha.1 ha.2
  have hvb := wf.leafVal b hb.1 hb.2
  by_cases hlt : (t.get a).value < (t.get b).value ∨ ((t.get a).index ≠ -1 ∧ (t.get b).index = -1)
  · rw [if_pos hlt]
    left; refine ⟨rfl, ?_⟩
    unfold key
    rcases hlt with h | ⟨h1, h2⟩
    · split <;> split <;> omega
    · have := (wf.leafEx b hb.1 hb.2 h2).1
      rw [if_neg h1, if_pos h2]; omega
  · rw [if_neg hlt]
    right; refine ⟨rfl, ?_⟩
    unfold key
    have h1 : (t.get b).value ≤ (t.get a).value := by
      apply Nat.le_of_not_lt; intro h; exact hlt (Or.inl h)
    by_cases hbx : (t.get b).index = -1
    · have hax : (t.get a).index = -1 := by
        apply Classical.byContradiction; intro h; exact hlt (Or.inr ⟨h, hbx⟩)
      rw [if_pos hbx, if_pos hax]; omega
    · rw [if_neg hbx]; split <;> omega

/-- loop invariant of `initialize`: every node above `p` already carries a valid subtree -/
def InitInv (t : Tree) (n : Nat) (W : List Nat) (p : Nat) : Prop :=
  W.length = 2 * n ∧ ∀ r, p < r → r < 2 * n → ∃ h, V t n h (W.getD r 0) ∧ W.getD r 0 / 2 ^ h = r

theorem getD_set_ne (W : List Nat) (i j v : Nat) (h : i ≠ j) : (W.set i v).getD j 0 = W.getD j 0 := by
  simp [List.getD_eq_getElem?_getD, List.getElem?_set_ne h]

theorem getD_set_eq (W : List Nat) (i v : Nat) (h : i < W.length) : (W.set i v).getD i 0 = v := by
  simp [List.getD_eq_getElem?_getD, h]

theorem initLoop_spec (n : Nat) :
    ∀ (k : Nat) (t : Tree) (W : List Nat) (p : Nat),
      TreeWF t n → p < n → p ≤ k → InitInv t n W p →
      InitInv (Tree.initLoop t W k (2 * p)).1 n (Tree.initLoop t W k (2 * p)).2 0 ∧
      (∀ y, n ≤ y → (Tree.initLoop t W k (2 * p)).1.get y = t.get y) ∧
      (Tree.initLoop t W k (2 * p)).1.nodes.length = t.nodes.length ∧
      (Tree.initLoop t W k (2 * p)).1.maxVal = t.maxVal := by
  intro k
  induction k with
  | zero =>
    intro t W p wf hp hk inv
    have : p = 0 := by omega
    subst this
    rw [initLoop_zero]; exact ⟨inv, fun _ _ => rfl, rfl, rfl⟩
  | succ k ih =>
    intro t W p wf hp hk inv
    by_cases hp0 : p = 0
    · subst hp0; rw [initLoop_stop]; exact ⟨inv, fun _ _ => rfl, rfl, rfl⟩
    · have hi : 2 * p > 0 := by omega
      rw [initLoop_succ t W k (2 * p) hi]
      have hdiv : 2 * p / 2 = p := by omega
      have hsub : 2 * p - 2 = 2 * (p - 1) := by omega
      rw [hdiv, hsub]
      obtain ⟨hWlen, hinv⟩ := inv
      obtain ⟨ha, hva, hra⟩ := hinv (2 * p) (by omega) (by omega)
      obtain ⟨hb, hvb, hrb⟩ := hinv (2 * p + 1) (by omega) (by omega)
      generalize hA : W.getD (2 * p) 0 = a at *
      generalize hB : W.getD (2 * p + 1) 0 = b at *
      have hal := V_leaf hva
      have hbl := V_leaf hvb
      have hplen : p < t.nodes.length := by rw [wf.len]; omega
      -- frame facts for the new tree, whatever is stored at p
      have frame : ∀ (nd : Node) (r h u : Nat), p < r → V t n h u → u / 2 ^ h = r → V (t.set p nd) n h u := by
        intro nd r h u hr hv hroot
        apply V_frame hv
        intro y hy
        rw [hroot] at hy
        have := insub_ge hy
        exact tget_set_ne t p y nd (by omega)
      have hleaves : ∀ (nd : Node) y, n ≤ y → (t.set p nd).get y = t.get y :=
        fun nd y hy => tget_set_ne t p y nd (by omega)
      have step : ∀ (lo wi hw hl : Nat), (n ≤ lo ∧ lo < 2 * n) → (n ≤ wi ∧ wi < 2 * n) →
          V t n hw wi → V t n hl lo → wi / 2 ^ hw / 2 = p → lo / 2 ^ hl = sib (wi / 2 ^ hw) → p < wi / 2 ^ hw →
          p < lo / 2 ^ hl → key t wi ≤ key t lo →
          InitInv (t.set p { t.get p with index := (lo : Int), value := (t.get lo).value }) n (W.set p wi) (p - 1) := by
        intro lo wi hw hl hlo hwi hvw hvl hpar hsibl hpw hpl hkey
        refine ⟨by simp [hWlen], ?_⟩
        intro r hr1 hr2
        by_cases hrp : r = p
        · subst hrp
          rw [getD_set_eq W r wi (by omega)]
          refine ⟨hw + 1, ?_, by rw [div_pow_succ]; exact hpar⟩
          have hroot : wi / 2 ^ (hw + 1) = r := by rw [div_pow_succ]; exact hpar
          have hLo : Lo (t.set r { t.get r with index := (lo : Int), value := (t.get lo).value }) r = lo := by
            unfold Lo; rw [tget_set_eq t r _ hplen]; simp
          refine V.node hw hl wi (by rw [hroot]; omega) (by rw [hroot]; exact hp) (frame _ _ _ _ hpw hvw rfl) ?_ ?_ ?_ ?_
          · rw [hroot, hLo]; exact frame _ _ _ _ hpl hvl rfl
          · rw [hroot, hLo]; exact hsibl
          · rw [hroot, hLo, tget_set_eq t r _ hplen, hleaves _ lo hlo.1]
          · rw [hroot, hLo, key_leaf_eq (hleaves _ wi hwi.1), key_leaf_eq (hleaves _ lo hlo.1)]; exact hkey
        · rw [getD_set_ne W p r wi (by omega)]
          obtain ⟨h, hv, hroot⟩ := hinv r (by omega) hr2
          exact ⟨h, frame _ r h _ (by omega) hv hroot, hroot⟩
      rcases playGame_spec t n a b wf hal hbl with ⟨hpg, hkey⟩ | ⟨hpg, hkey⟩
      · -- a wins
        rw [hpg]
        have inv' := step b a ha hb hbl hal hva hvb (by rw [hra]; omega) (by rw [hra, hrb, sib_even]) (by rw [hra]; omega)
          (by rw [hrb]; omega) hkey
        have wf' : TreeWF (t.set p { t.get p with index := (b : Int), value := (t.get b).value }) n :=
          wf_of_leaves wf (hleaves _) (tset_length _ _ _) rfl
        obtain ⟨r1, r2, r3, r4⟩ := ih _ _ (p - 1) wf' (by omega) (by omega) inv'
        exact ⟨r1, fun y hy => (r2 y hy).trans (hleaves _ y hy), r3.trans (tset_length _ _ _), r4⟩
      · rw [hpg]
        have inv' := step a b hb ha hal hbl hvb hva (by rw [hrb]; omega) (by rw [hrb, hra, sib_odd]) (by rw [hrb]; omega)
          (by rw [hra]; omega) hkey
        have wf' : TreeWF (t.set p { t.get p with index := (a : Int), value := (t.get a).value }) n :=
          wf_of_leaves wf (hleaves _) (tset_length _ _ _) rfl
        obtain ⟨r1, r2, r3, r4⟩ := ih _ _ (p - 1) wf' (by omega) (by omega) inv'
        exact ⟨r1, fun y hy => (r2 y hy).trans (hleaves _ y hy), r3.trans (tset_length _ _ _), r4⟩

theorem initialize_spec (t : Tree) (n : Nat) (wf : TreeWF t n) :
    ∃ w, Good t.initialize n w ∧ (∀ y, n ≤ y → t.initialize.get y = t.get y) ∧ t.initialize.maxVal = t.maxVal := by
  unfold Tree.initialize
  have hlen := wf.len
  have hn := wf.npos
  simp only [hlen]
  have hhalf : 2 * n / 2 = n := by omega
  have hsub : 2 * n - 2 = 2 * (n - 1) := by omega
  rw [hhalf, hsub]
  have inv0 : InitInv t n ((List.range (2 * n)).map fun i => if i ≥ n then i else 0) (n - 1) := by
    refine ⟨by simp, ?_⟩
    intro r hr1 hr2
    have hget : ((List.range (2 * n)).map fun i => if i ≥ n then i else 0).getD r 0 = r := by
      simp [List.getD_eq_getElem?_getD, hr2]; omega
    rw [hget]
    exact ⟨0, V.leaf r (by omega) hr2, by simp⟩
  obtain ⟨⟨hWlen, hinv⟩, hleaves, hlen', hmax⟩ := initLoop_spec n (2 * n) t _ (n - 1) wf (by omega) (by omega) inv0
  generalize Tree.initLoop t ((List.range (2 * n)).map fun i => if i ≥ n then i else 0) (2 * n) (2 * (n - 1)) = res at *
  obtain ⟨t', W'⟩ := res
  simp only at hWlen hinv hleaves hlen' hmax ⊢
  obtain ⟨H, hv, hroot⟩ := hinv 1 (by omega) (by omega)
  have hwl := V_leaf hv
  have h0len : 0 < t'.nodes.length := by rw [hlen', hlen]; omega
  refine ⟨W'.getD 1 0, ⟨?_, ⟨H, ?_, hroot⟩, ?_⟩, ?_, ?_⟩
  · exact wf_of_leaves wf (fun y hy => (tget_set_ne t' 0 y _ (by omega)).trans (hleaves y hy))
      ((tset_length _ _ _).trans hlen') hmax
  · apply V_frame hv
    intro y hy
    rw [hroot] at hy
    have := insub_ge hy
    exact tget_set_ne t' 0 y _ (by omega)
  · rw [tget_set_eq t' 0 _ h0len]
  · intro y hy; exact (tget_set_ne t' 0 y _ (by omega)).trans (hleaves y hy)
  · exact hmax

end PfC01
