import Proofs.C01.Sort
/-! `tokenOwners`, `tokenInfo`, `ringZones`, `circle`: the token circle of a well-formed ring. -/
set_option linter.unusedSimpArgs false
namespace PfC01
open Common Ring C01

def pairs (d : Desc) : List (Nat × Inst) := d.flatMap fun i => i.tokens.map fun t => (t, i)

theorem tokenOwners_def (d : Desc) : d.tokenOwners = (pairs d).foldr insertTok [] := rfl

theorem map_fst_insertTok (x : Nat × Inst) (l : List (Nat × Inst)) :
    (insertTok x l).map (·.1) = insertNat x.1 (l.map (·.1)) := by
  induction l with
  | nil => rfl
  | cons y ys ih =>
    unfold insertTok insertNat
    simp only [List.map_cons]
    split
    · rfl
    · simp only [List.map_cons, ih]

theorem map_fst_foldr (ps : List (Nat × Inst)) :
    (ps.foldr insertTok []).map (·.1) = sortNat (ps.map (·.1)) := by
  induction ps with
  | nil => rfl
  | cons p ps ih =>
    show (insertTok p (ps.foldr insertTok [])).map (·.1) = insertNat p.1 (sortNat (ps.map (·.1)))
    rw [map_fst_insertTok, ih]

theorem pairs_map_fst (d : Desc) : (pairs d).map (·.1) = d.flatMap (·.tokens) := by
  induction d with
  | nil => rfl
  | cons i d ih =>
    simp only [pairs, List.flatMap_cons, List.map_append] at ih ⊢
    rw [ih]
    congr 1
    simp [List.map_map, Function.comp_def]

theorem tokenOwners_map_fst (d : Desc) : d.tokenOwners.map (·.1) = sortedTokens d := by
  rw [tokenOwners_def, map_fst_foldr, pairs_map_fst]; rfl

theorem insertTok_perm (x : Nat × Inst) (l : List (Nat × Inst)) : (insertTok x l).Perm (x :: l) := by
  induction l with
  | nil => exact List.Perm.refl _
  | cons y ys ih =>
    unfold insertTok
    split
    · exact List.Perm.refl _
    · exact (List.Perm.cons y ih).trans (List.Perm.swap x y ys)

theorem foldr_insertTok_perm (ps : List (Nat × Inst)) : (ps.foldr insertTok []).Perm ps := by
  induction ps with
  | nil => exact List.Perm.refl _
  | cons p ps ih => exact (insertTok_perm p _).trans (List.Perm.cons p ih)

theorem mem_tokenOwners {d : Desc} {p : Nat × Inst} (h : p ∈ d.tokenOwners) : p.2 ∈ d ∧ p.1 ∈ p.2.tokens := by
  have h1 : p ∈ pairs d := (foldr_insertTok_perm (pairs d)).subset h
  rcases List.mem_flatMap.mp h1 with ⟨i, hi, hp⟩
  rcases List.mem_map.mp hp with ⟨t, ht, rfl⟩
  exact ⟨hi, ht⟩

/-- In a ring with globally unique tokens the token index resolves every token to its owner. -/
theorem tokenInfo_owner (d : Desc) (hn : (d.flatMap (·.tokens)).Nodup) (i : Inst) (t : Nat)
    (hi : i ∈ d) (ht : t ∈ i.tokens) : tokenInfo d t = some i := by
  induction d with
  | nil => cases hi
  | cons j d ih =>
    simp only [List.flatMap_cons] at hn
    have hnd := List.nodup_append.mp hn
    unfold tokenInfo
    rw [List.find?_cons]
    by_cases hj : j.tokens.contains t = true
    · rw [hj]
      rcases List.mem_cons.mp hi with rfl | hi'
      · rfl
      · exfalso
        have h1 : t ∈ j.tokens := by simpa using hj
        have h2 : t ∈ d.flatMap (·.tokens) := List.mem_flatMap.mpr ⟨i, hi', ht⟩
        exact hnd.2.2 t h1 t h2 rfl
    · have hj' : j.tokens.contains t = false := by simpa using hj
      rw [hj']
      rcases List.mem_cons.mp hi with rfl | hi'
      · exfalso; apply hj; simpa using ht
      · exact ih hnd.2.1 hi'

theorem mem_insertStr (z x : String) (l : List String) : z ∈ insertStr x l ↔ z = x ∨ z ∈ l := by
  induction l with
  | nil => simp [insertStr]
  | cons y ys ih =>
    unfold insertStr
    split
    · simp
    · split
      · rename_i h; subst h; simp
      · simp only [List.mem_cons, ih]
        constructor
        · rintro (h | h | h) <;> simp [h]
        · rintro (h | h | h) <;> simp [h]

theorem mem_ringZones (d : Desc) (x : Inst) (hx : x ∈ d) : x.zone ∈ ringZones d := by
  induction d with
  | nil => cases hx
  | cons y d ih =>
    show x.zone ∈ insertStr y.zone (ringZones d)
    rw [mem_insertStr]
    rcases List.mem_cons.mp hx with rfl | h
    · exact Or.inl rfl
    · exact Or.inr (ih h)

/-- The tokens of the circle read from `key` are the token list rotated at `searchToken`. -/
theorem circle_map_fst (d : Desc) (key : Nat) (hn : (d.flatMap (·.tokens)).Nodup) :
    (circle d key).map (·.1) = rot (sortedTokens d) (searchToken (sortedTokens d) key) := by
  rw [rot_searchToken _ _ (sortedTokens_strict d hn), ← tokenOwners_map_fst]
  unfold circle
  rw [List.map_append, List.filter_map, List.filter_map]
  rfl

theorem mem_circle {d : Desc} {key : Nat} {p : Nat × Inst} (h : p ∈ circle d key) : p ∈ d.tokenOwners := by
  unfold circle at h
  rcases List.mem_append.mp h with h | h <;> exact (List.mem_filter.mp h).1

end PfC01
