import Proofs.C01.Owners
/-!
`walk` (the loop of `findInstancesForKey`) computes `specWalked`.

Step A: on a well-formed ring the token-level loop is the same loop over the owners (`iwalk`).
Step B: `iwalk` equals the declarative `takeRf ∘ sfull ∘ dedup` under an invariant tying the loop
counters (`distinctHosts`, `replicaSetSize`, `examined/foundHostsPerZone`) to the prefix of the circle
already consumed. The three early exits (`distinct ≥ min(N, size)`, `canStopLooking`, zone skip) are
shown to cut nothing the specification would still select.
-/
set_option linter.unusedSimpArgs false
set_option linter.unusedVariables false
namespace PfC01
open Common Ring C01

/-- the loop of `findInstancesForKey` over the owners of the tokens (no index lookups, no errors). -/
def iwalk (cfg : Cfg) (N : Nat) (zones : List String) (total : String → Nat) (target : Nat) (op : Op) :
    List Inst → WalkSt → List Inst
  | [], _ => []
  | inst :: rest, st =>
    if ¬ (st.distinct.length < min N st.size) then []
    else if cfg.zoneAware && canStopLooking zones total st target then []
    else if st.distinct.contains inst.id then iwalk cfg N zones total target op rest st
    else if cfg.zoneAware && inst.zone != "" && decide (st.found inst.zone ≥ target) then
      iwalk cfg N zones total target op rest st
    else inst :: iwalk cfg N zones total target op rest (st.select cfg op inst)

theorem walk_eq_iwalk (cfg : Cfg) (d : Desc) (zones : List String) (target : Nat) (op : Op)
    (ps : List (Nat × Inst)) :
    ∀ (st : WalkSt), (∀ p ∈ ps, tokenInfo d p.1 = some p.2 ∧ p.2.zone ∈ zones) →
    walk cfg d zones target op (ps.map (·.1)) st
      = .ok (iwalk cfg d.length zones (zoneTotal d) target op (ps.map (·.2)) st) := by
  induction ps with
  | nil => intro st _; rfl
  | cons p ps ih =>
    intro st h
    have hp := h p (List.mem_cons_self ..)
    have hps : ∀ q ∈ ps, tokenInfo d q.1 = some q.2 ∧ q.2.zone ∈ zones :=
      fun q hq => h q (List.mem_cons_of_mem _ hq)
    have hz : zones.contains p.2.zone = true := by simpa using hp.2
    simp only [List.map_cons]
    rw [walk, iwalk]
    by_cases h1 : st.distinct.length < min d.length st.size
    · rw [if_neg (not_not_intro h1), if_neg (not_not_intro h1)]
      by_cases h2 : (cfg.zoneAware && canStopLooking zones (zoneTotal d) st target) = true
      · rw [if_pos h2, if_pos h2]
      · rw [if_neg h2, if_neg h2, hp.1]
        simp only
        by_cases h3 : st.distinct.contains p.2.id = true
        · rw [if_pos h3, if_pos h3]; exact ih st hps
        · rw [if_neg h3, if_neg h3]
          have h4 : ¬ ((cfg.zoneAware && !zones.contains p.2.zone) = true) := by rw [hz]; simp
          rw [if_neg h4]
          by_cases h5 : (cfg.zoneAware && p.2.zone != "" && decide (st.found p.2.zone ≥ target)) = true
          · rw [if_pos h5, if_pos h5]; exact ih st hps
          · rw [if_neg h5, if_neg h5, ih _ hps]; rfl
    · rw [if_pos h1, if_pos h1]

/-! ### the specification, generalised over the consumed prefix -/

def blockedZ (za : Bool) (op : Op) (earlier : List Inst) (x : Inst) : Bool := za && zoneBlocked op earlier x

def sfullZ (za : Bool) (op : Op) (earlier : List Inst) : List Inst → List Inst
  | [] => []
  | x :: xs =>
    if blockedZ za op earlier x then sfullZ za op (earlier ++ [x]) xs
    else x :: sfullZ za op (earlier ++ [x]) xs

theorem sfullZ_false (op : Op) (l : List Inst) : ∀ e, sfullZ false op e l = l := by
  induction l with
  | nil => intro e; rfl
  | cons x xs ih => intro e; simp [sfullZ, blockedZ, ih]

theorem sfullZ_true (op : Op) (l : List Inst) : ∀ e, sfullZ true op e l = sfullAux op e l := by
  induction l with
  | nil => intro e; rfl
  | cons x xs ih => intro e; simp [sfullZ, sfullAux, blockedZ, ih]

theorem Sfull_eq (cfg : Cfg) (op : Op) (d : Desc) (key : Nat) :
    Sfull cfg op d key = sfullZ cfg.zoneAware op [] (D d key) := by
  unfold Sfull
  cases h : cfg.zoneAware
  · simp [sfullZ_false]
  · simp [sfullZ_true]

theorem takeRf_nil (op : Op) (n : Nat) : takeRf op n [] = [] := by cases n <;> rfl
theorem takeRf_zero (op : Op) (l : List Inst) : takeRf op 0 l = [] := by cases l <;> rfl

theorem dedupIds_seen {seen : List String} {x : Inst} (xs : List Inst) (h : x.id ∈ seen) :
    dedupIds seen (x :: xs) = dedupIds seen xs := by
  have : seen.contains x.id = true := by simpa using h
  rw [dedupIds, if_pos this]

theorem dedupIds_new {seen : List String} {x : Inst} (xs : List Inst) (h : x.id ∉ seen) :
    dedupIds seen (x :: xs) = x :: dedupIds (x.id :: seen) xs := by
  have : seen.contains x.id = false := by simpa using h
  rw [dedupIds, if_neg (by rw [this]; exact Bool.false_ne_true)]

theorem zoneBlocked_append (op : Op) (e e' : List Inst) (y : Inst) :
    zoneBlocked op (e ++ e') y = (zoneBlocked op e y || zoneBlocked op e' y) := by
  unfold zoneBlocked
  rw [List.any_append]
  cases (y.zone != "") <;> simp

theorem blockedZ_mono (za : Bool) (op : Op) (e e' : List Inst) (y : Inst)
    (h : blockedZ za op e y = true) : blockedZ za op (e ++ e') y = true := by
  unfold blockedZ at *
  rw [zoneBlocked_append]
  cases za <;> simp_all

/-- appending an already blocked instance to the prefix does not change who is blocked -/
theorem blockedZ_append_blocked (za : Bool) (op : Op) (e : List Inst) (x y : Inst)
    (hx : blockedZ za op e x = true) : blockedZ za op (e ++ [x]) y = blockedZ za op e y := by
  unfold blockedZ at *
  rw [zoneBlocked_append]
  cases za
  · rfl
  · simp only [Bool.true_and] at hx ⊢
    cases hy : zoneBlocked op e y
    · -- y not blocked by e: then [x] does not block y either, since whoever blocks x would block y
      simp only [Bool.false_or]
      unfold zoneBlocked at hx hy ⊢
      simp only [List.any_cons, List.any_nil, Bool.or_false]
      cases hyz : (y.zone != "")
      · rfl
      · simp only [Bool.true_and]
        rw [hyz] at hy
        simp only [Bool.true_and] at hy
        cases hxy : (x.zone == y.zone)
        · rfl
        · simp only [Bool.true_and]
          have hzz : x.zone = y.zone := by simpa using hxy
          rw [Bool.and_eq_true] at hx
          rw [hzz] at hx
          rw [hy] at hx
          exact absurd hx.2 (by simp)
    · simp

theorem dedupIds_nil_of_seen (l : List Inst) : ∀ (seen : List String), (∀ y ∈ l, y.id ∈ seen) → dedupIds seen l = [] := by
  induction l with
  | nil => intro _ _; rfl
  | cons y l ih =>
    intro seen h
    rw [dedupIds_seen l (h y (List.mem_cons_self ..))]
    exact ih seen (fun z hz => h z (List.mem_cons_of_mem _ hz))

theorem sfullZ_dedup_nil (za : Bool) (op : Op) (l : List Inst) :
    ∀ (seen : List String) (earlier : List Inst),
      (∀ y ∈ l, y.id ∈ seen ∨ blockedZ za op earlier y = true) →
      sfullZ za op earlier (dedupIds seen l) = [] := by
  induction l with
  | nil => intro _ _ _; rfl
  | cons y l ih =>
    intro seen earlier h
    have hl : ∀ z ∈ l, z.id ∈ seen ∨ blockedZ za op earlier z = true :=
      fun z hz => h z (List.mem_cons_of_mem _ hz)
    by_cases hy : y.id ∈ seen
    · rw [dedupIds_seen l hy]; exact ih seen earlier hl
    · rw [dedupIds_new l hy]
      have hb : blockedZ za op earlier y = true := by
        rcases h y (List.mem_cons_self ..) with h1 | h1
        · exact absurd h1 hy
        · exact h1
      rw [sfullZ, if_pos hb]
      apply ih
      intro z hz
      rcases hl z hz with h1 | h1
      · exact Or.inl (List.mem_cons_of_mem _ h1)
      · exact Or.inr (blockedZ_mono za op earlier [y] z h1)

/-! ### counting lemmas -/

theorem filter_and_length_le (l : List Inst) (p q : Inst → Bool) :
    (l.filter (fun y => p y && q y)).length ≤ (l.filter p).length := by
  induction l with
  | nil => simp
  | cons y l ih =>
    simp only [List.filter_cons]
    cases hp : p y <;> cases hq : q y <;> simp <;> omega

theorem all_of_filter_length_ge (l : List Inst) (p q : Inst → Bool)
    (h : (l.filter (fun y => p y && q y)).length ≥ (l.filter p).length) :
    ∀ x ∈ l, p x = true → q x = true := by
  induction l with
  | nil => intro x hx; cases hx
  | cons y l ih =>
    have hle := filter_and_length_le l p q
    intro x hx hpx
    rcases List.mem_cons.mp hx with heq | hx'
    · subst heq
      cases hq : q x
      · exfalso
        simp [List.filter_cons, hpx, hq] at h
        omega
      · rfl
    · apply ih _ x hx' hpx
      cases hp : p y <;> cases hq : q y <;> simp [List.filter_cons, hp, hq] at h <;> omega

theorem count_add (d : Desc) (hid : (d.map (·.id)).Nodup) (x : Inst) (hx : x ∈ d) (S : List String)
    (hxS : x.id ∉ S) (p : Inst → Bool) :
    (d.filter (fun y => p y && (S ++ [x.id]).contains y.id)).length
      = (d.filter (fun y => p y && S.contains y.id)).length + (if p x then 1 else 0) := by
  induction d with
  | nil => cases hx
  | cons y d ih =>
    simp only [List.map_cons, List.nodup_cons] at hid
    have hcontains : ∀ w : Inst, (S ++ [x.id]).contains w.id = (S.contains w.id || decide (w.id = x.id)) := by
      intro w; simp [List.contains_eq_mem, List.mem_append]
    rcases List.mem_cons.mp hx with rfl | hx'
    · -- x is the head: nothing else in d has this id
      have hrest : d.filter (fun y => p y && (S ++ [x.id]).contains y.id) = d.filter (fun y => p y && S.contains y.id) := by
        apply List.filter_congr
        intro w hw
        have hne : w.id ≠ x.id := fun e => hid.1 (e ▸ List.mem_map_of_mem (f := (·.id)) hw)
        rw [hcontains]; simp [hne]
      have hS : S.contains x.id = false := by simpa using hxS
      have hhead : (S ++ [x.id]).contains x.id = true := by rw [hcontains]; simp
      rw [List.filter_cons, List.filter_cons, hrest, hhead, hS]
      cases p x <;> simp
    · have hne : y.id ≠ x.id := fun e => hid.1 (e ▸ List.mem_map_of_mem (f := (·.id)) hx')
      have ih := ih hid.2 hx'
      have hy : (S ++ [x.id]).contains y.id = S.contains y.id := by rw [hcontains]; simp [hne]
      simp only [List.filter_cons, hy]
      split
      · simp only [List.length_cons, ih]; omega
      · exact ih

theorem eq_of_id_eq (d : Desc) (hid : (d.map (·.id)).Nodup) (x y : Inst) (hx : x ∈ d) (hy : y ∈ d)
    (h : x.id = y.id) : x = y := by
  induction d with
  | nil => cases hx
  | cons z d ih =>
    simp only [List.map_cons, List.nodup_cons] at hid
    rcases List.mem_cons.mp hx with rfl | hx' <;> rcases List.mem_cons.mp hy with rfl | hy'
    · rfl
    · exact absurd (h ▸ List.mem_map_of_mem (f := (·.id)) hy') hid.1
    · exact absurd (h ▸ List.mem_map_of_mem (f := (·.id)) hx') hid.1
    · exact ih hid.2 hx' hy'

end PfC01
