import Proofs.C01.Walk
/-! The loop invariant of `findInstancesForKey` and `walk_eq_spec`. -/
set_option linter.unusedSimpArgs false
set_option linter.unusedVariables false
namespace PfC01
open Common Ring C01

/-- number of descriptor entries satisfying `p` whose id is in `S` -/
def cntIn (d : Desc) (S : List String) (p : Inst → Bool) : Nat :=
  (d.filter (fun y => p y && S.contains y.id)).length

/-- Invariant between the loop state `st` and the consumed part of the circle:
`seen` = ids of the members of `D` met so far, `earlier` = those members in order,
`n` = non-extending instances still wanted. -/
structure Inv (cfg : Cfg) (d : Desc) (op : Op) (st : WalkSt) (seen : List String) (earlier : List Inst)
    (n : Nat) : Prop where
  size : st.size = st.distinct.length + n
  sub : ∀ id ∈ st.distinct, id ∈ seen
  blk : ∀ x ∈ d, x.id ∈ seen → x.id ∉ st.distinct → blockedZ cfg.zoneAware op earlier x = true
  fnd : ∀ x ∈ d, blockedZ cfg.zoneAware op earlier x
          = (cfg.zoneAware && x.zone != "" && decide (st.found x.zone ≥ 1))
  cnt : st.distinct.length = cntIn d st.distinct (fun _ => true)
  exa : cfg.zoneAware = true → ∀ z, z ≠ "" → st.examined z = cntIn d st.distinct (fun y => y.zone == z)
  emp : st.found "" = 0 ∧ st.examined "" = 0

theorem filter_const_false (d : Desc) : d.filter (fun _ => false) = [] := by
  induction d with
  | nil => rfl
  | cons y d ih => simp [List.filter_cons, ih]

theorem filter_const_true (d : Desc) : d.filter (fun _ => true) = d := by
  induction d with
  | nil => rfl
  | cons y d ih => simp [List.filter_cons, ih]

theorem inv_init (cfg : Cfg) (d : Desc) (op : Op) (rf : Nat) :
    Inv cfg d op { size := rf } [] [] rf where
  size := by simp
  sub := by intro id h; cases h
  blk := by intro x _ h; cases h
  fnd := by intro x _; simp [blockedZ, zoneBlocked]
  cnt := by simp [cntIn, filter_const_false]
  exa := by intro _ z _; simp [cntIn, filter_const_false]
  emp := ⟨rfl, rfl⟩

/-- exit `distinctHosts.len() ≥ maxInstances`: every instance of the ring is already selected. -/
theorem all_seen {cfg : Cfg} {d : Desc} {op : Op} {st : WalkSt} {seen : List String} {earlier : List Inst}
    {n : Nat} (inv : Inv cfg d op st seen earlier n) (hN : st.distinct.length ≥ d.length) :
    ∀ y ∈ d, y.id ∈ seen := by
  intro y hy
  have h1 : cntIn d st.distinct (fun _ => true) ≥ (d.filter (fun _ => true)).length := by
    rw [← inv.cnt, filter_const_true]; exact hN
  have := all_of_filter_length_ge d (fun _ => true) (fun w => st.distinct.contains w.id) h1 y hy rfl
  exact inv.sub _ (by simpa using this)

/-- exit `canStopLooking`: every remaining instance is already selected or its zone is satisfied. -/
theorem stop_covers {cfg : Cfg} {d : Desc} {op : Op} {st : WalkSt} {seen : List String} {earlier : List Inst}
    {n : Nat} (inv : Inv cfg d op st seen earlier n)
    (hstop : (cfg.zoneAware && canStopLooking (ringZones d) (zoneTotal d) st 1) = true) :
    ∀ y ∈ d, y.id ∈ seen ∨ blockedZ cfg.zoneAware op earlier y = true := by
  intro y hy
  rw [Bool.and_eq_true] at hstop
  obtain ⟨hza, hcs⟩ := hstop
  unfold canStopLooking at hcs
  rw [List.all_eq_true] at hcs
  have hz := hcs y.zone (mem_ringZones d y hy)
  rw [Bool.or_eq_true, decide_eq_true_eq, decide_eq_true_eq] at hz
  by_cases hzone : y.zone = ""
  · exfalso
    rw [hzone, inv.emp.1, inv.emp.2] at hz
    have hpos : 0 < zoneTotal d "" := by
      unfold zoneTotal
      apply List.length_pos_iff.mpr
      apply List.ne_nil_of_mem (a := y)
      exact List.mem_filter.mpr ⟨hy, by simp [hzone]⟩
    omega
  · rcases hz with hf | he
    · right
      rw [inv.fnd y hy, hza]
      simp [hzone, hf]
    · left
      rw [inv.exa hza y.zone hzone] at he
      have := all_of_filter_length_ge d (fun w => w.zone == y.zone) (fun w => st.distinct.contains w.id) he y hy (by simp)
      exact inv.sub _ (by simpa using this)

/-- a zone-blocked, not yet seen instance is skipped: the state is unchanged. -/
theorem inv_skip {cfg : Cfg} {d : Desc} {op : Op} {st : WalkSt} {seen : List String} {earlier : List Inst}
    {n : Nat} (hid : (d.map (·.id)).Nodup) (inv : Inv cfg d op st seen earlier n) (x : Inst) (hx : x ∈ d)
    (hb : blockedZ cfg.zoneAware op earlier x = true) :
    Inv cfg d op st (x.id :: seen) (earlier ++ [x]) n where
  size := inv.size
  sub := fun id h => List.mem_cons_of_mem _ (inv.sub id h)
  blk := by
    intro y hy hys hyd
    rcases List.mem_cons.mp hys with h | h
    · have : y = x := eq_of_id_eq d hid y x hy hx h
      subst this
      exact blockedZ_mono _ _ _ _ _ hb
    · exact blockedZ_mono _ _ _ _ _ (inv.blk y hy h hyd)
  fnd := by
    intro y hy
    rw [blockedZ_append_blocked _ _ _ _ _ hb]
    exact inv.fnd y hy
  cnt := inv.cnt
  exa := inv.exa
  emp := inv.emp

theorem select_distinct (cfg : Cfg) (op : Op) (x : Inst) (st : WalkSt) :
    (st.select cfg op x).distinct = st.distinct ++ [x.id] := rfl
theorem select_size (cfg : Cfg) (op : Op) (x : Inst) (st : WalkSt) :
    (st.select cfg op x).size = if extendsOn op x.state then st.size + 1 else st.size := rfl
theorem select_examined (cfg : Cfg) (op : Op) (x : Inst) (st : WalkSt) :
    (st.select cfg op x).examined = if cfg.zoneAware && x.zone != "" then bump st.examined x.zone else st.examined := rfl
theorem select_found (cfg : Cfg) (op : Op) (x : Inst) (st : WalkSt) :
    (st.select cfg op x).found = if (cfg.zoneAware && x.zone != "") && !extendsOn op x.state then bump st.found x.zone else st.found := rfl

theorem fnd_select (za : Bool) (op : Op) (earlier : List Inst) (found : String → Nat) (x y : Inst)
    (h : blockedZ za op earlier y = (za && y.zone != "" && decide (found y.zone ≥ 1))) :
    blockedZ za op (earlier ++ [x]) y
      = (za && y.zone != "" &&
          decide ((if (za && x.zone != "") && !extendsOn op x.state then bump found x.zone else found) y.zone ≥ 1)) := by
  unfold blockedZ at *
  rw [zoneBlocked_append]
  cases za
  · rfl
  · simp only [Bool.true_and] at h ⊢
    rw [h]
    unfold zoneBlocked
    simp only [List.any_cons, List.any_nil, Bool.or_false]
    cases hyz : (y.zone != "")
    · rfl
    · simp only [Bool.true_and]
      have hyne : y.zone ≠ "" := by simpa using hyz
      cases hext : extendsOn op x.state
      · simp only [Bool.not_false, Bool.and_true]
        cases hxz : (x.zone != "")
        · have hxe : x.zone = "" := by simpa using hxz
          have : (x.zone == y.zone) = false := by rw [hxe]; simpa using hyne
          simp [this]
        · by_cases hzz : x.zone = y.zone
          · have : (x.zone == y.zone) = true := by simpa using hzz
            simp [this, bump, hzz]
          · have : (x.zone == y.zone) = false := by simpa using hzz
            have hzz' : ¬ y.zone = x.zone := fun e => hzz e.symm
            simp [this, bump, hzz']
      · simp

/-- selecting `x` (new, not zone-blocked): counters and the declarative prefix stay in step. -/
theorem inv_select {cfg : Cfg} {d : Desc} {op : Op} {st : WalkSt} {seen : List String} {earlier : List Inst}
    {m : Nat} (hid : (d.map (·.id)).Nodup) (inv : Inv cfg d op st seen earlier (m + 1)) (x : Inst) (hx : x ∈ d)
    (hnd : x.id ∉ st.distinct) :
    Inv cfg d op (st.select cfg op x) (x.id :: seen) (earlier ++ [x])
      (if extendsOn op x.state then m + 1 else m) where
  size := by
    rw [select_size, select_distinct, List.length_append, inv.size]
    split <;> simp <;> omega
  sub := by
    intro id h
    rw [select_distinct] at h
    rcases List.mem_append.mp h with h | h
    · exact List.mem_cons_of_mem _ (inv.sub id h)
    · have : id = x.id := by simpa using h
      subst this; exact List.mem_cons_self ..
  blk := by
    intro y hy hys hyd
    rw [select_distinct] at hyd
    have hne : y.id ≠ x.id := fun e => hyd (List.mem_append.mpr (Or.inr (by simp [e])))
    have hyd' : y.id ∉ st.distinct := fun e => hyd (List.mem_append.mpr (Or.inl e))
    rcases List.mem_cons.mp hys with h | h
    · exact absurd h hne
    · exact blockedZ_mono _ _ _ _ _ (inv.blk y hy h hyd')
  fnd := by
    intro y hy
    rw [select_found]
    exact fnd_select _ _ _ _ _ _ (inv.fnd y hy)
  cnt := by
    rw [select_distinct, List.length_append, inv.cnt]
    unfold cntIn
    rw [count_add d hid x hx st.distinct hnd]
    simp
  exa := by
    intro hza z hz
    rw [select_examined, select_distinct, hza]
    unfold cntIn
    rw [count_add d hid x hx st.distinct hnd]
    have := inv.exa hza z hz
    unfold cntIn at this
    simp only [Bool.true_and]
    by_cases hxz : x.zone = ""
    · have h1 : (x.zone != "") = false := by simpa using hxz
      have h2 : (x.zone == z) = false := by rw [hxz]; simpa using hz
      rw [h1, h2]; simpa using this
    · have h1 : (x.zone != "") = true := by simpa using hxz
      rw [h1]
      simp only [if_true, bump]
      by_cases hzz : z = x.zone
      · subst hzz; simp [this]
      · have h2 : (x.zone == z) = false := by simpa using fun e => hzz e.symm
        rw [if_neg hzz, h2]; simpa using this
  emp := by
    rw [select_found, select_examined]
    refine ⟨?_, ?_⟩
    · split
      · rename_i h
        have : x.zone ≠ "" := by
          simp only [Bool.and_eq_true] at h
          simpa using h.1.2
        simp [bump, inv.emp.1, this]
      · exact inv.emp.1
    · split
      · rename_i h
        have : x.zone ≠ "" := by
          simp only [Bool.and_eq_true] at h
          simpa using h.2
        simp [bump, inv.emp.2, this]
      · exact inv.emp.2

/-- Step B: the loop over the owners computes the declarative walked set, from any reachable state. -/
theorem iwalk_spec (cfg : Cfg) (d : Desc) (op : Op) (hid : (d.map (·.id)).Nodup) :
    ∀ (rest : List Inst) (st : WalkSt) (seen : List String) (earlier : List Inst) (n : Nat),
      (∀ x ∈ rest, x ∈ d) → Inv cfg d op st seen earlier n →
      iwalk cfg d.length (ringZones d) (zoneTotal d) 1 op rest st
        = takeRf op n (sfullZ cfg.zoneAware op earlier (dedupIds seen rest)) := by
  intro rest
  induction rest with
  | nil =>
    intro st seen earlier n _ _
    rw [iwalk]; simp [dedupIds, sfullZ, takeRf_nil]
  | cons x rest ih =>
    intro st seen earlier n hmem inv
    have hx : x ∈ d := hmem x (List.mem_cons_self ..)
    have hrest : ∀ y ∈ rest, y ∈ d := fun y hy => hmem y (List.mem_cons_of_mem _ hy)
    rw [iwalk]
    by_cases hg : st.distinct.length < min d.length st.size
    · rw [if_neg (not_not_intro hg)]
      have hn : 0 < n := by have := inv.size; omega
      by_cases hstop : (cfg.zoneAware && canStopLooking (ringZones d) (zoneTotal d) st 1) = true
      · rw [if_pos hstop]
        have : sfullZ cfg.zoneAware op earlier (dedupIds seen (x :: rest)) = [] := by
          apply sfullZ_dedup_nil
          intro y hy
          exact stop_covers inv hstop y (hmem y hy)
        rw [this, takeRf_nil]
      · rw [if_neg hstop]
        by_cases hdis : st.distinct.contains x.id = true
        · rw [if_pos hdis]
          have : x.id ∈ seen := inv.sub _ (by simpa using hdis)
          rw [dedupIds_seen rest this]
          exact ih st seen earlier n hrest inv
        · rw [if_neg hdis]
          have hnd : x.id ∉ st.distinct := by simpa using hdis
          by_cases hblk : (cfg.zoneAware && x.zone != "" && decide (st.found x.zone ≥ 1)) = true
          · rw [if_pos hblk]
            have hb : blockedZ cfg.zoneAware op earlier x = true := by rw [inv.fnd x hx]; exact hblk
            by_cases hs : x.id ∈ seen
            · rw [dedupIds_seen rest hs]; exact ih st seen earlier n hrest inv
            · rw [dedupIds_new rest hs, sfullZ, if_pos hb]
              exact ih st (x.id :: seen) (earlier ++ [x]) n hrest (inv_skip hid inv x hx hb)
          · rw [if_neg hblk]
            have hb : blockedZ cfg.zoneAware op earlier x = false := by
              rw [inv.fnd x hx]; exact Bool.eq_false_iff.mpr hblk
            have hs : x.id ∉ seen := by
              intro hs
              have := inv.blk x hx hs hnd
              rw [hb] at this; cases this
            rw [dedupIds_new rest hs, sfullZ, if_neg (by rw [hb]; exact Bool.false_ne_true)]
            obtain ⟨m, rfl⟩ : ∃ m, n = m + 1 := ⟨n - 1, by omega⟩
            rw [takeRf]
            congr 1
            exact ih _ (x.id :: seen) (earlier ++ [x]) _ hrest (inv_select hid inv x hx hnd)
    · rw [if_pos hg]
      by_cases hn : n = 0
      · subst hn; rw [takeRf_zero]
      · have hN : st.distinct.length ≥ d.length := by have := inv.size; omega
        have : dedupIds seen (x :: rest) = [] :=
          dedupIds_nil_of_seen _ _ (fun y hy => all_seen inv hN y (hmem y hy))
        rw [this]; simp [sfullZ, takeRf_nil]

/-- **walk_eq_spec**: on a well-formed ring whose token circle is the sorted token list, the loop
of `findInstancesForKey` returns exactly the declarative walked set — all rings, keys, operation
masks, replication factors ≥ 1, zone-awareness on and off, token-less instances, empty zones. -/
theorem walk_eq_spec (cfg : Cfg) (d : Desc) (key : Nat) (op : Op) (hwf : WFRing d) (hrf : 1 ≤ cfg.rf) :
    findInstancesForKey cfg d (sortedTokens d) key op cfg.rf = .ok (specWalked cfg op d key) := by
  obtain ⟨hid, htok⟩ := hwf
  unfold findInstancesForKey
  have h0 : ¬ cfg.rf = 0 := by omega
  rw [if_neg h0]
  have htarget : max 1 (cfg.rf / cfg.rf) = 1 := by rw [Nat.div_self (by omega)]; rfl
  simp only [htarget]
  rw [← circle_map_fst d key htok]
  have hps : ∀ p ∈ circle d key, tokenInfo d p.1 = some p.2 ∧ p.2.zone ∈ ringZones d := by
    intro p hp
    have := mem_tokenOwners (mem_circle hp)
    exact ⟨tokenInfo_owner d htok p.2 p.1 this.1 this.2, mem_ringZones d p.2 this.1⟩
  rw [walk_eq_iwalk cfg d (ringZones d) 1 op (circle d key) _ hps]
  have hmem : ∀ x ∈ (circle d key).map (·.2), x ∈ d := by
    intro x hx
    rcases List.mem_map.mp hx with ⟨p, hp, rfl⟩
    exact (mem_tokenOwners (mem_circle hp)).1
  rw [iwalk_spec cfg d op hid _ _ [] [] cfg.rf hmem (inv_init cfg d op cfg.rf)]
  unfold specWalked
  rw [Sfull_eq]
  rfl

end PfC01
