import Proofs.C01.LoserInit
/-! Loser tree, part 5: `replayGames`, `sequenceEnded` and one `Next()` step preserve the invariant. -/
set_option linter.unusedSimpArgs false
set_option linter.unusedVariables false
namespace PfC01
open C01

theorem up_of_good {t : Tree} {n w : Nat} (g : Good t n w) : Up t n w := by
  obtain ⟨H, hv, hroot⟩ := g.valid
  have := up_of_V hv (by rw [hroot]; exact Up.root) 0 (Nat.zero_le _)
  simpa using this

/-- `replayGames(pos)` from a live leaf whose off-path siblings are valid -/
theorem replayGames_spec (t : Tree) (n pos : Nat) (wf : TreeWF t n) (hpos : n ≤ pos ∧ pos < 2 * n)
    (hact : (t.get pos).index ≠ -1) (hup : Up t n pos) :
    ∃ w, Good (t.replayGames pos) n w ∧ ((t.replayGames pos).get w).index ≠ -1 ∧
      (∀ y, n ≤ y → (t.replayGames pos).get y = t.get y) ∧ (t.replayGames pos).maxVal = t.maxVal := by
  unfold Tree.replayGames
  have hn := wf.npos
  have hspec := replayLoop_spec n t.nodes.length t pos pos 0 wf (by rw [wf.len]; omega) (by omega) hpos.2
    (V.leaf pos hpos.1 hpos.2) (by simp) hact hup
  generalize Tree.replayLoop t t.nodes.length (pos / 2) pos = res at *
  obtain ⟨t', w⟩ := res
  simp only at hspec ⊢
  obtain ⟨⟨⟨H, hv, hroot⟩, hleaves, hlen, hmax⟩, hact'⟩ := hspec
  have hwl := V_leaf hv
  have h0len : 0 < t'.nodes.length := by rw [hlen, wf.len]; omega
  have hne : ∀ y, 1 ≤ y → (t'.set 0 { t'.get 0 with index := (w : Int), value := (t'.get w).value }).get y = t'.get y :=
    fun y hy => tget_set_ne t' 0 y _ (by omega)
  refine ⟨w, ⟨?_, ⟨H, ?_, hroot⟩, ?_⟩, ?_, ?_, hmax⟩
  · exact wf_of_leaves wf (fun y hy => (hne y (by omega)).trans (hleaves y hy)) ((tset_length _ _ _).trans hlen) hmax
  · apply V_frame hv
    intro y hy
    rw [hroot] at hy
    exact hne y (insub_ge hy)
  · rw [tget_set_eq t' 0 _ h0len]
  · rw [hne w (by omega)]; exact hact'
  · intro y hy; exact (hne y (by omega)).trans (hleaves y hy)

/-! ### `sequenceEnded` -/

theorem endedLoop_zero (t : Tree) (c : Nat) : Tree.endedLoop t 0 c = c := by rw [Tree.endedLoop]

theorem endedLoop_succ (t : Tree) (fuel c : Nat) :
    Tree.endedLoop t (fuel + 1) c =
      if c ≠ 0 ∧ (t.get (Lo t c)).index = -1 then Tree.endedLoop t fuel (c / 2) else c := by
  rw [Tree.endedLoop]; rfl

theorem key_exhausted {t : Tree} {n q : Nat} (wf : TreeWF t n) (hq : n ≤ q ∧ q < 2 * n) (hex : (t.get q).index = -1) :
    key t q = 2 * t.maxVal + 1 := by
  unfold key; rw [if_pos hex, (wf.leafEx q hq.1 hq.2 hex).1]

theorem key_le_max {t : Tree} {n q : Nat} (wf : TreeWF t n) (hq : n ≤ q ∧ q < 2 * n) : key t q ≤ 2 * t.maxVal + 1 := by
  unfold key; have := wf.leafVal q hq.1 hq.2; split <;> omega

/-- the climb of `sequenceEnded`: stops at the root, or below the first live stored loser -/
theorem endedLoop_spec (t : Tree) (n pos : Nat) (wf : TreeWF t n) (hpos : n ≤ pos ∧ pos < 2 * n)
    (hex : (t.get pos).index = -1) :
    ∀ (fuel c h : Nat), c / 2 ≤ fuel → 1 ≤ c → V t n h pos → pos / 2 ^ h = c → Up t n c →
      (Tree.endedLoop t fuel (c / 2) = 0 ∧ ∃ H, V t n H pos ∧ pos / 2 ^ H = 1) ∨
      (Tree.endedLoop t fuel (c / 2) ≠ 0 ∧ ∃ h' c', c' / 2 = Tree.endedLoop t fuel (c / 2) ∧ V t n h' pos ∧
        pos / 2 ^ h' = c' ∧ Up t n c' ∧ (t.get (Lo t (c' / 2))).index ≠ -1) := by
  intro fuel
  induction fuel with
  | zero =>
    intro c h hf hc hv hroot hup
    rw [endedLoop_zero]
    have hc1 : c = 1 := by omega
    left; exact ⟨by omega, h, hv, by rw [hroot, hc1]⟩
  | succ fuel ih =>
    intro c h hf hc hv hroot hup
    rw [endedLoop_succ]
    by_cases hcond : c / 2 ≠ 0 ∧ (t.get (Lo t (c / 2))).index = -1
    · rw [if_pos hcond]
      cases hup with
      | root => omega
      | step _ m' hc2 hcn hvL hrootL hval hupcur =>
        have hLl := V_leaf hvL
        have hposroot : pos / 2 ^ (h + 1) = c / 2 := by rw [div_pow_succ, hroot]
        have hnew : V t n (h + 1) pos := by
          refine V.node h m' pos (by rw [hposroot]; omega) (by rw [hposroot]; exact hcn) hv ?_ ?_ ?_ ?_
          · rw [hposroot]; exact hvL
          · rw [hposroot, hroot]; exact hrootL
          · rw [hposroot]; exact hval
          · rw [hposroot, key_exhausted wf hpos hex, key_exhausted wf hLl hcond.2]; exact Nat.le_refl _
        exact ih (c / 2) (h + 1) (by omega) (by omega) hnew hposroot hupcur
    · rw [if_neg hcond]
      by_cases h0 : c / 2 = 0
      · have hc1 : c = 1 := by omega
        left; exact ⟨h0, h, hv, by rw [hroot, hc1]⟩
      · right
        refine ⟨h0, h, c, rfl, hv, hroot, hup, ?_⟩
        intro hx; exact hcond ⟨h0, hx⟩

theorem sequenceEnded_spec (t : Tree) (n pos : Nat) (wf : TreeWF t n) (hpos : n ≤ pos ∧ pos < 2 * n)
    (hex : (t.get pos).index = -1) (hup : Up t n pos) :
    ∃ w, Good (t.sequenceEnded pos) n w ∧
      (∀ y, n ≤ y → (t.sequenceEnded pos).get y = t.get y) ∧ (t.sequenceEnded pos).maxVal = t.maxVal := by
  unfold Tree.sequenceEnded
  have hn := wf.npos
  have hclimb := endedLoop_spec t n pos wf hpos hex t.nodes.length pos 0 (by rw [wf.len]; omega) (by omega)
    (V.leaf pos hpos.1 hpos.2) (by simp) hup
  generalize Tree.endedLoop t t.nodes.length (pos / 2) = cur at *
  simp only
  rcases hclimb with ⟨h0, H, hv, hroot⟩ | ⟨hne0, h', c', hc', hv, hroot, hupc, hLact⟩
  · rw [if_pos h0]
    have h0len : 0 < t.nodes.length := by rw [wf.len]; omega
    have hne : ∀ y, 1 ≤ y → (t.set 0 { t.get 0 with index := (pos : Int), value := t.maxVal }).get y = t.get y :=
      fun y hy => tget_set_ne t 0 y _ (by omega)
    refine ⟨pos, ⟨?_, ⟨H, ?_, hroot⟩, ?_⟩, fun y hy => hne y (by omega), rfl⟩
    · exact wf_of_leaves wf (fun y hy => hne y (by omega)) (tset_length _ _ _) rfl
    · apply V_frame hv; intro y hy; rw [hroot] at hy; exact hne y (insub_ge hy)
    · rw [tget_set_eq t 0 _ h0len]
  · rw [if_neg hne0]
    subst hc'
    have hc2 : 2 ≤ c' := by omega
    cases hupc with
    | root => omega
    | step _ m' _ hcn hvL hrootL hval hupcur =>
      have hLl := V_leaf hvL
      have hcurlen : c' / 2 < t.nodes.length := by rw [wf.len]; omega
      have hLoeq : (t.get (c' / 2)).index.toNat = Lo t (c' / 2) := rfl
      rw [hLoeq]
      let t2 := t.set (c' / 2) { t.get (c' / 2) with index := (pos : Int), value := (t.get pos).value }
      have hget_cur : t2.get (c' / 2) = { t.get (c' / 2) with index := (pos : Int), value := (t.get pos).value } :=
        tget_set_eq t _ _ hcurlen
      have hget_ne : ∀ y, c' / 2 ≠ y → t2.get y = t.get y := fun y hy => tget_set_ne t _ y _ hy
      have hleaves : ∀ y, n ≤ y → t2.get y = t.get y := fun y hy => hget_ne y (by omega)
      have wf2 : TreeWF t2 n := wf_of_leaves wf hleaves (tset_length _ _ _) rfl
      have hLo2 : Lo t2 (c' / 2) = pos := by unfold Lo; rw [hget_cur]; simp
      have hsub_c : ∀ y, InSub c' y → c' / 2 ≠ y := by intro y hy; have := insub_ge hy; omega
      have hsub_s : ∀ y, InSub (sib c') y → c' / 2 ≠ y := by
        intro y hy; have := insub_ge hy; have := sib_div c'; have := sib_ge_two c' hc2; omega
      have hvpos2 : V t2 n h' pos := V_frame hv (fun y hy => hget_ne y (hsub_c y (hroot ▸ hy)))
      have hvL2 : V t2 n m' (Lo t (c' / 2)) := V_frame hvL (fun y hy => hget_ne y (hsub_s y (hrootL ▸ hy)))
      have hupcur2 : Up t2 n (c' / 2) := Up_frame hupcur (fun y hy => hget_ne y (fun e => hy (e ▸ insub_refl _)))
      have hupsib : Up t2 n (sib c') := by
        refine Up.step (sib c') h' (sib_ge_two c' hc2) (by rw [sib_div]; exact hcn) ?_ ?_ ?_ ?_
        · rw [sib_div, hLo2]; exact hvpos2
        · rw [sib_div, hLo2, hroot, sib_sib]
        · rw [sib_div, hLo2, hget_cur, hget_ne pos (by omega)]
        · rw [sib_div]; exact hupcur2
      have hupL : Up t2 n (Lo t (c' / 2)) := by
        have := up_of_V hvL2 (by rw [hrootL]; exact hupsib) 0 (Nat.zero_le _)
        simpa using this
      have hLact2 : (t2.get (Lo t (c' / 2))).index ≠ -1 := by rw [hget_ne _ (by omega)]; exact hLact
      obtain ⟨w, g, _, hl, hm⟩ := replayGames_spec t2 n (Lo t (c' / 2)) wf2 hLl hLact2 hupL
      exact ⟨w, g, fun y hy => (hl y hy).trans (hleaves y hy), hm⟩

end PfC01
