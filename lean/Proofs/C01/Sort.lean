import Model.C01
import Model.C01Spec
/-! Sorting facts: `sortNat`, `tokenOwners`, and `searchToken` on a strictly sorted list. -/
set_option linter.unusedSimpArgs false
namespace PfC01
open Common Ring C01

/-! ### insertion sort on naturals -/

theorem insertNat_perm (x : Nat) (l : List Nat) : (insertNat x l).Perm (x :: l) := by
  induction l with
  | nil => exact List.Perm.refl _
  | cons y ys ih =>
    unfold insertNat
    split
    · exact List.Perm.refl _
    · exact (List.Perm.cons y ih).trans (List.Perm.swap x y ys)

theorem sortNat_perm (l : List Nat) : (sortNat l).Perm l := by
  induction l with
  | nil => exact List.Perm.refl _
  | cons x xs ih =>
    show (insertNat x (sortNat xs)).Perm (x :: xs)
    exact (insertNat_perm x _).trans (List.Perm.cons x ih)

theorem insertNat_sorted (x : Nat) (l : List Nat) (h : l.Pairwise (· ≤ ·)) :
    (insertNat x l).Pairwise (· ≤ ·) := by
  induction l with
  | nil => simp [insertNat]
  | cons y ys ih =>
    unfold insertNat
    split
    · rename_i hxy
      refine List.Pairwise.cons ?_ h
      intro z hz
      rcases List.mem_cons.mp hz with rfl | hz
      · exact hxy
      · exact Nat.le_trans hxy (List.rel_of_pairwise_cons h hz)
    · rename_i hxy
      have hyx : y ≤ x := Nat.le_of_lt (Nat.lt_of_not_le hxy)
      refine List.Pairwise.cons ?_ (ih (List.Pairwise.of_cons h))
      intro z hz
      rcases List.mem_cons.mp ((insertNat_perm x ys).subset hz) with rfl | hz
      · exact hyx
      · exact List.rel_of_pairwise_cons h hz

theorem sortNat_sorted (l : List Nat) : (sortNat l).Pairwise (· ≤ ·) := by
  induction l with
  | nil => exact List.Pairwise.nil
  | cons x xs ih => exact insertNat_sorted x _ ih

theorem strict_of_sorted_nodup (l : List Nat) (hs : l.Pairwise (· ≤ ·)) (hn : l.Nodup) :
    l.Pairwise (· < ·) := by
  induction l with
  | nil => exact List.Pairwise.nil
  | cons x xs ih =>
    have hn' := List.nodup_cons.mp hn
    refine List.Pairwise.cons ?_ (ih (List.Pairwise.of_cons hs) hn'.2)
    intro z hz
    have h1 : x ≤ z := List.rel_of_pairwise_cons hs hz
    have h2 : x ≠ z := fun e => hn'.1 (e ▸ hz)
    omega

theorem sortedTokens_strict (d : Desc) (h : (d.flatMap (·.tokens)).Nodup) :
    (sortedTokens d).Pairwise (· < ·) :=
  strict_of_sorted_nodup _ (sortNat_sorted _) ((sortNat_perm _).nodup_iff.mpr h)

/-! ### `searchToken` -/

/-- the index before the wrap-around adjustment -/
def rawIdx (tokens : List Nat) (key : Nat) : Nat :=
  let i := (tokens.takeWhile (· < key)).length
  if tokens[i]? = some key then i + 1 else i

theorem filter_le_nil_of_all_gt (l : List Nat) (key : Nat) (h : ∀ z ∈ l, key < z) :
    l.filter (fun t => decide (t ≤ key)) = [] := by
  apply List.filter_eq_nil_iff.mpr
  intro z hz
  have := h z hz
  simp; omega

theorem filter_gt_self_of_all_gt (l : List Nat) (key : Nat) (h : ∀ z ∈ l, key < z) :
    l.filter (fun t => decide (key < t)) = l := by
  apply List.filter_eq_self.mpr
  intro z hz
  simpa using h z hz

theorem rawIdx_eq_count (tokens : List Nat) (key : Nat) (hs : tokens.Pairwise (· < ·)) :
    rawIdx tokens key = (tokens.filter (fun t => decide (t ≤ key))).length := by
  induction tokens with
  | nil => simp [rawIdx]
  | cons t ts ih =>
    have hts : ∀ z ∈ ts, t < z := fun z hz => List.rel_of_pairwise_cons hs hz
    have ih := ih (List.Pairwise.of_cons hs)
    by_cases h1 : t < key
    · have : rawIdx (t :: ts) key = rawIdx ts key + 1 := by
        unfold rawIdx
        simp only [List.takeWhile_cons, h1, decide_true, if_true, List.length_cons, List.getElem?_cons_succ]
        split <;> rfl
      rw [this, ih]
      have : t ≤ key := Nat.le_of_lt h1
      simp [List.filter_cons, this]
    · by_cases h2 : t = key
      · subst h2
        have h0 : rawIdx (t :: ts) t = 1 := by
          unfold rawIdx
          simp [List.takeWhile_cons]
        rw [h0]
        have : ts.filter (fun z => decide (z ≤ t)) = [] := filter_le_nil_of_all_gt ts t hts
        simp [List.filter_cons, this]
      · have hgt : key < t := by omega
        have h0 : rawIdx (t :: ts) key = 0 := by
          unfold rawIdx
          simp [List.takeWhile_cons, h1, h2]
        rw [h0]
        have : ts.filter (fun z => decide (z ≤ key)) = [] :=
          filter_le_nil_of_all_gt ts key (fun z hz => Nat.lt_trans hgt (hts z hz))
        have h3 : ¬ t ≤ key := by omega
        simp [List.filter_cons, h3, this]

theorem take_drop_count (tokens : List Nat) (key : Nat) (hs : tokens.Pairwise (· < ·)) :
    tokens.take (tokens.filter (fun t => decide (t ≤ key))).length = tokens.filter (fun t => decide (t ≤ key)) ∧
    tokens.drop (tokens.filter (fun t => decide (t ≤ key))).length = tokens.filter (fun t => decide (key < t)) := by
  induction tokens with
  | nil => simp
  | cons t ts ih =>
    have hts : ∀ z ∈ ts, t < z := fun z hz => List.rel_of_pairwise_cons hs hz
    have ih := ih (List.Pairwise.of_cons hs)
    by_cases h1 : t ≤ key
    · have h2 : ¬ key < t := by omega
      simp [List.filter_cons, h1, h2, ih.1, ih.2]
    · have hgt : key < t := by omega
      have hall : ∀ z ∈ ts, key < z := fun z hz => Nat.lt_trans hgt (hts z hz)
      have e1 := filter_le_nil_of_all_gt ts key hall
      have e2 := filter_gt_self_of_all_gt ts key hall
      simp [List.filter_cons, h1, hgt, e1, e2]

/-- On a strictly sorted token list the rotation at `searchToken` is: the tokens strictly greater
than the key in ascending order, followed by the tokens ≤ key in ascending order. -/
theorem rot_searchToken (tokens : List Nat) (key : Nat) (hs : tokens.Pairwise (· < ·)) :
    rot tokens (searchToken tokens key) =
      tokens.filter (fun t => decide (key < t)) ++ tokens.filter (fun t => decide (t ≤ key)) := by
  have hraw : searchToken tokens key = if rawIdx tokens key ≥ tokens.length then 0 else rawIdx tokens key := rfl
  have hc := rawIdx_eq_count tokens key hs
  have htd := take_drop_count tokens key hs
  rw [hraw]
  split
  · rename_i hge
    -- every token is ≤ key
    have hlen : (tokens.filter (fun t => decide (t ≤ key))).length = tokens.length := by
      have := List.length_filter_le (fun t => decide (t ≤ key)) tokens
      omega
    have hall : tokens.filter (fun t => decide (t ≤ key)) = tokens := by
      have := htd.1; rw [hlen, List.take_length] at this; exact this.symm
    have hnone : tokens.filter (fun t => decide (key < t)) = [] := by
      have := htd.2; rw [hlen, List.drop_length] at this; exact this.symm
    simp [rot, hall, hnone]
  · unfold rot
    rw [hc, htd.1, htd.2]

/-- index form: the result is the index of the first token strictly greater than the key, 0 if none. -/
theorem searchToken_index (tokens : List Nat) (key : Nat) (hs : tokens.Pairwise (· < ·)) :
    searchToken tokens key = (match tokens.findIdx? (fun t => decide (key < t)) with | some j => j | none => 0) := by
  have hraw : searchToken tokens key = if rawIdx tokens key ≥ tokens.length then 0 else rawIdx tokens key := rfl
  have hc := rawIdx_eq_count tokens key hs
  have key_lemma : ∀ (l : List Nat), l.Pairwise (· < ·) →
      (match l.findIdx? (fun t => decide (key < t)) with | some j => j | none => l.length)
        = (l.filter (fun t => decide (t ≤ key))).length := by
    intro l hl
    induction l with
    | nil => simp
    | cons t ts ih =>
      have hts : ∀ z ∈ ts, t < z := fun z hz => List.rel_of_pairwise_cons hl hz
      have ih := ih (List.Pairwise.of_cons hl)
      by_cases h1 : key < t
      · have hall : ∀ z ∈ ts, key < z := fun z hz => Nat.lt_trans h1 (hts z hz)
        have e1 := filter_le_nil_of_all_gt ts key hall
        have h3 : ¬ t ≤ key := by omega
        simp [List.findIdx?_cons, h1, List.filter_cons, h3, e1]
      · have h3 : t ≤ key := by omega
        simp only [List.findIdx?_cons, h1, decide_false, List.filter_cons, h3, decide_true, if_true, List.length_cons]
        rw [← ih]
        cases ts.findIdx? (fun t => decide (key < t)) <;> simp
  have kl := key_lemma tokens hs
  rw [hraw, hc, ← kl]
  cases hf : tokens.findIdx? (fun t => decide (key < t)) with
  | none => simp
  | some j =>
    have : j < tokens.length := by
      have := List.findIdx?_eq_some_iff_getElem.mp hf
      exact this.1
    simp; omega

theorem searchToken_lt (tokens : List Nat) (key : Nat) (h : tokens ≠ []) :
    searchToken tokens key < tokens.length := by
  have hraw : searchToken tokens key = if rawIdx tokens key ≥ tokens.length then 0 else rawIdx tokens key := rfl
  have : 0 < tokens.length := List.length_pos_iff.mpr h
  rw [hraw]; split <;> omega

end PfC01
