import Proofs.C01.Get
/-! Locality: removing / registering an instance that is not a replica of a key does not change the lookup. -/
set_option linter.unusedSimpArgs false
set_option linter.unusedVariables false
namespace PfC01
open Common Ring C01

/-- keep everything except the instance with id `xid` -/
def keepNot (xid : String) : Inst → Bool := fun i => i.id != xid

/-! ### `tokenOwners` commutes with removing an instance -/

theorem insertTok_cons_le (x y : Nat × Inst) (ys : List (Nat × Inst)) (h : x.1 ≤ y.1) :
    insertTok x (y :: ys) = x :: y :: ys := by rw [insertTok, if_pos h]
theorem insertTok_cons_gt (x y : Nat × Inst) (ys : List (Nat × Inst)) (h : ¬ x.1 ≤ y.1) :
    insertTok x (y :: ys) = y :: insertTok x ys := by rw [insertTok, if_neg h]
theorem takeRf_succ_cons (op : Op) (m : Nat) (x : Inst) (xs : List Inst) :
    takeRf op (m + 1) (x :: xs) = x :: takeRf op (if extendsOn op x.state then m + 1 else m) xs := rfl

theorem insertTok_head (x : Nat × Inst) (m : List (Nat × Inst)) (h : ∀ z ∈ m, x.1 ≤ z.1) :
    insertTok x m = x :: m := by
  cases m with
  | nil => rfl
  | cons y ys => exact insertTok_cons_le x y ys (h y (List.mem_cons_self ..))

theorem insertTok_sorted (x : Nat × Inst) (l : List (Nat × Inst)) (h : l.Pairwise (fun a b => a.1 ≤ b.1)) :
    (insertTok x l).Pairwise (fun a b => a.1 ≤ b.1) := by
  induction l with
  | nil => simp [insertTok]
  | cons y ys ih =>
    unfold insertTok
    split
    · rename_i hxy
      refine List.Pairwise.cons ?_ h
      intro z hz
      rcases List.mem_cons.mp hz with rfl | hz
      · exact hxy
      · exact Nat.le_trans hxy (List.rel_of_pairwise_cons h hz)
    · rename_i hxy
      have hyx : y.1 ≤ x.1 := Nat.le_of_lt (Nat.lt_of_not_le hxy)
      refine List.Pairwise.cons ?_ (ih (List.Pairwise.of_cons h))
      intro z hz
      rcases List.mem_cons.mp ((insertTok_perm x ys).subset hz) with rfl | hz
      · exact hyx
      · exact List.rel_of_pairwise_cons h hz

theorem foldr_insertTok_sorted (ps : List (Nat × Inst)) :
    (ps.foldr insertTok []).Pairwise (fun a b => a.1 ≤ b.1) := by
  induction ps with
  | nil => exact List.Pairwise.nil
  | cons p ps ih => exact insertTok_sorted p _ ih

theorem ins_filter_pos (q : Nat × Inst → Bool) (x : Nat × Inst) (l : List (Nat × Inst))
    (hs : l.Pairwise (fun a b => a.1 ≤ b.1)) (hq : q x = true) :
    (insertTok x l).filter q = insertTok x (l.filter q) := by
  induction l with
  | nil => simp [insertTok, hq]
  | cons y ys ih =>
    have ih := ih (List.Pairwise.of_cons hs)
    by_cases hxy : x.1 ≤ y.1
    · have h1 : insertTok x (y :: ys) = x :: y :: ys := insertTok_cons_le x y ys hxy
      rw [h1, List.filter_cons, if_pos hq]
      symm
      apply insertTok_head
      intro z hz
      have hz' := (List.mem_filter.mp hz).1
      rcases List.mem_cons.mp hz' with rfl | hz''
      · exact hxy
      · exact Nat.le_trans hxy (List.rel_of_pairwise_cons hs hz'')
    · have h1 : insertTok x (y :: ys) = y :: insertTok x ys := insertTok_cons_gt x y ys hxy
      rw [h1]
      by_cases hqy : q y = true
      · rw [List.filter_cons, if_pos hqy, List.filter_cons, if_pos hqy, ih, insertTok_cons_gt x y _ hxy]
      · rw [List.filter_cons, if_neg hqy, List.filter_cons, if_neg hqy, ih]

theorem ins_filter_neg (q : Nat × Inst → Bool) (x : Nat × Inst) (l : List (Nat × Inst)) (hq : ¬ q x = true) :
    (insertTok x l).filter q = l.filter q := by
  induction l with
  | nil => simp [insertTok, hq]
  | cons y ys ih =>
    unfold insertTok
    split
    · rw [List.filter_cons, if_neg hq]
    · rw [List.filter_cons, List.filter_cons, ih]

theorem foldr_filter (q : Nat × Inst → Bool) (ps : List (Nat × Inst)) :
    (ps.filter q).foldr insertTok [] = (ps.foldr insertTok []).filter q := by
  induction ps with
  | nil => rfl
  | cons p ps ih =>
    by_cases hq : q p = true
    · rw [List.filter_cons, if_pos hq]
      show insertTok p ((ps.filter q).foldr insertTok []) = (insertTok p (ps.foldr insertTok [])).filter q
      rw [ih, ins_filter_pos q p _ (foldr_insertTok_sorted ps) hq]
    · rw [List.filter_cons, if_neg hq]
      show (ps.filter q).foldr insertTok [] = (insertTok p (ps.foldr insertTok [])).filter q
      rw [ih, ins_filter_neg q p _ hq]

theorem pairs_filter (r : Inst → Bool) (d : Desc) :
    pairs (d.filter r) = (pairs d).filter (fun p => r p.2) := by
  induction d with
  | nil => rfl
  | cons i d ih =>
    have hcons : pairs (i :: d) = (i.tokens.map fun t => (t, i)) ++ pairs d := by simp [pairs]
    rw [hcons, List.filter_append, ← ih]
    by_cases hr : r i = true
    · rw [List.filter_cons, if_pos hr]
      have : (i.tokens.map fun t => (t, i)).filter (fun p => r p.2) = i.tokens.map fun t => (t, i) := by
        apply List.filter_eq_self.mpr
        intro p hp
        rcases List.mem_map.mp hp with ⟨t, _, rfl⟩
        exact hr
      rw [this]; simp [pairs]
    · rw [List.filter_cons, if_neg hr]
      have : (i.tokens.map fun t => (t, i)).filter (fun p => r p.2) = [] := by
        apply List.filter_eq_nil_iff.mpr
        intro p hp
        rcases List.mem_map.mp hp with ⟨t, _, rfl⟩
        exact hr
      rw [this]; rfl

theorem tokenOwners_filter (r : Inst → Bool) (d : Desc) :
    Desc.tokenOwners (d.filter r) = (Desc.tokenOwners d).filter (fun p => r p.2) := by
  rw [tokenOwners_def, tokenOwners_def, pairs_filter, foldr_filter]

theorem circle_filter (r : Inst → Bool) (d : Desc) (key : Nat) :
    circle (d.filter r) key = (circle d key).filter (fun p => r p.2) := by
  unfold circle
  rw [tokenOwners_filter, List.filter_append, List.filter_filter, List.filter_filter, List.filter_filter, List.filter_filter]
  congr 1 <;> (apply List.filter_congr; intro p _; exact Bool.and_comm _ _)

theorem circle_filter_snd (r : Inst → Bool) (d : Desc) (key : Nat) :
    (circle (d.filter r) key).map (·.2) = ((circle d key).map (·.2)).filter r := by
  rw [circle_filter, List.filter_map]; rfl

/-! ### the walked set is insensitive to instances outside it -/

theorem blockedZ_append (za : Bool) (op : Op) (e s : List Inst) (w : Inst) :
    blockedZ za op (e ++ s) w = (blockedZ za op e w || blockedZ za op s w) := by
  unfold blockedZ; rw [zoneBlocked_append]; cases za <;> simp

theorem F_filter (za : Bool) (op : Op) (xid : String) (l : List Inst) :
    ∀ (n : Nat) (earlier earlier' : List Inst) (seen seen' : List String),
      (∀ id, id ≠ xid → (id ∈ seen ↔ id ∈ seen')) →
      (∀ w, blockedZ za op earlier w = blockedZ za op earlier' w) →
      (∀ y ∈ takeRf op n (sfullZ za op earlier (dedupIds seen l)), y.id ≠ xid) →
      takeRf op n (sfullZ za op earlier' (dedupIds seen' (l.filter (keepNot xid))))
        = takeRf op n (sfullZ za op earlier (dedupIds seen l)) := by
  induction l with
  | nil => intro n e e' s s' _ _ _; simp [dedupIds, sfullZ, takeRf_nil]
  | cons y l ih =>
    intro n e e' s s' R1 R2 hx
    by_cases hy : y.id = xid
    · have hk : keepNot xid y = false := by simp [keepNot, hy]
      rw [List.filter_cons, hk]
      simp only [Bool.false_eq_true, if_false]
      by_cases hs : y.id ∈ s
      · rw [dedupIds_seen l hs] at hx ⊢
        exact ih n e e' s s' R1 R2 hx
      · rw [dedupIds_new l hs, sfullZ] at hx ⊢
        by_cases hb : blockedZ za op e y = true
        · rw [if_pos hb] at hx ⊢
          apply ih n (e ++ [y]) e' (y.id :: s) s' _ _ hx
          · intro id hid
            rw [List.mem_cons, ← R1 id hid]
            constructor
            · rintro (h | h)
              · exact absurd (h.trans hy) hid
              · exact h
            · exact Or.inr
          · intro w; rw [blockedZ_append_blocked za op e y w hb]; exact R2 w
        · rw [if_neg hb] at hx ⊢
          cases n with
          | zero => rw [takeRf_zero, takeRf_zero]
          | succ m =>
            exfalso
            rw [takeRf_succ_cons] at hx
            exact hx y (List.mem_cons_self ..) hy
    · have hk : keepNot xid y = true := by simp [keepNot, hy]
      rw [List.filter_cons, hk]
      simp only [if_true]
      have hss : y.id ∈ s ↔ y.id ∈ s' := R1 y.id hy
      by_cases hs : y.id ∈ s
      · rw [dedupIds_seen l hs] at hx ⊢
        rw [dedupIds_seen _ (hss.mp hs)]
        exact ih n e e' s s' R1 R2 hx
      · have hs' : y.id ∉ s' := fun h => hs (hss.mpr h)
        rw [dedupIds_new l hs, sfullZ] at hx ⊢
        rw [dedupIds_new _ hs', sfullZ, ← R2 y]
        have R1' : ∀ id, id ≠ xid → (id ∈ y.id :: s ↔ id ∈ y.id :: s') := by
          intro id hid; rw [List.mem_cons, List.mem_cons, R1 id hid]
        have R2' : ∀ w, blockedZ za op (e ++ [y]) w = blockedZ za op (e' ++ [y]) w := by
          intro w; rw [blockedZ_append, blockedZ_append, R2 w]
        by_cases hb : blockedZ za op e y = true
        · simp only [hb, if_true] at hx ⊢
          exact ih n (e ++ [y]) (e' ++ [y]) (y.id :: s) (y.id :: s') R1' R2' hx
        · have hb' : blockedZ za op e y = false := Bool.eq_false_iff.mpr hb
          simp only [hb', Bool.false_eq_true, if_false] at hx ⊢
          cases n with
          | zero => rw [takeRf_zero, takeRf_zero]
          | succ m =>
            rw [takeRf_succ_cons] at hx ⊢
            rw [takeRf_succ_cons]
            congr 1
            exact ih _ (e ++ [y]) (e' ++ [y]) (y.id :: s) (y.id :: s') R1' R2'
              (fun z hz => hx z (List.mem_cons_of_mem _ hz))

/-- removing an instance that is not in the walked set of a key leaves that walked set unchanged -/
theorem specWalked_remove (cfg : Cfg) (op : Op) (d : Desc) (key : Nat) (xid : String)
    (hx : ∀ y ∈ specWalked cfg op d key, y.id ≠ xid) :
    specWalked cfg op (d.filter (keepNot xid)) key = specWalked cfg op d key := by
  unfold specWalked at hx ⊢
  rw [Sfull_eq] at hx ⊢
  rw [Sfull_eq]
  unfold D at hx ⊢
  rw [circle_filter_snd]
  exact F_filter cfg.zoneAware op xid _ cfg.rf [] [] [] [] (fun _ _ => Iff.rfl) (fun _ => rfl) hx

theorem specGet_remove (cfg : Cfg) (op : Op) (d : Desc) (key : Nat) (now : Int) (xid : String)
    (hx : ∀ y ∈ specWalked cfg op d key, y.id ≠ xid) :
    specGet cfg op (d.filter (keepNot xid)) key now = specGet cfg op d key now := by
  unfold specGet; rw [specWalked_remove cfg op d key xid hx]

/-! ### well-formedness is preserved by removal -/

theorem nodup_flatMap_filter (r : Inst → Bool) (d : Desc) (h : (d.flatMap (·.tokens)).Nodup) :
    ((d.filter r).flatMap (·.tokens)).Nodup := by
  induction d with
  | nil => exact List.nodup_nil
  | cons i d ih =>
    simp only [List.flatMap_cons] at h
    have hn := List.nodup_append.mp h
    by_cases hr : r i = true
    · rw [List.filter_cons, if_pos hr, List.flatMap_cons]
      refine List.nodup_append.mpr ⟨hn.1, ih hn.2.1, ?_⟩
      intro a ha b hb
      rcases List.mem_flatMap.mp hb with ⟨j, hj, hbj⟩
      exact hn.2.2 a ha b (List.mem_flatMap.mpr ⟨j, (List.mem_filter.mp hj).1, hbj⟩)
    · rw [List.filter_cons, if_neg hr]; exact ih hn.2.1

theorem wf_filter (r : Inst → Bool) (d : Desc) (h : WFRing d) : WFRing (d.filter r) := by
  refine ⟨?_, nodup_flatMap_filter r d h.2⟩
  exact List.Nodup.sublist (List.Sublist.map _ List.filter_sublist) h.1

/-- **lookup_local_remove**: removing an instance that is not a replica of `key` leaves the result of
the lookup of `key` unchanged (same instances, same error tolerance, or failure in both). -/
theorem lookup_local_remove (cfg : Cfg) (d : Desc) (key : Nat) (op : Op) (now : Int) (xid : String)
    (hwf : WFRing d) (hrf : 1 ≤ cfg.rf) (hx : ∀ y ∈ specWalked cfg op d key, y.id ≠ xid) :
    (C01.get cfg (d.filter (keepNot xid)) (sortedTokens (d.filter (keepNot xid))) key op now).toOption
      = (C01.get cfg d (sortedTokens d) key op now).toOption := by
  have h1 := get_eq_spec cfg d key op now hwf hrf
  have h2 := get_eq_spec cfg (d.filter (keepNot xid)) key op now (wf_filter _ d hwf) hrf
  rw [specGet_remove cfg op d key now xid hx] at h2
  cases hok : (specGet cfg op d key now).ok
  · rcases h1.2 hok with a | a <;> rcases h2.2 hok with b | b <;> rw [a, b] <;> rfl
  · rw [h1.1 hok, h2.1 hok]

/-- **lookup_local_add**: registering an instance (anywhere in the descriptor) that does not become a
replica of `key` leaves the lookup of `key` unchanged. -/
theorem lookup_local_add (cfg : Cfg) (d₁ d₂ : Desc) (x : Inst) (key : Nat) (op : Op) (now : Int)
    (hwf : WFRing (d₁ ++ x :: d₂)) (hrf : 1 ≤ cfg.rf)
    (hx : ∀ y ∈ specWalked cfg op (d₁ ++ x :: d₂) key, y.id ≠ x.id) :
    (C01.get cfg (d₁ ++ x :: d₂) (sortedTokens (d₁ ++ x :: d₂)) key op now).toOption
      = (C01.get cfg (d₁ ++ d₂) (sortedTokens (d₁ ++ d₂)) key op now).toOption := by
  have hfil : (d₁ ++ x :: d₂).filter (keepNot x.id) = d₁ ++ d₂ := by
    have hid := hwf.1
    rw [List.map_append, List.map_cons] at hid
    have hn := List.nodup_append.mp hid
    have hc := List.nodup_cons.mp hn.2.1
    rw [List.filter_append, List.filter_cons]
    have h1 : d₁.filter (keepNot x.id) = d₁ := by
      apply List.filter_eq_self.mpr
      intro a ha
      have : a.id ≠ x.id := fun e => hn.2.2 a.id (List.mem_map_of_mem (f := (·.id)) ha) x.id (List.mem_cons_self ..) e
      simp [keepNot, this]
    have h2 : d₂.filter (keepNot x.id) = d₂ := by
      apply List.filter_eq_self.mpr
      intro a ha
      have : a.id ≠ x.id := fun e => hc.1 (e ▸ List.mem_map_of_mem (f := (·.id)) ha)
      simp [keepNot, this]
    have h3 : keepNot x.id x = false := by simp [keepNot]
    rw [h1, h2, h3]; rfl
  rw [← hfil]
  exact (lookup_local_remove cfg (d₁ ++ x :: d₂) key op now x.id hwf hrf hx).symm

end PfC01
