import Proofs.C01.LoserNext
import Proofs.C01.Sort
/-! Loser tree, part 6: `Next()` pops the minimum; draining yields the sorted merge; `loser.New`. -/
set_option linter.unusedSimpArgs false
set_option linter.unusedVariables false
namespace PfC01
open C01 Ring

/-- what leaf `q` still has to deliver (current value first) -/
def rem (t : Tree) (q : Nat) : List Nat :=
  if (t.get q).index = -1 then [] else (t.get q).value :: (t.get q).items

def contentFrom (t : Tree) : Nat → Nat → List Nat
  | _, 0 => []
  | q, k + 1 => rem t q ++ contentFrom t (q + 1) k

/-- everything still to be delivered by the `n` leaves -/
def content (t : Tree) (n : Nat) : List Nat := contentFrom t n n

theorem contentFrom_congr (t t' : Tree) : ∀ (k q : Nat), (∀ y, q ≤ y → y < q + k → t'.get y = t.get y) →
    contentFrom t' q k = contentFrom t q k := by
  intro k
  induction k with
  | zero => intro q _; rfl
  | succ k ih =>
    intro q h
    have h1 : rem t' q = rem t q := by unfold rem; rw [h q (Nat.le_refl _) (by omega)]
    rw [contentFrom, contentFrom, h1, ih (q + 1) (fun y hy1 hy2 => h y (by omega) (by omega))]

theorem contentFrom_pop (t t1 : Tree) (w v : Nat) (hne : ∀ y, y ≠ w → t1.get y = t.get y)
    (hrem : rem t w = v :: rem t1 w) :
    ∀ (k q : Nat), q ≤ w → w < q + k → (contentFrom t q k).Perm (v :: contentFrom t1 q k) := by
  intro k
  induction k with
  | zero => intro q h1 h2; omega
  | succ k ih =>
    intro q h1 h2
    rw [contentFrom, contentFrom]
    by_cases hq : q = w
    · subst hq
      have : contentFrom t1 (q + 1) k = contentFrom t (q + 1) k :=
        contentFrom_congr t t1 k (q + 1) (fun y hy1 _ => hne y (by omega))
      rw [hrem, this]; exact List.Perm.refl _
    · have h1' : rem t1 q = rem t q := by unfold rem; rw [hne q hq]
      rw [h1']
      have := ih (q + 1) (by omega) (by omega)
      exact (List.Perm.append_left _ this).trans List.perm_middle

theorem mem_contentFrom (t : Tree) : ∀ (k q x : Nat), x ∈ contentFrom t q k → ∃ y, q ≤ y ∧ y < q + k ∧ x ∈ rem t y := by
  intro k
  induction k with
  | zero => intro q x h; cases h
  | succ k ih =>
    intro q x h
    rw [contentFrom] at h
    rcases List.mem_append.mp h with h | h
    · exact ⟨q, Nat.le_refl _, by omega, h⟩
    · obtain ⟨y, h1, h2, h3⟩ := ih (q + 1) x h
      exact ⟨y, by omega, by omega, h3⟩

theorem contentFrom_nil (t : Tree) : ∀ (k q : Nat), (∀ y, q ≤ y → y < q + k → rem t y = []) → contentFrom t q k = [] := by
  intro k
  induction k with
  | zero => intro q _; rfl
  | succ k ih =>
    intro q h
    rw [contentFrom, h q (Nat.le_refl _) (by omega), ih (q + 1) (fun y h1 h2 => h y (by omega) (by omega))]; rfl

/-- the winner's value is a lower bound of everything still to be delivered -/
theorem winner_le_content {t : Tree} {n w : Nat} (g : Good t n w) (hact : (t.get w).index ≠ -1) :
    ∀ x ∈ content t n, (t.get w).value ≤ x := by
  intro x hx
  obtain ⟨q, hq1, hq2, hxq⟩ := mem_contentFrom t n n x hx
  obtain ⟨H, hv, hroot⟩ := g.valid
  have hmin := V_min hv q hq1 (by omega) (by rw [hroot]; exact insub_root q (by have := g.wf.npos; omega))
  unfold rem at hxq
  by_cases hex : (t.get q).index = -1
  · rw [if_pos hex] at hxq; cases hxq
  · rw [if_neg hex] at hxq
    have hs := (g.wf.leafSorted q hq1 (by omega) hex).1
    have hvq : (t.get q).value ≤ x := by
      rcases List.mem_cons.mp hxq with rfl | h
      · exact Nat.le_refl _
      · exact List.rel_of_pairwise_cons hs h
    unfold key at hmin
    rw [if_neg hact, if_neg hex] at hmin
    omega

/-- if the winner is exhausted, nothing is left -/
theorem content_nil_of_winner_exhausted {t : Tree} {n w : Nat} (g : Good t n w) (hex : (t.get w).index = -1) :
    content t n = [] := by
  apply contentFrom_nil
  intro q hq1 hq2
  obtain ⟨H, hv, hroot⟩ := g.valid
  have hwl := V_leaf hv
  have hmin := V_min hv q hq1 (by omega) (by rw [hroot]; exact insub_root q (by have := g.wf.npos; omega))
  rw [key_exhausted g.wf hwl hex] at hmin
  unfold rem
  by_cases hq : (t.get q).index = -1
  · rw [if_pos hq]
  · exfalso
    unfold key at hmin
    rw [if_neg hq] at hmin
    have := g.wf.leafVal q hq1 (by omega)
    omega

theorem wf_set_leaf {t : Tree} {n w : Nat} (wf : TreeWF t n) (hw : n ≤ w ∧ w < 2 * n) (nd : Node)
    (h1 : nd.value ≤ t.maxVal) (h2 : nd.index = -1 → nd.value = t.maxVal ∧ nd.items = [])
    (h3 : nd.index ≠ -1 → (nd.value :: nd.items).Pairwise (· ≤ ·) ∧ ∀ x ∈ nd.items, x ≤ t.maxVal) :
    TreeWF (t.set w nd) n := by
  have hlen : w < t.nodes.length := by rw [wf.len]; exact hw.2
  have hget : ∀ q, (t.set w nd).get q = if q = w then nd else t.get q := by
    intro q
    by_cases hq : q = w
    · subst hq; rw [if_pos rfl]; exact tget_set_eq t q nd hlen
    · rw [if_neg hq]; exact tget_set_ne t w q nd (fun e => hq e.symm)
  refine ⟨(tset_length _ _ _).trans wf.len, wf.npos, ?_, ?_, ?_⟩
  · intro q hq1 hq2; rw [hget q]; split
    · exact h1
    · exact wf.leafVal q hq1 hq2
  · intro q hq1 hq2; rw [hget q]; split
    · exact h2
    · exact wf.leafEx q hq1 hq2
  · intro q hq1 hq2; rw [hget q]; split
    · exact h3
    · exact wf.leafSorted q hq1 hq2

theorem moveNext_cons (t : Tree) (i x : Nat) (xs : List Nat) (h : (t.get i).items = x :: xs) :
    t.moveNext i = (t.set i { t.get i with value := x, items := xs }, true) := by
  unfold Tree.moveNext; simp only [h]

theorem moveNext_nil (t : Tree) (i : Nat) (h : (t.get i).items = []) :
    t.moveNext i = (t.set i { t.get i with value := t.maxVal, index := -1 }, false) := by
  unfold Tree.moveNext; simp only [h]

/-- One `Next()` from a valid state whose winner is live (its value has been delivered): the value is
popped, the invariant restored, and `Next` reports whether the new winner is live. -/
theorem next_B (t : Tree) (n w : Nat) (g : Good t n w) (hact : (t.get w).index ≠ -1) :
    ∃ w', Good t.next.1 n w' ∧ (t.next.2 = true ↔ (t.next.1.get w').index ≠ -1) ∧
      (content t n).Perm ((t.get w).value :: content t.next.1 n) ∧ t.next.1.maxVal = t.maxVal := by
  obtain ⟨H, hv, hroot⟩ := g.valid
  have hwl := V_leaf hv
  have wf := g.wf
  have hn := wf.npos
  have hlen0 : ¬ t.nodes.length = 0 := by rw [wf.len]; omega
  have hroot0 : ¬ (t.get 0).index = -1 := by rw [g.root]; omega
  have hw' : (t.get 0).index.toNat = w := by rw [g.root]; simp
  have hgeti : t.geti (t.get 0).index = t.get w := by unfold Tree.geti; rw [hw']
  have hup := up_of_good g
  have hwlen : w < t.nodes.length := by rw [wf.len]; exact hwl.2
  unfold Tree.next
  rw [if_neg hlen0, if_neg hroot0, hgeti, if_neg hact, hw']
  dsimp only
  -- final step shared by both branches
  have finish : ∀ (t1 t2 : Tree) (w' : Nat), Good t2 n w' → (∀ y, n ≤ y → t2.get y = t1.get y) →
      (∀ y, y ≠ w → t1.get y = t.get y) → rem t w = (t.get w).value :: rem t1 w →
      (decide ((t2.geti (t2.get 0).index).index ≠ -1) = true ↔ (t2.get w').index ≠ -1) ∧
      (content t n).Perm ((t.get w).value :: content t2 n) := by
    intro t1 t2 w' g2 hl hne hrem
    have hw2 : (t2.get 0).index.toNat = w' := by rw [g2.root]; simp
    refine ⟨?_, ?_⟩
    · unfold Tree.geti; rw [hw2]; simp
    · have : content t2 n = content t1 n := contentFrom_congr t1 t2 n n (fun y hy _ => hl y hy)
      rw [this]
      exact contentFrom_pop t t1 w _ hne hrem n n hwl.1 (by omega)
  have hsorted := wf.leafSorted w hwl.1 hwl.2 hact
  cases hitems : (t.get w).items with
  | cons x xs =>
    rw [moveNext_cons t w x xs hitems]
    simp only [if_true]
    let t1 := t.set w { t.get w with value := x, items := xs }
    have hget1 : t1.get w = { t.get w with value := x, items := xs } := tget_set_eq t w _ hwlen
    have hne1 : ∀ y, y ≠ w → t1.get y = t.get y := fun y hy => tget_set_ne t w y _ (fun e => hy e.symm)
    rw [hitems] at hsorted
    have wf1 : TreeWF t1 n := by
      apply wf_set_leaf wf hwl
      · exact hsorted.2 x (List.mem_cons_self ..)
      · intro h; exact absurd h hact
      · intro _
        exact ⟨(List.pairwise_cons.mp hsorted.1).2, fun y hy => hsorted.2 y (List.mem_cons_of_mem _ hy)⟩
    have hact1 : (t1.get w).index ≠ -1 := by rw [hget1]; exact hact
    have hup1 : Up t1 n w := Up_frame hup (fun y hy => hne1 y (fun e => hy (e ▸ insub_refl _)))
    obtain ⟨w', g2, hact2, hl, hm⟩ := replayGames_spec t1 n w wf1 hwl hact1 hup1
    have hrem : rem t w = (t.get w).value :: rem t1 w := by
      unfold rem; rw [if_neg hact, if_neg hact1, hget1, hitems]
    obtain ⟨f1, f2⟩ := finish t1 _ w' g2 hl hne1 hrem
    exact ⟨w', g2, f1, f2, hm⟩
  | nil =>
    rw [moveNext_nil t w hitems]
    simp only [Bool.false_eq_true, if_false]
    let t1 := t.set w { t.get w with value := t.maxVal, index := -1 }
    have hget1 : t1.get w = { t.get w with value := t.maxVal, index := -1 } := tget_set_eq t w _ hwlen
    have hne1 : ∀ y, y ≠ w → t1.get y = t.get y := fun y hy => tget_set_ne t w y _ (fun e => hy e.symm)
    have wf1 : TreeWF t1 n := by
      apply wf_set_leaf wf hwl
      · exact Nat.le_refl _
      · intro _; exact ⟨rfl, hitems⟩
      · intro h; exact absurd rfl h
    have hex1 : (t1.get w).index = -1 := by rw [hget1]
    have hup1 : Up t1 n w := Up_frame hup (fun y hy => hne1 y (fun e => hy (e ▸ insub_refl _)))
    obtain ⟨w', g2, hl, hm⟩ := sequenceEnded_spec t1 n w wf1 hwl hex1 hup1
    have hrem : rem t w = (t.get w).value :: rem t1 w := by
      unfold rem; rw [if_neg hact, if_pos hex1, hitems]
    obtain ⟨f1, f2⟩ := finish t1 _ w' g2 hl hne1 hrem
    exact ⟨w', g2, f1, f2, hm⟩

theorem drain_zero (t : Tree) : Tree.drain t 0 = [] := by rw [Tree.drain]

theorem drain_succ (t : Tree) (fuel : Nat) :
    Tree.drain t (fuel + 1) = if t.next.2 = true then t.next.1.winner :: Tree.drain t.next.1 fuel else [] := by
  rw [Tree.drain]
  cases h : t.next with
  | mk t' b => cases b <;> simp

theorem winner_eq {t : Tree} {n w : Nat} (g : Good t n w) : t.winner = (t.get w).value := by
  unfold Tree.winner Tree.geti; rw [g.root]; simp

/-- draining from a valid state: the delivered winner followed by the rest is the sorted content -/
theorem drain_B (n : Nat) : ∀ (fuel : Nat) (t : Tree) (w : Nat), Good t n w → (t.get w).index ≠ -1 →
    (content t n).length ≤ fuel + 1 →
    ((t.get w).value :: Tree.drain t fuel).Pairwise (· ≤ ·) ∧ ((t.get w).value :: Tree.drain t fuel).Perm (content t n) := by
  intro fuel
  induction fuel with
  | zero =>
    intro t w g hact hlen
    obtain ⟨w', g', _, hperm, _⟩ := next_B t n w g hact
    rw [drain_zero]
    have h1 := hperm.length_eq
    simp only [List.length_cons] at h1
    have h2 : content t.next.1 n = [] := List.length_eq_zero_iff.mp (by omega)
    rw [h2] at hperm
    exact ⟨List.pairwise_singleton _ _, hperm.symm⟩
  | succ fuel ih =>
    intro t w g hact hlen
    obtain ⟨w', g', hb, hperm, _⟩ := next_B t n w g hact
    have hle := winner_le_content g hact
    rw [drain_succ]
    by_cases hact' : (t.next.1.get w').index ≠ -1
    · rw [if_pos (hb.mpr hact'), winner_eq g']
      have h1 := hperm.length_eq
      simp only [List.length_cons] at h1
      obtain ⟨hs, hp⟩ := ih t.next.1 w' g' hact' (by omega)
      refine ⟨?_, (List.Perm.cons _ hp).trans hperm.symm⟩
      refine List.Pairwise.cons ?_ hs
      intro x hx
      exact hle x (hperm.symm.subset (List.mem_cons_of_mem _ (hp.subset hx)))
    · have hbf : ¬ t.next.2 = true := fun h => hact' (hb.mp h)
      rw [if_neg hbf]
      have hex : (t.next.1.get w').index = -1 := Classical.not_not.mp hact'
      have h2 := content_nil_of_winner_exhausted g' hex
      rw [h2] at hperm
      exact ⟨List.pairwise_singleton _ _, hperm.symm⟩

/-- the first `Next()` on a freshly built tree runs `initialize` -/
theorem drain_A (t : Tree) (n fuel : Nat) (wf : TreeWF t n) (h0 : (t.get 0).index = -1)
    (hlen : (content t n).length ≤ fuel) :
    (Tree.drain t (fuel + 1)).Pairwise (· ≤ ·) ∧ (Tree.drain t (fuel + 1)).Perm (content t n) := by
  obtain ⟨w, g, hl, hm⟩ := initialize_spec t n wf
  have hn := wf.npos
  have hlen0 : ¬ t.nodes.length = 0 := by rw [wf.len]; omega
  have hnext : t.next = (t.initialize, decide ((t.initialize.geti (t.initialize.get 0).index).index ≠ -1)) := by
    unfold Tree.next; rw [if_neg hlen0, if_pos h0]
  have hc : content t.initialize n = content t n := contentFrom_congr t t.initialize n n (fun y hy _ => hl y hy)
  have hgeti : t.initialize.geti (t.initialize.get 0).index = t.initialize.get w := by
    unfold Tree.geti; rw [g.root]; simp
  rw [drain_succ, hnext]
  simp only [hgeti]
  by_cases hact : (t.initialize.get w).index ≠ -1
  · rw [if_pos (by simpa using hact), winner_eq g]
    have := drain_B n fuel t.initialize w g hact (by rw [hc]; omega)
    rw [hc] at this; exact this
  · rw [if_neg (by simpa using hact)]
    have hex : (t.initialize.get w).index = -1 := Classical.not_not.mp hact
    have := content_nil_of_winner_exhausted g hex
    rw [hc] at this; rw [this]
    exact ⟨List.Pairwise.nil, List.Perm.refl _⟩

end PfC01
