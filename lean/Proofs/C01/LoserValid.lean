import Proofs.C01.LoserBasic
/-!
Loser tree, part 2: the invariant.

* `key t q` orders leaves exactly as the code's comparisons do once exhausted leaves carry `maxVal`
  and live values are `≤ maxVal`: `2·value (+1 if exhausted)`.
* `V t n m u`  : the subtree rooted at `u / 2^m` is a valid loser tree whose winner is leaf `u`
  (each internal node stores the loser of the game between the winners of its two children, with
  the loser's value copied).
* `Up t n c`   : for every proper ancestor `a` of position `c`, the stored loser of `a` is the winner
  of a valid subtree rooted at the child of `a` that is NOT on the path to `c`.
-/
set_option linter.unusedSimpArgs false
set_option linter.unusedVariables false
namespace PfC01
open C01

/-- the leaf stored at internal node `p` (`nodes[p].index`) -/
def Lo (t : Tree) (p : Nat) : Nat := (t.get p).index.toNat

def key (t : Tree) (q : Nat) : Nat := 2 * (t.get q).value + (if (t.get q).index = -1 then 1 else 0)

structure TreeWF (t : Tree) (n : Nat) : Prop where
  len : t.nodes.length = 2 * n
  npos : 1 ≤ n
  leafVal : ∀ q, n ≤ q → q < 2 * n → (t.get q).value ≤ t.maxVal
  leafEx : ∀ q, n ≤ q → q < 2 * n → (t.get q).index = -1 → (t.get q).value = t.maxVal ∧ (t.get q).items = []
  leafSorted : ∀ q, n ≤ q → q < 2 * n → (t.get q).index ≠ -1 →
    ((t.get q).value :: (t.get q).items).Pairwise (· ≤ ·) ∧ ∀ x ∈ (t.get q).items, x ≤ t.maxVal

inductive V (t : Tree) (n : Nat) : Nat → Nat → Prop
  | leaf (u : Nat) : n ≤ u → u < 2 * n → V t n 0 u
  | node (m m' u : Nat) : 1 ≤ u / 2 ^ (m + 1) → u / 2 ^ (m + 1) < n → V t n m u →
      V t n m' (Lo t (u / 2 ^ (m + 1))) → Lo t (u / 2 ^ (m + 1)) / 2 ^ m' = sib (u / 2 ^ m) →
      (t.get (u / 2 ^ (m + 1))).value = (t.get (Lo t (u / 2 ^ (m + 1)))).value →
      key t u ≤ key t (Lo t (u / 2 ^ (m + 1))) → V t n (m + 1) u

theorem V_leaf {t : Tree} {n m u : Nat} (h : V t n m u) : n ≤ u ∧ u < 2 * n := by
  induction h with
  | leaf u h1 h2 => exact ⟨h1, h2⟩
  | node m m' u _ _ _ _ _ _ _ ih _ => exact ih

/-- the root of a valid subtree is a node of the tree (≥ 1) -/
theorem V_root_pos {t : Tree} {n m u : Nat} (h : V t n m u) (hn : 1 ≤ n) : 1 ≤ u / 2 ^ m := by
  cases h with
  | leaf u h1 h2 => simp; omega
  | node m m' u h1 _ _ _ _ _ _ => exact h1

/-- the winner of a valid subtree has the smallest key among the leaves of the subtree -/
theorem V_min {t : Tree} {n m u : Nat} (h : V t n m u) :
    ∀ q, n ≤ q → q < 2 * n → InSub (u / 2 ^ m) q → key t u ≤ key t q := by
  induction h with
  | leaf u h1 h2 =>
    intro q hq1 hq2 hin
    obtain ⟨k, hk⟩ := hin
    simp at hk
    cases k with
    | zero => simp at hk; subst hk; exact Nat.le_refl _
    | succ k =>
      have := div_pow_le_half q (k + 1) (by omega)
      omega
  | node m m' u h1 h2 hv hv' hroot hval hkey ih ih' =>
    intro q hq1 hq2 hin
    obtain ⟨c, hc, hcin⟩ := insub_child hin (by omega)
    have hpar : c / 2 = (u / 2 ^ m) / 2 := by rw [hc, div_pow_succ]
    rcases same_parent hpar with e | e
    · exact ih q hq1 hq2 (e ▸ hcin)
    · have := ih' q hq1 hq2 (by rw [hroot]; exact e ▸ hcin)
      omega

/-- `V` only reads positions inside its subtree -/
theorem V_frame {t t' : Tree} {n m u : Nat} (h : V t n m u)
    (hag : ∀ y, InSub (u / 2 ^ m) y → t'.get y = t.get y) : V t' n m u := by
  induction h with
  | leaf u h1 h2 => exact V.leaf u h1 h2
  | node m m' u h1 h2 hv hv' hroot hval hkey ih ih' =>
    have hr : InSub (u / 2 ^ (m + 1)) (u / 2 ^ (m + 1)) := insub_refl _
    have hsub1 : ∀ y, InSub (u / 2 ^ m) y → InSub (u / 2 ^ (m + 1)) y := by
      intro y hy; rw [div_pow_succ]; exact insub_parent hy
    have hsub2 : ∀ y, InSub (sib (u / 2 ^ m)) y → InSub (u / 2 ^ (m + 1)) y := by
      intro y hy
      have := insub_parent hy
      rw [sib_div, ← div_pow_succ] at this; exact this
    have hLo : Lo t' (u / 2 ^ (m + 1)) = Lo t (u / 2 ^ (m + 1)) := by unfold Lo; rw [hag _ hr]
    have hu : t'.get u = t.get u := hag u ⟨m + 1, rfl⟩
    have hl : t'.get (Lo t (u / 2 ^ (m + 1))) = t.get (Lo t (u / 2 ^ (m + 1))) :=
      hag _ (hsub2 _ ⟨m', hroot⟩)
    refine V.node m m' u h1 h2 (ih (fun y hy => hag y (hsub1 y hy))) ?_ ?_ ?_ ?_
    · rw [hLo]; exact ih' (fun y hy => hag y (hsub2 y (hroot ▸ hy)))
    · rw [hLo]; exact hroot
    · rw [hLo, hag _ hr, hl]; exact hval
    · rw [hLo]; unfold key; rw [hu, hl]; exact hkey

inductive Up (t : Tree) (n : Nat) : Nat → Prop
  | root : Up t n 1
  | step (c m' : Nat) : 2 ≤ c → c / 2 < n → V t n m' (Lo t (c / 2)) → Lo t (c / 2) / 2 ^ m' = sib c →
      (t.get (c / 2)).value = (t.get (Lo t (c / 2))).value → Up t n (c / 2) → Up t n c

/-- `Up t n c` reads nothing inside the subtree of `c` -/
theorem Up_frame {t t' : Tree} {n c : Nat} (h : Up t n c)
    (hag : ∀ y, ¬ InSub c y → t'.get y = t.get y) : Up t' n c := by
  induction h with
  | root => exact Up.root
  | step c m' hc hcn hv hroot hval hup ih =>
    have hpar : ¬ InSub c (c / 2) := fun h => by have := insub_ge h; omega
    have hLo : Lo t' (c / 2) = Lo t (c / 2) := by unfold Lo; rw [hag _ hpar]
    have hsibsub : ∀ y, InSub (sib c) y → ¬ InSub c y := by
      intro y hy hcy
      exact insub_disjoint hc hcy hy
    have hl : t'.get (Lo t (c / 2)) = t.get (Lo t (c / 2)) := hag _ (hsibsub _ ⟨m', hroot⟩)
    refine Up.step c m' hc hcn ?_ ?_ ?_ ?_
    · rw [hLo]; exact V_frame hv (fun y hy => hag y (hsibsub y (hroot ▸ hy)))
    · rw [hLo]; exact hroot
    · rw [hLo, hag _ hpar, hl]; exact hval
    · exact ih (fun y hy => hag y (fun hcy => hy (insub_parent hcy)))

/-- inside a valid subtree, every node on the winner's path sees valid siblings above it -/
theorem up_of_V {t : Tree} {n m u : Nat} (h : V t n m u) (hup : Up t n (u / 2 ^ m)) :
    ∀ j, j ≤ m → Up t n (u / 2 ^ j) := by
  induction h with
  | leaf u h1 h2 => intro j hj; have : j = 0 := by omega
                    subst this; exact hup
  | node m m' u h1 h2 hv hv' hroot hval hkey ih ih' =>
    intro j hj
    by_cases hjm : j = m + 1
    · subst hjm; exact hup
    · have hc2 : 2 ≤ u / 2 ^ m := by
        have : u / 2 ^ (m + 1) = u / 2 ^ m / 2 := div_pow_succ u m
        omega
      have hpar : u / 2 ^ m / 2 = u / 2 ^ (m + 1) := (div_pow_succ u m).symm
      have hstep : Up t n (u / 2 ^ m) :=
        Up.step (u / 2 ^ m) m' hc2 (by rw [hpar]; exact h2) (by rw [hpar]; exact hv') (by rw [hpar]; exact hroot)
          (by rw [hpar]; exact hval) (by rw [hpar]; exact hup)
      exact ih hstep j (by omega)

end PfC01
