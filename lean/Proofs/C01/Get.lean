import Proofs.C01.WalkSpec
/-! `Filter` is exact; `Get` = `specGet` when the token circle is the sorted token list. -/
set_option linter.unusedSimpArgs false
namespace PfC01
open Common Ring C01

theorem filter_exact (cfg : Cfg) (op : Op) (now : Int) (rf : Nat) (l : List Inst) :
    filter cfg op now rf l =
      (if (l.filter (isHealthy op cfg.hbTimeout now)).length < majority rf l.length then .error .tooManyUnhealthy
       else .ok { instances := l.filter (isHealthy op cfg.hbTimeout now),
                  maxErrors := (l.filter (isHealthy op cfg.hbTimeout now)).length - majority rf l.length }) := by
  have hm : (if l.length > rf then l.length else rf) = max rf l.length := by
    rw [Nat.max_def]; split <;> split <;> omega
  unfold filter majority
  simp only [hm]

theorem specWalked_nil_of_no_tokens (cfg : Cfg) (d : Desc) (key : Nat) (op : Op)
    (h : sortedTokens d = []) : specWalked cfg op d key = [] := by
  have h1 : d.tokenOwners = [] := by
    have := tokenOwners_map_fst d
    rw [h] at this
    exact List.map_eq_nil_iff.mp this
  have h2 : D d key = [] := by simp [D, circle, h1, dedupIds]
  unfold specWalked
  rw [Sfull_eq, h2]
  simp [sfullZ, takeRf_nil]

theorem majority_pos (rf n : Nat) : 0 < majority rf n := by unfold majority; omega

/-- **get_eq_spec** (token circle = sorted token list): `Ring.Get` succeeds iff the declarative
specification does, and then returns exactly its healthy members and its error tolerance; when it
fails the error is `ErrEmptyRing` or the quorum error, never an internal inconsistency. -/
theorem get_eq_spec (cfg : Cfg) (d : Desc) (key : Nat) (op : Op) (now : Int) (hwf : WFRing d) (hrf : 1 ≤ cfg.rf) :
    ((specGet cfg op d key now).ok = true →
      get cfg d (sortedTokens d) key op now
        = .ok { instances := (specGet cfg op d key now).instances, maxErrors := (specGet cfg op d key now).maxErrors }) ∧
    ((specGet cfg op d key now).ok = false →
      get cfg d (sortedTokens d) key op now = .error .emptyRing ∨
      get cfg d (sortedTokens d) key op now = .error .tooManyUnhealthy) := by
  have hrfI : (if (cfg.rf : Int) ≤ 0 ∨ (cfg.rf : Int) < (cfg.rf : Int) then cfg.rf else (cfg.rf : Int).toNat) = cfg.rf := by
    split
    · rfl
    · exact Int.toNat_natCast _
  by_cases hemp : (sortedTokens d).length = 0
  · have hnil : sortedTokens d = [] := List.length_eq_zero_iff.mp hemp
    have hw := specWalked_nil_of_no_tokens cfg d key op hnil
    have hget : get cfg d (sortedTokens d) key op now = .error .emptyRing := by
      unfold C01.get getWith; rw [if_pos hemp]
    have hok : (specGet cfg op d key now).ok = false := by
      unfold specGet
      simp only [hw, List.filter_nil, List.length_nil]
      rw [if_pos (majority_pos _ _)]
    constructor
    · intro h; rw [hok] at h; cases h
    · intro _; exact Or.inl hget
  · have hget : get cfg d (sortedTokens d) key op now
        = filter cfg op now cfg.rf (specWalked cfg op d key) := by
      unfold C01.get getWith
      rw [if_neg hemp]
      simp only [hrfI]
      rw [if_neg (Nat.lt_irrefl _), walk_eq_spec cfg d key op hwf hrf]
      rfl
    rw [hget, filter_exact]
    unfold specGet
    simp only
    split
    · constructor
      · intro h; cases h
      · intro _; exact Or.inr rfl
    · constructor
      · intro _; rfl
      · intro h; cases h

/-- which error a failing lookup returns: `ErrEmptyRing` exactly when the ring has no token -/
theorem get_fail_kind (cfg : Cfg) (d : Desc) (key : Nat) (op : Op) (now : Int) (hwf : WFRing d) (hrf : 1 ≤ cfg.rf)
    (hok : (specGet cfg op d key now).ok = false) :
    get cfg d (sortedTokens d) key op now
      = .error (if sortedTokens d = [] then .emptyRing else .tooManyUnhealthy) := by
  by_cases hemp : sortedTokens d = []
  · rw [if_pos hemp]
    unfold C01.get getWith; rw [if_pos (by rw [hemp]; rfl)]
  · rw [if_neg hemp]
    have hlen : ¬ (sortedTokens d).length = 0 := fun h => hemp (List.length_eq_zero_iff.mp h)
    rcases (get_eq_spec cfg d key op now hwf hrf).2 hok with e | e
    · exfalso
      unfold C01.get getWith at e
      rw [if_neg hlen] at e
      have hrfI : (if (cfg.rf : Int) ≤ 0 ∨ (cfg.rf : Int) < (cfg.rf : Int) then cfg.rf else (cfg.rf : Int).toNat) = cfg.rf := by
        split
        · rfl
        · exact Int.toNat_natCast _
      simp only [hrfI] at e
      rw [if_neg (Nat.lt_irrefl _), walk_eq_spec cfg d key op hwf hrf] at e
      have e' : C01.filter cfg op now cfg.rf (specWalked cfg op d key) = .error .emptyRing := e
      rw [filter_exact] at e'
      split at e' <;> cases e'
    · exact e

theorem get_emptyRing_iff (cfg : Cfg) (d : Desc) (key : Nat) (op : Op) (now : Int) (hwf : WFRing d) (hrf : 1 ≤ cfg.rf) :
    get cfg d (sortedTokens d) key op now = .error .emptyRing ↔ sortedTokens d = [] := by
  constructor
  · intro h
    cases hok : (specGet cfg op d key now).ok
    · rw [get_fail_kind cfg d key op now hwf hrf hok] at h
      by_cases hemp : sortedTokens d = []
      · exact hemp
      · rw [if_neg hemp] at h; cases h
    · rw [(get_eq_spec cfg d key op now hwf hrf).1 hok] at h; cases h
  · intro hemp
    unfold C01.get getWith; rw [if_pos (by rw [hemp]; rfl)]

/-- `walk_no_inconsistent` (feeds C05): on a well-formed ring the lookup never reports
`ErrInconsistentTokensInfo` (nor panics). -/
theorem walk_no_inconsistent (cfg : Cfg) (d : Desc) (key : Nat) (op : Op) (now : Int) (hwf : WFRing d) (hrf : 1 ≤ cfg.rf) :
    get cfg d (sortedTokens d) key op now ≠ .error .inconsistentTokens ∧
    get cfg d (sortedTokens d) key op now ≠ .error .panic := by
  have h := get_eq_spec cfg d key op now hwf hrf
  cases hok : (specGet cfg op d key now).ok
  · rcases h.2 hok with e | e <;> rw [e] <;> exact ⟨(by simp), (by simp)⟩
  · rw [h.1 hok]; exact ⟨(by simp), (by simp)⟩

/-- `GetWithOptions(WithReplicationFactor(n))` with the default strategy: any `n` not exceeding the
configured RF behaves like `Get`; a larger one is rejected. -/
theorem getWith_percall (cfg : Cfg) (d : Desc) (toks : List Nat) (key : Nat) (op : Op) (now : Int) (rfCall : Int) :
    getWith cfg d toks key op now rfCall =
      (if toks.length = 0 then .error .emptyRing
       else if rfCall > cfg.rf then .error .rfTooLarge
       else C01.get cfg d toks key op now) := by
  unfold C01.get getWith
  by_cases h0 : toks.length = 0
  · rw [if_pos h0, if_pos h0]
  · rw [if_neg h0, if_neg h0, if_neg h0]
    have hself : (if (cfg.rf : Int) ≤ 0 ∨ (cfg.rf : Int) < (cfg.rf : Int) then cfg.rf else (cfg.rf : Int).toNat) = cfg.rf := by
      split
      · rfl
      · exact Int.toNat_natCast _
    by_cases hgt : rfCall > cfg.rf
    · rw [if_pos hgt]
      have hc : ¬ (rfCall ≤ 0 ∨ rfCall < (cfg.rf : Int)) := by omega
      simp only [if_neg hc]
      have : rfCall.toNat > cfg.rf := by omega
      rw [if_pos this]
    · rw [if_neg hgt]
      simp only [hself]
      by_cases hc : rfCall ≤ 0 ∨ rfCall < (cfg.rf : Int)
      · simp only [if_pos hc]
      · simp only [if_neg hc]
        have : rfCall.toNat = cfg.rf := by omega
        rw [this]

/-- the integer-second predicate at the rounded-up clock IS the nanosecond-exact predicate -/
theorem isHealthyAt_eq_ceil (op : Op) (timeout sec : Int) (nanos : Nat) (i : Inst) (hn : nanos < 1000000000) :
    isHealthyAt op timeout sec nanos i = isHealthy op timeout (ceilNow sec nanos) i := by
  unfold isHealthyAt isHealthy ceilNow
  congr 1
  apply decide_eq_decide.mpr
  split <;> omega

theorem filter_exact_subsecond (cfg : Cfg) (op : Op) (sec : Int) (nanos : Nat) (rf : Nat) (l : List Inst)
    (hn : nanos < 1000000000) :
    filter cfg op (ceilNow sec nanos) rf l =
      (if (l.filter (isHealthyAt op cfg.hbTimeout sec nanos)).length < majority rf l.length then .error .tooManyUnhealthy
       else .ok { instances := l.filter (isHealthyAt op cfg.hbTimeout sec nanos),
                  maxErrors := (l.filter (isHealthyAt op cfg.hbTimeout sec nanos)).length - majority rf l.length }) := by
  have : isHealthyAt op cfg.hbTimeout sec nanos = isHealthy op cfg.hbTimeout (ceilNow sec nanos) :=
    funext fun i => isHealthyAt_eq_ceil op cfg.hbTimeout sec nanos i hn
  rw [this]; exact filter_exact cfg op (ceilNow sec nanos) rf l

end PfC01
