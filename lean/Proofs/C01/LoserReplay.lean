import Proofs.C01.LoserValid
/-! Loser tree, part 3: `replayGames` restores the invariant from a valid subtree + valid siblings above. -/
set_option linter.unusedSimpArgs false
set_option linter.unusedVariables false
namespace PfC01
open C01

theorem replayLoop_zero (t : Tree) (cur pos : Nat) : Tree.replayLoop t 0 cur pos = (t, pos) := by
  rw [Tree.replayLoop]

theorem replayLoop_stop (t : Tree) (fuel pos : Nat) : Tree.replayLoop t fuel 0 pos = (t, pos) := by
  cases fuel with
  | zero => rw [Tree.replayLoop]
  | succ f => rw [Tree.replayLoop]; simp

theorem replayLoop_succ (t : Tree) (fuel cur pos : Nat) (h : cur ≠ 0) :
    Tree.replayLoop t (fuel + 1) cur pos =
      if (t.get cur).value < (t.get pos).value then
        Tree.replayLoop (t.set cur { t.get cur with index := (pos : Int), value := (t.get pos).value }) fuel (cur / 2)
          (t.get cur).index.toNat
      else Tree.replayLoop t fuel (cur / 2) pos := by
  rw [Tree.replayLoop]; simp [h]

/-- what a repair returns: tree `t'` with overall winner `w`, leaves untouched -/
structure Repaired (t t' : Tree) (n w : Nat) : Prop where
  valid : ∃ H, V t' n H w ∧ w / 2 ^ H = 1
  leaves : ∀ y, n ≤ y → t'.get y = t.get y
  len : t'.nodes.length = t.nodes.length
  maxv : t'.maxVal = t.maxVal

theorem wf_of_leaves {t t' : Tree} {n : Nat} (h : TreeWF t n) (hl : ∀ y, n ≤ y → t'.get y = t.get y)
    (hlen : t'.nodes.length = t.nodes.length) (hm : t'.maxVal = t.maxVal) : TreeWF t' n where
  len := hlen ▸ h.len
  npos := h.npos
  leafVal := by intro q h1 h2; rw [hl q h1, hm]; exact h.leafVal q h1 h2
  leafEx := by intro q h1 h2; rw [hl q h1, hm]; exact h.leafEx q h1 h2
  leafSorted := by intro q h1 h2; rw [hl q h1, hm]; exact h.leafSorted q h1 h2

theorem key_leaf_eq {t t' : Tree} {q : Nat} (h : t'.get q = t.get q) : key t' q = key t q := by
  unfold key; rw [h]

theorem replayLoop_spec (n : Nat) :
    ∀ (fuel : Nat) (t : Tree) (c pos h : Nat),
      TreeWF t n → c / 2 ≤ fuel → 1 ≤ c → c < 2 * n →
      V t n h pos → pos / 2 ^ h = c → (t.get pos).index ≠ -1 → Up t n c →
      Repaired t (Tree.replayLoop t fuel (c / 2) pos).1 n (Tree.replayLoop t fuel (c / 2) pos).2 ∧
      ((Tree.replayLoop t fuel (c / 2) pos).1.get (Tree.replayLoop t fuel (c / 2) pos).2).index ≠ -1 := by
  intro fuel
  induction fuel with
  | zero =>
    intro t c pos h wf hf hc1 hc2 hv hroot hact hup
    have hc : c = 1 := by omega
    rw [replayLoop_zero]
    exact ⟨⟨⟨h, hv, by rw [hroot, hc]⟩, fun _ _ => rfl, rfl, rfl⟩, hact⟩
  | succ fuel ih =>
    intro t c pos h wf hf hc1 hc2 hv hroot hact hup
    by_cases hcur : c / 2 = 0
    · have hc : c = 1 := by omega
      rw [hcur, replayLoop_stop]
      exact ⟨⟨⟨h, hv, by rw [hroot, hc]⟩, fun _ _ => rfl, rfl, rfl⟩, hact⟩
    · have hc2' : 2 ≤ c := by omega
      rw [replayLoop_succ t fuel (c / 2) pos hcur]
      -- what the siblings above tell us at this level
      cases hup with
      | root => omega
      | step _ m' _ hcn hvL hrootL hval hupcur =>
        have hposleaf := V_leaf hv
        have hLleaf := V_leaf hvL
        have hcurlt : c / 2 < n := hcn
        have hposne : c / 2 ≠ pos := by omega
        have hLne : c / 2 ≠ Lo t (c / 2) := by omega
        have hLroot : Lo t (c / 2) / 2 ^ (m' + 1) = c / 2 := by rw [div_pow_succ, hrootL, sib_div]
        have hposroot : pos / 2 ^ (h + 1) = c / 2 := by rw [div_pow_succ, hroot]
        by_cases hlt : (t.get (c / 2)).value < (t.get pos).value
        · rw [if_pos hlt]
          -- the stored loser wins, `pos` is recorded as the loser here
          let t' := t.set (c / 2) { t.get (c / 2) with index := (pos : Int), value := (t.get pos).value }
          have hcurlen : c / 2 < t.nodes.length := by rw [wf.len]; omega
          have hget_cur : t'.get (c / 2) = { t.get (c / 2) with index := (pos : Int), value := (t.get pos).value } :=
            tget_set_eq t _ _ hcurlen
          have hget_ne : ∀ y, c / 2 ≠ y → t'.get y = t.get y := fun y hy => tget_set_ne t _ y _ hy
          have hleaves : ∀ y, n ≤ y → t'.get y = t.get y := fun y hy => hget_ne y (by omega)
          have wf' : TreeWF t' n := wf_of_leaves wf hleaves (tset_length _ _ _) rfl
          have hLo' : Lo t' (c / 2) = pos := by unfold Lo; rw [hget_cur]; simp
          have hsub_c : ∀ y, InSub c y → c / 2 ≠ y := by intro y hy; have := insub_ge hy; omega
          have hsub_s : ∀ y, InSub (sib c) y → c / 2 ≠ y := by
            intro y hy; have := insub_ge hy; have := sib_div c; have := sib_ge_two c hc2'; omega
          have hvpos' : V t' n h pos := V_frame hv (fun y hy => hget_ne y (hsub_c y (hroot ▸ hy)))
          have hvL' : V t' n m' (Lo t (c / 2)) := V_frame hvL (fun y hy => hget_ne y (hsub_s y (hrootL ▸ hy)))
          -- the old loser was live, otherwise its value maxVal could not be smaller
          have hLact : (t.get (Lo t (c / 2))).index ≠ -1 := by
            intro hex
            have h1 := (wf.leafEx _ hLleaf.1 hLleaf.2 hex).1
            have h2 := wf.leafVal pos hposleaf.1 hposleaf.2
            rw [hval, h1] at hlt; omega
          have hnew : V t' n (m' + 1) (Lo t (c / 2)) := by
            refine V.node m' h (Lo t (c / 2)) (by rw [hLroot]; omega) (by rw [hLroot]; exact hcurlt) hvL' ?_ ?_ ?_ ?_
            · rw [hLroot, hLo']; exact hvpos'
            · rw [hLroot, hLo', hroot, hrootL, sib_sib]
            · rw [hLroot, hLo', hget_cur, hget_ne pos hposne]
            · rw [hLroot, hLo', key_leaf_eq (hget_ne _ hLne), key_leaf_eq (hget_ne _ hposne)]
              unfold key
              rw [hval] at hlt
              rw [if_neg hLact, if_neg hact]; omega
          have hup' : Up t' n (c / 2) := Up_frame hupcur (fun y hy => hget_ne y (fun e => hy (e ▸ insub_refl _)))
          have hact' : (t'.get (Lo t (c / 2))).index ≠ -1 := by rw [hget_ne _ hLne]; exact hLact
          have := ih t' (c / 2) (Lo t (c / 2)) (m' + 1) wf' (by omega) (by omega) (by omega) hnew hLroot hact' hup'
          have hLoeq : (t.get (c / 2)).index.toNat = Lo t (c / 2) := rfl
          rw [hLoeq]
          obtain ⟨⟨hvalid, hl, hlen, hmax⟩, hact''⟩ := this
          exact ⟨⟨hvalid, fun y hy => (hl y hy).trans (hleaves y hy), hlen.trans (tset_length _ _ _), hmax⟩, hact''⟩
        · rw [if_neg hlt]
          have hnew : V t n (h + 1) pos := by
            refine V.node h m' pos (by rw [hposroot]; omega) (by rw [hposroot]; exact hcurlt) hv ?_ ?_ ?_ ?_
            · rw [hposroot]; exact hvL
            · rw [hposroot, hroot]; exact hrootL
            · rw [hposroot]; exact hval
            · rw [hposroot]
              unfold key
              rw [hval] at hlt
              rw [if_neg hact]
              split <;> omega
          exact ih t (c / 2) pos (h + 1) wf (by omega) (by omega) (by omega) hnew hposroot hact hupcur

end PfC01
