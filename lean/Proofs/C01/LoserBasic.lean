import Model.C01
/-!
Loser tree (`loser/loser.go`), part 1: array access lemmas and the arithmetic of the implicit tree
(node `p` has children `2p`, `2p+1`; ancestors of `y` are `y / 2^k`).
-/
set_option linter.unusedSimpArgs false
set_option linter.unusedVariables false
namespace PfC01
open C01

/-! ### `Tree.get` / `Tree.set` -/

theorem tget_set_eq (t : Tree) (i : Nat) (nd : Node) (h : i < t.nodes.length) : (t.set i nd).get i = nd := by
  simp [Tree.get, Tree.set, List.getD_eq_getElem?_getD, h]

theorem tget_set_ne (t : Tree) (i j : Nat) (nd : Node) (h : i ≠ j) : (t.set i nd).get j = t.get j := by
  simp [Tree.get, Tree.set, List.getD_eq_getElem?_getD, List.getElem?_set_ne h]

theorem tset_length (t : Tree) (i : Nat) (nd : Node) : (t.set i nd).nodes.length = t.nodes.length := by
  simp [Tree.set]

theorem tset_maxVal (t : Tree) (i : Nat) (nd : Node) : (t.set i nd).maxVal = t.maxVal := rfl

/-! ### ancestors -/

theorem div_pow_succ (x k : Nat) : x / 2 ^ (k + 1) = x / 2 ^ k / 2 := by
  rw [Nat.pow_succ, Nat.div_div_eq_div_mul]

theorem div_pow_succ' (x k : Nat) : x / 2 ^ (k + 1) = x / 2 / 2 ^ k := by
  rw [Nat.pow_succ, Nat.mul_comm, Nat.div_div_eq_div_mul]

theorem div_pow_add (x k d : Nat) : x / 2 ^ (k + d) = x / 2 ^ k / 2 ^ d := by
  rw [Nat.pow_add, Nat.div_div_eq_div_mul]

theorem div_pow_le_half (x d : Nat) (hd : 1 ≤ d) : x / 2 ^ d ≤ x / 2 := by
  obtain ⟨e, rfl⟩ : ∃ e, d = e + 1 := ⟨d - 1, by omega⟩
  rw [div_pow_succ']
  exact Nat.div_le_self _ _

/-- `y` lies in the subtree rooted at `c` -/
def InSub (c y : Nat) : Prop := ∃ k, y / 2 ^ k = c

theorem insub_refl (c : Nat) : InSub c c := ⟨0, by simp⟩

theorem insub_ge {c y : Nat} (h : InSub c y) : c ≤ y := by
  obtain ⟨k, rfl⟩ := h; exact Nat.div_le_self _ _

theorem insub_parent {c y : Nat} (h : InSub c y) : InSub (c / 2) y := by
  obtain ⟨k, rfl⟩ := h; exact ⟨k + 1, div_pow_succ y k⟩

theorem insub_trans {a c y : Nat} (h1 : InSub a c) (h2 : InSub c y) : InSub a y := by
  obtain ⟨k, rfl⟩ := h2; obtain ⟨d, rfl⟩ := h1
  exact ⟨k + d, div_pow_add y k d⟩

/-- the other child of the same parent -/
def sib (c : Nat) : Nat := if c % 2 = 0 then c + 1 else c - 1

theorem sib_div (c : Nat) : sib c / 2 = c / 2 := by unfold sib; split <;> omega
theorem sib_sib (c : Nat) : sib (sib c) = c := by unfold sib; split <;> split <;> omega
theorem sib_ne (c : Nat) (h : 1 ≤ c) : sib c ≠ c := by unfold sib; split <;> omega
theorem sib_ge (c : Nat) : c - 1 ≤ sib c := by unfold sib; split <;> omega
theorem sib_le (c : Nat) : sib c ≤ c + 1 := by unfold sib; split <;> omega
theorem sib_ge_two (c : Nat) (h : 2 ≤ c) : 2 ≤ sib c := by unfold sib; split <;> omega
theorem same_parent {x y : Nat} (h : y / 2 = x / 2) : y = x ∨ y = sib x := by unfold sib; split <;> omega
theorem sib_even (p : Nat) : sib (2 * p) = 2 * p + 1 := by unfold sib; split <;> omega
theorem sib_odd (p : Nat) : sib (2 * p + 1) = 2 * p := by unfold sib; split <;> omega

/-- sibling subtrees are disjoint -/
theorem insub_disjoint {c y : Nat} (hc : 2 ≤ c) (h1 : InSub c y) : ¬ InSub (sib c) y := by
  intro h2
  obtain ⟨k, hk⟩ := h1
  obtain ⟨k', hk'⟩ := h2
  have hs1 := sib_ge c
  have hs2 := sib_le c
  have hne := sib_ne c (by omega)
  have hs3 := sib_div c
  rcases Nat.lt_trichotomy k k' with hlt | heq | hgt
  · obtain ⟨d, rfl⟩ : ∃ d, k' = k + d := ⟨k' - k, by omega⟩
    rw [div_pow_add, hk] at hk'
    have := div_pow_le_half c d (by omega)
    omega
  · subst heq; omega
  · obtain ⟨d, rfl⟩ : ∃ d, k = k' + d := ⟨k - k', by omega⟩
    rw [div_pow_add, hk'] at hk
    have := div_pow_le_half (sib c) d (by omega)
    omega

theorem insub_root (q : Nat) (h : 1 ≤ q) : InSub 1 q := by
  induction q using Nat.strongRecOn with
  | _ q ih =>
    by_cases h1 : q = 1
    · subst h1; exact insub_refl 1
    · have := ih (q / 2) (by omega) (by omega)
      obtain ⟨k, hk⟩ := this
      exact ⟨k + 1, by rw [div_pow_succ']; exact hk⟩

/-- a node strictly above `y` that contains `y` contains it through one of its two children -/
theorem insub_child {r y : Nat} (h : InSub r y) (hne : r < y) : ∃ c, c / 2 = r ∧ InSub c y := by
  obtain ⟨k, hk⟩ := h
  cases k with
  | zero => simp at hk; omega
  | succ k => exact ⟨y / 2 ^ k, by rw [← div_pow_succ]; exact hk, ⟨k, rfl⟩⟩

end PfC01
