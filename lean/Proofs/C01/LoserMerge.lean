import Proofs.C01.LoserDrain
/-! Loser tree, part 7: `loser.New` builds well-formed leaves; `MergeTokens` = sorted merge. -/
set_option linter.unusedSimpArgs false
set_option linter.unusedVariables false
namespace PfC01
open C01 Ring

/-- the leaf `loser.New` creates for one input list (after its `moveNext`) -/
def leafOf (M : Nat) : List Nat → Node
  | x :: xs => { index := 0, value := x, items := xs }
  | [] => { index := -1, value := M, items := [] }

/-- body of the `for i, s := range lists` loop of `loser.New` -/
def newStep (n : Nat) (t : Tree) (p : List Nat × Nat) : Tree :=
  ((t.set (p.2 + n) { t.get (p.2 + n) with items := p.1 }).moveNext (p.2 + n)).1

theorem new_eq (lists : List (List Nat)) (M : Nat) :
    Tree.new lists M =
      (if lists.length > 0 then
        (((lists.zipIdx).foldl (newStep lists.length) { maxVal := M, nodes := List.replicate (lists.length * 2) {} }).set 0
          { ((lists.zipIdx).foldl (newStep lists.length) { maxVal := M, nodes := List.replicate (lists.length * 2) {} }).get 0
            with index := -1 })
       else (lists.zipIdx).foldl (newStep lists.length) { maxVal := M, nodes := List.replicate (lists.length * 2) {} }) := rfl

theorem newStep_spec (n : Nat) (t : Tree) (s : List Nat) (i : Nat) (hdef : t.get (i + n) = {})
    (hlen : i + n < t.nodes.length) :
    (newStep n t (s, i)).get (i + n) = leafOf t.maxVal s ∧
    (∀ y, y ≠ i + n → (newStep n t (s, i)).get y = t.get y) ∧
    (newStep n t (s, i)).nodes.length = t.nodes.length ∧ (newStep n t (s, i)).maxVal = t.maxVal := by
  unfold newStep
  simp only
  let t1 := t.set (i + n) { t.get (i + n) with items := s }
  have hlen1 : i + n < t1.nodes.length := by rw [tset_length]; exact hlen
  have hget1 : t1.get (i + n) = { index := 0, value := 0, items := s } := by
    rw [tget_set_eq t _ _ hlen, hdef]
  cases s with
  | nil =>
    rw [moveNext_nil t1 (i + n) (by rw [hget1])]
    refine ⟨?_, ?_, ?_, rfl⟩
    · simp only; rw [tget_set_eq t1 _ _ hlen1, hget1]; rfl
    · intro y hy; simp only
      rw [tget_set_ne t1 _ y _ (fun e => hy e.symm), tget_set_ne t _ y _ (fun e => hy e.symm)]
    · simp only; rw [tset_length, tset_length]
  | cons x xs =>
    rw [moveNext_cons t1 (i + n) x xs (by rw [hget1])]
    refine ⟨?_, ?_, ?_, rfl⟩
    · simp only; rw [tget_set_eq t1 _ _ hlen1, hget1]; rfl
    · intro y hy; simp only
      rw [tget_set_ne t1 _ y _ (fun e => hy e.symm), tget_set_ne t _ y _ (fun e => hy e.symm)]
    · simp only; rw [tset_length, tset_length]

theorem fold_spec (n M : Nat) :
    ∀ (l : List (List Nat)) (k : Nat) (t : Tree), t.maxVal = M → t.nodes.length = 2 * n → k + l.length ≤ n →
      (∀ j, k ≤ j → j < n → t.get (n + j) = {}) →
      ((l.zipIdx k).foldl (newStep n) t).maxVal = M ∧ ((l.zipIdx k).foldl (newStep n) t).nodes.length = 2 * n ∧
      (∀ y, (y < n + k ∨ n + k + l.length ≤ y) → ((l.zipIdx k).foldl (newStep n) t).get y = t.get y) ∧
      (∀ j, j < l.length → ((l.zipIdx k).foldl (newStep n) t).get (n + k + j) = leafOf M (l.getD j [])) := by
  intro l
  induction l with
  | nil => intro k t hM hlen hk hdef; exact ⟨hM, hlen, fun _ _ => rfl, fun j hj => by cases hj⟩
  | cons s l ih =>
    intro k t hM hlen hk hdef
    simp only [List.length_cons] at hk
    rw [List.zipIdx_cons, List.foldl_cons]
    have hkn : k + n = n + k := Nat.add_comm _ _
    obtain ⟨s1, s2, s3, s4⟩ := newStep_spec n t s k (by rw [hkn]; exact hdef k (Nat.le_refl _) (by omega)) (by rw [hlen]; omega)
    obtain ⟨r1, r2, r3, r4⟩ := ih (k + 1) (newStep n t (s, k)) (s4.trans hM) (s3.trans hlen) (by omega)
      (fun j hj1 hj2 => by rw [s2 (n + j) (by omega)]; exact hdef j (by omega) hj2)
    refine ⟨r1, r2, ?_, ?_⟩
    · intro y hy
      simp only [List.length_cons] at hy
      rw [r3 y (by omega), s2 y (by omega)]
    · intro j hj
      cases j with
      | zero =>
        rw [r3 (n + k + 0) (by omega)]
        simp only [Nat.add_zero, List.getD_cons_zero]
        rw [← hkn, s1, hM]
      | succ j =>
        simp only [List.length_cons] at hj
        have := r4 j (by omega)
        simp only [List.getD_cons_succ]
        have e : n + k + (j + 1) = n + (k + 1) + j := by omega
        rw [e]; exact this

theorem rem_leafOf (t : Tree) (q M : Nat) (s : List Nat) (h : t.get q = leafOf M s) : rem t q = s := by
  unfold rem; rw [h]
  cases s <;> simp [leafOf]

theorem contentFrom_lists (t : Tree) (M : Nat) : ∀ (l : List (List Nat)) (q : Nat),
    (∀ j, j < l.length → t.get (q + j) = leafOf M (l.getD j [])) → contentFrom t q l.length = l.flatten := by
  intro l
  induction l with
  | nil => intro q _; rfl
  | cons s l ih =>
    intro q h
    simp only [List.length_cons, contentFrom, List.flatten_cons]
    have h0 := h 0 (by simp)
    simp only [Nat.add_zero, List.getD_cons_zero] at h0
    rw [rem_leafOf t q M s h0]
    congr 1
    apply ih (q + 1)
    intro j hj
    have := h (j + 1) (by simp; omega)
    simp only [List.getD_cons_succ] at this
    have e : q + 1 + j = q + (j + 1) := by omega
    rw [e]; exact this

/-- `loser.New(lists, M)` on sorted lists bounded by `M`: well-formed leaves holding exactly the lists -/
theorem new_spec (lists : List (List Nat)) (M : Nat) (hpos : 0 < lists.length)
    (hs : ∀ l ∈ lists, l.Pairwise (· ≤ ·)) (hM : ∀ l ∈ lists, ∀ x ∈ l, x ≤ M) :
    TreeWF (Tree.new lists M) lists.length ∧ ((Tree.new lists M).get 0).index = -1 ∧
    content (Tree.new lists M) lists.length = lists.flatten := by
  rw [new_eq, if_pos hpos]
  generalize hn : lists.length = n at *
  let t0 : Tree := { maxVal := M, nodes := List.replicate (n * 2) {} }
  have hlen0 : t0.nodes.length = 2 * n := by simp [t0]; omega
  have hdef0 : ∀ y, t0.get y = {} := by
    intro y; simp [t0, Tree.get, List.getD_eq_getElem?_getD, List.getElem?_replicate]
    split <;> rfl
  obtain ⟨f1, f2, f3, f4⟩ := fold_spec n M lists 0 t0 rfl hlen0 (by omega) (fun j _ _ => hdef0 _)
  generalize (lists.zipIdx 0).foldl (newStep n) t0 = tf at *
  have h0len : 0 < tf.nodes.length := by rw [f2]; omega
  have hne : ∀ y, 1 ≤ y → (tf.set 0 { tf.get 0 with index := -1 }).get y = tf.get y :=
    fun y hy => tget_set_ne tf 0 y _ (by omega)
  have hleaf : ∀ j, j < n → (tf.set 0 { tf.get 0 with index := -1 }).get (n + j) = leafOf M (lists.getD j []) := by
    intro j hj
    rw [hne (n + j) (by omega)]
    have := f4 j (by omega)
    simpa using this
  have hmem : ∀ j, j < n → lists.getD j [] ∈ lists := by
    intro j hj
    rw [List.getD_eq_getElem?_getD, List.getElem?_eq_getElem (by omega)]
    simp
  refine ⟨?_, ?_, ?_⟩
  · refine ⟨(tset_length _ _ _).trans f2, by omega, ?_, ?_, ?_⟩
    all_goals
      intro q hq1 hq2
      obtain ⟨j, rfl⟩ : ∃ j, q = n + j := ⟨q - n, by omega⟩
      rw [hleaf j (by omega)]
      have hmj := hmem j (by omega)
      have hsj := hs _ hmj
      have hMj := hM _ hmj
      show _
    · rw [show (tf.set 0 { tf.get 0 with index := -1 }).maxVal = M from f1]
      cases hl : lists.getD j [] with
      | nil => exact Nat.le_refl _
      | cons x xs => rw [hl] at hMj; exact hMj x (List.mem_cons_self ..)
    · rw [show (tf.set 0 { tf.get 0 with index := -1 }).maxVal = M from f1]
      cases hl : lists.getD j [] with
      | nil => intro _; exact ⟨rfl, rfl⟩
      | cons x xs => intro h; simp [leafOf] at h
    · rw [show (tf.set 0 { tf.get 0 with index := -1 }).maxVal = M from f1]
      cases hl : lists.getD j [] with
      | nil => intro h; simp [leafOf] at h
      | cons x xs =>
        intro _
        rw [hl] at hsj hMj
        exact ⟨hsj, fun y hy => hMj y (List.mem_cons_of_mem _ hy)⟩
  · rw [tget_set_eq tf 0 _ h0len]
  · unfold content
    have := contentFrom_lists (tf.set 0 { tf.get 0 with index := -1 }) M lists n (by rw [hn]; exact hleaf)
    rw [hn] at this; exact this

/-- two sorted lists with the same elements are equal -/
theorem sorted_perm_eq : ∀ (l1 l2 : List Nat), l1.Pairwise (· ≤ ·) → l2.Pairwise (· ≤ ·) → l1.Perm l2 → l1 = l2 := by
  intro l1
  induction l1 with
  | nil => intro l2 _ _ hp; exact (List.Perm.nil_eq hp)
  | cons a l1 ih =>
    intro l2 h1 h2 hp
    cases l2 with
    | nil => exact absurd hp.symm.nil_eq (by simp)
    | cons b l2 =>
      have ha : a ∈ b :: l2 := hp.subset (List.mem_cons_self ..)
      have hb : b ∈ a :: l1 := hp.symm.subset (List.mem_cons_self ..)
      have hab : a ≤ b := by
        rcases List.mem_cons.mp hb with e | h
        · omega
        · exact List.rel_of_pairwise_cons h1 h
      have hba : b ≤ a := by
        rcases List.mem_cons.mp ha with e | h
        · omega
        · exact List.rel_of_pairwise_cons h2 h
      have e : a = b := by omega
      subst e
      rw [ih l2 (List.Pairwise.of_cons h1) (List.Pairwise.of_cons h2) (List.Perm.cons_inv hp)]

/-- **MergeTokens is the sorted merge** (fixed `playGame`): for lists that are each sorted with values
`≤ 2^32-1` — the sentinel itself included, empty lists included, in any order — the loser-tree merge
returns the ascending list of all elements. -/
theorem loserMerge_spec (lists : List (List Nat)) (hs : ∀ l ∈ lists, l.Pairwise (· ≤ ·))
    (hM : ∀ l ∈ lists, ∀ x ∈ l, x ≤ maxToken) : loserMerge lists = sortNat lists.flatten := by
  by_cases hpos : 0 < lists.length
  · obtain ⟨wf, h0, hc⟩ := new_spec lists maxToken hpos hs hM
    have := drain_A (Tree.new lists maxToken) lists.length (lists.map List.length).sum wf h0
      (by rw [hc, List.length_flatten]; exact Nat.le_refl _)
    rw [hc] at this
    unfold loserMerge
    exact sorted_perm_eq _ _ this.1 (sortNat_sorted _) (this.2.trans (sortNat_perm _).symm)
  · have : lists = [] := List.length_eq_zero_iff.mp (by omega)
    subst this; rfl

end PfC01
