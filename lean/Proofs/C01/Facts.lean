import Proofs.C01.Get
/-!
Facts about a SUCCESSFUL lookup that other properties (C02, C10, C11) need — they hold for every token
circle handed to the lookup and need no well-formedness of the descriptor, except `getAll_nodup`.
-/
set_option linter.unusedSimpArgs false
set_option linter.unusedVariables false
namespace PfC01
open Common Ring C01

theorem tokenInfo_mem {d : Desc} {t : Nat} {i : Inst} (h : tokenInfo d t = some i) : i ∈ d :=
  List.mem_of_find?_eq_some h

/-- not zone-aware (or any configuration): the loop only returns registered instances. -/
theorem walk_subset (cfg : Cfg) (d : Desc) (zones : List String) (target : Nat) (op : Op) :
    ∀ (L : List Nat) (st : WalkSt) (out : List Inst), walk cfg d zones target op L st = .ok out →
      ∀ i ∈ out, i ∈ d := by
  intro L
  induction L with
  | nil => intro st out h; rw [walk] at h; cases h; intro i hi; cases hi
  | cons t rest ih =>
    intro st out h
    rw [walk] at h
    split at h
    · cases h; intro i hi; cases hi
    · split at h
      · cases h; intro i hi; cases hi
      · split at h
        · cases h
        · rename_i inst hinfo
          split at h
          · exact ih st out h
          · split at h
            · cases h
            · split at h
              · exact ih st out h
              · cases hw : walk cfg d zones target op rest (st.select cfg op inst) with
                | error e => rw [hw] at h; cases h
                | ok out' =>
                  rw [hw] at h
                  have hout : out = inst :: out' := by cases h; rfl
                  subst hout
                  intro i hi
                  rcases List.mem_cons.mp hi with rfl | hi'
                  · exact tokenInfo_mem hinfo
                  · exact ih _ out' hw i hi'

/-- what a successful `Get` tells us, for any token circle -/
theorem get_ok_inv (cfg : Cfg) (d : Desc) (toks : List Nat) (key : Nat) (op : Op) (now : Int) (W : RSet)
    (h : C01.get cfg d toks key op now = .ok W) :
    cfg.rf ≠ 0 ∧ ∃ l, walk cfg d (ringZones d) 1 op (rot toks (searchToken toks key)) { size := cfg.rf } = .ok l ∧
      W.instances = l.filter (isHealthy op cfg.hbTimeout now) ∧
      W.instances.length - W.maxErrors = majority cfg.rf l.length := by
  unfold C01.get getWith at h
  have hrfI : (if (cfg.rf : Int) ≤ 0 ∨ (cfg.rf : Int) < (cfg.rf : Int) then cfg.rf else (cfg.rf : Int).toNat) = cfg.rf := by
    split
    · rfl
    · exact Int.toNat_natCast _
  split at h
  · cases h
  · simp only [hrfI] at h
    rw [if_neg (Nat.lt_irrefl _)] at h
    unfold findInstancesForKey at h
    by_cases h0 : cfg.rf = 0
    · rw [if_pos h0] at h; cases h
    · rw [if_neg h0] at h
      have htarget : max 1 (cfg.rf / cfg.rf) = 1 := by rw [Nat.div_self (by omega)]; rfl
      simp only [htarget] at h
      cases hw : walk cfg d (ringZones d) 1 op (rot toks (searchToken toks key)) { size := cfg.rf } with
      | error e => rw [hw] at h; cases h
      | ok l =>
        rw [hw] at h
        have hf : C01.filter cfg op now cfg.rf l = .ok W := h
        rw [PfC01.filter_exact] at hf
        refine ⟨h0, l, rfl, ?_⟩
        split at hf
        · cases hf
        · rename_i hge
          cases hf
          refine ⟨rfl, ?_⟩
          simp only
          have := PfC01.majority_pos cfg.rf l.length
          omega

theorem majority_ge (rf n : Nat) : rf / 2 + 1 ≤ majority rf n := by
  unfold majority
  have : rf ≤ max rf n := Nat.le_max_left _ _
  have := Nat.div_le_div_right (c := 2) this
  omega


/-- the loop never returns the same instance id twice (the `distinctHosts` check), for every token
circle and every descriptor -/
theorem walk_ids_nodup (cfg : Cfg) (d : Desc) (zones : List String) (target : Nat) (op : Op) :
    ∀ (L : List Nat) (st : WalkSt) (out : List Inst), walk cfg d zones target op L st = .ok out →
      (out.map (·.id)).Nodup ∧ ∀ i ∈ out, i.id ∉ st.distinct := by
  intro L
  induction L with
  | nil => intro st out h; rw [walk] at h; cases h; exact ⟨List.nodup_nil, fun i hi => by cases hi⟩
  | cons t rest ih =>
    intro st out h
    rw [walk] at h
    split at h
    · cases h; exact ⟨List.nodup_nil, fun i hi => by cases hi⟩
    · split at h
      · cases h; exact ⟨List.nodup_nil, fun i hi => by cases hi⟩
      · split at h
        · cases h
        · rename_i inst hinfo
          split at h
          · exact ih st out h
          · rename_i hnc
            split at h
            · cases h
            · split at h
              · exact ih st out h
              · cases hw : walk cfg d zones target op rest (st.select cfg op inst) with
                | error e => rw [hw] at h; cases h
                | ok out' =>
                  rw [hw] at h
                  have hout : out = inst :: out' := by cases h; rfl
                  subst hout
                  obtain ⟨ihn, ihd⟩ := ih _ out' hw
                  rw [select_distinct] at ihd
                  have hnd : inst.id ∉ st.distinct := by simpa using hnc
                  refine ⟨?_, ?_⟩
                  · rw [List.map_cons, List.nodup_cons]
                    refine ⟨?_, ihn⟩
                    intro hm
                    rcases List.mem_map.mp hm with ⟨j, hj, hjid⟩
                    exact ihd j hj (List.mem_append.mpr (Or.inr (by simp [hjid])))
                  · intro i hi
                    rcases List.mem_cons.mp hi with rfl | hi'
                    · exact hnd
                    · exact fun hmem => ihd i hi' (List.mem_append.mpr (Or.inl hmem))

theorem nodup_of_map {α β : Type} (f : α → β) (l : List α) (h : (l.map f).Nodup) : l.Nodup := by
  induction l with
  | nil => exact List.nodup_nil
  | cons x xs ih =>
    rw [List.map_cons, List.nodup_cons] at h
    exact List.nodup_cons.mpr ⟨fun hx => h.1 (List.mem_map_of_mem (f := f) hx), ih h.2⟩

/-- (a)+(b)+(c) for `Ring.Get`: a successful lookup returns pairwise distinct instances (even distinct
ids), a tolerance strictly below their number, and only registered instances. -/
theorem get_ok_facts (cfg : Cfg) (d : Desc) (toks : List Nat) (key : Nat) (op : Op) (now : Int) (W : RSet)
    (h : C01.get cfg d toks key op now = .ok W) :
    (W.instances.map (·.id)).Nodup ∧ W.instances.Nodup ∧ W.maxErrors < W.instances.length ∧
    (∀ i ∈ W.instances, i ∈ d) := by
  obtain ⟨hrf, l, hwalk, hWi, hWn⟩ := get_ok_inv cfg d toks key op now W h
  have hids := (walk_ids_nodup cfg d _ 1 op _ _ l hwalk).1
  have hsub : W.instances.Sublist l := by rw [hWi]; exact List.filter_sublist
  have hidsW : (W.instances.map (·.id)).Nodup := List.Nodup.sublist (List.Sublist.map _ hsub) hids
  refine ⟨hidsW, nodup_of_map _ _ hidsW, ?_, ?_⟩
  · have := majority_pos cfg.rf l.length
    omega
  · intro i hi
    exact walk_subset cfg d _ 1 op _ _ l hwalk i (hsub.subset hi)

/-! ### the same facts for EVERY token→owner index -/

theorem walkO_tokenInfo (cfg : Cfg) (d : Desc) (zones : List String) (target : Nat) (op : Op) :
    ∀ (L : List Nat) (st : WalkSt), walkO cfg d (tokenInfo d) zones target op L st = walk cfg d zones target op L st := by
  intro L
  induction L with
  | nil => intro st; rw [walkO, walk]
  | cons t rest ih =>
    intro st
    rw [walkO, walk]
    simp only [ih]

theorem getWithO_tokenInfo (cfg : Cfg) (d : Desc) (toks : List Nat) (key : Nat) (op : Op) (now rfCall : Int) :
    getWithO cfg d (tokenInfo d) toks key op now rfCall = getWith cfg d toks key op now rfCall := by
  unfold getWithO getWith findInstancesForKeyO findInstancesForKey
  simp only [walkO_tokenInfo]

theorem walkO_facts (cfg : Cfg) (d : Desc) (owner : Nat → Option Inst) (zones : List String) (target : Nat) (op : Op) :
    ∀ (L : List Nat) (st : WalkSt) (out : List Inst), walkO cfg d owner zones target op L st = .ok out →
      (out.map (·.id)).Nodup ∧ (∀ i ∈ out, i.id ∉ st.distinct) ∧ (∀ i ∈ out, ∃ t, owner t = some i) := by
  intro L
  induction L with
  | nil =>
    intro st out h; rw [walkO] at h; cases h
    exact ⟨List.nodup_nil, (fun i hi => by cases hi), (fun i hi => by cases hi)⟩
  | cons t rest ih =>
    intro st out h
    rw [walkO] at h
    split at h
    · cases h; exact ⟨List.nodup_nil, (fun i hi => by cases hi), (fun i hi => by cases hi)⟩
    · split at h
      · cases h; exact ⟨List.nodup_nil, (fun i hi => by cases hi), (fun i hi => by cases hi)⟩
      · split at h
        · cases h
        · rename_i inst hinfo
          split at h
          · exact ih st out h
          · rename_i hnc
            split at h
            · cases h
            · split at h
              · exact ih st out h
              · cases hw : walkO cfg d owner zones target op rest (st.select cfg op inst) with
                | error e => rw [hw] at h; cases h
                | ok out' =>
                  rw [hw] at h
                  have hout : out = inst :: out' := by cases h; rfl
                  subst hout
                  obtain ⟨ihn, ihd, iho⟩ := ih _ out' hw
                  rw [select_distinct] at ihd
                  have hnd : inst.id ∉ st.distinct := by simpa using hnc
                  refine ⟨?_, ?_, ?_⟩
                  · rw [List.map_cons, List.nodup_cons]
                    refine ⟨?_, ihn⟩
                    intro hm
                    rcases List.mem_map.mp hm with ⟨j, hj, hjid⟩
                    exact ihd j hj (List.mem_append.mpr (Or.inr (by simp [hjid])))
                  · intro i hi
                    rcases List.mem_cons.mp hi with rfl | hi'
                    · exact hnd
                    · exact fun hmem => ihd i hi' (List.mem_append.mpr (Or.inl hmem))
                  · intro i hi
                    rcases List.mem_cons.mp hi with rfl | hi'
                    · exact ⟨t, hinfo⟩
                    · exact iho i hi'

/-- whatever index `owner` the ring holds: a successful lookup returns instances with pairwise distinct
ids, a tolerance strictly below their number, and only instances the index points to. -/
theorem getWithO_ok_facts (cfg : Cfg) (d : Desc) (owner : Nat → Option Inst) (toks : List Nat) (key : Nat) (op : Op)
    (now rfCall : Int) (W : RSet) (h : getWithO cfg d owner toks key op now rfCall = .ok W) :
    (W.instances.map (·.id)).Nodup ∧ W.instances.Nodup ∧ W.maxErrors < W.instances.length ∧
    (∀ i ∈ W.instances, ∃ t, owner t = some i) := by
  unfold getWithO at h
  split at h
  · cases h
  · dsimp only at h
    generalize hrf : (if rfCall ≤ 0 ∨ rfCall < (cfg.rf : Int) then cfg.rf else rfCall.toNat) = rf at h
    split at h
    · cases h
    · unfold findInstancesForKeyO at h
      split at h
      · cases h
      · dsimp only at h
        cases hw : walkO cfg d owner (ringZones d) (max 1 (rf / cfg.rf)) op (rot toks (searchToken toks key)) { size := rf } with
        | error e => rw [hw] at h; cases h
        | ok l =>
          rw [hw] at h
          have hf : C01.filter cfg op now rf l = .ok W := h
          rw [filter_exact] at hf
          obtain ⟨hids, _, hown⟩ := walkO_facts cfg d owner _ _ op _ _ l hw
          split at hf
          · cases hf
          · rename_i hge
            cases hf
            have hsub : (l.filter (isHealthy op cfg.hbTimeout now)).Sublist l := List.filter_sublist
            have hidsW := List.Nodup.sublist (List.Sublist.map (·.id) hsub) hids
            refine ⟨hidsW, nodup_of_map _ _ hidsW, ?_, fun i hi => hown i (hsub.subset hi)⟩
            simp only
            have := majority_pos rf l.length
            omega

end PfC01
