import Proofs.C03Laws
/-! # C03 extension: laws of `RemoveTombstones`, `MergeContent`, `Clone` (all descriptors, no provisos) -/
namespace PfC03
open Ring C03

theorem rt_eq (l : Option Int) (d : Desc) : removeTombstones l d = d.filter (fun i => !isTomb l i) := rfl

theorem mem_rt {l : Option Int} {d : Desc} {x : Inst} : x ∈ removeTombstones l d ↔ x ∈ d ∧ isTomb l x = false := by
  rw [rt_eq, List.mem_filter]; simp

theorem rt_idem (l : Option Int) (d : Desc) : removeTombstones l (removeTombstones l d) = removeTombstones l d := by
  rw [rt_eq, rt_eq, List.filter_filter]; simp

theorem isTomb_mono {l l' : Int} (h : l ≤ l') (x : Inst) (hx : isTomb (some l) x = true) : isTomb (some l') x = true := by
  simp only [isTomb, Bool.and_eq_true, decide_eq_true_eq] at hx ⊢
  exact ⟨hx.1, by omega⟩

theorem isTomb_none (l : Option Int) (x : Inst) (hx : isTomb l x = true) : isTomb none x = true := by
  simp only [isTomb, Bool.and_eq_true] at hx ⊢
  exact ⟨hx.1, trivial⟩

theorem filter_absorb (p q : Inst → Bool) (h : ∀ x, q x = true → p x = true) (d : Desc) :
    (d.filter (fun i => !q i)).filter (fun i => !p i) = d.filter (fun i => !p i) := by
  rw [List.filter_filter]
  apply List.filter_congr
  intro x _
  cases hp : p x <;> cases hq : q x <;> simp_all

theorem rt_mono {l l' : Int} (h : l ≤ l') (d : Desc) :
    removeTombstones (some l') (removeTombstones (some l) d) = removeTombstones (some l') d := by
  rw [rt_eq, rt_eq, rt_eq]; exact filter_absorb _ _ (isTomb_mono h) d

theorem rt_none_absorbs (l : Option Int) (d : Desc) :
    removeTombstones none (removeTombstones l d) = removeTombstones none d := by
  rw [rt_eq, rt_eq, rt_eq]; exact filter_absorb _ _ (isTomb_none l) d

theorem rt_keeps_live (l : Option Int) {d : Desc} {x : Inst} (hx : x ∈ d) (hs : x.state ≠ .LEFT) :
    x ∈ removeTombstones l d := by
  rw [mem_rt]; refine ⟨hx, ?_⟩
  simp [isTomb, hs]

theorem rt_removed_is_tomb (l : Option Int) {d : Desc} {x : Inst} (hx : x ∈ d) (hn : x ∉ removeTombstones l d) :
    x.state = .LEFT ∧ isTomb l x = true := by
  rw [mem_rt] at hn
  have : isTomb l x = true := by
    cases h : isTomb l x
    · exact absurd ⟨hx, h⟩ hn
    · rfl
  refine ⟨?_, this⟩
  simp only [isTomb, Bool.and_eq_true, beq_iff_eq] at this
  exact this.1

theorem filter_len_split (p : Inst → Bool) (d : Desc) :
    (d.filter p).length + (d.filter (fun i => !p i)).length = d.length := by
  induction d with
  | nil => rfl
  | cons x xs ih =>
    simp only [List.filter_cons]
    cases p x <;> simp <;> omega

theorem counts_removed (l : Option Int) (d : Desc) :
    (tombCounts l d).2 + (removeTombstones l d).length = d.length := by
  rw [rt_eq]; exact filter_len_split (isTomb l) d

theorem counts_total (l : Option Int) (d : Desc) :
    (tombCounts l d).1 = ((removeTombstones l d).filter (fun i => i.state == .LEFT)).length := by
  rw [rt_eq, List.filter_filter]
  simp only [tombCounts]

theorem counts_left (l : Option Int) (d : Desc) :
    (tombCounts l d).1 + (tombCounts l d).2 = (d.filter (fun i => i.state == .LEFT)).length := by
  simp only [tombCounts]
  induction d with
  | nil => rfl
  | cons x xs ih =>
    simp only [List.filter_cons]
    cases hs : (x.state == State.LEFT) <;> cases ht : isTomb l x <;> simp_all [isTomb] <;> omega

theorem counts_second (l : Option Int) (d : Desc) :
    tombCounts l (removeTombstones l d) = ((tombCounts l d).1, 0) := by
  simp only [tombCounts, rt_eq, List.filter_filter]
  refine Prod.ext ?_ ?_
  · simp only; congr 1; apply List.filter_congr; intro x _; cases isTomb l x <;> simp
  · simp only [List.length_eq_zero_iff, List.filter_eq_nil_iff]; intro x _; cases isTomb l x <;> simp

theorem ids_rt_sublist (l : Option Int) (d : Desc) : (mergeContent (removeTombstones l d)).Sublist (mergeContent d) := by
  simp only [mergeContent, ids, rt_eq]
  exact List.Sublist.map _ List.filter_sublist

/-- view of a garbage-collected descriptor (unique ids) -/
theorem get?_rt (l : Option Int) {d : Desc} (hn : (ids d).Nodup) (k : String) :
    get? (removeTombstones l d) k = (get? d k).filter (fun i => !isTomb l i) := by
  induction d with
  | nil => rfl
  | cons x xs ih =>
    have hn' : (ids xs).Nodup := (List.nodup_cons.mp hn).2
    have hx : x.id ∉ ids xs := (List.nodup_cons.mp hn).1
    rw [rt_eq, List.filter_cons]
    by_cases hk : x.id = k
    · cases ht : isTomb l x
      · simp [get?, hk, Option.filter, ht]
      · simp only [Bool.not_true, Bool.false_eq_true, if_false]
        rw [← rt_eq, ih hn']
        have : get? xs k = none := by rw [get?_none_iff]; exact hk ▸ hx
        simp [get?, hk, this, Option.filter, ht]
    · cases ht : isTomb l x
      · simp only [Bool.not_false, if_true, get?, if_neg hk]
        rw [← rt_eq]; exact ih hn'
      · simp only [Bool.not_true, Bool.false_eq_true, if_false, get?, if_neg hk]
        rw [← rt_eq]; exact ih hn'

end PfC03
