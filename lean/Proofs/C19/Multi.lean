import Proofs.C19.Get
import Proofs.C19.Store
import Proofs.C19.Main
/-! C19 — ANY stack of wrappers (any number and order of in-memory, versioned and compression
layers): an invariant by induction over the layer list.

`MInv`: every copy anywhere in the stack (an entry of any in-memory layer, a backend entry) is
either foreign (its key lies in the set `G` of keys this client never names at that level) or it
carries the value of the client's last store of that key, and — on one clock — the copy of the
`i`-th in-memory layer (from the bottom) expires no later than the end of the store's TTL plus the
retentions of the in-memory layers up to it. -/
namespace PfC19
open Common C19

/-- the client's knowledge: last stored value and the end of its TTL on the backend's clock. -/
abbrev MView := Key → Option (Bytes × Int)

def mupd (f : MView) (k : Key) (x : Option (Bytes × Int)) : MView := fun k' => if k' = k then x else f k'

def mVer (n : Nat) (f : MView) : MView := fun k' =>
  match trimPrefix (versionPrefix n) k' with
  | some k => f k
  | none => none

def mSnap (cd : Codec) (f : MView) : MView := fun k => (f k).map fun x => (cd.enc x.1, x.2)

/-- below a versioned layer every key without the prefix is foreign. -/
def gVer (n : Nat) (G : Key → Prop) : Key → Prop := fun k' => ∀ k, k' = addVersion n k → G k

def MInv (cd : Codec) (be : Backend) (off : Int) (tm : Bool) : List Layer → MView → (Key → Prop) → Prop
  | [], f, G => ∀ k it, aGet k be.items = some it → G k ∨ f k = some (it.data, it.exp)
  | .ver n :: ls, f, G => MInv cd be off tm ls (mVer n f) (gVer n G)
  | .snap :: ls, f, G => MInv cd be off tm ls (mSnap cd f) G
  | .lru _ d e :: ls, f, G =>
    (∀ k it, aGet k e = some it →
      G k ∨ ∃ a, f k = some (it.data, a) ∧ (tm = true → it.exp - off ≤ a + (max d 0 + slack ls))) ∧
    MInv cd be off tm ls f G

theorem mVer_add (n : Nat) (f : MView) (k : Key) : mVer n f (addVersion n k) = f k := by
  simp [mVer, addVersion, trimPrefix_append]

theorem gVer_add (n : Nat) (G : Key → Prop) (k : Key) : gVer n G (addVersion n k) ↔ G k := by
  constructor
  · intro h; exact h k rfl
  · intro h k0 he; rw [← (addVersion_inj he).2]; exact h

theorem gVer_other {a b : Nat} (hab : a ≠ b) (G : Key → Prop) (k : Key) : gVer a G (addVersion b k) := by
  intro k0 he; exact absurd (addVersion_inj he).1 (fun h => hab h.symm)

theorem mVer_ne (n : Nat) {f f' : MView} {k : Key} (hne : ∀ k', k' ≠ k → f' k' = f k') :
    ∀ k'', k'' ≠ addVersion n k → mVer n f' k'' = mVer n f k'' := by
  intro k'' hk
  unfold mVer
  cases h : trimPrefix (versionPrefix n) k'' with
  | none => rfl
  | some k0 =>
    have := trimPrefix_some h
    have hk0 : k0 ≠ k := by
      intro he; subst he; exact hk this
    exact hne k0 hk0

theorem mSnap_some {cd : Codec} {f : MView} {k : Key} {ev : Bytes} {a : Int} (h : mSnap cd f k = some (ev, a)) :
    ∃ v, f k = some (v, a) ∧ cd.enc v = ev := by
  unfold mSnap at h
  cases hf : f k with
  | none => simp [hf] at h
  | some x =>
    obtain ⟨v, a'⟩ := x
    simp only [hf, Option.map_some, Option.some.injEq, Prod.mk.injEq] at h
    obtain ⟨h1, h2⟩ := h
    subst h2
    exact ⟨v, rfl, h1⟩

theorem mSnap_of {cd : Codec} {f : MView} {k : Key} {v : Bytes} {a : Int} (h : f k = some (v, a)) :
    mSnap cd f k = some (cd.enc v, a) := by
  simp [mSnap, h]

/-! ### shape -/

theorem slack_kind : ∀ ls, slack (ls.map kind) = slack ls
  | [] => rfl
  | .lru _ d _ :: ls => by simp only [List.map_cons, kind, slack, slack_kind ls]
  | .ver _ :: ls => by simp only [List.map_cons, kind, slack, slack_kind ls]
  | .snap :: ls => by simp only [List.map_cons, kind, slack, slack_kind ls]

theorem slack_same {ls ls' : List Layer} (h : same ls ls') : slack ls' = slack ls := by
  rw [← slack_kind ls', ← slack_kind ls, h]

theorem slack_nonneg : ∀ ls, 0 ≤ slack ls
  | [] => by simp [slack]
  | .lru _ d _ :: ls => by
    have := slack_nonneg ls
    have := Int.le_max_right d 0
    simp only [slack]; omega
  | .ver _ :: ls => slack_nonneg ls
  | .snap :: ls => slack_nonneg ls

theorem setL_same (cd : Codec) (wall : Int) : ∀ (ls : List Layer) (be : Backend) (k : Key) (v : Bytes) (ttl : Int),
    same ls (setL cd wall ls be k v ttl).1
  | [], _, _, _, _ => same_refl _
  | .ver n :: ls, be, k, v, ttl => same_cons rfl (setL_same cd wall ls be _ v ttl)
  | .snap :: ls, be, k, v, ttl => same_cons rfl (setL_same cd wall ls be k _ ttl)
  | .lru _ _ _ :: ls, be, k, v, ttl => same_cons rfl (setL_same cd wall ls be k v ttl)

theorem delL_same : ∀ (ls : List Layer) (be : Backend) (k : Key), same ls (delL ls be k).1
  | [], _, _ => same_refl _
  | .ver n :: ls, be, k => same_cons rfl (delL_same ls be _)
  | .snap :: ls, be, k => same_cons rfl (delL_same ls be k)
  | .lru _ _ _ :: ls, be, k => same_cons rfl (delL_same ls be k)

theorem setMultiL_same (cd : Codec) (wall : Int) : ∀ (ls : List Layer) (be : Backend) (data : Res) (ttl : Int)
    (hs : List (List Key)), same ls (setMultiL cd wall ls be data ttl hs).1
  | [], _, _, _, _ => same_refl _
  | .ver n :: ls, be, data, ttl, hs => same_cons rfl (setMultiL_same cd wall ls be _ ttl hs.tail)
  | .snap :: ls, be, data, ttl, hs => same_cons rfl (setMultiL_same cd wall ls be _ ttl hs.tail)
  | .lru _ _ _ :: ls, be, data, ttl, hs => same_cons rfl (setMultiL_same cd wall ls be data ttl hs.tail)

theorem getL_same (cd : Codec) (wall : Int) (be : Backend) : ∀ (ls : List Layer) (keys : List Key) (hs : List (List Key)),
    same ls (getL cd wall ls be keys hs).1
  | [], _, _ => same_refl _
  | .ver n :: ls, keys, hs => same_cons rfl (getL_same cd wall be ls _ hs.tail)
  | .snap :: ls, keys, hs => same_cons rfl (getL_same cd wall be ls keys hs.tail)
  | .lru sz d e :: ls, keys, hs => by
    simp only [getL]
    split
    · exact same_cons rfl (same_refl _)
    · exact same_cons rfl (getL_same cd wall be ls _ hs.tail)

theorem addL_same (cd : Codec) (wall : Int) (ls : List Layer) (be : Backend) (k : Key) (v : Bytes) (ttl : Int) :
    same ls (addL cd wall ls be k v ttl).1 := by
  rcases addL_cases cd wall ls be k v ttl with ⟨_, h⟩ | ⟨_, h⟩
  · rw [h]; exact same_refl _
  · rw [h]; exact setL_same cd wall ls be k v ttl

/-- the invariant does not mention the clocks. -/
theorem MInv_items (cd : Codec) (be be' : Backend) (off : Int) (tm : Bool) (hi : be'.items = be.items) :
    ∀ (ls : List Layer) (f : MView) (G : Key → Prop), MInv cd be off tm ls f G → MInv cd be' off tm ls f G
  | [], f, G, h => by
    intro k it hg; rw [hi] at hg; exact h k it hg
  | .ver n :: ls, f, G, h => MInv_items cd be be' off tm hi ls _ _ h
  | .snap :: ls, f, G, h => MInv_items cd be be' off tm hi ls _ _ h
  | .lru _ _ e :: ls, f, G, h => ⟨h.1, MInv_items cd be be' off tm hi ls _ _ h.2⟩

/-! ### Set / SetAsync (own store: `f' = mupd f k …`; foreign store: `G k`, `f' = f`) -/

theorem setL_m (cd : Codec) (wall off : Int) (tm : Bool) : ∀ (ls : List Layer) (f f' : MView) (G : Key → Prop)
    (be : Backend) (k : Key) (v : Bytes) (ttl : Int),
    (tm = true → wall = be.now + off) →
    (∀ k', k' ≠ k → f' k' = f k') → (G k ∨ f' k = some (v, be.now + ttl)) →
    MInv cd be off tm ls f G →
    MInv cd (setL cd wall ls be k v ttl).2 off tm (setL cd wall ls be k v ttl).1 f' G
  | [], f, f', G, be, k, v, ttl, _, hne, hk, h => by
    intro k2 it hg
    simp only [setL, Backend.set] at hg
    rw [aGet_aPut] at hg
    split at hg
    · rename_i he
      simp only [Option.some.injEq] at hg
      subst hg; subst he
      exact hk
    · rename_i he
      rw [hne k2 he]
      exact h k2 it hg
  | .ver n :: ls, f, f', G, be, k, v, ttl, hw, hne, hk, h => by
    have := setL_m cd wall off tm ls (mVer n f) (mVer n f') (gVer n G) be (addVersion n k) v ttl hw (mVer_ne n hne)
      (by rcases hk with hk | hk
          · exact Or.inl ((gVer_add n G k).mpr hk)
          · exact Or.inr (by rw [mVer_add]; exact hk)) h
    simpa only [setL, MInv] using this
  | .snap :: ls, f, f', G, be, k, v, ttl, hw, hne, hk, h => by
    have := setL_m cd wall off tm ls (mSnap cd f) (mSnap cd f') G be k (cd.enc v) ttl hw
      (by intro k' hk'; simp only [mSnap, hne k' hk'])
      (by rcases hk with hk | hk
          · exact Or.inl hk
          · exact Or.inr (mSnap_of hk)) h
    simpa only [setL, MInv] using this
  | .lru sz d e :: ls, f, f', G, be, k, v, ttl, hw, hne, hk, h => by
    obtain ⟨hE, h0⟩ := h
    have ih := setL_m cd wall off tm ls f f' G be k v ttl hw hne hk h0
    have hsl := slack_same (setL_same cd wall ls be k v ttl)
    have hnn := slack_nonneg ls
    refine ⟨?_, ih⟩
    intro k2 it hg
    rw [hsl]
    rcases aGet_lruAdd hg with ⟨he, hx⟩ | ⟨he, hx⟩
    · subst hx; subst he
      rcases hk with hk | hk
      · exact Or.inl hk
      · refine Or.inr ⟨_, hk, ?_⟩
        intro htm
        have := hw htm
        have := Int.le_max_right d 0
        simp only
        omega
    · rcases hE k2 it hx with h1 | ⟨a, h1, h2⟩
      · exact Or.inl h1
      · exact Or.inr ⟨a, by rw [hne k2 he]; exact h1, h2⟩

/-! ### Delete -/

theorem delL_m (cd : Codec) (off : Int) (tm : Bool) : ∀ (ls : List Layer) (f f' : MView) (G : Key → Prop)
    (be : Backend) (k : Key),
    (∀ k', k' ≠ k → f' k' = f k') →
    MInv cd be off tm ls f G →
    MInv cd (delL ls be k).2 off tm (delL ls be k).1 f' G
  | [], f, f', G, be, k, hne, h => by
    intro k2 it hg
    simp only [delL, Backend.del] at hg
    rw [aGet_aDel] at hg
    split at hg
    · simp at hg
    · rename_i he
      rw [hne k2 he]
      exact h k2 it hg
  | .ver n :: ls, f, f', G, be, k, hne, h => by
    have := delL_m cd off tm ls (mVer n f) (mVer n f') (gVer n G) be (addVersion n k) (mVer_ne n hne) h
    simpa only [delL, MInv] using this
  | .snap :: ls, f, f', G, be, k, hne, h => by
    have := delL_m cd off tm ls (mSnap cd f) (mSnap cd f') G be k
      (by intro k' hk'; simp only [mSnap, hne k' hk']) h
    simpa only [delL, MInv] using this
  | .lru sz d e :: ls, f, f', G, be, k, hne, h => by
    obtain ⟨hE, h0⟩ := h
    have ih := delL_m cd off tm ls f f' G be k hne h0
    have hsl := slack_same (delL_same ls be k)
    refine ⟨?_, ih⟩
    intro k2 it hg
    rw [hsl]
    rw [aGet_aDel] at hg
    split at hg
    · simp at hg
    · rename_i he
      rcases hE k2 it hg with h1 | ⟨a, h1, h2⟩
      · exact Or.inl h1
      · exact Or.inr ⟨a, by rw [hne k2 he]; exact h1, h2⟩

/-! ### SetMultiAsync -/

theorem aGet_setMulti (ttl : Int) : ∀ (data : Res) (be : Backend) (k : Key) (it : Item),
    aGet k (be.setMulti data ttl).items = some it →
    (∃ v, it = ⟨v, be.now + ttl⟩ ∧ (k, v) ∈ data) ∨ (aGet k be.items = some it ∧ k ∉ data.map (·.1))
  | [], be, k, it, h => Or.inr ⟨h, by simp⟩
  | (k1, v1) :: rest, be, k, it, h => by
    have h' : aGet k ((be.set k1 v1 ttl).setMulti rest ttl).items = some it := h
    rcases aGet_setMulti ttl rest _ k it h' with ⟨v, hv, hm⟩ | ⟨hg, hn⟩
    · exact Or.inl ⟨v, hv, List.mem_cons_of_mem _ hm⟩
    · simp only [Backend.set] at hg
      rw [aGet_aPut] at hg
      split at hg
      · rename_i he
        simp only [Option.some.injEq] at hg
        subst he
        exact Or.inl ⟨v1, hg.symm, List.mem_cons_self⟩
      · rename_i he
        refine Or.inr ⟨hg, ?_⟩
        simp only [List.map_cons, List.mem_cons, not_or]
        exact ⟨he, hn⟩

theorem setMultiL_m (cd : Codec) (wall off : Int) (tm : Bool) : ∀ (ls : List Layer) (f f' : MView) (G : Key → Prop)
    (be : Backend) (data : Res) (ttl : Int) (hs : List (List Key)),
    (tm = true → wall = be.now + off) →
    (∀ k', k' ∉ data.map (·.1) → f' k' = f k') →
    (∀ kv ∈ data, G kv.1 ∨ f' kv.1 = some (kv.2, be.now + ttl)) →
    MInv cd be off tm ls f G →
    MInv cd (setMultiL cd wall ls be data ttl hs).2 off tm (setMultiL cd wall ls be data ttl hs).1 f' G
  | [], f, f', G, be, data, ttl, hs, _, hne, hk, h => by
    intro k2 it hg
    simp only [setMultiL] at hg
    rcases aGet_setMulti ttl data be k2 it hg with ⟨v, hv, hm⟩ | ⟨hg2, hn⟩
    · subst hv; exact hk (k2, v) hm
    · rw [hne k2 hn]; exact h k2 it hg2
  | .ver n :: ls, f, f', G, be, data, ttl, hs, hw, hne, hk, h => by
    have := setMultiL_m cd wall off tm ls (mVer n f) (mVer n f') (gVer n G) be
      (data.map fun kv => (addVersion n kv.1, kv.2)) ttl hs.tail hw
      (by
        intro k'' hk''
        unfold mVer
        cases ht : trimPrefix (versionPrefix n) k'' with
        | none => rfl
        | some k0 =>
          have he := trimPrefix_some ht
          apply hne k0
          intro hc
          apply hk''
          obtain ⟨x, hx, hxk⟩ := List.mem_map.mp hc
          exact List.mem_map.mpr ⟨(addVersion n x.1, x.2), List.mem_map.mpr ⟨x, hx, rfl⟩, by
            simp only [hxk]; exact he.symm⟩)
      (by
        intro kv hkv
        obtain ⟨x, hx, hxe⟩ := List.mem_map.mp hkv
        subst hxe
        rcases hk x hx with h1 | h1
        · exact Or.inl ((gVer_add n G x.1).mpr h1)
        · exact Or.inr (by simp only [mVer_add]; exact h1)) h
    simpa only [setMultiL, MInv] using this
  | .snap :: ls, f, f', G, be, data, ttl, hs, hw, hne, hk, h => by
    have := setMultiL_m cd wall off tm ls (mSnap cd f) (mSnap cd f') G be
      (data.map fun kv => (kv.1, cd.enc kv.2)) ttl hs.tail hw
      (by
        intro k' hk'
        have : k' ∉ data.map (·.1) := by
          simpa [List.map_map, Function.comp_def] using hk'
        simp only [mSnap, hne k' this])
      (by
        intro kv hkv
        obtain ⟨x, hx, hxe⟩ := List.mem_map.mp hkv
        subst hxe
        rcases hk x hx with h1 | h1
        · exact Or.inl h1
        · exact Or.inr (mSnap_of h1)) h
    simpa only [setMultiL, MInv] using this
  | .lru sz d e :: ls, f, f', G, be, data, ttl, hs, hw, hne, hk, h => by
    obtain ⟨hE, h0⟩ := h
    have ih := setMultiL_m cd wall off tm ls f f' G be data ttl hs.tail hw hne hk h0
    have hsl := slack_same (setMultiL_same cd wall ls be data ttl hs.tail)
    have hnn := slack_nonneg ls
    refine ⟨?_, ih⟩
    intro k2 it hg
    rw [hsl]
    rcases aGet_lruAddAll sz (wall + ttl) _ _ k2 it hg with ⟨v, hit, hmem⟩ | ⟨hg2, hnm⟩
    · have hm : (k2, v) ∈ data := (List.mergeSort_perm data _).mem_iff.mp hmem
      subst hit
      rcases hk (k2, v) hm with h1 | h1
      · exact Or.inl h1
      · refine Or.inr ⟨_, h1, ?_⟩
        intro htm
        have := hw htm
        have := Int.le_max_right d 0
        simp only
        omega
    · have hnm' : k2 ∉ data.map (·.1) := by
        intro hc
        apply hnm
        obtain ⟨x, hx, hxk⟩ := List.mem_map.mp hc
        exact List.mem_map.mpr ⟨x, (List.mergeSort_perm data _).mem_iff.mpr hx, hxk⟩
      rcases hE k2 it hg2 with h1 | ⟨a, h1, h2⟩
      · exact Or.inl h1
      · exact Or.inr ⟨a, by rw [hne k2 hnm']; exact h1, h2⟩

/-! ### GetMultiWithError -/

/-- one read through any stack: whatever is returned for a non-foreign key is the client's last
stored value and (on one clock) less than `slack` past the end of its TTL; the invariant is kept
(back-fills included). -/
def MGetSpec (cd : Codec) (off : Int) (tm : Bool) (be : Backend) (ls : List Layer) (f : MView) (G : Key → Prop)
    (keys : List Key) (r : List Layer × Res × Bool) : Prop :=
  (∀ kv ∈ r.2.1, kv.1 ∈ keys ∧ (G kv.1 ∨ ∃ a, f kv.1 = some (kv.2, a) ∧ (tm = true → be.now < a + slack ls))) ∧
  MInv cd be off tm r.1 f G

theorem getL_m (cd : Codec) (hcd : ∀ b, cd.dec (cd.enc b) = some b) (wall off : Int) (tm : Bool) (be : Backend)
    (hw : tm = true → wall = be.now + off) :
    ∀ (ls : List Layer) (f : MView) (G : Key → Prop) (keys : List Key) (hs : List (List Key)),
    MInv cd be off tm ls f G → MGetSpec cd off tm be ls f G keys (getL cd wall ls be keys hs)
  | [], f, G, keys, hs, hinv => by
    refine ⟨?_, hinv⟩
    intro kv hkv
    simp only [getL, Backend.getMulti] at hkv
    rcases getMulti_mem be keys [] kv hkv with h | ⟨h1, h2⟩
    · simp at h
    · obtain ⟨it, hg, hl, hd⟩ := live_spec h2
      refine ⟨h1, ?_⟩
      rcases hinv _ it hg with h3 | h3
      · exact Or.inl h3
      · refine Or.inr ⟨it.exp, by rw [← hd]; exact h3, fun _ => ?_⟩
        simp only [slack]; omega
  | .ver n :: ls, f, G, keys, hs, hinv => by
    obtain ⟨ih2, ih3⟩ := getL_m cd hcd wall off tm be hw ls (mVer n f) (gVer n G) (keys.map (addVersion n)) hs.tail hinv
    refine ⟨?_, by simpa only [getL, MInv] using ih3⟩
    intro kv hkv
    simp only [getL] at hkv
    rcases mem_foldl_aPut (fun (x : Key × Bytes) => (removeVersion n x.1, x.2)) _ [] kv hkv with h | ⟨x, hx, he⟩
    · simp at h
    · obtain ⟨hk, hor⟩ := ih2 x hx
      obtain ⟨k0, hk0, hk1⟩ := List.mem_map.mp hk
      subst he
      simp only [← hk1, removeVersion_addVersion]
      refine ⟨hk0, ?_⟩
      rw [← hk1] at hor
      rcases hor with h1 | ⟨a, h1, h2⟩
      · exact Or.inl ((gVer_add n G k0).mp h1)
      · exact Or.inr ⟨a, by rw [mVer_add] at h1; exact h1, h2⟩
  | .snap :: ls, f, G, keys, hs, hinv => by
    obtain ⟨ih2, ih3⟩ := getL_m cd hcd wall off tm be hw ls (mSnap cd f) G keys hs.tail hinv
    refine ⟨?_, by simpa only [getL, MInv] using ih3⟩
    intro kv hkv
    simp only [getL] at hkv
    obtain ⟨ev, hev, hdec⟩ := mem_decodeAll hkv
    obtain ⟨hk, hor⟩ := ih2 _ hev
    refine ⟨hk, ?_⟩
    rcases hor with h1 | ⟨a, h1, h2⟩
    · exact Or.inl h1
    · obtain ⟨v, hfv, henc⟩ := mSnap_some h1
      have : kv.2 = v := by
        have := hcd v
        simp only at henc
        rw [henc, hdec] at this
        simpa using this
      exact Or.inr ⟨a, by rw [this]; exact hfv, h2⟩
  | .lru sz d e :: ls, f, G, keys, hs, hinv => by
    obtain ⟨hE, hinv0⟩ := hinv
    have hsc := lruScan_spec wall e keys ⟨e, [], []⟩ (fun _ _ h => h) (by simp)
    have hsk := lruScan_found_keys wall keys ⟨e, [], []⟩ keys (by simp) (by simp) (fun _ h => h)
    obtain ⟨hs1, hs2⟩ := hsc
    obtain ⟨hk1, hk2⟩ := hsk
    have hnn := slack_nonneg ls
    have hmx := Int.le_max_right d 0
    have hmd := Int.le_max_left d 0
    -- a hit is a live local entry
    have hfound : ∀ kv ∈ (lruScan wall keys ⟨e, [], []⟩).found,
        kv.1 ∈ keys ∧ (G kv.1 ∨ ∃ a, f kv.1 = some (kv.2, a) ∧ (tm = true → be.now < a + slack (.lru sz d e :: ls))) := by
      intro kv hkv
      obtain ⟨it, hg, hl, hd⟩ := hs2 kv hkv
      refine ⟨hk1 kv hkv, ?_⟩
      rcases hE _ it hg with h1 | ⟨a, h1, h2⟩
      · exact Or.inl h1
      · refine Or.inr ⟨a, by rw [← hd]; exact h1, fun htm => ?_⟩
        have := h2 htm
        have := hw htm
        simp only [slack]; omega
    have hold : ∀ k it, aGet k (lruScan wall keys ⟨e, [], []⟩).ents = some it →
        G k ∨ ∃ a, f k = some (it.data, a) ∧ (tm = true → it.exp - off ≤ a + (max d 0 + slack ls)) :=
      fun k it hg => hE k it (hs1 k it hg)
    by_cases hm : (lruScan wall keys ⟨e, [], []⟩).miss.isEmpty = true
    · have hr : getL cd wall (.lru sz d e :: ls) be keys hs =
          (.lru sz d (lruScan wall keys ⟨e, [], []⟩).ents :: ls, (lruScan wall keys ⟨e, [], []⟩).found, false) := by
        simp only [getL, hm, if_true]
      rw [hr]
      exact ⟨hfound, hold, hinv0⟩
    · have hr : getL cd wall (.lru sz d e :: ls) be keys hs =
          (.lru sz d (lruAddAll sz (wall + d) (orderBy (hs.headD []) (getL cd wall ls be (lruScan wall keys ⟨e, [], []⟩).miss hs.tail).2.1)
              (lruScan wall keys ⟨e, [], []⟩).ents) :: (getL cd wall ls be (lruScan wall keys ⟨e, [], []⟩).miss hs.tail).1,
            (orderBy (hs.headD []) (getL cd wall ls be (lruScan wall keys ⟨e, [], []⟩).miss hs.tail).2.1).foldl
              (fun f kv => aPut kv.1 kv.2 f) (lruScan wall keys ⟨e, [], []⟩).found,
            (getL cd wall ls be (lruScan wall keys ⟨e, [], []⟩).miss hs.tail).2.2) := by
        simp only [getL, hm]
        rfl
      rw [hr]
      obtain ⟨ih2, ih3⟩ := getL_m cd hcd wall off tm be hw ls f G (lruScan wall keys ⟨e, [], []⟩).miss hs.tail hinv0
      have hsl := slack_same (getL_same cd wall be ls (lruScan wall keys ⟨e, [], []⟩).miss hs.tail)
      refine ⟨?_, ?_, ih3⟩
      · intro kv hkv
        rcases mem_foldl_aPut (fun (x : Key × Bytes) => x) _ _ kv hkv with h | ⟨x, hx, he⟩
        · exact hfound kv h
        · subst he
          obtain ⟨hk, hor⟩ := ih2 kv (mem_orderBy.mp hx)
          refine ⟨hk2 _ hk, ?_⟩
          rcases hor with h1 | ⟨a, h1, h2⟩
          · exact Or.inl h1
          · refine Or.inr ⟨a, h1, fun htm => ?_⟩
            have := h2 htm
            simp only [slack]; omega
      · intro k it hg
        rw [hsl]
        rcases aGet_lruAddAll sz (wall + d) _ _ k it hg with ⟨v, hit, hmem⟩ | ⟨hg2, _⟩
        · obtain ⟨_, hor⟩ := ih2 (k, v) (mem_orderBy.mp hmem)
          subst hit
          rcases hor with h1 | ⟨a, h1, h2⟩
          · exact Or.inl h1
          · refine Or.inr ⟨a, h1, fun htm => ?_⟩
            have := h2 htm
            have := hw htm
            simp only
            omega
        · exact hold k it hg2

/-! ### the judge's view -/

def mviewOf (σ : Spec) : MView := fun k =>
  match σ.get k with
  | .present v a _ _ => some (v, a)
  | _ => none

theorem mviewOf_some {σ : Spec} {k : Key} {v : Bytes} {a : Int} (h : mviewOf σ k = some (v, a)) :
    ∃ b fl, σ.get k = .present v a b fl := by
  unfold mviewOf at h
  split at h
  · rename_i v' a' b' fl hg
    simp only [Option.some.injEq, Prod.mk.injEq] at h
    obtain ⟨rfl, rfl⟩ := h
    exact ⟨b', fl, hg⟩
  · simp at h

theorem mviewOf_put_present (σ : Spec) (k : Key) (v : Bytes) (a b : Int) (fl : Option Int) :
    mviewOf (aPut k (.present v a b fl) σ) = mupd (mviewOf σ) k (some (v, a)) := by
  funext k'
  by_cases hk : k' = k <;> simp [mviewOf, get_aPut, mupd, hk]

theorem mviewOf_put_deleted (σ : Spec) (k : Key) : mviewOf (aPut k .deleted σ) = mupd (mviewOf σ) k none := by
  funext k'
  by_cases hk : k' = k <;> simp [mviewOf, get_aPut, mupd, hk]

def mupdAll (f : MView) (data : Res) (a : Int) : MView :=
  data.foldl (fun f kv => mupd f kv.1 (some (kv.2, a))) f

theorem mupdAll_not_mem (a : Int) : ∀ (data : Res) (f : MView) (k : Key), k ∉ data.map (·.1) → mupdAll f data a k = f k
  | [], _, _, _ => rfl
  | (k1, v1) :: rest, f, k, h => by
    simp only [List.map_cons, List.mem_cons, not_or] at h
    show mupdAll (mupd f k1 _) rest a k = f k
    rw [mupdAll_not_mem a rest _ k h.2]
    simp [mupd, h.1]

theorem mupdAll_mem (a : Int) : ∀ (data : Res) (f : MView) (k : Key) (v : Bytes),
    (data.map (·.1)).Nodup → (k, v) ∈ data → mupdAll f data a k = some (v, a)
  | [], _, _, _, _, h => by simp at h
  | (k1, v1) :: rest, f, k, v, hnd, h => by
    simp only [List.map_cons, List.nodup_cons] at hnd
    show mupdAll (mupd f k1 _) rest a k = _
    rcases List.mem_cons.mp h with h1 | h1
    · simp only [Prod.mk.injEq] at h1
      obtain ⟨rfl, rfl⟩ := h1
      rw [mupdAll_not_mem a rest _ k hnd.1]
      simp [mupd]
    · exact mupdAll_mem a rest _ k v hnd.2 h1

theorem mviewOf_putAll (a b : Int) (fl : Option Int) : ∀ (data : Res) (σ : Spec),
    mviewOf (data.foldl (fun σ kv => aPut kv.1 (.present kv.2 a b fl) σ) σ) = mupdAll (mviewOf σ) data a
  | [], _ => rfl
  | (k1, v1) :: rest, σ => by
    show mviewOf (rest.foldl _ (aPut k1 (.present v1 a b fl) σ)) = mupdAll (mupd (mviewOf σ) k1 _) rest a
    rw [mviewOf_putAll a b fl rest, mviewOf_put_present]

/-- the back-fill bookkeeping of the judge never changes a value or a TTL deadline. -/
theorem mviewOf_refill (cfg : JCfg) (held : List Key) (j : JSt) (σ : Spec) (k : Key)
    (h : mviewOf σ = mviewOf j.spec) : mviewOf (refill cfg held j σ k) = mviewOf j.spec := by
  unfold refill
  cases hg : j.spec.get k with
  | never => exact h
  | deleted => exact h
  | present val dV dW fl =>
    simp only
    split
    · rw [mviewOf_put_present, h]
      funext k'
      by_cases hk : k' = k
      · subst hk; simp [mupd, mviewOf, hg]
      · simp [mupd, hk]
    · exact h

theorem mviewOf_refillAll (cfg : JCfg) (held : List Key) (j : JSt) : ∀ (res : Res) (σ : Spec),
    mviewOf σ = mviewOf j.spec → mviewOf (res.foldl (fun σ kv => refill cfg held j σ kv.1) σ) = mviewOf j.spec
  | [], _, h => h
  | kv :: rest, σ, h => mviewOf_refillAll cfg held j rest _ (mviewOf_refill cfg held j σ kv.1 h)

/-! ### runs -/

structure MRel (cd : Codec) (off : Int) (tm : Bool) (G : Key → Prop) (s : St) (j : JSt) : Prop where
  inv : MInv cd s.be off tm s.layers (mviewOf j.spec) G
  hV : j.V = s.be.now
  hW : tm = true → s.wall = s.be.now + off

/-- one operation of the client (any `cfg` / `held` the judge is run with). -/
theorem mstep_ok (cd : Codec) (hcd : ∀ b, cd.dec (cd.enc b) = some b) (off : Int) (tm : Bool) (G : Key → Prop)
    (cfg : JCfg) (held : List Key) (s : St) (j : JSt) (op : Op) (hs : List (List Key))
    (hr : MRel cd off tm G s j) (hop : OpOk op) (hc : tm = true → Coupled op) :
    MRel cd off tm G (step cd s op hs).1 (jstep cfg held j op (step cd s op hs).2).1 := by
  obtain ⟨hinv, hV, hW⟩ := hr
  cases op with
  | set k v ttl =>
    refine ⟨?_, ?_, ?_⟩
    · simp only [step, jstep, mviewOf_put_present]
      apply setL_m cd s.wall off tm s.layers (mviewOf j.spec) _ G s.be k v ttl hW
      · intro k' hk'; simp [mupd, hk']
      · right; simp [mupd, hV]
      · exact hinv
    · simp only [step, jstep, setL_now]; exact hV
    · simp only [step, setL_now]; exact hW
  | setAsync k v ttl =>
    refine ⟨?_, ?_, ?_⟩
    · simp only [step, jstep, mviewOf_put_present]
      apply setL_m cd s.wall off tm s.layers (mviewOf j.spec) _ G s.be k v ttl hW
      · intro k' hk'; simp [mupd, hk']
      · right; simp [mupd, hV]
      · exact hinv
    · simp only [step, jstep, setL_now]; exact hV
    · simp only [step, setL_now]; exact hW
  | add k v ttl =>
    rcases addL_cases cd s.wall s.layers s.be k v ttl with ⟨_, h⟩ | ⟨_, h⟩
    · simp only [step, h, jstep]
      exact ⟨hinv, hV, hW⟩
    · refine ⟨?_, ?_, ?_⟩
      · simp only [step, h, jstep, mviewOf_put_present]
        apply setL_m cd s.wall off tm s.layers (mviewOf j.spec) _ G s.be k v ttl hW
        · intro k' hk'; simp [mupd, hk']
        · right; simp [mupd, hV]
        · exact hinv
      · simp only [step, h, jstep, setL_now]; exact hV
      · simp only [step, h, setL_now]; exact hW
  | setMulti data ttl =>
    have hnd : (data.map (·.1)).Nodup := hop
    refine ⟨?_, ?_, ?_⟩
    · simp only [step, jstep, mviewOf_putAll]
      apply setMultiL_m cd s.wall off tm s.layers (mviewOf j.spec) _ G s.be data ttl hs hW
      · intro k' hk'; exact mupdAll_not_mem _ data _ k' hk'
      · intro kv hkv; right; rw [hV]; exact mupdAll_mem _ data _ kv.1 kv.2 hnd hkv
      · exact hinv
    · simp only [step, jstep, setMultiL_now]; exact hV
    · simp only [step, setMultiL_now]; exact hW
  | get keys =>
    obtain ⟨_, h3⟩ := getL_m cd hcd s.wall off tm s.be hW s.layers (mviewOf j.spec) G keys hs hinv
    refine ⟨?_, hV, hW⟩
    simp only [step, jstep]
    rw [mviewOf_refillAll cfg held j _ j.spec rfl]
    exact h3
  | del k =>
    refine ⟨?_, ?_, ?_⟩
    · simp only [step, jstep, mviewOf_put_deleted]
      apply delL_m cd off tm s.layers (mviewOf j.spec) _ G s.be k
      · intro k' hk'; simp [mupd, hk']
      · exact hinv
    · simp only [step, jstep, delL_now]; exact hV
    · simp only [step, delL_now]; exact hW
  | advV d =>
    refine ⟨MInv_items cd s.be (s.be.advance d) off tm rfl _ _ _ hinv, ?_, ?_⟩
    · simp only [step, jstep, Backend.advance]; omega
    · intro htm; exact absurd (hc htm) (by simp [Coupled])
  | advW d =>
    refine ⟨hinv, hV, ?_⟩
    intro htm; exact absurd (hc htm) (by simp [Coupled])
  | advBoth d =>
    refine ⟨MInv_items cd s.be (s.be.advance d) off tm rfl _ _ _ hinv, ?_, ?_⟩
    · simp only [step, jstep, Backend.advance]; omega
    · intro htm
      have := hW htm
      simp only [step, Backend.advance]; omega
  | raw k p b t => exact absurd hop (by simp [OpOk])

theorem MRel_runTo (cd : Codec) (hcd : ∀ b, cd.dec (cd.enc b) = some b) (off : Int) (tm : Bool) (cfg : JCfg) :
    ∀ (ops : List (Op × List (List Key))) (s : St) (j : JSt), MRel cd off tm (fun _ => False) s j →
    (∀ o ∈ ops, OpOk o.1) → (tm = true → ∀ o ∈ ops, Coupled o.1) →
    MRel cd off tm (fun _ => False) (runTo cd cfg s j ops).1 (runTo cd cfg s j ops).2
  | [], _, _, hr, _, _ => hr
  | (op, hs) :: rest, s, j, hr, hok, hc =>
    MRel_runTo cd hcd off tm cfg rest _ _
      (mstep_ok cd hcd off tm _ cfg _ s j op hs hr (hok (op, hs) List.mem_cons_self)
        (fun htm => hc htm (op, hs) List.mem_cons_self))
      (fun o ho => hok o (List.mem_cons_of_mem _ ho))
      (fun htm o ho => hc htm o (List.mem_cons_of_mem _ ho))

theorem MInv_init (cd : Codec) (be : Backend) (off : Int) (tm : Bool) (hbe : be.items = []) :
    ∀ (ls : List Layer) (f : MView) (G : Key → Prop), emptyLrus ls → MInv cd be off tm ls f G
  | [], f, G, _ => by intro k it hg; rw [hbe] at hg; simp [aGet] at hg
  | .ver n :: ls, f, G, h => MInv_init cd be off tm hbe ls _ _ h
  | .snap :: ls, f, G, h => MInv_init cd be off tm hbe ls _ _ h
  | .lru _ _ e :: ls, f, G, h => by
    obtain ⟨he, h2⟩ := h
    subst he
    exact ⟨by intro k it hg; simp [aGet] at hg, MInv_init cd be off tm hbe ls _ _ h2⟩

theorem MRel_init (cd : Codec) (ls : List Layer) (v0 w0 : Int) (tm : Bool) (h2 : emptyLrus ls) :
    MRel cd (w0 - v0) tm (fun _ => False) (St.fresh ls v0 w0) (JSt.fresh v0 w0) :=
  ⟨MInv_init cd _ _ _ rfl ls _ _ h2, rfl, fun _ => by simp only [St.fresh]; omega⟩

theorem same_trans {a b c : List Layer} (h1 : same a b) (h2 : same b c) : same a c := by
  unfold same at *; rw [h1, h2]

theorem step_same (cd : Codec) (s : St) (op : Op) (hs : List (List Key)) : same s.layers (step cd s op hs).1.layers := by
  cases op with
  | set k v ttl => exact setL_same cd s.wall s.layers s.be k v ttl
  | setAsync k v ttl => exact setL_same cd s.wall s.layers s.be k v ttl
  | add k v ttl => exact addL_same cd s.wall s.layers s.be k v ttl
  | setMulti data ttl => exact setMultiL_same cd s.wall s.layers s.be data ttl hs
  | get keys => exact getL_same cd s.wall s.be s.layers keys hs
  | del k => exact delL_same s.layers s.be k
  | advV d => exact same_refl _
  | advW d => exact same_refl _
  | advBoth d => exact same_refl _
  | raw k p b t => exact same_refl _

theorem runTo_same (cd : Codec) (cfg : JCfg) : ∀ (ops : List (Op × List (List Key))) (s : St) (j : JSt),
    same s.layers (runTo cd cfg s j ops).1.layers
  | [], _, _ => same_refl _
  | (op, hs) :: rest, s, j => same_trans (step_same cd s op hs) (runTo_same cd cfg rest _ _)

theorem final_slack (cd : Codec) (ls : List Layer) (v0 w0 : Int) (ops : List (Op × List (List Key))) :
    slack (final cd ls v0 w0 ops).1.layers = slack ls :=
  slack_same (runTo_same cd _ ops (St.fresh ls v0 w0) _)

section runsM
variable (cd : Codec) (hcd : ∀ b, cd.dec (cd.enc b) = some b) (ls : List Layer) (h2 : emptyLrus ls)
  (v0 w0 : Int) (ops : List (Op × List (List Key))) (hok : ∀ o ∈ ops, OpOk o.1)
include hcd h2 hok

theorem mrun_rel (tm : Bool) (hc : tm = true → ∀ o ∈ ops, Coupled o.1) :
    MRel cd (w0 - v0) tm (fun _ => False) (final cd ls v0 w0 ops).1 (final cd ls v0 w0 ops).2 :=
  MRel_runTo cd hcd _ tm _ ops _ _ (MRel_init cd ls v0 w0 tm h2) hok hc

/-- any stack: a read returns only requested keys with the last stored, not deleted value. -/
theorem mrun_read (keys : List Key) (hs : List (List Key)) :
    ∀ kv ∈ (final cd ls v0 w0 ops).1.read cd keys hs,
      kv.1 ∈ keys ∧ ∃ dV dW fl, (final cd ls v0 w0 ops).2.spec.get kv.1 = .present kv.2 dV dW fl := by
  intro kv hkv
  have hr := mrun_rel cd hcd ls h2 v0 w0 ops hok false (by simp)
  obtain ⟨h1, _⟩ := getL_m cd hcd (final cd ls v0 w0 ops).1.wall (w0 - v0) false (final cd ls v0 w0 ops).1.be (by simp)
    _ _ _ keys hs hr.inv
  obtain ⟨hk, hor⟩ := h1 kv hkv
  rcases hor with h | ⟨a, hf, _⟩
  · exact absurd h id
  · obtain ⟨b, fl, hg⟩ := mviewOf_some hf
    exact ⟨hk, a, b, fl, hg⟩

/-- any stack, one clock: whatever is read is the last stored value and less than `slack` past the
end of its TTL. -/
theorem mrun_deadline (hc : ∀ o ∈ ops, Coupled o.1) (keys : List Key) (hs : List (List Key)) :
    ∀ kv ∈ (final cd ls v0 w0 ops).1.read cd keys hs,
      ∃ dV dW fl, (final cd ls v0 w0 ops).2.spec.get kv.1 = .present kv.2 dV dW fl ∧
        (final cd ls v0 w0 ops).2.V < dV + slack ls := by
  intro kv hkv
  have hr := mrun_rel cd hcd ls h2 v0 w0 ops hok true (fun _ => hc)
  obtain ⟨h1, _⟩ := getL_m cd hcd (final cd ls v0 w0 ops).1.wall (w0 - v0) true (final cd ls v0 w0 ops).1.be (hr.hW)
    _ _ _ keys hs hr.inv
  obtain ⟨_, hor⟩ := h1 kv hkv
  rcases hor with h | ⟨a, hf, hlt⟩
  · exact absurd h id
  · obtain ⟨b, fl, hg⟩ := mviewOf_some hf
    refine ⟨a, b, fl, hg, ?_⟩
    have := hlt rfl
    rw [final_slack] at this
    rw [hr.hV]; exact this

end runsM

end PfC19
