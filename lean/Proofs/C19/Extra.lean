import Proofs.C19.Main
/-! C19: absolute deadline on one clock, corrupt entries, Add. -/
namespace PfC19
open Common C19

/-! ### one clock: nothing is returned `max defaultTTL 0` or more after its TTL ran out -/

def JBound (cfg : JCfg) (c : Int) (j : JSt) : Prop :=
  j.V = j.W + c ∧ ∀ k v dV dW, j.spec.get k = .present v dV dW → dW ≤ dV - c + max cfg.dttl 0

theorem bound_put (cfg : JCfg) (c : Int) (σ : Spec) (k : Key) (x : JEnt)
    (hx : ∀ v dV dW, x = .present v dV dW → dW ≤ dV - c + max cfg.dttl 0)
    (h : ∀ k v dV dW, σ.get k = .present v dV dW → dW ≤ dV - c + max cfg.dttl 0) :
    ∀ k' v dV dW, Spec.get (aPut k x σ) k' = .present v dV dW → dW ≤ dV - c + max cfg.dttl 0 := by
  intro k' v dV dW hg
  rw [get_aPut] at hg
  split at hg
  · exact hx v dV dW hg
  · exact h k' v dV dW hg

theorem bound_putAll (cfg : JCfg) (c a b : Int) (hab : b ≤ a - c + max cfg.dttl 0) : ∀ (data : Res) (σ : Spec),
    (∀ k v dV dW, σ.get k = .present v dV dW → dW ≤ dV - c + max cfg.dttl 0) →
    ∀ k v dV dW, Spec.get (data.foldl (fun σ kv => aPut kv.1 (.present kv.2 a b) σ) σ) k = .present v dV dW →
      dW ≤ dV - c + max cfg.dttl 0
  | [], _, h => h
  | (k1, v1) :: rest, σ, h => by
    apply bound_putAll cfg c a b hab rest
    apply bound_put cfg c σ k1 _ _ h
    intro v dV dW he
    simp only [JEnt.present.injEq] at he
    obtain ⟨_, rfl, rfl⟩ := he
    exact hab

theorem bound_bump (cfg : JCfg) (c : Int) (j : JSt) (hj : j.V = j.W + c) (σ : Spec) (k : Key)
    (h : ∀ k v dV dW, σ.get k = .present v dV dW → dW ≤ dV - c + max cfg.dttl 0) :
    ∀ k' v dV dW, Spec.get (bump cfg j σ k) k' = .present v dV dW → dW ≤ dV - c + max cfg.dttl 0 := by
  unfold bump
  split
  · rename_i val dV0 dW0 hg
    split
    · rename_i hc
      apply bound_put cfg c σ k _ _ h
      intro v dV dW he
      simp only [JEnt.present.injEq] at he
      obtain ⟨_, rfl, rfl⟩ := he
      have h0 := h k val dV0 dW0 hg
      have h1 : j.W + cfg.dttl ≤ dV0 - c + max cfg.dttl 0 := by
        have := Int.le_max_left cfg.dttl 0
        omega
      exact Int.max_le.mpr ⟨h0, h1⟩
    · exact h
  · exact h

theorem bound_bumpAll (cfg : JCfg) (c : Int) (j : JSt) (hj : j.V = j.W + c) : ∀ (res : Res) (σ : Spec),
    (∀ k v dV dW, σ.get k = .present v dV dW → dW ≤ dV - c + max cfg.dttl 0) →
    ∀ k v dV dW, Spec.get (res.foldl (fun σ kv => bump cfg j σ kv.1) σ) k = .present v dV dW →
      dW ≤ dV - c + max cfg.dttl 0
  | [], _, h => h
  | (k1, _) :: rest, σ, h => bound_bumpAll cfg c j hj rest _ (bound_bump cfg c j hj σ k1 h)

theorem jstep_bound (cfg : JCfg) (c : Int) (j : JSt) (op : Op) (obs : Obs) (hb : JBound cfg c j) (hc : Coupled op) :
    JBound cfg c (jstep cfg j op obs).1 := by
  obtain ⟨hV, hS⟩ := hb
  have hstore : ∀ (k : Key) (v : Bytes) (ttl : Int),
      JBound cfg c { j with spec := aPut k (.present v (j.V + ttl) (j.W + ttl)) j.spec } := by
    intro k v ttl
    refine ⟨hV, bound_put cfg c j.spec k _ ?_ hS⟩
    intro v' dV dW he
    simp only [JEnt.present.injEq] at he
    obtain ⟨_, rfl, rfl⟩ := he
    have := Int.le_max_right cfg.dttl 0
    omega
  cases op with
  | set k v ttl => exact hstore k v ttl
  | setAsync k v ttl => exact hstore k v ttl
  | add k v ttl =>
    cases obs with
    | added ok =>
      cases ok with
      | true => exact hstore k v ttl
      | false => exact ⟨hV, hS⟩
    | none => exact ⟨hV, hS⟩
    | got _ _ => exact ⟨hV, hS⟩
  | setMulti data ttl =>
    refine ⟨hV, ?_⟩
    simp only [jstep]
    apply bound_putAll cfg c _ _ _ data j.spec hS
    have := Int.le_max_right cfg.dttl 0
    omega
  | get keys =>
    cases obs with
    | got res e => exact ⟨hV, bound_bumpAll cfg c j hV res j.spec hS⟩
    | none => exact ⟨hV, hS⟩
    | added _ => exact ⟨hV, hS⟩
  | del k =>
    refine ⟨hV, bound_put cfg c j.spec k _ ?_ hS⟩
    intro v dV dW he; simp at he
  | advV d => exact absurd hc (by simp [Coupled])
  | advW d => exact absurd hc (by simp [Coupled])
  | advBoth d => exact ⟨by simp only [jstep]; omega, hS⟩
  | raw k p b t => exact ⟨hV, hS⟩

theorem runTo_bound (cd : Codec) (cfg : JCfg) (c : Int) : ∀ (ops : List (Op × List (List Key))) (s : St) (j : JSt),
    JBound cfg c j → (∀ o ∈ ops, Coupled o.1) → JBound cfg c (runTo cd cfg s j ops).2
  | [], _, _, hb, _ => hb
  | (op, hs) :: rest, _, j, hb, hc =>
    runTo_bound cd cfg c rest _ _ (jstep_bound cfg c j op _ hb (hc (op, hs) List.mem_cons_self))
      (fun o ho => hc o (List.mem_cons_of_mem _ ho))

/-! ### statements about whole runs from a fresh system -/

section runs
variable (cd : Codec) (hcd : ∀ b, cd.dec (cd.enc b) = some b) (ls : List Layer) (h1 : oneLru ls) (h2 : emptyLrus ls)
  (v0 w0 : Int) (ops : List (Op × List (List Key))) (hok : ∀ o ∈ ops, OpOk o.1)
include hcd h1 h2 hok

theorem run_judge : runJudge cd (cfgOf ls) (St.fresh ls v0 w0) (JSt.fresh v0 w0) ops = [] :=
  runJudge_nil cd hcd _ ops _ _ (Rel_init cd ls v0 w0 h1 h2) hok

theorem run_read (keys : List Key) (hs : List (List Key)) :
    ∀ kv ∈ (final cd ls v0 w0 ops).1.read cd keys hs,
      kv.1 ∈ keys ∧ ∃ dV dW, (final cd ls v0 w0 ops).2.spec.get kv.1 = .present kv.2 dV dW ∧
        ((final cd ls v0 w0 ops).2.V < dV ∨ ((cfgOf ls).hasLru = true ∧ (final cd ls v0 w0 ops).2.W < dW)) := by
  exact read_sound cd hcd _ _ _ (Rel_runTo cd hcd _ ops _ _ (Rel_init cd ls v0 w0 h1 h2) hok) keys hs

theorem run_no_read_after_delete (keys : List Key) (hs : List (List Key)) (k : Key) :
    ((final cd ls v0 w0 ops).2.spec.get k = .deleted ∨ (final cd ls v0 w0 ops).2.spec.get k = .never) →
    ∀ kv ∈ (final cd ls v0 w0 ops).1.read cd keys hs, kv.1 ≠ k := by
  intro hd kv hkv he
  obtain ⟨_, dV, dW, hg, _⟩ := run_read cd hcd ls h1 h2 v0 w0 ops hok keys hs kv hkv
  rw [he] at hg
  rcases hd with h | h <;> rw [h] at hg <;> simp at hg

theorem run_no_read_after_deadline (keys : List Key) (hs : List (List Key)) (k : Key) (v : Bytes) (dV dW : Int) :
    (final cd ls v0 w0 ops).2.spec.get k = .present v dV dW → dV ≤ (final cd ls v0 w0 ops).2.V → ((cfgOf ls).hasLru = false ∨ dW ≤ (final cd ls v0 w0 ops).2.W) →
    ∀ kv ∈ (final cd ls v0 w0 ops).1.read cd keys hs, kv.1 ≠ k := by
  intro hp hV hW kv hkv he
  obtain ⟨_, dV', dW', hg, hor⟩ := run_read cd hcd ls h1 h2 v0 w0 ops hok keys hs kv hkv
  rw [he, hp] at hg
  simp only [JEnt.present.injEq] at hg
  obtain ⟨_, rfl, rfl⟩ := hg
  rcases hor with h | ⟨hl, h⟩
  · omega
  · rcases hW with h' | h'
    · rw [h'] at hl; simp at hl
    · omega

theorem run_hard_deadline (hc : ∀ o ∈ ops, Coupled o.1) (keys : List Key) (hs : List (List Key)) :
    ∀ kv ∈ (final cd ls v0 w0 ops).1.read cd keys hs,
      ∃ dV dW, (final cd ls v0 w0 ops).2.spec.get kv.1 = .present kv.2 dV dW ∧ (final cd ls v0 w0 ops).2.V < dV + max (cfgOf ls).dttl 0 := by
  intro kv hkv
  obtain ⟨_, dV, dW, hg, hor⟩ := run_read cd hcd ls h1 h2 v0 w0 ops hok keys hs kv hkv
  have hinit : JBound (cfgOf ls) (v0 - w0) (JSt.fresh v0 w0) := by
    refine ⟨by simp only [JSt.fresh]; omega, ?_⟩
    intro k v dV dW h
    simp [JSt.fresh, Spec.get, aGet] at h
  have hb : JBound (cfgOf ls) (v0 - w0) (final cd ls v0 w0 ops).2 :=
    runTo_bound cd (cfgOf ls) (v0 - w0) ops (St.fresh ls v0 w0) _ hinit hc
  obtain ⟨hV, hS⟩ := hb
  refine ⟨dV, dW, hg, ?_⟩
  have h0 := Int.le_max_right (cfgOf ls).dttl 0
  rcases hor with h | ⟨_, h⟩
  · omega
  · have := hS _ _ _ _ hg
    omega
end runs

/-! ### corrupt entries -/

/-- Through a compression layer only decodings of what the layers below returned come back; an
entry that does not decode is dropped and an error is reported. -/
theorem snap_get (cd : Codec) (wall : Int) (ls : List Layer) (be : Backend) (keys : List Key) (hs : List (List Key)) :
    (∀ kv ∈ (getL cd wall (.snap :: ls) be keys hs).2.1,
      ∃ ev, (kv.1, ev) ∈ (getL cd wall ls be keys hs.tail).2.1 ∧ cd.dec ev = some kv.2) ∧
    ((∃ kv ∈ (getL cd wall ls be keys hs.tail).2.1, cd.dec kv.2 = none) →
      (getL cd wall (.snap :: ls) be keys hs).2.2 = true) := by
  constructor
  · intro kv hkv
    exact mem_decodeAll hkv
  · rintro ⟨kv, hkv, hd⟩
    simp only [getL, Bool.or_eq_true, List.any_eq_true]
    right
    exact ⟨kv, hkv, by simp [hd]⟩

/-- a corrupt backend entry read through a compression layer: absent from the result, error reported. -/
theorem corrupt_backend_entry (cd : Codec) (wall : Int) (be : Backend) (k : Key) (g : Bytes) (hs : List (List Key))
    (hl : be.live k = some g) (hg : cd.dec g = none) :
    getL cd wall [.snap] be [k] hs = ([.snap], [], true) := by
  simp [getL, Backend.getMulti, hl, decodeAll, hg, aPut, aDel]

end PfC19
