import Proofs.C19.Main
/-! C19: absolute deadline on one clock, corrupt entries, Add. -/
namespace PfC19
open Common C19

/-! ### one clock: the in-memory deadline is the TTL deadline, or a back-fill made within the TTL plus the default retention -/

/-- on one clock (`V = W + c`): without a back-fill since the store the in-memory deadline IS the
TTL deadline; after a back-fill at in-memory time `b` the entry was within its TTL then and the
in-memory deadline is `b + default retention`. -/
def JBound (cfg : JCfg) (c : Int) (j : JSt) : Prop :=
  j.V = j.W + c ∧ ∀ k v dV dW fl, j.spec.get k = .present v dV dW fl →
    (fl = none → dW = dV - c) ∧ (∀ b, fl = some b → b + c < dV ∧ dW = b + cfg.dttl)

def EntOk (cfg : JCfg) (c : Int) (x : JEnt) : Prop :=
  ∀ v dV dW fl, x = .present v dV dW fl → (fl = none → dW = dV - c) ∧ (∀ b, fl = some b → b + c < dV ∧ dW = b + cfg.dttl)

theorem bound_put (cfg : JCfg) (c : Int) (σ : Spec) (k : Key) (x : JEnt) (hx : EntOk cfg c x)
    (h : ∀ k, EntOk cfg c (σ.get k)) : ∀ k', EntOk cfg c (Spec.get (aPut k x σ) k') := by
  intro k'
  rw [get_aPut]
  split
  · exact hx
  · exact h k'

theorem entOk_store (cfg : JCfg) (c V W : Int) (hVW : V = W + c) (v : Bytes) (ttl : Int) :
    EntOk cfg c (.present v (V + ttl) (W + ttl) none) := by
  intro v' dV dW fl he
  simp only [JEnt.present.injEq] at he
  obtain ⟨_, rfl, rfl, rfl⟩ := he
  exact ⟨fun _ => by omega, fun b hb => by simp at hb⟩

theorem bound_putAll (cfg : JCfg) (c : Int) (x : Bytes → JEnt) (hx : ∀ v, EntOk cfg c (x v)) : ∀ (data : Res) (σ : Spec),
    (∀ k, EntOk cfg c (σ.get k)) →
    ∀ k, EntOk cfg c (Spec.get (data.foldl (fun σ kv => aPut kv.1 (x kv.2) σ) σ) k)
  | [], _, h => h
  | (k1, v1) :: rest, σ, h => bound_putAll cfg c x hx rest _ (bound_put cfg c σ k1 _ (hx v1) h)

theorem bound_refill (cfg : JCfg) (c : Int) (held : List Key) (j : JSt) (hj : j.V = j.W + c) (σ : Spec) (k : Key)
    (h : ∀ k, EntOk cfg c (σ.get k)) : ∀ k', EntOk cfg c (Spec.get (refill cfg held j σ k) k') := by
  rw [refill_eq]
  cases hre : refillEnt cfg held j k with
  | none => exact h
  | some e =>
    apply bound_put cfg c σ k e _ h
    unfold refillEnt at hre
    split at hre
    · rename_i val dV dW fl0 hg
      split at hre
      · rename_i hc
        simp only [Option.some.injEq] at hre
        subst hre
        intro v' dV' dW' fl he
        simp only [JEnt.present.injEq] at he
        obtain ⟨_, rfl, rfl, rfl⟩ := he
        refine ⟨fun hn => by simp at hn, ?_⟩
        intro b hb
        simp only [Option.some.injEq] at hb
        subst hb
        exact ⟨by omega, rfl⟩
      · simp at hre
    · simp at hre

theorem bound_refillAll (cfg : JCfg) (c : Int) (held : List Key) (j : JSt) (hj : j.V = j.W + c) : ∀ (res : Res) (σ : Spec),
    (∀ k, EntOk cfg c (σ.get k)) →
    ∀ k, EntOk cfg c (Spec.get (res.foldl (fun σ kv => refill cfg held j σ kv.1) σ) k)
  | [], _, h => h
  | (k1, _) :: rest, σ, h => bound_refillAll cfg c held j hj rest _ (bound_refill cfg c held j hj σ k1 h)

theorem jstep_bound (cfg : JCfg) (c : Int) (held : List Key) (j : JSt) (op : Op) (obs : Obs) (hb : JBound cfg c j)
    (hc : Coupled op) : JBound cfg c (jstep cfg held j op obs).1 := by
  obtain ⟨hV, hS⟩ := hb
  have hS' : ∀ k, EntOk cfg c (j.spec.get k) := fun k v dV dW fl he => hS k v dV dW fl he
  have mk : ∀ (σ : Spec) V W, V = W + c → (∀ k, EntOk cfg c (σ.get k)) → JBound cfg c ⟨σ, V, W⟩ :=
    fun σ V W h1 h2 => ⟨h1, fun k v dV dW fl he => h2 k v dV dW fl he⟩
  have hstore : ∀ (k : Key) (v : Bytes) (ttl : Int),
      JBound cfg c { j with spec := aPut k (.present v (j.V + ttl) (j.W + ttl) none) j.spec } :=
    fun k v ttl => mk _ _ _ hV (bound_put cfg c j.spec k _ (entOk_store cfg c j.V j.W hV v ttl) hS')
  cases op with
  | set k v ttl => exact hstore k v ttl
  | setAsync k v ttl => exact hstore k v ttl
  | add k v ttl =>
    cases obs with
    | added ok =>
      cases ok with
      | true => exact hstore k v ttl
      | false => exact ⟨hV, hS⟩
    | none => exact ⟨hV, hS⟩
    | got _ _ => exact ⟨hV, hS⟩
  | setMulti data ttl =>
    exact mk _ _ _ hV (bound_putAll cfg c (fun v => .present v (j.V + ttl) (j.W + ttl) none)
      (fun v => entOk_store cfg c j.V j.W hV v ttl) data j.spec hS')
  | get keys =>
    cases obs with
    | got res e => exact mk _ _ _ hV (bound_refillAll cfg c held j hV res j.spec hS')
    | none => exact ⟨hV, hS⟩
    | added _ => exact ⟨hV, hS⟩
  | del k =>
    refine mk _ _ _ hV (bound_put cfg c j.spec k _ ?_ hS')
    intro v dV dW fl he; simp at he
  | advV d => exact absurd hc (by simp [Coupled])
  | advW d => exact absurd hc (by simp [Coupled])
  | advBoth d => exact ⟨by simp only [jstep]; omega, hS⟩
  | raw k p b t => exact ⟨hV, hS⟩

theorem runTo_bound (cd : Codec) (cfg : JCfg) (c : Int) : ∀ (ops : List (Op × List (List Key))) (s : St) (j : JSt),
    JBound cfg c j → (∀ o ∈ ops, Coupled o.1) → JBound cfg c (runTo cd cfg s j ops).2
  | [], _, _, hb, _ => hb
  | (op, hs) :: rest, _, j, hb, hc =>
    runTo_bound cd cfg c rest _ _ (jstep_bound cfg c _ j op _ hb (hc (op, hs) List.mem_cons_self))
      (fun o ho => hc o (List.mem_cons_of_mem _ ho))

/-! ### statements about whole runs from a fresh system -/

section runs
variable (cd : Codec) (hcd : ∀ b, cd.dec (cd.enc b) = some b) (ls : List Layer) (h1 : oneLru ls) (h2 : emptyLrus ls)
  (v0 w0 : Int) (ops : List (Op × List (List Key))) (hok : ∀ o ∈ ops, OpOk o.1)
include hcd h1 h2 hok

theorem run_judge : runJudge cd (cfgOf ls) (St.fresh ls v0 w0) (JSt.fresh v0 w0) ops = [] :=
  runJudge_nil cd hcd _ ops _ _ (Rel_init cd ls v0 w0 h1 h2) hok

theorem run_rel : Rel cd (cfgOf ls) (final cd ls v0 w0 ops).1 (final cd ls v0 w0 ops).2 :=
  Rel_runTo cd hcd _ ops _ _ (Rel_init cd ls v0 w0 h1 h2) hok

theorem run_read (keys : List Key) (hs : List (List Key)) :
    ∀ kv ∈ (final cd ls v0 w0 ops).1.read cd keys hs,
      kv.1 ∈ keys ∧ ∃ dV dW fl, (final cd ls v0 w0 ops).2.spec.get kv.1 = .present kv.2 dV dW fl ∧
        ((holds (final cd ls v0 w0 ops).1.layers kv.1 = true ∧ (final cd ls v0 w0 ops).2.W < dW) ∨
          (final cd ls v0 w0 ops).2.V < dV) :=
  read_sound cd hcd _ _ _ (run_rel cd hcd ls h1 h2 v0 w0 ops hok) keys hs

theorem run_add (k : Key) (v : Bytes) (ttl : Int) :
    (addL cd (final cd ls v0 w0 ops).1.wall (final cd ls v0 w0 ops).1.layers (final cd ls v0 w0 ops).1.be k v ttl).2.2 =
      !liveV (final cd ls v0 w0 ops).2 k :=
  add_sound cd _ _ _ (run_rel cd hcd ls h1 h2 v0 w0 ops hok) k v ttl

theorem run_no_read_after_delete (keys : List Key) (hs : List (List Key)) (k : Key) :
    ((final cd ls v0 w0 ops).2.spec.get k = .deleted ∨ (final cd ls v0 w0 ops).2.spec.get k = .never) →
    ∀ kv ∈ (final cd ls v0 w0 ops).1.read cd keys hs, kv.1 ≠ k := by
  intro hd kv hkv he
  obtain ⟨_, dV, dW, fl, hg, _⟩ := run_read cd hcd ls h1 h2 v0 w0 ops hok keys hs kv hkv
  rw [he] at hg
  rcases hd with h | h <;> rw [h] at hg <;> simp at hg

theorem run_no_read_after_deadline (keys : List Key) (hs : List (List Key)) (k : Key) (v : Bytes) (dV dW : Int)
    (fl : Option Int) :
    (final cd ls v0 w0 ops).2.spec.get k = .present v dV dW fl → dV ≤ (final cd ls v0 w0 ops).2.V →
    (holds (final cd ls v0 w0 ops).1.layers k = false ∨ dW ≤ (final cd ls v0 w0 ops).2.W) →
    ∀ kv ∈ (final cd ls v0 w0 ops).1.read cd keys hs, kv.1 ≠ k := by
  intro hp hV hW kv hkv he
  obtain ⟨_, dV', dW', fl', hg, hor⟩ := run_read cd hcd ls h1 h2 v0 w0 ops hok keys hs kv hkv
  rw [he, hp] at hg
  simp only [JEnt.present.injEq] at hg
  obtain ⟨_, rfl, rfl, _⟩ := hg
  rcases hor with ⟨hl, h⟩ | h
  · rcases hW with h' | h'
    · rw [he, h'] at hl; simp at hl
    · omega
  · omega

theorem run_bound (hc : ∀ o ∈ ops, Coupled o.1) : JBound (cfgOf ls) (v0 - w0) (final cd ls v0 w0 ops).2 := by
  have hinit : JBound (cfgOf ls) (v0 - w0) (JSt.fresh v0 w0) := by
    refine ⟨by simp only [JSt.fresh]; omega, ?_⟩
    intro k v dV dW fl h
    simp [JSt.fresh, Spec.get, aGet] at h
  exact runTo_bound cd (cfgOf ls) (v0 - w0) ops (St.fresh ls v0 w0) _ hinit hc

/-- one clock, no back-fill since the store: only within the TTL. -/
theorem run_ttl_without_backfill (hc : ∀ o ∈ ops, Coupled o.1) (keys : List Key) (hs : List (List Key)) :
    ∀ kv ∈ (final cd ls v0 w0 ops).1.read cd keys hs, ∀ dV dW,
      (final cd ls v0 w0 ops).2.spec.get kv.1 = .present kv.2 dV dW none → (final cd ls v0 w0 ops).2.V < dV := by
  intro kv hkv dV dW hp
  obtain ⟨_, dV', dW', fl', hg, hor⟩ := run_read cd hcd ls h1 h2 v0 w0 ops hok keys hs kv hkv
  obtain ⟨hV, hS⟩ := run_bound cd hcd ls h1 h2 v0 w0 ops hok hc
  rw [hp] at hg
  simp only [JEnt.present.injEq] at hg
  obtain ⟨_, rfl, rfl, _⟩ := hg
  have := (hS _ _ _ _ _ hp).1 rfl
  rcases hor with ⟨_, h⟩ | h
  · omega
  · exact h

/-- one clock, general: within the TTL, or within the default retention of a back-fill that was made within the TTL. -/
theorem run_backfill_retention (hc : ∀ o ∈ ops, Coupled o.1) (keys : List Key) (hs : List (List Key)) :
    ∀ kv ∈ (final cd ls v0 w0 ops).1.read cd keys hs,
      ∃ dV dW fl, (final cd ls v0 w0 ops).2.spec.get kv.1 = .present kv.2 dV dW fl ∧
        ((final cd ls v0 w0 ops).2.V < dV ∨
          ∃ b, fl = some b ∧ b + (v0 - w0) < dV ∧ (final cd ls v0 w0 ops).2.V < b + (v0 - w0) + (cfgOf ls).dttl) := by
  intro kv hkv
  obtain ⟨_, dV, dW, fl, hg, hor⟩ := run_read cd hcd ls h1 h2 v0 w0 ops hok keys hs kv hkv
  obtain ⟨hV, hS⟩ := run_bound cd hcd ls h1 h2 v0 w0 ops hok hc
  refine ⟨dV, dW, fl, hg, ?_⟩
  rcases hor with ⟨_, h⟩ | h
  · cases fl with
    | none =>
      have := (hS _ _ _ _ _ hg).1 rfl
      left; omega
    | some b =>
      obtain ⟨hb1, hb2⟩ := (hS _ _ _ _ _ hg).2 b rfl
      right; exact ⟨b, rfl, hb1, by omega⟩
  · exact Or.inl h

theorem run_hard_deadline (hc : ∀ o ∈ ops, Coupled o.1) (keys : List Key) (hs : List (List Key)) :
    ∀ kv ∈ (final cd ls v0 w0 ops).1.read cd keys hs,
      ∃ dV dW fl, (final cd ls v0 w0 ops).2.spec.get kv.1 = .present kv.2 dV dW fl ∧
        (final cd ls v0 w0 ops).2.V < dV + max (cfgOf ls).dttl 0 := by
  intro kv hkv
  obtain ⟨dV, dW, fl, hg, hor⟩ := run_backfill_retention cd hcd ls h1 h2 v0 w0 ops hok hc keys hs kv hkv
  refine ⟨dV, dW, fl, hg, ?_⟩
  have h0 := Int.le_max_right (cfgOf ls).dttl 0
  have h1 := Int.le_max_left (cfgOf ls).dttl 0
  rcases hor with h | ⟨b, _, hb1, hb2⟩
  · omega
  · omega
end runs

/-! ### corrupt entries -/

/-- Through a compression layer only decodings of what the layers below returned come back; an
entry that does not decode is dropped and an error is reported. -/
theorem snap_get (cd : Codec) (wall : Int) (ls : List Layer) (be : Backend) (keys : List Key) (hs : List (List Key)) :
    (∀ kv ∈ (getL cd wall (.snap :: ls) be keys hs).2.1,
      ∃ ev, (kv.1, ev) ∈ (getL cd wall ls be keys hs.tail).2.1 ∧ cd.dec ev = some kv.2) ∧
    ((∃ kv ∈ (getL cd wall ls be keys hs.tail).2.1, cd.dec kv.2 = none) →
      (getL cd wall (.snap :: ls) be keys hs).2.2 = true) := by
  constructor
  · intro kv hkv
    exact mem_decodeAll hkv
  · rintro ⟨kv, hkv, hd⟩
    simp only [getL, Bool.or_eq_true, List.any_eq_true]
    right
    exact ⟨kv, hkv, by simp [hd]⟩

/-- a corrupt backend entry read through a compression layer: absent from the result, error reported. -/
theorem corrupt_backend_entry (cd : Codec) (wall : Int) (be : Backend) (k : Key) (g : Bytes) (hs : List (List Key))
    (hl : be.live k = some g) (hg : cd.dec g = none) :
    getL cd wall [.snap] be [k] hs = ([.snap], [], true) := by
  simp [getL, Backend.getMulti, hl, decodeAll, hg, aPut, aDel]

/-- a key the in-memory layer does not hold and the layers below do not return: nothing changes. -/
theorem lru_miss_passthrough (cd : Codec) (wall : Int) (sz : Nat) (d : Int) (e : KV) (ls : List Layer) (be : Backend)
    (k : Key) (hs : List (List Key)) (err : Bool) (hm : aGet k e = none)
    (h : getL cd wall ls be [k] hs.tail = (ls, [], err)) :
    getL cd wall (.lru sz d e :: ls) be [k] hs = (.lru sz d e :: ls, [], err) := by
  simp only [getL, lruScan, hm, List.nil_append, h]
  simp [orderBy, lruAddAll]

/-- the same underneath an in-memory layer that does not hold the key. -/
theorem corrupt_backend_entry_under_lru (cd : Codec) (wall : Int) (sz : Nat) (d : Int) (e : KV) (be : Backend) (k : Key)
    (g : Bytes) (hs : List (List Key)) (hm : aGet k e = none) (hl : be.live k = some g) (hg : cd.dec g = none) :
    getL cd wall [.lru sz d e, .snap] be [k] hs = ([.lru sz d e, .snap], [], true) :=
  lru_miss_passthrough cd wall sz d e [.snap] be k hs true hm (corrupt_backend_entry cd wall be k g hs.tail hl hg)

theorem orderBy_singleton (hint : List Key) (x : Key × Bytes) : orderBy hint [x] = [x] := by
  simp [orderBy]

/-- a store with a positive TTL is readable at once, through any stack. -/
theorem read_your_write (cd : Codec) (hcd : ∀ b, cd.dec (cd.enc b) = some b) (wall : Int) :
    ∀ (ls : List Layer) (be : Backend) (k : Key) (v : Bytes) (ttl : Int) (hs : List (List Key)), 0 < ttl →
    (getL cd wall (setL cd wall ls be k v ttl).1 (setL cd wall ls be k v ttl).2 [k] hs).2.1 = [(k, v)]
  | [], be, k, v, ttl, hs, h => by
    have hl : (be.set k v ttl).live k = some v := by
      have : be.now < be.now + ttl := by omega
      simp [Backend.live, Backend.set, aGet_aPut_self, this]
    simp [setL, getL, Backend.getMulti, hl, aPut, aDel]
  | .ver n :: ls, be, k, v, ttl, hs, h => by
    have ih := read_your_write cd hcd wall ls be (addVersion n k) v ttl hs.tail h
    simp only [setL, getL, List.map_cons, List.map_nil, ih, List.foldl_cons, List.foldl_nil]
    simp [removeVersion_addVersion, aPut, aDel]
  | .snap :: ls, be, k, v, ttl, hs, h => by
    have ih := read_your_write cd hcd wall ls be k (cd.enc v) ttl hs.tail h
    simp only [setL, getL, ih]
    simp [decodeAll, hcd]
  | .lru sz d e :: ls, be, k, v, ttl, hs, h => by
    have ih := read_your_write cd hcd wall ls be k v ttl hs.tail h
    cases sz with
    | zero =>
      simp only [setL, getL, lruAdd, List.take_zero, lruScan, aGet, List.nil_append]
      simp [ih, orderBy_singleton, aPut, aDel]
    | succ m =>
      have hg : aGet k (lruAdd (m + 1) k ⟨v, wall + ttl⟩ e) = some ⟨v, wall + ttl⟩ := by
        simp [lruAdd, aPut, aGet]
      simp only [setL, getL, lruScan, hg]
      rw [if_pos (by omega : wall < wall + ttl)]
      simp [aPut, aDel]

theorem addVersion_three (k : Key) : addVersion 3 k = 51 :: 64 :: k := by
  simp [addVersion, versionPrefix, digits, atSign]

theorem removeVersion_three (k : Key) : removeVersion 3 (51 :: 64 :: k) = k := by
  rw [← addVersion_three, removeVersion_addVersion]

theorem shift33_le (key : UInt64) : (key >>> 33).toNat + 1 ≤ 2 ^ 31 := by
  have h := key.toNat_lt
  rw [UInt64.toNat_shiftRight]
  have : (33 : UInt64).toNat % 64 = 33 := by decide
  rw [this, Nat.shiftRight_eq_div_pow]
  omega

end PfC19
