import Proofs.C19.Store
/-! C19 — capacity of the in-memory layers: after any run every in-memory layer of any stack holds at
most `size` entries, under pairwise distinct keys (induction over the operations). -/
namespace PfC19
open Common C19

theorem length_aDel_le {α : Type} (k : Key) : ∀ (m : List (Key × α)), (aDel k m).length ≤ m.length
  | [] => Nat.le_refl _
  | (k', v) :: r => by
    have := length_aDel_le k r
    simp only [aDel]
    split <;> simp only [List.length_cons] <;> omega

theorem length_aDel_lt {α : Type} {k : Key} {v : α} : ∀ {m : List (Key × α)}, aGet k m = some v → (aDel k m).length < m.length
  | [], h => by simp [aGet] at h
  | (k', v') :: r, h => by
    simp only [aGet] at h
    simp only [aDel]
    split
    · have := length_aDel_le k r
      simp only [List.length_cons]; omega
    · rename_i hk
      rw [if_neg hk] at h
      have := length_aDel_lt h
      simp only [List.length_cons]; omega

theorem not_mem_keys_aDel {α : Type} (k : Key) : ∀ (m : List (Key × α)), k ∉ (aDel k m).map (·.1)
  | [] => by simp [aDel]
  | (k', v) :: r => by
    simp only [aDel]
    split
    · exact not_mem_keys_aDel k r
    · rename_i hk
      simp only [List.map_cons, List.mem_cons, not_or]
      exact ⟨fun h => hk h.symm, not_mem_keys_aDel k r⟩

theorem nodup_aDel {α : Type} (k : Key) : ∀ (m : List (Key × α)), (m.map (·.1)).Nodup → ((aDel k m).map (·.1)).Nodup
  | [], h => h
  | (k', v) :: r, h => by
    simp only [List.map_cons, List.nodup_cons] at h
    simp only [aDel]
    split
    · exact nodup_aDel k r h.2
    · simp only [List.map_cons, List.nodup_cons]
      refine ⟨fun hc => h.1 ?_, nodup_aDel k r h.2⟩
      obtain ⟨x, hx, hxk⟩ := List.mem_map.mp hc
      have hx' := (mem_aDel (k := k) (e := x) (m := r) hx).1
      exact List.mem_map.mpr ⟨x, hx', hxk⟩

theorem nodup_aPut {α : Type} (k : Key) (v : α) (m : List (Key × α)) (h : (m.map (·.1)).Nodup) : ((aPut k v m).map (·.1)).Nodup := by
  simp only [aPut, List.map_cons, List.nodup_cons]
  exact ⟨not_mem_keys_aDel k m, nodup_aDel k m h⟩

/-- one in-memory layer is within its capacity and its keys are pairwise distinct. -/
def entsOk (sz : Nat) (e : KV) : Prop := e.length ≤ sz ∧ (e.map (·.1)).Nodup

theorem lruAdd_ok (sz : Nat) (k : Key) (it : Item) (e : KV) (h : entsOk sz e) : entsOk sz (lruAdd sz k it e) := by
  refine ⟨by simp only [lruAdd, List.length_take]; omega, ?_⟩
  have := nodup_aPut k it e h.2
  simp only [lruAdd]
  exact List.Sublist.nodup (List.Sublist.map _ (List.take_sublist sz (aPut k it e))) this

theorem lruAddAll_ok (sz : Nat) (X : Int) : ∀ (o : Res) (e : KV), entsOk sz e → entsOk sz (lruAddAll sz X o e)
  | [], _, h => h
  | (k, v) :: o, e, h => lruAddAll_ok sz X o _ (lruAdd_ok sz k ⟨v, X⟩ e h)

theorem aDel_ok (sz : Nat) (k : Key) (e : KV) (h : entsOk sz e) : entsOk sz (aDel k e) :=
  ⟨Nat.le_trans (length_aDel_le k e) h.1, nodup_aDel k e h.2⟩

theorem lruScan_ok (sz : Nat) (wall : Int) : ∀ (keys : List Key) (s : Scan), entsOk sz s.ents → entsOk sz (lruScan wall keys s).ents
  | [], _, h => h
  | k :: ks, s, h => by
    simp only [lruScan]
    split
    · exact lruScan_ok sz wall ks _ h
    · rename_i it hit
      split
      · apply lruScan_ok sz wall ks
        refine ⟨?_, nodup_aPut k it s.ents h.2⟩
        have := length_aDel_lt hit
        have := h.1
        simp only [aPut, List.length_cons]; omega
      · exact lruScan_ok sz wall ks _ (aDel_ok sz k s.ents h)

/-- every in-memory layer of the stack is within its capacity, with distinct keys. -/
def capOk : List Layer → Prop
  | [] => True
  | .lru sz _ e :: ls => entsOk sz e ∧ capOk ls
  | _ :: ls => capOk ls

theorem setL_cap (cd : Codec) (wall : Int) : ∀ (ls : List Layer) (be : Backend) (k : Key) (v : Bytes) (ttl : Int),
    capOk ls → capOk (setL cd wall ls be k v ttl).1
  | [], _, _, _, _, _ => trivial
  | .ver n :: ls, be, k, v, ttl, h => setL_cap cd wall ls be _ v ttl h
  | .snap :: ls, be, k, v, ttl, h => setL_cap cd wall ls be k _ ttl h
  | .lru sz _ e :: ls, be, k, v, ttl, h => ⟨lruAdd_ok sz k _ e h.1, setL_cap cd wall ls be k v ttl h.2⟩

theorem delL_cap : ∀ (ls : List Layer) (be : Backend) (k : Key), capOk ls → capOk (delL ls be k).1
  | [], _, _, _ => trivial
  | .ver n :: ls, be, k, h => delL_cap ls be _ h
  | .snap :: ls, be, k, h => delL_cap ls be k h
  | .lru sz _ e :: ls, be, k, h => ⟨aDel_ok sz k e h.1, delL_cap ls be k h.2⟩

theorem setMultiL_cap (cd : Codec) (wall : Int) : ∀ (ls : List Layer) (be : Backend) (data : Res) (ttl : Int)
    (hs : List (List Key)), capOk ls → capOk (setMultiL cd wall ls be data ttl hs).1
  | [], _, _, _, _, _ => trivial
  | .ver n :: ls, be, data, ttl, hs, h => setMultiL_cap cd wall ls be _ ttl hs.tail h
  | .snap :: ls, be, data, ttl, hs, h => setMultiL_cap cd wall ls be _ ttl hs.tail h
  | .lru sz _ e :: ls, be, data, ttl, hs, h =>
    ⟨lruAddAll_ok sz _ _ e h.1, setMultiL_cap cd wall ls be data ttl hs.tail h.2⟩

theorem getL_cap (cd : Codec) (wall : Int) (be : Backend) : ∀ (ls : List Layer) (keys : List Key) (hs : List (List Key)),
    capOk ls → capOk (getL cd wall ls be keys hs).1
  | [], _, _, _ => trivial
  | .ver n :: ls, keys, hs, h => getL_cap cd wall be ls _ hs.tail h
  | .snap :: ls, keys, hs, h => getL_cap cd wall be ls keys hs.tail h
  | .lru sz d e :: ls, keys, hs, h => by
    have hsc := lruScan_ok sz wall keys ⟨e, [], []⟩ h.1
    simp only [getL]
    split
    · exact ⟨hsc, h.2⟩
    · exact ⟨lruAddAll_ok sz _ _ _ hsc, getL_cap cd wall be ls _ hs.tail h.2⟩

theorem step_cap (cd : Codec) (s : St) (op : Op) (hs : List (List Key)) (h : capOk s.layers) :
    capOk (step cd s op hs).1.layers := by
  cases op with
  | set k v ttl => exact setL_cap cd s.wall s.layers s.be k v ttl h
  | setAsync k v ttl => exact setL_cap cd s.wall s.layers s.be k v ttl h
  | add k v ttl =>
    simp only [step]
    rcases addL_cases cd s.wall s.layers s.be k v ttl with ⟨_, he⟩ | ⟨_, he⟩
    · rw [he]; exact h
    · rw [he]; exact setL_cap cd s.wall s.layers s.be k v ttl h
  | setMulti data ttl => exact setMultiL_cap cd s.wall s.layers s.be data ttl hs h
  | get keys => exact getL_cap cd s.wall s.be s.layers keys hs h
  | del k => exact delL_cap s.layers s.be k h
  | advV d => exact h
  | advW d => exact h
  | advBoth d => exact h
  | raw k p b t => exact h

theorem runTo_cap (cd : Codec) (cfg : JCfg) : ∀ (ops : List (Op × List (List Key))) (s : St) (j : JSt),
    capOk s.layers → capOk (runTo cd cfg s j ops).1.layers
  | [], _, _, h => h
  | (op, hs) :: rest, s, j, h => runTo_cap cd cfg rest _ _ (step_cap cd s op hs h)

theorem capOk_init : ∀ (ls : List Layer), emptyLrus ls → capOk ls
  | [], _ => trivial
  | .ver _ :: ls, h => capOk_init ls h
  | .snap :: ls, h => capOk_init ls h
  | .lru sz _ e :: ls, h => by
    obtain ⟨he, h2⟩ := h
    subst he
    exact ⟨⟨Nat.zero_le _, List.nodup_nil⟩, capOk_init ls h2⟩

end PfC19
