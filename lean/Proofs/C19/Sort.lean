import Model.C19
import Proofs.C19
/-! C19: the natural sort of the server list (permutation, independence of the input order when
`natLess` orders the names) and disjointness of the backend keys of clients with different versions. -/
namespace PfC19
open Common C19

/-! ### insertion sort by a comparison that orders the names of a list -/

section sort
variable (lt : Bytes → Bytes → Bool)

/-- "sorts before or is the same name". -/
def Rle (a b : Bytes) : Prop := a = b ∨ lt a b = true

/-- on the names of `l`, two distinct names are related in exactly one direction and `lt` is transitive. -/
structure OrdOn (l : List Bytes) : Prop where
  total : ∀ a ∈ l, ∀ b ∈ l, a ≠ b → lt a b = true ∨ lt b a = true
  antisym : ∀ a ∈ l, ∀ b ∈ l, lt a b = true → lt b a = true → a = b
  trans : ∀ a ∈ l, ∀ b ∈ l, ∀ c ∈ l, lt a b = true → lt b c = true → a = c ∨ lt a c = true

theorem insertBy_perm (x : Bytes) : ∀ l, (insertBy lt x l).Perm (x :: l)
  | [] => .refl _
  | y :: ys => by
    simp only [insertBy]
    split
    · exact .refl _
    · exact ((insertBy_perm x ys).cons y).trans (List.Perm.swap x y ys)

theorem sortBy_perm : ∀ l : List Bytes, (l.foldr (insertBy lt) []).Perm l
  | [] => .refl _
  | x :: l => (insertBy_perm lt x _).trans ((sortBy_perm l).cons x)

variable {lt}

theorem Rle_trans {l : List Bytes} (ho : OrdOn lt l) {a b c : Bytes} (ha : a ∈ l) (hb : b ∈ l) (hc : c ∈ l)
    (h1 : Rle lt a b) (h2 : Rle lt b c) : Rle lt a c := by
  rcases h1 with rfl | h1
  · exact h2
  · rcases h2 with rfl | h2
    · exact Or.inr h1
    · exact ho.trans a ha b hb c hc h1 h2

theorem Rle_antisymm {l : List Bytes} (ho : OrdOn lt l) {a b : Bytes} (ha : a ∈ l) (hb : b ∈ l)
    (h1 : Rle lt a b) (h2 : Rle lt b a) : a = b := by
  rcases h1 with h1 | h1
  · exact h1
  · rcases h2 with h2 | h2
    · exact h2.symm
    · exact ho.antisym a ha b hb h1 h2

theorem insertBy_sorted {l : List Bytes} (ho : OrdOn lt l) (x : Bytes) (hx : x ∈ l) : ∀ ys : List Bytes,
    (∀ y ∈ ys, y ∈ l) → ys.Pairwise (Rle lt) → (insertBy lt x ys).Pairwise (Rle lt)
  | [], _, _ => by simp [insertBy]
  | y :: ys, hm, hp => by
    have hy : y ∈ l := hm y List.mem_cons_self
    have hys : ∀ z ∈ ys, z ∈ l := fun z hz => hm z (List.mem_cons_of_mem _ hz)
    obtain ⟨hp1, hp2⟩ := List.pairwise_cons.mp hp
    simp only [insertBy]
    split
    · rename_i hlt
      refine List.pairwise_cons.mpr ⟨?_, hp⟩
      intro z hz
      rcases List.mem_cons.mp hz with rfl | hz
      · exact Or.inr hlt
      · exact Rle_trans ho hx hy (hys z hz) (Or.inr hlt) (hp1 z hz)
    · rename_i hlt
      refine List.pairwise_cons.mpr ⟨?_, insertBy_sorted ho x hx ys hys hp2⟩
      intro z hz
      rcases List.mem_cons.mp ((insertBy_perm lt x ys).mem_iff.mp hz) with rfl | hz
      · by_cases he : y = z
        · exact Or.inl he
        · rcases ho.total y hy z hx he with h | h
          · exact Or.inr h
          · exact absurd h hlt
      · exact hp1 z hz

theorem sortBy_sorted {l : List Bytes} (ho : OrdOn lt l) : ∀ l0 : List Bytes, (∀ x ∈ l0, x ∈ l) →
    (l0.foldr (insertBy lt) []).Pairwise (Rle lt)
  | [], _ => List.Pairwise.nil
  | x :: l0, hm => by
    have hx : x ∈ l := hm x List.mem_cons_self
    have hl0 : ∀ z ∈ l0, z ∈ l := fun z hz => hm z (List.mem_cons_of_mem _ hz)
    refine insertBy_sorted ho x hx _ ?_ (sortBy_sorted ho l0 hl0)
    intro y hy
    exact hl0 y ((sortBy_perm lt l0).mem_iff.mp hy)

/-- two sorted arrangements of the same names are the same list. -/
theorem sorted_unique {l : List Bytes} (ho : OrdOn lt l) : ∀ (l1 l2 : List Bytes), (∀ x ∈ l1, x ∈ l) →
    l1.Pairwise (Rle lt) → l2.Pairwise (Rle lt) → l1.Perm l2 → l1 = l2
  | [], l2, _, _, _, hp => (List.Perm.nil_eq hp)
  | a :: t1, [], _, _, _, hp => absurd hp.length_eq (by simp)
  | a :: t1, b :: t2, hm, h1, h2, hp => by
    obtain ⟨h1a, h1t⟩ := List.pairwise_cons.mp h1
    obtain ⟨h2b, h2t⟩ := List.pairwise_cons.mp h2
    have ha : a ∈ l := hm a List.mem_cons_self
    have hb1 : b ∈ a :: t1 := hp.mem_iff.mpr List.mem_cons_self
    have ha2 : a ∈ b :: t2 := hp.mem_iff.mp List.mem_cons_self
    have hb : b ∈ l := hm b hb1
    have hab : Rle lt a b := by
      rcases List.mem_cons.mp hb1 with h | h
      · exact Or.inl h.symm
      · exact h1a b h
    have hba : Rle lt b a := by
      rcases List.mem_cons.mp ha2 with h | h
      · exact Or.inl h.symm
      · exact h2b a h
    have he : a = b := Rle_antisymm ho ha hb hab hba
    subst he
    have := sorted_unique ho t1 t2 (fun x hx => hm x (List.mem_cons_of_mem _ hx)) h1t h2t hp.cons_inv
    rw [this]

/-- the sorted list does not depend on the order in which the names were given. -/
theorem sortBy_order_independent {l l' : List Bytes} (ho : OrdOn lt l) (hp : l.Perm l') :
    l.foldr (insertBy lt) [] = l'.foldr (insertBy lt) [] := by
  apply sorted_unique ho
  · intro x hx; exact (sortBy_perm lt l).mem_iff.mp hx
  · exact sortBy_sorted ho l (fun _ h => h)
  · exact sortBy_sorted ho l' (fun x hx => hp.mem_iff.mpr hx)
  · exact (sortBy_perm lt l).trans (hp.trans (sortBy_perm lt l').symm)

end sort

/-- the decidable condition of the model is the order condition. -/
theorem natOrdered_ordOn {l : List Bytes} (h : natOrdered l = true) : OrdOn natLess l := by
  unfold natOrdered at h
  rw [List.all_eq_true] at h
  have key : ∀ a ∈ l, ∀ b ∈ l,
      ((a == b) = true ∨ (natLess a b != natLess b a) = true) ∧
      ∀ c ∈ l, (!(natLess a b && natLess b c) || a == c || natLess a c) = true := by
    intro a ha b hb
    have h1 := h a ha
    rw [List.all_eq_true] at h1
    have h2 := h1 b hb
    rw [Bool.and_eq_true, Bool.or_eq_true, List.all_eq_true] at h2
    exact h2
  refine ⟨?_, ?_, ?_⟩
  · intro a ha b hb hne
    rcases (key a ha b hb).1 with h1 | h1
    · exact absurd (by simpa using h1) hne
    · cases hab : natLess a b with
      | true => exact Or.inl rfl
      | false =>
        right
        cases hba : natLess b a with
        | true => rfl
        | false => rw [hab, hba] at h1; simp at h1
  · intro a ha b hb h1 h2
    rcases (key a ha b hb).1 with h3 | h3
    · simpa using h3
    · rw [h1, h2] at h3; simp at h3
  · intro a ha b hb c hc h1 h2
    have := (key a ha b hb).2 c hc
    rw [h1, h2] at this
    simp only [Bool.and_self, Bool.not_true, Bool.false_or, Bool.or_eq_true, beq_iff_eq] at this
    exact this

theorem natSort_perm (l : List Bytes) : (natSort l).Perm l := sortBy_perm natLess l

theorem natSort_order_independent {l l' : List Bytes} (h : natOrdered l = true) (hp : l.Perm l') :
    natSort l = natSort l' :=
  sortBy_order_independent (natOrdered_ordOn h) hp

/-! ### backend keys of clients with different versions -/

theorem phys_append : ∀ (l1 l2 : List Layer) (k : Key), phys (l1 ++ l2) k = phys l2 (phys l1 k)
  | [], _, _ => rfl
  | .ver n :: l1, l2, k => phys_append l1 l2 (addVersion n k)
  | .snap :: l1, l2, k => phys_append l1 l2 k
  | .lru _ _ _ :: l1, l2, k => phys_append l1 l2 k

theorem phys_prefix : ∀ (ls : List Layer), ∃ p : Bytes, ∀ k, phys ls k = p ++ k
  | [] => ⟨[], fun _ => rfl⟩
  | .ver n :: ls => by
    obtain ⟨p, hp⟩ := phys_prefix ls
    exact ⟨p ++ versionPrefix n, fun k => by simp only [phys, hp, addVersion, List.append_assoc]⟩
  | .snap :: ls => by
    obtain ⟨p, hp⟩ := phys_prefix ls
    exact ⟨p, fun k => by simp only [phys, hp]⟩
  | .lru _ _ _ :: ls => by
    obtain ⟨p, hp⟩ := phys_prefix ls
    exact ⟨p, fun k => by simp only [phys, hp]⟩

theorem phys_split_disjoint (up up' low : List Layer) (a b : Nat) (hab : a ≠ b) (k k' : Key) :
    phys (up ++ .ver a :: low) k ≠ phys (up' ++ .ver b :: low) k' := by
  intro h
  rw [phys_append, phys_append] at h
  simp only [phys] at h
  obtain ⟨p, hp⟩ := phys_prefix low
  rw [hp, hp] at h
  exact hab (addVersion_inj (List.append_cancel_left h)).1

end PfC19
