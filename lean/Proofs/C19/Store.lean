import Proofs.C19.Inv
/-! Stores, adds and deletes through a stack preserve the invariant (C19). -/
namespace PfC19
open Common C19

theorem tVer_upd (n : Nat) (f : View) (k : Key) (x : Option (Bytes × Int × Int)) :
    tVer n (upd f k x) = upd (tVer n f) (addVersion n k) x := by
  funext k'
  simp only [tVer, upd]
  cases h : trimPrefix (versionPrefix n) k' with
  | none =>
    have : k' ≠ addVersion n k := by
      intro he; rw [he, addVersion, trimPrefix_append] at h; simp at h
    simp [this]
  | some k0 =>
    have hk := trimPrefix_some h
    subst hk
    simp only [addVersion, List.append_cancel_left_eq]

theorem tSnap_upd (cd : Codec) (f : View) (k : Key) (x : Option (Bytes × Int × Int)) :
    tSnap cd (upd f k x) = upd (tSnap cd f) k (x.map (encEnt cd)) := by
  funext k'
  simp only [tSnap, upd]
  split <;> rfl

/-! ### Set / SetAsync -/

theorem setL_now (cd : Codec) (wall : Int) : ∀ (ls : List Layer) (be : Backend) (k : Key) (v : Bytes) (ttl : Int),
    (setL cd wall ls be k v ttl).2.now = be.now
  | [], _, _, _, _ => rfl
  | .ver n :: ls, be, k, v, ttl => setL_now cd wall ls be (addVersion n k) v ttl
  | .snap :: ls, be, k, v, ttl => setL_now cd wall ls be k (cd.enc v) ttl
  | .lru _ _ _ :: ls, be, k, v, ttl => setL_now cd wall ls be k v ttl

theorem set_nil (cd : Codec) (be : Backend) (f : View) (k : Key) (v : Bytes) (ttl b : Int)
    (h : Inv cd be [] f) : Inv cd (be.set k v ttl) [] (upd f k (some (v, be.now + ttl, b))) := by
  refine ⟨?_, ?_⟩
  · intro k2 it hg
    simp only [Backend.set] at hg
    rw [aGet_aPut] at hg
    simp only [upd]
    split at hg
    · rename_i hk
      simp only [Option.some.injEq] at hg
      subst hg
      exact ⟨b, by rw [if_pos hk]⟩
    · rename_i hk
      rw [if_neg hk]
      exact h.1 k2 it hg
  · intro k2 v2 a2 b2 hf
    simp only [upd] at hf
    simp only [Backend.set]
    rw [aGet_aPut]
    split at hf
    · rename_i hk
      simp only [Option.some.injEq, Prod.mk.injEq] at hf
      obtain ⟨rfl, rfl, rfl⟩ := hf
      rw [if_pos hk]
    · rename_i hk
      rw [if_neg hk]
      exact h.2 k2 v2 a2 b2 hf

theorem setL_spec (cd : Codec) (wall : Int) : ∀ (ls : List Layer) (f : View) (be : Backend) (k : Key) (v : Bytes) (ttl : Int),
    Inv cd be ls f →
    same ls (setL cd wall ls be k v ttl).1 ∧
    Inv cd (setL cd wall ls be k v ttl).2 (setL cd wall ls be k v ttl).1 (upd f k (some (v, be.now + ttl, wall + ttl)))
  | [], f, be, k, v, ttl, h => ⟨same_refl _, set_nil cd be f k v ttl _ h⟩
  | .ver n :: ls, f, be, k, v, ttl, h => by
    obtain ⟨h1, h2⟩ := setL_spec cd wall ls (tVer n f) be (addVersion n k) v ttl h
    refine ⟨same_cons rfl h1, ?_⟩
    simp only [setL, Inv]
    rw [tVer_upd]; exact h2
  | .snap :: ls, f, be, k, v, ttl, h => by
    obtain ⟨h1, h2⟩ := setL_spec cd wall ls (tSnap cd f) be k (cd.enc v) ttl h
    refine ⟨same_cons rfl h1, ?_⟩
    simp only [setL, Inv]
    rw [tSnap_upd]; exact h2
  | .lru sz d e :: ls, f, be, k, v, ttl, h => by
    obtain ⟨hE, h0, hno⟩ := h
    obtain ⟨h1, h2⟩ := setL_spec cd wall ls f be k v ttl h0
    refine ⟨same_cons rfl h1, ?_, h2, same_noLru h1 hno⟩
    intro k2 it hg
    simp only [upd]
    rcases aGet_lruAdd hg with ⟨hk, hx⟩ | ⟨hk, hx⟩
    · subst hx; exact ⟨_, by rw [if_pos hk]⟩
    · rw [if_neg hk]; exact hE k2 it hx

/-! ### Delete -/

theorem delL_now : ∀ (ls : List Layer) (be : Backend) (k : Key), (delL ls be k).2.now = be.now
  | [], _, _ => rfl
  | .ver n :: ls, be, k => delL_now ls be (addVersion n k)
  | .snap :: ls, be, k => delL_now ls be k
  | .lru _ _ _ :: ls, be, k => delL_now ls be k

theorem delL_spec (cd : Codec) : ∀ (ls : List Layer) (f : View) (be : Backend) (k : Key),
    Inv cd be ls f →
    same ls (delL ls be k).1 ∧ Inv cd (delL ls be k).2 (delL ls be k).1 (upd f k none)
  | [], f, be, k, h => by
    refine ⟨same_refl _, ?_, ?_⟩
    · intro k2 it hg
      simp only [delL, Backend.del] at hg
      rw [aGet_aDel] at hg
      simp only [upd]
      split at hg
      · simp at hg
      · rename_i hk; rw [if_neg hk]; exact h.1 k2 it hg
    · intro k2 v2 a2 b2 hf
      simp only [upd] at hf
      simp only [delL, Backend.del]
      split at hf
      · simp at hf
      · rename_i hk
        rw [aGet_aDel_ne hk]
        exact h.2 k2 v2 a2 b2 hf
  | .ver n :: ls, f, be, k, h => by
    obtain ⟨h1, h2⟩ := delL_spec cd ls (tVer n f) be (addVersion n k) h
    refine ⟨same_cons rfl h1, ?_⟩
    simp only [delL, Inv]
    rw [tVer_upd]; exact h2
  | .snap :: ls, f, be, k, h => by
    obtain ⟨h1, h2⟩ := delL_spec cd ls (tSnap cd f) be k h
    refine ⟨same_cons rfl h1, ?_⟩
    simp only [delL, Inv]
    rw [tSnap_upd]; exact h2
  | .lru sz d e :: ls, f, be, k, h => by
    obtain ⟨hE, h0, hno⟩ := h
    obtain ⟨h1, h2⟩ := delL_spec cd ls f be k h0
    refine ⟨same_cons rfl h1, ?_, h2, same_noLru h1 hno⟩
    intro k2 it hg
    rw [aGet_aDel] at hg
    simp only [upd]
    split at hg
    · simp at hg
    · rename_i hk; rw [if_neg hk]; exact hE k2 it hg

/-! ### Add -/

/-- `Add` is refused exactly when the backend holds a live entry under the key; then nothing changes
anywhere; otherwise it behaves as `Set`. -/
theorem addL_cases (cd : Codec) (wall : Int) : ∀ (ls : List Layer) (be : Backend) (k : Key) (v : Bytes) (ttl : Int),
    ((be.live (phys ls k)).isSome = true ∧ addL cd wall ls be k v ttl = (ls, be, false)) ∨
    (be.live (phys ls k) = none ∧
      addL cd wall ls be k v ttl = ((setL cd wall ls be k v ttl).1, (setL cd wall ls be k v ttl).2, true))
  | [], be, k, v, ttl => by
    simp only [phys, addL, setL, Backend.add]
    cases h : be.live k with
    | none => right; simp
    | some x => left; simp
  | .ver n :: ls, be, k, v, ttl => by
    rcases addL_cases cd wall ls be (addVersion n k) v ttl with ⟨h1, h2⟩ | ⟨h1, h2⟩
    · left; exact ⟨h1, by simp only [addL, h2]⟩
    · right; exact ⟨h1, by simp only [addL, setL, h2]⟩
  | .snap :: ls, be, k, v, ttl => by
    rcases addL_cases cd wall ls be k (cd.enc v) ttl with ⟨h1, h2⟩ | ⟨h1, h2⟩
    · left; exact ⟨h1, by simp only [addL, h2]⟩
    · right; exact ⟨h1, by simp only [addL, setL, h2]⟩
  | .lru sz d e :: ls, be, k, v, ttl => by
    rcases addL_cases cd wall ls be k v ttl with ⟨h1, h2⟩ | ⟨h1, h2⟩
    · left; exact ⟨h1, by simp [addL, h2]⟩
    · right; exact ⟨h1, by simp [addL, setL, h2]⟩

/-! ### SetMultiAsync -/

def updAll (f : View) (data : Res) (a b : Int) : View :=
  data.foldl (fun f kv => upd f kv.1 (some (kv.2, a, b))) f

theorem updAll_not_mem (a b : Int) : ∀ (data : Res) (f : View) (k : Key), k ∉ data.map (·.1) → updAll f data a b k = f k
  | [], _, _, _ => rfl
  | (k1, v1) :: rest, f, k, h => by
    simp only [List.map_cons, List.mem_cons, not_or] at h
    show updAll (upd f k1 _) rest a b k = f k
    rw [updAll_not_mem a b rest _ k h.2]
    simp [upd, h.1]

theorem updAll_mem (a b : Int) : ∀ (data : Res) (f : View) (k : Key) (v : Bytes),
    (data.map (·.1)).Nodup → (k, v) ∈ data → updAll f data a b k = some (v, a, b)
  | [], _, _, _, _, h => by simp at h
  | (k1, v1) :: rest, f, k, v, hnd, h => by
    simp only [List.map_cons, List.nodup_cons] at hnd
    show updAll (upd f k1 _) rest a b k = _
    rcases List.mem_cons.mp h with h1 | h1
    · simp only [Prod.mk.injEq] at h1
      obtain ⟨rfl, rfl⟩ := h1
      rw [updAll_not_mem a b rest _ k hnd.1]
      simp [upd]
    · exact updAll_mem a b rest _ k v hnd.2 h1

theorem tVer_updAll (n : Nat) (a b : Int) : ∀ (data : Res) (f : View),
    tVer n (updAll f data a b) = updAll (tVer n f) (data.map fun kv => (addVersion n kv.1, kv.2)) a b
  | [], _ => rfl
  | (k1, v1) :: rest, f => by
    show tVer n (updAll (upd f k1 _) rest a b) = updAll (upd (tVer n f) (addVersion n k1) _) (rest.map _) a b
    rw [tVer_updAll n a b rest, tVer_upd]

theorem tSnap_updAll (cd : Codec) (a b : Int) : ∀ (data : Res) (f : View),
    tSnap cd (updAll f data a b) = updAll (tSnap cd f) (data.map fun kv => (kv.1, cd.enc kv.2)) a b
  | [], _ => rfl
  | (k1, v1) :: rest, f => by
    show tSnap cd (updAll (upd f k1 _) rest a b) = updAll (upd (tSnap cd f) k1 _) (rest.map _) a b
    rw [tSnap_updAll cd a b rest, tSnap_upd]
    rfl

theorem setMulti_nil (cd : Codec) (ttl b : Int) : ∀ (data : Res) (be : Backend) (f : View),
    Inv cd be [] f →
    (be.setMulti data ttl).now = be.now ∧ Inv cd (be.setMulti data ttl) [] (updAll f data (be.now + ttl) b)
  | [], _, _, h => ⟨rfl, h⟩
  | (k1, v1) :: rest, be, f, h => by
    have h1 := set_nil cd be f k1 v1 ttl b h
    obtain ⟨h2, h3⟩ := setMulti_nil cd ttl b rest (be.set k1 v1 ttl) _ h1
    exact ⟨h2, h3⟩

theorem setMultiL_now (cd : Codec) (wall : Int) : ∀ (ls : List Layer) (be : Backend) (data : Res) (ttl : Int) (hs : List (List Key)),
    (setMultiL cd wall ls be data ttl hs).2.now = be.now
  | [], be, data, ttl, _ => by
    simp only [setMultiL]
    induction data generalizing be with
    | nil => rfl
    | cons x rest ih => exact ih (be.set x.1 x.2 ttl)
  | .ver n :: ls, be, data, ttl, hs => setMultiL_now cd wall ls be _ ttl hs.tail
  | .snap :: ls, be, data, ttl, hs => setMultiL_now cd wall ls be _ ttl hs.tail
  | .lru _ _ _ :: ls, be, data, ttl, hs => setMultiL_now cd wall ls be data ttl hs.tail

theorem nodup_map_addVersion (n : Nat) (data : Res) (h : (data.map (·.1)).Nodup) :
    ((data.map fun kv => (addVersion n kv.1, kv.2)).map (·.1)).Nodup := by
  have : (data.map fun kv => (addVersion n kv.1, kv.2)).map (·.1) = (data.map (·.1)).map (addVersion n) := by
    simp [List.map_map, Function.comp_def]
  rw [this]
  exact List.Pairwise.map (addVersion n) (fun a b hab hc => hab (addVersion_inj hc).2) h

theorem setMultiL_spec (cd : Codec) (wall : Int) : ∀ (ls : List Layer) (f : View) (be : Backend) (data : Res) (ttl : Int)
    (hs : List (List Key)), (data.map (·.1)).Nodup → Inv cd be ls f →
    same ls (setMultiL cd wall ls be data ttl hs).1 ∧
    Inv cd (setMultiL cd wall ls be data ttl hs).2 (setMultiL cd wall ls be data ttl hs).1
      (updAll f data (be.now + ttl) (wall + ttl))
  | [], f, be, data, ttl, hs, _, h => ⟨same_refl _, (setMulti_nil cd ttl _ data be f h).2⟩
  | .ver n :: ls, f, be, data, ttl, hs, hnd, h => by
    obtain ⟨h1, h2⟩ := setMultiL_spec cd wall ls (tVer n f) be _ ttl hs.tail (nodup_map_addVersion n data hnd) h
    refine ⟨same_cons rfl h1, ?_⟩
    simp only [setMultiL, Inv]
    rw [tVer_updAll]; exact h2
  | .snap :: ls, f, be, data, ttl, hs, hnd, h => by
    have hnd' : ((data.map fun kv => (kv.1, cd.enc kv.2)).map (·.1)).Nodup := by
      simpa [List.map_map, Function.comp_def] using hnd
    obtain ⟨h1, h2⟩ := setMultiL_spec cd wall ls (tSnap cd f) be _ ttl hs.tail hnd' h
    refine ⟨same_cons rfl h1, ?_⟩
    simp only [setMultiL, Inv]
    rw [tSnap_updAll]; exact h2
  | .lru sz d e :: ls, f, be, data, ttl, hs, hnd, h => by
    obtain ⟨hE, h0, hno⟩ := h
    obtain ⟨h1, h2⟩ := setMultiL_spec cd wall ls f be data ttl hs.tail hnd h0
    refine ⟨same_cons rfl h1, ?_, h2, same_noLru h1 hno⟩
    intro k2 it hg
    rcases aGet_lruAddAll sz (wall + ttl) _ _ k2 it hg with ⟨v, hit, hmem⟩ | ⟨hg2, hnm⟩
    · have hm : (k2, v) ∈ data := (List.mergeSort_perm data _).mem_iff.mp hmem
      subst hit
      exact ⟨_, updAll_mem _ _ data f k2 v hnd hm⟩
    · have hnm' : k2 ∉ data.map (·.1) := by
        intro hc
        apply hnm
        obtain ⟨x, hx, hxk⟩ := List.mem_map.mp hc
        exact List.mem_map.mpr ⟨x, (List.mergeSort_perm data _).mem_iff.mpr hx, hxk⟩
      rw [updAll_not_mem _ _ data f k2 hnm']
      exact hE k2 it hg2

/-! ### the backend holds a live entry under a key's physical name exactly when the judge's entry is within its TTL -/

theorem live_iff (cd : Codec) (be : Backend) : ∀ (ls : List Layer) (f : View) (k : Key), Inv cd be ls f →
    ((be.live (phys ls k)).isSome = true ↔ ∃ v a b, f k = some (v, a, b) ∧ be.now < a)
  | [], f, k, h => by
    simp only [phys, Backend.live]
    constructor
    · intro hl
      cases hg : aGet k be.items with
      | none => simp [hg] at hl
      | some it =>
        simp only [hg] at hl
        obtain ⟨b, hf⟩ := h.1 k it hg
        by_cases hlt : be.now < it.exp
        · exact ⟨_, _, _, hf, hlt⟩
        · simp [hlt] at hl
    · rintro ⟨v, a, b, hf, hlt⟩
      rw [h.2 k v a b hf]
      simp [hlt]
  | .ver n :: ls, f, k, h => by
    have := live_iff cd be ls (tVer n f) (addVersion n k) h
    rw [tVer_add] at this
    exact this
  | .snap :: ls, f, k, h => by
    have := live_iff cd be ls (tSnap cd f) k h
    simp only [phys]
    rw [this]
    constructor
    · rintro ⟨ev, a, b, hf, hlt⟩
      obtain ⟨v, hfv, _⟩ := tSnap_some hf
      exact ⟨v, a, b, hfv, hlt⟩
    · rintro ⟨v, a, b, hf, hlt⟩
      exact ⟨_, a, b, tSnap_of hf, hlt⟩
  | .lru _ _ _ :: ls, f, k, h => live_iff cd be ls f k h.2.1

end PfC19
