import Model.C19
/-! Association-list and LRU-list lemmas for C19. -/
namespace PfC19
open Common C19

variable {α : Type}

theorem aGet_aDel_self (k : Key) (m : List (Key × α)) : aGet k (aDel k m) = none := by
  induction m with
  | nil => rfl
  | cons e m ih =>
    obtain ⟨k', v⟩ := e
    simp only [aDel]
    split
    · exact ih
    · rename_i h; simp only [aGet, if_neg h, ih]

theorem aGet_aDel_ne {k k' : Key} (h : k' ≠ k) (m : List (Key × α)) : aGet k' (aDel k m) = aGet k' m := by
  induction m with
  | nil => rfl
  | cons e m ih =>
    obtain ⟨k2, v⟩ := e
    simp only [aDel]
    split
    · rename_i h2; subst h2
      simp only [aGet, if_neg (Ne.symm h), ih]
    · simp only [aGet, ih]

theorem aGet_aPut_self (k : Key) (v : α) (m : List (Key × α)) : aGet k (aPut k v m) = some v := by
  simp [aPut, aGet]

theorem aGet_aPut_ne {k k' : Key} (h : k' ≠ k) (v : α) (m : List (Key × α)) :
    aGet k' (aPut k v m) = aGet k' m := by
  simp only [aPut, aGet, if_neg (Ne.symm h), aGet_aDel_ne h]

theorem aGet_aPut (k k' : Key) (v : α) (m : List (Key × α)) :
    aGet k' (aPut k v m) = if k' = k then some v else aGet k' m := by
  split
  · rename_i h; subst h; exact aGet_aPut_self _ _ _
  · rename_i h; exact aGet_aPut_ne h _ _

theorem aGet_aDel (k k' : Key) (m : List (Key × α)) :
    aGet k' (aDel k m) = if k' = k then none else aGet k' m := by
  split
  · rename_i h; subst h; exact aGet_aDel_self _ _
  · rename_i h; exact aGet_aDel_ne h _

theorem aGet_some_mem {k : Key} {v : α} {m : List (Key × α)} (h : aGet k m = some v) : (k, v) ∈ m := by
  induction m with
  | nil => simp [aGet] at h
  | cons e m ih =>
    obtain ⟨k2, v2⟩ := e
    simp only [aGet] at h
    split at h
    · rename_i hk; subst hk; simp only [Option.some.injEq] at h; subst h; exact List.mem_cons_self
    · exact List.mem_cons_of_mem _ (ih h)

theorem mem_aDel {k : Key} {e : Key × α} {m : List (Key × α)} (h : e ∈ aDel k m) : e ∈ m ∧ e.1 ≠ k := by
  induction m with
  | nil => simp [aDel] at h
  | cons x m ih =>
    obtain ⟨k2, v2⟩ := x
    simp only [aDel] at h
    split at h
    · have := ih h; exact ⟨List.mem_cons_of_mem _ this.1, this.2⟩
    · rename_i hk
      rcases List.mem_cons.mp h with h1 | h1
      · subst h1; exact ⟨List.mem_cons_self, hk⟩
      · have := ih h1; exact ⟨List.mem_cons_of_mem _ this.1, this.2⟩

theorem mem_aPut {k : Key} {v : α} {e : Key × α} {m : List (Key × α)} (h : e ∈ aPut k v m) :
    e = (k, v) ∨ (e ∈ m ∧ e.1 ≠ k) := by
  rcases List.mem_cons.mp h with h1 | h1
  · exact Or.inl h1
  · exact Or.inr (mem_aDel h1)

theorem mem_keys_aDel {k k' : Key} {m : List (Key × α)} (h : k' ∈ m.map (·.1)) (hne : k' ≠ k) :
    k' ∈ (aDel k m).map (·.1) := by
  induction m with
  | nil => simp at h
  | cons x m ih =>
    obtain ⟨k2, v2⟩ := x
    simp only [aDel]
    simp only [List.map_cons, List.mem_cons] at h
    split
    · rename_i hk; subst hk
      rcases h with h | h
      · exact absurd h hne
      · exact ih h
    · simp only [List.map_cons, List.mem_cons]
      rcases h with h | h
      · exact Or.inl h
      · exact Or.inr (ih h)

theorem mem_keys_aPut {k k' : Key} {v : α} {m : List (Key × α)} (h : k' ∈ m.map (·.1)) :
    k' ∈ (aPut k v m).map (·.1) := by
  by_cases hk : k' = k
  · subst hk; simp [aPut]
  · simp only [aPut, List.map_cons, List.mem_cons]; exact Or.inr (mem_keys_aDel h hk)

theorem self_mem_keys_aPut (k : Key) (v : α) (m : List (Key × α)) : k ∈ (aPut k v m).map (·.1) := by
  simp [aPut]

/-- the first occurrence found in a prefix is the first occurrence of the whole list. -/
theorem aGet_take {k : Key} {v : α} (n : Nat) {m : List (Key × α)} (h : aGet k (m.take n) = some v) :
    aGet k m = some v := by
  induction m generalizing n with
  | nil => simp [aGet] at h
  | cons x m ih =>
    cases n with
    | zero => simp [aGet] at h
    | succ n =>
      obtain ⟨k2, v2⟩ := x
      simp only [List.take_succ_cons, aGet] at h ⊢
      split
      · rename_i hk; rw [if_pos hk] at h; exact h
      · rename_i hk; rw [if_neg hk] at h; exact ih n h

/-! ### LRU list -/

theorem aGet_lruAdd {sz : Nat} {k k' : Key} {it x : Item} {e : KV} (h : aGet k' (lruAdd sz k it e) = some x) :
    (k' = k ∧ x = it) ∨ (k' ≠ k ∧ aGet k' e = some x) := by
  have h1 := aGet_take sz h
  rw [aGet_aPut] at h1
  split at h1
  · rename_i hk; left; exact ⟨hk, by simpa using h1.symm⟩
  · rename_i hk; right; exact ⟨hk, h1⟩

/-- after inserting a batch, an entry is either one of the batch (with the batch deadline) or an
untouched old entry whose key is not in the batch. -/
theorem aGet_lruAddAll (sz : Nat) (X : Int) : ∀ (o : Res) (e : KV) (k : Key) (it : Item),
    aGet k (lruAddAll sz X o e) = some it →
    (∃ v, it = ⟨v, X⟩ ∧ (k, v) ∈ o) ∨ (aGet k e = some it ∧ k ∉ o.map (·.1))
  | [], e, k, it, h => Or.inr ⟨h, by simp⟩
  | (k1, v1) :: o, e, k, it, h => by
    have h' : aGet k (lruAddAll sz X o (lruAdd sz k1 ⟨v1, X⟩ e)) = some it := h
    rcases aGet_lruAddAll sz X o _ k it h' with ⟨v, hv, hm⟩ | ⟨hg, hn⟩
    · exact Or.inl ⟨v, hv, List.mem_cons_of_mem _ hm⟩
    · rcases aGet_lruAdd hg with ⟨hk, hx⟩ | ⟨hk, hx⟩
      · subst hk; exact Or.inl ⟨v1, hx, List.mem_cons_self⟩
      · refine Or.inr ⟨hx, ?_⟩
        simp only [List.map_cons, List.mem_cons, not_or]
        exact ⟨hk, hn⟩

/-- what the scan of `GetMulti` leaves: entries are old entries; hits are live old entries. -/
theorem lruScan_spec (wall : Int) (e0 : KV) : ∀ (keys : List Key) (s : Scan),
    (∀ k it, aGet k s.ents = some it → aGet k e0 = some it) →
    (∀ kv ∈ s.found, ∃ it, aGet kv.1 e0 = some it ∧ wall < it.exp ∧ it.data = kv.2) →
    (∀ k it, aGet k (lruScan wall keys s).ents = some it → aGet k e0 = some it) ∧
    (∀ kv ∈ (lruScan wall keys s).found, ∃ it, aGet kv.1 e0 = some it ∧ wall < it.exp ∧ it.data = kv.2)
  | [], s, h1, h2 => ⟨h1, h2⟩
  | k :: ks, s, h1, h2 => by
    simp only [lruScan]
    split
    · exact lruScan_spec wall e0 ks _ h1 h2
    · rename_i it hit
      split
      · rename_i hlive
        apply lruScan_spec wall e0 ks
        · intro k2 it2 hg
          rw [aGet_aPut] at hg
          split at hg
          · rename_i hk; subst hk; simp only [Option.some.injEq] at hg; subst hg; exact h1 _ _ hit
          · exact h1 _ _ hg
        · intro kv hkv
          rcases mem_aPut hkv with h | h
          · subst h; exact ⟨it, h1 _ _ hit, hlive, rfl⟩
          · exact h2 kv h.1
      · apply lruScan_spec wall e0 ks
        · intro k2 it2 hg
          rw [aGet_aDel] at hg
          split at hg
          · simp at hg
          · exact h1 _ _ hg
        · exact h2

theorem lruScan_found_keys (wall : Int) : ∀ (keys : List Key) (s : Scan) (req : List Key),
    (∀ kv ∈ s.found, kv.1 ∈ req) → (∀ k ∈ s.miss, k ∈ req) → (∀ k ∈ keys, k ∈ req) →
    (∀ kv ∈ (lruScan wall keys s).found, kv.1 ∈ req) ∧ (∀ k ∈ (lruScan wall keys s).miss, k ∈ req)
  | [], s, _, h1, h2, _ => ⟨h1, h2⟩
  | k :: ks, s, req, h1, h2, h3 => by
    have hk : k ∈ req := h3 k List.mem_cons_self
    have hks : ∀ k ∈ ks, k ∈ req := fun k hk => h3 k (List.mem_cons_of_mem _ hk)
    have hmiss : ∀ k' ∈ s.miss ++ [k], k' ∈ req := by
      intro k' hk'
      rcases List.mem_append.mp hk' with h | h
      · exact h2 _ h
      · simp only [List.mem_singleton] at h; subst h; exact hk
    simp only [lruScan]
    split
    · exact lruScan_found_keys wall ks _ req h1 hmiss hks
    · split
      · refine lruScan_found_keys wall ks _ req ?_ h2 hks
        intro kv hkv
        rcases mem_aPut hkv with h | h
        · subst h; exact hk
        · exact h1 kv h.1
      · exact lruScan_found_keys wall ks _ req h1 hmiss hks

/-- a key is absent from the layer or expired there. -/
def Gone (wall : Int) (e0 : KV) (k : Key) : Prop := aGet k e0 = none ∨ ∃ it, aGet k e0 = some it ∧ ¬ wall < it.exp

/-- keys the scan reports as missing are absent from the layer or expired there. -/
theorem lruScan_miss (wall : Int) (e0 : KV) : ∀ (keys : List Key) (s : Scan),
    (∀ k it, aGet k s.ents = some it → aGet k e0 = some it) →
    (∀ k, aGet k s.ents = none → Gone wall e0 k) →
    (∀ k ∈ s.miss, Gone wall e0 k) →
    ∀ k ∈ (lruScan wall keys s).miss, Gone wall e0 k
  | [], s, _, _, h3 => h3
  | k :: ks, s, h1, h2, h3 => by
    simp only [lruScan]
    split
    · rename_i hnone
      refine lruScan_miss wall e0 ks { s with miss := s.miss ++ [k] } h1 h2 ?_
      intro k' hk'
      rcases List.mem_append.mp hk' with h | h
      · exact h3 _ h
      · simp only [List.mem_singleton] at h; subst h; exact h2 _ hnone
    · rename_i it hit
      split
      · apply lruScan_miss wall e0 ks
        · intro k2 it2 hg
          rw [aGet_aPut] at hg
          split at hg
          · rename_i hk; subst hk; simp only [Option.some.injEq] at hg; subst hg; exact h1 _ _ hit
          · exact h1 _ _ hg
        · intro k2 hg
          rw [aGet_aPut] at hg
          split at hg
          · simp at hg
          · exact h2 _ hg
        · exact h3
      · rename_i hexp
        have hk : Gone wall e0 k := Or.inr ⟨it, h1 _ _ hit, hexp⟩
        apply lruScan_miss wall e0 ks
        · intro k2 it2 hg
          rw [aGet_aDel] at hg
          split at hg
          · simp at hg
          · exact h1 _ _ hg
        · intro k2 hg
          rw [aGet_aDel] at hg
          split at hg
          · rename_i hkk; subst hkk; exact hk
          · exact h2 _ hg
        · intro k' hk'
          rcases List.mem_append.mp hk' with h | h
          · exact h3 _ h
          · simp only [List.mem_singleton] at h; subst h; exact hk

/-- after the scan every requested key still in the layer is within its deadline. -/
theorem lruScan_live (wall : Int) : ∀ (keys : List Key) (s : Scan) (S : List Key),
    (∀ k ∈ S, ∀ it, aGet k s.ents = some it → wall < it.exp) →
    ∀ k, (k ∈ S ∨ k ∈ keys) → ∀ it, aGet k (lruScan wall keys s).ents = some it → wall < it.exp
  | [], s, S, h, k, hk, it, hg => by
    rcases hk with hk | hk
    · exact h k hk it hg
    · simp at hk
  | k0 :: ks, s, S, h, k, hk, it, hg => by
    have hk' : k ∈ k0 :: S ∨ k ∈ ks := by
      rcases hk with hk | hk
      · exact Or.inl (List.mem_cons_of_mem _ hk)
      · rcases List.mem_cons.mp hk with h1 | h1
        · exact Or.inl (h1 ▸ List.mem_cons_self)
        · exact Or.inr h1
    simp only [lruScan] at hg
    split at hg
    · rename_i hnone
      refine lruScan_live wall ks _ (k0 :: S) ?_ k hk' it hg
      intro k2 hk2 it2 hg2
      rcases List.mem_cons.mp hk2 with h1 | h1
      · subst h1; simp only [] at hg2; rw [hnone] at hg2; simp at hg2
      · exact h k2 h1 it2 hg2
    · rename_i it0 hit
      split at hg
      · rename_i hlive
        refine lruScan_live wall ks _ (k0 :: S) ?_ k hk' it hg
        intro k2 hk2 it2 hg2
        simp only [] at hg2
        rw [aGet_aPut] at hg2
        split at hg2
        · simp only [Option.some.injEq] at hg2; subst hg2; exact hlive
        · rename_i hne
          rcases List.mem_cons.mp hk2 with h1 | h1
          · exact absurd h1 hne
          · exact h k2 h1 it2 hg2
      · refine lruScan_live wall ks _ (k0 :: S) ?_ k hk' it hg
        intro k2 hk2 it2 hg2
        simp only [] at hg2
        rw [aGet_aDel] at hg2
        split at hg2
        · simp at hg2
        · rename_i hne
          rcases List.mem_cons.mp hk2 with h1 | h1
          · exact absurd h1 hne
          · exact h k2 h1 it2 hg2

/-- a pair in a result map gives its key in the key list. -/
theorem mem_keys_of_mem {k : Key} {v : α} {m : List (Key × α)} (h : (k, v) ∈ m) : k ∈ m.map (·.1) :=
  List.mem_map.mpr ⟨(k, v), h, rfl⟩

/-! ### folds of `aPut` (result maps) -/

theorem mem_foldl_aPut {β : Type} (g : β → Key × α) : ∀ (l : List β) (acc : List (Key × α)) (e : Key × α),
    e ∈ l.foldl (fun f x => aPut (g x).1 (g x).2 f) acc → e ∈ acc ∨ ∃ x ∈ l, e = g x
  | [], _, _, h => Or.inl h
  | x :: l, acc, e, h => by
    rcases mem_foldl_aPut g l _ e h with h1 | ⟨y, hy, he⟩
    · rcases mem_aPut h1 with h2 | h2
      · exact Or.inr ⟨x, List.mem_cons_self, h2⟩
      · exact Or.inl h2.1
    · exact Or.inr ⟨y, List.mem_cons_of_mem _ hy, he⟩

theorem keys_foldl_aPut {β : Type} (g : β → Key × α) : ∀ (l : List β) (acc : List (Key × α)) (k : Key),
    (k ∈ acc.map (·.1) ∨ ∃ x ∈ l, k = (g x).1) → k ∈ (l.foldl (fun f x => aPut (g x).1 (g x).2 f) acc).map (·.1)
  | [], _, _, h => by
    rcases h with h | ⟨x, hx, _⟩
    · exact h
    · simp at hx
  | x :: l, acc, k, h => by
    apply keys_foldl_aPut g l
    rcases h with h | ⟨y, hy, hk⟩
    · exact Or.inl (mem_keys_aPut h)
    · rcases List.mem_cons.mp hy with h1 | h1
      · subst h1; left; rw [hk]; exact self_mem_keys_aPut _ _ _
      · exact Or.inr ⟨y, h1, hk⟩

end PfC19
