import Proofs.C19.Get
import Proofs.C19.Store
/-! Every run of the model is accepted by the judge (C19): induction over the operation sequence. -/
namespace PfC19
open Common C19

def viewOf (σ : Spec) : View := fun k =>
  match σ.get k with
  | .present v a b _ => some (v, a, b)
  | _ => none

theorem viewOf_some {σ : Spec} {k : Key} {v : Bytes} {a b : Int} (h : viewOf σ k = some (v, a, b)) :
    ∃ fl, σ.get k = .present v a b fl := by
  unfold viewOf at h
  split at h
  · rename_i v' a' b' fl hg
    simp only [Option.some.injEq, Prod.mk.injEq] at h
    obtain ⟨rfl, rfl, rfl⟩ := h
    exact ⟨fl, hg⟩
  · simp at h

theorem viewOf_present {σ : Spec} {k : Key} {v : Bytes} {a b : Int} {fl : Option Int} (h : σ.get k = .present v a b fl) :
    viewOf σ k = some (v, a, b) := by
  simp [viewOf, h]

theorem get_aPut (σ : Spec) (k k' : Key) (x : JEnt) : Spec.get (aPut k x σ) k' = if k' = k then x else σ.get k' := by
  simp only [Spec.get, aGet_aPut]
  split <;> rfl

theorem viewOf_put_present (σ : Spec) (k : Key) (v : Bytes) (a b : Int) (fl : Option Int) :
    viewOf (aPut k (.present v a b fl) σ) = upd (viewOf σ) k (some (v, a, b)) := by
  funext k'
  by_cases hk : k' = k <;> simp [viewOf, get_aPut, upd, hk]

theorem viewOf_put_deleted (σ : Spec) (k : Key) : viewOf (aPut k .deleted σ) = upd (viewOf σ) k none := by
  funext k'
  by_cases hk : k' = k <;> simp [viewOf, get_aPut, upd, hk]

theorem viewOf_putAll (a b : Int) (fl : Option Int) : ∀ (data : Res) (σ : Spec),
    viewOf (data.foldl (fun σ kv => aPut kv.1 (.present kv.2 a b fl) σ) σ) = updAll (viewOf σ) data a b
  | [], _ => rfl
  | (k1, v1) :: rest, σ => by
    show viewOf (rest.foldl _ (aPut k1 (.present v1 a b fl) σ)) = updAll (upd (viewOf σ) k1 _) rest a b
    rw [viewOf_putAll a b fl rest, viewOf_put_present]

/-! ### the judge's back-fill bookkeeping -/

/-- the entry a returned read leaves in the judge's map, if it changes it. -/
def refillEnt (cfg : JCfg) (held : List Key) (j : JSt) (k : Key) : Option JEnt :=
  match j.spec.get k with
  | .present val dV dW _ =>
    if cfg.hasLru = true ∧ servedLocally cfg held j.W dW k = false ∧ j.V < dV
    then some (.present val dV (j.W + cfg.dttl) (some j.W)) else none
  | _ => none

theorem refill_eq (cfg : JCfg) (held : List Key) (j : JSt) (σ : Spec) (k : Key) :
    refill cfg held j σ k = match refillEnt cfg held j k with | some e => aPut k e σ | none => σ := by
  unfold refill refillEnt
  cases hg : j.spec.get k with
  | present val dV dW fl =>
    by_cases hc : cfg.hasLru = true ∧ servedLocally cfg held j.W dW k = false ∧ j.V < dV
    · simp only [if_pos hc]
    · simp only [if_neg hc]
  | never => rfl
  | deleted => rfl

def refillAll (cfg : JCfg) (held : List Key) (j : JSt) (σ : Spec) (res : Res) : Spec :=
  res.foldl (fun σ kv => refill cfg held j σ kv.1) σ

theorem refillAll_get (cfg : JCfg) (held : List Key) (j : JSt) : ∀ (res : Res) (σ : Spec) (k : Key),
    (refillAll cfg held j σ res).get k =
      if k ∈ res.map (·.1) then (refillEnt cfg held j k).getD (σ.get k) else σ.get k
  | [], _, _ => by simp [refillAll]
  | (k1, v1) :: rest, σ, k => by
    show (refillAll cfg held j (refill cfg held j σ k1) rest).get k = _
    rw [refillAll_get cfg held j rest]
    have h1 : (refill cfg held j σ k1).get k =
        if k = k1 then (refillEnt cfg held j k).getD (σ.get k) else σ.get k := by
      rw [refill_eq]
      by_cases hk : k = k1
      · subst hk
        cases refillEnt cfg held j k with
        | none => simp
        | some e => simp [get_aPut]
      · cases refillEnt cfg held j k1 with
        | none => simp [hk]
        | some e => simp [get_aPut, hk]
    simp only [List.map_cons, List.mem_cons]
    by_cases hr : k ∈ rest.map (·.1)
    · simp only [hr, if_true, or_true]
      rw [h1]
      by_cases hk : k = k1
      · simp only [hk, if_true]
        cases refillEnt cfg held j k1 <;> rfl
      · simp only [hk, if_false]
    · simp only [hr, if_false, or_false]
      exact h1

/-- the view after a read: the in-memory deadline of an entry changes exactly when the read
returned it, the in-memory layer did not serve it and it was within its TTL. -/
theorem viewOf_refillAll (cfg : JCfg) (held : List Key) (j : JSt) (res : Res) (k : Key) (v : Bytes) (a b : Int)
    (hk : viewOf j.spec k = some (v, a, b)) :
    viewOf (refillAll cfg held j j.spec res) k =
      if k ∈ res.map (·.1) ∧ cfg.hasLru = true ∧ servedLocally cfg held j.W b k = false ∧ j.V < a
      then some (v, a, j.W + cfg.dttl) else some (v, a, b) := by
  obtain ⟨fl, hg⟩ := viewOf_some hk
  unfold viewOf
  rw [refillAll_get]
  by_cases hm : k ∈ res.map (·.1)
  · simp only [hm, if_true, true_and]
    have hre : refillEnt cfg held j k =
        if cfg.hasLru = true ∧ servedLocally cfg held j.W b k = false ∧ j.V < a
        then some (.present v a (j.W + cfg.dttl) (some j.W)) else none := by
      unfold refillEnt; rw [hg]
    rw [hre]
    by_cases hc : cfg.hasLru = true ∧ servedLocally cfg held j.W b k = false ∧ j.V < a
    · rw [if_pos hc, if_pos hc]; rfl
    · rw [if_neg hc, if_neg hc]; simp [hg]
  · simp only [hm, if_false, false_and]
    simp [hg]

theorem viewOf_refillAll_none (cfg : JCfg) (held : List Key) (j : JSt) (res : Res) (k : Key)
    (hk : viewOf j.spec k = none) : viewOf (refillAll cfg held j j.spec res) k = none := by
  have hne : ∀ v a b fl, j.spec.get k ≠ .present v a b fl := by
    intro v a b fl hg
    rw [viewOf_present hg] at hk
    simp at hk
  unfold viewOf
  rw [refillAll_get]
  have hre : refillEnt cfg held j k = none := by
    unfold refillEnt
    split
    · rename_i val dV dW fl hg; exact absurd hg (hne _ _ _ _)
    · rfl
  rw [hre]
  simp only [Option.getD_none, ite_self]

/-! ### one step -/

structure Rel (cd : Codec) (cfg : JCfg) (s : St) (j : JSt) : Prop where
  inv : Inv cd s.be s.layers (viewOf j.spec)
  hV : j.V = s.be.now
  hW : j.W = s.wall
  hcfg : cfg = cfgOf s.layers

theorem cfgOf_same {ls ls' : List Layer} (h : same ls ls') : cfgOf ls' = cfgOf ls := by
  unfold cfgOf; rw [same_firstLru h, same_upVers h]

theorem checkRead_nil (cfg : JCfg) (held : List Key) (j : JSt) (keys : List Key) (k : Key) (v : Bytes) (a b : Int)
    (fl : Option Int) (hk : k ∈ keys) (hg : j.spec.get k = .present v a b fl)
    (hd : servedLocally cfg held j.W b k = true ∨ j.V < a) :
    checkRead cfg held j keys k v = [] := by
  unfold checkRead
  rw [hg]
  simp [hk, hd]

theorem liveV_iff (j : JSt) (k : Key) : liveV j k = true ↔ ∃ v a b, viewOf j.spec k = some (v, a, b) ∧ j.V < a := by
  unfold liveV viewOf
  cases hg : j.spec.get k with
  | present v dV dW fl =>
    simp only [decide_eq_true_eq, Option.some.injEq, Prod.mk.injEq]
    constructor
    · intro h; exact ⟨v, dV, dW, ⟨rfl, rfl, rfl⟩, h⟩
    · rintro ⟨_, a, _, ⟨_, rfl, _⟩, h⟩; exact h
  | never => simp
  | deleted => simp

theorem cfg_hasLru {ls : List Layer} {sz : Nat} {d : Int} (h : firstLru ls = some (sz, d)) :
    (cfgOf ls).hasLru = true ∧ (cfgOf ls).dttl = d := by
  unfold cfgOf; rw [h]; exact ⟨rfl, rfl⟩

theorem step_ok (cd : Codec) (hcd : ∀ b, cd.dec (cd.enc b) = some b) (cfg : JCfg) (s : St) (j : JSt)
    (op : Op) (hs : List (List Key)) (hr : Rel cd cfg s j) (hop : OpOk op) :
    (jstep cfg (heldKeys s.layers) j op (step cd s op hs).2).2 = [] ∧
    Rel cd cfg (step cd s op hs).1 (jstep cfg (heldKeys s.layers) j op (step cd s op hs).2).1 := by
  obtain ⟨hinv, hV, hW, hcfg⟩ := hr
  cases op with
  | set k v ttl =>
    obtain ⟨h1, h2⟩ := setL_spec cd s.wall s.layers _ s.be k v ttl hinv
    refine ⟨rfl, ?_, ?_, hW, ?_⟩
    · simp only [step, jstep]; rw [viewOf_put_present, hV, hW]; exact h2
    · simp only [step, jstep]; rw [setL_now]; exact hV
    · simp only [step]; rw [cfgOf_same h1]; exact hcfg
  | setAsync k v ttl =>
    obtain ⟨h1, h2⟩ := setL_spec cd s.wall s.layers _ s.be k v ttl hinv
    refine ⟨rfl, ?_, ?_, hW, ?_⟩
    · simp only [step, jstep]; rw [viewOf_put_present, hV, hW]; exact h2
    · simp only [step, jstep]; rw [setL_now]; exact hV
    · simp only [step]; rw [cfgOf_same h1]; exact hcfg
  | add k v ttl =>
    have hlive := live_iff cd s.be s.layers _ k hinv
    rw [← hV] at hlive
    rcases addL_cases cd s.wall s.layers s.be k v ttl with ⟨hl, h⟩ | ⟨hl, h⟩
    · have : liveV j k = true := (liveV_iff j k).mpr (hlive.mp hl)
      simp only [step, h, jstep, this, if_true]
      exact ⟨trivial, hinv, hV, hW, hcfg⟩
    · have : liveV j k = false := by
        cases hq : liveV j k with
        | false => rfl
        | true =>
          have := hlive.mpr ((liveV_iff j k).mp hq)
          rw [hl] at this; simp at this
      obtain ⟨h1, h2⟩ := setL_spec cd s.wall s.layers _ s.be k v ttl hinv
      simp only [step, h, jstep, this]
      refine ⟨by simp, ?_, ?_, hW, ?_⟩
      · rw [viewOf_put_present, hV, hW]; exact h2
      · simp only []; rw [setL_now]; exact hV
      · simp only []; rw [cfgOf_same h1]; exact hcfg
  | setMulti data ttl =>
    obtain ⟨h1, h2⟩ := setMultiL_spec cd s.wall s.layers _ s.be data ttl hs hop hinv
    refine ⟨rfl, ?_, ?_, hW, ?_⟩
    · simp only [step, jstep]; rw [viewOf_putAll, hV, hW]; exact h2
    · simp only [step, jstep]; rw [setMultiL_now]; exact hV
    · simp only [step]; rw [cfgOf_same h1]; exact hcfg
  | get keys =>
    obtain ⟨h1, h2, h3⟩ := getL_spec cd hcd s.wall s.be s.layers _ keys hs hinv
    have hserved : ∀ k b, servedLocally cfg (heldKeys s.layers) j.W b k = (holds s.layers k && decide (s.wall < b)) := by
      intro k b; rw [hcfg, hW]; exact served_eq s.layers s.wall b k
    constructor
    · simp only [step, jstep]
      rw [List.flatMap_eq_nil_iff]
      intro kv hkv
      obtain ⟨hk, a, b, hf, hor⟩ := h2 kv hkv
      obtain ⟨fl, hg⟩ := viewOf_some hf
      apply checkRead_nil cfg _ j keys kv.1 kv.2 a b fl hk hg
      rcases hor with ⟨hh, hlt⟩ | h
      · left; rw [hserved]; simp [hh, hlt]
      · right; omega
    · refine ⟨?_, hV, hW, ?_⟩
      · simp only [step, jstep]
        show Inv cd s.be _ (viewOf (refillAll cfg (heldKeys s.layers) j j.spec (getL cd s.wall s.layers s.be keys hs).2.1))
        apply h3
        · -- values and TTL deadlines are kept
          intro k
          unfold core
          cases hk : viewOf j.spec k with
          | none => rw [viewOf_refillAll_none _ _ _ _ _ hk]
          | some x =>
            obtain ⟨v, a, b⟩ := x
            rw [viewOf_refillAll _ _ _ _ _ v a b hk]
            split <;> rfl
        · intro k v a b hk hc
          rw [viewOf_refillAll _ _ _ _ _ v a b hk]
          rw [if_neg]
          rintro ⟨hm, _, hns, _⟩
          rcases hc with hc | ⟨hh, hlt⟩
          · exact hc hm
          · rw [hserved] at hns; simp [hh, hlt] at hns
        · intro sz d hfl k hm v a b hk hns
          rw [viewOf_refillAll _ _ _ _ _ v a b hk]
          obtain ⟨hL, hD⟩ := cfg_hasLru hfl
          rw [← hcfg] at hL hD
          have hns' : servedLocally cfg (heldKeys s.layers) j.W b k = false := by
            rw [hserved]
            cases hh : holds s.layers k with
            | false => rfl
            | true =>
              have : ¬ s.wall < b := fun hlt => hns ⟨hh, hlt⟩
              simp [this]
          have hlt : j.V < a := by
            obtain ⟨x, hx, hxk⟩ := List.mem_map.mp hm
            obtain ⟨_, a', b', hf, hor⟩ := h2 x hx
            rw [hxk, hk] at hf
            simp only [Option.some.injEq, Prod.mk.injEq] at hf
            obtain ⟨_, rfl, rfl⟩ := hf
            rcases hor with h | h
            · rw [hxk] at h; exact absurd h hns
            · omega
          rw [if_pos ⟨hm, hL, hns', hlt⟩, hD, hW]
      · simp only [step]; rw [cfgOf_same h1]; exact hcfg
  | del k =>
    obtain ⟨h1, h2⟩ := delL_spec cd s.layers _ s.be k hinv
    refine ⟨rfl, ?_, ?_, hW, ?_⟩
    · simp only [step, jstep]; rw [viewOf_put_deleted]; exact h2
    · simp only [step, jstep]; rw [delL_now]; exact hV
    · simp only [step]; rw [cfgOf_same h1]; exact hcfg
  | advV d =>
    refine ⟨rfl, ?_, ?_, hW, hcfg⟩
    · exact Inv_items cd s.be (s.be.advance d) rfl _ _ hinv
    · simp only [step, jstep, Backend.advance]; omega
  | advW d =>
    refine ⟨rfl, hinv, hV, ?_, hcfg⟩
    simp only [step, jstep]; omega
  | advBoth d =>
    refine ⟨rfl, ?_, ?_, ?_, hcfg⟩
    · exact Inv_items cd s.be (s.be.advance d) rfl _ _ hinv
    · simp only [step, jstep, Backend.advance]; omega
    · simp only [step, jstep]; omega
  | raw k p b t => exact absurd hop (by simp [OpOk])

/-- the judge raises nothing on any run of the model. -/
theorem runJudge_nil (cd : Codec) (hcd : ∀ b, cd.dec (cd.enc b) = some b) (cfg : JCfg) :
    ∀ (ops : List (Op × List (List Key))) (s : St) (j : JSt), Rel cd cfg s j → (∀ o ∈ ops, OpOk o.1) →
    runJudge cd cfg s j ops = []
  | [], _, _, _, _ => rfl
  | (op, hs) :: rest, s, j, hr, hok => by
    obtain ⟨h1, h2⟩ := step_ok cd hcd cfg s j op hs hr (hok (op, hs) List.mem_cons_self)
    simp only [runJudge, h1, List.nil_append]
    exact runJudge_nil cd hcd cfg rest _ _ h2 (fun o ho => hok o (List.mem_cons_of_mem _ ho))

/-! ### initial states -/

theorem noLru_oneLru : ∀ {ls}, noLru ls → oneLru ls
  | [], _ => trivial
  | .lru .. :: _, h => absurd h (by simp [noLru])
  | .ver _ :: ls, h => noLru_oneLru (ls := ls) h
  | .snap :: ls, h => noLru_oneLru (ls := ls) h

theorem tVer_empty (n : Nat) (f : View) (h : ∀ k, f k = none) : ∀ k, tVer n f k = none := by
  intro k; unfold tVer; split
  · exact h _
  · rfl

theorem tSnap_empty (cd : Codec) (f : View) (h : ∀ k, f k = none) : ∀ k, tSnap cd f k = none := by
  intro k; simp [tSnap, h k]

theorem Inv_init (cd : Codec) (be : Backend) (hbe : be.items = []) : ∀ (ls : List Layer) (f : View),
    (∀ k, f k = none) → oneLru ls → emptyLrus ls → Inv cd be ls f
  | [], f, hf, _, _ => by
    refine ⟨?_, ?_⟩
    · intro k it hg; rw [hbe] at hg; simp [aGet] at hg
    · intro k v a b h; rw [hf k] at h; simp at h
  | .ver n :: ls, f, hf, h1, h2 => Inv_init cd be hbe ls _ (tVer_empty n f hf) h1 h2
  | .snap :: ls, f, hf, h1, h2 => Inv_init cd be hbe ls _ (tSnap_empty cd f hf) h1 h2
  | .lru _ _ e :: ls, f, hf, h1, h2 => by
    refine ⟨?_, Inv_init cd be hbe ls f hf (noLru_oneLru h1) h2.2, h1⟩
    intro k it hg; rw [h2.1] at hg; simp [aGet] at hg

theorem Rel_init (cd : Codec) (ls : List Layer) (v0 w0 : Int) (h1 : oneLru ls) (h2 : emptyLrus ls) :
    Rel cd (cfgOf ls) ⟨ls, ⟨[], v0⟩, w0⟩ ⟨[], v0, w0⟩ :=
  ⟨Inv_init cd ⟨[], v0⟩ rfl ls _ (fun _ => rfl) h1 h2, rfl, rfl, rfl⟩

theorem Rel_runTo (cd : Codec) (hcd : ∀ b, cd.dec (cd.enc b) = some b) (cfg : JCfg) :
    ∀ (ops : List (Op × List (List Key))) (s : St) (j : JSt), Rel cd cfg s j → (∀ o ∈ ops, OpOk o.1) →
    Rel cd cfg (runTo cd cfg s j ops).1 (runTo cd cfg s j ops).2
  | [], _, _, hr, _ => hr
  | (op, hs) :: rest, s, j, hr, hok => by
    obtain ⟨_, h2⟩ := step_ok cd hcd cfg s j op hs hr (hok (op, hs) List.mem_cons_self)
    exact Rel_runTo cd hcd cfg rest _ _ h2 (fun o ho => hok o (List.mem_cons_of_mem _ ho))

/-- in a state related to the judge's, whatever a read returns is the judge's entry, either held by
the in-memory layer within its deadline or within its TTL on the backend's clock. -/
theorem read_sound (cd : Codec) (hcd : ∀ b, cd.dec (cd.enc b) = some b) (cfg : JCfg) (s : St) (j : JSt)
    (hr : Rel cd cfg s j) (keys : List Key) (hs : List (List Key)) :
    ∀ kv ∈ (getL cd s.wall s.layers s.be keys hs).2.1,
      kv.1 ∈ keys ∧ ∃ dV dW fl, j.spec.get kv.1 = .present kv.2 dV dW fl ∧
        ((holds s.layers kv.1 = true ∧ j.W < dW) ∨ j.V < dV) := by
  intro kv hkv
  obtain ⟨hinv, hV, hW, hcfg⟩ := hr
  obtain ⟨_, h2, _⟩ := getL_spec cd hcd s.wall s.be s.layers _ keys hs hinv
  obtain ⟨hk, a, b, hf, hor⟩ := h2 kv hkv
  obtain ⟨fl, hg⟩ := viewOf_some hf
  refine ⟨hk, a, b, fl, hg, ?_⟩
  rcases hor with ⟨hh, h⟩ | h
  · left; exact ⟨hh, by omega⟩
  · right; omega

/-- `Add` is refused exactly when the judge's entry for the key is within its TTL. -/
theorem add_sound (cd : Codec) (cfg : JCfg) (s : St) (j : JSt) (hr : Rel cd cfg s j) (k : Key) (v : Bytes) (ttl : Int) :
    (addL cd s.wall s.layers s.be k v ttl).2.2 = !liveV j k := by
  obtain ⟨hinv, hV, hW, hcfg⟩ := hr
  have hlive := live_iff cd s.be s.layers _ k hinv
  rw [← hV] at hlive
  rcases addL_cases cd s.wall s.layers s.be k v ttl with ⟨hl, h⟩ | ⟨hl, h⟩
  · rw [h, (liveV_iff j k).mpr (hlive.mp hl)]; rfl
  · rw [h]
    cases hq : liveV j k with
    | false => rfl
    | true =>
      have := hlive.mpr ((liveV_iff j k).mp hq)
      rw [hl] at this; simp at this

end PfC19
