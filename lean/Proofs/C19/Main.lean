import Proofs.C19.Get
import Proofs.C19.Store
/-! Every run of the model is accepted by the judge (C19): induction over the operation sequence. -/
namespace PfC19
open Common C19

def viewOf (σ : Spec) : View := fun k =>
  match σ.get k with
  | .present v a b => some (v, a, b)
  | _ => none

theorem viewOf_some {σ : Spec} {k : Key} {v : Bytes} {a b : Int} (h : viewOf σ k = some (v, a, b)) :
    σ.get k = .present v a b := by
  unfold viewOf at h
  split at h
  · rename_i v' a' b' hg
    simp only [Option.some.injEq, Prod.mk.injEq] at h
    obtain ⟨rfl, rfl, rfl⟩ := h
    exact hg
  · simp at h

theorem viewOf_present {σ : Spec} {k : Key} {v : Bytes} {a b : Int} (h : σ.get k = .present v a b) :
    viewOf σ k = some (v, a, b) := by
  simp [viewOf, h]

theorem get_aPut (σ : Spec) (k k' : Key) (x : JEnt) : Spec.get (aPut k x σ) k' = if k' = k then x else σ.get k' := by
  simp only [Spec.get, aGet_aPut]
  split <;> rfl

theorem viewOf_put_present (σ : Spec) (k : Key) (v : Bytes) (a b : Int) :
    viewOf (aPut k (.present v a b) σ) = upd (viewOf σ) k (some (v, a, b)) := by
  funext k'
  by_cases hk : k' = k <;> simp [viewOf, get_aPut, upd, hk]

theorem viewOf_put_deleted (σ : Spec) (k : Key) : viewOf (aPut k .deleted σ) = upd (viewOf σ) k none := by
  funext k'
  by_cases hk : k' = k <;> simp [viewOf, get_aPut, upd, hk]

theorem viewOf_putAll (a b : Int) : ∀ (data : Res) (σ : Spec),
    viewOf (data.foldl (fun σ kv => aPut kv.1 (.present kv.2 a b) σ) σ) = updAll (viewOf σ) data a b
  | [], _ => rfl
  | (k1, v1) :: rest, σ => by
    show viewOf (rest.foldl _ (aPut k1 (.present v1 a b) σ)) = updAll (upd (viewOf σ) k1 _) rest a b
    rw [viewOf_putAll a b rest, viewOf_put_present]

/-! ### the judge's back-fill bump -/

theorem le_trans {f g h : View} (h1 : le f g) (h2 : le g h) : le f h := by
  intro k v a b hf
  obtain ⟨b1, hg, hb1⟩ := h1 k v a b hf
  obtain ⟨b2, hh, hb2⟩ := h2 k v a b1 hg
  exact ⟨b2, hh, by omega⟩

theorem bump_le (cfg : JCfg) (j : JSt) (σ : Spec) (k : Key) : le (viewOf σ) (viewOf (bump cfg j σ k)) := by
  intro k' v a b hk'
  unfold bump
  split
  · rename_i val dV dW hg
    split
    · rw [viewOf_put_present]
      simp only [upd]
      split
      · rename_i hk; subst hk
        have := viewOf_present hg
        rw [this] at hk'
        simp only [Option.some.injEq, Prod.mk.injEq] at hk'
        obtain ⟨rfl, rfl, rfl⟩ := hk'
        exact ⟨_, rfl, by omega⟩
      · exact ⟨b, hk', Int.le_refl _⟩
    · exact ⟨b, hk', Int.le_refl _⟩
  · exact ⟨b, hk', Int.le_refl _⟩

theorem bump_self (cfg : JCfg) (j : JSt) (σ : Spec) (k : Key) (v : Bytes) (a b : Int)
    (hk : viewOf σ k = some (v, a, b)) (hl : cfg.hasLru = true) (hlt : j.V < a) :
    ∃ b', viewOf (bump cfg j σ k) k = some (v, a, b') ∧ j.W + cfg.dttl ≤ b' := by
  have hg := viewOf_some hk
  unfold bump
  rw [hg]
  simp only [hl, hlt, and_self, if_true]
  rw [viewOf_put_present]
  exact ⟨max b (j.W + cfg.dttl), by simp [upd], Int.le_max_right _ _⟩

def bumpAll (cfg : JCfg) (j : JSt) (σ : Spec) (res : Res) : Spec := res.foldl (fun σ kv => bump cfg j σ kv.1) σ

theorem bumpAll_le (cfg : JCfg) (j : JSt) : ∀ (res : Res) (σ : Spec), le (viewOf σ) (viewOf (bumpAll cfg j σ res))
  | [], _ => le_refl _
  | (k1, _) :: rest, σ => le_trans (bump_le cfg j σ k1) (bumpAll_le cfg j rest _)

theorem bumpAll_bumped (cfg : JCfg) (j : JSt) : ∀ (res : Res) (σ : Spec) (k : Key) (v : Bytes) (a b : Int),
    k ∈ res.map (·.1) → viewOf σ k = some (v, a, b) → cfg.hasLru = true → j.V < a →
    ∃ b', viewOf (bumpAll cfg j σ res) k = some (v, a, b') ∧ j.W + cfg.dttl ≤ b'
  | [], _, _, _, _, _, h, _, _, _ => by simp at h
  | (k1, v1) :: rest, σ, k, v, a, b, hmem, hk, hl, hlt => by
    show ∃ b', viewOf (bumpAll cfg j (bump cfg j σ k1) rest) k = _ ∧ _
    by_cases he : k = k1
    · subst he
      obtain ⟨b1, h1, h2⟩ := bump_self cfg j σ k v a b hk hl hlt
      obtain ⟨b2, h3, h4⟩ := bumpAll_le cfg j rest (bump cfg j σ k) k v a b1 h1
      exact ⟨b2, h3, by omega⟩
    · simp only [List.map_cons, List.mem_cons] at hmem
      rcases hmem with h | h
      · exact absurd h he
      · obtain ⟨b1, h1, _⟩ := bump_le cfg j σ k1 k v a b hk
        exact bumpAll_bumped cfg j rest _ k v a b1 h h1 hl hlt

/-! ### one step -/

structure Rel (cd : Codec) (cfg : JCfg) (s : St) (j : JSt) : Prop where
  inv : Inv cd s.wall s.be s.layers (viewOf j.spec)
  hV : j.V = s.be.now
  hW : j.W = s.wall
  hcfg : cfg = cfgOf s.layers

theorem cfgOf_same {ls ls' : List Layer} (h : same ls ls') : cfgOf ls' = cfgOf ls := by
  unfold cfgOf; rw [same_firstLru h]

theorem checkRead_nil (cfg : JCfg) (j : JSt) (keys : List Key) (k : Key) (v : Bytes) (a b : Int)
    (hk : k ∈ keys) (hg : j.spec.get k = .present v a b) (hd : j.V < a ∨ (cfg.hasLru = true ∧ j.W < b)) :
    checkRead cfg j keys k v = [] := by
  unfold checkRead
  rw [hg]
  simp [hk, hd]

theorem step_ok (cd : Codec) (hcd : ∀ b, cd.dec (cd.enc b) = some b) (cfg : JCfg) (s : St) (j : JSt)
    (op : Op) (hs : List (List Key)) (hr : Rel cd cfg s j) (hop : OpOk op) :
    (jstep cfg j op (step cd s op hs).2).2 = [] ∧ Rel cd cfg (step cd s op hs).1 (jstep cfg j op (step cd s op hs).2).1 := by
  obtain ⟨hinv, hV, hW, hcfg⟩ := hr
  cases op with
  | set k v ttl =>
    obtain ⟨h1, h2⟩ := setL_spec cd s.wall s.layers _ s.be k v ttl hinv
    refine ⟨rfl, ?_, ?_, hW, ?_⟩
    · simp only [step, jstep]; rw [viewOf_put_present, hV, hW]; exact h2
    · simp only [step, jstep]; rw [setL_now]; exact hV
    · simp only [step]; rw [cfgOf_same h1]; exact hcfg
  | setAsync k v ttl =>
    obtain ⟨h1, h2⟩ := setL_spec cd s.wall s.layers _ s.be k v ttl hinv
    refine ⟨rfl, ?_, ?_, hW, ?_⟩
    · simp only [step, jstep]; rw [viewOf_put_present, hV, hW]; exact h2
    · simp only [step, jstep]; rw [setL_now]; exact hV
    · simp only [step]; rw [cfgOf_same h1]; exact hcfg
  | add k v ttl =>
    rcases addL_cases cd s.wall s.layers s.be k v ttl with ⟨_, h⟩ | ⟨_, h⟩
    · simp only [step, h, jstep]
      exact ⟨trivial, hinv, hV, hW, hcfg⟩
    · obtain ⟨h1, h2⟩ := setL_spec cd s.wall s.layers _ s.be k v ttl hinv
      simp only [step, h, jstep]
      refine ⟨trivial, ?_, ?_, hW, ?_⟩
      · rw [viewOf_put_present, hV, hW]; exact h2
      · simp only []; rw [setL_now]; exact hV
      · simp only []; rw [cfgOf_same h1]; exact hcfg
  | setMulti data ttl =>
    obtain ⟨h1, h2⟩ := setMultiL_spec cd s.wall s.layers _ s.be data ttl hs hop hinv
    refine ⟨rfl, ?_, ?_, hW, ?_⟩
    · simp only [step, jstep]; rw [viewOf_putAll, hV, hW]; exact h2
    · simp only [step, jstep]; rw [setMultiL_now]; exact hV
    · simp only [step]; rw [cfgOf_same h1]; exact hcfg
  | get keys =>
    obtain ⟨h1, h2, h3⟩ := getL_spec cd hcd s.wall s.be s.layers _ keys hs hinv
    have hlru : ¬ noLru s.layers → cfg.hasLru = true := by
      intro hn
      rw [hcfg]; unfold cfgOf
      cases hf : firstLru s.layers with
      | none => exact absurd (firstLru_none_noLru hf) hn
      | some p => rfl
    constructor
    · simp only [step, jstep]
      rw [List.flatMap_eq_nil_iff]
      intro kv hkv
      obtain ⟨hk, a, b, hf, hor⟩ := h2 kv hkv
      apply checkRead_nil cfg j keys kv.1 kv.2 a b hk (viewOf_some hf)
      rcases hor with h | ⟨hn, h⟩
      · left; omega
      · right; exact ⟨hlru hn, by omega⟩
    · refine ⟨?_, hV, hW, ?_⟩
      · simp only [step, jstep]
        apply h3 _ (bumpAll_le cfg j _ _)
        intro sz d hfl k hk v a b hfk hlt
        have hc : cfg = ⟨true, d⟩ := by rw [hcfg]; unfold cfgOf; rw [hfl]
        have := bumpAll_bumped cfg j _ j.spec k v a b hk hfk (by rw [hc]) (by omega)
        rw [hc] at this ⊢
        simpa [hW] using this
      · simp only [step]; rw [cfgOf_same h1]; exact hcfg
  | del k =>
    obtain ⟨h1, h2⟩ := delL_spec cd s.wall s.layers _ s.be k hinv
    refine ⟨rfl, ?_, ?_, hW, ?_⟩
    · simp only [step, jstep]; rw [viewOf_put_deleted]; exact h2
    · simp only [step, jstep]; rw [delL_now]; exact hV
    · simp only [step]; rw [cfgOf_same h1]; exact hcfg
  | advV d =>
    refine ⟨rfl, ?_, ?_, hW, hcfg⟩
    · exact Inv_time cd s.wall s.wall s.be (s.be.advance d) rfl (by simp only [Backend.advance]; exact (by have : 0 ≤ d := hop; omega)) (Int.le_refl _) _ _ hinv
    · simp only [step, jstep, Backend.advance]; omega
  | advW d =>
    refine ⟨rfl, ?_, hV, ?_, hcfg⟩
    · exact Inv_time cd s.wall (s.wall + d) s.be s.be rfl (Int.le_refl _) (by have : 0 ≤ d := hop; omega) _ _ hinv
    · simp only [step, jstep]; omega
  | advBoth d =>
    refine ⟨rfl, ?_, ?_, ?_, hcfg⟩
    · exact Inv_time cd s.wall (s.wall + d) s.be (s.be.advance d) rfl (by simp only [Backend.advance]; exact (by have : 0 ≤ d := hop; omega)) (by have : 0 ≤ d := hop; omega) _ _ hinv
    · simp only [step, jstep, Backend.advance]; omega
    · simp only [step, jstep]; omega
  | raw k p b t => exact absurd hop (by simp [OpOk])

/-- the judge raises nothing on any run of the model. -/
theorem runJudge_nil (cd : Codec) (hcd : ∀ b, cd.dec (cd.enc b) = some b) (cfg : JCfg) :
    ∀ (ops : List (Op × List (List Key))) (s : St) (j : JSt), Rel cd cfg s j → (∀ o ∈ ops, OpOk o.1) →
    runJudge cd cfg s j ops = []
  | [], _, _, _, _ => rfl
  | (op, hs) :: rest, s, j, hr, hok => by
    obtain ⟨h1, h2⟩ := step_ok cd hcd cfg s j op hs hr (hok (op, hs) List.mem_cons_self)
    simp only [runJudge, h1, List.nil_append]
    exact runJudge_nil cd hcd cfg rest _ _ h2 (fun o ho => hok o (List.mem_cons_of_mem _ ho))

/-! ### initial states -/

theorem noLru_oneLru : ∀ {ls}, noLru ls → oneLru ls
  | [], _ => trivial
  | .lru .. :: _, h => absurd h (by simp [noLru])
  | .ver _ :: ls, h => noLru_oneLru (ls := ls) h
  | .snap :: ls, h => noLru_oneLru (ls := ls) h

theorem Inv_init (cd : Codec) (wall : Int) (be : Backend) (hbe : be.items = []) : ∀ (ls : List Layer) (f : View),
    oneLru ls → emptyLrus ls → Inv cd wall be ls f
  | [], f, _, _ => by intro k it hg; rw [hbe] at hg; simp [aGet] at hg
  | .ver n :: ls, f, h1, h2 => Inv_init cd wall be hbe ls _ h1 h2
  | .snap :: ls, f, h1, h2 => Inv_init cd wall be hbe ls _ h1 h2
  | .lru _ _ e :: ls, f, h1, h2 => by
    refine ⟨?_, Inv_init cd wall be hbe ls f (noLru_oneLru h1) h2.2, h1⟩
    intro k it hg; rw [h2.1] at hg; simp [aGet] at hg

theorem Rel_init (cd : Codec) (ls : List Layer) (v0 w0 : Int) (h1 : oneLru ls) (h2 : emptyLrus ls) :
    Rel cd (cfgOf ls) ⟨ls, ⟨[], v0⟩, w0⟩ ⟨[], v0, w0⟩ :=
  ⟨Inv_init cd w0 ⟨[], v0⟩ rfl ls _ h1 h2, rfl, rfl, rfl⟩

theorem Rel_runTo (cd : Codec) (hcd : ∀ b, cd.dec (cd.enc b) = some b) (cfg : JCfg) :
    ∀ (ops : List (Op × List (List Key))) (s : St) (j : JSt), Rel cd cfg s j → (∀ o ∈ ops, OpOk o.1) →
    Rel cd cfg (runTo cd cfg s j ops).1 (runTo cd cfg s j ops).2
  | [], _, _, hr, _ => hr
  | (op, hs) :: rest, s, j, hr, hok => by
    obtain ⟨_, h2⟩ := step_ok cd hcd cfg s j op hs hr (hok (op, hs) List.mem_cons_self)
    exact Rel_runTo cd hcd cfg rest _ _ h2 (fun o ho => hok o (List.mem_cons_of_mem _ ho))

/-- in a state related to the judge's, whatever a read returns is the judge's entry, within its deadline. -/
theorem read_sound (cd : Codec) (hcd : ∀ b, cd.dec (cd.enc b) = some b) (cfg : JCfg) (s : St) (j : JSt)
    (hr : Rel cd cfg s j) (keys : List Key) (hs : List (List Key)) :
    ∀ kv ∈ (getL cd s.wall s.layers s.be keys hs).2.1,
      kv.1 ∈ keys ∧ ∃ dV dW, j.spec.get kv.1 = .present kv.2 dV dW ∧ (j.V < dV ∨ (cfg.hasLru = true ∧ j.W < dW)) := by
  intro kv hkv
  obtain ⟨hinv, hV, hW, hcfg⟩ := hr
  obtain ⟨_, h2, _⟩ := getL_spec cd hcd s.wall s.be s.layers _ keys hs hinv
  obtain ⟨hk, a, b, hf, hor⟩ := h2 kv hkv
  refine ⟨hk, a, b, viewOf_some hf, ?_⟩
  rcases hor with h | ⟨hn, h⟩
  · left; omega
  · right
    refine ⟨?_, by omega⟩
    rw [hcfg]; unfold cfgOf
    cases hf : firstLru s.layers with
    | none => exact absurd (firstLru_none_noLru hf) hn
    | some p => rfl

end PfC19
