import Model.C19
import Proofs.C19
import Proofs.C19.Assoc
/-! The invariant tying every layer of a wrapper stack to the judge's map-with-expiry (C19).

The invariant is exact: the backend holds precisely the judge's present entries (value and TTL
deadline), and every copy in the in-memory layer is the judge's entry with the judge's in-memory
deadline. -/
namespace PfC19
open Common C19

/-- the judge's knowledge as a function: present entries `(value, dV, dW)`. -/
abbrev View := Key → Option (Bytes × Int × Int)

def upd (f : View) (k : Key) (x : Option (Bytes × Int × Int)) : View := fun k' => if k' = k then x else f k'

/-- the view of the layers below a versioned layer: physical keys carry the prefix. -/
def tVer (n : Nat) (f : View) : View := fun k' =>
  match trimPrefix (versionPrefix n) k' with
  | some k => f k
  | none => none

def encEnt (cd : Codec) : Bytes × Int × Int → Bytes × Int × Int := fun x => (cd.enc x.1, x.2.1, x.2.2)

/-- the view of the layers below a compression layer: values are encoded. -/
def tSnap (cd : Codec) (f : View) : View := fun k => (f k).map (encEnt cd)

/-- the backend holds exactly the judge's present entries (transported through the layers above);
every in-memory copy is the judge's entry with the judge's in-memory deadline. -/
def Inv (cd : Codec) (be : Backend) : List Layer → View → Prop
  | [], f =>
    (∀ k it, aGet k be.items = some it → ∃ b, f k = some (it.data, it.exp, b)) ∧
    (∀ k v a b, f k = some (v, a, b) → aGet k be.items = some ⟨v, a⟩)
  | .ver n :: ls, f => Inv cd be ls (tVer n f)
  | .snap :: ls, f => Inv cd be ls (tSnap cd f)
  | .lru _ _ e :: ls, f =>
    (∀ k it, aGet k e = some it → ∃ a, f k = some (it.data, a, it.exp)) ∧ Inv cd be ls f ∧ noLru ls

/-- value and TTL deadline, without the in-memory deadline. -/
def core (f : View) (k : Key) : Option (Bytes × Int) := (f k).map fun x => (x.1, x.2.1)

/-- `f` and `f'` know the same entries with the same TTL deadlines (in-memory deadlines may differ). -/
def sim (f f' : View) : Prop := ∀ k, core f k = core f' k

theorem sim_refl (f : View) : sim f f := fun _ => rfl

theorem core_some {f : View} {k : Key} {v : Bytes} {a : Int} : core f k = some (v, a) ↔ ∃ b, f k = some (v, a, b) := by
  unfold core
  cases hf : f k with
  | none => simp
  | some x =>
    obtain ⟨v', a', b'⟩ := x
    simp only [Option.map_some, Option.some.injEq, Prod.mk.injEq]
    constructor
    · rintro ⟨rfl, rfl⟩; exact ⟨b', rfl, rfl, rfl⟩
    · rintro ⟨b, rfl, rfl, _⟩; exact ⟨rfl, rfl⟩

theorem sim_some {f f' : View} (h : sim f f') {k : Key} {v : Bytes} {a b : Int} (hf : f k = some (v, a, b)) :
    ∃ b', f' k = some (v, a, b') := by
  have : core f k = some (v, a) := core_some.mpr ⟨b, hf⟩
  rw [h k] at this
  exact core_some.mp this

theorem sim_symm {f f' : View} (h : sim f f') : sim f' f := fun k => (h k).symm

theorem tVer_some {n : Nat} {f : View} {k' : Key} {x : Bytes × Int × Int} (h : tVer n f k' = some x) :
    ∃ k, k' = addVersion n k ∧ f k = some x := by
  unfold tVer at h
  split at h
  · rename_i k hk; exact ⟨k, trimPrefix_some hk, h⟩
  · simp at h

theorem tVer_add (n : Nat) (f : View) (k : Key) : tVer n f (addVersion n k) = f k := by
  simp [tVer, addVersion, trimPrefix_append]

theorem sim_tVer {f f' : View} (n : Nat) (h : sim f f') : sim (tVer n f) (tVer n f') := by
  intro k'
  unfold core tVer
  cases trimPrefix (versionPrefix n) k' with
  | none => rfl
  | some k => exact h k

theorem tSnap_some {cd : Codec} {f : View} {k : Key} {ev : Bytes} {a b : Int} (h : tSnap cd f k = some (ev, a, b)) :
    ∃ v, f k = some (v, a, b) ∧ cd.enc v = ev := by
  unfold tSnap at h
  cases hf : f k with
  | none => simp [hf] at h
  | some x =>
    obtain ⟨v, a', b'⟩ := x
    simp only [hf, Option.map_some, encEnt, Option.some.injEq, Prod.mk.injEq] at h
    obtain ⟨h1, h2, h3⟩ := h
    subst h2 h3
    exact ⟨v, rfl, h1⟩

theorem tSnap_of {cd : Codec} {f : View} {k : Key} {v : Bytes} {a b : Int} (h : f k = some (v, a, b)) :
    tSnap cd f k = some (cd.enc v, a, b) := by
  simp [tSnap, h, encEnt]

theorem sim_tSnap {f f' : View} (cd : Codec) (h : sim f f') : sim (tSnap cd f) (tSnap cd f') := by
  intro k
  have hk := h k
  unfold core at hk
  unfold core tSnap
  cases hf : f k with
  | none =>
    cases hf' : f' k with
    | none => rfl
    | some y => rw [hf, hf'] at hk; simp at hk
  | some x =>
    cases hf' : f' k with
    | none => rw [hf, hf'] at hk; simp at hk
    | some y =>
      rw [hf, hf'] at hk
      simp only [Option.map_some, Option.some.injEq, Prod.mk.injEq] at hk
      simp only [Option.map_some, encEnt, hk.1, hk.2]

/-- below the in-memory layer only values and TTL deadlines matter. -/
theorem Inv_sim (cd : Codec) (be : Backend) : ∀ (ls : List Layer) (f f' : View),
    noLru ls → sim f f' → Inv cd be ls f → Inv cd be ls f'
  | [], f, f', _, hs, h => by
    refine ⟨?_, ?_⟩
    · intro k it hg
      obtain ⟨b, hf⟩ := h.1 k it hg
      exact sim_some hs hf
    · intro k v a b hf'
      obtain ⟨b0, hf⟩ := sim_some (sim_symm hs) hf'
      exact h.2 k v a b0 hf
  | .ver n :: ls, f, f', hn, hs, h => Inv_sim cd be ls _ _ hn (sim_tVer n hs) h
  | .snap :: ls, f, f', hn, hs, h => Inv_sim cd be ls _ _ hn (sim_tSnap cd hs) h
  | .lru _ _ _ :: _, _, _, hn, _, _ => absurd hn (by simp [noLru])

/-- the invariant does not mention the clocks. -/
theorem Inv_items (cd : Codec) (be be' : Backend) (hi : be'.items = be.items) : ∀ (ls : List Layer) (f : View),
    Inv cd be ls f → Inv cd be' ls f
  | [], f, h => by
    refine ⟨?_, ?_⟩
    · intro k it hg; rw [hi] at hg; exact h.1 k it hg
    · intro k v a b hf; rw [hi]; exact h.2 k v a b hf
  | .ver n :: ls, f, h => Inv_items cd be be' hi ls _ h
  | .snap :: ls, f, h => Inv_items cd be be' hi ls _ h
  | .lru _ _ e :: ls, f, h => ⟨h.1, Inv_items cd be be' hi ls _ h.2.1, h.2.2⟩

/-! ### same shape -/

/-- a layer without its contents. -/
def kind : Layer → Layer
  | .lru s d _ => .lru s d []
  | .ver n => .ver n
  | .snap => .snap

def same (ls ls' : List Layer) : Prop := ls.map kind = ls'.map kind

theorem same_refl (ls : List Layer) : same ls ls := rfl

theorem same_cons {a b : Layer} {as bs : List Layer} (h1 : kind a = kind b) (h2 : same as bs) :
    same (a :: as) (b :: bs) := by
  unfold same at *; simp [h1, h2]

theorem noLru_kind : ∀ ls, noLru (ls.map kind) ↔ noLru ls
  | [] => Iff.rfl
  | .lru .. :: _ => Iff.rfl
  | .ver _ :: ls => noLru_kind ls
  | .snap :: ls => noLru_kind ls

theorem firstLru_kind : ∀ ls, firstLru (ls.map kind) = firstLru ls
  | [] => rfl
  | .lru .. :: _ => rfl
  | .ver _ :: ls => firstLru_kind ls
  | .snap :: ls => firstLru_kind ls

theorem upVers_kind : ∀ ls, upVers (ls.map kind) = upVers ls
  | [] => rfl
  | .lru .. :: _ => rfl
  | .ver n :: ls => by simp only [List.map_cons, kind, upVers, upVers_kind ls]
  | .snap :: ls => by simp only [List.map_cons, kind, upVers, upVers_kind ls]

theorem same_noLru {ls ls' : List Layer} (hs : same ls ls') (h : noLru ls) : noLru ls' := by
  rw [← noLru_kind] at h ⊢; rw [← hs]; exact h

theorem same_firstLru {ls ls' : List Layer} (hs : same ls ls') : firstLru ls' = firstLru ls := by
  rw [← firstLru_kind ls', ← firstLru_kind ls, hs]

theorem same_upVers {ls ls' : List Layer} (hs : same ls ls') : upVers ls' = upVers ls := by
  rw [← upVers_kind ls', ← upVers_kind ls, hs]

theorem noLru_firstLru : ∀ {ls}, noLru ls → firstLru ls = none
  | [], _ => rfl
  | .lru .. :: _, h => absurd h (by simp [noLru])
  | .ver _ :: ls, h => by simpa [firstLru] using noLru_firstLru (ls := ls) h
  | .snap :: ls, h => by simpa [firstLru] using noLru_firstLru (ls := ls) h

theorem firstLru_none_noLru : ∀ {ls}, firstLru ls = none → noLru ls
  | [], _ => trivial
  | .lru .. :: _, h => by simp [firstLru] at h
  | .ver _ :: ls, h => firstLru_none_noLru (ls := ls) (by simpa [firstLru] using h)
  | .snap :: ls, h => firstLru_none_noLru (ls := ls) (by simpa [firstLru] using h)

/-! ### what the in-memory layer holds -/

theorem holds_noLru : ∀ {ls} (k : Key), noLru ls → holds ls k = false
  | [], _, _ => rfl
  | .lru .. :: _, _, h => absurd h (by simp [noLru])
  | .ver n :: ls, k, h => holds_noLru (ls := ls) (addVersion n k) h
  | .snap :: ls, k, h => holds_noLru (ls := ls) k h

/-- `holds` is what the judge computes from the layer's key list and the version prefixes above it. -/
theorem holds_eq : ∀ (ls : List Layer) (k : Key), holds ls k = (heldKeys ls).contains (lruKey (upVers ls) k)
  | [], _ => rfl
  | .lru _ _ e :: _, k => rfl
  | .ver n :: ls, k => by
    simp only [holds, heldKeys, upVers, lruKey, List.foldl_cons]
    exact holds_eq ls (addVersion n k)
  | .snap :: ls, k => by
    simp only [holds, heldKeys, upVers]
    exact holds_eq ls k

theorem served_eq (ls : List Layer) (W dW : Int) (k : Key) :
    servedLocally (cfgOf ls) (heldKeys ls) W dW k = (holds ls k && decide (W < dW)) := by
  unfold servedLocally cfgOf
  cases hf : firstLru ls with
  | none => simp [holds_noLru k (firstLru_none_noLru hf)]
  | some p => simp [holds_eq]

theorem mem_keys_iff {k : Key} {e : KV} : (e.map (·.1)).contains k = true ↔ ∃ it, aGet k e = some it := by
  induction e with
  | nil => simp [aGet]
  | cons x e ih =>
    obtain ⟨k2, v2⟩ := x
    simp only [List.map_cons, List.contains_cons, Bool.or_eq_true, beq_iff_eq, aGet]
    by_cases hk : k2 = k
    · subst hk; simp
    · have : ¬ k = k2 := fun h => hk h.symm
      simp only [this, false_or, if_neg hk]
      exact ih

end PfC19
