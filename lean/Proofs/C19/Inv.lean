import Model.C19
import Proofs.C19
import Proofs.C19.Assoc
/-! The invariant tying every layer of a wrapper stack to the judge's map-with-expiry (C19). -/
namespace PfC19
open Common C19

/-- the judge's knowledge as a function: present entries `(value, dV, dW)`. -/
abbrev View := Key → Option (Bytes × Int × Int)

def upd (f : View) (k : Key) (x : Option (Bytes × Int × Int)) : View := fun k' => if k' = k then x else f k'

/-- the view of the layers below a versioned layer: physical keys carry the prefix. -/
def tVer (n : Nat) (f : View) : View := fun k' =>
  match trimPrefix (versionPrefix n) k' with
  | some k => f k
  | none => none

def encEnt (cd : Codec) : Bytes × Int × Int → Bytes × Int × Int := fun x => (cd.enc x.1, x.2.1, x.2.2)

/-- the view of the layers below a compression layer: values are encoded. -/
def tSnap (cd : Codec) (f : View) : View := fun k => (f k).map (encEnt cd)

/-- every live entry of every layer is the judge's entry for its key (transported through the
layers above) and does not outlive the judge's deadline on that layer's clock. -/
def Inv (cd : Codec) (wall : Int) (be : Backend) : List Layer → View → Prop
  | [], f => ∀ k it, aGet k be.items = some it → be.now < it.exp → ∃ a b, f k = some (it.data, a, b) ∧ it.exp ≤ a
  | .ver n :: ls, f => Inv cd wall be ls (tVer n f)
  | .snap :: ls, f => Inv cd wall be ls (tSnap cd f)
  | .lru _ _ e :: ls, f =>
    (∀ k it, aGet k e = some it → wall < it.exp → ∃ a b, f k = some (it.data, a, b) ∧ it.exp ≤ b) ∧
    Inv cd wall be ls f ∧ noLru ls

/-- `f'` knows everything `f` knows, with in-memory deadlines that are no earlier. -/
def le (f f' : View) : Prop := ∀ k v a b, f k = some (v, a, b) → ∃ b', f' k = some (v, a, b') ∧ b ≤ b'

theorem le_refl (f : View) : le f f := fun _ _ _ b h => ⟨b, h, Int.le_refl _⟩

theorem tVer_some {n : Nat} {f : View} {k' : Key} {x : Bytes × Int × Int} (h : tVer n f k' = some x) :
    ∃ k, k' = addVersion n k ∧ f k = some x := by
  unfold tVer at h
  split at h
  · rename_i k hk; exact ⟨k, trimPrefix_some hk, h⟩
  · simp at h

theorem tVer_add (n : Nat) (f : View) (k : Key) : tVer n f (addVersion n k) = f k := by
  simp [tVer, addVersion, trimPrefix_append]

theorem le_tVer {f f' : View} (n : Nat) (h : le f f') : le (tVer n f) (tVer n f') := by
  intro k v a b hk
  obtain ⟨k0, rfl, hf⟩ := tVer_some hk
  obtain ⟨b', h1, h2⟩ := h k0 v a b hf
  exact ⟨b', by rw [tVer_add]; exact h1, h2⟩

theorem tSnap_some {cd : Codec} {f : View} {k : Key} {ev : Bytes} {a b : Int} (h : tSnap cd f k = some (ev, a, b)) :
    ∃ v, f k = some (v, a, b) ∧ cd.enc v = ev := by
  unfold tSnap at h
  cases hf : f k with
  | none => simp [hf] at h
  | some x =>
    obtain ⟨v, a', b'⟩ := x
    simp only [hf, Option.map_some, encEnt, Option.some.injEq, Prod.mk.injEq] at h
    obtain ⟨h1, h2, h3⟩ := h
    subst h2 h3
    exact ⟨v, rfl, h1⟩

theorem tSnap_of {cd : Codec} {f : View} {k : Key} {v : Bytes} {a b : Int} (h : f k = some (v, a, b)) :
    tSnap cd f k = some (cd.enc v, a, b) := by
  simp [tSnap, h, encEnt]

theorem le_tSnap {f f' : View} (cd : Codec) (h : le f f') : le (tSnap cd f) (tSnap cd f') := by
  intro k ev a b hk
  obtain ⟨v, hf, rfl⟩ := tSnap_some hk
  obtain ⟨b', h1, h2⟩ := h k v a b hf
  exact ⟨b', tSnap_of h1, h2⟩

theorem Inv_mono (cd : Codec) (wall : Int) (be : Backend) : ∀ (ls : List Layer) (f f' : View),
    le f f' → Inv cd wall be ls f → Inv cd wall be ls f'
  | [], f, f', hle, h => by
    intro k it hg hl
    obtain ⟨a, b, h1, h2⟩ := h k it hg hl
    obtain ⟨b', h3, _⟩ := hle k _ a b h1
    exact ⟨a, b', h3, h2⟩
  | .ver n :: ls, f, f', hle, h => Inv_mono cd wall be ls _ _ (le_tVer n hle) h
  | .snap :: ls, f, f', hle, h => Inv_mono cd wall be ls _ _ (le_tSnap cd hle) h
  | .lru _ _ e :: ls, f, f', hle, h => by
    refine ⟨?_, Inv_mono cd wall be ls _ _ hle h.2.1, h.2.2⟩
    intro k it hg hl
    obtain ⟨a, b, h1, h2⟩ := h.1 k it hg hl
    obtain ⟨b', h3, h4⟩ := hle k _ a b h1
    exact ⟨a, b', h3, Int.le_trans h2 h4⟩

/-- clocks only move forward: fewer entries are live, the invariant survives. -/
theorem Inv_time (cd : Codec) (wall wall' : Int) (be be' : Backend) (hi : be'.items = be.items)
    (hn : be.now ≤ be'.now) (hw : wall ≤ wall') : ∀ (ls : List Layer) (f : View),
    Inv cd wall be ls f → Inv cd wall' be' ls f
  | [], f, h => by
    intro k it hg hl
    rw [hi] at hg
    exact h k it hg (by omega)
  | .ver n :: ls, f, h => Inv_time cd wall wall' be be' hi hn hw ls _ h
  | .snap :: ls, f, h => Inv_time cd wall wall' be be' hi hn hw ls _ h
  | .lru _ _ e :: ls, f, h =>
    ⟨fun k it hg hl => h.1 k it hg (by omega), Inv_time cd wall wall' be be' hi hn hw ls _ h.2.1, h.2.2⟩

/-! ### same shape -/

/-- a layer without its contents. -/
def kind : Layer → Layer
  | .lru s d _ => .lru s d []
  | .ver n => .ver n
  | .snap => .snap

def same (ls ls' : List Layer) : Prop := ls.map kind = ls'.map kind

theorem same_refl (ls : List Layer) : same ls ls := rfl

theorem same_cons {a b : Layer} {as bs : List Layer} (h1 : kind a = kind b) (h2 : same as bs) :
    same (a :: as) (b :: bs) := by
  unfold same at *; simp [h1, h2]

theorem noLru_kind : ∀ ls, noLru (ls.map kind) ↔ noLru ls
  | [] => Iff.rfl
  | .lru .. :: _ => Iff.rfl
  | .ver _ :: ls => noLru_kind ls
  | .snap :: ls => noLru_kind ls

theorem firstLru_kind : ∀ ls, firstLru (ls.map kind) = firstLru ls
  | [] => rfl
  | .lru .. :: _ => rfl
  | .ver _ :: ls => firstLru_kind ls
  | .snap :: ls => firstLru_kind ls

theorem same_noLru {ls ls' : List Layer} (hs : same ls ls') (h : noLru ls) : noLru ls' := by
  rw [← noLru_kind] at h ⊢; rw [← hs]; exact h

theorem same_firstLru {ls ls' : List Layer} (hs : same ls ls') : firstLru ls' = firstLru ls := by
  rw [← firstLru_kind ls', ← firstLru_kind ls, hs]

theorem noLru_firstLru : ∀ {ls}, noLru ls → firstLru ls = none
  | [], _ => rfl
  | .lru .. :: _, h => absurd h (by simp [noLru])
  | .ver _ :: ls, h => by simpa [firstLru] using noLru_firstLru (ls := ls) h
  | .snap :: ls, h => by simpa [firstLru] using noLru_firstLru (ls := ls) h

theorem firstLru_none_noLru : ∀ {ls}, firstLru ls = none → noLru ls
  | [], _ => trivial
  | .lru .. :: _, h => by simp [firstLru] at h
  | .ver _ :: ls, h => firstLru_none_noLru (ls := ls) (by simpa [firstLru] using h)
  | .snap :: ls, h => firstLru_none_noLru (ls := ls) (by simpa [firstLru] using h)

end PfC19
