import Proofs.C19.Multi
/-! C19 — two interleaved clients with different versions over shared lower layers: isolation.

Client A goes through `upA ++ .ver a :: low`, client B through `upB ++ .ver b :: low` (`a ≠ b`); the
private parts `upA`, `upB` and the shared part `low` are arbitrary stacks (any number of in-memory,
versioned and compression layers; in-memory layers of `low` are shared, contents included). Every
operation of B leaves A's invariant `MInv` intact with A's view unchanged: at the level of `low` all
keys B names carry the prefix `b@`, which A never names (`gVer_other`). -/

namespace C19

def Op.isClock : Op → Bool
  | .advV _ => true
  | .advW _ => true
  | .advBoth _ => true
  | _ => false

/-- two clients over one shared lower part and one backend (`false` = A, `true` = B). -/
structure S2 where
  upA : List Layer
  upB : List Layer
  low : List Layer
  be : Backend
  wall : Int

def S2.path (a b : Nat) (s : S2) (c : Bool) : List Layer :=
  if c then s.upB ++ .ver b :: s.low else s.upA ++ .ver a :: s.low

/-- client `c` performs `op` through its own path; the shared part and the backend change for both. -/
def S2.apply (cd : Codec) (a b : Nat) (s : S2) (c : Bool) (op : Op) (hs : List (List Key)) : S2 × Obs :=
  let r := step cd ⟨s.path a b c, s.be, s.wall⟩ op hs
  let n := if c then s.upB.length else s.upA.length
  ({ upA := if c then s.upA else r.1.layers.take n
     upB := if c then r.1.layers.take n else s.upB
     low := r.1.layers.drop (n + 1), be := r.1.be, wall := r.1.wall }, r.2)

/-- an interleaved run; alongside, the judge state (map-with-expiry) of client `me`, fed with `me`'s
own operations and their observed outcomes and with the clock steps — nothing of the other client. -/
def run2 (cd : Codec) (a b : Nat) (me : Bool) : S2 → JSt → List (Bool × Op × List (List Key)) → S2 × JSt
  | s, j, [] => (s, j)
  | s, j, (c, op, hs) :: rest =>
    let r := s.apply cd a b c op hs
    run2 cd a b me r.1 (if c = me ∨ op.isClock = true then (jstep ⟨false, 0, []⟩ [] j op r.2).1 else j) rest

def S2.fresh (upA upB low : List Layer) (v0 w0 : Int) : S2 := ⟨upA, upB, low, ⟨[], v0⟩, w0⟩

end C19

namespace PfC19
open Common C19

/-! ### list shape -/

theorem kind_ver {x : Layer} {n : Nat} (h : kind x = .ver n) : x = .ver n := by
  cases x <;> simp [kind] at h ⊢ <;> exact h

theorem same_split (n : Nat) (rest : List Layer) : ∀ (u L : List Layer), same (u ++ .ver n :: rest) L →
    L = L.take u.length ++ .ver n :: L.drop (u.length + 1) ∧ same u (L.take u.length) ∧ same rest (L.drop (u.length + 1))
  | [], L, h => by
    cases L with
    | nil => simp [same] at h
    | cons x L' =>
      simp only [same, List.nil_append, List.map_cons, List.cons.injEq] at h
      have hx := kind_ver h.1.symm
      subst hx
      simp only [List.length_nil, List.take_zero, List.nil_append, Nat.zero_add, List.drop_succ_cons, List.drop_zero]
      exact ⟨trivial, same_refl _, h.2⟩
  | y :: u, L, h => by
    cases L with
    | nil => simp [same] at h
    | cons x L' =>
      simp only [same, List.cons_append, List.map_cons, List.cons.injEq] at h
      obtain ⟨i1, i2, i3⟩ := same_split n rest u L' h.2
      simp only [List.length_cons, List.take_succ_cons, List.drop_succ_cons, List.cons_append]
      exact ⟨by rw [← i1], same_cons h.1 i2, i3⟩

theorem drop_append_ver (n : Nat) (rest : List Layer) : ∀ (u : List Layer), (u ++ .ver n :: rest).drop (u.length + 1) = rest
  | [] => rfl
  | _ :: u => by simp [drop_append_ver n rest u]

theorem same_append {a a' b b' : List Layer} (h1 : same a a') (h2 : same b b') : same (a ++ b) (a' ++ b') := by
  unfold same at *; simp [h1, h2]

/-- the private upper part of a client rests on whatever invariant the part below satisfies. -/
theorem MInv_append_mono (cd : Codec) (be be' : Backend) (off : Int) (tm : Bool) (rest rest' : List Layer)
    (hsame : same rest rest') :
    ∀ (up : List Layer) (f : MView) (G : Key → Prop),
    (∀ f' G', MInv cd be off tm rest f' G' → MInv cd be' off tm rest' f' G') →
    MInv cd be off tm (up ++ rest) f G → MInv cd be' off tm (up ++ rest') f G
  | [], f, G, hk, h => hk f G h
  | .ver n :: up, f, G, hk, h => MInv_append_mono cd be be' off tm rest rest' hsame up _ _ hk h
  | .snap :: up, f, G, hk, h => MInv_append_mono cd be be' off tm rest rest' hsame up _ _ hk h
  | .lru sz d e :: up, f, G, hk, h => by
    obtain ⟨hE, h0⟩ := h
    refine ⟨?_, MInv_append_mono cd be be' off tm rest rest' hsame up _ _ hk h0⟩
    have hsl := slack_same (same_append (same_refl up) hsame)
    intro k it hg
    have := hE k it hg
    simp only [List.append_eq] at this hsl ⊢
    rw [hsl]
    exact this

/-! ### operations of the other client (version `b`) seen from the shared part -/

section foreign
variable (cd : Codec) (hcd : ∀ x, cd.dec (cd.enc x) = some x) (off : Int) (tm : Bool) (b : Nat) (low : List Layer)
  (fL : MView) (GL : Key → Prop) (hG : ∀ k, GL (addVersion b k))

include hG in
theorem F_set (wall : Int) (ttl : Int) : ∀ (up : List Layer) (be : Backend) (k : Key) (v : Bytes),
    (tm = true → wall = be.now + off) → MInv cd be off tm low fL GL →
    MInv cd (setL cd wall (up ++ .ver b :: low) be k v ttl).2 off tm
      ((setL cd wall (up ++ .ver b :: low) be k v ttl).1.drop (up.length + 1)) fL GL
  | [], be, k, v, hw, h => by
    simp only [List.nil_append, setL, List.length_nil, Nat.zero_add, List.drop_succ_cons, List.drop_zero]
    exact setL_m cd wall off tm low fL fL GL be (addVersion b k) v ttl hw (fun _ _ => rfl) (Or.inl (hG k)) h
  | .ver n :: up, be, k, v, hw, h => by
    simp only [List.cons_append, setL, List.length_cons, List.drop_succ_cons]
    exact F_set wall ttl up be (addVersion n k) v hw h
  | .snap :: up, be, k, v, hw, h => by
    simp only [List.cons_append, setL, List.length_cons, List.drop_succ_cons]
    exact F_set wall ttl up be k (cd.enc v) hw h
  | .lru sz d e :: up, be, k, v, hw, h => by
    simp only [List.cons_append, setL, List.length_cons, List.drop_succ_cons]
    exact F_set wall ttl up be k v hw h

include hG in
theorem F_del : ∀ (up : List Layer) (be : Backend) (k : Key),
    MInv cd be off tm low fL GL →
    MInv cd (delL (up ++ .ver b :: low) be k).2 off tm ((delL (up ++ .ver b :: low) be k).1.drop (up.length + 1)) fL GL
  | [], be, k, h => by
    simp only [List.nil_append, delL, List.length_nil, Nat.zero_add, List.drop_succ_cons, List.drop_zero]
    exact delL_m cd off tm low fL fL GL be (addVersion b k) (fun _ _ => rfl) h
  | .ver n :: up, be, k, h => by
    simp only [List.cons_append, delL, List.length_cons, List.drop_succ_cons]
    exact F_del up be (addVersion n k) h
  | .snap :: up, be, k, h => by
    simp only [List.cons_append, delL, List.length_cons, List.drop_succ_cons]
    exact F_del up be k h
  | .lru sz d e :: up, be, k, h => by
    simp only [List.cons_append, delL, List.length_cons, List.drop_succ_cons]
    exact F_del up be k h

include hG in
theorem F_setMulti (wall : Int) (ttl : Int) : ∀ (up : List Layer) (be : Backend) (data : Res) (hs : List (List Key)),
    (tm = true → wall = be.now + off) → MInv cd be off tm low fL GL →
    MInv cd (setMultiL cd wall (up ++ .ver b :: low) be data ttl hs).2 off tm
      ((setMultiL cd wall (up ++ .ver b :: low) be data ttl hs).1.drop (up.length + 1)) fL GL
  | [], be, data, hs, hw, h => by
    simp only [List.nil_append, setMultiL, List.length_nil, Nat.zero_add, List.drop_succ_cons, List.drop_zero]
    apply setMultiL_m cd wall off tm low fL fL GL be _ ttl hs.tail hw (fun _ _ => rfl) _ h
    intro kv hkv
    obtain ⟨x, _, hxe⟩ := List.mem_map.mp hkv
    subst hxe
    exact Or.inl (hG x.1)
  | .ver n :: up, be, data, hs, hw, h => by
    simp only [List.cons_append, setMultiL, List.length_cons, List.drop_succ_cons]
    exact F_setMulti wall ttl up be _ hs.tail hw h
  | .snap :: up, be, data, hs, hw, h => by
    simp only [List.cons_append, setMultiL, List.length_cons, List.drop_succ_cons]
    exact F_setMulti wall ttl up be _ hs.tail hw h
  | .lru sz d e :: up, be, data, hs, hw, h => by
    simp only [List.cons_append, setMultiL, List.length_cons, List.drop_succ_cons]
    exact F_setMulti wall ttl up be data hs.tail hw h

include hcd in
/-- reads of the other client (its back-fills into shared in-memory layers included). -/
theorem F_get (wall : Int) (be : Backend) (hw : tm = true → wall = be.now + off) :
    ∀ (up : List Layer) (keys : List Key) (hs : List (List Key)),
    MInv cd be off tm low fL GL →
    MInv cd be off tm ((getL cd wall (up ++ .ver b :: low) be keys hs).1.drop (up.length + 1)) fL GL
  | [], keys, hs, h => by
    simp only [List.nil_append, getL, List.length_nil, Nat.zero_add, List.drop_succ_cons, List.drop_zero]
    exact (getL_m cd hcd wall off tm be hw low fL GL _ hs.tail h).2
  | .ver n :: up, keys, hs, h => by
    simp only [List.cons_append, getL, List.length_cons, List.drop_succ_cons]
    exact F_get wall be hw up _ hs.tail h
  | .snap :: up, keys, hs, h => by
    simp only [List.cons_append, getL, List.length_cons, List.drop_succ_cons]
    exact F_get wall be hw up keys hs.tail h
  | .lru sz d e :: up, keys, hs, h => by
    simp only [List.cons_append, getL, List.length_cons]
    split
    · simp only [List.drop_succ_cons]
      rw [drop_append_ver]; exact h
    · simp only [List.drop_succ_cons]
      exact F_get wall be hw up _ hs.tail h

include hcd hG in
/-- any operation of the other client through any private stack keeps this client's invariant on the
shared part, with this client's view unchanged. -/
theorem F_step (up : List Layer) (be : Backend) (wall : Int) (op : Op) (hs : List (List Key)) (hop : OpOk op)
    (hw : tm = true → wall = be.now + off) (h : MInv cd be off tm low fL GL) :
    MInv cd (step cd ⟨up ++ .ver b :: low, be, wall⟩ op hs).1.be off tm
      ((step cd ⟨up ++ .ver b :: low, be, wall⟩ op hs).1.layers.drop (up.length + 1)) fL GL := by
  cases op with
  | set k v ttl => exact F_set cd off tm b low fL GL hG wall ttl up be k v hw h
  | setAsync k v ttl => exact F_set cd off tm b low fL GL hG wall ttl up be k v hw h
  | add k v ttl =>
    simp only [step]
    rcases addL_cases cd wall (up ++ .ver b :: low) be k v ttl with ⟨_, he⟩ | ⟨_, he⟩
    · rw [he]; simp only [drop_append_ver]; exact h
    · rw [he]; exact F_set cd off tm b low fL GL hG wall ttl up be k v hw h
  | setMulti data ttl => exact F_setMulti cd off tm b low fL GL hG wall ttl up be data hs hw h
  | get keys => exact F_get cd hcd off tm b low fL GL wall be hw up keys hs h
  | del k => exact F_del cd off tm b low fL GL hG up be k h
  | advV d =>
    simp only [step, drop_append_ver]
    exact MInv_items cd be (be.advance d) off tm rfl _ _ _ h
  | advW d => simp only [step, drop_append_ver]; exact h
  | advBoth d =>
    simp only [step, drop_append_ver]
    exact MInv_items cd be (be.advance d) off tm rfl _ _ _ h
  | raw k p x t => exact absurd hop (by simp [OpOk])

end foreign

/-! ### interleaved runs -/

/-- the version of client `c`. -/
def verOf (a b : Nat) (c : Bool) : Nat := if c then b else a

def upOf (s : S2) (c : Bool) : List Layer := if c then s.upB else s.upA

theorem path_eq (a b : Nat) (s : S2) (c : Bool) : s.path a b c = upOf s c ++ .ver (verOf a b c) :: s.low := by
  cases c <;> rfl

/-- client `me`'s relation to its judge state in a two-client system (both clocks free). -/
def Rel2 (cd : Codec) (a b : Nat) (me : Bool) (s : S2) (j : JSt) : Prop :=
  MRel cd 0 false (fun _ => False) ⟨s.path a b me, s.be, s.wall⟩ j

theorem step2_ok (cd : Codec) (hcd : ∀ x, cd.dec (cd.enc x) = some x) (a b : Nat) (hab : a ≠ b) (me : Bool)
    (s : S2) (j : JSt) (c : Bool) (op : Op) (hs : List (List Key)) (hop : OpOk op) (hr : Rel2 cd a b me s j) :
    Rel2 cd a b me (s.apply cd a b c op hs).1
      (if c = me ∨ op.isClock = true then (jstep ⟨false, 0, []⟩ [] j op (s.apply cd a b c op hs).2).1 else j) := by
  have hsame := step_same cd ⟨s.path a b c, s.be, s.wall⟩ op hs
  rw [path_eq] at hsame
  obtain ⟨hsplit, _, hlow⟩ := same_split _ _ _ _ hsame
  by_cases hc : c = me
  · -- the client's own operation
    subst hc
    rw [if_pos (Or.inl rfl)]
    have h1 := mstep_ok cd hcd 0 false (fun _ => False) ⟨false, 0, []⟩ [] _ j op hs hr hop (by simp)
    have hp : ((s.apply cd a b c op hs).1).path a b c = (step cd ⟨s.path a b c, s.be, s.wall⟩ op hs).1.layers := by
      rw [path_eq]
      cases c
      · simp only [S2.apply, upOf, verOf, Bool.false_eq_true, if_false]
        simp only [path_eq, upOf, verOf, Bool.false_eq_true, if_false] at hsplit ⊢
        exact hsplit.symm
      · simp only [S2.apply, upOf, verOf, if_true]
        simp only [path_eq, upOf, verOf, if_true] at hsplit ⊢
        exact hsplit.symm
    unfold Rel2
    rw [hp]
    exact h1
  · -- an operation of the other client
    have hver : verOf a b c ≠ verOf a b me := by
      cases c <;> cases me <;> simp [verOf] at hc ⊢ <;> first | exact hab | exact fun h => hab h.symm
    have hupme : upOf (s.apply cd a b c op hs).1 me = upOf s me := by
      cases c <;> cases me <;> simp [upOf, S2.apply] at hc ⊢
    have hlow' : (s.apply cd a b c op hs).1.low =
        (step cd ⟨upOf s c ++ .ver (verOf a b c) :: s.low, s.be, s.wall⟩ op hs).1.layers.drop ((upOf s c).length + 1) := by
      cases c <;> simp [S2.apply, path_eq, upOf, verOf]
    have hbe' : (s.apply cd a b c op hs).1.be = (step cd ⟨upOf s c ++ .ver (verOf a b c) :: s.low, s.be, s.wall⟩ op hs).1.be := by
      simp only [S2.apply, path_eq]
    obtain ⟨hinv, hV, _⟩ := hr
    simp only [path_eq] at hinv
    -- the invariant of `me` on its path over the new shared part
    have hinv' : MInv cd (s.apply cd a b c op hs).1.be 0 false
        (upOf s me ++ .ver (verOf a b me) :: (s.apply cd a b c op hs).1.low) (mviewOf j.spec) (fun _ => False) := by
      rw [hlow', hbe']
      apply MInv_append_mono cd s.be _ 0 false (.ver (verOf a b me) :: s.low) _ (same_cons rfl hlow) (upOf s me) _ _ _ hinv
      intro f' G' h0
      exact F_step cd hcd 0 false (verOf a b c) s.low (mVer (verOf a b me) f') (gVer (verOf a b me) G')
        (fun k => gVer_other (fun h => hver h.symm) G' k) (upOf s c) s.be s.wall op hs hop (by simp) h0
    have hnow : (s.apply cd a b c op hs).1.be.now = s.be.now + (match op with | .advV d => d | .advBoth d => d | _ => 0) := by
      rw [hbe']
      cases op with
      | add k v ttl =>
        simp only [step]
        rcases addL_cases cd s.wall (upOf s c ++ .ver (verOf a b c) :: s.low) s.be k v ttl with ⟨_, he⟩ | ⟨_, he⟩
        · rw [he]; simp
        · rw [he]; simp [setL_now]
      | set k v ttl => simp [step, setL_now]
      | setAsync k v ttl => simp [step, setL_now]
      | setMulti data ttl => simp [step, setMultiL_now]
      | get keys => simp [step]
      | del k => simp [step, delL_now]
      | advV d => simp [step, Backend.advance]
      | advW d => simp [step]
      | advBoth d => simp [step, Backend.advance]
      | raw k p x t => exact absurd hop (by simp [OpOk])
    unfold Rel2
    rw [path_eq, hupme]
    by_cases hclk : op.isClock = true
    · rw [if_pos (Or.inr hclk)]
      cases op <;> simp [Op.isClock] at hclk
      · exact ⟨hinv', by simp only [jstep]; rw [hnow, hV], by simp⟩
      · exact ⟨hinv', by simp only [jstep]; rw [hnow, hV]; simp, by simp⟩
      · exact ⟨hinv', by simp only [jstep]; rw [hnow, hV], by simp⟩
    · rw [if_neg (by simp [hc, hclk])]
      refine ⟨hinv', ?_, by simp⟩
      rw [hnow, hV]
      cases op <;> simp [Op.isClock] at hclk ⊢

theorem run2_ok (cd : Codec) (hcd : ∀ x, cd.dec (cd.enc x) = some x) (a b : Nat) (hab : a ≠ b) (me : Bool) :
    ∀ (evs : List (Bool × Op × List (List Key))) (s : S2) (j : JSt), Rel2 cd a b me s j →
    (∀ e ∈ evs, OpOk e.2.1) → Rel2 cd a b me (run2 cd a b me s j evs).1 (run2 cd a b me s j evs).2
  | [], _, _, hr, _ => hr
  | (c, op, hs) :: rest, s, j, hr, hok =>
    run2_ok cd hcd a b hab me rest _ _
      (step2_ok cd hcd a b hab me s j c op hs (hok (c, op, hs) List.mem_cons_self) hr)
      (fun e he => hok e (List.mem_cons_of_mem _ he))

theorem emptyLrus_append : ∀ (u r : List Layer), emptyLrus u → emptyLrus r → emptyLrus (u ++ r)
  | [], _, _, h => h
  | .ver _ :: u, r, h1, h2 => emptyLrus_append u r h1 h2
  | .snap :: u, r, h1, h2 => emptyLrus_append u r h1 h2
  | .lru _ _ _ :: u, r, h1, h2 => ⟨h1.1, emptyLrus_append u r h1.2 h2⟩

theorem Rel2_init (cd : Codec) (a b : Nat) (me : Bool) (upA upB low : List Layer) (hA : emptyLrus upA) (hB : emptyLrus upB)
    (hL : emptyLrus low) (v0 w0 : Int) : Rel2 cd a b me (S2.fresh upA upB low v0 w0) (JSt.fresh v0 w0) := by
  refine ⟨MInv_init cd _ _ _ rfl _ _ _ ?_, rfl, by simp⟩
  cases me
  · exact emptyLrus_append upA (.ver a :: low) hA hL
  · exact emptyLrus_append upB (.ver b :: low) hB hL

/-- isolation: whatever client `me` reads after any interleaved run is its own last store. -/
theorem run2_read (cd : Codec) (hcd : ∀ x, cd.dec (cd.enc x) = some x) (a b : Nat) (hab : a ≠ b) (me : Bool)
    (upA upB low : List Layer) (hA : emptyLrus upA) (hB : emptyLrus upB) (hL : emptyLrus low) (v0 w0 : Int)
    (evs : List (Bool × Op × List (List Key))) (hok : ∀ e ∈ evs, OpOk e.2.1) (keys : List Key) (hs : List (List Key)) :
    ∀ kv ∈ (getL cd (run2 cd a b me (S2.fresh upA upB low v0 w0) (JSt.fresh v0 w0) evs).1.wall
        ((run2 cd a b me (S2.fresh upA upB low v0 w0) (JSt.fresh v0 w0) evs).1.path a b me)
        (run2 cd a b me (S2.fresh upA upB low v0 w0) (JSt.fresh v0 w0) evs).1.be keys hs).2.1,
      kv.1 ∈ keys ∧ ∃ dV dW fl,
        (run2 cd a b me (S2.fresh upA upB low v0 w0) (JSt.fresh v0 w0) evs).2.spec.get kv.1 = .present kv.2 dV dW fl := by
  intro kv hkv
  have hr := run2_ok cd hcd a b hab me evs _ _ (Rel2_init cd a b me upA upB low hA hB hL v0 w0) hok
  obtain ⟨h1, _⟩ := getL_m cd hcd _ 0 false _ (by simp) _ _ _ keys hs hr.inv
  obtain ⟨hk, hor⟩ := h1 kv hkv
  rcases hor with h | ⟨x, hf, _⟩
  · exact absurd h id
  · obtain ⟨y, fl, hg⟩ := mviewOf_some hf
    exact ⟨hk, x, y, fl, hg⟩

end PfC19
