import Proofs.C19.Inv
/-! `GetMultiWithError` through a stack: soundness of the result and preservation of the invariant. -/
namespace PfC19
open Common C19

theorem live_spec {be : Backend} {k : Key} {v : Bytes} (h : be.live k = some v) :
    ∃ it, aGet k be.items = some it ∧ be.now < it.exp ∧ it.data = v := by
  unfold Backend.live at h
  split at h
  · rename_i it hit
    split at h
    · rename_i hl; exact ⟨it, hit, hl, by simpa using h⟩
    · simp at h
  · simp at h

theorem getMulti_mem (be : Backend) : ∀ (keys : List Key) (acc : Res) (kv : Key × Bytes),
    kv ∈ keys.foldl (fun acc k => match be.live k with | some v => aPut k v acc | none => acc) acc →
    kv ∈ acc ∨ (kv.1 ∈ keys ∧ be.live kv.1 = some kv.2)
  | [], _, _, h => Or.inl h
  | k :: ks, acc, kv, h => by
    simp only [List.foldl_cons] at h
    rcases getMulti_mem be ks _ kv h with h1 | ⟨h1, h2⟩
    · cases hl : be.live k with
      | none => rw [hl] at h1; exact Or.inl h1
      | some v =>
        rw [hl] at h1
        rcases mem_aPut h1 with h3 | h3
        · subst h3; exact Or.inr ⟨List.mem_cons_self, hl⟩
        · exact Or.inl h3.1
    · exact Or.inr ⟨List.mem_cons_of_mem _ h1, h2⟩

theorem mem_decodeAll {cd : Codec} {r : Res} {kv : Key × Bytes} (h : kv ∈ decodeAll cd r) :
    ∃ ev, (kv.1, ev) ∈ r ∧ cd.dec ev = some kv.2 := by
  unfold decodeAll at h
  obtain ⟨x, hx, hd⟩ := List.mem_filterMap.mp h
  cases hdec : cd.dec x.2 with
  | none => simp [hdec] at hd
  | some v =>
    simp only [hdec, Option.map_some, Option.some.injEq] at hd
    subst hd
    exact ⟨x.2, hx, hdec⟩

theorem decodeAll_mem {cd : Codec} {r : Res} {k : Key} {ev v : Bytes} (h : (k, ev) ∈ r) (hd : cd.dec ev = some v) :
    (k, v) ∈ decodeAll cd r := by
  unfold decodeAll
  exact List.mem_filterMap.mpr ⟨(k, ev), h, by simp [hd]⟩

theorem mem_orderBy {hint : List Key} {data : Res} {kv : Key × Bytes} : kv ∈ orderBy hint data ↔ kv ∈ data :=
  (List.mergeSort_perm data _).mem_iff

/-- the three facts about one `GetMultiWithError` that everything else rests on. -/
def GetSpec (cd : Codec) (wall : Int) (be : Backend) (ls : List Layer) (f : View) (keys : List Key)
    (r : List Layer × Res × Bool) : Prop :=
  same ls r.1 ∧
  (∀ kv ∈ r.2.1, kv.1 ∈ keys ∧ ∃ a b, f kv.1 = some (kv.2, a, b) ∧ (be.now < a ∨ (¬ noLru ls ∧ wall < b))) ∧
  (∀ f', le f f' →
    (∀ sz d, firstLru ls = some (sz, d) → ∀ k ∈ r.2.1.map (·.1), ∀ v a b, f k = some (v, a, b) → be.now < a →
      ∃ b', f' k = some (v, a, b') ∧ wall + d ≤ b') →
    Inv cd wall be r.1 f')

theorem getL_spec (cd : Codec) (hcd : ∀ b, cd.dec (cd.enc b) = some b) (wall : Int) (be : Backend) :
    ∀ (ls : List Layer) (f : View) (keys : List Key) (hs : List (List Key)),
    Inv cd wall be ls f → GetSpec cd wall be ls f keys (getL cd wall ls be keys hs)
  | [], f, keys, hs, hinv => by
    refine ⟨same_refl _, ?_, ?_⟩
    · intro kv hkv
      simp only [getL, Backend.getMulti] at hkv
      rcases getMulti_mem be keys [] kv hkv with h | ⟨h1, h2⟩
      · simp at h
      · obtain ⟨it, hg, hl, hd⟩ := live_spec h2
        obtain ⟨a, b, hf, hle⟩ := hinv _ it hg hl
        exact ⟨h1, a, b, by rw [← hd]; exact hf, Or.inl (by omega)⟩
    · intro f' hle _
      exact Inv_mono cd wall be [] f f' hle hinv
  | .ver n :: ls, f, keys, hs, hinv => by
    have ih := getL_spec cd hcd wall be ls (tVer n f) (keys.map (addVersion n)) hs.tail hinv
    obtain ⟨ih1, ih2, ih3⟩ := ih
    -- members of the lower result are versioned requested keys
    have hlow : ∀ x ∈ (getL cd wall ls be (keys.map (addVersion n)) hs.tail).2.1,
        ∃ k0, k0 ∈ keys ∧ x.1 = addVersion n k0 ∧ ∃ a b, f k0 = some (x.2, a, b) ∧ (be.now < a ∨ (¬ noLru ls ∧ wall < b)) := by
      intro x hx
      obtain ⟨hk, a, b, hf, hor⟩ := ih2 x hx
      obtain ⟨k0, hk0, hk1⟩ := List.mem_map.mp hk
      refine ⟨k0, hk0, hk1.symm, a, b, ?_, hor⟩
      rw [← hk1, tVer_add] at hf; exact hf
    refine ⟨same_cons rfl ih1, ?_, ?_⟩
    · intro kv hkv
      simp only [getL] at hkv
      rcases mem_foldl_aPut (fun (x : Key × Bytes) => (removeVersion n x.1, x.2)) _ [] kv hkv with h | ⟨x, hx, he⟩
      · simp at h
      · obtain ⟨k0, hk0, hk1, a, b, hf, hor⟩ := hlow x hx
        subst he
        simp only [hk1, removeVersion_addVersion]
        exact ⟨hk0, a, b, hf, hor⟩
    · intro f' hle hb
      simp only [getL]
      apply ih3 (tVer n f') (le_tVer n hle)
      intro sz d hfl k hk v a b hfk hlt
      obtain ⟨x, hx, hxk⟩ := List.mem_map.mp hk
      obtain ⟨k0, _, hk1, _⟩ := hlow x hx
      have hkk : k = addVersion n k0 := by rw [← hxk, hk1]
      subst hkk
      rw [tVer_add] at hfk ⊢
      apply hb sz d (by simpa [firstLru] using hfl) k0 _ v a b hfk hlt
      simp only [getL]
      apply keys_foldl_aPut (fun (x : Key × Bytes) => (removeVersion n x.1, x.2))
      exact Or.inr ⟨x, hx, by simp [hk1, removeVersion_addVersion]⟩
  | .snap :: ls, f, keys, hs, hinv => by
    have ih := getL_spec cd hcd wall be ls (tSnap cd f) keys hs.tail hinv
    obtain ⟨ih1, ih2, ih3⟩ := ih
    refine ⟨same_cons rfl ih1, ?_, ?_⟩
    · intro kv hkv
      simp only [getL] at hkv
      obtain ⟨ev, hev, hdec⟩ := mem_decodeAll hkv
      obtain ⟨hk, a, b, hf, hor⟩ := ih2 _ hev
      obtain ⟨v, hfv, henc⟩ := tSnap_some hf
      have : kv.2 = v := by
        have := hcd v
        simp only at henc
        rw [henc, hdec] at this
        simpa using this
      exact ⟨hk, a, b, by rw [this]; exact hfv, hor⟩
    · intro f' hle hb
      simp only [getL]
      apply ih3 (tSnap cd f') (le_tSnap cd hle)
      intro sz d hfl k hk ev a b hfk hlt
      obtain ⟨x, hx, hxk⟩ := List.mem_map.mp hk
      obtain ⟨_, a', b', hf2, _⟩ := ih2 x hx
      rw [hxk, hfk] at hf2
      obtain ⟨v, hfv, henc⟩ := tSnap_some hfk
      have hxe : x.2 = ev := by
        simp only [Option.some.injEq, Prod.mk.injEq] at hf2; exact hf2.1.symm
      have hmem : (k, v) ∈ decodeAll cd (getL cd wall ls be keys hs.tail).2.1 := by
        apply decodeAll_mem (ev := ev)
        · rw [← hxe, ← hxk]; exact hx
        · rw [← henc]; exact hcd v
      obtain ⟨b'', h1, h2⟩ := hb sz d (by simpa [firstLru] using hfl) k
        (by simp only [getL]; exact List.mem_map.mpr ⟨(k, v), hmem, rfl⟩) v a b hfv hlt
      exact ⟨b'', by rw [← henc]; exact tSnap_of h1, h2⟩
  | .lru sz d e :: ls, f, keys, hs, hinv => by
    obtain ⟨hE, hinv0, hno⟩ := hinv
    have hsc := lruScan_spec wall e keys ⟨e, [], []⟩ (fun _ _ h => h) (by simp)
    have hsk := lruScan_found_keys wall keys ⟨e, [], []⟩ keys (by simp) (by simp) (fun _ h => h)
    obtain ⟨hs1, hs2⟩ := hsc
    obtain ⟨hk1, hk2⟩ := hsk
    -- a hit is a live local entry
    have hfound : ∀ kv ∈ (lruScan wall keys ⟨e, [], []⟩).found,
        kv.1 ∈ keys ∧ ∃ a b, f kv.1 = some (kv.2, a, b) ∧ (be.now < a ∨ (¬ noLru (.lru sz d e :: ls) ∧ wall < b)) := by
      intro kv hkv
      obtain ⟨it, hg, hl, hd⟩ := hs2 kv hkv
      obtain ⟨a, b, hf, hle⟩ := hE _ it hg hl
      exact ⟨hk1 kv hkv, a, b, by rw [← hd]; exact hf, Or.inr ⟨by simp [noLru], by omega⟩⟩
    have hold : ∀ f', le f f' → ∀ k it, aGet k (lruScan wall keys ⟨e, [], []⟩).ents = some it → wall < it.exp →
        ∃ a b, f' k = some (it.data, a, b) ∧ it.exp ≤ b := by
      intro f' hle k it hg hl
      obtain ⟨a, b, hf, hle2⟩ := hE k it (hs1 k it hg) hl
      obtain ⟨b', h1, h2⟩ := hle k _ a b hf
      exact ⟨a, b', h1, by omega⟩
    by_cases hm : (lruScan wall keys ⟨e, [], []⟩).miss.isEmpty = true
    · have hr : getL cd wall (.lru sz d e :: ls) be keys hs =
          (.lru sz d (lruScan wall keys ⟨e, [], []⟩).ents :: ls, (lruScan wall keys ⟨e, [], []⟩).found, false) := by
        simp only [getL, hm, if_true]
      rw [hr]
      refine ⟨same_cons rfl (same_refl _), hfound, ?_⟩
      intro f' hle _
      exact ⟨hold f' hle, Inv_mono cd wall be ls f f' hle hinv0, hno⟩
    · have hr : getL cd wall (.lru sz d e :: ls) be keys hs =
          (.lru sz d (lruAddAll sz (wall + d) (orderBy (hs.headD []) (getL cd wall ls be (lruScan wall keys ⟨e, [], []⟩).miss hs.tail).2.1)
              (lruScan wall keys ⟨e, [], []⟩).ents) :: (getL cd wall ls be (lruScan wall keys ⟨e, [], []⟩).miss hs.tail).1,
            (orderBy (hs.headD []) (getL cd wall ls be (lruScan wall keys ⟨e, [], []⟩).miss hs.tail).2.1).foldl
              (fun f kv => aPut kv.1 kv.2 f) (lruScan wall keys ⟨e, [], []⟩).found,
            (getL cd wall ls be (lruScan wall keys ⟨e, [], []⟩).miss hs.tail).2.2) := by
        simp only [getL, hm]
        rfl
      rw [hr]
      have ih := getL_spec cd hcd wall be ls f (lruScan wall keys ⟨e, [], []⟩).miss hs.tail hinv0
      obtain ⟨ih1, ih2, ih3⟩ := ih
      -- what came from below is live in the backend
      have hbelow : ∀ x ∈ orderBy (hs.headD []) (getL cd wall ls be (lruScan wall keys ⟨e, [], []⟩).miss hs.tail).2.1,
          x.1 ∈ keys ∧ ∃ a b, f x.1 = some (x.2, a, b) ∧ be.now < a := by
        intro x hx
        obtain ⟨hk, a, b, hf, hor⟩ := ih2 x (mem_orderBy.mp hx)
        refine ⟨hk2 _ hk, a, b, hf, ?_⟩
        rcases hor with h | h
        · exact h
        · exact absurd hno h.1
      refine ⟨same_cons rfl ih1, ?_, ?_⟩
      · intro kv hkv
        rcases mem_foldl_aPut (fun (x : Key × Bytes) => x) _ _ kv hkv with h | ⟨x, hx, he⟩
        · exact hfound kv h
        · subst he
          obtain ⟨hk, a, b, hf, hlt⟩ := hbelow kv hx
          exact ⟨hk, a, b, hf, Or.inl hlt⟩
      · intro f' hle hb
        refine ⟨?_, ?_, same_noLru ih1 hno⟩
        · intro k it hg hl
          rcases aGet_lruAddAll sz (wall + d) _ _ k it hg with ⟨v, hit, hmem⟩ | ⟨hg2, _⟩
          · obtain ⟨_, a, b, hf, hlt⟩ := hbelow (k, v) hmem
            have hkeys : k ∈ ((orderBy (hs.headD []) (getL cd wall ls be (lruScan wall keys ⟨e, [], []⟩).miss hs.tail).2.1).foldl
                (fun f kv => aPut kv.1 kv.2 f) (lruScan wall keys ⟨e, [], []⟩).found).map (·.1) :=
              keys_foldl_aPut (fun (x : Key × Bytes) => x) _ _ k (Or.inr ⟨(k, v), hmem, rfl⟩)
            obtain ⟨b', h1, h2⟩ := hb sz d rfl k hkeys v a b hf hlt
            subst hit
            exact ⟨a, b', h1, h2⟩
          · exact hold f' hle k it hg2 hl
        · apply ih3 f' hle
          intro sz' d' hfl
          rw [noLru_firstLru hno] at hfl
          simp at hfl

end PfC19
