import Proofs.C19.Inv
/-! `GetMultiWithError` through a stack: soundness of the result and preservation of the invariant. -/
namespace PfC19
open Common C19

theorem live_spec {be : Backend} {k : Key} {v : Bytes} (h : be.live k = some v) :
    ∃ it, aGet k be.items = some it ∧ be.now < it.exp ∧ it.data = v := by
  unfold Backend.live at h
  split at h
  · rename_i it hit
    split at h
    · rename_i hl; exact ⟨it, hit, hl, by simpa using h⟩
    · simp at h
  · simp at h

theorem getMulti_mem (be : Backend) : ∀ (keys : List Key) (acc : Res) (kv : Key × Bytes),
    kv ∈ keys.foldl (fun acc k => match be.live k with | some v => aPut k v acc | none => acc) acc →
    kv ∈ acc ∨ (kv.1 ∈ keys ∧ be.live kv.1 = some kv.2)
  | [], _, _, h => Or.inl h
  | k :: ks, acc, kv, h => by
    simp only [List.foldl_cons] at h
    rcases getMulti_mem be ks _ kv h with h1 | ⟨h1, h2⟩
    · cases hl : be.live k with
      | none => rw [hl] at h1; exact Or.inl h1
      | some v =>
        rw [hl] at h1
        rcases mem_aPut h1 with h3 | h3
        · subst h3; exact Or.inr ⟨List.mem_cons_self, hl⟩
        · exact Or.inl h3.1
    · exact Or.inr ⟨List.mem_cons_of_mem _ h1, h2⟩

theorem mem_decodeAll {cd : Codec} {r : Res} {kv : Key × Bytes} (h : kv ∈ decodeAll cd r) :
    ∃ ev, (kv.1, ev) ∈ r ∧ cd.dec ev = some kv.2 := by
  unfold decodeAll at h
  obtain ⟨x, hx, hd⟩ := List.mem_filterMap.mp h
  cases hdec : cd.dec x.2 with
  | none => simp [hdec] at hd
  | some v =>
    simp only [hdec, Option.map_some, Option.some.injEq] at hd
    subst hd
    exact ⟨x.2, hx, hdec⟩

theorem decodeAll_mem {cd : Codec} {r : Res} {k : Key} {ev v : Bytes} (h : (k, ev) ∈ r) (hd : cd.dec ev = some v) :
    (k, v) ∈ decodeAll cd r := by
  unfold decodeAll
  exact List.mem_filterMap.mpr ⟨(k, ev), h, by simp [hd]⟩

theorem mem_orderBy {hint : List Key} {data : Res} {kv : Key × Bytes} : kv ∈ orderBy hint data ↔ kv ∈ data :=
  (List.mergeSort_perm data _).mem_iff

/-- keys of a result map built by folding `aPut`. -/
theorem keys_of_foldl_aPut {β : Type} (g : β → Key × Bytes) (l : List β) (acc : Res) (k : Key)
    (h : k ∈ (l.foldl (fun f x => aPut (g x).1 (g x).2 f) acc).map (·.1)) :
    k ∈ acc.map (·.1) ∨ ∃ x ∈ l, k = (g x).1 := by
  obtain ⟨e, he, hk⟩ := List.mem_map.mp h
  rcases mem_foldl_aPut g l acc e he with h1 | ⟨x, hx, hex⟩
  · exact Or.inl (List.mem_map.mpr ⟨e, h1, hk⟩)
  · exact Or.inr ⟨x, hx, by rw [← hk, hex]⟩

/-- the three facts about one `GetMultiWithError` that everything else rests on: the shape is kept;
whatever is returned is the judge's entry, either held by the in-memory layer within its deadline or
within its TTL in the backend; and the invariant holds again for every view `f'` that keeps values
and TTL deadlines, keeps the in-memory deadline of every entry that was not fetched from below, and
gives every entry fetched from below the deadline `wall + default retention`. -/
def GetSpec (cd : Codec) (wall : Int) (be : Backend) (ls : List Layer) (f : View) (keys : List Key)
    (r : List Layer × Res × Bool) : Prop :=
  same ls r.1 ∧
  (∀ kv ∈ r.2.1, kv.1 ∈ keys ∧ ∃ a b, f kv.1 = some (kv.2, a, b) ∧ ((holds ls kv.1 = true ∧ wall < b) ∨ be.now < a)) ∧
  (∀ f', sim f f' →
    (∀ k v a b, f k = some (v, a, b) → (k ∉ r.2.1.map (·.1) ∨ (holds ls k = true ∧ wall < b)) → f' k = some (v, a, b)) →
    (∀ sz d, firstLru ls = some (sz, d) → ∀ k ∈ r.2.1.map (·.1), ∀ v a b, f k = some (v, a, b) →
      ¬ (holds ls k = true ∧ wall < b) → f' k = some (v, a, wall + d)) →
    Inv cd be r.1 f')

theorem getL_spec (cd : Codec) (hcd : ∀ b, cd.dec (cd.enc b) = some b) (wall : Int) (be : Backend) :
    ∀ (ls : List Layer) (f : View) (keys : List Key) (hs : List (List Key)),
    Inv cd be ls f → GetSpec cd wall be ls f keys (getL cd wall ls be keys hs)
  | [], f, keys, hs, hinv => by
    refine ⟨same_refl _, ?_, ?_⟩
    · intro kv hkv
      simp only [getL, Backend.getMulti] at hkv
      rcases getMulti_mem be keys [] kv hkv with h | ⟨h1, h2⟩
      · simp at h
      · obtain ⟨it, hg, hl, hd⟩ := live_spec h2
        obtain ⟨b, hf⟩ := hinv.1 _ it hg
        exact ⟨h1, it.exp, b, by rw [← hd]; exact hf, Or.inr hl⟩
    · intro f' hsim _ _
      exact Inv_sim cd be [] f f' trivial hsim hinv
  | .ver n :: ls, f, keys, hs, hinv => by
    have ih := getL_spec cd hcd wall be ls (tVer n f) (keys.map (addVersion n)) hs.tail hinv
    obtain ⟨ih1, ih2, ih3⟩ := ih
    -- members of the lower result are versioned requested keys
    have hlow : ∀ x ∈ (getL cd wall ls be (keys.map (addVersion n)) hs.tail).2.1,
        ∃ k0, k0 ∈ keys ∧ x.1 = addVersion n k0 ∧ ∃ a b, f k0 = some (x.2, a, b) ∧
          ((holds (.ver n :: ls) k0 = true ∧ wall < b) ∨ be.now < a) := by
      intro x hx
      obtain ⟨hk, a, b, hf, hor⟩ := ih2 x hx
      obtain ⟨k0, hk0, hk1⟩ := List.mem_map.mp hk
      refine ⟨k0, hk0, hk1.symm, a, b, ?_, ?_⟩
      · rw [← hk1, tVer_add] at hf; exact hf
      · rw [← hk1] at hor; exact hor
    -- the upper result keys are exactly the lower ones without the prefix
    have hup : ∀ k0, k0 ∈ (getL cd wall (.ver n :: ls) be keys hs).2.1.map (·.1) ↔
        addVersion n k0 ∈ (getL cd wall ls be (keys.map (addVersion n)) hs.tail).2.1.map (·.1) := by
      intro k0
      constructor
      · intro h
        simp only [getL] at h
        rcases keys_of_foldl_aPut (fun (x : Key × Bytes) => (removeVersion n x.1, x.2)) _ [] k0 h with h1 | ⟨x, hx, he⟩
        · simp at h1
        · obtain ⟨k1, _, hk1, _⟩ := hlow x hx
          simp only [hk1, removeVersion_addVersion] at he
          subst he
          exact List.mem_map.mpr ⟨x, hx, hk1⟩
      · intro h
        obtain ⟨x, hx, hxk⟩ := List.mem_map.mp h
        simp only [getL]
        apply keys_foldl_aPut (fun (x : Key × Bytes) => (removeVersion n x.1, x.2))
        exact Or.inr ⟨x, hx, by simp [hxk, removeVersion_addVersion]⟩
    refine ⟨same_cons rfl ih1, ?_, ?_⟩
    · intro kv hkv
      simp only [getL] at hkv
      rcases mem_foldl_aPut (fun (x : Key × Bytes) => (removeVersion n x.1, x.2)) _ [] kv hkv with h | ⟨x, hx, he⟩
      · simp at h
      · obtain ⟨k0, hk0, hk1, a, b, hf, hor⟩ := hlow x hx
        subst he
        simp only [hk1, removeVersion_addVersion]
        exact ⟨hk0, a, b, hf, hor⟩
    · intro f' hsim hkeep hfill
      have hgoal : Inv cd be (getL cd wall ls be (keys.map (addVersion n)) hs.tail).1 (tVer n f') := by
        apply ih3 (tVer n f') (sim_tVer n hsim)
        · intro k' v a b hfk hc
          obtain ⟨k0, rfl, hf0⟩ := tVer_some hfk
          rw [tVer_add]
          apply hkeep k0 v a b hf0
          rcases hc with hc | hc
          · left; intro hm; exact hc ((hup k0).mp hm)
          · right; exact hc
        · intro sz d hfl k' hk' v a b hfk hns
          obtain ⟨k0, rfl, hf0⟩ := tVer_some hfk
          rw [tVer_add]
          exact hfill sz d (by simpa [firstLru] using hfl) k0 ((hup k0).mpr hk') v a b hf0 hns
      simpa only [getL, Inv] using hgoal
  | .snap :: ls, f, keys, hs, hinv => by
    have ih := getL_spec cd hcd wall be ls (tSnap cd f) keys hs.tail hinv
    obtain ⟨ih1, ih2, ih3⟩ := ih
    -- a key is in the upper result exactly when it is in the lower one and the judge knows it
    have hupOf : ∀ k, k ∈ (getL cd wall (.snap :: ls) be keys hs).2.1.map (·.1) →
        k ∈ (getL cd wall ls be keys hs.tail).2.1.map (·.1) := by
      intro k h
      obtain ⟨e, he, hk⟩ := List.mem_map.mp h
      simp only [getL] at he
      obtain ⟨ev, hev, _⟩ := mem_decodeAll he
      exact List.mem_map.mpr ⟨(e.1, ev), hev, hk⟩
    have hupTo : ∀ k v a b, f k = some (v, a, b) → k ∈ (getL cd wall ls be keys hs.tail).2.1.map (·.1) →
        k ∈ (getL cd wall (.snap :: ls) be keys hs).2.1.map (·.1) := by
      intro k v a b hfv hk
      obtain ⟨x, hx, hxk⟩ := List.mem_map.mp hk
      obtain ⟨_, a', b', hf2, _⟩ := ih2 x hx
      rw [hxk, tSnap_of hfv] at hf2
      have hxe : x.2 = cd.enc v := by
        simp only [Option.some.injEq, Prod.mk.injEq] at hf2; exact hf2.1.symm
      have hmem : (k, v) ∈ decodeAll cd (getL cd wall ls be keys hs.tail).2.1 := by
        apply decodeAll_mem (ev := cd.enc v)
        · rw [← hxe, ← hxk]; exact hx
        · exact hcd v
      simp only [getL]
      exact List.mem_map.mpr ⟨(k, v), hmem, rfl⟩
    refine ⟨same_cons rfl ih1, ?_, ?_⟩
    · intro kv hkv
      simp only [getL] at hkv
      obtain ⟨ev, hev, hdec⟩ := mem_decodeAll hkv
      obtain ⟨hk, a, b, hf, hor⟩ := ih2 _ hev
      obtain ⟨v, hfv, henc⟩ := tSnap_some hf
      have : kv.2 = v := by
        have := hcd v
        simp only at henc
        rw [henc, hdec] at this
        simpa using this
      exact ⟨hk, a, b, by rw [this]; exact hfv, hor⟩
    · intro f' hsim hkeep hfill
      have hgoal : Inv cd be (getL cd wall ls be keys hs.tail).1 (tSnap cd f') := by
        apply ih3 (tSnap cd f') (sim_tSnap cd hsim)
        · intro k ev a b hfk hc
          obtain ⟨v, hfv, henc⟩ := tSnap_some hfk
          rw [← henc]
          apply tSnap_of
          apply hkeep k v a b hfv
          rcases hc with hc | hc
          · left; intro hm; exact hc (hupOf k hm)
          · right; exact hc
        · intro sz d hfl k hk ev a b hfk hns
          obtain ⟨v, hfv, henc⟩ := tSnap_some hfk
          rw [← henc]
          apply tSnap_of
          exact hfill sz d (by simpa [firstLru] using hfl) k (hupTo k v a b hfv hk) v a b hfv hns
      simpa only [getL, Inv] using hgoal
  | .lru sz d e :: ls, f, keys, hs, hinv => by
    obtain ⟨hE, hinv0, hno⟩ := hinv
    have hsc := lruScan_spec wall e keys ⟨e, [], []⟩ (fun _ _ h => h) (by simp)
    have hsk := lruScan_found_keys wall keys ⟨e, [], []⟩ keys (by simp) (by simp) (fun _ h => h)
    have hmiss := lruScan_miss wall e keys ⟨e, [], []⟩ (fun _ _ h => h) (fun k h => Or.inl h) (by simp)
    have hlive := lruScan_live wall keys ⟨e, [], []⟩ [] (by simp)
    obtain ⟨hs1, hs2⟩ := hsc
    obtain ⟨hk1, hk2⟩ := hsk
    have hholds : ∀ k, holds (.lru sz d e :: ls) k = true ↔ ∃ it, aGet k e = some it := fun k => mem_keys_iff
    -- a hit is a live local entry
    have hfound : ∀ kv ∈ (lruScan wall keys ⟨e, [], []⟩).found,
        kv.1 ∈ keys ∧ ∃ a b, f kv.1 = some (kv.2, a, b) ∧
          ((holds (.lru sz d e :: ls) kv.1 = true ∧ wall < b) ∨ be.now < a) := by
      intro kv hkv
      obtain ⟨it, hg, hl, hd⟩ := hs2 kv hkv
      obtain ⟨a, hf⟩ := hE _ it hg
      exact ⟨hk1 kv hkv, a, it.exp, by rw [← hd]; exact hf, Or.inl ⟨(hholds _).mpr ⟨it, hg⟩, hl⟩⟩
    -- a missing key is not held within its deadline
    have hgone : ∀ k ∈ (lruScan wall keys ⟨e, [], []⟩).miss, ∀ v a b, f k = some (v, a, b) →
        ¬ (holds (.lru sz d e :: ls) k = true ∧ wall < b) := by
      intro k hk v a b hf ⟨hh, hlt⟩
      obtain ⟨it, hit⟩ := (hholds k).mp hh
      rcases hmiss k hk with h | ⟨it', hit', hexp⟩
      · rw [hit] at h; simp at h
      · rw [hit] at hit'
        simp only [Option.some.injEq] at hit'
        subst hit'
        obtain ⟨a', hf'⟩ := hE k it hit
        rw [hf] at hf'
        simp only [Option.some.injEq, Prod.mk.injEq] at hf'
        omega
    -- an old entry that survives keeps its deadline in every admissible view
    have hold : ∀ (R : List Key) (f' : View), (∀ k ∈ R, k ∈ keys) →
        (∀ k v a b, f k = some (v, a, b) → (k ∉ R ∨ (holds (.lru sz d e :: ls) k = true ∧ wall < b)) → f' k = some (v, a, b)) →
        ∀ k it, aGet k (lruScan wall keys ⟨e, [], []⟩).ents = some it → ∃ a, f' k = some (it.data, a, it.exp) := by
      intro R f' hR hkeep k it hg
      have hg0 := hs1 k it hg
      obtain ⟨a, hf⟩ := hE k it hg0
      refine ⟨a, hkeep k _ a _ hf ?_⟩
      by_cases hkR : k ∈ R
      · right
        exact ⟨(hholds k).mpr ⟨it, hg0⟩, hlive k (Or.inr (hR k hkR)) it hg⟩
      · left; exact hkR
    by_cases hm : (lruScan wall keys ⟨e, [], []⟩).miss.isEmpty = true
    · have hr : getL cd wall (.lru sz d e :: ls) be keys hs =
          (.lru sz d (lruScan wall keys ⟨e, [], []⟩).ents :: ls, (lruScan wall keys ⟨e, [], []⟩).found, false) := by
        simp only [getL, hm, if_true]
      rw [hr]
      refine ⟨same_cons rfl (same_refl _), hfound, ?_⟩
      intro f' hsim hkeep _
      refine ⟨hold _ f' ?_ hkeep, Inv_sim cd be ls f f' hno hsim hinv0, hno⟩
      intro k hk
      obtain ⟨x, hx, hxk⟩ := List.mem_map.mp hk
      rw [← hxk]; exact hk1 x hx
    · have hr : getL cd wall (.lru sz d e :: ls) be keys hs =
          (.lru sz d (lruAddAll sz (wall + d) (orderBy (hs.headD []) (getL cd wall ls be (lruScan wall keys ⟨e, [], []⟩).miss hs.tail).2.1)
              (lruScan wall keys ⟨e, [], []⟩).ents) :: (getL cd wall ls be (lruScan wall keys ⟨e, [], []⟩).miss hs.tail).1,
            (orderBy (hs.headD []) (getL cd wall ls be (lruScan wall keys ⟨e, [], []⟩).miss hs.tail).2.1).foldl
              (fun f kv => aPut kv.1 kv.2 f) (lruScan wall keys ⟨e, [], []⟩).found,
            (getL cd wall ls be (lruScan wall keys ⟨e, [], []⟩).miss hs.tail).2.2) := by
        simp only [getL, hm]
        rfl
      rw [hr]
      have ih := getL_spec cd hcd wall be ls f (lruScan wall keys ⟨e, [], []⟩).miss hs.tail hinv0
      obtain ⟨ih1, ih2, _⟩ := ih
      -- what came from below was missing locally and is live in the backend
      have hbelow : ∀ x ∈ orderBy (hs.headD []) (getL cd wall ls be (lruScan wall keys ⟨e, [], []⟩).miss hs.tail).2.1,
          x.1 ∈ (lruScan wall keys ⟨e, [], []⟩).miss ∧ ∃ a b, f x.1 = some (x.2, a, b) ∧ be.now < a := by
        intro x hx
        obtain ⟨hk, a, b, hf, hor⟩ := ih2 x (mem_orderBy.mp hx)
        refine ⟨hk, a, b, hf, ?_⟩
        rcases hor with h | h
        · rw [holds_noLru _ hno] at h; simp at h
        · exact h
      have hRkeys : ∀ k ∈ ((orderBy (hs.headD []) (getL cd wall ls be (lruScan wall keys ⟨e, [], []⟩).miss hs.tail).2.1).foldl
          (fun f kv => aPut kv.1 kv.2 f) (lruScan wall keys ⟨e, [], []⟩).found).map (·.1), k ∈ keys := by
        intro k hk
        rcases keys_of_foldl_aPut (fun (x : Key × Bytes) => x) _ _ k hk with h | ⟨x, hx, he⟩
        · obtain ⟨y, hy, hyk⟩ := List.mem_map.mp h
          rw [← hyk]; exact hk1 y hy
        · rw [he]; exact hk2 _ (hbelow x hx).1
      refine ⟨same_cons rfl ih1, ?_, ?_⟩
      · intro kv hkv
        rcases mem_foldl_aPut (fun (x : Key × Bytes) => x) _ _ kv hkv with h | ⟨x, hx, he⟩
        · exact hfound kv h
        · subst he
          obtain ⟨hk, a, b, hf, hlt⟩ := hbelow kv hx
          exact ⟨hk2 _ hk, a, b, hf, Or.inr hlt⟩
      · intro f' hsim hkeep hfill
        refine ⟨?_, Inv_sim cd be _ f f' (same_noLru ih1 hno) hsim ?_, same_noLru ih1 hno⟩
        · intro k it hg
          rcases aGet_lruAddAll sz (wall + d) _ _ k it hg with ⟨v, hit, hmem⟩ | ⟨hg2, _⟩
          · obtain ⟨hkm, a, b, hf, _⟩ := hbelow (k, v) hmem
            have hkeys : k ∈ ((orderBy (hs.headD []) (getL cd wall ls be (lruScan wall keys ⟨e, [], []⟩).miss hs.tail).2.1).foldl
                (fun f kv => aPut kv.1 kv.2 f) (lruScan wall keys ⟨e, [], []⟩).found).map (·.1) :=
              keys_foldl_aPut (fun (x : Key × Bytes) => x) _ _ k (Or.inr ⟨(k, v), hmem, rfl⟩)
            have := hfill sz d rfl k hkeys v a b hf (hgone k hkm v a b hf)
            subst hit
            exact ⟨a, this⟩
          · exact hold _ f' hRkeys hkeep k it hg2
        · -- the lower layers only changed their in-memory part (there is none)
          obtain ⟨_, _, ih3⟩ := getL_spec cd hcd wall be ls f (lruScan wall keys ⟨e, [], []⟩).miss hs.tail hinv0
          apply ih3 f (sim_refl f)
          · intro k v a b hf _; exact hf
          · intro sz' d' hfl
            rw [noLru_firstLru hno] at hfl
            simp at hfl

end PfC19
