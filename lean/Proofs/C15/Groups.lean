import Model.C15
/-! C15 proofs: `GetKeysByPartition` groups every key index exactly once, under its route. -/
namespace PfC15
open C14 C15

/-- `(partition, key index)` pairs of a grouping -/
def flat (g : List (Int × List Nat)) : List (Int × Nat) := g.flatMap fun x => x.2.map fun i => (x.1, i)

theorem flat_cons (q : Int) (l : List Nat) (r : List (Int × List Nat)) :
    flat ((q, l) :: r) = l.map (fun i => (q, i)) ++ flat r := by simp [flat]

theorem flat_insertIdx (pid : Int) (i : Nat) : ∀ (g : List (Int × List Nat)),
    (flat (insertIdx pid i g)).Perm ((pid, i) :: flat g)
  | [] => by simp [insertIdx, flat]
  | (q, l) :: r => by
    unfold insertIdx
    split
    · rw [flat_cons]; simp
    · split
      · rename_i heq
        have : pid = q := by simpa using heq
        subst this
        rw [flat_cons, flat_cons, List.map_append]
        simp only [List.map_cons, List.map_nil, List.append_assoc, List.singleton_append]
        exact List.perm_middle
      · rw [flat_cons, flat_cons]
        have ih := flat_insertIdx pid i r
        exact (List.Perm.append_left _ ih).trans List.perm_middle

theorem fold_groups (all : List (Nat × Part)) : ∀ (ks : List Nat) (n : Nat) (acc g : List (Int × List Nat)),
    (ks.zipIdx n).foldlM (groupStep all) acc = .ok g →
    ∃ routed : List (Int × Nat), (flat g).Perm (routed ++ flat acc) ∧
      routed.map (·.2) = List.range' n ks.length ∧
      ∀ x ∈ routed, ∃ j k, ks[j]? = some k ∧ x.2 = n + j ∧ activeForOf all k = .ok x.1
  | [], n, acc, g, h => by
    simp only [List.zipIdx_nil, List.foldlM_nil] at h
    cases h
    exact ⟨[], by simp, by simp, by simp⟩
  | k :: ks, n, acc, g, h => by
    simp only [List.zipIdx_cons, List.foldlM_cons] at h
    cases hr : activeForOf all k with
    | error e =>
      simp [groupStep, hr, bind, Except.bind] at h
    | ok p =>
      have h' : (ks.zipIdx (n + 1)).foldlM (groupStep all) (insertIdx p n acc) = .ok g := by
        simpa [groupStep, hr, bind, Except.bind] using h
      obtain ⟨routed, hperm, hidx, hroute⟩ := fold_groups all ks (n + 1) _ g h'
      refine ⟨(p, n) :: routed, ?_, ?_, ?_⟩
      · have := (List.Perm.append_left routed (flat_insertIdx p n acc))
        exact (hperm.trans this).trans List.perm_middle
      · simp [hidx, List.range'_succ]
      · intro x hx
        rcases List.mem_cons.mp hx with rfl | hx
        · exact ⟨0, k, by simp, by simp, hr⟩
        · obtain ⟨j, k', hk', hj, hr'⟩ := hroute x hx
          exact ⟨j + 1, k', by simpa using hk', by omega, hr'⟩

/-- **grouping**: on success the groups contain every key index exactly once (their flattening is a
permutation of `0 … len-1` paired with partitions), each under the partition its key routes to. -/
theorem keysByPartition_groups (d : PDesc) (keys : List Nat) (g : List (Int × List Nat))
    (h : keysByPartition d keys = .ok g) :
    ∃ routed : List (Int × Nat), (flat g).Perm routed ∧ routed.map (·.2) = List.range keys.length ∧
      ∀ x ∈ routed, ∃ k, keys[x.2]? = some k ∧ activeFor d k = .ok x.1 := by
  unfold keysByPartition at h
  split at h
  · cases h
  · obtain ⟨routed, hperm, hidx, hroute⟩ := fold_groups d.tokenParts keys 0 [] g h
    refine ⟨routed, by simpa [flat] using hperm, by rw [hidx, List.range_eq_range'], ?_⟩
    intro x hx
    obtain ⟨j, k, hk, hj, hr⟩ := hroute x hx
    refine ⟨k, ?_, hr⟩
    have : x.2 = j := by omega
    rw [this]; exact hk

end PfC15
