import Proofs.C15.Loop
import Proofs.C14.Total
/-! C15 proofs added after the audit: `GetKeysByPartition` errors, the converse of the promotion guard,
only `SetPartitionStateChangeLock` changes a lock, the unconditional registration CAS of `wait`. -/
namespace PfC15
open C14 C15 PfC14

/-! ### GetKeysByPartition: when does it fail -/

theorem foldlM_groupStep_ok (all : List (Nat × Part)) (hact : ∀ k, ∃ p, activeForOf all k = .ok p) :
    ∀ (ks : List (Nat × Nat)) (acc : List (Int × List Nat)), ∃ g, ks.foldlM (groupStep all) acc = .ok g
  | [], acc => ⟨acc, rfl⟩
  | ki :: ks, acc => by
    obtain ⟨p, hp⟩ := hact ki.1
    obtain ⟨g, hg⟩ := foldlM_groupStep_ok all hact ks (insertIdx p ki.2 acc)
    exact ⟨g, by simp [List.foldlM_cons, groupStep, hp, bind, Except.bind, hg]⟩

theorem foldlM_groupStep_err (all : List (Nat × Part)) (e : C14.Err) (herr : ∀ k, activeForOf all k = .error e) :
    ∀ (ks : List (Nat × Nat)) (acc : List (Int × List Nat)), ks ≠ [] → ks.foldlM (groupStep all) acc = .error e
  | [], _, h => absurd rfl h
  | ki :: ks, acc, _ => by simp [List.foldlM_cons, groupStep, herr ki.1, bind, Except.bind]

/-- **`GetKeysByPartition` fails** exactly when no partition is ACTIVE, or keys are given and no ACTIVE partition
holds a token (an ACTIVE token-less partition passes the first test and fails in the lookup); the error is
always "no active partition". -/
theorem keysByPartition_error_iff (d : PDesc) (keys : List Nat) :
    (∃ e, keysByPartition d keys = .error e) ↔
      (d.parts.filter (·.isActive) = [] ∨ (keys ≠ [] ∧ activeTokens d = [])) := by
  unfold keysByPartition
  by_cases h0 : (d.parts.filter (·.isActive)).isEmpty = true
  · simp only [h0, if_true]
    constructor
    · intro _; left; simpa using h0
    · intro _; exact ⟨_, rfl⟩
  · simp only [h0]
    have hne : d.parts.filter (·.isActive) ≠ [] := by simpa using h0
    by_cases hat : activeTokens d = []
    · have herr : ∀ k, activeForOf d.tokenParts k = .error .noActivePartition :=
        fun k => (activeFor_error_iff d k).mpr hat
      cases keys with
      | nil => simp [hne, List.zipIdx, pure, Except.pure]
      | cons k ks =>
        have := foldlM_groupStep_err d.tokenParts _ herr ((k :: ks).zipIdx) [] (by simp [List.zipIdx_cons])
        constructor
        · intro _; right; exact ⟨by simp, hat⟩
        · intro _; exact ⟨_, this⟩
    · have hok : ∀ k, ∃ p, activeForOf d.tokenParts k = .ok p := by
        intro k
        cases hk : activeForOf d.tokenParts k with
        | ok p => exact ⟨p, rfl⟩
        | error e =>
          have he := activeFor_error_class d k e hk
          subst he
          exact absurd ((activeFor_error_iff d k).mp hk) hat
      obtain ⟨g, hg⟩ := foldlM_groupStep_ok d.tokenParts hok keys.zipIdx []
      constructor
      · rintro ⟨e, he⟩; rw [hg] at he; cases he
      · rintro (h | ⟨_, h⟩)
        · exact absurd h hne
        · exact absurd h hat

theorem keysByPartition_error_class (d : PDesc) (keys : List Nat) (e : C14.Err)
    (h : keysByPartition d keys = .error e) : e = .noActivePartition := by
  unfold keysByPartition at h
  split at h
  · cases h; rfl
  · -- an error of the fold is an error of one lookup
    have : ∀ (ks : List (Nat × Nat)) (acc : List (Int × List Nat)),
        ks.foldlM (groupStep d.tokenParts) acc = .error e → e = .noActivePartition := by
      intro ks
      induction ks with
      | nil => intro acc h; simp [pure, Except.pure] at h
      | cons ki ks ih =>
        intro acc h
        rw [List.foldlM_cons] at h
        cases hk : activeForOf d.tokenParts ki.1 with
        | ok p => simp only [groupStep, hk, bind, Except.bind] at h; exact ih _ h
        | error e' =>
          simp only [groupStep, hk, bind, Except.bind] at h
          have hee : e' = e := by cases h; rfl
          exact hee ▸ activeFor_error_class d ki.1 e' hk
    exact this _ _ h

/-! ### the converse of the promotion guard -/

/-- when the guard holds (PENDING, unlocked, enough owners registered long enough) the reconcile DOES promote -/
theorem reconcileOwned_promotes (d : PDesc) (c : Cfg) (now : Int) (p : Part) (hp : d.get? c.pid = some p)
    (hst : p.state = sPending) (hl : p.locked = false)
    (hcnt : ownersCountUpdatedBefore d c.pid (now - c.waitDur) ≥ c.waitCount) :
    reconcileOwned d c now =
      .ok (some { d with parts := setPart { p with state := sActive, stateTs := now } d.parts }) := by
  unfold reconcileOwned
  simp only [hp]
  have hcond : (p.state == sPending && decide (ownersCountUpdatedBefore d c.pid (now - c.waitDur) ≥ c.waitCount)) = true := by
    simp [hst, hcnt]
  rw [if_pos hcond]
  unfold updatePartitionState
  simp only [hp]
  have h1 : (p.state == sActive) = false := by rw [hst]; decide
  simp [h1, hl]

/-! ### only the lock call changes a lock; tokens are immutable -/

theorem setPart_fields {p q : Part} {l : List Part} (h : q ∈ setPart p l) : q = p ∨ q ∈ l := mem_setPart h

/-- no store update other than `SetPartitionStateChangeLock` changes a partition's lock, and no update at all
changes its tokens: every partition of the new version has the lock flag, lock timestamp and tokens of the old
partition with its id — or is new (created PENDING, unlocked). -/
theorem non_lock_ops_keep_lock (d d' : PDesc) (op : Op) (h : step d op = .ok (some d'))
    (hop : ∀ pid l now, op ≠ .lock pid l now) :
    ∀ q ∈ d'.parts, (∃ p ∈ d.parts, p.id = q.id ∧ q.locked = p.locked ∧ q.lockedTs = p.lockedTs ∧ q.tokens = p.tokens) ∨
      ((∀ p ∈ d.parts, p.id ≠ q.id) ∧ q.locked = false ∧ q.state = sPending) := by
  have keep : ∀ {dd : PDesc}, dd.parts = d.parts → ∀ q ∈ dd.parts,
      (∃ p ∈ d.parts, p.id = q.id ∧ q.locked = p.locked ∧ q.lockedTs = p.lockedTs ∧ q.tokens = p.tokens) ∨
      ((∀ p ∈ d.parts, p.id ≠ q.id) ∧ q.locked = false ∧ q.state = sPending) :=
    fun hh q hq => Or.inl ⟨q, hh ▸ hq, rfl, rfl, rfl, rfl⟩
  have upd : ∀ {id : Int} {st : Nat} {now : Int}, updatePartitionState d id st now = .ok (some d') → ∀ q ∈ d'.parts,
      (∃ p ∈ d.parts, p.id = q.id ∧ q.locked = p.locked ∧ q.lockedTs = p.lockedTs ∧ q.tokens = p.tokens) ∨
      ((∀ p ∈ d.parts, p.id ≠ q.id) ∧ q.locked = false ∧ q.state = sPending) := by
    intro id st now hu q hq
    obtain ⟨p, hp, _, _, rfl⟩ := updatePartitionState_spec hu
    rcases mem_setPart hq with rfl | hq
    · exact Or.inl ⟨p, (get?_some hp).1, rfl, rfl, rfl, rfl⟩
    · exact Or.inl ⟨q, hq, rfl, rfl, rfl, rfl⟩
  cases op with
  | lock pid l now => exact absurd rfl (hop pid l now)
  | change pid to now =>
    simp only [step, changePartitionState] at h
    split at h
    · cases h
    · split at h
      · cases h
      · split at h
        · cases h
        · exact upd h
  | removeMultiOwner inst pid =>
    simp only [step] at h
    exact keep (removeOwner_parts (by simpa using h))
  | wait c now =>
    simp only [step, waitAndRegister] at h
    exact keep (addOrUpdateOwner_parts (by simpa using h))
  | reconcileOwned c now =>
    simp only [step, reconcileOwned] at h
    split at h
    · cases h
    · split at h
      · exact upd h
      · cases h
  | reconcileOthers c now =>
    simp only [step, reconcileOthers] at h
    split at h
    · cases h
      intro q hq
      exact Or.inl ⟨q, (List.mem_filter.mp hq).1, rfl, rfl, rfl, rfl⟩
    · cases h
  | stopping c rm =>
    simp only [step, stopping] at h
    split at h
    · exact keep (removeOwner_parts (by simpa using h))
    · cases h
  | create c toks now =>
    simp only [step, createAndRegister] at h
    cases hg : d.get? c.pid with
    | some p0 =>
      simp only [hg] at h
      split at h
      · rename_i d2 h2; cases h; exact keep (addOrUpdateOwner_parts h2)
      · simp at h
    | none =>
      simp only [hg] at h
      have hnew : ∀ q, q ∈ setPart ({ id := c.pid, state := sPending, stateTs := now, tokens := toks } : Part) d.parts →
          (∃ p ∈ d.parts, p.id = q.id ∧ q.locked = p.locked ∧ q.lockedTs = p.lockedTs ∧ q.tokens = p.tokens) ∨
          ((∀ p ∈ d.parts, p.id ≠ q.id) ∧ q.locked = false ∧ q.state = sPending) := by
        intro q hq
        rcases mem_setPart hq with rfl | hq
        · exact Or.inr ⟨get?_none hg, rfl, rfl⟩
        · exact Or.inl ⟨q, hq, rfl, rfl, rfl, rfl⟩
      split at h
      · rename_i d2 h2
        cases h
        intro q hq
        rw [addOrUpdateOwner_parts h2] at hq
        exact hnew q hq
      · simp only [if_true] at h
        cases h
        exact hnew

/-! ### the registration CAS of `waitPartitionAndRegisterOwner` is unconditional -/

/-- whatever the ring looks like when the CAS runs — also when the partition that was polled has been deleted in
the meantime — the registration succeeds and leaves the owner registered for the (possibly missing) partition. -/
theorem wait_registers_unconditionally (l : Loop) (d : PDesc) (now : Int) :
    (∃ r, step d (.wait l.cfg now) = .ok r) ∧ Registered l (C15.apply d (.wait l.cfg now)) := by
  have hreg := addOrUpdateOwner_registers d l.cfg.ownerID l.cfg.pid now
  refine ⟨⟨_, rfl⟩, ?_⟩
  unfold C15.apply
  simp only [step, waitAndRegister]
  cases ha : addOrUpdateOwner d l.cfg.ownerID oActive l.cfg.pid now with
  | some d2 => simp only [ha] at hreg; exact hreg
  | none => simp only [ha] at hreg; exact hreg

end PfC15
