import Proofs.C15
/-! C15 proofs: the service loop (`starting` / `running` select loop / `stopping`) of any number of
lifecyclers sharing a ring with an editor: legal state edges on every run, registrations never lost. -/
namespace PfC15
open C14 C15

/-! ### what an operation does to the owner map -/

/-- the operation registers or removes the owner entry `X` -/
def touches (op : Op) (X : String) : Prop :=
  match op with
  | .create c _ _ => c.ownerID = X
  | .wait c _ => c.ownerID = X
  | .stopping c rm => rm = true ∧ c.ownerID = X
  | .removeMultiOwner inst pid => inst ++ "/" ++ toString pid = X
  | _ => False

theorem mem_setOwner_of_ne {o n : Owner} : ∀ {l : List Owner}, o ∈ l → o.id ≠ n.id → o ∈ setOwner n l
  | [], h, _ => by cases h
  | q :: qs, h, hne => by
    unfold setOwner
    split
    · exact List.mem_cons_of_mem _ h
    · split
      · rename_i heq
        have hq : n.id = q.id := by simpa using heq
        rcases List.mem_cons.mp h with h | h
        · exact absurd (by rw [h, hq]) hne
        · exact List.mem_cons_of_mem _ h
      · rcases List.mem_cons.mp h with h | h
        · rw [h]; exact List.mem_cons_self
        · exact List.mem_cons_of_mem _ (mem_setOwner_of_ne h hne)

theorem mem_setOwner_self {n : Owner} : ∀ {l : List Owner}, n ∈ setOwner n l
  | [] => by simp [setOwner]
  | q :: qs => by
    unfold setOwner
    split
    · exact List.mem_cons_self
    · split
      · exact List.mem_cons_self
      · exact List.mem_cons_of_mem _ mem_setOwner_self

theorem addOrUpdateOwner_keeps {d d' : PDesc} {id : String} {st : Nat} {pid now : Int} {o : Owner}
    (h : addOrUpdateOwner d id st pid now = some d') (ho : o ∈ d.owners) (hne : o.id ≠ id) : o ∈ d'.owners := by
  unfold addOrUpdateOwner at h
  split at h
  · split at h
    · cases h
    · cases h; exact mem_setOwner_of_ne ho hne
  · cases h; exact mem_setOwner_of_ne ho hne

theorem removeOwner_keeps {d d' : PDesc} {id : String} {o : Owner}
    (h : removeOwner d id = some d') (ho : o ∈ d.owners) (hne : o.id ≠ id) : o ∈ d'.owners := by
  unfold removeOwner at h
  split at h
  · cases h
  · cases h; exact List.mem_filter.mpr ⟨ho, by simpa using hne⟩

theorem updatePartitionState_owners {d d' : PDesc} {id : Int} {st : Nat} {now : Int}
    (h : updatePartitionState d id st now = .ok (some d')) : d'.owners = d.owners := by
  obtain ⟨_, _, _, _, rfl⟩ := updatePartitionState_spec h; rfl

/-- an update keeps every owner entry it does not explicitly register or remove -/
theorem step_keeps_owner (d d' : PDesc) (op : Op) (h : step d op = .ok (some d')) (o : Owner)
    (ho : o ∈ d.owners) (hn : ¬ touches op o.id) : o ∈ d'.owners := by
  cases op with
  | change pid to now =>
    simp only [step, changePartitionState] at h
    split at h
    · cases h
    · split at h
      · cases h
      · split at h
        · cases h
        · rw [updatePartitionState_owners h]; exact ho
  | lock pid l now =>
    simp only [step, setLock] at h
    split at h
    · cases h
    · split at h
      · cases h
      · cases h; exact ho
  | removeMultiOwner inst pid =>
    simp only [step] at h
    exact removeOwner_keeps (by simpa using h) ho (fun he => hn he.symm)
  | create c toks now =>
    have hne : o.id ≠ c.ownerID := fun he => hn he.symm
    simp only [step, createAndRegister] at h
    cases hg : d.get? c.pid with
    | some p =>
      simp only [hg] at h
      split at h
      · rename_i d2 h2; cases h; exact addOrUpdateOwner_keeps h2 ho hne
      · simp at h
    | none =>
      simp only [hg] at h
      split at h
      · rename_i d2 h2; cases h; exact addOrUpdateOwner_keeps h2 ho hne
      · simp only [if_true] at h; cases h; exact ho
  | wait c now =>
    have hne : o.id ≠ c.ownerID := fun he => hn he.symm
    simp only [step, waitAndRegister] at h
    exact addOrUpdateOwner_keeps (by simpa using h) ho hne
  | reconcileOwned c now =>
    obtain ⟨_, _, _, _, _, rfl⟩ := reconcileOwned_guard d d' c now (by simpa [step] using h)
    exact ho
  | reconcileOthers c now =>
    have := (reconcileOthers_guard d d' c now (by simpa [step] using h)).1
    rw [this]; exact ho
  | stopping c rm =>
    simp only [step, stopping] at h
    split at h
    · rename_i hrm
      exact removeOwner_keeps (by simpa using h) ho (fun he => hn ⟨hrm, he.symm⟩)
    · cases h

theorem apply_keeps_owner (d : PDesc) (op : Op) (o : Owner) (ho : o ∈ d.owners) (hn : ¬ touches op o.id) :
    o ∈ (C15.apply d op).owners := by
  unfold C15.apply
  cases h : step d op with
  | error e => exact ho
  | ok r =>
    cases r with
    | none => exact ho
    | some d' => exact step_keeps_owner d d' op h o ho hn

theorem foldl_keeps_owner : ∀ (ops : List Op) (d : PDesc) (o : Owner), o ∈ d.owners →
    (∀ op ∈ ops, ¬ touches op o.id) → o ∈ (ops.foldl C15.apply d).owners
  | [], _, _, ho, _ => ho
  | op :: ops, d, o, ho, hn => by
    simp only [List.foldl_cons]
    exact foldl_keeps_owner ops _ o (apply_keeps_owner d op o ho (hn op (by simp)))
      (fun op' h' => hn op' (by simp [h']))

/-! ### registration -/

/-- lifecycler `l` is registered as an ACTIVE owner of its partition -/
def Registered (l : Loop) (d : PDesc) : Prop :=
  ∃ o ∈ d.owners, o.id = l.cfg.ownerID ∧ o.partition = l.cfg.pid ∧ o.state = oActive

theorem getOwner?_some {d : PDesc} {id : String} {o : Owner} (h : getOwner? d id = some o) : o ∈ d.owners ∧ o.id = id := by
  unfold getOwner? at h
  exact ⟨List.mem_of_find?_eq_some h, by simpa using List.find?_some h⟩

theorem addOrUpdateOwner_registers (d : PDesc) (id : String) (pid now : Int) :
    ∃ o ∈ ((addOrUpdateOwner d id oActive pid now).getD d).owners, o.id = id ∧ o.partition = pid ∧ o.state = oActive := by
  unfold addOrUpdateOwner
  cases hg : getOwner? d id with
  | none => exact ⟨_, mem_setOwner_self, rfl, rfl, rfl⟩
  | some prev =>
    simp only
    split
    · rename_i hc
      have ⟨hm, hid⟩ := getOwner?_some hg
      simp only [Bool.and_eq_true, beq_iff_eq] at hc
      exact ⟨prev, hm, hid, hc.2, hc.1⟩
    · exact ⟨_, mem_setOwner_self, rfl, rfl, rfl⟩

/-- a successful `starting` leaves the lifecycler registered -/
theorem start_registers (l : Loop) (d : PDesc) (tokens : List Nat) (now : Int) (r : Option PDesc)
    (h : step d (l.startOp tokens now) = .ok r) : Registered l (C15.apply d (l.startOp tokens now)) := by
  have happly : C15.apply d (l.startOp tokens now) = r.getD d := by
    unfold C15.apply; rw [h]; cases r <;> rfl
  rw [happly]
  unfold Loop.startOp at h
  by_cases hc : l.createOnStartup = true
  · simp only [hc, if_true, step, createAndRegister] at h
    cases hg : d.get? l.cfg.pid with
    | some p =>
      simp only [hg] at h
      have hreg := addOrUpdateOwner_registers d l.cfg.ownerID l.cfg.pid now
      cases ha : addOrUpdateOwner d l.cfg.ownerID oActive l.cfg.pid now with
      | some d2 => simp only [ha] at h hreg; cases h; exact hreg
      | none => simp only [ha] at h hreg; simp at h; subst h; exact hreg
    | none =>
      simp only [hg] at h
      have hreg := addOrUpdateOwner_registers
        { d with parts := setPart { id := l.cfg.pid, state := sPending, stateTs := now, tokens := tokens } d.parts }
        l.cfg.ownerID l.cfg.pid now
      cases ha : addOrUpdateOwner
          { d with parts := setPart { id := l.cfg.pid, state := sPending, stateTs := now, tokens := tokens } d.parts }
          l.cfg.ownerID oActive l.cfg.pid now with
      | some d2 => simp only [ha] at h hreg; cases h; exact hreg
      | none => simp only [ha, if_true] at h hreg; cases h; exact hreg
  · have hc' : l.createOnStartup = false := by simpa using hc
    simp only [hc', Bool.false_eq_true, if_false, step, waitAndRegister] at h
    have hreg := addOrUpdateOwner_registers d l.cfg.ownerID l.cfg.pid now
    cases ha : addOrUpdateOwner d l.cfg.ownerID oActive l.cfg.pid now with
    | some d2 => simp only [ha] at h hreg; cases h; exact hreg
    | none => simp only [ha] at h hreg; cases h; exact hreg

/-! ### the system invariant -/

/-- every lifecycler whose loop is running is registered -/
def RunningRegistered (ls : List Loop) (s : Sys) : Prop :=
  ∀ i l, ls[i]? = some l → s.phase i = .running → Registered l s.ring

/-- lifecyclers register under pairwise different owner ids -/
def DistinctOwners (ls : List Loop) : Prop :=
  ∀ (i j : Nat) (li lj : Loop), ls[i]? = some li → ls[j]? = some lj → li.cfg.ownerID = lj.cfg.ownerID → i = j

/-- schedules considered: the editor only uses its own calls and does not remove the owner entry of a
lifecycler whose loop is running (`RemoveMultiPartitionOwner` is meant for owners that are gone) -/
def GoodAct (ls : List Loop) (s : Sys) : Act → Prop
  | .editor op => isEditorOp op = true ∧ ∀ i l, ls[i]? = some l → s.phase i = .running → ¬ touches op l.cfg.ownerID
  | _ => True

theorem tickOps_touch (l : Loop) (a b : Int) (X : String) : ∀ op ∈ l.tickOps a b, ¬ touches op X := by
  intro op hop; simp [Loop.tickOps] at hop; rcases hop with rfl | rfl <;> simp [touches]

theorem registered_kept (l : Loop) (d : PDesc) (ops : List Op) (h : Registered l d)
    (hn : ∀ op ∈ ops, ¬ touches op l.cfg.ownerID) : Registered l (ops.foldl C15.apply d) := by
  obtain ⟨o, ho, hid, hp, hs⟩ := h
  exact ⟨o, foldl_keeps_owner ops d o ho (fun op hop => by rw [hid]; exact hn op hop), hid, hp, hs⟩

/-- **one act preserves "running ⇒ registered"** -/
theorem sysStep_registered (ls : List Loop) (hd : DistinctOwners ls) (s : Sys) (a : Act)
    (hinv : RunningRegistered ls s) (hg : GoodAct ls s a) : RunningRegistered ls (sysStep ls s a) := by
  intro j lj hlj hph
  cases a with
  | editor op =>
    simp only [sysStep, actOps, actPhase] at hph ⊢
    exact registered_kept lj s.ring [op] (hinv j lj hlj hph) (by
      intro op' hop'; simp at hop'; subst hop'; exact hg.2 j lj hlj hph)
  | event i e =>
    simp only [sysStep, actOps, actPhase] at hph ⊢
    cases hli : ls[i]? with
    | none => simp only [hli] at hph ⊢; exact hinv j lj hlj hph
    | some li =>
      simp only [hli] at hph ⊢
      by_cases hri : s.phase i = .running
      · simp only [hri, if_true]
        -- lifecycler j was running before (a stop only terminates i)
        have hjrun : s.phase j = .running ∧ (e = .stop → j ≠ i) := by
          cases e with
          | stop =>
            simp only [hri, if_true, setPhase] at hph
            by_cases hji : j = i
            · simp [hji] at hph
            · simp only [hji, if_false] at hph; exact ⟨hph, fun _ => hji⟩
          | tick a b => exact ⟨hph, fun h => by cases h⟩
          | actor to now => exact ⟨hph, fun h => by cases h⟩
        apply registered_kept lj s.ring _ (hinv j lj hlj hjrun.1)
        intro op hop
        cases e with
        | tick a b => exact tickOps_touch li a b _ op hop
        | actor to now => simp [Loop.eventOps] at hop; subst hop; simp [touches]
        | stop =>
          simp [Loop.eventOps] at hop; subst hop
          simp only [touches]
          rintro ⟨_, heq⟩
          exact hjrun.2 rfl (hd j i lj li hlj hli heq.symm)
      · have : s.phase j = .running := by
          cases e <;> simp only [hri] at hph <;> first | exact hph | (simp at hph; exact hph)
        simp only [hri]
        exact hinv j lj hlj this
  | start i tokens now first =>
    simp only [sysStep, actOps, actPhase] at hph ⊢
    cases hli : ls[i]? with
    | none => simp only [hli] at hph ⊢; exact hinv j lj hlj hph
    | some li =>
      simp only [hli] at hph ⊢
      by_cases hni : li.canStart (s.phase i) = true
      · simp only [hni, if_true] at hph ⊢
        cases hst : step s.ring (li.startOp tokens now) with
        | error e =>
          simp only [hst] at hph ⊢
          have hjr : s.phase j = .running := by
            simp only [setPhase] at hph
            by_cases hji : j = i
            · simp [hji] at hph
            · simpa [hji] using hph
          have happ : C15.apply s.ring (li.startOp tokens now) = s.ring := by unfold C15.apply; rw [hst]
          simp only [List.foldl_cons, List.foldl_nil, happ]
          exact hinv j lj hlj hjr
        | ok r =>
          simp only [hst] at hph ⊢
          simp only [List.foldl_cons]
          by_cases hji : j = i
          · subst hji
            have : lj = li := by rw [hli] at hlj; exact (Option.some.inj hlj).symm
            subst this
            exact registered_kept lj _ _ (start_registers lj s.ring tokens now r hst)
              (tickOps_touch lj first.1 first.2 _)
          · have hjr : s.phase j = .running := by simpa [setPhase, hji] using hph
            have h1 : Registered lj (C15.apply s.ring (li.startOp tokens now)) := by
              have := registered_kept lj s.ring [li.startOp tokens now] (hinv j lj hlj hjr) (by
                intro op hop; simp at hop; subst hop
                unfold Loop.startOp
                intro ht
                have heq : li.cfg.ownerID = lj.cfg.ownerID := by
                  by_cases hc : li.createOnStartup = true <;> simpa [hc, touches] using ht
                exact hji (hd j i lj li hlj hli heq.symm))
              simpa using this
            exact registered_kept lj _ _ h1 (tickOps_touch li first.1 first.2 _)
      · have hni' : li.canStart (s.phase i) = false := by simpa using hni
        simp only [hni', Bool.false_eq_true, if_false] at hph ⊢
        exact hinv j lj hlj hph
  | poll i =>
    simp only [sysStep, actOps, actPhase, List.foldl_nil] at hph ⊢
    apply hinv j lj hlj
    cases hli : ls[i]? with
    | none => simpa [hli] using hph
    | some li =>
      simp only [hli] at hph
      split at hph
      · simp only [setPhase] at hph
        by_cases hji : j = i
        · simp [hji] at hph
        · simpa [hji] using hph
      · exact hph

def GoodRun (ls : List Loop) : Sys → List Act → Prop
  | _, [] => True
  | s, a :: as => GoodAct ls s a ∧ GoodRun ls (sysStep ls s a) as

/-- **registrations are never lost**: along every schedule of service starts, loop iterations of any number of
lifecyclers and editor calls, a lifecycler whose loop is running is registered as ACTIVE owner of its partition. -/
theorem sysRun_registered (ls : List Loop) (hd : DistinctOwners ls) : ∀ (as : List Act) (s : Sys),
    RunningRegistered ls s → GoodRun ls s as → RunningRegistered ls (sysRun ls s as)
  | [], _, h, _ => h
  | a :: as, s, h, hg => by
    simp only [sysRun, List.foldl_cons]
    exact sysRun_registered ls hd as _ (sysStep_registered ls hd s a h hg.1) hg.2

/-- **legal edges on every loop run**: the updates of one act, applied one by one, each respect the state
machine (for every system state, hence along every schedule). -/
theorem sysStep_edges (ls : List Loop) (s : Sys) (a : Act) :
    (sysStep ls s a).ring = (actOps ls s a).foldl C15.apply s.ring ∧
    ∀ i, i < (actOps ls s a).length →
      StepOK (((actOps ls s a).take i).foldl C15.apply s.ring) (((actOps ls s a).take (i + 1)).foldl C15.apply s.ring) := by
  refine ⟨rfl, ?_⟩
  intro i hi
  rw [List.take_add_one, List.foldl_append]
  have : (actOps ls s a)[i]?.toList = [(actOps ls s a)[i]] := by simp [List.getElem?_eq_getElem hi]
  rw [this]
  exact history_stepOK _ _

/-! ### CAS retries -/

theorem casOutcome_last (f : PDesc → Except C15.Err (Option PDesc)) : ∀ (stale : List PDesc) (fresh : PDesc),
    casOutcome f (stale ++ [fresh]) = some (f fresh)
  | [], _ => rfl
  | [a], fresh => rfl
  | a :: b :: stale, fresh => by
    have := casOutcome_last f (b :: stale) fresh
    simpa [casOutcome] using this

end PfC15
