import Model.C15
/-! C15 proofs: `GetReplicationSetForPartitionAndOperation` — one healthy registered owner per zone,
non-read-only preferred, highest numeric suffix among those. -/
namespace PfC15
open C14 C15

/-! ### the order on suffix indexes (`none` = +∞) -/

theorem idxLt_irrefl : ∀ a, idxLt a a = false
  | none => rfl
  | some a => by simp [idxLt]

theorem idxLt_asymm : ∀ a b, idxLt a b = true → idxLt b a = false
  | some a, some b, h => by simp [idxLt] at h ⊢; omega
  | some _, none, _ => rfl
  | none, _, h => by simp [idxLt] at h

/-- `x ≤ h` and `h ≤ c` give `x ≤ c`, written with `¬ <` -/
theorem idxLe_trans : ∀ c h x, idxLt c h = false → idxLt h x = false → idxLt c x = false
  | none, _, _, _, _ => rfl
  | some c, some h, some x, h1, h2 => by simp [idxLt] at h1 h2 ⊢; omega
  | some c, some h, none, _, h2 => by simp [idxLt] at h2
  | some c, none, _, h1, _ => by simp [idxLt] at h1

/-! ### the per-zone pick -/

abbrev Cand := String × Ring.Inst

/-- what the loop has established about `best` after looking at `seen` -/
def PickInv (zone : String) (seen : List Cand) : Option Cand → Prop
  | none => ∀ x ∈ seen, x.2.zone ≠ zone
  | some c => c ∈ seen ∧ c.2.zone = zone ∧
      (∀ h ∈ seen, h.2.zone = zone → c.2.ro = true → h.2.ro = true) ∧
      (∀ h ∈ seen, h.2.zone = zone → h.2.ro = c.2.ro → idxLt (indexFromSuffix c.1) (indexFromSuffix h.1) = false) ∧
      (∃ A B, seen = A ++ c :: B ∧ ∀ x ∈ B, x.2.zone = zone →
        (x.2.ro = true ∧ c.2.ro = false) ∨ (x.2.ro = c.2.ro ∧ idxLt (indexFromSuffix x.1) (indexFromSuffix c.1) = true))

theorem pickStep_inv (zone : String) (seen : List Cand) (best : Option Cand) (cand : Cand)
    (h : PickInv zone seen best) : PickInv zone (seen ++ [cand]) (pickStep zone best cand) := by
  unfold pickStep
  by_cases hz : cand.2.zone = zone
  · have hz' : (cand.2.zone != zone) = false := by simp [hz]
    rw [hz']; simp only [Bool.false_eq_true, if_false]
    cases best with
    | none =>
      simp only [PickInv] at h ⊢
      refine ⟨by simp, hz, ?_, ?_, ⟨seen, [], by simp, by simp⟩⟩
      · intro x hx hxz _
        rcases List.mem_append.mp hx with hx | hx
        · exact absurd hxz (h x hx)
        · simp at hx; subst hx; assumption
      · intro x hx hxz _
        rcases List.mem_append.mp hx with hx | hx
        · exact absurd hxz (h x hx)
        · simp at hx; subst hx; exact idxLt_irrefl _
    | some b =>
      obtain ⟨hbm, hbz, hbro, hbmax, A, B, hAB, hB⟩ := h
      simp only
      by_cases h1 : (b.2.ro && !cand.2.ro) = true
      · -- best is read-only, candidate is not: take the candidate
        rw [if_pos h1]
        simp only [Bool.and_eq_true, Bool.not_eq_true'] at h1
        refine ⟨by simp, hz, ?_, ?_, ⟨seen, [], by simp, by simp⟩⟩
        · intro x _ _ hc; rw [h1.2] at hc; cases hc
        · intro x hx hxz hxro
          rcases List.mem_append.mp hx with hx | hx
          · have := hbro x hx hxz h1.1
            rw [hxro, h1.2] at this; cases this
          · simp at hx; subst hx; exact idxLt_irrefl _
      · rw [if_neg h1]
        by_cases h2 : (cand.2.ro && !b.2.ro) = true
        · -- candidate is read-only, best is not: keep best
          rw [if_pos h2]
          simp only [Bool.and_eq_true, Bool.not_eq_true'] at h2
          refine ⟨by simp [hbm], hbz, ?_, ?_, ⟨A, B ++ [cand], by rw [hAB]; simp, ?_⟩⟩
          · intro x _ _ hc; rw [h2.2] at hc; cases hc
          · intro x hx hxz hxro
            rcases List.mem_append.mp hx with hx | hx
            · exact hbmax x hx hxz hxro
            · simp at hx; subst hx; rw [h2.1, h2.2] at hxro; cases hxro
          · intro x hx hxz
            rcases List.mem_append.mp hx with hx | hx
            · exact hB x hx hxz
            · simp at hx; subst hx; exact Or.inl ⟨h2.1, h2.2⟩
        · rw [if_neg h2]
          -- same read-only class
          have hsame : cand.2.ro = b.2.ro := by
            cases hc : cand.2.ro <;> cases hb : b.2.ro <;> simp [hc, hb] at h1 h2 ⊢
          by_cases h3 : idxLt (indexFromSuffix cand.1) (indexFromSuffix b.1) = true
          · rw [if_pos h3]
            refine ⟨by simp [hbm], hbz, ?_, ?_, ⟨A, B ++ [cand], by rw [hAB]; simp, ?_⟩⟩
            · intro x hx hxz hc
              rcases List.mem_append.mp hx with hx | hx
              · exact hbro x hx hxz hc
              · simp at hx; subst hx; rw [hsame]; exact hc
            · intro x hx hxz hxro
              rcases List.mem_append.mp hx with hx | hx
              · exact hbmax x hx hxz hxro
              · simp at hx; subst hx; exact idxLt_asymm _ _ h3
            · intro x hx hxz
              rcases List.mem_append.mp hx with hx | hx
              · exact hB x hx hxz
              · simp at hx; subst hx; exact Or.inr ⟨hsame, h3⟩
          · rw [if_neg h3]
            have h3' : idxLt (indexFromSuffix cand.1) (indexFromSuffix b.1) = false := by simpa using h3
            refine ⟨by simp, hz, ?_, ?_, ⟨seen, [], by simp, by simp⟩⟩
            · intro x hx hxz hc
              rcases List.mem_append.mp hx with hx | hx
              · exact hbro x hx hxz (by rw [← hsame]; exact hc)
              · simp at hx; subst hx; exact hc
            · intro x hx hxz hxro
              rcases List.mem_append.mp hx with hx | hx
              · exact idxLe_trans _ _ _ h3' (hbmax x hx hxz (by rw [hxro, hsame]))
              · simp at hx; subst hx; exact idxLt_irrefl _
  · have hz' : (cand.2.zone != zone) = true := by simp [hz]
    rw [hz']; simp only [if_true]
    cases best with
    | none =>
      simp only [PickInv] at h ⊢
      intro x hx
      rcases List.mem_append.mp hx with hx | hx
      · exact h x hx
      · simp at hx; subst hx; exact hz
    | some b =>
      obtain ⟨hbm, hbz, hbro, hbmax, A, B, hAB, hB⟩ := h
      refine ⟨by simp [hbm], hbz, ?_, ?_, ⟨A, B ++ [cand], by rw [hAB]; simp, ?_⟩⟩
      · intro x hx hxz hc
        rcases List.mem_append.mp hx with hx | hx
        · exact hbro x hx hxz hc
        · simp at hx; subst hx; exact absurd hxz hz
      · intro x hx hxz hxro
        rcases List.mem_append.mp hx with hx | hx
        · exact hbmax x hx hxz hxro
        · simp at hx; subst hx; exact absurd hxz hz
      · intro x hx hxz
        rcases List.mem_append.mp hx with hx | hx
        · exact hB x hx hxz
        · simp at hx; subst hx; exact absurd hxz hz

theorem foldl_pick_inv (zone : String) : ∀ (l seen : List Cand) (best : Option Cand),
    PickInv zone seen best → PickInv zone (seen ++ l) (l.foldl (pickStep zone) best)
  | [], seen, best, h => by simpa using h
  | c :: l, seen, best, h => by
    have := foldl_pick_inv zone l (seen ++ [c]) _ (pickStep_inv zone seen best c h)
    simpa using this

theorem pickHighest_inv (zone : String) (all : List Cand) : PickInv zone all (pickHighest zone all) := by
  have := foldl_pick_inv zone all [] none (by simp [PickInv])
  simpa [pickHighest] using this

/-! ### zones -/

theorem uniqueZones_loop_mem (l : List Ring.Inst) : ∀ (acc : List String) (z : String),
    z ∈ l.foldl (fun acc i => if acc.contains i.zone then acc else acc ++ [i.zone]) acc ↔
      z ∈ acc ∨ ∃ i ∈ l, i.zone = z := by
  induction l with
  | nil => intro acc z; simp
  | cons a l ih =>
    intro acc z
    simp only [List.foldl_cons]
    rw [ih]
    by_cases hc : acc.contains a.zone = true
    · simp only [hc, if_true]
      constructor
      · rintro (h | ⟨i, hi, hz⟩)
        · exact Or.inl h
        · exact Or.inr ⟨i, by simp [hi], hz⟩
      · rintro (h | ⟨i, hi, hz⟩)
        · exact Or.inl h
        · rcases List.mem_cons.mp hi with rfl | hi
          · left; rw [← hz]; simpa using hc
          · exact Or.inr ⟨i, hi, hz⟩
    · simp only [hc, if_false]
      constructor
      · rintro (h | ⟨i, hi, hz⟩)
        · rcases List.mem_append.mp h with h | h
          · exact Or.inl h
          · simp at h; exact Or.inr ⟨a, by simp, h.symm⟩
        · exact Or.inr ⟨i, by simp [hi], hz⟩
      · rintro (h | ⟨i, hi, hz⟩)
        · exact Or.inl (List.mem_append_left _ h)
        · rcases List.mem_cons.mp hi with rfl | hi
          · left; simp [hz]
          · exact Or.inr ⟨i, hi, hz⟩

theorem mem_uniqueZones (l : List Ring.Inst) (z : String) : z ∈ uniqueZones l ↔ ∃ i ∈ l, i.zone = z := by
  unfold uniqueZones
  rw [uniqueZones_loop_mem]; simp

/-- pointwise relation between two lists of the same length -/
inductive Forall2 {α β} (R : α → β → Prop) : List α → List β → Prop
  | nil : Forall2 R [] []
  | cons {a b l₁ l₂} : R a b → Forall2 R l₁ l₂ → Forall2 R (a :: l₁) (b :: l₂)

theorem Forall2.imp {α β} {R S : α → β → Prop} (hRS : ∀ a b, R a b → S a b) :
    ∀ {l : List α} {r : List β}, Forall2 R l r → Forall2 S l r
  | _, _, .nil => .nil
  | _, _, .cons h t => .cons (hRS _ _ h) (Forall2.imp hRS t)

theorem filterMap_all_some {α β} (f : α → Option β) : ∀ (l : List α), (∀ a ∈ l, (f a).isSome) →
    ∃ r : List β, l.filterMap f = r ∧ Forall2 (fun a b => f a = some b) l r
  | [], _ => ⟨[], rfl, Forall2.nil⟩
  | a :: l, h => by
    obtain ⟨r, hr, hf⟩ := filterMap_all_some f l (fun x hx => h x (by simp [hx]))
    cases ha : f a with
    | none => have := h a (by simp); rw [ha] at this; cases this
    | some b => exact ⟨b :: r, by simp [List.filterMap_cons, ha, hr], Forall2.cons ha hf⟩

/-- **multi-partition replication set**: on success there is exactly one member per zone of the healthy
registered owners (`multiFound`), in first-appearance order of the zones; each member is a healthy owner of
its zone, is non-read-only if its zone has a non-read-only healthy owner, and has the highest numeric id
suffix among the healthy owners of its zone and read-only class; `MaxUnavailableZones = #zones - 1`. -/
theorem multiReplSet_exact (d : PDesc) (insts : Ring.Desc) (hs : List Bool) (t now : Int) (pid : Int)
    (ids : List String) (mu : Nat) (h : multiReplSet d insts hs t now pid = .ok (ids, mu)) :
    let found := multiFound d insts hs t now pid
    let zones := uniqueZones (found.map (·.2))
    mu = zones.length - 1 ∧
    ∃ picks : List Cand, ids = picks.map (·.2.id) ∧
      Forall2 (fun z c => c ∈ found ∧ c.2.zone = z ∧
        (∀ x ∈ found, x.2.zone = z → c.2.ro = true → x.2.ro = true) ∧
        (∀ x ∈ found, x.2.zone = z → x.2.ro = c.2.ro → idxLt (indexFromSuffix c.1) (indexFromSuffix x.1) = false) ∧
        (∃ A B, found = A ++ c :: B ∧ ∀ x ∈ B, x.2.zone = z →
          (x.2.ro = true ∧ c.2.ro = false) ∨ (x.2.ro = c.2.ro ∧ idxLt (indexFromSuffix x.1) (indexFromSuffix c.1) = true)))
        zones picks := by
  intro found zones
  unfold multiReplSet at h
  simp only at h
  split at h
  · cases h
  · split at h
    · cases h
    · cases h
      refine ⟨rfl, ?_⟩
      have hall : ∀ z ∈ zones, (pickHighest z found).isSome := by
        intro z hz
        obtain ⟨i, hi, hiz⟩ := (mem_uniqueZones _ z).mp hz
        obtain ⟨c, hc, rfl⟩ := List.mem_map.mp hi
        have hinv := pickHighest_inv z found
        cases hp : pickHighest z found with
        | none => rw [hp] at hinv; exact absurd hiz (hinv c hc)
        | some _ => rfl
      obtain ⟨picks, hpicks, hf2⟩ := filterMap_all_some (fun z => pickHighest z found) zones hall
      refine ⟨picks, ?_, ?_⟩
      · rw [← hpicks]
        show zones.filterMap (fun z => (pickHighest z found).map (·.2.id)) = _
        rw [← List.filterMap_map_eq_filterMap_map_id_aux zones found]
      · apply Forall2.imp _ hf2
        intro z c hzc
        have hinv := pickHighest_inv z found
        rw [hzc] at hinv
        exact hinv
where
  List.filterMap_map_eq_filterMap_map_id_aux (zones : List String) (found : List Cand) :
      (zones.filterMap fun z => pickHighest z found).map (·.2.id) =
        zones.filterMap (fun z => (pickHighest z found).map (·.2.id)) := by
    induction zones with
    | nil => rfl
    | cons z zs ih =>
      cases hp : pickHighest z found <;> simp [List.filterMap_cons, hp, ih]

theorem mem_multiFound (d : PDesc) (insts : Ring.Desc) (hs : List Bool) (t now : Int) (pid : Int) (c : Cand) :
    c ∈ multiFound d insts hs t now pid ↔
      ∃ o ∈ d.owners, o.partition = pid ∧ c.1 = stripSuffix o.id ∧ insts.get? c.1 = some c.2 ∧
        isHealthy hs t now c.2 = true := by
  have hown : ∀ id, id ∈ ownerIDs d pid ↔ ∃ o ∈ d.owners, o.partition = pid ∧ o.id = id := by
    intro id; simp [ownerIDs, List.mem_map, List.mem_filter, and_assoc]
  unfold multiFound
  simp only [List.mem_filterMap, List.mem_map]
  constructor
  · rintro ⟨sid, ⟨oid, hoid, rfl⟩, hm⟩
    obtain ⟨o, ho, hp, rfl⟩ := (hown oid).mp hoid
    unfold healthyInst at hm
    cases hg : insts.get? (stripSuffix o.id) with
    | none => simp [hg] at hm
    | some j =>
      simp only [hg] at hm
      by_cases hh : isHealthy hs t now j = true
      · simp only [hh, if_true, Option.map_some, Option.some.injEq] at hm
        subst hm
        exact ⟨o, ho, hp, rfl, hg, hh⟩
      · simp [hh] at hm
  · rintro ⟨o, ho, hp, h1, hg, hh⟩
    refine ⟨stripSuffix o.id, ⟨o.id, (hown o.id).mpr ⟨o, ho, hp, rfl⟩, rfl⟩, ?_⟩
    rw [← h1]
    simp [healthyInst, hg, hh]

/-- the errors are exact -/
theorem multiReplSet_errors (d : PDesc) (insts : Ring.Desc) (hs : List Bool) (t now : Int) (pid : Int) :
    (multiReplSet d insts hs t now pid = .error .emptyRing ↔ ¬ ∃ o ∈ d.owners, o.partition = pid) ∧
    (multiReplSet d insts hs t now pid = .error .tooManyUnhealthy ↔
      (∃ o ∈ d.owners, o.partition = pid) ∧ multiFound d insts hs t now pid = []) := by
  have hown : ∀ id, id ∈ ownerIDs d pid ↔ ∃ o ∈ d.owners, o.partition = pid ∧ o.id = id := by
    intro id; simp [ownerIDs, List.mem_map, List.mem_filter, and_assoc]
  have hemp : ((ownerIDs d pid).map stripSuffix).isEmpty = true ↔ ¬ ∃ o ∈ d.owners, o.partition = pid := by
    constructor
    · intro he ⟨o, ho, hp⟩
      have : o.id ∈ ownerIDs d pid := (hown o.id).mpr ⟨o, ho, hp, rfl⟩
      have hnil : ownerIDs d pid = [] := by simpa using he
      rw [hnil] at this; cases this
    · intro hn
      cases hl : ownerIDs d pid with
      | nil => rfl
      | cons id rest =>
        obtain ⟨o, ho, hp, _⟩ := (hown id).mp (by rw [hl]; exact List.mem_cons_self)
        exact absurd ⟨o, ho, hp⟩ hn
  unfold multiReplSet
  simp only
  by_cases he : ((ownerIDs d pid).map stripSuffix).isEmpty = true
  · rw [if_pos he]
    have hn := hemp.mp he
    exact ⟨⟨fun _ => hn, fun _ => rfl⟩, ⟨(fun h => by cases h), fun h => absurd h.1 hn⟩⟩
  · rw [if_neg he]
    have hex : ∃ o ∈ d.owners, o.partition = pid := Classical.not_not.mp (fun hn => he (hemp.mpr hn))
    by_cases hf : (multiFound d insts hs t now pid).isEmpty = true
    · rw [if_pos hf]
      exact ⟨⟨(fun h => by cases h), fun h => absurd hex h⟩, ⟨fun _ => ⟨hex, by simpa using hf⟩, fun _ => rfl⟩⟩
    · rw [if_neg hf]
      exact ⟨⟨(fun h => by cases h), fun h => absurd hex h⟩,
        ⟨(fun h => by cases h), fun h => absurd (by simp [h.2]) hf⟩⟩

end PfC15
