import Model.C15
/-! C15 proofs: `GetReplicationSetForPartitionAndOperation` returns only healthy registered owners. -/
namespace PfC15
open C14 C15

theorem foldl_choice {α β} (f : Option α → β → Option α) (sel : β → α)
    (hf : ∀ b a, f b a = b ∨ f b a = some (sel a)) :
    ∀ (l : List β) (init : Option α), l.foldl f init = init ∨ ∃ a ∈ l, l.foldl f init = some (sel a)
  | [], init => Or.inl rfl
  | x :: l, init => by
    simp only [List.foldl_cons]
    rcases foldl_choice f sel hf l (f init x) with h | ⟨a, ha, h⟩
    · rcases hf init x with h' | h'
      · left; rw [h, h']
      · right; exact ⟨x, by simp, by rw [h, h']⟩
    · right; exact ⟨a, by simp [ha], h⟩

theorem pickStep_choice (zone : String) (b : Option (String × Ring.Inst)) (a : String × Ring.Inst) :
    pickStep zone b a = b ∨ pickStep zone b a = some a := by
  unfold pickStep
  split
  · exact Or.inl rfl
  · cases b with
    | none => exact Or.inr rfl
    | some hbest =>
      simp only
      split
      · exact Or.inr rfl
      · split
        · exact Or.inl rfl
        · split
          · exact Or.inl rfl
          · exact Or.inr rfl

theorem pickHighest_mem (zone : String) (all : List (String × Ring.Inst)) (c : String × Ring.Inst)
    (h : pickHighest zone all = some c) : c ∈ all := by
  unfold pickHighest at h
  rcases foldl_choice (pickStep zone) id (pickStep_choice zone) all none with h' | ⟨a, ha, h'⟩
  · rw [h'] at h; cases h
  · rw [h'] at h; cases h; exact ha

/-- members of the multi-partition replication set are healthy registered owners of the partition
(owner ids with the `/partition` suffix removed); the errors are exact. -/
theorem multiReplSet_members (d : PDesc) (insts : Ring.Desc) (hs : List Bool) (t now : Int) (pid : Int) :
    (∀ ids mu, multiReplSet d insts hs t now pid = .ok (ids, mu) →
      ∀ x ∈ ids, ∃ o ∈ d.owners, o.partition = pid ∧ ∃ i, insts.get? (stripSuffix o.id) = some i ∧
        isHealthy hs t now i = true ∧ i.id = x) ∧
    (multiReplSet d insts hs t now pid = .error .emptyRing ↔ ¬ ∃ o ∈ d.owners, o.partition = pid) := by
  have hown : ∀ id, id ∈ ownerIDs d pid ↔ ∃ o ∈ d.owners, o.partition = pid ∧ o.id = id := by
    intro id; simp [ownerIDs, List.mem_map, List.mem_filter, and_assoc]
  constructor
  · intro ids mu h x hx
    unfold multiReplSet at h
    simp only at h
    split at h
    · cases h
    · split at h
      · cases h
      · cases h
        obtain ⟨z, _, hz⟩ := List.mem_filterMap.mp hx
        cases hp : pickHighest z ((ownerIDs d pid).map stripSuffix |>.filterMap fun id =>
            (healthyInst insts hs t now id).map fun i => (id, i)) with
        | none => rw [hp] at hz; cases hz
        | some c =>
          rw [hp] at hz
          have hxid : c.2.id = x := by simpa using hz
          have hmem := pickHighest_mem z _ c hp
          obtain ⟨sid, hsid, hmap⟩ := List.mem_filterMap.mp hmem
          obtain ⟨oid, hoid, rfl⟩ := List.mem_map.mp hsid
          obtain ⟨o, ho, hpid, rfl⟩ := (hown oid).mp hoid
          cases hh : healthyInst insts hs t now (stripSuffix o.id) with
          | none => rw [hh] at hmap; cases hmap
          | some i =>
            rw [hh] at hmap
            have hc : c = (stripSuffix o.id, i) := by simpa using hmap.symm
            have hci : c.2 = i := by rw [hc]
            unfold healthyInst at hh
            cases hg : insts.get? (stripSuffix o.id) with
            | none => simp [hg] at hh
            | some j =>
              simp only [hg] at hh
              by_cases hhealthy : isHealthy hs t now j = true
              · simp only [hhealthy, if_true, Option.some.injEq] at hh
                exact ⟨o, ho, hpid, j, hg, hhealthy, by rw [hh, ← hci]; exact hxid⟩
              · simp [hhealthy] at hh
  · unfold multiReplSet
    simp only
    constructor
    · intro h
      split at h
      · rename_i hempty
        rintro ⟨o, ho, hp⟩
        have : o.id ∈ ownerIDs d pid := (hown o.id).mpr ⟨o, ho, hp, rfl⟩
        have hnil : ownerIDs d pid = [] := by simpa using hempty
        rw [hnil] at this; cases this
      · split at h <;> cases h
    · intro h
      split
      · rfl
      · rename_i hne
        exfalso; apply h
        cases hl : ownerIDs d pid with
        | nil => simp [hl] at hne
        | cons id rest =>
          obtain ⟨o, ho, hp, _⟩ := (hown id).mp (by rw [hl]; exact List.mem_cons_self)
          exact ⟨o, ho, hp⟩

end PfC15
