import Proofs.C15.Multi
/-! C15 proofs: `GetReplicationSetsForOperation` = `replSetFor` on every partition. -/
namespace PfC15
open C14 C15

theorem mapM_ok_iff {α β ε} (f : α → Except ε β) : ∀ (l : List α) (r : List β),
    l.mapM f = .ok r ↔ Forall2 (fun a b => f a = .ok b) l r
  | [], r => by
    simp only [List.mapM_nil, pure, Except.pure]
    constructor
    · intro h; cases h; exact .nil
    · intro h; cases h; rfl
  | a :: l, r => by
    rw [List.mapM_cons]
    cases ha : f a with
    | error e =>
      simp only [bind, Except.bind]
      constructor
      · intro h; cases h
      · intro h; cases h with | cons h1 _ => rw [ha] at h1; cases h1
    | ok b =>
      simp only [bind, Except.bind]
      cases hl : l.mapM f with
      | error e =>
        simp only [pure, Except.pure]
        constructor
        · intro h; cases h
        · intro h
          cases h with
          | cons h1 h2 =>
            have := (mapM_ok_iff f l _).mpr h2
            rw [hl] at this; cases this
      | ok bs =>
        simp only [pure, Except.pure]
        constructor
        · intro h; cases h
          exact .cons ha ((mapM_ok_iff f l bs).mp hl)
        · intro h
          cases h with
          | cons h1 h2 =>
            rw [ha] at h1; cases h1
            have := (mapM_ok_iff f l _).mpr h2
            rw [hl] at this; cases this; rfl

theorem mapM_error {α β ε} (f : α → Except ε β) : ∀ (l : List α) (e : ε),
    l.mapM f = .error e → ∃ a ∈ l, f a = .error e
  | [], e, h => by simp [pure, Except.pure] at h
  | a :: l, e, h => by
    rw [List.mapM_cons] at h
    cases ha : f a with
    | error e' =>
      simp only [ha, bind, Except.bind] at h
      cases h; exact ⟨a, by simp, ha⟩
    | ok b =>
      simp only [ha, bind, Except.bind] at h
      cases hl : l.mapM f with
      | error e' =>
        rw [hl] at h; simp only at h; cases h
        obtain ⟨x, hx, hfx⟩ := mapM_error f l e hl
        exact ⟨x, by simp [hx], hfx⟩
      | ok bs => rw [hl] at h; simp [pure, Except.pure] at h

theorem mapM_not_ok {α β ε} (f : α → Except ε β) (l : List α) (a : α) (e : ε) (ha : a ∈ l) (hf : f a = .error e) :
    ∀ r, l.mapM f ≠ .ok r := by
  intro r h
  have h2 := (mapM_ok_iff f l r).mp h
  clear h
  induction h2 with
  | nil => cases ha
  | cons h1 _ ih =>
    rcases List.mem_cons.mp ha with rfl | ha
    · rw [hf] at h1; cases h1
    · exact ih ha

theorem replSetFor_cases (d : PDesc) (insts : Ring.Desc) (hs : List Bool) (t now : Int) (pid : Int) :
    (∃ s, replSetFor d insts hs t now pid = .ok s) ∨ replSetFor d insts hs t now pid = .error .tooManyUnhealthy := by
  unfold replSetFor
  simp only
  split
  · exact Or.inr rfl
  · exact Or.inl ⟨_, rfl⟩

/-- `GetReplicationSetsForOperation`: one set per partition (in partition order), each the set of
`replSetFor`; "empty ring" iff there is no partition; "too many unhealthy" iff some partition has no
healthy owner. -/
theorem replSets_all (d : PDesc) (insts : Ring.Desc) (hs : List Bool) (t now : Int) :
    (∀ sets, replSets d insts hs t now = .ok sets ↔
      d.parts ≠ [] ∧ Forall2 (fun p s => replSetFor d insts hs t now p.id = .ok s) d.parts sets) ∧
    (replSets d insts hs t now = .error .emptyRing ↔ d.parts = []) ∧
    (replSets d insts hs t now = .error .tooManyUnhealthy ↔
      d.parts ≠ [] ∧ ∃ p ∈ d.parts, replSetFor d insts hs t now p.id = .error .tooManyUnhealthy) := by
  unfold replSets
  by_cases he : d.parts = []
  · simp [he]
  · have he' : d.parts.isEmpty = false := by simpa using he
    simp only [he', Bool.false_eq_true, if_false]
    refine ⟨?_, ?_, ?_⟩
    · intro sets
      rw [mapM_ok_iff]
      exact ⟨fun h => ⟨he, h⟩, fun h => h.2⟩
    · constructor
      · intro h
        obtain ⟨p, _, hp⟩ := mapM_error _ _ _ h
        rcases replSetFor_cases d insts hs t now p.id with ⟨s, hs'⟩ | hs'
        · rw [hs'] at hp; cases hp
        · rw [hs'] at hp; cases hp
      · intro h; exact absurd h he
    · constructor
      · intro h
        obtain ⟨p, hpm, hp⟩ := mapM_error _ _ _ h
        exact ⟨he, p, hpm, hp⟩
      · rintro ⟨_, p, hpm, hp⟩
        cases hm : d.parts.mapM (fun p => replSetFor d insts hs t now p.id) with
        | ok r => exact absurd hm (mapM_not_ok _ _ p _ hpm hp r)
        | error e =>
          obtain ⟨q, _, hq⟩ := mapM_error _ _ _ hm
          rcases replSetFor_cases d insts hs t now q.id with ⟨s, hs'⟩ | hs'
          · rw [hs'] at hq; cases hq
          · rw [hs'] at hq; cases hq; rfl

end PfC15
