import Proofs.C15
/-! # C15 — clocks with a sub-second part (`reconcileOthersMs`, `reconcileOwnedMs`) -/
namespace PfC15
open Common C14 C15

theorem unixSec_sub (nowMs k : Int) : unixSec (nowMs - k * 1000) = unixSec nowMs - k := by
  unfold unixSec; omega

theorem deletableMs_eq (d : PDesc) (c : Cfg) (nowMs : Int) (p : Part) :
    deletableMs d c nowMs p = deletable d c (unixSec nowMs) p := by
  unfold deletableMs deletable; rw [unixSec_sub]

/-- with whole-second delays the handler under a clock with a sub-second part is the handler under that clock's
`Unix()` second: everything it compares is a whole second -/
theorem reconcileOthersMs_eq (d : PDesc) (c : Cfg) (nowMs : Int) :
    reconcileOthersMs d c nowMs = reconcileOthers d c (unixSec nowMs) := by
  unfold reconcileOthersMs reconcileOthers
  have h : deletableMs d c nowMs = deletable d c (unixSec nowMs) := funext (deletableMs_eq d c nowMs)
  rw [h]

theorem reconcileOwnedMs_eq (d : PDesc) (c : Cfg) (nowMs : Int) :
    reconcileOwnedMs d c nowMs = reconcileOwned d c (unixSec nowMs) := by
  unfold reconcileOwnedMs reconcileOwned; rw [unixSec_sub]

/-- whatever instant within the stored second the state was really set at, a deleted partition has been
inactive for LONGER than the delay at the handler's (sub-second) clock -/
theorem reconcileOthersMs_guard (d d' : PDesc) (c : Cfg) (nowMs : Int) (h : reconcileOthersMs d c nowMs = .ok (some d')) :
    d'.owners = d.owners ∧ (∀ q ∈ d'.parts, q ∈ d.parts) ∧
    ∀ p ∈ d.parts, p ∉ d'.parts →
      c.deleteAfter > 0 ∧ p.id ≠ c.pid ∧ p.state = sInactive ∧ ownersCount d p.id = 0 ∧
      ∀ setAtMs : Int, setAtMs < (p.stateTs + 1) * 1000 → nowMs - setAtMs > c.deleteAfter * 1000 := by
  rw [reconcileOthersMs_eq] at h
  obtain ⟨h1, h2, h3⟩ := reconcileOthers_guard d d' c (unixSec nowMs) h
  refine ⟨h1, h2, fun p hp hnp => ?_⟩
  obtain ⟨a, b, c', e, f⟩ := h3 p hp hnp
  refine ⟨a, b, c', f, fun t ht => ?_⟩
  unfold unixSec at e; omega

end PfC15
