import Model.C15Cas
import Proofs.C15
/-! # C15 — every interleaving of foreign writes with a CAS call (`casRun`) -/
namespace PfC15
open Common C14 C15

theorem Foreign.trans {a b c : Cell} (h1 : Foreign a b) (h2 : Foreign b c) : Foreign a c := by
  induction h2 with
  | refl => exact h1
  | step t w _ ih => exact .step _ t w ih

theorem foreign_foldl (s : Cell) (ws : List Op) : Foreign s (ws.foldl Cell.foreign s) := by
  induction ws generalizing s with
  | nil => exact .refl s
  | cons w ws ih => exact Foreign.trans (.step s s w (.refl s)) (ih (s.foreign w))

theorem foreign_ver_eq {s t : Cell} (h : Foreign s t) : s.ver ≤ t.ver ∧ (t.ver = s.ver → t = s) := by
  induction h with
  | refl => exact ⟨Nat.le_refl _, fun _ => rfl⟩
  | step t w _ ih =>
    unfold Cell.foreign
    split
    · exact ⟨by simp; omega, fun h => by simp at h; omega⟩
    · exact ih

/-- **the commit is the closure's decision on the very value it commits against**: whenever a CAS call ends with a
write, there is a cell `fresh` — reached from the start through other actors' updates only — such that the closure,
run on `fresh.val`, answered exactly the value written, and the write is the NEXT version after `fresh` (nothing
slipped in between). Attempts on stale values leave no trace. -/
theorem casRun_commit (f : PDesc → Except C15.Err (Option PDesc)) (fuel : Nat) (s s' : Cell) (sched : List (List Op)) (d' : PDesc)
    (h : casRun f fuel s sched = (s', .done (.ok (some d')))) :
    ∃ fresh, Foreign s fresh ∧ f fresh.val = .ok (some d') ∧ s' = { val := d', ver := fresh.ver + 1 } := by
  induction fuel generalizing s sched with
  | zero => simp [casRun] at h
  | succ n ih =>
    unfold casRun at h
    have hf := foreign_foldl s (sched.headD [])
    split at h
    · rename_i x hx
      dsimp only at h
      split at h
      · simp only [Prod.mk.injEq, CasRes.done.injEq, Except.ok.injEq, Option.some.injEq] at h
        obtain ⟨h1, h2⟩ := h
        subst h2
        exact ⟨s, .refl s, hx, h1.symm⟩
      · obtain ⟨fresh, h1, h2, h3⟩ := ih _ _ h
        exact ⟨fresh, Foreign.trans hf h1, h2, h3⟩
    · rename_i r hr
      simp only [Prod.mk.injEq, CasRes.done.injEq] at h
      exact absurd h.2 (hr d')

/-- a call that ends without a write (closure error, "not changed", or attempts exhausted) leaves the cell as the
OTHER actors made it -/
theorem casRun_nowrite (f : PDesc → Except C15.Err (Option PDesc)) (fuel : Nat) (s s' : Cell) (sched : List (List Op)) (r : CasRes)
    (h : casRun f fuel s sched = (s', r)) (hr : ∀ d', r ≠ .done (.ok (some d'))) : Foreign s s' := by
  induction fuel generalizing s sched with
  | zero => simp [casRun] at h; rw [← h.1]; exact .refl s
  | succ n ih =>
    unfold casRun at h
    have hf := foreign_foldl s (sched.headD [])
    split at h
    · dsimp only at h
      split at h
      · simp only [Prod.mk.injEq] at h
        exact absurd h.2.symm (hr _)
      · exact Foreign.trans hf (ih _ _ h)
    · simp only [Prod.mk.injEq] at h
      rw [← h.1]; exact hf

end PfC15
