import Proofs.C03P
/-! Proofs for C03 (partition ring), part 2: the change reported by `PartitionRingDesc.mergeWithTime`
— its closed form, its sufficiency (into the pre-merge state and into any replica containing it), "nil
change ⇒ untouched state" for every mode, exactness of the nil change, and absorption of re-delivered
updates. -/
namespace PfC03P
open C03P

/-! ## folding "read, combine, write back" over a state list and a change list at once -/
section AL2
variable {α κ : Type} [DecidableEq κ] (key : α → κ)

def step2 (step : Option α → α → Option α) (s : List α × List α) (o : α) : List α × List α :=
  (wb key (step (getG key s.1 (key o)) o) s.1, wb key (step (getG key s.1 (key o)) o) s.2)

theorem foldl_step2_fst (step : Option α → α → Option α) (os : List α) (s : List α × List α) :
    (os.foldl (step2 key step) s).1 = os.foldl (fun l o => wb key (step (getG key l (key o)) o) l) s.1 := by
  induction os generalizing s with
  | nil => rfl
  | cons o os ih => rw [List.foldl_cons, List.foldl_cons, ih]; rfl

/-- the change list holds, for every incoming key, what the step wrote for it (first visit only:
keys of `os` are unique) -/
theorem getG_foldl_step2 (step : Option α → α → Option α)
    (hkey : ∀ t o p, (∀ x, t = some x → key x = key o) → step t o = some p → key p = key o)
    (os : List α) (s : List α × List α) (k : κ) (hn : (os.map key).Nodup) :
    getG key (os.foldl (step2 key step) s).2 k =
      sel (getG key os k) (getG key s.2 k) (fun o => pickO (step (getG key s.1 k) o) (getG key s.2 k)) := by
  induction os generalizing s with
  | nil => simp [getG, sel]
  | cons o os ih =>
    simp only [List.map_cons, List.nodup_cons] at hn
    rw [List.foldl_cons, ih _ hn.2]
    have hstep : ∀ (l : List α) k', getG key (wb key (step (getG key s.1 (key o)) o) l) k' =
        if k' = key o then pickO (step (getG key s.1 (key o)) o) (getG key l k') else getG key l k' := by
      intro l k'
      rw [getG_wb]
      cases hs : step (getG key s.1 (key o)) o with
      | none => simp only [pickO]; split <;> rfl
      | some p =>
        simp only [pickO]
        rw [hkey _ _ _ (fun x hx => getG_key key hx) hs]
    rw [getG_cons key o os k]
    by_cases hk : key o = k
    · have hnone : getG key os k = none := (getG_none_iff key).2 (by rw [← hk]; exact hn.1)
      rw [if_pos hk, hnone]
      simp only [sel, step2]
      rw [hstep s.2 k, if_pos hk.symm, ← hk]
    · rw [if_neg hk]
      have hk' : ¬ k = key o := fun e => hk e.symm
      cases hg : getG key os k with
      | none => simp only [sel, step2]; rw [hstep s.2 k, if_neg hk']
      | some o' => simp only [sel, step2]; rw [hstep s.2 k, if_neg hk', hstep s.1 k, if_neg hk']

theorem foldl_step2_snd_nodup (step : Option α → α → Option α) (os : List α) (s : List α × List α)
    (hn : (s.2.map key).Nodup) : ((os.foldl (step2 key step) s).2.map key).Nodup := by
  induction os generalizing s with
  | nil => exact hn
  | cons o os ih =>
    rw [List.foldl_cons]; apply ih
    unfold step2 wb; simp only
    split
    · exact hn
    · exact upsertG_nodup key _ _ hn

theorem eq_nil_iff_getG (l : List α) : l = [] ↔ ∀ k, getG key l k = none := by
  constructor
  · intro h k; subst h; rfl
  · intro h
    cases l with
    | nil => rfl
    | cons x xs => have := h (key x); simp [getG] at this

theorem getG_of_mem_nodup {l : List α} {x : α} (hn : (l.map key).Nodup) (hx : x ∈ l) :
    getG key l (key x) = some x := by
  induction l with
  | nil => simp at hx
  | cons y ys ih =>
    simp only [List.map_cons, List.nodup_cons] at hn
    rw [getG_cons]
    rcases List.mem_cons.1 hx with rfl | hx
    · simp
    · have : key y ≠ key x := by
        intro e; apply hn.1; rw [e]; exact List.mem_map.2 ⟨x, hx, rfl⟩
      rw [if_neg this]; exact ih hn.2 hx

end AL2

/-! ## the accumulated change of a gossip merge -/

theorem stepPart_eq (acc : Acc) (o : Part) :
    ((stepPart acc o).this.parts, (stepPart acc o).chP) = step2 Part.id mergePart (acc.this.parts, acc.chP) o ∧
    (stepPart acc o).this.owners = acc.this.owners ∧ (stepPart acc o).chO = acc.chO := by
  unfold stepPart step2
  rw [getP_eq]
  cases h : mergePart (getG Part.id acc.this.parts o.id) o with
  | none => exact ⟨rfl, rfl, rfl⟩
  | some p => exact ⟨by simp only [wb, upsertP_eq], rfl, rfl⟩

theorem foldl_stepPart_eq (ps : List Part) (acc : Acc) :
    ((ps.foldl stepPart acc).this.parts, (ps.foldl stepPart acc).chP) =
      ps.foldl (step2 Part.id mergePart) (acc.this.parts, acc.chP) ∧
    (ps.foldl stepPart acc).this.owners = acc.this.owners ∧ (ps.foldl stepPart acc).chO = acc.chO := by
  induction ps generalizing acc with
  | nil => exact ⟨rfl, rfl, rfl⟩
  | cons o os ih =>
    rw [List.foldl_cons, List.foldl_cons]
    obtain ⟨h1, h2, h3⟩ := ih (stepPart acc o)
    obtain ⟨g1, g2, g3⟩ := stepPart_eq acc o
    rw [h1, h2, h3, g1, g2, g3]
    exact ⟨rfl, rfl, rfl⟩

theorem stepOwner_eq (acc : Acc) (o : Owner) :
    ((stepOwner acc o).this.owners, (stepOwner acc o).chO) = step2 Owner.id ownerStepFn (acc.this.owners, acc.chO) o ∧
    (stepOwner acc o).this.parts = acc.this.parts ∧ (stepOwner acc o).chP = acc.chP := by
  unfold stepOwner step2 ownerStepFn
  rw [getO_eq]
  by_cases h : ownerAccept (getG Owner.id acc.this.owners o.id) o = true
  · rw [if_pos h]; exact ⟨by simp only [if_pos h, wb, upsertO_eq], rfl, rfl⟩
  · rw [if_neg h]; exact ⟨by simp only [if_neg h, wb], rfl, rfl⟩

theorem foldl_stepOwner_eq (os : List Owner) (acc : Acc) :
    ((os.foldl stepOwner acc).this.owners, (os.foldl stepOwner acc).chO) =
      os.foldl (step2 Owner.id ownerStepFn) (acc.this.owners, acc.chO) ∧
    (os.foldl stepOwner acc).this.parts = acc.this.parts ∧ (os.foldl stepOwner acc).chP = acc.chP := by
  induction os generalizing acc with
  | nil => exact ⟨rfl, rfl, rfl⟩
  | cons o os ih =>
    rw [List.foldl_cons, List.foldl_cons]
    obtain ⟨h1, h2, h3⟩ := ih (stepOwner acc o)
    obtain ⟨g1, g2, g3⟩ := stepOwner_eq acc o
    rw [h1, h2, h3, g1, g2, g3]
    exact ⟨rfl, rfl, rfl⟩

/-- the two change maps accumulated by a gossip merge of `b` into `a` -/
def chOf (a b : PDesc) : PDesc :=
  { parts := (b.parts.foldl (step2 Part.id mergePart) (a.parts, [])).2,
    owners := (b.owners.foldl (step2 Owner.id ownerStepFn) (a.owners, [])).2 }

theorem merge_change_eq (a b : PDesc) :
    (merge false 0 a b).change =
      if (chOf a b).parts.isEmpty ∧ (chOf a b).owners.isEmpty then none else some (chOf a b) := by
  unfold merge chOf
  simp only [Bool.false_eq_true, if_false]
  obtain ⟨h1, h2, h3⟩ := foldl_stepPart_eq b.parts { this := a, chP := [], chO := [] }
  obtain ⟨g1, g2, g3⟩ := foldl_stepOwner_eq b.owners (b.parts.foldl stepPart { this := a, chP := [], chO := [] })
  have e1 : (b.owners.foldl stepOwner (b.parts.foldl stepPart { this := a, chP := [], chO := [] })).chP =
      (b.parts.foldl (step2 Part.id mergePart) (a.parts, [])).2 := by
    rw [g3]; exact congrArg Prod.snd h1
  have e2 : (b.owners.foldl stepOwner (b.parts.foldl stepPart { this := a, chP := [], chO := [] })).chO =
      (b.owners.foldl (step2 Owner.id ownerStepFn) (a.owners, [])).2 := by
    have := congrArg Prod.snd g1
    simp only at this
    rw [this, h2, h3]
  rw [e1, e2]
  split <;> rfl

theorem ownerStepFn_key (t : Option Owner) (o p : Owner) (h : ownerStepFn t o = some p) : p = o := by
  unfold ownerStepFn at h
  by_cases hacc : ownerAccept t o = true
  · rw [if_pos hacc] at h; injection h with h; exact h.symm
  · rw [if_neg hacc] at h; simp at h

/-- the change holds, for every incoming partition, what the per-partition merge reported … -/
theorem chOf_parts (a b : PDesc) (hb : (b.parts.map Part.id).Nodup) (k : Int) :
    getP (chOf a b).parts k = (getP b.parts k).bind (fun o => mergePart (getP a.parts k) o) := by
  rw [getP_eq, getP_eq, getP_eq]
  unfold chOf
  simp only
  rw [getG_foldl_step2 Part.id mergePart (fun t o p ht h => mergePart_key t o p ht h) b.parts _ k hb]
  cases getG Part.id b.parts k with
  | none => rfl
  | some o =>
    simp only [sel, Option.bind_some]
    cases mergePart (getG Part.id a.parts k) o <;> rfl

/-- … and, for every incoming owner, the owner entry iff it was accepted -/
theorem chOf_owners (a b : PDesc) (hb : (b.owners.map Owner.id).Nodup) (k : String) :
    getO (chOf a b).owners k = (getO b.owners k).bind (fun o => ownerStepFn (getO a.owners k) o) := by
  rw [getO_eq, getO_eq, getO_eq]
  unfold chOf
  simp only
  rw [getG_foldl_step2 Owner.id ownerStepFn (fun t o p _ h => by rw [ownerStepFn_key t o p h]) b.owners _ k hb]
  cases getG Owner.id b.owners k with
  | none => rfl
  | some o =>
    simp only [sel, Option.bind_some]
    cases ownerStepFn (getG Owner.id a.owners k) o <;> rfl

theorem chOf_wf (a b : PDesc) (hb : WF b) : WF (chOf a b) := by
  refine ⟨foldl_step2_snd_nodup Part.id _ _ _ (by simp), foldl_step2_snd_nodup Owner.id _ _ _ (by simp), ?_⟩
  intro o ho
  have hn : ((chOf a b).owners.map Owner.id).Nodup := foldl_step2_snd_nodup Owner.id _ _ _ (by simp)
  have hg := getG_of_mem_nodup Owner.id hn ho
  rw [← getO_eq, chOf_owners a b hb.on] at hg
  cases hbo : getO b.owners o.id with
  | none => rw [hbo] at hg; simp at hg
  | some x =>
    rw [hbo] at hg
    simp only [Option.bind_some] at hg
    rw [← ownerStepFn_key _ _ _ hg] at hbo
    rw [getO_eq] at hbo
    exact hb.opos o (getG_mem Owner.id hbo)

/-! ## containment, sufficiency -/

/-- `s` already contains the state `a`: every partition of `a` is known to `s` with registers at
least as new, every owner of `a` is present in `s` at least as new. -/
structure Contains (a s : PDesc) : Prop where
  parts : ∀ k x, getP a.parts k = some x →
    ∃ y, getP s.parts k = some y ∧ srk (sreg x) ≤ srk (sreg y) ∧ lrk (lreg x) ≤ lrk (lreg y)
  owners : ∀ k, orkO (getO a.owners k) ≤ orkO (getO s.owners k)

theorem contains_refl (a : PDesc) : Contains a a :=
  ⟨fun _ x hx => ⟨x, hx, Int.le_refl _, Int.le_refl _⟩, fun _ => Int.le_refl _⟩

theorem pc_orkO_joinO (t o : Option Owner) : orkO (joinO t o) = max (orkO t) (orkO o) := by
  unfold joinO; split <;> omega

theorem srk_combine (t o : Part) : srk (sreg (combine t o)) = max (srk (sreg t)) (srk (sreg o)) := by
  rw [sreg_combine]; exact r_lmax srk _ _

theorem lrk_combine (t o : Part) : lrk (lreg (combine t o)) = max (lrk (lreg t)) (lrk (lreg o)) := by
  rw [lreg_combine]; exact r_lmax lrk _ _

/-- a replica that merged anything on top of `a` contains `a` -/
theorem contains_merge (a c : PDesc) (ha : WF a) (hc : WF c) : Contains a (mergeState a c) := by
  refine ⟨?_, ?_⟩
  · intro k x hx
    rw [view_parts a c hc k, hx]
    cases getP c.parts k with
    | none => exact ⟨x, rfl, Int.le_refl _, Int.le_refl _⟩
    | some o =>
      refine ⟨combine x o, rfl, ?_, ?_⟩
      · rw [srk_combine]; omega
      · rw [lrk_combine]; omega
  · intro k
    rw [view_owners a c ha hc k, pc_orkO_joinO]; omega

theorem mergePart_none_iff (t o : Part) :
    mergePart (some t) o = none ↔ ¬ srk (sreg t) < srk (sreg o) ∧ ¬ lrk (lreg t) < lrk (lreg o) := by
  unfold mergePart
  simp only [← srk_lt_iff, ← lrk_lt_iff]
  by_cases h1 : srk (sreg t) < srk (sreg o) <;> by_cases h2 : lrk (lreg t) < lrk (lreg o) <;> simp [h1, h2]

theorem lmax_left {β : Type} (r : β → Int) (x y : β) (h : ¬ r x < r y) : lmax r x y = x := by
  unfold lmax; rw [if_neg h]

theorem lmax_absorb {β : Type} (r : β → Int) (x y o : β) (h : r x ≤ r y) : lmax r y (lmax r x o) = lmax r y o := by
  unfold lmax
  by_cases h1 : r x < r o <;> by_cases h2 : r y < r o <;> simp [h1, h2] <;> omega

theorem combine_left (y o : Part) (h1 : ¬ srk (sreg y) < srk (sreg o)) (h2 : ¬ lrk (lreg y) < lrk (lreg o)) :
    combine y o = y := by
  unfold combine; rw [lmax_left srk _ _ h1, lmax_left lrk _ _ h2, mk_self]

theorem combine_absorb (y t o : Part) (h1 : srk (sreg t) ≤ srk (sreg y)) (h2 : lrk (lreg t) ≤ lrk (lreg y)) :
    combine y (combine t o) = combine y o := by
  unfold combine
  rw [show sreg (mk t (lmax srk (sreg t) (sreg o)) (lmax lrk (lreg t) (lreg o))) = lmax srk (sreg t) (sreg o) from rfl,
      show lreg (mk t (lmax srk (sreg t) (sreg o)) (lmax lrk (lreg t) (lreg o))) = lmax lrk (lreg t) (lreg o) from rfl,
      lmax_absorb srk _ _ _ h1, lmax_absorb lrk _ _ _ h2]

/-- **sufficiency of the reported change** (partition ring): merged into any replica `s` that contains
the pre-merge state `a` — in particular into `a` itself — it gives the same content as merging the
full incoming descriptor `b`. -/
theorem change_sufficient_view (a b s ch : PDesc) (ha : WF a) (hb : WF b) (hs : WF s) (hc : Contains a s)
    (hch : (merge false 0 a b).change = some ch) : Equiv (mergeState s ch) (mergeState s b) := by
  have hce : ch = chOf a b := by
    rw [merge_change_eq] at hch
    split at hch
    · simp at hch
    · injection hch with hch; exact hch.symm
  subst hce
  have hcw := chOf_wf a b hb
  refine ⟨fun k => ?_, fun k => ?_⟩
  · rw [view_parts s _ hcw k, view_parts s b hb k, chOf_parts a b hb.pn k]
    cases hbk : getP b.parts k with
    | none => rfl
    | some o =>
      simp only [Option.bind_some]
      cases hak : getP a.parts k with
      | none => simp [mergePart]
      | some t =>
        obtain ⟨y, hy, hs1, hs2⟩ := hc.parts k t hak
        rw [hy]
        have hsome := mergePart_some t o
        cases hm : mergePart (some t) o with
        | none =>
          obtain ⟨n1, n2⟩ := (mergePart_none_iff t o).1 hm
          simp only [joinP]
          rw [combine_left y o (by omega) (by simp only [lrk] at *; omega)]
        | some p =>
          rw [hm] at hsome
          injection hsome with hsome
          subst hsome
          simp only [joinP]
          rw [combine_absorb y t o hs1 hs2]
  · rw [view_owners s _ hs hcw k, view_owners s b hs hb k, chOf_owners a b hb.on k]
    cases hbk : getO b.owners k with
    | none => rfl
    | some o =>
      simp only [Option.bind_some, ownerStepFn]
      have hopos : o.ts ≥ 1 := by rw [getO_eq] at hbk; exact getO_pos hb k o hbk
      have hapos : ∀ x, getO a.owners k = some x → x.ts ≥ 1 := by
        intro x hx; rw [getO_eq] at hx; exact getO_pos ha k x hx
      rw [ownerAccept_iff _ o hopos hapos]
      by_cases hlt : orkO (getO a.owners k) < ork o
      · rw [if_pos (by simpa using hlt)]
      · rw [if_neg (by simpa using hlt)]
        unfold joinO
        have h0 : orkO (none : Option Owner) = 0 := rfl
        have h1 : orkO (some o) = ork o := rfl
        have hnn : orkO (getO s.owners k) ≥ 0 := by rw [getO_eq]; exact orkO_nonneg hs k
        have hco := hc.owners k
        rw [h0, h1, if_neg (by omega), if_neg (by omega)]

/-! ## nil change -/

theorem upsertP_ne_nil (e : Part) (l : List Part) : upsertP e l ≠ [] := by
  cases l with
  | nil => simp [upsertP]
  | cons x xs => unfold upsertP; split <;> simp

theorem upsertO_ne_nil (e : Owner) (l : List Owner) : upsertO e l ≠ [] := by
  cases l with
  | nil => simp [upsertO]
  | cons x xs => unfold upsertO; split <;> simp

def NoCh (acc : Acc) : Prop := acc.chP = [] ∧ acc.chO = []

/-- a step that leaves both change lists empty did nothing at all -/
def Quiet (f : Acc → α → Acc) : Prop := ∀ acc o, NoCh (f acc o) → f acc o = acc

theorem foldl_quiet {α : Type} (f : Acc → α → Acc) (hf : Quiet f) (l : List α) (acc : Acc)
    (h : NoCh (l.foldl f acc)) : l.foldl f acc = acc := by
  induction l generalizing acc with
  | nil => rfl
  | cons o os ih =>
    rw [List.foldl_cons] at h ⊢
    have h1 := ih _ h
    rw [h1] at h ⊢
    exact hf acc o h

theorem stepPart_quiet : Quiet stepPart := by
  intro acc o h
  unfold stepPart at h ⊢
  split
  · rfl
  · rename_i p hp
    rw [hp] at h
    exact absurd h.1 (upsertP_ne_nil _ _)

theorem casPart_quiet (other : PDesc) (now : Int) : Quiet (casPart other now) := by
  intro acc t h
  unfold casPart at h ⊢
  split
  · rename_i hc
    rw [if_pos hc] at h
    exact absurd h.1 (upsertP_ne_nil _ _)
  · rfl

theorem stepOwner_quiet : Quiet stepOwner := by
  intro acc o h
  unfold stepOwner at h ⊢
  split
  · rename_i hc
    rw [if_pos hc] at h
    exact absurd h.2 (upsertO_ne_nil _ _)
  · rfl

theorem casOwner_quiet (other : PDesc) (now : Int) : Quiet (casOwner other now) := by
  intro acc t h
  unfold casOwner at h ⊢
  split
  · rename_i hc
    rw [if_pos hc] at h
    exact absurd h.2 (upsertO_ne_nil _ _)
  · rfl

/-- a merge (gossip or local CAS, any clock, any inputs) that reports no change leaves the state
untouched — literally -/
theorem no_change_no_effect (cas : Bool) (now : Int) (a b : PDesc)
    (h : (merge cas now a b).change = none) : (merge cas now a b).state = a := by
  have hq : ∀ acc : Acc, acc.chP.isEmpty = true ∧ acc.chO.isEmpty = true → NoCh acc := by
    intro acc ⟨h1, h2⟩; exact ⟨by simpa using h1, by simpa using h2⟩
  cases cas with
  | false =>
    unfold merge at h ⊢
    simp only [Bool.false_eq_true, if_false] at h ⊢
    split at h
    · rename_i hnil
      rw [if_pos hnil]
      have h4 := hq _ hnil
      have e4 := foldl_quiet stepOwner stepOwner_quiet _ _ h4
      rw [e4] at h4 ⊢
      have e3 := foldl_quiet stepPart stepPart_quiet _ _ h4
      rw [e3]
    · simp at h
  | true =>
    unfold merge at h ⊢
    simp only [if_true] at h ⊢
    split at h
    · rename_i hnil
      rw [if_pos hnil]
      have h4 := hq _ hnil
      have e4 := foldl_quiet (casOwner b now) (casOwner_quiet b now) _ _ h4
      rw [e4] at h4 ⊢
      have e3 := foldl_quiet stepOwner stepOwner_quiet _ _ h4
      rw [e3] at h4 ⊢
      have e2 := foldl_quiet (casPart b now) (casPart_quiet b now) _ _ h4
      rw [e2] at h4 ⊢
      have e1 := foldl_quiet stepPart stepPart_quiet _ _ h4
      rw [e1]
    · simp at h

/-- a gossip merge reports no change exactly when nothing incoming is newer: every incoming partition
is known with both registers at least as new, every incoming owner is present at least as new -/
theorem no_change_iff (a b : PDesc) (ha : WF a) (hb : WF b) :
    (merge false 0 a b).change = none ↔
      (∀ k o, getP b.parts k = some o → ∃ t, getP a.parts k = some t ∧
          srk (sreg o) ≤ srk (sreg t) ∧ lrk (lreg o) ≤ lrk (lreg t)) ∧
      (∀ k, orkO (getO b.owners k) ≤ orkO (getO a.owners k)) := by
  rw [merge_change_eq]
  have hP : (chOf a b).parts = [] ↔ ∀ k o, getP b.parts k = some o → ∃ t, getP a.parts k = some t ∧
      srk (sreg o) ≤ srk (sreg t) ∧ lrk (lreg o) ≤ lrk (lreg t) := by
    rw [eq_nil_iff_getG Part.id]
    constructor
    · intro h k o ho
      have := h k
      rw [← getP_eq, chOf_parts a b hb.pn k, ho] at this
      simp only [Option.bind_some] at this
      cases hak : getP a.parts k with
      | none => rw [hak] at this; simp [mergePart] at this
      | some t =>
        rw [hak] at this
        obtain ⟨n1, n2⟩ := (mergePart_none_iff t o).1 this
        exact ⟨t, rfl, by omega, by omega⟩
    · intro h k
      rw [← getP_eq, chOf_parts a b hb.pn k]
      cases hbk : getP b.parts k with
      | none => rfl
      | some o =>
        obtain ⟨t, ht, h1, h2⟩ := h k o hbk
        simp only [Option.bind_some]
        rw [ht]
        exact (mergePart_none_iff t o).2 ⟨by omega, by omega⟩
  have hO : (chOf a b).owners = [] ↔ ∀ k, orkO (getO b.owners k) ≤ orkO (getO a.owners k) := by
    rw [eq_nil_iff_getG Owner.id]
    have key : ∀ k, getG Owner.id (chOf a b).owners k = none ↔ orkO (getO b.owners k) ≤ orkO (getO a.owners k) := by
      intro k
      rw [← getO_eq, chOf_owners a b hb.on k]
      have hann : orkO (getO a.owners k) ≥ 0 := by rw [getO_eq]; exact orkO_nonneg ha k
      cases hbk : getO b.owners k with
      | none =>
        have h0 : orkO (none : Option Owner) = 0 := rfl
        rw [h0]; simp only [Option.bind_none, true_iff]; omega
      | some o =>
        simp only [Option.bind_some, ownerStepFn]
        have hopos : o.ts ≥ 1 := by rw [getO_eq] at hbk; exact getO_pos hb k o hbk
        have hapos : ∀ x, getO a.owners k = some x → x.ts ≥ 1 := by
          intro x hx; rw [getO_eq] at hx; exact getO_pos ha k x hx
        rw [ownerAccept_iff _ o hopos hapos]
        have h1 : orkO (some o) = ork o := rfl
        rw [h1]
        by_cases hlt : orkO (getO a.owners k) < ork o
        · rw [if_pos (by simpa using hlt)]; simp only [reduceCtorEq, false_iff]; omega
        · rw [if_neg (by simpa using hlt)]; simp only [true_iff]; omega
    exact ⟨fun h k => (key k).1 (h k), fun h k => (key k).2 (h k)⟩
  constructor
  · intro h
    split at h
    · rename_i hnil
      exact ⟨hP.1 (by simpa using hnil.1), hO.1 (by simpa using hnil.2)⟩
    · simp at h
  · rintro ⟨h1, h2⟩
    rw [if_pos ⟨by simpa using hP.2 h1, by simpa using hO.2 h2⟩]

/-! ## absorption of re-delivered updates -/

/-- the value `v` of a key dominates the incoming value `o` -/
def DomP (v o : Option Part) : Prop :=
  ∀ x, o = some x → ∃ t, v = some t ∧ srk (sreg x) ≤ srk (sreg t) ∧ lrk (lreg x) ≤ lrk (lreg t)

theorem joinP_of_dom {v o : Option Part} (h : DomP v o) : joinP v o = v := by
  cases o with
  | none => cases v <;> rfl
  | some x =>
    obtain ⟨t, rfl, h1, h2⟩ := h x rfl
    simp only [joinP]
    rw [combine_left t x (by omega) (by simp only [lrk] at *; omega)]

theorem dom_joinP_self (v o : Option Part) : DomP (joinP v o) o := by
  intro x hx
  subst hx
  cases v with
  | none => exact ⟨x, rfl, Int.le_refl _, Int.le_refl _⟩
  | some t =>
    refine ⟨combine t x, rfl, ?_, ?_⟩
    · rw [srk_combine]; omega
    · rw [lrk_combine]; omega

theorem dom_joinP_mono {v o : Option Part} (y : Option Part) (h : DomP v o) : DomP (joinP v y) o := by
  intro x hx
  obtain ⟨t, rfl, h1, h2⟩ := h x hx
  cases y with
  | none => exact ⟨t, rfl, h1, h2⟩
  | some z =>
    refine ⟨combine t z, rfl, ?_, ?_⟩
    · rw [srk_combine]; omega
    · rw [lrk_combine]; omega

theorem dom_foldl (l : List PDesc) (v : Option Part) (k : Int) (o : Option Part) (h : DomP v o) :
    DomP (l.foldl (fun v d => joinP v (getP d.parts k)) v) o := by
  induction l generalizing v with
  | nil => exact h
  | cons d ds ih => rw [List.foldl_cons]; exact ih _ (dom_joinP_mono _ h)

theorem dom_foldl_mem (l : List PDesc) (v : Option Part) (k : Int) (d : PDesc) (hd : d ∈ l) :
    DomP (l.foldl (fun v d => joinP v (getP d.parts k)) v) (getP d.parts k) := by
  induction l generalizing v with
  | nil => simp at hd
  | cons x xs ih =>
    rw [List.foldl_cons]
    rcases List.mem_cons.1 hd with rfl | hd
    · exact dom_foldl xs _ k _ (dom_joinP_self v _)
    · exact ih _ hd

theorem pc_orkO_foldl_ge (l : List PDesc) (v : Option Owner) (k : String) :
    orkO v ≤ orkO (l.foldl (fun v d => joinO v (getO d.owners k)) v) := by
  induction l generalizing v with
  | nil => exact Int.le_refl _
  | cons d ds ih =>
    rw [List.foldl_cons]
    have := ih (joinO v (getO d.owners k))
    rw [pc_orkO_joinO] at this
    omega

theorem pc_orkO_foldl_ge_mem (l : List PDesc) (v : Option Owner) (k : String) (d : PDesc) (hd : d ∈ l) :
    orkO (getO d.owners k) ≤ orkO (l.foldl (fun v d => joinO v (getO d.owners k)) v) := by
  induction l generalizing v with
  | nil => simp at hd
  | cons x xs ih =>
    rw [List.foldl_cons]
    rcases List.mem_cons.1 hd with rfl | hd
    · have := pc_orkO_foldl_ge xs (joinO v (getO d.owners k)) k
      rw [pc_orkO_joinO] at this
      omega
    · exact ih _ hd

theorem pc_joinO_of_ge {t o : Option Owner} (h : orkO o ≤ orkO t) : joinO t o = t := by
  unfold joinO; rw [if_neg (by omega)]

/-- delivering again an update that was already merged (any multiplicity) changes nothing -/
theorem converge_dup (s : PDesc) (l : List PDesc) (d : PDesc) (hs : WF s) (hl : ∀ d ∈ l, WF d) (hd : d ∈ l) :
    Equiv (mergeState (l.foldl mergeState s) d) (l.foldl mergeState s) := by
  refine ⟨fun k => ?_, fun k => ?_⟩
  · rw [view_parts _ d (hl d hd) k, foldl_view_parts s l hl k]
    exact joinP_of_dom (dom_foldl_mem l _ k d hd)
  · rw [view_owners _ d (foldl_wf s l hs hl) (hl d hd) k, foldl_view_owners s l hs hl k]
    exact pc_joinO_of_ge (pc_orkO_foldl_ge_mem l (getO s.owners k) k d hd)

/-- coherence from a check over the members (decidable on concrete descriptors) -/
theorem coherent_of_mem (a b : PDesc)
    (hp : ∀ x ∈ a.parts, ∀ y ∈ b.parts, x.id = y.id →
      x.tokens = y.tokens ∧ (srk (sreg x) = srk (sreg y) → sreg x = sreg y) ∧ (lrk (lreg x) = lrk (lreg y) → lreg x = lreg y))
    (ho : ∀ x ∈ a.owners, ∀ y ∈ b.owners, x.id = y.id → ork x = ork y → x = y) : Coherent a b := by
  refine ⟨?_, ?_⟩
  · intro k x y hx hy
    rw [getP_eq] at hx hy
    have hid : x.id = y.id := by rw [getG_key Part.id hx, getG_key Part.id hy]
    obtain ⟨h1, h2, h3⟩ := hp x (getG_mem Part.id hx) y (getG_mem Part.id hy) hid
    exact ⟨hid, h1, h2, h3⟩
  · intro k x y hx hy h
    rw [getO_eq] at hx hy
    have hid : x.id = y.id := by rw [getG_key Owner.id hx, getG_key Owner.id hy]
    exact ho x (getG_mem Owner.id hx) y (getG_mem Owner.id hy) hid h

end PfC03P
