"""Per-property configuration of bin/check."""

COMMON_TRUSTED = [
    "Lean 4.33.0 kernel (thorough tier: re-checked by leanchecker); axioms allowed: propext, Classical.choice, Quot.sound; no sorry/native_decide/bv_decide/own axioms (grep + #print axioms on every theorem, every run)",
    "the hand-written Lean model lean/Model/<id>.lean and the statements in lean/Props/<id>.lean",
    "the correspondence harness /verif/harness (generators, canonicalisation) and the compiled Lean oracle (Lean code generator)",
]
MODELLED_NOT_VERIFIED = [
    "Go runtime scheduling and memory model, sync/atomic, channels, mutexes, context, timers are modelled as atomic events, not verified",
    "third-party libraries (protobuf, snappy, md5, xxhash, natsort, golang-lru, hashicorp/memberlist, consul/etcd clients, net/http, grpc metadata, math/rand, sort, slices) are exercised by the correspondence check and otherwise trusted by contract",
]

PROPS = {
    "C20": {
        "tables": True,
        "input_fields": 2,
        "rule": "exhaustive strings of length<=3 (thorough: 4) over the alphabet {a,Z,0,.,|,:,/,NUL,0xFF,=,-}; every byte alone / after a valid char / inside metadata; length boundaries 149..151,300; seeded structured strings (0-5 tenant parts, optional metadata, random bytes, one-byte mutations); transport chains of 0-6 hops through HTTP headers, gRPC metadata and the auth middlewares with pre-existing header values. A case is non-trivial unless it is a zero-hop chain; distinct = distinct canonical case line.",
        "trivial_tag": r"hops=0",
        "floor_quick": 3000,
        "trusted": ["net/http Header Get/Set and grpc metadata in-process semantics (no wire encoding exercised)"],
        "assumptions": ["the character tables and length limits in Generated/C20.lean are re-read from the running code through the public validators on every run and proved equal to the model's by `decide`"],
    },
}
