"""Per-property configuration of bin/check."""

COMMON_TRUSTED = [
    "Lean 4.33.0 kernel (thorough tier: re-checked by leanchecker); axioms allowed: propext, Classical.choice, Quot.sound; no sorry/native_decide/bv_decide/own axioms (grep + #print axioms on every theorem, every run)",
    "the hand-written Lean model lean/Model/<id>.lean and the statements in lean/Props/<id>.lean",
    "the correspondence harness /verif/harness (generators, canonicalisation) and the compiled Lean oracle (Lean code generator)",
]
MODELLED_NOT_VERIFIED = [
    "Go runtime scheduling and memory model, sync/atomic, channels, mutexes, context, timers are modelled as atomic events, not verified",
    "third-party libraries (protobuf, snappy, md5, xxhash, natsort, golang-lru, hashicorp/memberlist, consul/etcd clients, net/http, grpc metadata, math/rand, sort, slices) are exercised by the correspondence check and otherwise trusted by contract",
]

import glob, json, os
PROPS = {}
for _p in sorted(glob.glob(os.path.join(os.path.dirname(os.path.abspath(__file__)), "props.d", "C*.json"))):
    PROPS[os.path.basename(_p)[:-5]] = json.load(open(_p))
