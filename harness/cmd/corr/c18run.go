package main

// C18, run time: the wrappers InitModuleServices returns, around gated inner services.
//
// Line: C18.run <graph;cfg;targets> <actions> <snapshots joined by " | ">
// A snapshot is  <per-module states> ; <events since the previous snapshot> ; <flags>
//   per module with a service   m:<wrapper state><inner state><parked gate or ->
//   events (global order)       wrun.m | istart.m | stopreq.m.<inner state>.<wrapper states at that moment>
//
// Scheduler actions: SA (start every wrapper), W<m>, XA (stop every wrapper), X<m>, s<m>:<k> r<m>:<k> p<m>:<k>
// (release a gated function of the inner service of module m with result k, 0 = nil).

import (
	"context"
	"sort"
	"strconv"
	"strings"
	"sync"
	"time"

	"github.com/grafana/dskit/services"
)

type c18mod struct {
	idx         int
	inner       *c17svc
	wrap        services.Service
	wctx        bool // StopAsync was called on the wrapper while it was Starting/Running (harness bookkeeping)
	sawStopWait bool // the wrapper was seen Stopping while its inner service was still Running
	start       []int
	stop        []int
}

// c18logger receives the wrappers' own log lines ("module waiting for initialization", "starting",
// "module waiting for", "stopping", ...): the last line of a wrapper says exactly where it is, which is
// what the scheduler needs to know to decide that the wrapper is blocked.
type c18logger struct {
	mu   sync.Mutex
	last map[int][2]string // module -> (msg, waiting_for)
	pk   poker
}

func (l *c18logger) Log(kv ...interface{}) error {
	var msg, mod, wf string
	for i := 0; i+1 < len(kv); i += 2 {
		k, _ := kv[i].(string)
		v, _ := kv[i+1].(string)
		switch k {
		case "msg":
			msg = v
		case "module":
			mod = v
		case "waiting_for":
			wf = v
		}
	}
	if mod != "" {
		l.mu.Lock()
		l.last[c18Idx(mod)] = [2]string{msg, wf}
		l.mu.Unlock()
		l.pk.poke()
	}
	return nil
}

func (l *c18logger) lastOf(m int) (msg string, wf int) {
	l.mu.Lock()
	defer l.mu.Unlock()
	x := l.last[m]
	return x[0], c18Idx(x[1])
}

type c18sys struct {
	lg     *c18logger
	g      c18graph
	mods   map[int]*c18mod
	order  []int
	mu     sync.Mutex
	events []string
	pk     poker
	to     int
}

func (s *c18sys) wstates() string {
	var sb strings.Builder
	for _, i := range s.order {
		sb.WriteString(c17StateCode(s.mods[i].wrap.State()))
	}
	return sb.String()
}

func (s *c18sys) event(ev string) {
	s.mu.Lock()
	s.events = append(s.events, ev)
	s.mu.Unlock()
	s.pk.poke()
}

type c18wl struct {
	s *c18sys
	m int
}

func (l c18wl) Starting()                        { l.s.pk.poke() }
func (l c18wl) Running()                         { l.s.event("wrun." + strconv.Itoa(l.m)) }
func (l c18wl) Stopping(_ services.State)        { l.s.pk.poke() }
func (l c18wl) Terminated(_ services.State)      { l.s.pk.poke() }
func (l c18wl) Failed(_ services.State, _ error) { l.s.pk.poke() }

func c18Closure(g c18graph, from int) map[int]bool { return c18Reach(g.deps, from) }

func newC18sys(g c18graph, cfg c18cfg, targets []int, calls [][]int) (*c18sys, string) {
	s := &c18sys{g: g, mods: map[int]*c18mod{}, pk: make(poker, 1)}
	s.lg = &c18logger{last: map[int][2]string{}, pk: s.pk}
	var initLog []int
	mk := func(i int) services.Service {
		c := newC17svcP('b', true, true, true, s.pk)
		s.mods[i] = &c18mod{idx: i, inner: c}
		return c.svc
	}
	mm, _, _ := c18BuildL(s.lg, g.n, cfg, calls, &initLog, mk)
	tn := make([]string, len(targets))
	for i, t := range targets {
		tn[i] = c18NameS(cfg.names, t)
	}
	sm, err := mm.InitModuleServices(tn...)
	if err != nil {
		return nil, "initerr"
	}
	for name, w := range sm {
		i := c18Idx(name)
		s.mods[i].wrap = w
		s.order = append(s.order, i)
	}
	sort.Ints(s.order)
	for _, i := range s.order {
		md := s.mods[i]
		for d := range c18Closure(g, i) {
			if _, ok := s.mods[d]; ok && s.mods[d].wrap != nil {
				md.start = append(md.start, d)
			}
		}
		for _, x := range s.order {
			if c18Closure(g, x)[i] {
				md.stop = append(md.stop, x)
			}
		}
		sort.Ints(md.start)
		sort.Ints(md.stop)
		md.wrap.AddListener(c18wl{s, i})
		// watch the inner service: entry of its start function and the moment a stop is requested
		i := i
		inner := md.inner
		inner.onPark = func(name string) {
			if name == "s" {
				s.event("istart." + strconv.Itoa(i) + "." + s.wstates())
				ctx := inner.svc.ServiceContext()
				go func() {
					<-ctx.Done()
					s.event("stopreq." + strconv.Itoa(i) + "." + c17StateCode(inner.svc.State()) + "." + s.wstates())
				}()
			}
		}
	}
	return s, ""
}

func c18Term(st services.State) bool { return st == services.Terminated || st == services.Failed }

// quietMod: is module i certainly blocked (true), certainly about to move (false), or possibly about to fail (maybe)?
func (s *c18sys) quietMod(i int) (quiet, maybe bool) {
	md := s.mods[i]
	w0, in0 := md.wrap.State(), md.inner.svc.State()
	q, mb := s.quietMod1(i)
	// the states must not have moved while the conditions were evaluated
	return q && md.wrap.State() == w0 && md.inner.svc.State() == in0, mb
}

func (s *c18sys) quietMod1(i int) (quiet, maybe bool) {
	md := s.mods[i]
	w, in := md.wrap.State(), md.inner.svc.State()
	parked := md.inner.blockedGate() != ""
	innerQuiet := in == services.New || c18Term(in) || parked
	if !innerQuiet {
		return false, false
	}
	// the inner service's own primary listener must have caught up (c17svc bookkeeping)
	l0 := md.inner.lsns[0]
	l0.mu.Lock()
	last := services.New
	if n := len(l0.to); n > 0 {
		last = l0.to[n-1]
	}
	l0.mu.Unlock()
	if last != in {
		return false, false
	}
	switch w {
	case services.New, services.Terminated, services.Failed:
		return true, false
	case services.Starting:
		if in == services.New {
			// waiting for dependencies: blocked iff its last log line says it waits for a dependency whose
			// running latch is still open
			if md.wctx {
				return false, false
			}
			msg, wf := s.lg.lastOf(i)
			if msg != "module waiting for initialization" {
				return false, false
			}
			d, ok := s.mods[wf]
			if !ok || d.wrap == nil {
				return false, false
			}
			ds := d.wrap.State()
			return ds == services.New || ds == services.Starting, false
		}
		// inner started: the wrapper waits for the inner service, which is parked; once the wrapper has been
		// told to stop it must first have passed the stop request on to the inner service
		if md.wctx {
			return parked && md.inner.ctxFlag() == "1", false // StopAndAwaitTerminated(inner), inner parked
		}
		return md.inner.blockedGate() == "s", false // AwaitRunning(inner) while the inner start function is parked
	case services.Running:
		return parked && !md.wctx, false
	case services.Stopping:
		msg, wf := s.lg.lastOf(i)
		switch msg {
		case "module waiting for":
			// stop() found the inner service Running and waits for dependant wf
			x, ok := s.mods[wf]
			return ok && x.wrap != nil && !c18Term(x.wrap.State()), false
		case "stopping":
			// StopAndAwaitTerminated(inner): blocked while the inner service (told to stop) is parked
			return parked && md.inner.ctxFlag() == "1", false
		}
		return false, false // stop() has not got anywhere yet, or returns at once
	}
	return false, false
}

// allQuiet: every module is blocked, judged on ONE consistent view of the system (a module's verdict
// depends on other modules' states: if any state moved while the verdicts were formed, try again).
func (s *c18sys) allQuiet() bool {
	vec := func() string {
		var sb strings.Builder
		for _, i := range s.order {
			sb.WriteString(c17StateCode(s.mods[i].wrap.State()))
			sb.WriteString(c17StateCode(s.mods[i].inner.svc.State()))
		}
		return sb.String()
	}
	v0 := vec()
	for _, i := range s.order {
		if q, _ := s.quietMod(i); !q {
			return false
		}
	}
	return vec() == v0
}

func (s *c18sys) settle() {
	ok := waitUntil(s.pk, s.allQuiet)
	if !ok {
		s.to++
		return
	}
	// a wrapper that waits for dependencies of which one is already not Running may fail any moment
	// (it does when it gets to that dependency): give it a moment, the oracle accepts both outcomes
	for _, i := range s.order {
		if _, maybe := s.quietMod(i); maybe {
			deadline := time.Now().Add(3 * time.Millisecond)
			for time.Now().Before(deadline) && s.mods[i].wrap.State() == services.Starting {
				time.Sleep(100 * time.Microsecond)
			}
		}
	}
	waitUntil(s.pk, s.allQuiet)
}

func (s *c18sys) snapshot() string {
	parts := make([]string, len(s.order))
	for k, i := range s.order {
		md := s.mods[i]
		g := md.inner.blockedGate()
		if g == "" {
			g = "-"
		}
		parts[k] = strconv.Itoa(i) + ":" + c17StateCode(md.wrap.State()) + c17StateCode(md.inner.svc.State()) + g
	}
	s.mu.Lock()
	ev := "-"
	if len(s.events) > 0 {
		ev = strings.Join(s.events, ",")
	}
	s.events = nil
	s.mu.Unlock()
	fl := "-"
	if s.to > 0 {
		fl = "to" + strconv.Itoa(s.to)
	}
	st := "-"
	if len(parts) > 0 {
		st = strings.Join(parts, " ")
	}
	return st + ";" + ev + ";" + fl
}

func (s *c18sys) parse(a string) (kind string, m, k int) {
	if a == "SA" || a == "XA" {
		return a, 0, 0
	}
	p := strings.SplitN(a[1:], ":", 2)
	m, _ = strconv.Atoi(p[0])
	if len(p) == 2 {
		k, _ = strconv.Atoi(p[1])
	}
	return a[:1], m, k
}

func (s *c18sys) applicable(a string) bool {
	kind, m, _ := s.parse(a)
	switch kind {
	case "SA":
		for _, i := range s.order {
			if s.mods[i].wrap.State() == services.New {
				return true
			}
		}
		return false
	case "XA":
		for _, i := range s.order {
			st := s.mods[i].wrap.State()
			if st == services.New || ((st == services.Starting || st == services.Running) && !s.mods[i].wctx) {
				return true
			}
		}
		return false
	}
	md, ok := s.mods[m]
	if !ok || md.wrap == nil {
		return false
	}
	noWaitingDependant := func() bool {
		for _, x := range md.stop {
			if s.mods[x].wrap.State() == services.Starting {
				return false
			}
		}
		return true
	}
	switch kind {
	case "W":
		return md.wrap.State() == services.New
	case "X":
		st := md.wrap.State()
		return (st == services.New || st == services.Starting || st == services.Running) && !md.wctx && noWaitingDependant()
	case "s":
		return md.inner.blockedGate() == kind
	case "p":
		// the inner service terminates: a wrapper that is still Running leaves Running - only while no
		// dependant still waits for it (else whether the dependant saw it Running depends on map order)
		return md.inner.blockedGate() == kind && (md.wrap.State() != services.Running || noWaitingDependant())
	case "r":
		// the inner service leaves Running on its own: only while no dependant still waits for this module
		return md.inner.blockedGate() == "r" && (md.inner.ctxFlag() == "1" || noWaitingDependant())
	}
	return false
}

func (s *c18sys) stopW(md *c18mod) {
	st := md.wrap.State()
	if st == services.Starting || st == services.Running {
		md.wctx = true
	}
	md.wrap.StopAsync()
}

func (s *c18sys) do(a string) {
	kind, m, k := s.parse(a)
	switch kind {
	case "SA":
		for _, i := range s.order {
			if s.mods[i].wrap.State() == services.New {
				_ = s.mods[i].wrap.StartAsync(context.Background())
			}
		}
	case "XA":
		for _, i := range s.order {
			s.stopW(s.mods[i])
		}
	case "W":
		_ = s.mods[m].wrap.StartAsync(context.Background())
	case "X":
		s.stopW(s.mods[m])
	case "s", "r", "p":
		s.mods[m].inner.release(kind, k)
	}
	s.settle()
}

func (s *c18sys) cleanup() {
	for _, i := range s.order {
		s.mods[i].inner.cleanup()
	}
	// inner services created by initFn for modules that got no wrapper do not exist: nothing else to stop
}

func c18RunCase(g0 c18graph, cfg c18cfg, targets []int, r *rng, steps int) []string {
	return c18RunCaseCalls(g0, cfg, targets, r, steps, c18CallsFor(g0, r))
}

func c18RunCaseCalls(g0 c18graph, cfg c18cfg, targets []int, r *rng, steps int, calls [][]int) []string {
	// the dependency lists in the order the AddDependency calls leave them; naming scheme in the head
	g := c18Applied(g0.n, calls)
	head := g.String() + ";" + cfg.String() + ";" + ints(targets) + ";" + cfg.namesS()
	tr := newTrack("C18.run", head)
	defer tr.done()
	s, errs := newC18sys(g, cfg, targets, calls)
	if s == nil {
		return []string{"C18.run", head, "-", errs}
	}
	var al []string
	mode := r.intn(5) // 0,1: no function fails; 2..4: scripted failures in starting / running / stopping
	for _, i := range s.order {
		is := strconv.Itoa(i)
		for k := 0; k < 6; k++ {
			al = append(al, "s"+is+":0", "p"+is+":0")
		}
		al = append(al, "r"+is+":0", "W"+is, "X"+is)
		if mode >= 2 {
			al = append(al, "s"+is+":1", "r"+is+":2", "p"+is+":3")
		}
	}
	al = append(al, "SA", "SA", "SA", "SA", "XA")
	if mode == 0 {
		al = append(al, "XA", "XA")
	}
	s.settle()
	snaps := []string{s.snapshot()}
	var done []string
	if r.chance(3, 4) {
		tr.step("SA")
		s.do("SA")
		done = append(done, "SA")
		snaps = append(snaps, s.snapshot())
	}
	for i := 0; i < steps; i++ {
		var app []string
		for _, a := range al {
			if s.applicable(a) {
				app = append(app, a)
			}
		}
		if len(app) == 0 {
			break
		}
		a := pick(r, app)
		tr.step(a)
		s.do(a)
		done = append(done, a)
		snaps = append(snaps, s.snapshot())
	}
	// final phase: stop everything, then let every parked function return nil, one at a time
	if s.applicable("XA") {
		tr.step("XA")
		s.do("XA")
		done = append(done, "XA")
		snaps = append(snaps, s.snapshot())
	}
	for guard := 0; guard < 4*len(s.order)+4; guard++ {
		a := ""
		for _, i := range s.order {
			if g := s.mods[i].inner.blockedGate(); g != "" {
				a = g + strconv.Itoa(i) + ":0"
				break
			}
		}
		if a == "" {
			break
		}
		tr.step(a)
		s.do(a)
		done = append(done, a)
		snaps = append(snaps, s.snapshot())
	}
	s.cleanup()
	acts := "-"
	if len(done) > 0 {
		acts = strings.Join(done, " ")
	}
	return []string{"C18.run", head, acts, strings.Join(snaps, " | ")}
}

func runC18Run(e *env) {
	n := 2500 * e.scale
	type job struct {
		g       c18graph
		cfg     c18cfg
		targets []int
		seed    uint64
		steps   int
	}
	r := newRng(e.seed, 13)
	// small DAGs systematically (every DAG on <= 3 modules, on 4 sampled), then random ones up to 7 modules
	var jobs []job
	for nn := 1; nn <= 4; nn++ {
		c18AllDAGs(nn, func(g c18graph) {
			reps := 6
			if nn == 4 {
				reps = 1
				if r.intn(3) != 0 && e.quick {
					return
				}
			}
			for k := 0; k < reps; k++ {
				all := make([]int, nn)
				for i := range all {
					all[i] = i
				}
				jobs = append(jobs, job{g, c18FullCfg(nn), all, r.u64(), 4 + r.intn(8*nn)})
			}
		})
	}
	// hubs with spare capacity in their dependency slice (see c18Star), many naming schemes
	type starJob struct {
		g     c18graph
		calls [][]int
		names int
		seed  uint64
	}
	var stars []starJob
	for rep := 0; rep < 6*e.scale; rep++ {
		for _, kt := range [][2]int{{3, 1}, {5, 2}, {5, 3}, {6, 2}, {7, 1}, {3, 0}} {
			g, calls := c18Star(r, kt[0], kt[1])
			stars = append(stars, starJob{g, calls, 1 + r.intn(200), r.u64()})
		}
	}
	for len(jobs) < n {
		nn := 2 + r.intn(6)
		g := c18RandomDAG(r, nn)
		cfg := c18RandomCfg(r, nn, false)
		var targets []int
		if r.chance(2, 3) {
			for i := 0; i < nn; i++ {
				targets = append(targets, i)
			}
		} else {
			for i := 0; i < 1+r.intn(2); i++ {
				targets = append(targets, r.intn(nn))
			}
		}
		jobs = append(jobs, job{g, cfg, targets, r.u64(), 6 + r.intn(8*nn)})
	}
	// cases are run on a bounded pool; each case has its own PRNG stream, output in job order
	outS := parallelMap(len(stars), c17Workers(), func(i int) []string {
		j := stars[i]
		cfg := c18FullCfg(j.g.n)
		cfg.names = j.names
		all := make([]int, j.g.n)
		for k := range all {
			all[k] = k
		}
		return c18RunCaseCalls(j.g, cfg, all, &rng{s: j.seed}, 6+3*j.g.n, j.calls)
	})
	for _, f := range outS {
		e.emit(f...)
	}
	out := parallelMap(len(jobs), c17Workers(), func(i int) []string {
		j := jobs[i]
		return c18RunCase(j.g, j.cfg, j.targets, &rng{s: j.seed}, j.steps)
	})
	for _, f := range out {
		e.emit(f...)
	}
}
