package main

// C07 — compare-and-swap is atomic on every KV backend.
//
// The real clients (consul in-memory, etcd mock, memberlist single node; optionally behind the
// prefix / metrics / multi(mirroring) wrappers) are driven by N caller goroutines. Interleavings
// are controlled WITHOUT hooks in the CAS path: the caller-supplied function f reports its input
// to the scheduler and blocks on a gate; the scheduler decides which caller starts its next
// operation or passes the gate next, and waits until that caller has either returned from CAS or
// re-entered f. Between two scheduler actions nothing else runs, so the recorded trace is a total
// order of atomic read / apply+conditional-write steps.
//
// Line: C07.sched  backend budget wrap secondary keybase:nkeys init ops schedid | trace fin raw sec
//       C07.stress backend budget wrap secondary keybase:nkeys init ops seed    | calls fin raw

import (
	"context"
	"errors"
	"fmt"
	"io"
	"runtime"
	"sort"
	"strconv"
	"strings"
	"sync"
	"time"

	"github.com/go-kit/log"
	"github.com/prometheus/client_golang/prometheus"

	"github.com/grafana/dskit/flagext"
	"github.com/grafana/dskit/kv"
	"github.com/grafana/dskit/kv/codec"
	"github.com/grafana/dskit/kv/consul"
	"github.com/grafana/dskit/kv/etcd"
	"github.com/grafana/dskit/kv/memberlist"
	"github.com/grafana/dskit/services"
)

func init() { register("C07", runC07) }

// ---------------------------------------------------------------------------------------------
// value type: a max-register counter plus a grow-only set of ids. It is a proper state CRDT, so it
// can live in the memberlist store (Mergeable) as well as in consul/etcd (opaque bytes).

type c07Val struct {
	Ctr int
	Set []int // sorted, unique
	// Touch counts the Merge calls that ran on this (stored) object without finding a change. It is
	// not part of the logical value (MergeContent ignores it, the judge strips it from digests); it
	// makes memberlist's in-place merge on the "no change" path observable.
	Touch int
}

func (v *c07Val) clone() *c07Val {
	if v == nil {
		return &c07Val{}
	}
	return &c07Val{Ctr: v.Ctr, Set: append([]int(nil), v.Set...), Touch: v.Touch}
}

func (v *c07Val) has(id int) bool {
	i := sort.SearchInts(v.Set, id)
	return i < len(v.Set) && v.Set[i] == id
}

func (v *c07Val) add(id int) {
	if v.has(id) {
		return
	}
	v.Set = append(v.Set, id)
	sort.Ints(v.Set)
}

// Merge implements memberlist.Mergeable: pointwise join; the change is what was new.
func (v *c07Val) Merge(other memberlist.Mergeable, _ bool) (memberlist.Mergeable, error) {
	if other == nil {
		return nil, nil
	}
	o, ok := other.(*c07Val)
	if !ok {
		return nil, fmt.Errorf("c07Val: cannot merge %T", other)
	}
	if o == nil {
		return nil, nil
	}
	ch := &c07Val{}
	if o.Ctr > v.Ctr {
		v.Ctr = o.Ctr
		ch.Ctr = o.Ctr
	}
	for _, id := range o.Set {
		if !v.has(id) {
			v.add(id)
			ch.add(id)
		}
	}
	if ch.Ctr == 0 && len(ch.Set) == 0 {
		v.Touch++
		return nil, nil
	}
	return ch, nil
}

func (v *c07Val) MergeContent() []string {
	var out []string
	if v.Ctr > 0 {
		out = append(out, "ctr")
	}
	for _, id := range v.Set {
		out = append(out, strconv.Itoa(id))
	}
	return out
}

func (v *c07Val) RemoveTombstones(time.Time) (int, int) { return 0, 0 }
func (v *c07Val) Clone() memberlist.Mergeable            { return v.clone() }

func c07Digest(x interface{}) string {
	if x == nil {
		return "n"
	}
	v, ok := x.(*c07Val)
	if !ok {
		return fmt.Sprintf("?%T", x)
	}
	if v == nil {
		return "n"
	}
	ids := "-"
	if len(v.Set) > 0 {
		s := make([]string, len(v.Set))
		for i, id := range v.Set {
			s[i] = strconv.Itoa(id)
		}
		ids = strings.Join(s, ",")
	}
	d := strconv.Itoa(v.Ctr) + "/" + ids
	if v.Touch > 0 {
		d += "~" + strconv.Itoa(v.Touch)
	}
	return d
}

func c07ParseDigest(s string) *c07Val {
	if s == "n" {
		return nil
	}
	v := &c07Val{}
	if i := strings.IndexByte(s, '~'); i >= 0 {
		v.Touch, _ = strconv.Atoi(s[i+1:])
		s = s[:i]
	}
	p := strings.SplitN(s, "/", 2)
	v.Ctr, _ = strconv.Atoi(p[0])
	if len(p) > 1 && p[1] != "-" {
		for _, x := range strings.Split(p[1], ",") {
			id, _ := strconv.Atoi(x)
			v.add(id)
		}
	}
	return v
}

type c07Codec struct{}

func (c07Codec) CodecID() string { return "c07val" }
func (c07Codec) Encode(x interface{}) ([]byte, error) {
	v, ok := x.(*c07Val)
	if !ok || v == nil {
		return nil, fmt.Errorf("c07Codec: cannot encode %T", x)
	}
	if v.Ctr == 0 && len(v.Set) == 0 && v.Touch == 0 {
		// like codec.String with "": the empty value is a legitimate, non-nil value that encodes to zero
		// bytes (Decode maps zero bytes back to it). A store must keep it; it is not "no value".
		return []byte{}, nil
	}
	return []byte(c07Digest(v)), nil
}
func (c07Codec) Decode(b []byte) (interface{}, error) {
	if len(b) == 0 {
		return &c07Val{}, nil
	}
	return c07ParseDigest(string(b)), nil
}

// ---------------------------------------------------------------------------------------------
// backends

type c07Backend struct {
	kind  string
	cli   kv.Client
	close func()
}

var (
	c07mlMu    sync.Mutex
	c07mlNodes = map[int]*memberlist.KV{}
	c07mlUses  = map[int]int{}
	c07mlOld   []*memberlist.KV
)

// c07MlNode returns the shared single-node memberlist KV for a retry budget. Keys are unique per
// case, so cases do not interfere. With no peers the broadcast queue of a node is never drained and
// every new broadcast is compared against all queued ones, so a node is retired after a while.
func c07MlNode(budget int) *memberlist.KV {
	c07mlMu.Lock()
	defer c07mlMu.Unlock()
	if n, ok := c07mlNodes[budget]; ok && c07mlUses[budget] < 400 {
		c07mlUses[budget]++
		return n
	} else if ok {
		c07mlOld = append(c07mlOld, n)
	}
	var cfg memberlist.KVConfig
	flagext.DefaultValues(&cfg)
	cfg.TCPTransport = memberlist.TCPTransportConfig{BindAddrs: []string{"127.0.0.1"}}
	cfg.Codecs = []codec.Codec{c07Codec{}}
	cfg.ObsoleteEntriesTimeout = time.Hour // entries marked deleted are not purged while a case runs
	mkv := memberlist.NewKV(cfg, log.NewNopLogger(), c07DNS{}, prometheus.NewRegistry())
	memberlist.VerifSetMaxCasRetries(mkv, budget)
	if err := services.StartAndAwaitRunning(context.Background(), mkv); err != nil {
		panic("C07: cannot start memberlist KV: " + err.Error())
	}
	c07mlNodes[budget] = mkv
	c07mlUses[budget] = 1
	return mkv
}

func c07StopMl() {
	c07mlMu.Lock()
	defer c07mlMu.Unlock()
	for k, n := range c07mlNodes {
		c07mlOld = append(c07mlOld, n)
		delete(c07mlNodes, k)
	}
	var wg sync.WaitGroup
	for _, n := range c07mlOld {
		wg.Add(1)
		go func(n *memberlist.KV) {
			defer wg.Done()
			_ = services.StopAndAwaitTerminated(context.Background(), n)
		}(n)
	}
	wg.Wait()
	c07mlOld = nil
}

type c07DNS struct{}

func (c07DNS) Resolve(context.Context, []string) error { return nil }
func (c07DNS) Addresses() []string                     { return nil }

func c07NewBackend(kind string, budget int) c07Backend {
	switch kind {
	case "consul":
		c, cl := consul.NewInMemoryClientWithConfig(c07Codec{}, consul.Config{MaxCasRetries: budget}, log.NewNopLogger(), nil)
		return c07Backend{kind, c, func() { _ = cl.Close() }}
	case "etcd":
		c, cl := etcd.VerifNewInMemoryClient(c07Codec{}, log.NewNopLogger(), budget)
		var closer io.Closer = cl
		return c07Backend{kind, c, func() { _ = closer.Close() }}
	case "ml":
		c, err := memberlist.NewClient(c07MlNode(budget), c07Codec{})
		if err != nil {
			panic(err)
		}
		return c07Backend{kind, c, func() {}}
	}
	panic("C07: unknown backend " + kind)
}

// ---------------------------------------------------------------------------------------------
// case specification

type c07Op struct {
	key       int
	failFirst int  // the first failFirst attempts return (nil, true, err): "fail with retry"
	kind      byte // i increment, a append, z return the input, c clear to the empty value, d decline, e fail without retry
	retry     bool // retry flag returned together with a value
}

func (o c07Op) String() string {
	r := "0"
	if o.retry {
		r = "1"
	}
	return fmt.Sprintf("%d.%d.%c%s", o.key, o.failFirst, o.kind, r)
}

type c07Spec struct {
	backend   string
	budget    int
	prefix    bool
	metrics   bool
	multi     int // 0 none, 1 multi without mirroring, 2 multi with mirroring, 3 mirroring + primary switched at runtime to the second store
	secondary string
	keyBase   string
	nKeys     int
	init      []string // digest per key, "n" = absent
	ops       [][]c07Op
}

func (s *c07Spec) fields() []string {
	b2 := func(b bool) string {
		if b {
			return "1"
		}
		return "0"
	}
	callers := make([]string, len(s.ops))
	for c, ops := range s.ops {
		o := make([]string, len(ops))
		for j := range ops {
			o[j] = ops[j].String()
		}
		callers[c] = strings.Join(o, ";")
		if len(ops) == 0 {
			callers[c] = "-"
		}
	}
	sec := s.secondary
	if sec == "" {
		sec = "-"
	}
	return []string{s.backend, itoa(s.budget), b2(s.prefix) + b2(s.metrics) + itoa(s.multi), sec,
		s.keyBase + ":" + itoa(s.nKeys), strings.Join(s.init, ";"), strings.Join(callers, " ")}
}

var errC07Fn = errors.New("c07: function failed")

const c07Prefix = "pfx/"

// apply computes what the caller-supplied function returns on its a-th invocation within one CAS call.
func (o c07Op) apply(in interface{}, a int, id int) (out interface{}, retry bool, err error, fret string) {
	var cur *c07Val
	if in != nil {
		cur = in.(*c07Val)
	}
	if a < o.failFirst {
		// "fail with retry" AFTER touching the input: like the ring lifecycler functions, the function
		// modifies the object it was handed in place and then abandons the attempt. Every backend must
		// hand the NEXT attempt the stored value again, not the object this attempt scribbled on.
		if cur != nil {
			switch o.kind {
			case 'i':
				cur.Ctr++
			case 'a':
				cur.add(id)
			}
		}
		return nil, true, errC07Fn, "e1"
	}
	r := "0"
	if o.retry {
		r = "1"
	}
	switch o.kind {
	case 'i':
		v := cur.clone()
		v.Ctr++
		return v, o.retry, nil, "w" + r + "=" + c07Digest(v)
	case 'a':
		v := cur.clone()
		v.add(id)
		return v, o.retry, nil, "w" + r + "=" + c07Digest(v)
	case 'c': // clears: returns the empty value (a drained queue); non-nil, encodes to zero bytes
		v := &c07Val{}
		return v, o.retry, nil, "w" + r + "=" + c07Digest(v)
	case 'z': // returns its input unchanged (an empty value for an absent key)
		v := cur.clone()
		return v, o.retry, nil, "w" + r + "=" + c07Digest(v)
	case 'd':
		return nil, o.retry, nil, "nil"
	default:
		return nil, false, errC07Fn, "e0"
	}
}

type c07World struct {
	cfgCh   chan kv.MultiRuntimeConfig
	spec    *c07Spec
	pri     c07Backend
	sec     *c07Backend
	wrapped kv.Client
}

func (s *c07Spec) key(k int) string { return s.keyBase + itoa(k) }
func (s *c07Spec) mapped(k int) string {
	if s.prefix {
		return c07Prefix + s.key(k)
	}
	return s.key(k)
}

// c07GateClient wraps EVERY store of a MultiClient. A store-level CAS attempt during which the
// caller-supplied function is not invoked is a mirror write (writeToSecondary: a one-shot CAS with
// MultiClient's own function); it is reported to the scheduler together with the role of the store
// it was sent to, and blocks on the caller's gate between the store's Get and its conditional
// write - so the mirror write is scheduled like an attempt of the primary loop, whichever store
// the MultiClient sends it to.
type c07GateClient struct {
	kv.Client
	primary bool // this store is the one the MultiClient uses as primary during the run
	hook    func(st *c07CallerSt, toPrimary bool, in interface{})
}

func (g *c07GateClient) CAS(ctx context.Context, key string, f func(in interface{}) (out interface{}, retry bool, err error)) error {
	st, ok := ctx.Value(c07CtxKey{}).(*c07CallerSt)
	if !ok || g.hook == nil {
		return g.Client.CAS(ctx, key, f)
	}
	return g.Client.CAS(ctx, key, func(in interface{}) (interface{}, bool, error) {
		before := st.userCalls
		out, retry, err := f(in)
		if st.userCalls == before {
			g.hook(st, g.primary, in)
		}
		return out, retry, err
	})
}

type c07CtxKey struct{}

func c07Build(s *c07Spec, gate func(st *c07CallerSt, toPrimary bool, in interface{})) *c07World {
	w := &c07World{spec: s}
	w.pri = c07NewBackend(s.backend, s.budget)
	var c kv.Client = w.pri.cli
	if s.multi > 0 {
		sb := c07NewBackend(s.secondary, 10)
		w.sec = &sb
		priCli := &c07GateClient{w.pri.cli, true, gate}
		secCli := &c07GateClient{sb.cli, false, gate}
		if s.multi < 3 {
			c = kv.VerifNewMultiClient(kv.MultiConfig{MirrorEnabled: s.multi == 2, MirrorTimeout: 0},
				[]string{"primary", "secondary"}, []kv.Client{priCli, secCli}, log.NewNopLogger(), nil)
		} else {
			// Migration in progress: the store under test is SECOND in the client list and is made the
			// primary through the runtime configuration (MultiRuntimeConfig.PrimaryStore), as an operator
			// does when moving from one store to another; mirroring stays on. The channel is unbuffered
			// and watchConfigChannel handles one message at a time, so once the second (empty) message
			// has been taken the switch has been carried out.
			ch := make(chan kv.MultiRuntimeConfig)
			w.cfgCh = ch
			c = kv.VerifNewMultiClient(kv.MultiConfig{MirrorEnabled: true, MirrorTimeout: 0,
				ConfigProvider: func() <-chan kv.MultiRuntimeConfig { return ch }},
				[]string{"old", "new"}, []kv.Client{secCli, priCli}, log.NewNopLogger(), nil)
			ch <- kv.MultiRuntimeConfig{PrimaryStore: "new"}
			ch <- kv.MultiRuntimeConfig{}
		}
	}
	if s.prefix {
		c = kv.PrefixClient(c, c07Prefix)
	}
	if s.metrics {
		c = kv.VerifNewMetricsClient(s.backend, c, prometheus.NewRegistry())
	}
	w.wrapped = c
	// initial values are written directly to the primary backend under the mapped key
	for k, d := range s.init {
		if d == "n" {
			continue
		}
		v := c07ParseDigest(d)
		// memberlist, digest with a touch mark: the key was written and then Delete()d. The entry stays in
		// the store with its deletion mark (value kept, version bumped) until it is purged after
		// ObsoleteEntriesTimeout; Get and CAS keep working on it. Delete merges the stored value with
		// itself (no change: the in-place merge counts one touch), so the value found afterwards is `d`.
		delMark := s.backend == "ml" && v.Touch > 0
		if delMark {
			v.Touch--
		}
		err := w.pri.cli.CAS(context.Background(), s.mapped(k), func(interface{}) (interface{}, bool, error) { return v, false, nil })
		if err != nil {
			panic("C07: cannot initialise key: " + err.Error())
		}
		if delMark {
			if err := w.pri.cli.Delete(context.Background(), s.mapped(k)); err != nil {
				panic("C07: cannot delete key: " + err.Error())
			}
		}
	}
	return w
}

func (w *c07World) closeAll() {
	if w.cfgCh != nil {
		close(w.cfgCh) // ends watchConfigChannel
	}
	w.pri.close()
	if w.sec != nil {
		w.sec.close()
	}
}

func (w *c07World) get(k int) string {
	v, err := w.wrapped.Get(context.Background(), w.spec.key(k))
	if err != nil {
		return "err"
	}
	return c07Digest(v)
}

func (w *c07World) finals() (fin, raw, sec string) {
	var f, r, s []string
	for k := 0; k < w.spec.nKeys; k++ {
		f = append(f, w.get(k))
		v, err := w.pri.cli.Get(context.Background(), w.spec.mapped(k))
		if err != nil {
			r = append(r, "err")
		} else {
			r = append(r, c07Digest(v))
		}
		if w.sec != nil {
			v, err := w.sec.cli.Get(context.Background(), w.spec.mapped(k))
			if err != nil {
				s = append(s, "err")
			} else {
				s = append(s, c07Digest(v))
			}
		}
	}
	sec = "-"
	if w.sec != nil {
		sec = strings.Join(s, ";")
	}
	return strings.Join(f, ";"), strings.Join(r, ";"), sec
}

// ---------------------------------------------------------------------------------------------
// scheduled run

type c07Msg struct {
	entered bool
	mirror  bool
	toPrim  bool // the mirror write was sent to the store that is the primary
	in      string
	err     error
}

type c07Chooser interface{ choose(n int) int }

type c07Rand struct{ r *rng }

func (c c07Rand) choose(n int) int { return c.r.intn(n) }

type c07Dfs struct {
	prefix, widths []int
	pos            int
}

func (d *c07Dfs) choose(n int) int {
	if d.pos >= len(d.prefix) {
		d.prefix = append(d.prefix, 0)
		d.widths = append(d.widths, n)
	}
	d.widths[d.pos] = n
	c := d.prefix[d.pos]
	if c >= n {
		c = n - 1
	}
	d.pos++
	return c
}

func (d *c07Dfs) next() bool {
	d.prefix, d.widths = d.prefix[:d.pos], d.widths[:d.pos]
	for i := len(d.prefix) - 1; i >= 0; i-- {
		if d.prefix[i]+1 < d.widths[i] {
			d.prefix[i]++
			d.prefix, d.widths = d.prefix[:i+1], d.widths[:i+1]
			d.pos = 0
			return true
		}
	}
	return false
}

const c07Hang = 30 * time.Second

type c07CallerSt struct {
	msgs     chan c07Msg
	gate     chan struct{}
	start    chan struct{}
	primFret  string
	inMirror  bool
	userCalls int // invocations of the caller-supplied function (caller goroutine only)
	next     int
	blocked  bool
}

func c07RunSched(s *c07Spec, ch c07Chooser) (trace, fin, raw, sec string) {
	type callerSt = c07CallerSt
	ctx, cancel := context.WithCancel(context.Background())
	defer cancel()
	w := c07Build(s, func(st *c07CallerSt, toPrimary bool, in interface{}) {
		st.msgs <- c07Msg{entered: true, mirror: true, toPrim: toPrimary, in: c07Digest(in)}
		select {
		case <-st.gate:
		case <-ctx.Done():
		}
	})
	defer w.closeAll()
	n := len(s.ops)
	cs := make([]*callerSt, n)
	for c := 0; c < n; c++ {
		st := &callerSt{msgs: make(chan c07Msg, 1), gate: make(chan struct{}), start: make(chan struct{})}
		cs[c] = st
		go func(c int, st *callerSt) {
			for j, op := range s.ops[c] {
				select {
				case <-st.start:
				case <-ctx.Done():
					return
				}
				att := 0
				id := (c+1)*100 + j
				op := op
				err := w.wrapped.CAS(context.WithValue(context.Background(), c07CtxKey{}, st), s.key(op.key), func(in interface{}) (interface{}, bool, error) {
					st.userCalls++
					st.msgs <- c07Msg{entered: true, in: c07Digest(in)}
					select {
					case <-st.gate:
					case <-ctx.Done():
						return nil, false, errC07Fn
					}
					out, retry, err, fret := op.apply(in, att, id)
					att++
					st.primFret = fret
					return out, retry, err
				})
				st.msgs <- c07Msg{err: err}
			}
		}(c, st)
	}
	var ev []string
	hung := false
	for !hung {
		var en []int
		for c := 0; c < n; c++ {
			if cs[c].blocked || cs[c].next < len(s.ops[c]) {
				en = append(en, c)
			}
		}
		if len(en) == 0 {
			break
		}
		c := en[ch.choose(len(en))]
		st := cs[c]
		var head string
		key := 0
		fretBefore := ""
		if st.blocked {
			key = s.ops[c][st.next-1].key
			if st.inMirror {
				fretBefore = "m"
			}
			st.gate <- struct{}{}
			head = "r" + itoa(c)
		} else {
			key = s.ops[c][st.next].key
			st.next++
			st.start <- struct{}{}
			head = "s" + itoa(c)
		}
		var m c07Msg
		select {
		case m = <-st.msgs:
		case <-time.After(c07Hang):
			ev = append(ev, head+":hang")
			hung = true
			continue
		}
		if fretBefore == "" {
			fretBefore = st.primFret
		}
		st.inMirror = m.entered && m.mirror
		res := "ok"
		if m.entered && m.mirror && m.toPrim {
			res = "minP=" + m.in
		} else if m.entered && m.mirror {
			res = "min=" + m.in
		} else if m.entered {
			res = "in=" + m.in
		} else if m.err != nil {
			res = "err"
		}
		if head[0] == 'r' {
			head += ":" + fretBefore
		}
		st.blocked = m.entered
		ev = append(ev, head+":"+res+":"+w.get(key))
	}
	trace = strings.Join(ev, " ")
	if trace == "" {
		trace = "-"
	}
	fin, raw, sec = w.finals()
	return
}

// c07Exhaust enumerates the tree of scheduler choices of one configuration. A run with choice prefix P
// follows P and then always takes the first enabled caller; its children are the prefixes that
// deviate first at a depth >= len(P). Generations are run in parallel (memberlist sleeps 1 s after a
// "no change detected" merge) and in a fixed order, so the enumeration is deterministic even when capped.
func c07Exhaust(s *c07Spec, cap int) [][]string {
	var lines [][]string
	gen := [][]int{{}}
	n := 0
	for len(gen) > 0 && n < cap {
		if len(gen) > cap-n {
			gen = gen[:cap-n]
		}
		type res struct {
			line     []string
			children [][]int
		}
		out := make([]res, len(gen))
		var wg sync.WaitGroup
		sem := make(chan struct{}, 24)
		for gi := range gen {
			wg.Add(1)
			sem <- struct{}{}
			go func(gi, idx int) {
				defer wg.Done()
				defer func() { <-sem }()
				pre := gen[gi]
				d := &c07Dfs{prefix: append([]int(nil), pre...), widths: make([]int, len(pre))}
				sp := *s // every schedule gets its own keys (the memberlist node is shared)
				sp.keyBase = fmt.Sprintf("%sx%dk", strings.TrimSuffix(s.keyBase, "k"), idx)
				tr, fin, raw, sec := c07RunSched(&sp, d)
				out[gi].line = append(append([]string{"C07.sched"}, sp.fields()...), "x"+itoa(idx), tr, fin, raw, sec)
				path, widths := d.prefix[:d.pos], d.widths[:d.pos]
				for dep := len(pre); dep < len(path); dep++ {
					for a := 1; a < widths[dep]; a++ {
						out[gi].children = append(out[gi].children, append(append([]int(nil), path[:dep]...), a))
					}
				}
			}(gi, n+gi)
		}
		wg.Wait()
		n += len(gen)
		var next [][]int
		for _, r := range out {
			lines = append(lines, r.line)
			next = append(next, r.children...)
		}
		gen = next
	}
	return lines
}

// ---------------------------------------------------------------------------------------------
// unscheduled stress run

func c07RunStress(s *c07Spec) (calls, fin, raw string) {
	w := c07Build(s, nil)
	defer w.closeAll()
	n := len(s.ops)
	recs := make([][]string, n)
	var wg sync.WaitGroup
	start := make(chan struct{})
	for c := 0; c < n; c++ {
		wg.Add(1)
		go func(c int) {
			defer wg.Done()
			<-start
			for j, op := range s.ops[c] {
				att := 0
				id := (c+1)*100 + j
				var ins []string
				last := "-"
				err := w.wrapped.CAS(context.Background(), s.key(op.key), func(in interface{}) (interface{}, bool, error) {
					ins = append(ins, c07Digest(in))
					runtime.Gosched() // the function "takes time": lets other callers run between read and write
					out, retry, err, fret := op.apply(in, att, id)
					att++
					last = fret
					return out, retry, err
				})
				res := "ok"
				if err != nil {
					res = "err"
				}
				if len(ins) == 0 {
					ins = []string{"-"}
				}
				recs[c] = append(recs[c], fmt.Sprintf("%d.%d:%d:%s:%s:%s", c, j, op.key, res, strings.Join(ins, ">"), last))
			}
		}(c)
	}
	close(start)
	wg.Wait()
	var all []string
	for c := range recs {
		all = append(all, recs[c]...)
	}
	calls = strings.Join(all, " ")
	if calls == "" {
		calls = "-"
	}
	fin, raw, _ = w.finals()
	return
}

// ---------------------------------------------------------------------------------------------
// generators

var c07Backends = []string{"consul", "etcd", "ml"}

func c07RandOp(r *rng, nKeys int, allowSlow bool) c07Op {
	o := c07Op{key: r.intn(nKeys), retry: r.chance(3, 4)}
	switch x := r.intn(20); {
	case x < 7:
		o.kind = 'i'
	case x < 14:
		o.kind = 'a'
	case x < 16:
		o.kind = 'd'
	case x < 18:
		o.kind = 'e'
	default:
		o.kind = pick(r, []byte{'i', 'a', 'a', 'd'})
		o.failFirst = 1 + r.intn(2)
		if allowSlow && r.chance(1, 6) {
			o.failFirst = 99 // always fails with retry: the budget is exhausted
		}
	}
	if allowSlow && r.chance(1, 8) {
		// a function that returns its input: a same-value write on consul/etcd, "no change detected"
		// (an error, not retried: retry=false avoids memberlist's 1 s sleep) on memberlist, where the
		// merge still runs in place on the stored object. Scheduled random runs only: the stress judge
		// relies on strictly growing values.
		// 'c' clears to the empty value, which encodes to zero bytes.
		o = c07Op{key: o.key, kind: pick(r, []byte{'z', 'c', 'c'}), retry: false}
	}
	return o
}

func c07RandInit(r *rng, nKeys int, present int, backend string) []string {
	// present: 0 = all absent, 1 = all present, 2 = mixed
	init := make([]string, nKeys)
	for k := range init {
		p := present == 1 || (present == 2 && r.chance(1, 2))
		if !p {
			init[k] = "n"
			continue
		}
		v := &c07Val{Ctr: r.intn(4)}
		for i, m := 0, 1+r.intn(2); i < m; i++ {
			v.add(1 + r.intn(9))
		}
		if backend == "ml" && r.chance(1, 2) {
			v.Touch = 1 // written, then Delete()d: still in the store, marked deleted (see c07Build)
		}
		init[k] = c07Digest(v)
	}
	return init
}

func c07RandWrap(r *rng, s *c07Spec) {
	s.prefix = r.chance(1, 2)
	s.metrics = r.chance(1, 2)
	if r.chance(2, 5) {
		s.multi = pick(r, []int{1, 2, 2, 2, 2, 3, 3, 3})
		var others []string
		for _, b := range c07Backends {
			if b != s.backend {
				others = append(others, b)
			}
		}
		s.secondary = pick(r, others)
	}
}

type c07Job struct {
	cmd    string
	fields []string
	run    func() []string
}

func runC07(e *env) {
	defer c07StopMl()
	var jobs []c07Job
	caseNo := 0
	newSpec := func(r *rng, backend string, nKeys int, present int) *c07Spec {
		caseNo++
		s := &c07Spec{backend: backend, nKeys: nKeys, keyBase: fmt.Sprintf("c%dk", caseNo)}
		s.budget = pick(r, []int{10, 10, 3, 2})
		s.init = c07RandInit(r, nKeys, present, backend)
		c07RandWrap(r, s)
		return s
	}
	addSched := func(s *c07Spec, id string, ch func() c07Chooser) {
		f := append(s.fields(), id)
		jobs = append(jobs, c07Job{"C07.sched", f, func() []string {
			tr, fin, raw, sec := c07RunSched(s, ch())
			return []string{tr, fin, raw, sec}
		}})
	}

	// (A) exhaustive schedules of small configurations: the DFS over scheduler choices needs the
	// outcome of the previous run, so each configuration is one sequential job emitting many lines.
	type exJob struct {
		s   *c07Spec
		cap int
	}
	var ex []exJob
	shapes := [][2]int{{2, 1}, {2, 2}, {3, 1}}
	variants := 4
	cap := 100
	if !e.quick {
		shapes = append(shapes, [2]int{3, 2})
		variants = 7
		cap = 1500
	}
	rx := newRng(e.seed, 700)
	for _, b := range c07Backends {
		for present := 0; present < 2; present++ {
			for _, sh := range shapes {
				for v := 0; v < variants; v++ {
					s := newSpec(rx, b, 1, present)
					if v == 0 { // the plain textbook case: everybody increments or appends, no wrappers
						s.prefix, s.metrics, s.multi, s.secondary, s.budget = false, false, 0, "", 10
					}
					if v == 1 { // the migration case: mirroring MultiClient whose primary was switched at runtime
						s.multi, s.budget = 3, 10
						var others []string
						for _, o := range c07Backends {
							if o != b {
								others = append(others, o)
							}
						}
						s.secondary = pick(rx, others)
					}
					for c := 0; c < sh[0]; c++ {
						var ops []c07Op
						for j := 0; j < sh[1]; j++ {
							o := c07RandOp(rx, 1, false)
							if v <= 1 {
								o = c07Op{kind: pick(rx, []byte{'i', 'a'}), retry: true}
							}
							ops = append(ops, o)
						}
						s.ops = append(s.ops, ops)
					}
					ex = append(ex, exJob{s, cap})
				}
			}
		}
	}

	// (B) seeded random schedules
	rb := newRng(e.seed, 701)
	nRand := 2000
	if !e.quick {
		nRand = 20000
	}
	for i := 0; i < nRand; i++ {
		b := c07Backends[i%3]
		nKeys := 1 + rb.intn(3)
		if rb.chance(1, 2) {
			nKeys = 1
		}
		s := newSpec(rb, b, nKeys, rb.intn(3))
		nc := 2 + rb.intn(5)
		maxOps := 4
		if !e.quick && rb.chance(1, 20) {
			nc = 2 + rb.intn(15)
			maxOps = 50
		}
		for c := 0; c < nc; c++ {
			var ops []c07Op
			for j, m := 0, 1+rb.intn(maxOps); j < m; j++ {
				ops = append(ops, c07RandOp(rb, nKeys, true))
			}
			s.ops = append(s.ops, ops)
		}
		seed := rb.u64()
		addSched(s, "r"+strconv.FormatUint(seed, 10), func() c07Chooser { return c07Rand{newRng(seed, 702)} })
	}

	// (C) unscheduled stress
	rc := newRng(e.seed, 703)
	nStress := 90
	if !e.quick {
		nStress = 600
	}
	for i := 0; i < nStress; i++ {
		b := c07Backends[i%3]
		nKeys := 1 + rc.intn(2)
		s := newSpec(rc, b, nKeys, rc.intn(3))
		s.budget = 10
		nc, no := 2+rc.intn(15), 1+rc.intn(12)
		if !e.quick && i%4 == 0 {
			nc, no = 16, 50
		}
		for c := 0; c < nc; c++ {
			var ops []c07Op
			for j := 0; j < no; j++ {
				ops = append(ops, c07RandOp(rc, nKeys, false))
			}
			s.ops = append(s.ops, ops)
		}
		f := append(s.fields(), "u"+itoa(i))
		jobs = append(jobs, c07Job{"C07.stress", f, func() []string {
			calls, fin, raw := c07RunStress(s)
			return []string{calls, fin, raw}
		}})
	}

	// run: exhaustive configurations and single jobs on a worker pool, output in generation order
	type unit struct{ lines [][]string }
	units := make([]unit, len(ex)+len(jobs))
	work := make(chan int, len(units))
	for i := range units {
		work <- i
	}
	close(work)
	var wg sync.WaitGroup
	for wk := 0; wk < 48; wk++ {
		wg.Add(1)
		go func() {
			defer wg.Done()
			for i := range work {
				if i < len(ex) {
					units[i].lines = c07Exhaust(ex[i].s, ex[i].cap)
				} else {
					jb := jobs[i-len(ex)]
					line := append(append([]string{jb.cmd}, jb.fields...), jb.run()...)
					units[i].lines = append(units[i].lines, line)
				}
			}
		}()
	}
	wg.Wait()
	for _, u := range units {
		for _, l := range u.lines {
			e.emit(l...)
		}
	}
}
