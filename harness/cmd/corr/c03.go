package main

import (
	"sort"
	"strconv"
	"time"

	"github.com/grafana/dskit/kv/memberlist"
	"github.com/grafana/dskit/ring"
)

func init() { register("C03", runC03) }

// implMerge runs the real Desc merge on deep copies and returns canonical state and change.
func implMerge(this, other *ring.Desc, cas bool, now int64) (*ring.Desc, *ring.Desc) {
	t := cloneDesc(this)
	o := cloneDesc(other)
	ch, err := t.VerifMergeWithTime(o, cas, time.Unix(now, 0))
	if err != nil {
		panic(err)
	}
	if ch == nil {
		return t, nil
	}
	cd, _ := ch.(*ring.Desc)
	return t, cd
}

func encChange(d *ring.Desc) string {
	if d == nil {
		return "nil"
	}
	return encDesc(d)
}

func c03State(a, b *ring.Desc) *ring.Desc { s, _ := implMerge(a, b, false, 0); return s }

func c03EmitMerge(e *env, this, other *ring.Desc, cas bool, now int64) {
	st, ch := implMerge(this, other, cas, now)
	c := "0"
	if cas {
		c = "1"
	}
	e.emit("C03.merge", c, strconv.FormatInt(now, 10), encDesc(this), encDesc(other), encDesc(st), encChange(ch))
}

func c03EmitLaws(e *env, a, b, c *ring.Desc) {
	ab, chg := implMerge(a, b, false, 0)
	ba := c03State(b, a)
	abc := c03State(ab, c)
	bc := c03State(b, c)
	a_bc := c03State(a, bc)
	aa := c03State(a, a)
	achg := a
	if chg != nil {
		achg = c03State(a, chg)
	}
	abb := c03State(ab, b)
	s := c03State(a, c) // a replica that already contains a
	schg := s
	if chg != nil {
		schg = c03State(s, chg)
	}
	sb := c03State(s, b)
	e.emit("C03.laws", encDesc(a), encDesc(b), encDesc(c), encDesc(ab), encDesc(ba), encDesc(abc), encDesc(a_bc), encDesc(aa), encDesc(achg), encDesc(abb), encDesc(schg), encDesc(sb))
}

// small coherent universe: content is a function of (id, ts, left)
func c03U(id int, ts int64, left bool) ring.InstanceDesc {
	name := "i" + strconv.Itoa(id)
	i := ring.InstanceDesc{Id: name, Addr: "a" + strconv.Itoa(id), Zone: "z" + strconv.Itoa(id%2), Timestamp: ts, RegisteredTimestamp: 5}
	if left {
		i.State = ring.LEFT
		return i
	}
	base := uint32(id * 10)
	switch ts {
	case 1:
		i.State, i.Tokens = ring.ACTIVE, []uint32{base + 1}
	case 2:
		i.State, i.Tokens = ring.LEAVING, []uint32{base + 1, base + 2}
	default:
		i.State, i.Tokens = ring.JOINING, []uint32{base + 2}
	}
	return i
}

func c03Universe(nIDs int) []*ring.Desc {
	// per id: absent or (ts in 1..3) x (left or not) => 7 options
	var out []*ring.Desc
	var rec func(id int, cur *ring.Desc)
	rec = func(id int, cur *ring.Desc) {
		if id == nIDs {
			out = append(out, cloneDesc(cur))
			return
		}
		rec(id+1, cur)
		for ts := int64(1); ts <= 3; ts++ {
			for _, left := range []bool{false, true} {
				e := c03U(id, ts, left)
				cur.Ingesters[e.Id] = e
				rec(id+1, cur)
				delete(cur.Ingesters, e.Id)
			}
		}
	}
	rec(0, ring.NewDesc())
	return out
}

// random coherent, clash-free, normalised descriptors drawn from a per-case random universe
type c03RandU struct {
	r       *rng
	content map[string]ring.InstanceDesc
	nIDs    int
}

func (u *c03RandU) get(id int, ts int64, left bool) ring.InstanceDesc {
	k := strconv.Itoa(id) + "/" + strconv.FormatInt(ts, 10) + "/" + strconv.FormatBool(left)
	if v, ok := u.content[k]; ok {
		return v
	}
	r := u.r
	i := ring.InstanceDesc{Id: "i" + strconv.Itoa(id), Addr: "a" + strconv.Itoa(r.intn(3)), Zone: pick(r, []string{"", "z1", "z2"}), Timestamp: ts,
		RegisteredTimestamp: int64(r.intn(4)), ReadOnly: r.chance(1, 4), ReadOnlyUpdatedTimestamp: int64(r.intn(3))}
	if left {
		i.State = ring.LEFT
	} else {
		i.State = pick(r, []ring.InstanceState{ring.ACTIVE, ring.LEAVING, ring.PENDING, ring.JOINING})
		// private token pool per id => no clash; includes boundary values
		pool := []uint32{uint32(id), uint32(id) + 100, uint32(id) + 200, 1<<32 - 1 - uint32(id), 1<<31 + uint32(id)}
		for _, t := range pool {
			if r.chance(1, 2) {
				i.Tokens = append(i.Tokens, t)
			}
		}
		sort.Slice(i.Tokens, func(a, b int) bool { return i.Tokens[a] < i.Tokens[b] })
	}
	u.content[k] = i
	return i
}

func (u *c03RandU) desc() *ring.Desc {
	d := ring.NewDesc()
	for id := 0; id < u.nIDs; id++ {
		if u.r.chance(1, 4) {
			continue
		}
		e := u.get(id, int64(1+u.r.intn(4)), u.r.chance(1, 4))
		d.Ingesters[e.Id] = e
	}
	return d
}

// malformed / outside-the-quantifier descriptors: unsorted duplicated tokens, clashes, ts 0
func c03Wild(r *rng, nIDs int) *ring.Desc {
	d := ring.NewDesc()
	for id := 0; id < nIDs; id++ {
		if r.chance(1, 4) {
			continue
		}
		i := ring.InstanceDesc{Id: "i" + strconv.Itoa(id), Addr: "a", Zone: pick(r, []string{"", "z1"}), Timestamp: int64(r.intn(4)), State: pick(r, allStates)}
		nt := r.intn(5)
		for j := 0; j < nt; j++ {
			i.Tokens = append(i.Tokens, uint32(1+r.intn(4)))
		}
		d.Ingesters[i.Id] = i
	}
	return d
}

// well-formed receiver over a tiny token space: normalised, no clash
func c03Receiver(r *rng, nIDs int) *ring.Desc {
	d := ring.NewDesc()
	free := []uint32{1, 2, 3, 4}
	for id := 0; id < nIDs; id++ {
		if r.chance(1, 4) {
			continue
		}
		i := ring.InstanceDesc{Id: "i" + strconv.Itoa(id), Addr: "a", Zone: pick(r, []string{"", "z1"}), Timestamp: int64(r.intn(4)), State: pick(r, allStates)}
		if i.State != ring.LEFT {
			var rest []uint32
			for _, t := range free {
				if r.chance(1, 3) {
					i.Tokens = append(i.Tokens, t)
				} else {
					rest = append(rest, t)
				}
			}
			free = rest
		}
		d.Ingesters[i.Id] = i
	}
	return d
}

func runC03(e *env) {
	// 1. exhaustive small coherent universe (2 ids): all pairs as single merges, all pairs/triples as laws
	uni := c03Universe(2)
	for _, a := range uni {
		for _, b := range uni {
			c03EmitMerge(e, a, b, false, 0)
		}
	}
	r := newRng(e.seed, 3)
	if e.quick {
		for i := 0; i < 12000; i++ {
			c03EmitLaws(e, pick(r, uni), pick(r, uni), pick(r, uni))
		}
	} else {
		for _, a := range uni {
			for _, b := range uni {
				for _, c := range uni {
					c03EmitLaws(e, a, b, c)
				}
			}
		}
	}
	// 2. random larger coherent universes
	for i := 0; i < 4000*e.scale; i++ {
		u := &c03RandU{r: r, content: map[string]ring.InstanceDesc{}, nIDs: 2 + r.intn(6)}
		c03EmitLaws(e, u.desc(), u.desc(), u.desc())
	}
	// 3. single merges incl. malformed inputs, clashes, local CAS
	for i := 0; i < 8000*e.scale; i++ {
		n := 1 + r.intn(4)
		this := c03Receiver(r, n)
		other := c03Wild(r, n)
		cas := r.chance(1, 3)
		c03EmitMerge(e, this, other, cas, int64(2+r.intn(4)))
	}
	// 4. laws on wild inputs (outside the quantifier: correspondence only)
	for i := 0; i < 2000*e.scale; i++ {
		n := 1 + r.intn(3)
		c03EmitLaws(e, c03Receiver(r, n), c03Receiver(r, n), c03Receiver(r, n))
	}
	c03Handover(e)
	runC03P(e, r)
	runC03X(e) // extension streams (c03x.go): own PRNG stream, after everything else
}

// c03Handover replays, merge by merge, the witnesses of PC03.merge_diverges_on_token_handover (a token
// handed over at disjoint times) and PC03.merge_diverges_on_token_clash on the real code: the same three
// updates folded in two orders from the empty descriptor. Correspondence lines only (the inputs clash,
// so token lists are outside the per-merge judge); the two end states are the `st` fields of the third
// and sixth line of each group. No PRNG draws.
func c03Handover(e *env) {
	one := func(id string, ts int64, toks ...uint32) *ring.Desc {
		d := ring.NewDesc()
		d.Ingesters[id] = ring.InstanceDesc{Id: id, Timestamp: ts, State: ring.ACTIVE, Tokens: toks}
		return d
	}
	fold := func(ups ...*ring.Desc) {
		s := ring.NewDesc()
		for _, u := range ups {
			c03EmitMerge(e, s, u, false, 0)
			s = c03State(s, u)
		}
	}
	a1, a2, b3 := one("a", 1, 7), one("a", 2), one("b", 3, 7)
	fold(a1, a2, b3)
	fold(a1, b3, a2)
	b2, a3 := one("b", 2, 7), one("a", 3)
	fold(a1, b2, a3)
	fold(a1, a3, b2)
}

// ---------- partition ring ----------

func implPMerge(this, other *ring.PartitionRingDesc, cas bool, now int64) (*ring.PartitionRingDesc, *ring.PartitionRingDesc) {
	t := clonePDesc(this)
	o := clonePDesc(other)
	var ch memberlist.Mergeable
	var err error
	ch, err = t.VerifMergeWithTime(o, cas, time.Unix(now, 0))
	if err != nil {
		panic(err)
	}
	if ch == nil {
		return t, nil
	}
	return t, ch.(*ring.PartitionRingDesc)
}

func encPChange(d *ring.PartitionRingDesc) string {
	if d == nil {
		return "nil"
	}
	return encPDesc(d)
}

func c03PState(a, b *ring.PartitionRingDesc) *ring.PartitionRingDesc {
	s, _ := implPMerge(a, b, false, 0)
	return s
}

// coherent partition universe: tokens fixed per id; state a function of (stateTs, deleted); lock of lockedTs
type c03PU struct {
	r       *rng
	content map[string]int
}

func (u *c03PU) f(key string, n int) int {
	if v, ok := u.content[key]; ok {
		return v
	}
	v := u.r.intn(n)
	u.content[key] = v
	return v
}

func (u *c03PU) desc(nP, nO int) *ring.PartitionRingDesc {
	r := u.r
	d := ring.NewPartitionRingDesc()
	for id := 0; id < nP; id++ {
		if r.chance(1, 4) {
			continue
		}
		sts := int64(r.intn(4))
		del := r.chance(1, 4)
		lts := int64(r.intn(3))
		p := ring.PartitionDesc{Id: int32(id), Tokens: []uint32{uint32(id*10 + 1), uint32(id*10 + 2)}, StateTimestamp: sts, StateChangeLockedTimestamp: lts}
		if del {
			p.State = ring.PartitionDeleted
		} else {
			p.State = ring.PartitionState(1 + u.f("ps"+strconv.Itoa(id)+"/"+strconv.FormatInt(sts, 10), 3))
		}
		p.StateChangeLocked = u.f("pl"+strconv.Itoa(id)+"/"+strconv.FormatInt(lts, 10), 2) == 1
		d.Partitions[int32(id)] = p
	}
	for id := 0; id < nO; id++ {
		if r.chance(1, 4) {
			continue
		}
		ts := int64(1 + r.intn(3))
		del := r.chance(1, 4)
		o := ring.OwnerDesc{UpdatedTimestamp: ts}
		if del {
			o.State = ring.OwnerDeleted
			o.OwnedPartition = int32(u.f("od"+strconv.Itoa(id)+"/"+strconv.FormatInt(ts, 10), 2))
		} else {
			o.State = ring.OwnerState(u.f("os"+strconv.Itoa(id)+"/"+strconv.FormatInt(ts, 10), 2))
			o.OwnedPartition = int32(u.f("op"+strconv.Itoa(id)+"/"+strconv.FormatInt(ts, 10), 2))
		}
		d.Owners["o"+strconv.Itoa(id)] = o
	}
	return d
}

func c03PWild(r *rng) *ring.PartitionRingDesc {
	d := ring.NewPartitionRingDesc()
	for id := 0; id < 3; id++ {
		if r.chance(1, 3) {
			continue
		}
		p := ring.PartitionDesc{Id: int32(id), State: ring.PartitionState(r.intn(5)), StateTimestamp: int64(r.intn(3)), StateChangeLocked: r.chance(1, 2), StateChangeLockedTimestamp: int64(r.intn(3))}
		if r.chance(1, 2) {
			p.Tokens = []uint32{uint32(r.intn(5))}
		}
		d.Partitions[int32(id)] = p
	}
	for id := 0; id < 3; id++ {
		if r.chance(1, 3) {
			continue
		}
		d.Owners["o"+strconv.Itoa(id)] = ring.OwnerDesc{OwnedPartition: int32(r.intn(3)), State: ring.OwnerState(r.intn(3)), UpdatedTimestamp: int64(r.intn(3))}
	}
	return d
}

func c03EmitPLaws(e *env, a, b, c *ring.PartitionRingDesc) {
	ab, chg := implPMerge(a, b, false, 0)
	ba := c03PState(b, a)
	abc := c03PState(ab, c)
	a_bc := c03PState(a, c03PState(b, c))
	aa := c03PState(a, a)
	achg := a
	if chg != nil {
		achg = c03PState(a, chg)
	}
	abb := c03PState(ab, b)
	s := c03PState(a, c)
	schg := s
	if chg != nil {
		schg = c03PState(s, chg)
	}
	sb := c03PState(s, b)
	e.emit("C03.plaws", encPDesc(a), encPDesc(b), encPDesc(c), encPDesc(ab), encPDesc(ba), encPDesc(abc), encPDesc(a_bc), encPDesc(aa), encPDesc(achg), encPDesc(abb), encPDesc(schg), encPDesc(sb))
}

func runC03P(e *env, r *rng) {
	for i := 0; i < 6000*e.scale; i++ {
		u := &c03PU{r: r, content: map[string]int{}}
		nP, nO := 1+r.intn(3), 1+r.intn(3)
		c03EmitPLaws(e, u.desc(nP, nO), u.desc(nP, nO), u.desc(nP, nO))
	}
	for i := 0; i < 6000*e.scale; i++ {
		this, other := c03PWild(r), c03PWild(r)
		cas := r.chance(1, 3)
		now := int64(2 + r.intn(3))
		st, ch := implPMerge(this, other, cas, now)
		c := "0"
		if cas {
			c = "1"
		}
		e.emit("C03.pmerge", c, strconv.FormatInt(now, 10), encPDesc(this), encPDesc(other), encPDesc(st), encPChange(ch))
	}
	for i := 0; i < 1500*e.scale; i++ {
		c03EmitPLaws(e, c03PWild(r), c03PWild(r), c03PWild(r))
	}
}
