package main

import (
	"sort"
	"strconv"
	"strings"

	"github.com/grafana/dskit/ring"
)

// Canonical line encoding of ring.PartitionRingDesc shared with lean/Model/C03P.lean.

func encPDesc(d *ring.PartitionRingDesc) string {
	if d == nil {
		return "-#-"
	}
	pids := make([]int, 0, len(d.Partitions))
	for id := range d.Partitions {
		pids = append(pids, int(id))
	}
	sort.Ints(pids)
	ps := make([]string, len(pids))
	for i, id := range pids {
		p := d.Partitions[int32(id)]
		lk := "0"
		if p.StateChangeLocked {
			lk = "1"
		}
		ps[i] = strings.Join([]string{strconv.Itoa(id), u32s(p.Tokens), strconv.Itoa(int(p.State)), strconv.FormatInt(p.StateTimestamp, 10), lk, strconv.FormatInt(p.StateChangeLockedTimestamp, 10)}, "/")
	}
	oids := make([]string, 0, len(d.Owners))
	for id := range d.Owners {
		oids = append(oids, id)
	}
	sort.Strings(oids)
	os := make([]string, len(oids))
	for i, id := range oids {
		o := d.Owners[id]
		os[i] = strings.Join([]string{showStr(id), strconv.Itoa(int(o.OwnedPartition)), strconv.Itoa(int(o.State)), strconv.FormatInt(o.UpdatedTimestamp, 10)}, "/")
	}
	a, b := "-", "-"
	if len(ps) > 0 {
		a = strings.Join(ps, ";")
	}
	if len(os) > 0 {
		b = strings.Join(os, ";")
	}
	return a + "#" + b
}

func decPDesc(s string) *ring.PartitionRingDesc {
	d := ring.NewPartitionRingDesc()
	h := strings.Split(s, "#")
	if h[0] != "-" {
		for _, p := range strings.Split(h[0], ";") {
			f := strings.Split(p, "/")
			id, _ := strconv.Atoi(f[0])
			pd := ring.PartitionDesc{Id: int32(id), StateChangeLocked: f[4] == "1"}
			if f[1] != "-" {
				for _, t := range strings.Split(f[1], ",") {
					v, _ := strconv.ParseUint(t, 10, 32)
					pd.Tokens = append(pd.Tokens, uint32(v))
				}
			}
			st, _ := strconv.Atoi(f[2])
			pd.State = ring.PartitionState(st)
			pd.StateTimestamp, _ = strconv.ParseInt(f[3], 10, 64)
			pd.StateChangeLockedTimestamp, _ = strconv.ParseInt(f[5], 10, 64)
			d.Partitions[int32(id)] = pd
		}
	}
	if h[1] != "-" {
		for _, o := range strings.Split(h[1], ";") {
			f := strings.Split(o, "/")
			p, _ := strconv.Atoi(f[1])
			st, _ := strconv.Atoi(f[2])
			od := ring.OwnerDesc{OwnedPartition: int32(p), State: ring.OwnerState(st)}
			od.UpdatedTimestamp, _ = strconv.ParseInt(f[3], 10, 64)
			d.Owners[unStr(f[0])] = od
		}
	}
	return d
}

func clonePDesc(d *ring.PartitionRingDesc) *ring.PartitionRingDesc { return decPDesc(encPDesc(d)) }
