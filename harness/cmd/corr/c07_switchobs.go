package main

// C07.switchobs — NOT part of the check (bin/check never runs it): a one-off observation on the real
// MultiClient, outside C07's quantifier. The primary store is switched through the runtime
// configuration between a caller's primary CAS and its mirror write. Usage: corr C07.switchobs

import (
	"context"
	"fmt"

	"github.com/go-kit/log"

	"github.com/grafana/dskit/kv"
)

func init() { register("C07.switchobs", runC07SwitchObs) }

func runC07SwitchObs(e *env) {
	a := c07NewBackend("consul", 10)
	b := c07NewBackend("consul", 10)
	defer a.close()
	defer b.close()
	gate := func(st *c07CallerSt, toPrimary bool, in interface{}) {
		st.msgs <- c07Msg{entered: true, mirror: true, toPrim: toPrimary, in: c07Digest(in)}
		<-st.gate
	}
	// "primary" in the gate client = the store that is primary at the END of the scenario (b)
	ca := &c07GateClient{a.cli, false, gate}
	cb := &c07GateClient{b.cli, true, gate}
	ch := make(chan kv.MultiRuntimeConfig)
	mc := kv.VerifNewMultiClient(kv.MultiConfig{MirrorEnabled: true, ConfigProvider: func() <-chan kv.MultiRuntimeConfig { return ch }},
		[]string{"a", "b"}, []kv.Client{ca, cb}, log.NewNopLogger(), nil)
	defer close(ch)
	const key = "k"
	newSt := func() *c07CallerSt {
		return &c07CallerSt{msgs: make(chan c07Msg, 1), gate: make(chan struct{}), start: make(chan struct{})}
	}
	call := func(st *c07CallerSt, id int) {
		err := mc.CAS(context.WithValue(context.Background(), c07CtxKey{}, st), key, func(in interface{}) (interface{}, bool, error) {
			st.userCalls++
			var cur *c07Val
			if in != nil {
				cur = in.(*c07Val)
			}
			v := cur.clone()
			v.add(id)
			return v, true, nil
		})
		st.msgs <- c07Msg{err: err}
	}
	get := func(c kv.Client) string {
		v, _ := c.Get(context.Background(), key)
		return c07Digest(v)
	}
	stA, stB := newSt(), newSt()
	go call(stA, 100)
	m := <-stA.msgs // A wrote {100} to a (primary) and is blocked before its mirror write to b
	e.emit("A primary CAS done; blocked in mirror write", fmt.Sprintf("toNewPrimary=%v in=%s", m.toPrim, m.in), "a="+get(a.cli), "b="+get(b.cli))
	ch <- kv.MultiRuntimeConfig{PrimaryStore: "b"}
	ch <- kv.MultiRuntimeConfig{} // barrier: the switch has been carried out
	e.emit("primary switched to b", "multi.Get="+get(mc))
	go call(stB, 200)
	m = <-stB.msgs // B wrote {200} to b (its primary) and is blocked before its mirror write to a
	e.emit("B primary CAS done on b", fmt.Sprintf("mirrorToNewPrimary=%v", m.toPrim), "a="+get(a.cli), "b="+get(b.cli), "multi.Get="+get(mc))
	stB.gate <- struct{}{}
	m = <-stB.msgs
	for m.entered { // mirror retries on a
		stB.gate <- struct{}{}
		m = <-stB.msgs
	}
	e.emit("B returned", fmt.Sprintf("err=%v", m.err), "a="+get(a.cli), "b="+get(b.cli), "multi.Get="+get(mc))
	stA.gate <- struct{}{}
	m = <-stA.msgs
	for m.entered { // the blind mirror write of A conflicts once on b, re-reads and writes
		e.emit("A mirror attempt re-entered", "in="+m.in)
		stA.gate <- struct{}{}
		m = <-stA.msgs
	}
	e.emit("A returned", fmt.Sprintf("err=%v", m.err), "a="+get(a.cli), "b="+get(b.cli), "multi.Get="+get(mc))
}
