//go:build verif

package main

// C17.race: StartAsync and StopAsync issued by two goroutines at (nearly) the same instant on a fresh service.
//
// The single-service cases of c17.go are sequences of calls that have returned; the only concurrent call there
// (SH) is placed at a point the harness can reach deterministically. A stop request that races with the start
// itself has no such point (there is no callback inside StopAsync), so this stream is a bounded stress run:
// batches of trials, each with a fresh idle service and two long-lived goroutines released together with a
// small random skew. Once BOTH calls have returned the verdict does not depend on timing any more:
//   - StartAsync failed: the stop came first, the service is Terminated (from New);
//   - StartAsync succeeded: the stop request has been registered, i.e. the service context is cancelled (or the
//     service is already Stopping/terminal). A live context in a Starting/Running service = the request is lost.
// Each trial then waits (deadline) for a terminal state; a service whose context IS cancelled but which is not
// terminal at the deadline is counted as slow, not as lost (scheduling, not a verdict).
// A batch in which only one of the two orders was seen says nothing about the race and is tagged vacuous.

import (
	"context"
	"runtime"
	"strconv"
	"sync/atomic"
	"time"

	"github.com/grafana/dskit/services"
)

type c17raceRes struct{ trials, startWon, stopWon, lost, slow, panicked int }

// spin burns roughly n iterations without yielding
func c17spin(n int) {
	x := 0
	for i := 0; i < n; i++ {
		x += i
	}
	if x == -1 {
		runtime.Gosched()
	}
}

// c17RaceVerdict looks at a trial once both calls have returned.
func c17RaceVerdict(res *c17raceRes, svc *services.BasicService, startOK bool) {
	res.trials++
	st := svc.State()
	if !startOK {
		res.stopWon++
		if st != services.Terminated {
			res.lost++ // StartAsync refused (not New any more) yet the service is not Terminated
		}
		return
	}
	res.startWon++
	stopSeen := st == services.Stopping || st == services.Terminated || st == services.Failed
	if !stopSeen {
		if ctx := svc.ServiceContext(); ctx != nil && ctx.Err() != nil {
			stopSeen = true
		}
	}
	if !stopSeen {
		// the service may have moved on between the two reads above: look once more, state first
		st = svc.State()
		stopSeen = st == services.Stopping || st == services.Terminated || st == services.Failed
	}
	if !stopSeen {
		res.lost++
		svc.StopAsync() // clean up
		return
	}
	ctx, cancel := context.WithTimeout(context.Background(), 5*time.Second)
	if err := svc.AwaitTerminated(ctx); err != nil && ctx.Err() != nil {
		res.slow++
	}
	cancel()
}

func c17RaceBatch(trials int, r *rng, deadline time.Time) c17raceRes {
	var res c17raceRes
	type shot struct {
		svc  *services.BasicService
		skew int
	}
	var (
		epoch   int32 // trial number published to the racers
		readyA  int32 // last epoch each racer has armed for
		readyB  int32
		fire    int32 // epoch that may run
		doneA   int32
		doneB   int32
		quit    int32
		cur     atomic.Value // shot
		startOK int32
		panics  int32
	)
	racer := func(ready, done *int32, call func(s shot)) {
		last := int32(0)
		for atomic.LoadInt32(&quit) == 0 {
			ep := atomic.LoadInt32(&epoch)
			if ep == last {
				runtime.Gosched()
				continue
			}
			s := cur.Load().(shot)
			atomic.StoreInt32(ready, ep)
			for atomic.LoadInt32(&fire) != ep {
				if atomic.LoadInt32(&quit) != 0 {
					return
				}
			}
			func() {
				defer func() {
					if recover() != nil {
						atomic.AddInt32(&panics, 1)
					}
				}()
				call(s)
			}()
			last = ep
			atomic.StoreInt32(done, ep)
		}
	}
	parent := context.Background()
	go racer(&readyA, &doneA, func(s shot) {
		if s.skew > 0 {
			c17spin(s.skew)
		}
		if s.svc.StartAsync(parent) == nil {
			atomic.StoreInt32(&startOK, 1)
		}
	})
	go racer(&readyB, &doneB, func(s shot) {
		if s.skew < 0 {
			c17spin(-s.skew)
		}
		s.svc.StopAsync()
	})
	defer atomic.StoreInt32(&quit, 1)

	wait := func(p *int32, ep int32) bool {
		t0 := time.Now()
		for i := 0; atomic.LoadInt32(p) != ep; i++ {
			if i%64 == 63 {
				runtime.Gosched()
				if time.Since(t0) > 8*time.Second {
					return false
				}
			}
		}
		return true
	}
	for t := 1; t <= trials && time.Now().Before(deadline); t++ {
		ep := int32(t)
		svc := services.NewIdleService(nil, nil)
		atomic.StoreInt32(&startOK, 0)
		cur.Store(shot{svc, r.intn(81) - 40})
		atomic.StoreInt32(&epoch, ep)
		if !wait(&readyA, ep) || !wait(&readyB, ep) {
			break // the racers do not get a CPU: nothing can be said
		}
		atomic.StoreInt32(&fire, ep)
		if !wait(&doneA, ep) || !wait(&doneB, ep) {
			res.trials++
			res.slow++
			break
		}
		c17RaceVerdict(&res, svc, atomic.LoadInt32(&startOK) != 0)
	}
	res.panicked = int(atomic.LoadInt32(&panics))
	return res
}

func runC17Race(e *env) {
	if runtime.GOMAXPROCS(0) < 3 {
		return // the two callers busy-wait and must be able to run at the same time
	}
	r := newRng(e.seed, 77)
	budget := 6 * time.Second
	if !e.quick {
		budget = 30 * time.Second
	}
	deadline := time.Now().Add(budget)
	for b := 0; b < 24*e.scale && time.Now().Before(deadline); b++ {
		tr := newTrack("C17.race", strconv.Itoa(b))
		x := c17RaceBatch(500, r, deadline)
		tr.done()
		if x.trials == 0 {
			continue
		}
		e.emit("C17.race", strconv.Itoa(b), strconv.Itoa(x.trials),
			strconv.Itoa(x.startWon)+","+strconv.Itoa(x.stopWon)+","+strconv.Itoa(x.lost)+","+strconv.Itoa(x.slow)+","+strconv.Itoa(x.panicked))
	}
}
