package main

import (
	"errors"
	"fmt"
	"sort"
	"strconv"
	"strings"
	"time"

	"github.com/grafana/dskit/ring"
)

func init() { register("C05", runC05) }

// c05Lookups feeds a descriptor to a real ring client and runs every kind of lookup over boundary
// keys; it counts ErrInconsistentTokensInfo results and panics.
func c05Lookups(d *ring.Desc) (inc, panics int) {
	try := func(f func() error) {
		defer func() {
			if r := recover(); r != nil {
				panics++
			}
		}()
		if err := f(); err != nil && errors.Is(err, ring.ErrInconsistentTokensInfo) {
			inc++
		}
	}
	for _, zoneAware := range []bool{false, true} {
		cfg := ring.Config{ReplicationFactor: 2, ZoneAwarenessEnabled: zoneAware, HeartbeatTimeout: 1 << 62}
		var r *ring.Ring
		try(func() error {
			var err error
			r, err = ring.VerifNewRing(cfg, cloneDesc(d), nil)
			return err
		})
		if r == nil {
			continue
		}
		for _, key := range []uint32{0, 1, 2, 3, 4, 5, 1<<32 - 1} {
			for _, op := range []ring.Operation{ring.Write, ring.Read, ring.Reporting} {
				try(func() error { _, err := r.Get(key, op, nil, nil, nil); return err })
			}
		}
		try(func() error { _, err := r.GetAllHealthy(ring.Read); return err })
		try(func() error { _, err := r.GetReplicationSetForOperation(ring.Read); return err })
		for _, size := range []int{1, 2, 5} {
			try(func() error {
				s := r.ShuffleShard("tenant", size)
				_, err := s.Get(1, ring.Write, nil, nil, nil)
				return err
			})
		}
		for id := range d.Ingesters {
			try(func() error { _, err := r.GetTokenRangesForInstance(id); return err })
		}
	}
	return
}

// c05GetIDs is the canonical answer of a lookup: sorted instance ids, or the error text class.
func c05GetIDs(r *ring.Ring, key uint32) (out string) {
	defer func() {
		if rec := recover(); rec != nil {
			out = "panic"
		}
	}()
	rs, err := r.Get(key, ring.Write, nil, nil, nil)
	if err != nil {
		if errors.Is(err, ring.ErrInconsistentTokensInfo) {
			return "inconsistent"
		}
		return "err"
	}
	ids := make([]string, 0, len(rs.Instances))
	for _, i := range rs.Instances {
		ids = append(ids, i.Id)
	}
	sort.Strings(ids)
	return strings.Join(ids, ",")
}

// c05Held is a sub-ring a caller obtained from the long-lived client and still holds, with the answers it
// gave when it was obtained.
type c05Held struct {
	sub ring.ReadRing
	ans []string
}

// c05TopologyOp treats every state as healthy and never extends the replica set: with the stream's
// effectively infinite heartbeat timeout the answer to a Get depends on the topology only (tokens, owners,
// zones), not on instance states or timestamps - which the client legitimately refreshes in place on CACHED
// shuffle-shard sub-rings when only states/timestamps changed.
var c05TopologyOp = ring.NewOp(allStates, nil)

// c05SubAnswers queries a (sub-)ring on every token boundary of the tiny token space: `ans` are the canonical
// topology answers (sorted id@addr / error class); `bad` counts lookups - topology, Write, Read, and one
// through a shuffle shard taken from it - that reported inconsistent token information or panicked.
func c05SubAnswers(sub ring.ReadRing) (ans []string, bad int) {
	get := func(rr ring.ReadRing, key uint32, op ring.Operation) (res string) {
		defer func() {
			if rec := recover(); rec != nil {
				res = "panic"
			}
			if res == "panic" || res == "inconsistent" {
				bad++
			}
		}()
		rs, err := rr.Get(key, op, nil, nil, nil)
		if err != nil {
			if errors.Is(err, ring.ErrInconsistentTokensInfo) {
				return "inconsistent"
			}
			return "err"
		}
		ids := make([]string, 0, len(rs.Instances))
		for _, i := range rs.Instances {
			ids = append(ids, i.Id+"@"+i.Addr)
		}
		sort.Strings(ids)
		return strings.Join(ids, ",")
	}
	for _, key := range []uint32{0, 1, 2, 3, 4, 5, 7, 8, 1<<32 - 1} {
		ans = append(ans, get(sub, key, c05TopologyOp))
		get(sub, key, ring.Write)
		get(sub, key, ring.Read)
	}
	func() {
		defer func() {
			if rec := recover(); rec != nil {
				bad++
				ans = append(ans, "panic")
			}
		}()
		ans = append(ans, get(sub.ShuffleShard("held", 1), 1, c05TopologyOp))
	}()
	return
}

// c05Acquire obtains the kinds of sub-ring a caller can get from a ring client (all of them share the
// client's token->instance index); a call that returns the client itself (nothing to shard) is skipped.
func c05Acquire(client *ring.Ring) []c05Held {
	var subs []ring.ReadRing
	func() {
		defer func() { _ = recover() }() // lookups on the client itself are judged elsewhere (lk field)
		subs = append(subs, client.GetSubringForOperationStates(ring.Read))
		subs = append(subs, client.GetSubringForOperationStates(ring.Write))
		subs = append(subs, client.ShuffleShard("tenant", 1))
		subs = append(subs, client.ShuffleShard("other", 2))
		subs = append(subs, client.ShuffleShardWithLookback("tenant", 1, time.Hour, time.Now()))
	}()
	var out []c05Held
	for _, sub := range subs {
		if rr, ok := sub.(*ring.Ring); ok && rr == client {
			continue
		}
		ans, _ := c05SubAnswers(sub) // lookups on a freshly obtained sub-ring: its state is the client's, judged via lk
		out = append(out, c05Held{sub: sub, ans: ans})
	}
	return out
}

func c05Desc(r *rng, nIDs int, wild bool) *ring.Desc {
	d := ring.NewDesc()
	for id := 0; id < nIDs; id++ {
		if r.chance(1, 3) {
			continue
		}
		i := ring.InstanceDesc{Id: "i" + strconv.Itoa(id), Addr: "a" + strconv.Itoa(id), Zone: pick(r, []string{"z0", "z1"}), Timestamp: int64(1 + r.intn(5)), State: pick(r, allStates)}
		nt := r.intn(4)
		for j := 0; j < nt; j++ {
			i.Tokens = append(i.Tokens, uint32(1+r.intn(4))) // tiny token space: collisions are the norm; unsorted, duplicated
		}
		d.Ingesters[i.Id] = i
	}
	return d
}

func runC05(e *env) {
	r := newRng(e.seed, 5)
	nHist := 1500 * e.scale
	for h := 0; h < nHist; h++ {
		// `live` is mutated in place by the real Merge, exactly like the value held by the gossip KV
		// store; readers (a long-lived ring client) only ever get Desc.Clone() snapshots, which SHARE
		// token storage with it. A merge that writes into storage still referenced by an earlier
		// snapshot shows up as a mutated snapshot or as a client whose lookups differ from a fresh one.
		live := ring.NewDesc()
		var client *ring.Ring
		var held []c05Held // sub-rings obtained from the client before some update and kept by the caller
		state := ring.NewDesc()
		nIDs := 2 + r.intn(3)
		steps := 2 + r.intn(6)
		clock := int64(1)
		for s := 0; s < steps; s++ {
			other := c05Desc(r, nIDs, true)
			cas := r.chance(1, 4)
			clock += int64(r.intn(2))
			if cas {
				// a local CAS passes the full next state: take the current state and edit it
				other = cloneDesc(state)
				for id, i := range other.Ingesters {
					if i.State == ring.LEFT {
						delete(other.Ingesters, id)
					}
				}
				ids := make([]string, 0, len(other.Ingesters))
				for id := range other.Ingesters {
					ids = append(ids, id)
				}
				sort.Strings(ids) // never let Go's map order pick: every choice comes from the PRNG
				switch r.intn(4) {
				case 3: // hand-over in ONE write: an instance holding tokens is dropped and (some of) its tokens
					// are claimed by another instance, new or changed, in the same local CAS
					var holders []string
					for _, id := range ids {
						if len(other.Ingesters[id].Tokens) > 0 {
							holders = append(holders, id)
						}
					}
					if len(holders) > 0 {
						x := pick(r, holders)
						toks := other.Ingesters[x].Tokens
						xZone := other.Ingesters[x].Zone
						all := r.chance(1, 2) // take over every token (the token set of the ring may then stay the same)
						delete(other.Ingesters, x)
						var cands []string
						for k := 0; k < nIDs; k++ {
							if id := "i" + strconv.Itoa(k); id != x {
								cands = append(cands, id)
							}
						}
						y := pick(r, cands)
						i, ok := other.Ingesters[y]
						if !ok {
							zone := pick(r, []string{"z0", "z1"})
							if all {
								zone = xZone
							}
							i = ring.InstanceDesc{Id: y, Addr: "a" + y[1:], Zone: zone,
								State: pick(r, []ring.InstanceState{ring.ACTIVE, ring.LEAVING, ring.PENDING, ring.JOINING})}
						}
						if prev, known := state.Ingesters[y]; known && prev.Timestamp >= clock {
							clock = prev.Timestamp + 1 // the claimant's entry must be newer than what the replica holds
						}
						i.Timestamp = clock
						nt := append([]uint32(nil), i.Tokens...)
						for k, t := range toks {
							if k == 0 || all || r.chance(2, 3) {
								nt = append(nt, t)
							}
						}
						i.Tokens = nt
						other.Ingesters[y] = i
					}
				case 0: // remove one
					if len(ids) > 0 {
						delete(other.Ingesters, pick(r, ids))
					}
				case 1: // heartbeat / token change of one
					if len(ids) > 0 {
						id := pick(r, ids)
						i := other.Ingesters[id]
						i.Timestamp = clock
						i.Tokens = append(append([]uint32(nil), i.Tokens...), uint32(1+r.intn(4)))
						other.Ingesters[id] = i
					}
				default: // add one
					n := c05Desc(r, nIDs, true)
					for id, i := range n.Ingesters {
						other.Ingesters[id] = i
					}
				}
			}
			results := map[string]bool{}
			var st, ch *ring.Desc
			for rep := 0; rep < 6; rep++ { // Go randomises map iteration per range statement
				st, ch = implMerge(state, other, cas, clock)
				results[encDesc(st)+"|"+encChange(ch)] = true
			}
			// the same merge applied in place to the live value, observed through shared-storage clones
			snapBefore := live.Clone().(*ring.Desc)
			encBefore := encDesc(snapBefore)
			if client == nil {
				client, _ = ring.VerifNewRing(ring.Config{ReplicationFactor: 2, HeartbeatTimeout: 1 << 62}, snapBefore, nil)
			} else {
				client.VerifUpdateRingState(snapBefore)
			}
			if client != nil {
				// callers obtain sub-rings from the client's CURRENT state and keep them across later updates
				held = append(held, c05Acquire(client)...)
				if len(held) > 10 {
					held = held[len(held)-10:]
				}
			}
			if _, err := live.VerifMergeWithTime(cloneDesc(other), cas, time.Unix(clock, 0)); err != nil {
				panic(err)
			}
			snapMut := 0
			if encDesc(snapBefore) != encBefore {
				snapMut = 1
			}
			snapAfter := live.Clone().(*ring.Desc)
			alias := 0
			if client != nil {
				client.VerifUpdateRingState(snapAfter)
				fresh, _ := ring.VerifNewRing(ring.Config{ReplicationFactor: 2, HeartbeatTimeout: 1 << 62}, cloneDesc(live), nil)
				for _, key := range []uint32{0, 1, 2, 3, 4, 5, 1<<32 - 1} {
					if c05GetIDs(client, key) != c05GetIDs(fresh, key) {
						alias++
					}
				}
			}
			if encDesc(live) != encDesc(st) {
				alias += 100 // in-place merge and copy merge must agree
			}
			// every held sub-ring keeps answering from its own snapshot: same answers as when it was obtained,
			// never inconsistent token information, never a panic
			heldInc, heldChg := 0, 0
			for _, h := range held {
				now, bad := c05SubAnswers(h.sub)
				heldInc += bad
				for k := range now {
					if k >= len(h.ans) || now[k] != h.ans[k] {
						heldChg++
					}
				}
			}
			inc, pn := c05Lookups(st)
			c := "0"
			if cas {
				c = "1"
			}
			e.emit("C05.step", c, strconv.FormatInt(clock, 10), encDesc(state), encDesc(other), encDesc(st), encChange(ch), strconv.Itoa(len(results)), fmt.Sprintf("inc=%d,panic=%d", inc, pn), fmt.Sprintf("alias=%d,snapmut=%d,heldinc=%d,heldchg=%d", alias, snapMut, heldInc, heldChg))
			state = st
		}
	}
	c05Orders(e, newRng(e.seed, 55))
}

// ---------- one set of updates, two delivery orders ----------

// c05EmitOrder delivers the updates `ups` to two replicas that both start empty, in the orders p1 and p2
// (gossip merges), and records both end states. C05 does NOT claim that they agree when tokens collide
// (Lean: PC05.winner_depends_on_delivery_order_witness); the line ties the witness to the real code.
func c05EmitOrder(e *env, ups []*ring.Desc, p1, p2 []int) {
	run := func(p []int) *ring.Desc {
		s := ring.NewDesc()
		for _, i := range p {
			s, _ = implMerge(s, ups[i], false, 0)
		}
		return s
	}
	enc := make([]string, len(ups))
	for i, u := range ups {
		enc[i] = encDesc(u)
	}
	ord := func(p []int) string {
		o := make([]string, len(p))
		for i, x := range p {
			o[i] = strconv.Itoa(x)
		}
		return strings.Join(o, ",")
	}
	e.emit("C05.order", strings.Join(enc, "|"), ord(p1), ord(p2), "-", encDesc(run(p1)), encDesc(run(p2)))
}

func c05One(id string, ts int64, st ring.InstanceState, toks ...uint32) *ring.Desc {
	d := ring.NewDesc()
	d.Ingesters[id] = ring.InstanceDesc{Id: id, Timestamp: ts, State: st, Tokens: toks}
	return d
}

func c05Orders(e *env, r *rng) {
	// the witness of PC05.winner_depends_on_delivery_order_witness, verbatim
	w := []*ring.Desc{c05One("a", 1, ring.ACTIVE, 7), c05One("b", 1, ring.ACTIVE, 7), c05One("a", 2, ring.LEAVING, 7)}
	c05EmitOrder(e, w, []int{0, 1, 2}, []int{2, 1, 0})
	// the witnesses of PC03.merge_diverges_on_token_handover (a token handed over at disjoint times)
	h := []*ring.Desc{c05One("a", 1, ring.ACTIVE, 7), c05One("a", 2, ring.ACTIVE), c05One("b", 3, ring.ACTIVE, 7)}
	c05EmitOrder(e, h, []int{0, 1, 2}, []int{0, 2, 1})
	// random sets of 2-4 single-instance updates over the tiny token space, two random orders
	for n := 0; n < 400*e.scale; n++ {
		k := 2 + r.intn(3)
		ups := make([]*ring.Desc, k)
		for i := range ups {
			st := pick(r, allStates)
			var toks []uint32
			for j, nt := 0, r.intn(3); j < nt; j++ {
				toks = append(toks, uint32(1+r.intn(4)))
			}
			ups[i] = c05One("i"+strconv.Itoa(r.intn(3)), int64(1+r.intn(3)), st, toks...)
		}
		perm := func() []int {
			p := make([]int, k)
			for i := range p {
				p[i] = i
			}
			for i := k - 1; i > 0; i-- {
				j := r.intn(i + 1)
				p[i], p[j] = p[j], p[i]
			}
			return p
		}
		c05EmitOrder(e, ups, perm(), perm())
	}
}
