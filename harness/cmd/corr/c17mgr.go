package main

// C17, manager and failure watcher.
//
// Manager: 1..3 gated services (c17svc) are handed to services.NewManager through a proxy that
// intercepts the listener the manager installs: notifications of service i are queued by the proxy and
// handed to the manager's listener only when the scheduler performs `d<i>` (on a per-service forwarder
// goroutine), so every cross-service interleaving of transition notifications can be produced.
//
// Line: C17.mgr <cfgs> <actions> <snapshots joined by " | ">

import (
	"context"
	"fmt"
	"sort"
	"strconv"
	"strings"
	"sync"
	"sync/atomic"
	"time"

	"github.com/grafana/dskit/services"
)

type c17proxy struct {
	services.Service // the real BasicService
	idx              int
	mu               sync.Mutex
	mgrL             services.Listener
	pend             []func()
	pendDesc         []string
	received         int
	fwd              chan func()
	ack              chan struct{}
	pk               poker
}

type c17proxyListener struct{ p *c17proxy }

func (l c17proxyListener) push(desc string, f func()) {
	l.p.mu.Lock()
	l.p.pend = append(l.p.pend, f)
	l.p.pendDesc = append(l.p.pendDesc, desc)
	l.p.received++
	l.p.mu.Unlock()
	l.p.pk.poke()
}
func (l c17proxyListener) Starting() { l.push("S", func() { l.p.mgrL.Starting() }) }
func (l c17proxyListener) Running()  { l.push("R", func() { l.p.mgrL.Running() }) }
func (l c17proxyListener) Stopping(from services.State) {
	l.push("P"+c17StateCode(from), func() { l.p.mgrL.Stopping(from) })
}
func (l c17proxyListener) Terminated(from services.State) {
	l.push("T"+c17StateCode(from), func() { l.p.mgrL.Terminated(from) })
}
func (l c17proxyListener) Failed(from services.State, err error) {
	l.push("F"+c17StateCode(from)+c17ErrID(err), func() { l.p.mgrL.Failed(from, err) })
}

// AddListener: the first registration is the manager's; it is replaced by the queueing proxy.
func (p *c17proxy) AddListener(l services.Listener) func() {
	p.mu.Lock()
	first := p.mgrL == nil
	if first {
		p.mgrL = l
	}
	p.mu.Unlock()
	if first {
		return p.Service.AddListener(c17proxyListener{p})
	}
	return p.Service.AddListener(l)
}
func (p *c17proxy) String() string { return "svc" + strconv.Itoa(p.idx) }
func (p *c17proxy) counts() (pending, received int) {
	p.mu.Lock()
	defer p.mu.Unlock()
	return len(p.pend), p.received
}

type c17mlsn struct {
	mu       sync.Mutex
	id       int
	gated    bool
	removed  bool
	remove   func()
	log      []string
	regAt    int
	entered  int
	released int
	gate     chan struct{}
	inCb     int32
	reent    *int32
	idxOf    func(services.Service) int
	pk       poker
}

func (l *c17mlsn) cb(entry string) {
	if atomic.AddInt32(&l.inCb, 1) > 1 {
		atomic.AddInt32(l.reent, 1)
	}
	l.mu.Lock()
	l.log = append(l.log, entry)
	l.entered++
	l.mu.Unlock()
	l.pk.poke()
	if l.gated {
		<-l.gate
	}
	atomic.AddInt32(&l.inCb, -1)
}
func (l *c17mlsn) Healthy()                   { l.cb("H") }
func (l *c17mlsn) Stopped()                   { l.cb("Z") }
func (l *c17mlsn) Failure(s services.Service) { l.cb("F" + strconv.Itoa(l.idxOf(s))) }
func (l *c17mlsn) counts() (int, int) {
	l.mu.Lock()
	defer l.mu.Unlock()
	return l.entered, l.released
}
func (l *c17mlsn) render() string {
	l.mu.Lock()
	defer l.mu.Unlock()
	k := "u"
	if l.gated {
		k = "g"
	}
	if l.removed {
		k += "x"
	}
	lg := "-"
	if len(l.log) > 0 {
		lg = strings.Join(l.log, ",")
	}
	return strconv.Itoa(l.id) + k + ":" + lg
}

type c17mgr struct {
	svcs         []*c17svc
	prox         []*c17proxy
	mgr          *services.Manager
	parent       context.Context
	cancelParent context.CancelFunc
	parentC      bool
	mlsns        []*c17mlsn
	reent        int32
	expected     int // notifications the manager must have broadcast so far (harness bookkeeping)
	wasHealthy   bool
	wasStopped   bool
	impossible   bool // some delivered notification says a service is Stopping/Terminated/Failed
	wH, wS       *c17waiter
	lastRet      string
	lastDeliv    string
	timeouts     int
	pk           poker
	panicMu      sync.Mutex
	panicked     string
	nMS, nMX     int
	nX           []int
}

func newC17mgr(cfgs []string) *c17mgr {
	m := &c17mgr{pk: make(poker, 1), lastRet: "-", lastDeliv: "-", nX: make([]int, len(cfgs))}
	m.parent, m.cancelParent = context.WithCancel(context.Background())
	var ss []services.Service
	for i, cfg := range cfgs {
		c := newC17svcP('b', cfg[0] == '1', cfg[1] == '1', cfg[2] == '1', m.pk)
		c.parent = m.parent
		p := &c17proxy{pk: m.pk, Service: c.svc, idx: i, fwd: make(chan func()), ack: make(chan struct{})}
		go func() {
			for f := range p.fwd {
				// the manager's callback runs on this (harness) goroutine: a panic inside the manager can
				// be recovered here and reported as an observation of this very case
				func() {
					defer func() {
						if r := recover(); r != nil {
							m.panicMu.Lock()
							m.panicked = strings.ReplaceAll(fmt.Sprint(r), " ", "_")
							m.panicMu.Unlock()
						}
					}()
					f()
				}()
				p.ack <- struct{}{}
			}
		}()
		m.svcs = append(m.svcs, c)
		m.prox = append(m.prox, p)
		ss = append(ss, p)
	}
	var err error
	m.mgr, err = services.NewManager(ss...)
	if err != nil {
		panic(err)
	}
	m.wH, m.wS = &c17waiter{pk: m.pk}, &c17waiter{pk: m.pk}
	go func() { m.wH.set(m.mgr.AwaitHealthy(context.Background())) }()
	go func() { m.wS.set(m.mgr.AwaitStopped(context.Background())) }()
	m.addListener(false)
	return m
}

func (m *c17mgr) idxOf(s services.Service) int {
	for i, p := range m.prox {
		if s == services.Service(p) {
			return i
		}
	}
	return -1
}

func (m *c17mgr) addListener(gated bool) {
	l := &c17mlsn{pk: m.pk, id: len(m.mlsns), gated: gated, gate: make(chan struct{}), reent: &m.reent, idxOf: m.idxOf, regAt: m.expected}
	l.remove = m.mgr.AddListener(l)
	if m.wasStopped {
		l.regAt = -1 // not registered: AddListener after Stopped is a no-op
	}
	m.mlsns = append(m.mlsns, l)
}

func (m *c17mgr) quiet() bool {
	for i, c := range m.svcs {
		if !c.quiet() {
			return false
		}
		// the proxy (a listener registered at New) has received every transition
		_, rec := m.prox[i].counts()
		if _, _, n0 := c.lsns[0].counts(); rec != n0 {
			return false
		}
	}
	for _, l := range m.mlsns {
		if l.removed || l.regAt < 0 {
			continue
		}
		exp := m.expected - l.regAt
		entered, released := l.counts()
		if l.gated {
			if released < exp && entered != released+1 {
				return false
			}
			if released >= exp && entered != exp {
				return false
			}
		} else if entered != exp {
			return false
		}
	}
	if m.wasStopped && !m.wS.isDone() {
		return false
	}
	if (m.wasHealthy || m.wasStopped || m.impossible) && !m.wH.isDone() {
		return false
	}
	return true
}

func (m *c17mgr) settle() {
	if !waitUntil(m.pk, m.quiet) {
		m.timeouts++
	}
}

func (m *c17mgr) snapshot() string {
	h, z := "0", "0"
	if m.mgr.IsHealthy() {
		h = "1"
	}
	if m.mgr.IsStopped() {
		z = "1"
	}
	by := m.mgr.ServicesByState()
	var keys []int
	for st := range by {
		keys = append(keys, int(st))
	}
	sort.Ints(keys)
	var parts []string
	for _, k := range keys {
		var ix []string
		for _, s := range by[services.State(k)] {
			ix = append(ix, strconv.Itoa(m.idxOf(s)))
		}
		parts = append(parts, c17StateCode(services.State(k))+":"+strings.Join(ix, ","))
	}
	bys := strings.Join(parts, "/")
	if bys == "" {
		bys = "-"
	}
	sts, pend := "", []string{}
	for i, c := range m.svcs {
		sts += c17StateCode(c.svc.State())
		p, _ := m.prox[i].counts()
		pend = append(pend, strconv.Itoa(p))
	}
	aH, aS := "p", "p"
	if m.wH.isDone() {
		aH = c17ResClass(m.mgr.AwaitHealthy(context.Background()))
	}
	if m.wS.isDone() {
		aS = c17ResClass(m.mgr.AwaitStopped(context.Background()))
	}
	ls := make([]string, len(m.mlsns))
	for i, l := range m.mlsns {
		ls[i] = l.render()
	}
	bad := "-"
	to := m.timeouts
	for _, c := range m.svcs {
		to += c.timeouts
	}
	if n := atomic.LoadInt32(&m.reent); n > 0 || to > 0 {
		bad = fmt.Sprintf("re%d,to%d", n, to)
	}
	m.panicMu.Lock()
	if m.panicked != "" {
		bad = "panic:" + m.panicked
	}
	m.panicMu.Unlock()
	return strings.Join([]string{m.lastRet, m.lastDeliv, h, z, bys, sts, strings.Join(pend, ","),
		m.wH.render(), m.wS.render(), aH, aS, strings.Join(ls, "/"), bad}, ";")
}

// action tokens: MS MX P ML MG MR<j> MD<j> | S<i> X<i> d<i> | s<i>:<k> r<i>:<k> p<i>:<k>
func (m *c17mgr) parse(a string) (kind string, i, k int) {
	switch {
	case a == "MS" || a == "MX" || a == "P" || a == "ML" || a == "MG":
		return a, 0, 0
	case strings.HasPrefix(a, "MR") || strings.HasPrefix(a, "MD"):
		j, _ := strconv.Atoi(a[2:])
		return a[:2], j, 0
	}
	parts := strings.SplitN(a[1:], ":", 2)
	i, _ = strconv.Atoi(parts[0])
	if len(parts) == 2 {
		k, _ = strconv.Atoi(parts[1])
	}
	return a[:1], i, k
}

func (m *c17mgr) applicable(a string) bool {
	kind, i, _ := m.parse(a)
	switch kind {
	case "MS":
		return m.nMS < 2
	case "MX":
		return m.nMX < 2
	case "P":
		return !m.parentC
	case "ML", "MG":
		return len(m.mlsns) < 3
	case "MR", "MD":
		if i < 1 || i >= len(m.mlsns) || m.mlsns[i].removed {
			return false
		}
		l := m.mlsns[i]
		entered, released := l.counts()
		if kind == "MD" {
			return l.gated && entered > released
		}
		return !l.gated || entered == released
	}
	if i >= len(m.svcs) {
		return false
	}
	c := m.svcs[i]
	switch kind {
	case "S":
		return c.nS < 2
	case "X":
		return m.nX[i] < 2
	case "d":
		p, _ := m.prox[i].counts()
		return p > 0
	case "s", "r", "p":
		return c.blockedGate() == kind
	}
	return false
}

func (m *c17mgr) do(a string) {
	m.lastRet, m.lastDeliv = "-", "-"
	kind, i, k := m.parse(a)
	switch kind {
	case "MS":
		m.nMS++
		if err := m.mgr.StartAsync(m.parent); err != nil {
			m.lastRet = "e"
		} else {
			m.lastRet = "ok"
		}
	case "MX":
		m.nMX++
		m.mgr.StopAsync()
	case "P":
		m.parentC = true
		m.cancelParent()
	case "ML":
		m.addListener(false)
	case "MG":
		m.addListener(true)
	case "MR":
		l := m.mlsns[i]
		l.remove()
		l.mu.Lock()
		l.removed = true
		l.mu.Unlock()
	case "MD":
		l := m.mlsns[i]
		l.mu.Lock()
		l.released++
		l.mu.Unlock()
		l.gate <- struct{}{}
	case "S":
		c := m.svcs[i]
		c.nS++
		if err := m.prox[i].StartAsync(m.parent); err != nil {
			m.lastRet = "e"
		} else {
			m.lastRet = "ok"
		}
	case "X":
		m.nX[i]++
		m.prox[i].StopAsync()
	case "s", "r", "p":
		m.svcs[i].release(kind, k)
	case "d":
		p := m.prox[i]
		p.mu.Lock()
		f, desc := p.pend[0], p.pendDesc[0]
		p.pend, p.pendDesc = p.pend[1:], p.pendDesc[1:]
		p.mu.Unlock()
		p.fwd <- f
		<-p.ack
		m.lastDeliv = desc
		// what the manager must now have broadcast (from its own answers, not from the model)
		if desc[0] == 'F' {
			m.expected++
		}
		if desc[0] == 'F' || desc[0] == 'T' || desc[0] == 'P' {
			m.impossible = true
		}
		if h := m.mgr.IsHealthy(); h && !m.wasHealthy {
			m.expected++
			m.wasHealthy = true
		}
		if z := m.mgr.IsStopped(); z && !m.wasStopped {
			m.expected++
			m.wasStopped = true
		}
	}
	m.settle()
}

func (m *c17mgr) cleanup() {
	for _, l := range m.mlsns {
		if l.gated {
			close(l.gate)
		}
	}
	for _, c := range m.svcs {
		c.cleanup()
	}
	for i, p := range m.prox {
		_ = i
		close(p.fwd)
	}
	for _, l := range m.mlsns {
		if !l.removed {
			l.remove()
		}
	}
}

type c17mcase struct {
	cfgs    []string
	actions []string
}

func runMgrCase(cs c17mcase, alphabet []string) (done, snaps, next []string) {
	tr := newTrack("C17.mgr", strings.Join(cs.cfgs, ","))
	defer tr.done()
	m := newC17mgr(cs.cfgs)
	m.settle()
	snaps = append(snaps, m.snapshot())
	for _, a := range cs.actions {
		if !m.applicable(a) {
			continue
		}
		tr.step(a)
		m.do(a)
		done = append(done, a)
		snaps = append(snaps, m.snapshot())
	}
	for _, a := range alphabet {
		if m.applicable(a) {
			next = append(next, a)
		}
	}
	m.cleanup()
	return
}

func walkMgrCase(cfgs []string, weighted []string, steps int, r *rng) (done, snaps []string) {
	tr := newTrack("C17.mgr", strings.Join(cfgs, ","))
	defer tr.done()
	m := newC17mgr(cfgs)
	m.settle()
	snaps = append(snaps, m.snapshot())
	for i := 0; i < steps; i++ {
		var app []string
		for _, a := range weighted {
			if m.applicable(a) {
				app = append(app, a)
			}
		}
		if len(app) == 0 {
			break
		}
		a := pick(r, app)
		tr.step(a)
		m.do(a)
		done = append(done, a)
		snaps = append(snaps, m.snapshot())
	}
	m.cleanup()
	return
}

func c17MgrAlphabet(n int, small bool) []string {
	al := []string{"MS", "MX", "ML", "MG", "MR1", "MD1", "MR2", "MD2"}
	if !small {
		al = append(al, "P")
	}
	for i := 0; i < n; i++ {
		is := strconv.Itoa(i)
		al = append(al, "d"+is, "s"+is+":0", "s"+is+":"+strconv.Itoa(3*i+1), "r"+is+":0", "r"+is+":"+strconv.Itoa(3*i+2),
			"p"+is+":0", "p"+is+":"+strconv.Itoa(3*i+3))
		if !small {
			al = append(al, "S"+is, "X"+is)
		}
	}
	return al
}

func c17RandomMgrCfg(r *rng) ([]string, []string) {
	n := 1 + r.intn(3)
	cfgs := make([]string, n)
	for i := range cfgs {
		if r.chance(3, 4) {
			cfgs[i] = "111"
		} else {
			cfgs[i] = pick(r, []string{"000", "001", "010", "011", "100", "101", "110"})
		}
	}
	al := c17MgrAlphabet(n, false)
	// deliveries and nil releases are what makes a run progress: weight them
	for i := 0; i < n; i++ {
		is := strconv.Itoa(i)
		for j := 0; j < 5; j++ {
			al = append(al, "d"+is)
		}
		for j := 0; j < 3; j++ {
			al = append(al, "s"+is+":0", "r"+is+":0", "p"+is+":0")
		}
	}
	al = append(al, "MS", "MS", "MS", "MS", "MX", "MD1", "MD2")
	return cfgs, al
}

func c17EmitMgr(cfgs, done, snaps []string) []string {
	acts := "-"
	if len(done) > 0 {
		acts = strings.Join(done, " ")
	}
	return []string{"C17.mgr", strings.Join(cfgs, ","), acts, strings.Join(snaps, " | ")}
}

func c17EnumerateMgr(e *env, cfgs []string, prefix []string, alphabet []string, depth, cap int, r *rng) {
	type res struct{ done, snaps, next []string }
	frontier := [][]string{prefix}
	for d := 0; d <= depth && len(frontier) > 0; d++ {
		rs := parallelMap(len(frontier), c17Workers(), func(i int) res {
			dn, sn, nx := runMgrCase(c17mcase{cfgs, frontier[i]}, alphabet)
			return res{dn, sn, nx}
		})
		var nf [][]string
		for i, x := range rs {
			if d == depth || len(x.next) == 0 {
				e.emit(c17EmitMgr(cfgs, x.done, x.snaps)...)
				continue
			}
			for _, a := range x.next {
				nf = append(nf, append(append([]string{}, frontier[i]...), a))
			}
		}
		if cap <= 0 || cap > 100000 {
			cap = 100000 // hard bound on the frontier
		}
		if len(nf) > cap {
			for i := len(nf) - 1; i > 0; i-- {
				j := r.intn(i + 1)
				nf[i], nf[j] = nf[j], nf[i]
			}
			nf = nf[:cap]
		}
		frontier = nf
	}
}

// c17MgrInterleavings: run the prefix, then hand the queued notifications of the services to the manager
// in every order that respects each service's own order (all multiset permutations; sampled above cap).
func c17MgrInterleavings(e *env, cfgs []string, prefix []string, cap int, r *rng) {
	tr := newTrack("C17.mgr", strings.Join(cfgs, ","))
	m := newC17mgr(cfgs)
	m.settle()
	for _, a := range prefix {
		if m.applicable(a) {
			tr.step(a)
			m.do(a)
		}
	}
	counts := make([]int, len(cfgs))
	for i, p := range m.prox {
		counts[i], _ = p.counts()
	}
	m.cleanup()
	tr.done()
	var seqs [][]string
	total := 1 // multinomial
	k := 0
	for _, c := range counts {
		for j := 1; j <= c; j++ {
			k++
			total = total * k / j
		}
	}
	if total <= cap {
		var rec func(cur []string, left []int)
		rec = func(cur []string, left []int) {
			done := true
			for i := range left {
				if left[i] > 0 {
					done = false
					left[i]--
					rec(append(cur, "d"+strconv.Itoa(i)), left)
					left[i]++
				}
			}
			if done {
				seqs = append(seqs, append([]string{}, cur...))
			}
		}
		rec(nil, append([]int{}, counts...))
	} else {
		for n := 0; n < cap; n++ {
			var pool []string
			for i, c := range counts {
				for j := 0; j < c; j++ {
					pool = append(pool, "d"+strconv.Itoa(i))
				}
			}
			for i := len(pool) - 1; i > 0; i-- {
				j := r.intn(i + 1)
				pool[i], pool[j] = pool[j], pool[i]
			}
			seqs = append(seqs, pool)
		}
	}
	type res struct{ done, snaps []string }
	rs := parallelMap(len(seqs), c17Workers(), func(i int) res {
		dn, sn, _ := runMgrCase(c17mcase{cfgs, append(append([]string{}, prefix...), seqs[i]...)}, nil)
		return res{dn, sn}
	})
	for _, x := range rs {
		e.emit(c17EmitMgr(cfgs, x.done, x.snaps)...)
	}
}

func runC17Mgr(e *env) {
	r := newRng(e.seed, 2)
	// NewManager preconditions
	e.emit("C17.mgrnew", "-", c17ResClass(func() error { _, err := services.NewManager(); return err }()))
	for _, pre := range []string{"N", "NN", "S", "NS", "T", "NT", "SNN", "NNN"} {
		tr := newTrack("C17.mgrnew", pre)
		var ss []services.Service
		var cs []*c17svc
		for _, ch := range pre {
			c := newC17svc('b', true, true, true)
			switch ch {
			case 'S':
				_ = c.svc.StartAsync(context.Background())
			case 'T':
				c.svc.StopAsync()
			}
			c.settle()
			cs = append(cs, c)
			ss = append(ss, c.svc)
		}
		_, err := services.NewManager(ss...)
		e.emit("C17.mgrnew", pre, c17ResClass(err))
		for _, c := range cs {
			c.cleanup()
		}
		tr.done()
	}
	// exhaustive: started managers of 1 and 2 full services, all interleavings of releases / deliveries / stop
	d1, d2, cp := 8, 6, 1200
	if !e.quick {
		d1, d2, cp = 10, 8, 40000
	}
	c17EnumerateMgr(e, []string{"111"}, nil, c17MgrAlphabet(1, true), d1, cp, r)
	c17EnumerateMgr(e, []string{"111", "111"}, nil, c17MgrAlphabet(2, true), d2, cp, r)
	// all cross-service interleavings of the queued transition notifications of fixed service histories
	f := strings.Fields
	two := []string{"111", "111"}
	three := []string{"111", "111", "111"}
	c17MgrInterleavings(e, two, f("MS s0:0 s1:0 MX p0:0 p1:0"), cp, r)
	c17MgrInterleavings(e, two, f("MS s0:0 s1:0 r0:2 p0:0 r1:0 p1:6"), cp, r)
	c17MgrInterleavings(e, two, f("MS s0:1 s1:0 r1:5 p1:0"), cp, r)
	c17MgrInterleavings(e, two, f("X0 MS S1 s1:0 X1 p1:0"), cp, r)
	c17MgrInterleavings(e, two, f("MS s0:0 s1:0"), cp, r)
	c17MgrInterleavings(e, three, f("MS s0:0 s1:1 s2:0 MX p0:0 p2:9"), cp, r)
	c17MgrInterleavings(e, three, f("MS s0:0 s1:0 s2:0"), cp, r)
	c17MgrInterleavings(e, three, f("MS s0:0 s1:0 s2:0 MX p0:0 p1:0 p2:0"), cp, r)
	c17MgrInterleavings(e, []string{"000", "111", "010"}, f("MS s1:0 MX p1:0"), cp, r)
	c17EnumerateMgr(e, two, f("MS s0:0 s1:0"), []string{"d0", "d1", "MX", "r0:0", "p0:0", "p1:0", "ML"}, 9, cp, r)
	// random walks: 1..3 services, every action kind
	n := 2000 * e.scale
	type res struct{ cfgs, done, snaps []string }
	rs := parallelMap(n, c17Workers(), func(i int) res {
		rr := newRng(e.seed, 2000+uint64(i))
		cfgs, al := c17RandomMgrCfg(rr)
		dn, sn := walkMgrCase(cfgs, al, 6+rr.intn(12*len(cfgs)), rr)
		return res{cfgs, dn, sn}
	})
	for _, x := range rs {
		e.emit(c17EmitMgr(x.cfgs, x.done, x.snaps)...)
	}
	e.mu.Lock()
	e.w.Flush() // what has been observed so far survives a crash of the process in a later part
	e.mu.Unlock()
}

// ------------------------------------------------------------------ failure watcher

// Line: C17.fw <mode>,<n> <actions> <snapshots>; snapshot = forwarded failures ; chan closed ; panics
func runFWCase(mode string, n int, weighted []string, steps int, r *rng) (done, snaps []string) {
	tr := newTrack("C17.fw", mode+","+strconv.Itoa(n))
	defer tr.done()
	w := services.NewFailureWatcher()
	pk := make(poker, 1)
	var mu sync.Mutex
	var got []string
	chClosed := false
	readerDone := make(chan struct{})
	go func() {
		for err := range w.Chan() {
			mu.Lock()
			got = append(got, c17ErrID(err))
			mu.Unlock()
			pk.poke()
		}
		mu.Lock()
		chClosed = true
		mu.Unlock()
		pk.poke()
		close(readerDone)
	}()
	parent, cancel := context.WithCancel(context.Background())
	defer cancel()
	var cs []*c17svc
	var ss []services.Service
	for i := 0; i < n; i++ {
		c := newC17svcP('b', true, true, true, pk)
		c.parent = parent
		cs = append(cs, c)
		ss = append(ss, c.svc)
	}
	var mgr *services.Manager
	if mode == "m" {
		mgr, _ = services.NewManager(ss...)
		w.WatchManager(mgr)
	} else {
		for _, s := range ss {
			w.WatchService(s)
		}
	}
	closed := false
	panics := 0
	expected := 0
	failedSeen := make([]bool, n)
	snapshot := func() string {
		mu.Lock()
		defer mu.Unlock()
		g := "-"
		if len(got) > 0 {
			g = strings.Join(got, ",")
		}
		cc := "0"
		if chClosed {
			cc = "1"
		}
		sts := ""
		for _, c := range cs {
			sts += c17StateCode(c.svc.State())
		}
		return g + ";" + cc + ";" + strconv.Itoa(panics) + ";" + sts
	}
	timeouts := 0
	settle := func() {
		ok := waitUntil(pk, func() bool {
			for _, c := range cs {
				if !c.quiet() {
					return false
				}
			}
			return true
		})
		for i, c := range cs {
			if c.svc.State() == services.Failed && !failedSeen[i] {
				failedSeen[i] = true
				if !closed {
					expected++
				}
			}
		}
		ok = ok && waitUntil(pk, func() bool {
			mu.Lock()
			defer mu.Unlock()
			return len(got) >= expected && (!closed || chClosed)
		})
		if !ok {
			timeouts++
		}
	}
	settle()
	snaps = append(snaps, snapshot())
	applicable := func(a string) bool {
		switch {
		case a == "C":
			return true
		case a == "WS":
			return closed
		}
		i, _ := strconv.Atoi(strings.SplitN(a[1:], ":", 2)[0])
		if i >= n {
			return false
		}
		switch a[:1] {
		case "S":
			return cs[i].nS < 1
		case "X":
			return true
		case "s", "r", "p":
			return cs[i].blockedGate() == a[:1]
		}
		return false
	}
	nC := 0
	for step := 0; step < steps; step++ {
		var app []string
		for _, a := range weighted {
			if applicable(a) && !(a == "C" && nC >= 2) {
				app = append(app, a)
			}
		}
		if len(app) == 0 {
			break
		}
		a := pick(r, app)
		if a == "C" {
			nC++
		}
		tr.step(a)
		switch {
		case a == "C":
			func() {
				defer func() {
					if recover() != nil {
						panics++
					}
				}()
				w.Close()
				closed = true
			}()
		case a == "WS":
			if !closed {
				continue // only interesting after Close (documented panic)
			}
			func() {
				defer func() {
					if recover() != nil {
						panics++
					}
				}()
				w.WatchService(ss[0])
			}()
		default:
			kind := a[:1]
			parts := strings.SplitN(a[1:], ":", 2)
			i, _ := strconv.Atoi(parts[0])
			k := 0
			if len(parts) == 2 {
				k, _ = strconv.Atoi(parts[1])
			}
			if i >= n {
				continue
			}
			c := cs[i]
			switch kind {
			case "S":
				if c.nS >= 1 {
					continue
				}
				c.nS++
				_ = c.svc.StartAsync(parent)
			case "X":
				c.svc.StopAsync()
			case "s", "r", "p":
				if !c.release(kind, k) {
					continue
				}
			default:
				continue
			}
		}
		settle()
		done = append(done, a)
		snaps = append(snaps, snapshot())
	}
	if !closed {
		w.Close()
	}
	<-readerDone
	for _, c := range cs {
		c.cleanup()
	}
	if timeouts > 0 {
		snaps[len(snaps)-1] += ";to" + strconv.Itoa(timeouts)
	}
	return
}

// runFWBlockCase: a failure watcher WITHOUT a permanent reader (the channel is unbuffered). Close and
// WatchService are called on their own goroutines; whether they have returned is observed 25 ms after every
// action (a blocked call stays blocked; an unblocked one returns within microseconds) - the only part of the
// C17 harness that waits for a fixed time, because "is blocked" has no event to wait for.
func runFWBlockCase(n int, acts []string) (done, snaps []string) {
	tr := newTrack("C17.fwblock", strconv.Itoa(n))
	defer tr.done()
	w := services.NewFailureWatcher()
	pk := make(poker, 1)
	var cs []*c17svc
	for i := 0; i < n; i++ {
		c := newC17svcP('b', true, true, true, pk)
		cs = append(cs, c)
		w.WatchService(c.svc)
	}
	var mu sync.Mutex
	var got []string
	returned, panicked := 0, 0
	closedCh := false
	snapshot := func() string {
		time.Sleep(25 * time.Millisecond)
		mu.Lock()
		defer mu.Unlock()
		g := "-"
		if len(got) > 0 {
			g = strings.Join(got, ",")
		}
		return g + ";" + strconv.Itoa(returned) + ";" + strconv.Itoa(panicked)
	}
	snaps = append(snaps, snapshot())
	for _, a := range acts {
		switch {
		case a == "C":
			go func() {
				w.Close()
				mu.Lock()
				returned++
				mu.Unlock()
			}()
		case a == "WS":
			go func() {
				defer func() {
					mu.Lock()
					if recover() != nil {
						panicked++
					}
					returned++
					mu.Unlock()
				}()
				w.WatchService(services.NewIdleService(nil, nil))
			}()
		case a == "RD":
			if closedCh {
				continue
			}
			select {
			case err, ok := <-w.Chan():
				if !ok {
					closedCh = true
					continue
				}
				mu.Lock()
				got = append(got, c17ErrID(err))
				mu.Unlock()
			case <-time.After(100 * time.Millisecond):
				continue // nothing to read
			}
		default:
			kind := a[:1]
			parts := strings.SplitN(a[1:], ":", 2)
			i, _ := strconv.Atoi(parts[0])
			k := 0
			if len(parts) == 2 {
				k, _ = strconv.Atoi(parts[1])
			}
			if i >= n {
				continue
			}
			c := cs[i]
			switch kind {
			case "S":
				if c.nS >= 1 {
					continue
				}
				c.nS++
				_ = c.svc.StartAsync(context.Background())
			case "s":
				if !c.release("s", k) {
					continue
				}
			default:
				continue
			}
			waitUntil(pk, c.quiet)
		}
		tr.step(a)
		done = append(done, a)
		snaps = append(snaps, snapshot())
	}
	// release everything: drain the channel so that pending Close / Watch calls return, then clean up
	go func() {
		for range w.Chan() {
		}
	}()
	w.Close()
	for _, c := range cs {
		c.cleanup()
	}
	return
}

func runC17FW(e *env) {
	r := newRng(e.seed, 3)
	_ = r
	// the unread-failure scenarios (few: each action waits 25 ms)
	nb := 24 * e.scale
	if nb > 120 {
		nb = 120
	}
	type bres struct {
		n           int
		done, snaps []string
	}
	bs := parallelMap(nb, c17Workers(), func(i int) bres {
		rr := newRng(e.seed, 4000+uint64(i))
		k := 1 + rr.intn(2)
		al := []string{"S0", "s0:1", "S1", "s1:4", "C", "C", "WS", "RD", "RD"}
		var acts []string
		if i < 4 {
			acts = [][]string{{"S0", "s0:1", "C", "WS", "RD"}, {"S0", "s0:1", "RD", "C", "WS"}, {"C", "WS", "C"}, {"S0", "s0:1", "C", "C", "RD"}}[i]
		} else {
			for j := 0; j < 4+rr.intn(5); j++ {
				acts = append(acts, pick(rr, al))
			}
		}
		dn, sn := runFWBlockCase(k, acts)
		return bres{k, dn, sn}
	})
	for _, x := range bs {
		acts := "-"
		if len(x.done) > 0 {
			acts = strings.Join(x.done, " ")
		}
		e.emit("C17.fwblock", strconv.Itoa(x.n), acts, strings.Join(x.snaps, " | "))
	}
	n := 1200 * e.scale
	type res struct {
		mode        string
		n           int
		done, snaps []string
	}
	rs := parallelMap(n, c17Workers(), func(i int) res {
		rr := newRng(e.seed, 3000+uint64(i))
		k := 1 + rr.intn(3)
		mode := pick(rr, []string{"s", "m"})
		var al []string
		for j := 0; j < k; j++ {
			js := strconv.Itoa(j)
			al = append(al, "S"+js, "S"+js, "S"+js, "X"+js, "s"+js+":0", "s"+js+":0", "s"+js+":"+strconv.Itoa(3*j+1), "r"+js+":0",
				"r"+js+":"+strconv.Itoa(3*j+2), "p"+js+":0", "p"+js+":"+strconv.Itoa(3*j+3), "p"+js+":"+strconv.Itoa(3*j+3))
		}
		if rr.chance(1, 2) {
			al = append(al, "C", "WS")
		}
		dn, sn := runFWCase(mode, k, al, 3+rr.intn(6*k), rr)
		return res{mode, k, dn, sn}
	})
	for _, x := range rs {
		acts := "-"
		if len(x.done) > 0 {
			acts = strings.Join(x.done, " ")
		}
		e.emit("C17.fw", x.mode+","+strconv.Itoa(x.n), acts, strings.Join(x.snaps, " | "))
	}
}
